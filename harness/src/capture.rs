//! A recording serde Serializer: captures the data-model call tree a `Serialize` impl produces
//! (kinds, type / field / variant names, variant indices, arity), for C12 and C14.
use crate::dynval::{Val, IK};
use serde::ser::{self, Serialize};

#[derive(Clone, Debug, PartialEq)]
pub enum NV {
    Bool(bool),
    Int(IK, i128, u128),
    F32(u32),
    F64(u64),
    Char(char),
    Str(Vec<u8>),
    Bytes(Vec<u8>),
    None,
    Some(Box<NV>),
    Unit,
    UnitStruct(&'static str),
    NewtypeStruct(&'static str, Box<NV>),
    Seq(Vec<NV>),
    Tuple(Vec<NV>),
    TupleStruct(&'static str, Vec<NV>),
    Map(Vec<(NV, NV)>),
    Struct(&'static str, Vec<(&'static str, NV)>),
    /// enum name, variant index, variant name, payload (UnitStruct / NewtypeStruct / TupleStruct /
    /// Struct carrying the variant name)
    Variant(&'static str, u32, &'static str, Box<NV>),
}

impl NV {
    /// forget the names: the value as the wire format sees it
    pub fn to_val(&self) -> Val {
        match self {
            NV::Bool(b) => Val::Bool(*b),
            NV::Int(k, i, u) => Val::Int(*k, *i, *u),
            NV::F32(b) => Val::F32(*b),
            NV::F64(b) => Val::F64(*b),
            NV::Char(c) => Val::Char(*c),
            NV::Str(b) => Val::Str(b.clone()),
            NV::Bytes(b) => Val::Bytes(b.clone()),
            NV::None => Val::None,
            NV::Some(x) => Val::Some(Box::new(x.to_val())),
            NV::Unit => Val::Unit,
            NV::UnitStruct(_) => Val::UnitStruct,
            NV::NewtypeStruct(_, x) => Val::Newtype(Box::new(x.to_val())),
            NV::Seq(xs) => Val::Seq(xs.iter().map(|x| x.to_val()).collect()),
            NV::Tuple(xs) => Val::Tuple(xs.iter().map(|x| x.to_val()).collect()),
            NV::TupleStruct(_, xs) => Val::TupleStruct(xs.iter().map(|x| x.to_val()).collect()),
            NV::Map(kvs) => Val::Map(kvs.iter().map(|(k, v)| (k.to_val(), v.to_val())).collect()),
            NV::Struct(_, fs) => Val::Struct(fs.iter().map(|(_, v)| v.to_val()).collect()),
            NV::Variant(_, idx, _, p) => Val::Variant(*idx, Box::new(p.to_val())),
        }
    }
}

#[derive(Debug)]
pub struct CapErr(pub String);
impl std::fmt::Display for CapErr {
    fn fmt(&self, f: &mut std::fmt::Formatter<'_>) -> std::fmt::Result {
        write!(f, "{}", self.0)
    }
}
impl std::error::Error for CapErr {}
impl ser::Error for CapErr {
    fn custom<T: std::fmt::Display>(msg: T) -> Self {
        CapErr(msg.to_string())
    }
}

pub fn capture<T: Serialize + ?Sized>(t: &T) -> Result<NV, CapErr> {
    t.serialize(Cap)
}

pub struct Cap;
pub struct CapSeq(Vec<NV>, Kind);
pub struct CapMap(Vec<(NV, NV)>, Option<NV>);
pub struct CapStruct(Vec<(&'static str, NV)>, Kind);
pub enum Kind {
    Seq,
    Tuple,
    TupleStruct(&'static str),
    TupleVariant(&'static str, u32, &'static str),
    Struct(&'static str),
    StructVariant(&'static str, u32, &'static str),
}

macro_rules! ints {
    ($($f:ident $t:ty => $k:ident $signed:expr;)*) => {$(
        fn $f(self, v: $t) -> Result<NV, CapErr> {
            Ok(if $signed { NV::Int(IK::$k, v as i128, 0) } else { NV::Int(IK::$k, 0, v as u128) })
        }
    )*};
}

impl ser::Serializer for Cap {
    type Ok = NV;
    type Error = CapErr;
    type SerializeSeq = CapSeq;
    type SerializeTuple = CapSeq;
    type SerializeTupleStruct = CapSeq;
    type SerializeTupleVariant = CapSeq;
    type SerializeMap = CapMap;
    type SerializeStruct = CapStruct;
    type SerializeStructVariant = CapStruct;
    fn is_human_readable(&self) -> bool {
        false
    }
    fn serialize_bool(self, v: bool) -> Result<NV, CapErr> {
        Ok(NV::Bool(v))
    }
    ints! {
        serialize_i8 i8 => I8 true; serialize_i16 i16 => I16 true; serialize_i32 i32 => I32 true;
        serialize_i64 i64 => I64 true; serialize_i128 i128 => I128 true;
        serialize_u8 u8 => U8 false; serialize_u16 u16 => U16 false; serialize_u32 u32 => U32 false;
        serialize_u64 u64 => U64 false; serialize_u128 u128 => U128 false;
    }
    fn serialize_f32(self, v: f32) -> Result<NV, CapErr> {
        Ok(NV::F32(v.to_bits()))
    }
    fn serialize_f64(self, v: f64) -> Result<NV, CapErr> {
        Ok(NV::F64(v.to_bits()))
    }
    fn serialize_char(self, v: char) -> Result<NV, CapErr> {
        Ok(NV::Char(v))
    }
    fn serialize_str(self, v: &str) -> Result<NV, CapErr> {
        Ok(NV::Str(v.as_bytes().to_vec()))
    }
    fn serialize_bytes(self, v: &[u8]) -> Result<NV, CapErr> {
        Ok(NV::Bytes(v.to_vec()))
    }
    fn serialize_none(self) -> Result<NV, CapErr> {
        Ok(NV::None)
    }
    fn serialize_some<T: Serialize + ?Sized>(self, v: &T) -> Result<NV, CapErr> {
        Ok(NV::Some(Box::new(v.serialize(Cap)?)))
    }
    fn serialize_unit(self) -> Result<NV, CapErr> {
        Ok(NV::Unit)
    }
    fn serialize_unit_struct(self, name: &'static str) -> Result<NV, CapErr> {
        Ok(NV::UnitStruct(name))
    }
    fn serialize_unit_variant(self, name: &'static str, idx: u32, vname: &'static str) -> Result<NV, CapErr> {
        Ok(NV::Variant(name, idx, vname, Box::new(NV::UnitStruct(vname))))
    }
    fn serialize_newtype_struct<T: Serialize + ?Sized>(self, name: &'static str, v: &T) -> Result<NV, CapErr> {
        Ok(NV::NewtypeStruct(name, Box::new(v.serialize(Cap)?)))
    }
    fn serialize_newtype_variant<T: Serialize + ?Sized>(self, name: &'static str, idx: u32, vname: &'static str, v: &T) -> Result<NV, CapErr> {
        Ok(NV::Variant(name, idx, vname, Box::new(NV::NewtypeStruct(vname, Box::new(v.serialize(Cap)?)))))
    }
    fn serialize_seq(self, len: Option<usize>) -> Result<CapSeq, CapErr> {
        len.ok_or_else(|| CapErr("sequence of unknown length".into()))?;
        Ok(CapSeq(Vec::new(), Kind::Seq))
    }
    fn serialize_tuple(self, _len: usize) -> Result<CapSeq, CapErr> {
        Ok(CapSeq(Vec::new(), Kind::Tuple))
    }
    fn serialize_tuple_struct(self, name: &'static str, _len: usize) -> Result<CapSeq, CapErr> {
        Ok(CapSeq(Vec::new(), Kind::TupleStruct(name)))
    }
    fn serialize_tuple_variant(self, name: &'static str, idx: u32, vname: &'static str, _len: usize) -> Result<CapSeq, CapErr> {
        Ok(CapSeq(Vec::new(), Kind::TupleVariant(name, idx, vname)))
    }
    fn serialize_map(self, len: Option<usize>) -> Result<CapMap, CapErr> {
        len.ok_or_else(|| CapErr("map of unknown length".into()))?;
        Ok(CapMap(Vec::new(), None))
    }
    fn serialize_struct(self, name: &'static str, _len: usize) -> Result<CapStruct, CapErr> {
        Ok(CapStruct(Vec::new(), Kind::Struct(name)))
    }
    fn serialize_struct_variant(self, name: &'static str, idx: u32, vname: &'static str, _len: usize) -> Result<CapStruct, CapErr> {
        Ok(CapStruct(Vec::new(), Kind::StructVariant(name, idx, vname)))
    }
    fn collect_str<T: std::fmt::Display + ?Sized>(self, v: &T) -> Result<NV, CapErr> {
        Ok(NV::Str(v.to_string().into_bytes()))
    }
}

impl CapSeq {
    fn finish(self) -> NV {
        match self.1 {
            Kind::Seq => NV::Seq(self.0),
            Kind::Tuple => NV::Tuple(self.0),
            Kind::TupleStruct(n) => NV::TupleStruct(n, self.0),
            Kind::TupleVariant(n, i, v) => NV::Variant(n, i, v, Box::new(NV::TupleStruct(v, self.0))),
            _ => unreachable!(),
        }
    }
}
impl ser::SerializeSeq for CapSeq {
    type Ok = NV;
    type Error = CapErr;
    fn serialize_element<T: Serialize + ?Sized>(&mut self, v: &T) -> Result<(), CapErr> {
        self.0.push(v.serialize(Cap)?);
        Ok(())
    }
    fn end(self) -> Result<NV, CapErr> {
        Ok(self.finish())
    }
}
impl ser::SerializeTuple for CapSeq {
    type Ok = NV;
    type Error = CapErr;
    fn serialize_element<T: Serialize + ?Sized>(&mut self, v: &T) -> Result<(), CapErr> {
        self.0.push(v.serialize(Cap)?);
        Ok(())
    }
    fn end(self) -> Result<NV, CapErr> {
        Ok(self.finish())
    }
}
impl ser::SerializeTupleStruct for CapSeq {
    type Ok = NV;
    type Error = CapErr;
    fn serialize_field<T: Serialize + ?Sized>(&mut self, v: &T) -> Result<(), CapErr> {
        self.0.push(v.serialize(Cap)?);
        Ok(())
    }
    fn end(self) -> Result<NV, CapErr> {
        Ok(self.finish())
    }
}
impl ser::SerializeTupleVariant for CapSeq {
    type Ok = NV;
    type Error = CapErr;
    fn serialize_field<T: Serialize + ?Sized>(&mut self, v: &T) -> Result<(), CapErr> {
        self.0.push(v.serialize(Cap)?);
        Ok(())
    }
    fn end(self) -> Result<NV, CapErr> {
        Ok(self.finish())
    }
}
impl ser::SerializeMap for CapMap {
    type Ok = NV;
    type Error = CapErr;
    fn serialize_key<T: Serialize + ?Sized>(&mut self, k: &T) -> Result<(), CapErr> {
        self.1 = Some(k.serialize(Cap)?);
        Ok(())
    }
    fn serialize_value<T: Serialize + ?Sized>(&mut self, v: &T) -> Result<(), CapErr> {
        let k = self.1.take().ok_or_else(|| CapErr("value without key".into()))?;
        self.0.push((k, v.serialize(Cap)?));
        Ok(())
    }
    fn end(self) -> Result<NV, CapErr> {
        Ok(NV::Map(self.0))
    }
}
impl CapStruct {
    fn finish(self) -> NV {
        match self.1 {
            Kind::Struct(n) => NV::Struct(n, self.0),
            Kind::StructVariant(n, i, v) => NV::Variant(n, i, v, Box::new(NV::Struct(v, self.0))),
            _ => unreachable!(),
        }
    }
}
impl ser::SerializeStruct for CapStruct {
    type Ok = NV;
    type Error = CapErr;
    fn serialize_field<T: Serialize + ?Sized>(&mut self, name: &'static str, v: &T) -> Result<(), CapErr> {
        self.0.push((name, v.serialize(Cap)?));
        Ok(())
    }
    fn end(self) -> Result<NV, CapErr> {
        Ok(self.finish())
    }
}
impl ser::SerializeStructVariant for CapStruct {
    type Ok = NV;
    type Error = CapErr;
    fn serialize_field<T: Serialize + ?Sized>(&mut self, name: &'static str, v: &T) -> Result<(), CapErr> {
        self.0.push((name, v.serialize(Cap)?));
        Ok(())
    }
    fn end(self) -> Result<NV, CapErr> {
        Ok(self.finish())
    }
}

// ---------- text form (shared with runner/util.ml: nvalue_of_sexp) ----------
fn xn(s: &str) -> String {
    crate::dynval::hex(s.as_bytes())
}
impl std::fmt::Display for NV {
    fn fmt(&self, f: &mut std::fmt::Formatter<'_>) -> std::fmt::Result {
        use crate::dynval::{hex, hexi};
        let many = |f: &mut std::fmt::Formatter<'_>, head: String, xs: &[NV]| -> std::fmt::Result {
            write!(f, "({}", head)?;
            for x in xs {
                write!(f, " {}", x)?;
            }
            write!(f, ")")
        };
        match self {
            NV::Bool(b) => write!(f, "(b {})", *b as u8),
            NV::Int(k, z, u) => {
                if k.signed() {
                    write!(f, "(i {} {})", k.name(), hexi(*z))
                } else {
                    write!(f, "(i {} {:x})", k.name(), u)
                }
            }
            NV::F32(b) => write!(f, "(f32 {:x})", b),
            NV::F64(b) => write!(f, "(f64 {:x})", b),
            NV::Char(c) => write!(f, "(c {:x})", *c as u32),
            NV::Str(b) => write!(f, "(s {})", hex(b)),
            NV::Bytes(b) => write!(f, "(y {})", hex(b)),
            NV::None => write!(f, "none"),
            NV::Some(x) => write!(f, "(some {})", x),
            NV::Unit => write!(f, "unit"),
            NV::UnitStruct(n) => write!(f, "(us {})", xn(n)),
            NV::NewtypeStruct(n, x) => write!(f, "(ns {} {})", xn(n), x),
            NV::Seq(xs) => many(f, "seq".into(), xs),
            NV::Tuple(xs) => many(f, "tup".into(), xs),
            NV::TupleStruct(n, xs) => many(f, format!("ts {}", xn(n)), xs),
            NV::Map(kvs) => {
                write!(f, "(map")?;
                for (k, v) in kvs {
                    write!(f, " {} {}", k, v)?;
                }
                write!(f, ")")
            }
            NV::Struct(n, fs) => {
                write!(f, "(st {}", xn(n))?;
                for (fname, v) in fs {
                    write!(f, " ({} {})", xn(fname), v)?;
                }
                write!(f, ")")
            }
            NV::Variant(e, i, v, p) => write!(f, "(var {} {:x} {} {})", xn(e), i, xn(v), p),
        }
    }
}
