//! The catalogue CRC algorithms the harness exercises, five widths.
use crate::dynval::{Ty, Val};
use crate::props::{with_ty, Dyn};
use crate::refimpl::Alg;

pub static C8_SMBUS: crc::Crc<u8> = crc::Crc::<u8>::new(&crc::CRC_8_SMBUS);
pub static C8_MAXIM: crc::Crc<u8> = crc::Crc::<u8>::new(&crc::CRC_8_MAXIM_DOW);
pub static C16_SDLC: crc::Crc<u16> = crc::Crc::<u16>::new(&crc::CRC_16_IBM_SDLC);
pub static C16_XMODEM: crc::Crc<u16> = crc::Crc::<u16>::new(&crc::CRC_16_XMODEM);
pub static C32_ISCSI: crc::Crc<u32> = crc::Crc::<u32>::new(&crc::CRC_32_ISCSI);
pub static C32_HDLC: crc::Crc<u32> = crc::Crc::<u32>::new(&crc::CRC_32_ISO_HDLC);
pub static C32_MPEG2: crc::Crc<u32> = crc::Crc::<u32>::new(&crc::CRC_32_MPEG_2);
pub static C64_ECMA: crc::Crc<u64> = crc::Crc::<u64>::new(&crc::CRC_64_ECMA_182);
pub static C64_XZ: crc::Crc<u64> = crc::Crc::<u64>::new(&crc::CRC_64_XZ);
pub static C82_DARC: crc::Crc<u128> = crc::Crc::<u128>::new(&crc::CRC_82_DARC);

#[derive(Clone, Copy)]
pub enum K {
    U8(&'static crc::Crc<u8>),
    U16(&'static crc::Crc<u16>),
    U32(&'static crc::Crc<u32>),
    U64(&'static crc::Crc<u64>),
    U128(&'static crc::Crc<u128>),
}
#[derive(Clone, Copy)]
pub struct CrcAlg {
    pub k: K,
    pub alg: Alg,
}
macro_rules! mk {
    ($k:ident, $c:expr, $a:expr, $name:expr) => {
        CrcAlg { k: K::$k(&$c), alg: Alg { width: $a.width as u32, poly: $a.poly as u128, init: $a.init as u128, refin: $a.refin, refout: $a.refout, xorout: $a.xorout as u128, name: $name } }
    };
}
pub fn algs() -> Vec<CrcAlg> {
    vec![
        mk!(U8, C8_SMBUS, crc::CRC_8_SMBUS, "CRC-8/SMBUS"),
        mk!(U8, C8_MAXIM, crc::CRC_8_MAXIM_DOW, "CRC-8/MAXIM-DOW"),
        mk!(U16, C16_SDLC, crc::CRC_16_IBM_SDLC, "CRC-16/IBM-SDLC"),
        mk!(U16, C16_XMODEM, crc::CRC_16_XMODEM, "CRC-16/XMODEM"),
        mk!(U32, C32_ISCSI, crc::CRC_32_ISCSI, "CRC-32/ISCSI"),
        mk!(U32, C32_HDLC, crc::CRC_32_ISO_HDLC, "CRC-32/ISO-HDLC"),
        mk!(U32, C32_MPEG2, crc::CRC_32_MPEG_2, "CRC-32/MPEG-2"),
        mk!(U64, C64_ECMA, crc::CRC_64_ECMA_182, "CRC-64/ECMA-182"),
        mk!(U64, C64_XZ, crc::CRC_64_XZ, "CRC-64/XZ"),
        mk!(U128, C82_DARC, crc::CRC_82_DARC, "CRC-82/DARC"),
    ]
}

use postcard::ser_flavors::crc as sc;
use postcard::de_flavors::crc as dc;

impl CrcAlg {
    pub fn to_slice<'a>(&self, v: &Val, buf: &'a mut [u8]) -> Result<&'a mut [u8], postcard::Error> {
        match self.k {
            K::U8(c) => sc::to_slice_u8(v, buf, c.digest()),
            K::U16(c) => sc::to_slice_u16(v, buf, c.digest()),
            K::U32(c) => sc::to_slice_u32(v, buf, c.digest()),
            K::U64(c) => sc::to_slice_u64(v, buf, c.digest()),
            K::U128(c) => sc::to_slice_u128(v, buf, c.digest()),
        }
    }
    pub fn to_allocvec(&self, v: &Val) -> Result<Vec<u8>, postcard::Error> {
        match self.k {
            K::U8(c) => sc::to_allocvec_u8(v, c.digest()),
            K::U16(c) => sc::to_allocvec_u16(v, c.digest()),
            K::U32(c) => sc::to_allocvec_u32(v, c.digest()),
            K::U64(c) => sc::to_allocvec_u64(v, c.digest()),
            K::U128(c) => sc::to_allocvec_u128(v, c.digest()),
        }
    }
    pub fn to_vec<const B: usize>(&self, v: &Val) -> Result<Vec<u8>, postcard::Error> {
        match self.k {
            K::U8(c) => sc::to_vec_u8::<Val, B>(v, c.digest()).map(|h| h.to_vec()),
            K::U16(c) => sc::to_vec_u16::<Val, B>(v, c.digest()).map(|h| h.to_vec()),
            K::U32(c) => sc::to_vec_u32::<Val, B>(v, c.digest()).map(|h| h.to_vec()),
            K::U64(c) => sc::to_vec_u64::<Val, B>(v, c.digest()).map(|h| h.to_vec()),
            K::U128(c) => sc::to_vec_u128::<Val, B>(v, c.digest()).map(|h| h.to_vec()),
        }
    }
    pub fn take_from_bytes(&self, t: &Ty, input: &[u8]) -> Result<(Val, Vec<u8>), postcard::Error> {
        with_ty(t, || match self.k {
            K::U8(c) => dc::take_from_bytes_u8::<Dyn>(input, c.digest()).map(|(d, r)| (d.0, r.to_vec())),
            K::U16(c) => dc::take_from_bytes_u16::<Dyn>(input, c.digest()).map(|(d, r)| (d.0, r.to_vec())),
            K::U32(c) => dc::take_from_bytes_u32::<Dyn>(input, c.digest()).map(|(d, r)| (d.0, r.to_vec())),
            K::U64(c) => dc::take_from_bytes_u64::<Dyn>(input, c.digest()).map(|(d, r)| (d.0, r.to_vec())),
            K::U128(c) => dc::take_from_bytes_u128::<Dyn>(input, c.digest()).map(|(d, r)| (d.0, r.to_vec())),
        })
    }
    pub fn from_bytes(&self, t: &Ty, input: &[u8]) -> Result<Val, postcard::Error> {
        with_ty(t, || match self.k {
            K::U8(c) => dc::from_bytes_u8::<Dyn>(input, c.digest()).map(|d| d.0),
            K::U16(c) => dc::from_bytes_u16::<Dyn>(input, c.digest()).map(|d| d.0),
            K::U32(c) => dc::from_bytes_u32::<Dyn>(input, c.digest()).map(|d| d.0),
            K::U64(c) => dc::from_bytes_u64::<Dyn>(input, c.digest()).map(|d| d.0),
            K::U128(c) => dc::from_bytes_u128::<Dyn>(input, c.digest()).map(|d| d.0),
        })
    }
    /// the crate's own checksum (for comparing the table-driven implementation with the
    /// bitwise reference)
    pub fn checksum(&self, data: &[u8]) -> u128 {
        match self.k {
            K::U8(c) => c.checksum(data) as u128,
            K::U16(c) => c.checksum(data) as u128,
            K::U32(c) => c.checksum(data) as u128,
            K::U64(c) => c.checksum(data) as u128,
            K::U128(c) => c.checksum(data),
        }
    }
    /// Crc<..> wrapped around Cobs<storage>: the only CRC/COBS stack that type-checks
    pub fn to_slice_crc_cobs<'a>(&self, v: &Val, buf: &'a mut [u8]) -> Result<&'a mut [u8], postcard::Error> {
        use postcard::ser_flavors::{crc::CrcModifier, Cobs, Slice};
        use postcard::serialize_with_flavor;
        match self.k {
            K::U8(c) => serialize_with_flavor(v, CrcModifier::new(Cobs::try_new(Slice::new(buf))?, c.digest())),
            K::U16(c) => serialize_with_flavor(v, CrcModifier::new(Cobs::try_new(Slice::new(buf))?, c.digest())),
            K::U32(c) => serialize_with_flavor(v, CrcModifier::new(Cobs::try_new(Slice::new(buf))?, c.digest())),
            K::U64(c) => serialize_with_flavor(v, CrcModifier::new(Cobs::try_new(Slice::new(buf))?, c.digest())),
            K::U128(c) => serialize_with_flavor(v, CrcModifier::new(Cobs::try_new(Slice::new(buf))?, c.digest())),
        }
    }
    pub fn to_allocvec_crc_cobs(&self, v: &Val) -> Result<Vec<u8>, postcard::Error> {
        use postcard::ser_flavors::{crc::CrcModifier, AllocVec, Cobs};
        use postcard::serialize_with_flavor;
        match self.k {
            K::U8(c) => serialize_with_flavor(v, CrcModifier::new(Cobs::try_new(AllocVec::new())?, c.digest())),
            K::U16(c) => serialize_with_flavor(v, CrcModifier::new(Cobs::try_new(AllocVec::new())?, c.digest())),
            K::U32(c) => serialize_with_flavor(v, CrcModifier::new(Cobs::try_new(AllocVec::new())?, c.digest())),
            K::U64(c) => serialize_with_flavor(v, CrcModifier::new(Cobs::try_new(AllocVec::new())?, c.digest())),
            K::U128(c) => serialize_with_flavor(v, CrcModifier::new(Cobs::try_new(AllocVec::new())?, c.digest())),
        }
    }
    pub fn to_vec_crc_cobs<const B: usize>(&self, v: &Val) -> Result<Vec<u8>, postcard::Error> {
        use postcard::ser_flavors::{crc::CrcModifier, Cobs, HVec};
        use postcard::serialize_with_flavor;
        let r: Result<heapless::Vec<u8, B>, postcard::Error> = match self.k {
            K::U8(c) => serialize_with_flavor(v, CrcModifier::new(Cobs::try_new(HVec::<B>::new())?, c.digest())),
            K::U16(c) => serialize_with_flavor(v, CrcModifier::new(Cobs::try_new(HVec::<B>::new())?, c.digest())),
            K::U32(c) => serialize_with_flavor(v, CrcModifier::new(Cobs::try_new(HVec::<B>::new())?, c.digest())),
            K::U64(c) => serialize_with_flavor(v, CrcModifier::new(Cobs::try_new(HVec::<B>::new())?, c.digest())),
            K::U128(c) => serialize_with_flavor(v, CrcModifier::new(Cobs::try_new(HVec::<B>::new())?, c.digest())),
        };
        r.map(|h| h.to_vec())
    }
}

/// dispatch a run-time capacity to a const generic one; None when the capacity is not
/// instantiated
#[macro_export]
macro_rules! hcap {
    ($cap:expr, $B:ident => $body:expr) => {
        $crate::hcap!(@go $cap, $B => $body, [0, 1, 2, 3, 4, 5, 6, 7, 8, 9, 10, 11, 12, 13, 14, 15, 16, 17, 18, 19, 20, 21, 22, 23, 24, 25, 26, 27, 28, 29, 30, 31, 32, 33, 34, 35, 36, 37, 38, 39, 40, 41, 42, 43, 44, 45, 46, 47, 48, 49, 50, 51, 52, 53, 54, 55, 56, 57, 58, 59, 60, 61, 62, 63, 64, 65, 66, 67, 68, 69, 70, 71, 72, 127, 128, 129, 130, 249, 250, 251, 252, 253, 254, 255, 256, 257, 258, 259, 260, 261, 262, 300, 504, 505, 506, 507, 508, 509, 510, 511, 512, 513, 514, 515, 1024])
    };
    (@go $cap:expr, $B:ident => $body:expr, [$($n:literal),*]) => {
        match $cap {
            $( $n => { const $B: usize = $n; Some($body) } )*
            _ => None,
        }
    };
}
