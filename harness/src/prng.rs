//! One splitmix64 state drives every random choice, so a seed replays exactly.
#[derive(Clone)]
pub struct Rng(pub u64);

impl Rng {
    pub fn new(seed: u64) -> Self {
        Rng(seed ^ 0x9E37_79B9_7F4A_7C15)
    }
    pub fn next(&mut self) -> u64 {
        self.0 = self.0.wrapping_add(0x9E37_79B9_7F4A_7C15);
        let mut z = self.0;
        z = (z ^ (z >> 30)).wrapping_mul(0xBF58_476D_1CE4_E5B9);
        z = (z ^ (z >> 27)).wrapping_mul(0x94D0_49BB_1331_11EB);
        z ^ (z >> 31)
    }
    pub fn below(&mut self, n: u64) -> u64 {
        if n == 0 {
            0
        } else {
            self.next() % n
        }
    }
    pub fn range(&mut self, lo: u64, hi: u64) -> u64 {
        lo + self.below(hi - lo + 1)
    }
    pub fn chance(&mut self, num: u64, den: u64) -> bool {
        self.below(den) < num
    }
    pub fn u128(&mut self) -> u128 {
        ((self.next() as u128) << 64) | self.next() as u128
    }
    pub fn pick<'a, T>(&mut self, xs: &'a [T]) -> &'a T {
        &xs[self.below(xs.len() as u64) as usize]
    }
    pub fn bytes(&mut self, n: usize) -> Vec<u8> {
        (0..n).map(|_| self.next() as u8).collect()
    }
    /// fewer than `max` random bytes
    pub fn bytes_upto(&mut self, max: u64) -> Vec<u8> {
        let n = self.below(max) as usize;
        self.bytes(n)
    }
    pub fn fork(&mut self) -> Rng {
        Rng(self.next())
    }
}
