//! Generators: type shapes over all 29 kinds and values biased to boundaries.
use crate::dynval::{Ty, Val, IK};
use crate::prng::Rng;

pub fn gen_int(r: &mut Rng, k: IK) -> Val {
    let bits = k.bits();
    let mask: u128 = if bits == 128 { u128::MAX } else { (1u128 << bits) - 1 };
    // raw bit pattern, biased to varint and type boundaries
    let pat: u128 = match r.below(12) {
        10 | 11 => {
            // the limits of the narrower integer types (where a fast path for a smaller width would
            // begin or end): +-2^b and neighbours, as a two's complement pattern of this width
            let b = *r.pick(&[7u32, 8, 15, 16, 31, 32, 63, 64, 127]);
            let base = if b >= 128 { 0 } else { 1u128 << b };
            let v = match r.below(3) {
                0 => base.wrapping_sub(1),
                1 => base,
                _ => base.wrapping_add(1),
            };
            if r.chance(1, 2) { v } else { v.wrapping_neg() }
        }
        0 => 0,
        1 => 1,
        2 => mask,
        3 => mask >> 1,                    // MAX of the signed type
        4 => (mask >> 1) + 1,              // MIN of the signed type
        5 | 6 => {
            // 2^(7k) and neighbours
            let k7 = 7 * r.range(1, ((bits + 6) / 7) as u64) as u32;
            let base = if k7 >= 128 { 0 } else { 1u128 << k7 };
            match r.below(3) {
                0 => base.wrapping_sub(1),
                1 => base,
                _ => base.wrapping_add(1),
            }
        }
        7 => {
            // random bit length
            let len = r.range(1, bits as u64) as u32;
            let v = r.u128();
            if len >= 128 { v } else { v & ((1u128 << len) - 1) }
        }
        _ => r.u128(),
    } & mask;
    if k.signed() {
        // interpret either as zig-zag image (so that the encoded varint hits the boundary)
        // or as two's complement
        let z: i128 = if r.chance(1, 2) {
            let half = (pat >> 1) as i128;
            if pat & 1 == 1 { -half - 1 } else { half }
        } else if bits == 128 {
            pat as i128
        } else if pat >> (bits - 1) & 1 == 1 {
            (pat as i128) - (1i128 << bits)
        } else {
            pat as i128
        };
        Val::signed(k, z)
    } else {
        Val::unsigned(k, pat)
    }
}

pub fn gen_f32(r: &mut Rng) -> u32 {
    match r.below(12) {
        0 => 0,
        1 => 0x8000_0000,
        2 => 0x7f80_0000,
        3 => 0xff80_0000,
        4 => 0x7fc0_0000 | (r.next() as u32 & 0x003f_ffff), // quiet NaN, payload
        5 => 0x7f80_0001 | (r.next() as u32 & 0x003f_fffe), // signalling NaN
        6 => 0xffc0_0000 | (r.next() as u32 & 0x003f_ffff),
        7 => r.next() as u32 & 0x807f_ffff,                 // subnormal
        8 => 0x3f80_0000,
        9 => 0x7f7f_ffff,
        _ => r.next() as u32,
    }
}
pub fn gen_f64(r: &mut Rng) -> u64 {
    match r.below(12) {
        0 => 0,
        1 => 0x8000_0000_0000_0000,
        2 => 0x7ff0_0000_0000_0000,
        3 => 0xfff0_0000_0000_0000,
        4 => 0x7ff8_0000_0000_0000 | (r.next() & 0x0007_ffff_ffff_ffff),
        5 => 0x7ff0_0000_0000_0001 | (r.next() & 0x0007_ffff_ffff_fffe),
        6 => 0xfff8_0000_0000_0000 | (r.next() & 0x0007_ffff_ffff_ffff),
        7 => r.next() & 0x800f_ffff_ffff_ffff,
        8 => 0x3ff0_0000_0000_0000,
        9 => 0x7fef_ffff_ffff_ffff,
        _ => r.next(),
    }
}
pub fn gen_char(r: &mut Rng) -> char {
    let c = match r.below(10) {
        0 => 0,
        1 => 0x7f,
        2 => 0x80,
        3 => 0x7ff,
        4 => 0x800,
        5 => 0xffff,
        6 => 0x10000,
        7 => 0x10ffff,
        8 => r.range(0xd7f0, 0xe010) as u32,
        _ => r.below(0x110000) as u32,
    };
    char::from_u32(c).unwrap_or('\u{fffd}')
}
pub fn gen_string(r: &mut Rng, maxlen: usize) -> Vec<u8> {
    let n = match r.below(8) {
        0 => 0,
        1 => 1,
        2 => r.range(120, 135) as usize,
        _ => r.below(12) as usize,
    }
    .min(maxlen);
    let mut s = String::new();
    for _ in 0..n {
        if r.chance(3, 4) {
            s.push((b'a' + r.below(26) as u8) as char);
        } else {
            s.push(gen_char(r));
        }
    }
    s.into_bytes()
}
pub fn gen_len(r: &mut Rng, budget: usize) -> usize {
    (match r.below(16) {
        0 => 0,
        1 => 1,
        2 => 127,
        3 => 128,
        4 => 300,
        _ => r.below(6) as usize,
    })
    .min(budget)
}

pub fn gen_variant_shape(r: &mut Rng, depth: u32) -> Ty {
    match r.below(4) {
        0 => Ty::UnitStruct,
        1 => Ty::Newtype(Box::new(gen_ty(r, depth))),
        2 => Ty::TupleStruct(gen_tys(r, depth, 0, 4)),
        _ => Ty::Struct(gen_tys(r, depth, 0, 4)),
    }
}
fn gen_tys(r: &mut Rng, depth: u32, lo: u64, hi: u64) -> Vec<Ty> {
    let n = r.range(lo, hi);
    (0..n).map(|_| gen_ty(r, depth)).collect()
}
pub fn gen_leaf(r: &mut Rng) -> Ty {
    match r.below(20) {
        0 => Ty::Bool,
        1..=10 => Ty::Int(*r.pick(&IK::ALL)),
        11 => Ty::F32,
        12 => Ty::F64,
        13 => Ty::Char,
        14 => Ty::Str,
        15 => Ty::Bytes,
        16 => Ty::Unit,
        17 => Ty::UnitStruct,
        18 => Ty::USize,
        _ => Ty::ISize,
    }
}
/// a random shape of nesting depth <= depth
pub fn gen_ty(r: &mut Rng, depth: u32) -> Ty {
    if depth == 0 || r.chance(2, 5) {
        return gen_leaf(r);
    }
    let d = depth - 1;
    match r.below(9) {
        0 => Ty::Option(Box::new(gen_ty(r, d))),
        1 => Ty::Newtype(Box::new(gen_ty(r, d))),
        2 => Ty::Seq(Box::new(gen_ty(r, d))),
        3 => Ty::Tuple(gen_tys(r, d, 0, 5)),
        4 => Ty::TupleStruct(gen_tys(r, d, 0, 5)),
        5 => Ty::Map(Box::new(gen_ty(r, d)), Box::new(gen_ty(r, d))),
        6 => Ty::Struct(gen_tys(r, d, 0, 6)),
        _ => {
            let n = match r.below(8) {
                0 => 1,
                1 => r.range(128, 131),
                _ => r.range(1, 5),
            };
            Ty::Enum((0..n).map(|_| gen_variant_shape(r, d)).collect())
        }
    }
}

/// a value of shape t; `budget` bounds collection sizes (shrinks with depth)
pub fn gen_val(r: &mut Rng, t: &Ty, budget: usize) -> Val {
    let sub = (budget / 4).max(1);
    match t {
        Ty::Bool => Val::Bool(r.chance(1, 2)),
        Ty::Int(k) => gen_int(r, *k),
        Ty::USize => match gen_int(r, IK::U64) {
            Val::Int(_, _, u) => Val::USize(u as u64),
            _ => unreachable!(),
        },
        Ty::ISize => match gen_int(r, IK::I64) {
            Val::Int(_, z, _) => Val::ISize(z as i64),
            _ => unreachable!(),
        },
        Ty::F32 => Val::F32(gen_f32(r)),
        Ty::F64 => Val::F64(gen_f64(r)),
        Ty::Char => Val::Char(gen_char(r)),
        Ty::Str => Val::Str(gen_string(r, budget.max(4) * 8)),
        Ty::Bytes => {
            let n = gen_len(r, budget.max(4) * 40);
            let mut b = r.bytes(n);
            if r.chance(1, 3) {
                for x in b.iter_mut() {
                    if *x & 3 == 0 {
                        *x = 0;
                    }
                }
            }
            Val::Bytes(b)
        }
        Ty::Option(t) => {
            if r.chance(1, 3) {
                Val::None
            } else {
                Val::Some(Box::new(gen_val(r, t, budget)))
            }
        }
        Ty::Unit => Val::Unit,
        Ty::UnitStruct => Val::UnitStruct,
        Ty::Newtype(t) => Val::Newtype(Box::new(gen_val(r, t, budget))),
        Ty::Seq(t) => {
            let n = gen_len(r, budget);
            Val::Seq((0..n).map(|_| gen_val(r, t, sub)).collect())
        }
        Ty::Tuple(ts) => Val::Tuple(ts.iter().map(|t| gen_val(r, t, budget)).collect()),
        Ty::TupleStruct(ts) => Val::TupleStruct(ts.iter().map(|t| gen_val(r, t, budget)).collect()),
        Ty::Struct(ts) => Val::Struct(ts.iter().map(|t| gen_val(r, t, budget)).collect()),
        Ty::Map(k, v) => {
            let n = gen_len(r, budget);
            Val::Map((0..n).map(|_| (gen_val(r, k, sub), gen_val(r, v, sub))).collect())
        }
        Ty::Enum(vs) => {
            // wide enums: half of the time an index at the one-byte / two-byte varint boundary
            let i = if vs.len() > 128 && r.chance(1, 2) { (126 + r.below(4) as usize).min(vs.len() - 1) } else { r.below(vs.len() as u64) as usize };
            Val::Variant(i as u32, Box::new(gen_val(r, &vs[i], budget)))
        }
    }
}

/// kinds present in a shape, for the distribution report
pub fn kinds(t: &Ty, out: &mut std::collections::BTreeMap<&'static str, u64>) {
    let name = match t {
        Ty::Bool => "bool",
        Ty::Int(k) => k.name(),
        Ty::USize => "usize",
        Ty::ISize => "isize",
        Ty::F32 => "f32",
        Ty::F64 => "f64",
        Ty::Char => "char",
        Ty::Str => "str",
        Ty::Bytes => "bytes",
        Ty::Option(_) => "option",
        Ty::Unit => "unit",
        Ty::UnitStruct => "unit_struct",
        Ty::Newtype(_) => "newtype_struct",
        Ty::Seq(_) => "seq",
        Ty::Tuple(_) => "tuple",
        Ty::TupleStruct(_) => "tuple_struct",
        Ty::Map(_, _) => "map",
        Ty::Struct(_) => "struct",
        Ty::Enum(_) => "enum",
    };
    *out.entry(name).or_insert(0) += 1;
    match t {
        Ty::Option(t) | Ty::Newtype(t) | Ty::Seq(t) => kinds(t, out),
        Ty::Tuple(ts) | Ty::TupleStruct(ts) | Ty::Struct(ts) => ts.iter().for_each(|t| kinds(t, out)),
        Ty::Map(k, v) => {
            kinds(k, out);
            kinds(v, out)
        }
        Ty::Enum(vs) => {
            for v in vs {
                let vn = match v {
                    Ty::UnitStruct => "unit_variant",
                    Ty::Newtype(_) => "newtype_variant",
                    Ty::TupleStruct(_) => "tuple_variant",
                    _ => "struct_variant",
                };
                *out.entry(vn).or_insert(0) += 1;
                match v {
                    Ty::Newtype(t) => kinds(t, out),
                    Ty::TupleStruct(ts) | Ty::Struct(ts) => ts.iter().for_each(|t| kinds(t, out)),
                    _ => {}
                }
            }
        }
        _ => {}
    }
}

/// Values whose encoding reaches the storage through *block writes* (`try_extend`: str and bytes
/// payloads) that end just before, exactly on and just after the 254-byte COBS block boundaries,
/// alone, preceded by single-byte pushes, and split over two block writes.
pub fn block_write_boundary_vals(r: &mut Rng, thorough: bool) -> Vec<(Ty, Val)> {
    let mut out = Vec::new();
    let mut lens: Vec<usize> = Vec::new();
    for c in [254usize, 508, 762] {
        for d in 0..=(if thorough { 8 } else { 6 }) {
            lens.push(c - d);
        }
        lens.push(c + 1);
        lens.push(c + 2);
    }
    for &l in &lens {
        // zero-free text and bytes: the payload is one block write after a 2-byte length prefix
        out.push((Ty::Str, Val::Str(vec![b'x'; l])));
        let nz: Vec<u8> = (0..l).map(|i| (i % 255 + 1) as u8).collect();
        out.push((Ty::Bytes, Val::Bytes(nz.clone())));
        // a zero at the start, the end, and somewhere inside
        for pos in [0, l - 1, r.below(l as u64) as usize] {
            let mut b = nz.clone();
            b[pos] = 0;
            out.push((Ty::Bytes, Val::Bytes(b)));
        }
        // k single-byte pushes first, then the block write
        let k = r.range(1, 4) as usize;
        let mut ts = vec![Ty::Int(IK::U8); k];
        ts.push(Ty::Bytes);
        let mut vs: Vec<Val> = (0..k).map(|_| Val::unsigned(IK::U8, r.range(1, 255) as u128)).collect();
        vs.push(Val::Bytes(nz[..l - k].to_vec()));
        out.push((Ty::Tuple(ts), Val::Tuple(vs)));
        // two block writes; the first ends near the boundary, a byte follows
        let cut = r.range(1, 100) as usize;
        out.push((
            Ty::Tuple(vec![Ty::Bytes, Ty::Str, Ty::Int(IK::U8)]),
            Val::Tuple(vec![Val::Bytes(nz[..l - cut].to_vec()), Val::Str(vec![b'y'; cut]), Val::unsigned(IK::U8, 7)]),
        ));
    }
    out
}


/// lengths and variant indices at the varint width boundaries (1 -> 2 bytes at 128, 2 -> 3 bytes at
/// 16384): strings, byte strings, sequences and maps of exactly that many elements, alone and
/// followed by another field; enums wide enough to have such an index
pub fn boundary_cases() -> Vec<(Ty, Val)> {
    let mut out = Vec::new();
    for l in [126usize, 127, 128, 129, 16383, 16384, 16385] {
        out.push((Ty::Str, Val::Str(vec![b'a'; l])));
        out.push((Ty::Bytes, Val::Bytes(vec![0x5a; l])));
        out.push((Ty::Seq(Box::new(Ty::Unit)), Val::Seq(vec![Val::Unit; l])));
        out.push((Ty::Seq(Box::new(Ty::Int(IK::U8))), Val::Seq((0..l).map(|i| Val::unsigned(IK::U8, (i % 251) as u128)).collect())));
        out.push((Ty::Map(Box::new(Ty::Unit), Box::new(Ty::Bool)), Val::Map((0..l).map(|i| (Val::Unit, Val::Bool(i % 3 == 0))).collect())));
        out.push((
            Ty::Tuple(vec![Ty::Str, Ty::Int(IK::U8), Ty::Bytes]),
            Val::Tuple(vec![Val::Str(vec![b'z'; l]), Val::unsigned(IK::U8, 7), Val::Bytes(vec![1; l])]),
        ));
    }
    for idx in [126usize, 127, 128, 129, 16383, 16384, 16385] {
        let mut shapes = vec![Ty::UnitStruct; idx + 2];
        shapes[idx] = Ty::Newtype(Box::new(Ty::Int(IK::U8)));
        let t = Ty::Enum(shapes);
        out.push((t.clone(), Val::Variant(idx as u32, Box::new(Val::Newtype(Box::new(Val::unsigned(IK::U8, 5)))))));
        out.push((t.clone(), Val::Variant(idx as u32 + 1, Box::new(Val::UnitStruct))));
        out.push((
            Ty::Tuple(vec![t.clone(), Ty::Int(IK::U8)]),
            Val::Tuple(vec![Val::Variant(idx as u32 - 1, Box::new(Val::UnitStruct)), Val::unsigned(IK::U8, 9)]),
        ));
    }
    out
}
