//! C08 / C09: the COBS accumulator under every chunking, with and without overflow.
use crate::dynval::{hex, Ty, Val, IK};
use crate::gen;
use crate::out::Out;
use crate::prng::Rng;
use crate::props::{guarded, with_ty, Dyn};
use crate::Args;
use postcard::accumulator::{CobsAccumulator, FeedResult};

#[derive(Clone, Debug, PartialEq)]
pub enum Ev {
    Consumed,
    OverFull,
    DeserError,
    Success(Val),
}
pub struct Call {
    pub input: Vec<u8>,
    pub ev: Ev,
    pub remaining: Vec<u8>,
    pub buffered: Vec<u8>,
    /// stream offset just after the bytes this call consumed
    pub end: usize,
}
pub struct Trace {
    pub calls: Vec<Call>,
    pub panicked: bool,
    pub nonterminating: bool,
    pub remainder_not_suffix: bool,
}

enum Target {
    Owned,
    BorrowBytes,
    BorrowStr,
}

fn run_n<const N: usize>(t: &Ty, target: &Target, chunks: &[Vec<u8>]) -> Trace {
    let mut acc: CobsAccumulator<N> = CobsAccumulator::new();
    let mut tr = Trace { calls: Vec::new(), panicked: false, nonterminating: false, remainder_not_suffix: false };
    let mut offset = 0usize;
    for chunk in chunks {
        let mut window: &[u8] = &chunk[..];
        let mut iters = 0usize;
        while !window.is_empty() {
            iters += 1;
            if iters > 2 * chunk.len() + 2 {
                tr.nonterminating = true;
                return tr;
            }
            let input = window.to_vec();
            let r = guarded(|| {
                with_ty(t, || match target {
                    Target::Owned => match acc.feed::<Dyn>(window) {
                        FeedResult::Consumed => (Ev::Consumed, None),
                        FeedResult::OverFull(w) => (Ev::OverFull, Some(w)),
                        FeedResult::DeserError(w) => (Ev::DeserError, Some(w)),
                        FeedResult::Success { data, remaining } => (Ev::Success(data.0), Some(remaining)),
                    },
                    Target::BorrowBytes => match acc.feed_ref::<&[u8]>(window) {
                        FeedResult::Consumed => (Ev::Consumed, None),
                        FeedResult::OverFull(w) => (Ev::OverFull, Some(w)),
                        FeedResult::DeserError(w) => (Ev::DeserError, Some(w)),
                        FeedResult::Success { data, remaining } => (Ev::Success(Val::Bytes(data.to_vec())), Some(remaining)),
                    },
                    Target::BorrowStr => match acc.feed_ref::<&str>(window) {
                        FeedResult::Consumed => (Ev::Consumed, None),
                        FeedResult::OverFull(w) => (Ev::OverFull, Some(w)),
                        FeedResult::DeserError(w) => (Ev::DeserError, Some(w)),
                        FeedResult::Success { data, remaining } => (Ev::Success(Val::Str(data.as_bytes().to_vec())), Some(remaining)),
                    },
                })
            });
            let (ev, rem) = match r {
                Ok(x) => x,
                Err(()) => {
                    tr.panicked = true;
                    tr.calls.push(Call { input, ev: Ev::Consumed, remaining: vec![], buffered: vec![], end: offset });
                    return tr;
                }
            };
            let remaining: Vec<u8> = rem.map(|w| w.to_vec()).unwrap_or_default();
            if let Some(w) = rem {
                // the remainder must be the tail of the window it was given
                let ok = w.len() <= window.len() && std::ptr::eq(w.as_ptr(), window[window.len() - w.len()..].as_ptr());
                if !ok {
                    tr.remainder_not_suffix = true;
                }
            }
            let consumed = window.len() - remaining.len();
            offset += consumed;
            let buffered = acc.verif_buffered().to_vec();
            let stop = ev == Ev::Consumed;
            tr.calls.push(Call { input, ev, remaining: remaining.clone(), buffered, end: offset });
            if stop {
                break;
            }
            window = &window[window.len() - remaining.len()..];
        }
    }
    tr
}

macro_rules! dispatch_n {
    ($n:expr, $t:expr, $target:expr, $chunks:expr, [$($k:literal),*]) => {
        match $n { $( $k => Some(run_n::<$k>($t, $target, $chunks)), )* _ => None }
    };
}
fn run_cap(n: usize, t: &Ty, target: &Target, chunks: &[Vec<u8>]) -> Option<Trace> {
    dispatch_n!(n, t, target, chunks, [1, 2, 3, 4, 5, 6, 7, 8, 9, 10, 12, 16, 32, 64, 256])
}
pub const CAPS: [usize; 15] = [1, 2, 3, 4, 5, 6, 7, 8, 9, 10, 12, 16, 32, 64, 256];

fn model_line(tr: &Trace) -> (String, String) {
    let chunks: Vec<String> = tr.calls.iter().map(|c| hex(&c.input)).collect();
    let mut out = String::new();
    for c in &tr.calls {
        match &c.ev {
            Ev::Consumed => out.push('C'),
            Ev::OverFull => out.push_str(&format!("O:{}", hex(&c.remaining))),
            Ev::DeserError => out.push_str(&format!("D:{}", hex(&c.remaining))),
            Ev::Success(v) => out.push_str(&format!("S:{}:{}", v, hex(&c.remaining))),
        }
        out.push_str(&format!("[{}];", hex(&c.buffered)));
    }
    (chunks.join(","), out)
}

/// isolated decoding of one zero-terminated segment
fn isolated(t: &Ty, target: &Target, seg_with_zero: &[u8]) -> Ev {
    let mut buf = seg_with_zero.to_vec();
    let r = with_ty(t, || match target {
        Target::Owned => postcard::from_bytes_cobs::<Dyn>(&mut buf).map(|d| d.0),
        Target::BorrowBytes => postcard::from_bytes_cobs::<&[u8]>(&mut buf).map(|d| Val::Bytes(d.to_vec())),
        Target::BorrowStr => postcard::from_bytes_cobs::<&str>(&mut buf).map(|d| Val::Str(d.as_bytes().to_vec())),
    });
    match r {
        Ok(v) => Ev::Success(v),
        Err(_) => Ev::DeserError,
    }
}

fn check_stream(o: &mut Out, t: &Ty, target: &Target, cap: usize, stream: &[u8], chunks: &[Vec<u8>], c09: bool, model: bool) {
    let tr = match run_cap(cap, t, target, chunks) {
        Some(t) => t,
        None => return,
    };
    let desc = format!("type {} N={} stream {} chunks [{}]", t, cap, hex(stream), chunks.iter().map(|c| c.len().to_string()).collect::<Vec<_>>().join(","));
    o.eval(&desc, true);
    o.bump(&format!("N:{}", cap));
    o.bump(&format!("chunks:{}", match chunks.len() { 1 => "1", 2..=3 => "2-3", 4..=8 => "4-8", _ => "9+" }));
    if tr.panicked {
        o.fail("the accumulator never panics", desc.clone(), format!("panic on feed({})", tr.calls.last().map(|c| hex(&c.input)).unwrap_or_default()), "a FeedResult".into());
    }
    if tr.nonterminating {
        o.fail("the documented feed loop terminates", desc.clone(), "more than 2*len+2 iterations".into(), "termination".into());
    }
    if tr.remainder_not_suffix {
        o.fail("consumed ++ remainder == chunk (the remainder is the tail of the window)", desc.clone(), "remainder is not the tail".into(), "tail".into());
    }
    for c in &tr.calls {
        o.bump(&format!("event:{}", match c.ev { Ev::Consumed => "consumed", Ev::OverFull => "overfull", Ev::DeserError => "deser_error", Ev::Success(_) => "success" }));
        if c.buffered.len() > cap {
            o.fail("never more than N bytes buffered", desc.clone(), format!("{} bytes", c.buffered.len()), format!("<= {}", cap));
        }
        // after a call that consumed a zero byte the state is the initial one
        let consumed = &c.input[..c.input.len() - c.remaining.len()];
        if consumed.contains(&0) && !c.buffered.is_empty() {
            o.fail("back in the initial state after every zero byte", desc.clone(), hex(&c.buffered), "empty".into());
        }
    }
    if tr.panicked || tr.nonterminating {
        return;
    }
    // segments of the stream
    let mut start = 0usize;
    for (i, b) in stream.iter().enumerate() {
        if *b != 0 {
            continue;
        }
        let seg = &stream[start..i];
        let events: Vec<&Call> = tr.calls.iter().filter(|c| c.ev != Ev::Consumed && c.end > start && c.end <= i + 1).collect();
        if seg.len() + 1 <= cap {
            let want = isolated(t, target, &stream[start..=i]);
            if events.len() != 1 || events[0].end != i + 1 || events[0].ev != want {
                o.fail("exactly one result per zero byte, equal to decoding the segment in isolation", format!("{} segment {}..={}", desc, start, i),
                       format!("{:?}", events.iter().map(|c| (&c.ev, c.end)).collect::<Vec<_>>()), format!("[({:?}, {})]", want, i + 1));
            }
            o.bump("segment:fits");
        } else {
            if !events.iter().any(|c| c.ev == Ev::OverFull) {
                o.fail("an over-long segment is reported as overflow before its sentinel is passed", format!("{} segment {}..={}", desc, start, i),
                       format!("{:?}", events.iter().map(|c| (&c.ev, c.end)).collect::<Vec<_>>()), "at least one OverFull".into());
            }
            o.bump("segment:overlong");
        }
        start = i + 1;
    }
    // the unterminated tail is what stays buffered (when it fits)
    let tail = &stream[start..];
    if !c09 || tail.len() <= cap {
        if let Some(last) = tr.calls.last() {
            if tail.len() <= cap && last.buffered != tail && !tr.calls.iter().any(|c| c.ev == Ev::OverFull && c.end > start) {
                o.fail("the unterminated tail stays buffered", desc.clone(), hex(&last.buffered), hex(tail));
            }
        }
    }
    if model {
        let (chunks_s, out_s) = model_line(&tr);
        if !chunks_s.is_empty() {
            o.case("acc", &[&t.to_string(), &cap.to_string(), &chunks_s], &out_s);
        }
    }
    if o.evaluations % 5003 == 11 {
        o.sample(format!("{} => {}", desc, model_line(&tr).1));
    }
}

fn compositions(stream: &[u8], mask: u64) -> Vec<Vec<u8>> {
    // bit i of mask set = cut after byte i
    let mut out = Vec::new();
    let mut cur = Vec::new();
    for (i, b) in stream.iter().enumerate() {
        cur.push(*b);
        if i + 1 < stream.len() && mask >> i & 1 == 1 {
            out.push(std::mem::take(&mut cur));
        }
    }
    if !cur.is_empty() {
        out.push(cur);
    }
    out
}

fn random_chunks(r: &mut Rng, stream: &[u8]) -> Vec<Vec<u8>> {
    let mut out = Vec::new();
    let mut i = 0;
    while i < stream.len() {
        let n = match r.below(4) { 0 => 1, 1 => r.range(1, 3), 2 => r.range(1, 9), _ => r.range(1, 40) } as usize;
        let e = (i + n).min(stream.len());
        out.push(stream[i..e].to_vec());
        i = e;
    }
    if r.chance(1, 6) {
        out.insert(r.below(out.len() as u64 + 1) as usize, Vec::new()); // an empty feed
    }
    out
}

/// a stream of segments; `fit`: every segment (incl. the tail) fits a capacity of `cap`
fn gen_stream(r: &mut Rng, t: &Ty, cap: usize, fit: bool, max_len: usize) -> Vec<u8> {
    let mut s = Vec::new();
    let nseg = r.range(1, 5);
    for _ in 0..nseg {
        let seg: Vec<u8> = match r.below(if fit { 5 } else { 8 }) {
            0 | 1 => {
                let v = gen::gen_val(r, t, 3);
                let mut f = postcard::to_allocvec_cobs(&v).unwrap_or_default();
                f.pop();
                f
            }
            2 => {
                // corrupt frame
                let v = gen::gen_val(r, t, 3);
                let mut f = postcard::to_allocvec_cobs(&v).unwrap_or_default();
                f.pop();
                if !f.is_empty() {
                    let i = r.below(f.len() as u64) as usize;
                    f[i] = r.range(1, 255) as u8;
                }
                f
            }
            3 => Vec::new(),
            4 => (0..r.below(cap as u64 + 1)).map(|_| r.range(1, 255) as u8).collect(),
            5 => (0..cap + r.below(3) as usize).map(|_| r.range(1, 255) as u8).collect(), // cap-1+1, cap, cap+1 bytes + zero
            _ => (0..cap + r.range(1, 2 * cap as u64 + 4) as usize).map(|_| r.range(1, 255) as u8).collect(),
        };
        if fit && seg.len() + 1 > cap {
            continue;
        }
        if s.len() + seg.len() + 1 > max_len {
            break;
        }
        s.extend_from_slice(&seg);
        s.push(0);
    }
    if r.chance(1, 3) {
        let room = if fit { cap } else { cap + 3 };
        let n = r.below(room as u64 + 1) as usize;
        if s.len() + n <= max_len {
            s.extend((0..n).map(|_| r.range(1, 255) as u8));
        }
    }
    s
}

pub fn run(a: &Args, c09: bool) {
    let mut o = Out::new(&a.cases);
    let mut r = Rng::new(a.seed);
    let types: Vec<(Ty, Target)> = vec![
        (Ty::Int(IK::U8), Target::Owned),
        (Ty::Int(IK::U32), Target::Owned),
        (Ty::Tuple(vec![Ty::Int(IK::U8), Ty::Bool]), Target::Owned),
        (Ty::Seq(Box::new(Ty::Int(IK::U8))), Target::Owned),
        (Ty::Bytes, Target::BorrowBytes),
        (Ty::Str, Target::BorrowStr),
        (Ty::Unit, Target::Owned),
    ];
    // exhaustive chunkings of short streams
    let exh_len = if a.thorough { 13 } else { 10 };
    let nstreams = if a.thorough { 60 } else { 14 };
    let mut done = 0;
    let mut guard = 0;
    while done < nstreams && guard < 10000 {
        guard += 1;
        let (t, target) = r.pick(&types);
        let cap = *r.pick(&[1usize, 2, 3, 4, 5, 6, 8]);
        let stream = gen_stream(&mut r, t, cap, !c09, exh_len);
        if stream.len() < 3 || stream.len() > exh_len {
            continue;
        }
        for mask in 0..(1u64 << (stream.len() - 1)) {
            let chunks = compositions(&stream, mask);
            check_stream(&mut o, t, target, cap, &stream, &chunks, c09, mask % 8 == 0);
        }
        o.exhaustive.push(format!("all {} chunkings of the {}-byte stream {} (N={}, {})", 1u64 << (stream.len() - 1), stream.len(), hex(&stream), cap, t));
        done += 1;
    }
    // random longer streams and chunkings over every capacity
    let n = if a.thorough { 60000 } else { 2500 };
    for _ in 0..n {
        let (t, target) = r.pick(&types);
        let cap = *r.pick(&CAPS);
        let stream = gen_stream(&mut r, t, cap, !c09, 400);
        if stream.is_empty() {
            continue;
        }
        let chunks = random_chunks(&mut r, &stream);
        check_stream(&mut o, t, target, cap, &stream, &chunks, c09, true);
    }
    // capacity exactly equal to, one less than and one more than a frame
    let n = if a.thorough { 4000 } else { 300 };
    for _ in 0..n {
        let (t, target) = r.pick(&types);
        let v = gen::gen_val(&mut r, t, 3);
        let frame = match postcard::to_allocvec_cobs(&v) {
            Ok(f) => f,
            Err(_) => continue,
        };
        for cap in [frame.len().saturating_sub(1), frame.len(), frame.len() + 1] {
            if !CAPS.contains(&cap) || (!c09 && cap < frame.len()) {
                continue;
            }
            let mut stream = frame.clone();
            stream.extend_from_slice(&frame);
            let chunks = random_chunks(&mut r, &stream);
            check_stream(&mut o, t, target, cap, &stream, &chunks, c09, true);
            o.bump("capacity_vs_frame");
        }
    }
    let rule = if c09 {
        "streams of valid frames, corrupt frames, empty frames, garbage and over-long segments (capacity equal to, one less than, one more than a frame included) x chunkings (every composition of short streams, random chunkings incl. empty feeds of longer ones) x 15 capacities x owned and buffer-borrowing targets; every feed call recorded with the implementation's buffered bytes (cfg hook); distinct = distinct (type, N, stream, chunking)"
    } else {
        "streams in which every zero-terminated segment and the tail fit the capacity: valid, corrupt and empty frames and garbage x chunkings (every composition of short streams, random chunkings incl. empty feeds of longer ones) x 15 capacities x owned and buffer-borrowing targets; distinct = distinct (type, N, stream, chunking)"
    };
    o.finish(&a.summary, rule);
}
