//! C04: decoding untrusted bytes is total, in-bounds and resource-bounded.
use crate::dynval::{hex, Ty, Val, IK};
use crate::gen;
use crate::mem::{allocated_during, GuardBuf};
use crate::out::Out;
use crate::prng::Rng;
use crate::props::{guarded, with_ty, Dyn};
use crate::spec;
use crate::Args;
use serde::de::{Deserializer, Visitor};

/// requests the format cannot serve
struct WantsAny;
struct WantsIdent;
struct WantsIgnored;
struct NopVisitor;
impl<'de> Visitor<'de> for NopVisitor {
    type Value = ();
    fn expecting(&self, f: &mut std::fmt::Formatter) -> std::fmt::Result {
        f.write_str("anything")
    }
}
impl<'de> serde::Deserialize<'de> for WantsAny {
    fn deserialize<D: Deserializer<'de>>(d: D) -> Result<Self, D::Error> {
        d.deserialize_any(NopVisitor).map(|_| WantsAny)
    }
}
impl<'de> serde::Deserialize<'de> for WantsIdent {
    fn deserialize<D: Deserializer<'de>>(d: D) -> Result<Self, D::Error> {
        d.deserialize_identifier(NopVisitor).map(|_| WantsIdent)
    }
}
impl<'de> serde::Deserialize<'de> for WantsIgnored {
    fn deserialize<D: Deserializer<'de>>(d: D) -> Result<Self, D::Error> {
        d.deserialize_ignored_any(NopVisitor).map(|_| WantsIgnored)
    }
}

const VAL_SIZE: usize = std::mem::size_of::<Val>();

fn shape_nodes(t: &Ty) -> usize {
    1 + match t {
        Ty::Option(t) | Ty::Newtype(t) | Ty::Seq(t) => shape_nodes(t),
        Ty::Tuple(ts) | Ty::TupleStruct(ts) | Ty::Struct(ts) | Ty::Enum(ts) => ts.iter().map(shape_nodes).sum(),
        Ty::Map(k, v) => shape_nodes(k) + shape_nodes(v),
        _ => 0,
    }
}

pub fn check(o: &mut Out, t: &Ty, ts: &str, input: &[u8], class: &str, at_end: bool, model: bool) {
    o.inflight(&format!("take_from_bytes as {} bytes {} ({})", ts, hex(input), if at_end { "flush against the guard page" } else { "starting at the guard page" }));
    let g = GuardBuf::from_bytes(input, at_end);
    // count only what the decode itself requests (not the harness's own copy of the shape)
    let (got, allocated, peak) = with_ty(t, || allocated_during(|| guarded(|| postcard::take_from_bytes::<Dyn>(g.as_ref()).map(|(d, rest)| (d.0, rest.len())))));
    let obs = match &got {
        Ok(Ok((v, rest))) => format!("ok {} {}", v, hex(&input[input.len() - rest..])),
        Ok(Err(e)) => format!("err:{:?}", e),
        Err(()) => "panic".into(),
    };
    o.eval(&(ts, input, at_end), !input.is_empty());
    o.bump(&format!("{}:{}", class, if obs.starts_with("ok") { "ok".to_string() } else { obs.clone() }));
    if got.is_err() {
        o.fail("decoding never panics", format!("{} bytes {}", ts, hex(input)), "panic".into(), "a value or an error".into());
    }
    // allocation: a multiple of the input length that depends only on the element type
    // (Val is the element type of every container the DynVal visitor builds)
    if !spec::has_zero_width_collection(t) {
        // the DynVal visitors allocate one Vec per fixed-arity node of the shape, whatever the input
        let bound = 4 * VAL_SIZE * (input.len() + 8 + shape_nodes(t)) + 256;
        if allocated > bound {
            o.fail("memory allocated while decoding is bounded by a multiple of the input length", format!("{} bytes {}", ts, hex(input)), format!("{} bytes allocated (largest request {})", allocated, peak), format!("<= {}", bound));
        }
        o.bump_by("alloc_bytes_total", allocated as u64);
    }
    if model {
        o.case("deptr", &[ts, &hex(input)], &obs);
    }
    if o.evaluations % 3001 == 5 {
        o.sample(format!("{} bytes {} => {} ({} bytes allocated)", ts, hex(input), obs, allocated));
    }
}

/// concrete collection types through serde's own visitors (Vec::with_capacity(cautious(hint)))
fn check_std_types(o: &mut Out, r: &mut Rng, input: &[u8], at_end: bool) {
    let g = GuardBuf::from_bytes(input, at_end);
    macro_rules! one {
        ($ty:ty, $elem:expr, $name:expr) => {{
            let (got, allocated, peak) = allocated_during(|| guarded(|| postcard::from_bytes::<$ty>(g.as_ref()).map(|_| ())));
            o.eval(&($name, input), !input.is_empty());
            if got.is_err() {
                o.fail("decoding never panics", format!("{} bytes {}", $name, hex(input)), "panic".into(), "a value or an error".into());
            }
            let bound = 4 * $elem * (input.len() + 8) + 256;
            if allocated > bound {
                o.fail("memory allocated while decoding is bounded by a multiple of the input length", format!("{} bytes {}", $name, hex(input)), format!("{} bytes allocated (largest request {})", allocated, peak), format!("<= {}", bound));
            }
            o.bump(&format!("std:{}", $name));
        }};
    }
    one!(Vec<u8>, 1, "Vec<u8>");
    one!(Vec<u32>, 4, "Vec<u32>");
    one!(Vec<u64>, 8, "Vec<u64>");
    one!(String, 1, "String");
    one!(Vec<String>, 24, "Vec<String>");
    one!(Vec<(u8, u16)>, 4, "Vec<(u8,u16)>");
    one!(std::collections::VecDeque<u16>, 2, "VecDeque<u16>");
    one!(Box<[u8]>, 1, "Box<[u8]>");
    let _ = r;
}

/// borrowed strings and byte slices lie inside the input, right after their length prefix
fn check_borrowed(o: &mut Out, r: &mut Rng) {
    let s1 = String::from_utf8(gen::gen_string(r, 12)).unwrap();
    let b2 = r.bytes_upto(200);
    let s3 = String::from_utf8(gen::gen_string(r, 12)).unwrap();
    let val: (&str, u32, &[u8], Option<&str>) = (&s1, r.next() as u32, &b2, Some(&s3));
    let mut input = postcard::to_allocvec(&val).unwrap();
    input.extend_from_slice(&r.bytes_upto(4));
    let g = GuardBuf::from_bytes(&input, r.chance(1, 2));
    let base = g.as_ref().as_ptr() as usize;
    let got = postcard::take_from_bytes::<(&str, u32, &[u8], Option<&str>)>(g.as_ref());
    o.eval(&("borrow", &input), true);
    match got {
        Ok(((a, _, b, c), rest)) => {
            let c = c.unwrap_or("");
            let mut ok = a == s1 && b == &b2[..] && c == s3;
            for (ptr, len) in [(a.as_ptr() as usize, a.len()), (b.as_ptr() as usize, b.len()), (c.as_ptr() as usize, c.len())] {
                let off = ptr.wrapping_sub(base);
                if off > input.len() || off + len > input.len() - rest.len() {
                    ok = false;
                    continue;
                }
                // the length prefix ends exactly where the data starts
                let mut pre = Vec::new();
                spec::varint(len as u128, &mut pre);
                if off < pre.len() || input[off - pre.len()..off] != pre[..] {
                    ok = false;
                }
            }
            if !ok {
                o.fail("every borrowed string or byte slice lies inside the input at the position it was encoded", hex(&input), "misplaced borrow".into(), "inside the input after its length prefix".into());
            }
        }
        Err(e) => o.fail("borrowing decode succeeds", hex(&input), format!("{:?}", e), "Ok".into()),
    }
    o.bump("borrowed");
}

pub fn run(a: &Args) {
    let mut o = Out::new(&a.cases);
    let mut r = Rng::new(a.seed);
    // requests the format cannot serve are refused with an error, consuming nothing
    for input in [&[][..], &[0u8][..], &[1, 2, 3][..]] {
        o.eval(&("wont", input), true);
        for (name, got) in [
            ("any", postcard::take_from_bytes::<WantsAny>(input).map(|(_, r)| r.len())),
            ("identifier", postcard::take_from_bytes::<WantsIdent>(input).map(|(_, r)| r.len())),
            ("ignored_any", postcard::take_from_bytes::<WantsIgnored>(input).map(|(_, r)| r.len())),
        ] {
            if got != Err(postcard::Error::WontImplement) {
                o.fail("self-describing requests are refused with an error", format!("{} on {}", name, hex(input)), format!("{:?}", got), "Err(WontImplement)".into());
            }
            o.bump("wont_implement");
        }
    }
    let n = if a.thorough { 40000 } else { 1500 };
    for i in 0..n {
        let t = gen::gen_ty(&mut r, 3);
        if spec::has_zero_width_collection(&t) {
            continue;
        }
        let ts = t.to_string();
        let v = gen::gen_val(&mut r, &t, 6);
        let enc = match postcard::to_allocvec(&v) {
            Ok(b) if b.len() <= 400 => b,
            _ => continue,
        };
        let at_end = i % 2 == 0;
        check(&mut o, &t, &ts, &enc, "valid", at_end, true);
        if !enc.is_empty() {
            let cut = r.below(enc.len() as u64) as usize;
            check(&mut o, &t, &ts, &enc[..cut], "truncated", true, true);
            for _ in 0..4 {
                let mut m = enc.clone();
                let j = r.below(m.len() as u64) as usize;
                m[j] = match r.below(3) { 0 => m[j] ^ (1 << r.below(8)), 1 => 0xFF, _ => r.next() as u8 };
                check(&mut o, &t, &ts, &m, "mutated", r.chance(1, 2), true);
            }
        }
        let m = r.bytes_upto(16);
        check(&mut o, &t, &ts, &m, "random", r.chance(1, 2), true);
    }
    // adversarial length prefixes for every length-prefixed kind
    let kinds = [
        Ty::Str,
        Ty::Bytes,
        Ty::Char,
        Ty::Seq(Box::new(Ty::Int(IK::U8))),
        Ty::Seq(Box::new(Ty::Int(IK::U64))),
        Ty::Seq(Box::new(Ty::Str)),
        Ty::Seq(Box::new(Ty::Seq(Box::new(Ty::Bool)))),
        Ty::Map(Box::new(Ty::Int(IK::U8)), Box::new(Ty::Int(IK::U8))),
        Ty::Map(Box::new(Ty::Str), Box::new(Ty::Unit)),
        Ty::Option(Box::new(Ty::Bytes)),
        Ty::Struct(vec![Ty::Int(IK::U8), Ty::Seq(Box::new(Ty::F64))]),
    ];
    for t in &kinds {
        let ts = t.to_string();
        for len in [0u128, 1, 7, 127, 128, 255, 16383, 16384, 1 << 20, 1 << 31, 1 << 32, (1 << 63) - 1, 1 << 63, u64::MAX as u128] {
            let mut m = Vec::new();
            if let Ty::Option(_) = t {
                m.push(1);
            }
            if let Ty::Struct(_) = t {
                m.push(9);
            }
            spec::varint(len, &mut m);
            for extra in [0usize, 1, 5, 17] {
                let mut mm = m.clone();
                mm.extend_from_slice(&r.bytes(extra));
                check(&mut o, t, &ts, &mm, "length_prefix", extra % 2 == 0, true);
                check_std_types(&mut o, &mut r, &mm, extra % 2 == 1);
            }
        }
    }
    let n = if a.thorough { 3000 } else { 200 };
    for _ in 0..n {
        check_borrowed(&mut o, &mut r);
        let m = r.bytes_upto(24);
        check_std_types(&mut o, &mut r, &m, true);
    }
    o.finish(&a.summary, "byte strings (valid encodings, truncations, single-byte mutations, random bytes, adversarial length prefixes up to u64::MAX for every length-prefixed kind) x generated shapes (no zero-width collection elements) and std collection types; every decode runs on an input placed flush against a PROT_NONE page (alternating sides) under a counting allocator; borrowed &str/&[u8] placement checked by pointer; any/identifier/ignored_any requests; distinct = distinct (shape, bytes, side), non-trivial = non-empty input");
}
