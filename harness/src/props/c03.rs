//! C03: the decoder accepts exactly the legal encodings; compared with the independent
//! decoder of spec.rs for accept/reject, value, consumed length and error kind.
use crate::dynval::{hex, Ty, IK};
use crate::gen;
use crate::out::Out;
use crate::prng::Rng;
use crate::props::{guarded, with_ty, Dyn};
use crate::spec;
use crate::Args;

pub fn observe(t: &Ty, input: &[u8]) -> String {
    match guarded(|| with_ty(t, || postcard::take_from_bytes::<Dyn>(input).map(|(d, rest)| (d.0, rest.to_vec())))) {
        Ok(Ok((v, rest))) => format!("ok {} {}", v, hex(&rest)),
        Ok(Err(e)) => format!("err:{:?}", e),
        Err(()) => "panic".into(),
    }
}
pub fn expected(t: &Ty, input: &[u8]) -> String {
    let mut pos = 0usize;
    match spec::decode(t, input, &mut pos) {
        Ok(v) => format!("ok {} {}", v, hex(&input[pos..])),
        Err(e) => e.name().to_string(),
    }
}

/// `model`: also hand the case to the Coq model
pub fn check(o: &mut Out, t: &Ty, ts: &str, input: &[u8], class: &str, model: bool) {
    let obs = observe(t, input);
    let exp = expected(t, input);
    o.eval(&(ts, input), !input.is_empty());
    if obs != exp {
        o.fail("decoder agrees with the wire-format.md decoder", format!("{} bytes {}", ts, hex(input)), obs.clone(), exp);
    }
    // from_bytes must agree with take_from_bytes on acceptance and value
    let fb = guarded(|| with_ty(t, || postcard::from_bytes::<Dyn>(input).map(|d| d.0)));
    let fbs = match fb {
        Ok(Ok(v)) => format!("ok {}", v),
        Ok(Err(e)) => format!("err:{:?}", e),
        Err(()) => "panic".into(),
    };
    let agree = if let Some(stripped) = obs.strip_prefix("ok ") { fbs.strip_prefix("ok ").map(|v| stripped.starts_with(v) && stripped[v.len()..].starts_with(" x")).unwrap_or(false) } else { fbs == obs };
    if !agree {
        o.fail("from_bytes agrees with take_from_bytes", format!("{} bytes {}", ts, hex(input)), fbs, obs.clone());
    }
    let outcome = if obs.starts_with("ok") { "ok".to_string() } else { obs.clone() };
    o.bump(&format!("{}:{}", class, outcome));
    if model {
        o.case("de", &[ts, &hex(input)], &obs);
    }
    if o.samples.len() < 12 && o.evaluations % 997 == 3 {
        o.sample(format!("{} bytes {} => {}", ts, hex(input), obs));
    }
}

fn exhaustive(o: &mut Out, t: &Ty, alphabet: &[u8], maxlen: usize, model: bool, class: &str) {
    let ts = t.to_string();
    let mut buf: Vec<u8> = Vec::new();
    fn rec(o: &mut Out, t: &Ty, ts: &str, alphabet: &[u8], maxlen: usize, buf: &mut Vec<u8>, model: bool, class: &str) {
        check(o, t, ts, buf, class, model);
        if buf.len() == maxlen {
            return;
        }
        for &b in alphabet {
            buf.push(b);
            rec(o, t, ts, alphabet, maxlen, buf, model, class);
            buf.pop();
        }
    }
    rec(o, t, &ts, alphabet, maxlen, &mut buf, model, class);
    o.exhaustive.push(format!("all byte strings of length <= {} over an alphabet of {} bytes for {}", maxlen, alphabet.len(), ts));
}

/// every legal and nearly legal way to write a varint of `bits` bits
fn padded_varints(r: &mut Rng, bits: u32, out: &mut Vec<Vec<u8>>) {
    let maxg = ((bits + 6) / 7) as usize;
    let v: u128 = match r.below(4) {
        0 => 0,
        1 => r.below(200) as u128,
        2 => if bits == 128 { u128::MAX } else { (1u128 << bits) - 1 },
        _ => r.u128() & if bits == 128 { u128::MAX } else { (1u128 << bits) - 1 } >> r.below(bits as u64) as u32,
    };
    let mut groups: Vec<u8> = Vec::new();
    let mut n = v;
    loop {
        groups.push((n % 128) as u8);
        n /= 128;
        if n == 0 {
            break;
        }
    }
    // pad with zero groups to every length up to max + 1
    for total in groups.len()..=maxg + 1 {
        let mut g = groups.clone();
        g.resize(total, 0);
        let mut bytes: Vec<u8> = g.iter().map(|x| x | 0x80).collect();
        *bytes.last_mut().unwrap() &= 0x7f;
        out.push(bytes);
    }
    // full length with every value of the last group (over-range)
    let mut g = groups.clone();
    g.resize(maxg, 0);
    for last in [0u8, 1, 2, 3, 4, 7, 8, 15, 16, 31, 32, 63, 64, 127] {
        let mut bytes: Vec<u8> = g.iter().map(|x| x | 0x80).collect();
        bytes[maxg - 1] = last;
        out.push(bytes.clone());
        bytes[maxg - 1] = last | 0x80;
        out.push(bytes.clone());
        bytes.push(0);
        out.push(bytes);
    }
}

pub fn run(a: &Args) {
    let mut o = Out::new(&a.cases);
    let mut r = Rng::new(a.seed);
    let full: Vec<u8> = (0..=255u8).collect();
    // exhaustive short strings
    exhaustive(&mut o, &Ty::Int(IK::U16), &full, 2, true, "exh");
    let alpha: [u8; 20] = [0x00, 0x01, 0x02, 0x03, 0x04, 0x05, 0x41, 0x7f, 0x80, 0x81, 0x83, 0xbf, 0xc2, 0xc3, 0xe2, 0xed, 0xf0, 0xf4, 0xfe, 0xff];
    let small = [Ty::Int(IK::I16), Ty::Bool, Ty::Option(Box::new(Ty::Int(IK::U8))), Ty::Char, Ty::Str, Ty::Int(IK::U32), Ty::Int(IK::I8), Ty::Seq(Box::new(Ty::Bool)), Ty::Enum(vec![Ty::UnitStruct, Ty::Newtype(Box::new(Ty::Int(IK::U8)))])];
    for t in &small {
        exhaustive(&mut o, t, &alpha, 3, true, "exh");
    }
    if a.thorough {
        for t in [Ty::Int(IK::U16), Ty::Int(IK::I16), Ty::Bool, Ty::Option(Box::new(Ty::Int(IK::U8))), Ty::Char] {
            exhaustive(&mut o, &t, &full, 3, false, "exh3");
        }
    }
    // varint paddings for every integer width
    for k in IK::ALL {
        if k.bits() == 8 {
            continue;
        }
        let t = Ty::Int(k);
        let ts = t.to_string();
        let rounds = if a.thorough { 400 } else { 25 };
        for _ in 0..rounds {
            let mut v = Vec::new();
            padded_varints(&mut r, k.bits(), &mut v);
            for mut bytes in v {
                bytes.extend_from_slice(&r.bytes_upto(3));
                check(&mut o, &t, &ts, &bytes, "varint_padding", true);
            }
        }
    }
    // structured: valid encodings, prefixes, corruptions
    let n = if a.thorough { 20000 } else { 700 };
    for _ in 0..n {
        let t = gen::gen_ty(&mut r, 3);
        if spec::has_zero_width_collection(&t) {
            continue;
        }
        let ts = t.to_string();
        let v = gen::gen_val(&mut r, &t, 6);
        let enc = match postcard::to_allocvec(&v) {
            Ok(b) => b,
            Err(_) => continue,
        };
        if enc.len() > 600 {
            continue;
        }
        check(&mut o, &t, &ts, &enc, "valid", true);
        // every strict prefix must be an unexpected end
        for cut in 0..enc.len() {
            let obs = observe(&t, &enc[..cut]);
            o.eval(&(&ts, &enc[..cut]), cut > 0);
            if obs != "err:DeserializeUnexpectedEnd" {
                o.fail("every strict prefix of a valid message fails with unexpected-end", format!("{} bytes {} (prefix of {})", ts, hex(&enc[..cut]), hex(&enc)), obs, "err:DeserializeUnexpectedEnd".into());
            }
            o.bump("prefix");
            if cut % 7 == 3 {
                o.case("de", &[&ts, &hex(&enc[..cut])], "err:DeserializeUnexpectedEnd");
            }
        }
        if !enc.is_empty() {
            for _ in 0..6 {
                let mut m = enc.clone();
                let i = r.below(m.len() as u64) as usize;
                match r.below(3) {
                    0 => m[i] ^= 1 << r.below(8),
                    1 => m[i] = r.next() as u8,
                    _ => m[i] = *r.pick(&[0x00, 0x01, 0x02, 0x7f, 0x80, 0xff]),
                }
                check(&mut o, &t, &ts, &m, "corrupt", true);
            }
            let mut m = enc.clone();
            m.extend_from_slice(&r.bytes_upto(5));
            check(&mut o, &t, &ts, &m, "valid_plus_suffix", true);
        }
        let m = r.bytes_upto(12);
        check(&mut o, &t, &ts, &m, "random", true);
    }
    // adversarial length prefixes
    for t in [Ty::Str, Ty::Bytes, Ty::Seq(Box::new(Ty::Int(IK::U8))), Ty::Map(Box::new(Ty::Bool), Box::new(Ty::Int(IK::U16))), Ty::Seq(Box::new(Ty::Str)), Ty::Char] {
        let ts = t.to_string();
        for len in [0u128, 1, 2, 5, 127, 128, 1 << 16, 1 << 32, (1 << 63) - 1, 1 << 63, u64::MAX as u128] {
            let mut m = Vec::new();
            spec::varint(len, &mut m);
            for extra in [0usize, 1, 3, 9] {
                let mut mm = m.clone();
                mm.extend_from_slice(&r.bytes(extra));
                check(&mut o, &t, &ts, &mm, "length_prefix", true);
            }
        }
    }
    o.finish(&a.summary, "byte strings x shapes: exhaustive short strings (all 256 byte values for u16 to length 2, a 20-byte alphabet to length 3 for 9 shapes; thorough: all strings to length 3 for 5 shapes against the reference decoder only), every legal/over-long/over-range varint padding per width, valid encodings with every strict prefix, single-byte and single-bit corruptions, suffixes, random bytes, adversarial length prefixes; distinct = distinct (shape, bytes), non-trivial = non-empty input");
}
