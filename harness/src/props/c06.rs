//! C06: COBS-framed output is one well-formed frame and decodes back, frame by frame.
use crate::dynval::{hex, Ty, Val, IK};
use crate::gen;
use crate::hcap;
use crate::out::Out;
use crate::prng::Rng;
use crate::props::{guarded, with_ty, Dyn};
use crate::refimpl;
use crate::Args;

/// a value whose plain encoding is exactly `m`: a tuple of u8
pub fn msg_val(m: &[u8]) -> (Ty, Val) {
    (Ty::Tuple(vec![Ty::Int(IK::U8); m.len()]), Val::Tuple(m.iter().map(|b| Val::unsigned(IK::U8, *b as u128)).collect()))
}

fn check_frame(o: &mut Out, t: &Ty, v: &Val, class: &str, model: bool) -> Option<Vec<u8>> {
    let vs = v.to_string();
    let plain = postcard::to_allocvec(v).ok()?;
    let mut want = refimpl::cobs_encode(&plain);
    want.push(0);
    o.eval(&(class, &plain), !plain.is_empty());
    o.bump(&format!("class:{}", class));
    o.bump(&format!("plain_len:{}", match plain.len() { 0 => "0", 1..=8 => "1-8", 9..=252 => "9-252", 253..=255 => "253-255", 256..=506 => "256-506", 507..=509 => "507-509", _ => "510+" }));
    let zeros_inside = plain.iter().filter(|b| **b == 0).count();
    o.bump(if zeros_inside == 0 { "zero_free" } else { "with_zeros" });
    let mut outs: Vec<(&str, Result<Result<Vec<u8>, postcard::Error>, ()>)> = Vec::new();
    outs.push(("to_allocvec_cobs", guarded(|| postcard::to_allocvec_cobs(v))));
    outs.push(("to_slice_cobs", guarded(|| {
        let mut buf = vec![0xEEu8; want.len() + 3];
        postcard::to_slice_cobs(v, &mut buf).map(|s| s.to_vec())
    })));
    if let Some(r) = hcap!(want.len(), B => guarded(|| postcard::to_vec_cobs::<Val, B>(v).map(|h| h.to_vec()))) {
        outs.push(("to_vec_cobs", r));
    } else if want.len() <= 1024 {
        outs.push(("to_vec_cobs", guarded(|| postcard::to_vec_cobs::<Val, 1024>(v).map(|h| h.to_vec()))));
    }
    let mut frame = None;
    for (name, r) in outs {
        match r {
            Ok(Ok(b)) => {
                if b != want {
                    o.fail(&format!("{} == COBS(plain) ++ [0]", name), format!("{} plain {}", vs, hex(&plain)), hex(&b), hex(&want));
                }
                let nz = b.iter().filter(|x| **x == 0).count();
                if nz != 1 || b.last() != Some(&0) {
                    o.fail(&format!("{}: exactly one zero byte, the last", name), format!("{} plain {}", vs, hex(&plain)), hex(&b), "one trailing zero".into());
                }
                // n + floor(n/254) + 2 is the length for zero-free messages and an upper bound otherwise
                let n = plain.len();
                let bound = n + n / 254 + 2;
                if b.len() > bound || (zeros_inside == 0 && b.len() != bound) {
                    o.fail(&format!("{}: frame length n + floor(n/254) + 2", name), format!("{} plain {}", vs, hex(&plain)), format!("{}", b.len()), format!("{}", bound));
                }
                if model && name == "to_allocvec_cobs" {
                    o.case("toallocvec_cobs", &[&vs], &format!("ok {}", hex(&b)));
                }
                frame = Some(b);
            }
            other => o.fail(&format!("{} succeeds", name), vs.clone(), format!("{:?}", other.map(|r| r.map(|b| hex(&b)))), hex(&want)),
        }
    }
    // decodes back
    if let Some(f) = &frame {
        let mut buf = f.clone();
        match guarded(|| with_ty(t, || postcard::from_bytes_cobs::<Dyn>(&mut buf).map(|d| d.0))) {
            Ok(Ok(back)) if back == *v => {}
            other => o.fail("from_bytes_cobs returns the value", format!("{} frame {}", vs, hex(f)), format!("{:?}", other.map(|r| r.map(|v| v.to_string()))), vs.clone()),
        }
        if model {
            o.case("frombytescobs", &[&t.to_string(), &hex(f)], &format!("ok {}", v));
        }
    }
    o.sample(format!("{} => {}", hex(&plain), frame.as_ref().map(|f| hex(f)).unwrap_or_default()));
    frame
}

fn check_sequence(o: &mut Out, r: &mut Rng, items: &[(Ty, Val)], drop_last_sentinel: bool) {
    let mut stream = Vec::new();
    for (_, v) in items {
        match postcard::to_allocvec_cobs(v) {
            Ok(f) => stream.extend_from_slice(&f),
            Err(_) => return,
        }
    }
    if drop_last_sentinel {
        stream.pop();
    }
    let key = (hex(&stream), drop_last_sentinel);
    o.eval(&key, true);
    o.bump(&format!("frames:{}{}", items.len(), if drop_last_sentinel { ":no_last_sentinel" } else { "" }));
    let mut buf = stream.clone();
    let mut offset = 0usize;
    let mut off_in_orig = 0usize;
    for (i, (t, v)) in items.iter().enumerate() {
        let window = &mut buf[offset..];
        let before = window.to_vec();
        let res = guarded(|| with_ty(t, || postcard::take_from_bytes_cobs::<Dyn>(window).map(|(d, rest)| (d.0, rest.len()))));
        let flen = before.iter().position(|b| *b == 0).map(|p| p + 1).unwrap_or(before.len());
        match res {
            Ok(Ok((back, rest_len))) => {
                if back != *v {
                    o.fail("frame-at-a-time decoding returns each value in order", format!("stream {} frame {}", hex(&stream), i), back.to_string(), v.to_string());
                }
                let expect_rest = before.len() - flen;
                if rest_len != expect_rest {
                    o.fail("the remainder is exactly the bytes after the frame", format!("stream {} frame {}", hex(&stream), i), format!("{}", rest_len), format!("{}", expect_rest));
                }
                o.case("takecobs", &[&t.to_string(), &hex(&before)], &format!("ok {} {}", back, hex(&before[before.len() - rest_len..])));
                offset += before.len() - rest_len;
                off_in_orig += flen;
                // the bytes that follow must be the untouched next frames
                if buf[offset..] != stream[off_in_orig.min(stream.len())..] {
                    o.fail("bytes after the frame are untouched", format!("stream {} frame {}", hex(&stream), i), hex(&buf[offset..]), hex(&stream[off_in_orig.min(stream.len())..]));
                }
            }
            other => {
                o.fail("frame-at-a-time decoding succeeds on well-formed frames", format!("stream {} frame {}", hex(&stream), i), format!("{:?}", other.map(|r| r.map(|(v, n)| format!("{} {}", v, n)))), v.to_string());
                return;
            }
        }
    }
    let _ = r;
}

pub fn run(a: &Args) {
    let mut o = Out::new(&a.cases);
    let mut r = Rng::new(a.seed);
    // exhaustive short messages over {00,01,02,FF}
    let alpha = [0x00u8, 0x01, 0x02, 0xFF];
    let maxlen = if a.thorough { 8 } else { 6 };
    let mut m: Vec<u8> = Vec::new();
    fn rec(o: &mut Out, alpha: &[u8], maxlen: usize, m: &mut Vec<u8>) {
        let (t, v) = msg_val(m);
        check_frame(o, &t, &v, "exhaustive", m.len() <= 5);
        if m.len() == maxlen {
            return;
        }
        for &b in alpha {
            m.push(b);
            rec(o, alpha, maxlen, m);
            m.pop();
        }
    }
    rec(&mut o, &alpha, maxlen, &mut m);
    o.exhaustive.push(format!("all messages of length <= {} over {{00,01,02,FF}}", maxlen));
    // run lengths around the multiples of 254, with leading / interior / trailing zeros
    for base in [253usize, 254, 255, 507, 508, 509, 761, 762, 763] {
        for variant in 0..6 {
            let mut msg: Vec<u8> = (0..base).map(|i| (i % 255 + 1) as u8).collect();
            match variant {
                0 => {}
                1 => msg.insert(0, 0),
                2 => msg.push(0),
                3 => msg[base / 2] = 0,
                4 => msg[253.min(base - 1)] = 0,
                _ => {
                    let i = r.below(base as u64) as usize;
                    msg[i] = 0;
                }
            }
            let (t, v) = msg_val(&msg);
            check_frame(&mut o, &t, &v, "boundary", variant < 2);
        }
    }
    // str / bytes payloads (block writes) ending around each block boundary
    for (t, v) in gen::block_write_boundary_vals(&mut r, a.thorough) {
        check_frame(&mut o, &t, &v, "block_write_boundary", false);
    }
    // random messages and random typed values
    let n = if a.thorough { 20000 } else { 800 };
    for _ in 0..n {
        let len = match r.below(4) { 0 => r.below(20), 1 => r.range(240, 270), _ => r.below(600) } as usize;
        let msg: Vec<u8> = (0..len).map(|_| if r.chance(1, 12) { 0 } else { r.range(1, 255) as u8 }).collect();
        let (t, v) = msg_val(&msg);
        check_frame(&mut o, &t, &v, "random_message", len < 40);
    }
    for _ in 0..n {
        let t = gen::gen_ty(&mut r, 3);
        let v = gen::gen_val(&mut r, &t, 6);
        check_frame(&mut o, &t, &v, "typed_value", true);
    }
    // frame sequences: a frame with 2, 3 overhead bytes (zero-free runs of 254.. bytes) followed
    // by a short one, and between two short ones
    for len in [253usize, 254, 255, 300, 507, 508, 509, 762] {
        let long = msg_val(&vec![0x5Au8; len]);
        let short = msg_val(&[7, 0, 9]);
        for items in [vec![long.clone(), short.clone()], vec![short.clone(), long.clone(), short.clone()], vec![long.clone(), long.clone()]] {
            for drop in [false, true] {
                check_sequence(&mut o, &mut r, &items, drop);
            }
        }
    }
    for (t, v) in gen::block_write_boundary_vals(&mut r, false).into_iter().step_by(3) {
        let short = msg_val(&[1, 2]);
        check_sequence(&mut o, &mut r, &[(t, v), short], false);
    }
    // frame sequences
    let n = if a.thorough { 6000 } else { 400 };
    for _ in 0..n {
        let k = r.range(1, 6) as usize;
        let items: Vec<(Ty, Val)> = (0..k)
            .map(|_| {
                if r.chance(1, 5) {
                    // a long message: the frame carries more than one overhead byte
                    let len = r.range(250, 520) as usize;
                    let msg: Vec<u8> = (0..len).map(|_| if r.chance(1, 300) { 0 } else { r.range(1, 255) as u8 }).collect();
                    msg_val(&msg)
                } else if r.chance(1, 2) {
                    let len = r.below(12) as usize;
                    let msg: Vec<u8> = (0..len).map(|_| if r.chance(1, 4) { 0 } else { r.range(1, 255) as u8 }).collect();
                    msg_val(&msg)
                } else {
                    let t = gen::gen_ty(&mut r, 2);
                    let v = gen::gen_val(&mut r, &t, 4);
                    (t, v)
                }
            })
            .collect();
        let drop = r.chance(1, 2);
        check_sequence(&mut o, &mut r, &items, drop);
    }
    o.finish(&a.summary, "messages as u8-tuples whose plain encoding is the message itself: exhaustive over {00,01,02,FF} up to length 6 (8 in thorough), run lengths 253..255/507..509/761..763 with leading, interior and trailing zeros, str/bytes payloads whose block writes end around each boundary, random messages, random typed values; three storages; frame sequences of 1..6 frames (short frames, and long ones carrying several overhead bytes, in every position) with and without the last sentinel decoded frame by frame; distinct = distinct plain encoding / stream, non-trivial = non-empty");
}
