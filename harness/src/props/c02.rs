//! C02: the encoder's bytes against the independent spec encoder.
use crate::dynval::{hex, Ty, Val, IK};
use crate::gen;
use crate::out::Out;
use crate::prng::Rng;
use crate::props::guarded;
use crate::spec;
use crate::Args;
use std::collections::BTreeMap;

pub fn check_value(o: &mut Out, t: &Ty, v: &Val, class: &str) {
    let vs = v.to_string();
    let got = guarded(|| postcard::to_allocvec(v));
    let mut want = Vec::new();
    let spec_ok = spec::encode(v, &mut want).is_some();
    let nontrivial = !matches!(v, Val::Unit | Val::UnitStruct);
    o.eval(&vs, nontrivial);
    o.bump(&format!("class:{}", class));
    match &got {
        Err(()) => o.fail("encoder does not panic", format!("{} : {}", vs, t), "panic".into(), hex(&want)),
        Ok(Ok(b)) => {
            o.bump_by("bytes_total", b.len() as u64);
            o.bump(&format!("enc_len:{}", match b.len() { 0 => "0", 1 => "1", 2..=9 => "2-9", 10..=127 => "10-127", _ => "128+" }));
            if !spec_ok {
                o.fail("length-unknown sequence is refused", vs.clone(), hex(b), "err:SerializeSeqLengthUnknown".into());
            } else if *b != want {
                o.fail("bytes == wire-format.md encoding", format!("{} : {}", vs, t), hex(b), hex(&want));
            }
            o.case("enc", &[&vs], &format!("ok {}", hex(b)));
        }
        Ok(Err(e)) => {
            o.bump(&format!("ser_err:{:?}", e));
            if spec_ok {
                o.fail("serialisable value is encoded", vs.clone(), format!("err:{:?}", e), hex(&want));
            } else if *e != postcard::Error::SerializeSeqLengthUnknown {
                o.fail("length-unknown sequence is refused with SerializeSeqLengthUnknown", vs.clone(), format!("err:{:?}", e), "err:SerializeSeqLengthUnknown".into());
            }
            o.case("enc", &[&vs], &format!("err:{:?}", e));
        }
    }
    o.sample(format!("{} => {}", vs, match &got { Ok(Ok(b)) => hex(b), Ok(Err(e)) => format!("{:?}", e), Err(()) => "panic".into() }));
}

/// values only a Serialize impl can present: unknown lengths and collect_str
fn special(o: &mut Out, r: &mut Rng) {
    // a refusal must leave nothing of the refused node in a caller's slice: compare the
    // bytes before the refused node with the encoding of the preceding fields
    for _ in 0..40 {
        let t = gen::gen_ty(r, 2);
        let pre = gen::gen_val(r, &t, 4);
        let inner: Vec<Val> = (0..r.below(4)).map(|_| gen::gen_int(r, IK::U16)).collect();
        let bad = if r.chance(1, 2) { Val::SeqNoLen(inner) } else { Val::MapNoLen(inner.iter().map(|x| (x.clone(), Val::Bool(true))).collect()) };
        let v = Val::Tuple(vec![pre.clone(), bad, Val::unsigned(IK::U8, 7)]);
        check_value(o, &Ty::Unit, &v, "length_unknown");
        let mut buf = vec![0xEEu8; 4096];
        let r1 = guarded(|| postcard::to_slice(&v, &mut buf).map(|s| s.len()));
        let mut prefix = Vec::new();
        spec::encode(&pre, &mut prefix);
        if prefix.len() < 4000 {
            match r1 {
                Ok(Err(postcard::Error::SerializeSeqLengthUnknown)) => {
                    if buf[prefix.len()..].iter().any(|b| *b != 0xEE) {
                        o.fail("nothing is written for a refused node", v.to_string(), hex(&buf[..prefix.len() + 8]), "untouched after the preceding fields".into());
                    }
                }
                other => o.fail("to_slice refuses a length-unknown node", v.to_string(), format!("{:?}", other), "Err(SerializeSeqLengthUnknown)".into()),
            }
        }
    }
    // collect_str: same bytes as the formatted text serialised as a str
    for _ in 0..80 {
        let n = r.below(5);
        let pieces: Vec<Vec<u8>> = (0..n).map(|_| gen::gen_string(r, 40)).collect();
        let v = Val::CollectStr(pieces.clone());
        check_value(o, &Ty::Str, &v, "collect_str");
        let joined: Vec<u8> = pieces.concat();
        let a = postcard::to_allocvec(&v);
        let b = postcard::to_allocvec(&Val::Str(joined));
        if a != b {
            o.fail("collect_str encodes like the formatted text", v.to_string(), format!("{:?}", a), format!("{:?}", b));
        }
    }
    // usize / isize encode like u64 / i64 of the same number
    for _ in 0..300 {
        if let Val::Int(_, _, u) = gen::gen_int(r, IK::U64) {
            let a = postcard::to_allocvec(&(u as usize));
            let b = postcard::to_allocvec(&(u as u64));
            o.eval(&("usize", u), true);
            if a != b {
                o.fail("usize encodes like u64", format!("{}", u), format!("{:?}", a), format!("{:?}", b));
            }
        }
        if let Val::Int(_, z, _) = gen::gen_int(r, IK::I64) {
            let a = postcard::to_allocvec(&(z as isize));
            let b = postcard::to_allocvec(&(z as i64));
            o.eval(&("isize", z), true);
            if a != b {
                o.fail("isize encodes like i64", format!("{}", z), format!("{:?}", a), format!("{:?}", b));
            }
        }
    }
}

/// lengths at the 3 -> 4 byte varint boundary (2^21): too large for the model's case file, decided
/// by the independent encoder and a round trip only
fn big_lengths(o: &mut Out) {
    for l in [2097151usize, 2097152, 2097153] {
        for v in [Val::Str(vec![b'a'; l]), Val::Bytes(vec![0x5a; l]), Val::Seq(vec![Val::Unit; l]), Val::Tuple(vec![Val::Bytes(vec![1; l]), Val::unsigned(IK::U8, 7)])] {
            let what = format!("{} of length {}", match &v { Val::Str(_) => "str", Val::Bytes(_) => "bytes", Val::Seq(_) => "seq of unit", _ => "(bytes, u8)" }, l);
            o.eval(&("big", &what), true);
            let got = guarded(|| postcard::to_allocvec(&v));
            let mut want = Vec::new();
            let _ = spec::encode(&v, &mut want);
            match got {
                Ok(Ok(b)) if b == want => {}
                Ok(Ok(b)) => o.fail("bytes == wire-format.md encoding", what, format!("{} bytes, prefix {}", b.len(), hex(&b[..b.len().min(8)])), format!("{} bytes, prefix {}", want.len(), hex(&want[..8.min(want.len())]))),
                other => o.fail("serialisable value is encoded", what, format!("{:?}", other.map(|r| r.map(|b| b.len()))), format!("{} bytes", want.len())),
            }
            o.bump("class:boundary_2^21");
        }
    }
}

pub fn run(a: &Args) {
    let mut o = Out::new(&a.cases);
    let mut r = Rng::new(a.seed);
    let mut kinds: BTreeMap<&'static str, u64> = BTreeMap::new();
    // every integer kind: boundary sweep
    for k in IK::ALL {
        let n = if a.thorough { 4000 } else { 150 };
        for _ in 0..n {
            let v = gen::gen_int(&mut r, k);
            check_value(&mut o, &Ty::Int(k), &v, "int");
        }
        if k.bits() == 8 || (a.thorough && k.bits() == 16) {
            for p in 0..(1u32 << k.bits()) {
                let v = if k.signed() {
                    let half = 1i128 << (k.bits() - 1);
                    Val::signed(k, p as i128 - half)
                } else {
                    Val::unsigned(k, p as u128)
                };
                check_value(&mut o, &Ty::Int(k), &v, "int_domain");
            }
            o.exhaustive.push(format!("entire domain of {}", k.name()));
        }
    }
    for b in [false, true] {
        check_value(&mut o, &Ty::Bool, &Val::Bool(b), "bool");
    }
    let n = if a.thorough { 5000 } else { 200 };
    for _ in 0..n {
        check_value(&mut o, &Ty::F32, &Val::F32(gen::gen_f32(&mut r)), "float");
        check_value(&mut o, &Ty::F64, &Val::F64(gen::gen_f64(&mut r)), "float");
        check_value(&mut o, &Ty::Char, &Val::Char(gen::gen_char(&mut r)), "char");
    }
    if a.thorough {
        for c in (0..0x110000u32).filter_map(char::from_u32) {
            check_value(&mut o, &Ty::Char, &Val::Char(c), "char_domain");
        }
        o.exhaustive.push("every char".into());
    }
    let n = if a.thorough { 60000 } else { 2500 };
    for _ in 0..n {
        let t = gen::gen_ty(&mut r, 4);
        gen::kinds(&t, &mut kinds);
        let v = gen::gen_val(&mut r, &t, 8);
        check_value(&mut o, &t, &v, "shape");
    }
    special(&mut o, &mut r);
    for (t, v) in gen::boundary_cases() {
        check_value(&mut o, &t, &v, "boundary");
    }
    big_lengths(&mut o);
    for l in [127usize, 128, 16383, 16384, 16385] {
        let v = Val::CollectStr(vec![vec![b'q'; l / 2], vec![b'r'; l - l / 2]]);
        check_value(&mut o, &Ty::Str, &v, "boundary_collect_str");
    }
    for (k, n) in kinds {
        o.bump_by(&format!("kind:{}", k), n);
    }
    o.finish(&a.summary, "random type shapes over all 29 serde kinds (depth <= 4) with boundary-biased values, lengths and variant indices at 126..129 and 16383..16385, plus per-kind sweeps (entire domains of u8/i8, and of u16/i16/char in thorough), length-unknown sequences and maps, collect_str, usize/isize; distinct = distinct printed value, non-trivial = encodes to at least one byte kind (not unit)");
}
