//! C19: schema inspection helpers are total and faithful for every schema.
use crate::dynval::hex;
use crate::out::Out;
use crate::prng::Rng;
use crate::props::guarded;
use crate::stree::{self, SD, ST};
use crate::Args;
use std::collections::BTreeSet;

fn names_of(t: &ST) -> Vec<String> {
    fn data(d: &SD, out: &mut Vec<String>) {
        if let SD::Struct(fs) = d {
            out.extend(fs.iter().map(|(n, _)| n.clone()));
        }
    }
    let mut out = Vec::new();
    match t {
        ST::Struct(n, d) => {
            out.push(n.clone());
            data(d, &mut out);
        }
        ST::Enum(n, vs) => {
            out.push(n.clone());
            for (vn, d) in vs {
                out.push(vn.clone());
                data(d, &mut out);
            }
        }
        _ => {}
    }
    out
}

fn check_tree(o: &mut Out, class: &str, t: &ST) {
    let ts = t.to_string();
    let owned = t.owned();
    o.eval(&ts, t.nodes() > 1);
    o.bump(&format!("class:{}", class));
    o.bump(&format!("top:{}", match t { ST::Struct(..) => "struct", ST::Enum(..) => "enum", ST::P(_) => "leaf", _ => "other" }));
    o.inflight(&format!("to_pseudocode / all_used_types of {}", ts));
    // rendering
    match guarded(|| (owned.to_pseudocode(), format!("{}", owned))) {
        Ok((text, disp)) => {
            if text != disp {
                o.fail("Display is to_pseudocode", ts.clone(), disp.clone(), text.clone());
            }
            for n in names_of(t) {
                if !text.contains(&n) {
                    o.fail("the rendering of a top-level struct or enum mentions its name and each field and variant name", ts.clone(), text.clone(), format!("contains {:?}", n));
                }
            }
            o.case("pseudocode", &[&ts], &format!("ok {}", hex(text.as_bytes())));
        }
        Err(()) => {
            o.fail("rendering a schema as pseudo-Rust never panics", ts.clone(), "panic".into(), "text".into());
            o.case("pseudocode", &[&ts], "panic");
        }
    }
    // discovery
    let mut want = BTreeSet::new();
    t.subtrees(&mut want);
    match guarded(|| owned.all_used_types()) {
        Ok(set) => {
            let got: BTreeSet<ST> = set.iter().map(ST::from_owned).collect();
            if got.len() != set.len() {
                o.fail("the collected types are distinct schemas", ts.clone(), format!("{} entries, {} distinct", set.len(), got.len()), "equal".into());
            }
            if !got.contains(t) {
                o.fail("the collected set contains the schema itself", ts.clone(), "missing".into(), "present".into());
            }
            if got != want {
                let missing: Vec<String> = want.difference(&got).map(|x| x.to_string()).collect();
                let extra: Vec<String> = got.difference(&want).map(|x| x.to_string()).collect();
                o.fail("the collected set is the schema and every schema nested inside it, and nothing else", ts.clone(), format!("missing [{}] extra [{}]", missing.join(" | "), extra.join(" | ")), "neither".into());
            }
            let mut strs: Vec<String> = got.iter().map(|x| x.to_string()).collect();
            strs.sort();
            o.case("usedtypes", &[&ts], &format!("ok {}", strs.join(" | ")));
            o.bump(&format!("used_types:{}", match got.len() { 1 => "1", 2..=4 => "2-4", 5..=10 => "5-10", _ => "11+" }));
        }
        Err(()) => {
            o.fail("collecting the used types never panics", ts.clone(), "panic".into(), "a set".into());
            o.case("usedtypes", &[&ts], "panic");
        }
    }
}

pub fn run(a: &Args) {
    let mut o = Out::new(&a.cases);
    let mut r = Rng::new(a.seed);
    for i in 0..stree::PRIMS.len() {
        let p = ST::P(i);
        for t in [
            p.clone(),
            ST::Opt(Box::new(p.clone())),
            ST::Seq(Box::new(p.clone())),
            ST::Tup(vec![p.clone()]),
            ST::Tup(vec![p.clone(), p.clone(), p.clone()]),
            ST::Tup(vec![p.clone(), ST::P((i + 3) % 20)]),
            ST::Map(Box::new(p.clone()), Box::new(ST::P((i + 7) % 20))),
            ST::Struct("S".into(), SD::Newtype(Box::new(p.clone()))),
            ST::Struct("S".into(), SD::Struct(vec![("f".into(), p.clone())])),
            ST::Enum("E".into(), vec![("A".into(), SD::Unit), ("B".into(), SD::Tuple(vec![p.clone(), p.clone()])), ("C".into(), SD::Struct(vec![("g".into(), p.clone())]))]),
        ] {
            check_tree(&mut o, "every_kind", &t);
        }
    }
    o.exhaustive.push("all 20 leaf kinds alone and inside each constructor (option, seq, tuples, map, struct and enum bodies)".into());
    check_tree(&mut o, "edge", &ST::Tup(vec![]));
    check_tree(&mut o, "edge", &ST::Struct(String::new(), SD::Tuple(vec![])));
    check_tree(&mut o, "edge", &ST::Enum(String::new(), vec![]));
    for (name, b) in stree::corpus() {
        let t = ST::from_owned(&postcard_schema::schema::owned::OwnedDataModelType::from(b));
        check_tree(&mut o, "corpus", &t);
        o.sample(format!("{}: {}", name, t.owned().to_pseudocode()));
    }
    let n = if a.thorough { 40000 } else { 2500 };
    let mut kinds = std::collections::BTreeMap::new();
    for i in 0..n {
        // top-level structs and enums twice as often as the generator alone would give
        let t = match i % 4 {
            0 => ST::Struct(stree::gen_name(&mut r), stree::gen_data(&mut r, 1 + (i % 3) as u32)),
            1 => ST::Enum(stree::gen_name(&mut r), (0..r.below(5)).map(|_| (stree::gen_name(&mut r), stree::gen_data(&mut r, 1 + (i % 3) as u32))).collect()),
            _ => stree::gen_tree(&mut r, 1 + (i % 5) as u32),
        };
        t.kinds(&mut kinds);
        check_tree(&mut o, "generated", &t);
    }
    for (k, v) in kinds {
        o.bump_by(&k, v);
    }
    o.finish(&a.summary, "owned schema trees: every leaf kind (incl. Usize, Isize, Schema) alone and inside every constructor, degenerate shapes (empty tuple, unnamed struct, empty enum), corpus types, random trees over all node and data kinds with random names; to_pseudocode/Display text and all_used_types() as a sorted set, compared with the model and with an independent nesting-set function; distinct = distinct tree, non-trivial = more than one node");
}
