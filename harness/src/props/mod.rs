use crate::dynval::{Seed, Ty, Val};
use crate::Args;
use serde::de::DeserializeSeed;
use std::cell::RefCell;

pub mod c01;
pub mod c02;
pub mod c03;
pub mod c04;
pub mod c05;
pub mod c06;
pub mod c07;
pub mod c08;
pub mod c10;
pub mod c11;
pub mod c20;
pub mod c12;
pub mod c13;
pub mod c14;
pub mod c15;
pub mod c16;
pub mod c17;
pub mod c18;
pub mod c19;

thread_local! {
    static CUR: RefCell<Option<Ty>> = RefCell::new(None);
}
/// A `Deserialize` type whose shape is the thread-local current `Ty`: lets the generic entry
/// points (`from_bytes::<T>`, `from_io`, `feed::<T>`, ...) run on dynamic shapes.
#[derive(Debug, PartialEq)]
pub struct Dyn(pub Val);
impl<'de> serde::Deserialize<'de> for Dyn {
    fn deserialize<D: serde::Deserializer<'de>>(d: D) -> Result<Self, D::Error> {
        CUR.with(|c| {
            let b = c.borrow();
            let t = b.as_ref().expect("Dyn used outside with_ty");
            Seed(t).deserialize(d).map(Dyn)
        })
    }
}
pub fn with_ty<R>(t: &Ty, f: impl FnOnce() -> R) -> R {
    CUR.with(|c| *c.borrow_mut() = Some(t.clone()));
    let r = f();
    CUR.with(|c| *c.borrow_mut() = None);
    r
}

/// run f, turning a panic into Err(()) (the panic hook is silenced in main)
pub fn guarded<R>(f: impl FnOnce() -> R) -> Result<R, ()> {
    std::panic::catch_unwind(std::panic::AssertUnwindSafe(f)).map_err(|_| ())
}

pub fn res_str<T>(r: &Result<T, postcard::Error>, f: impl Fn(&T) -> String) -> String {
    match r {
        Ok(v) => format!("ok {}", f(v)),
        Err(e) => format!("err:{:?}", e),
    }
}

pub fn run(a: &Args) {
    match a.prop.as_str() {
        "c01" => c01::run(a),
        "c02" => c02::run(a),
        "c03" => c03::run(a),
        "c04" => c04::run(a),
        "c05" => c05::run(a),
        "c06" => c06::run(a),
        "c07" => c07::run(a),
        "c08" => c08::run(a, false),
        "c09" => c08::run(a, true),
        "c10" => c10::run(a),
        "c11" => c11::run(a),
        "c20" => c20::run(a),
        "c12" => c12::run(a),
        "c13" => c13::run(a),
        "c14" => c14::run(a),
        "c15" => c15::run(a),
        "c16" => c16::run(a),
        "c17" => c17::run(a),
        "c18" => c18::run(a),
        "c19" => c19::run(a),
        other => panic!("unknown property {}", other),
    }
}
