//! C11: reader/writer transports are equivalent to the slice path and never over-read.
use crate::dynval::{hex, Ty, Val, IK};
use crate::gen;
use crate::out::Out;
use crate::prng::Rng;
use crate::props::{guarded, with_ty, Dyn};
use crate::Args;
use std::io::{Read, Write};

/// accepts bytes in pieces given by `schedule` (cycled) and fails once `fail_at` bytes
/// have been accepted
pub struct ChunkWriter {
    pub accepted: Vec<u8>,
    pub schedule: Vec<usize>,
    pub turn: usize,
    pub fail_at: Option<usize>,
    pub flush_fails: bool,
    /// at the failure point report "no room" as `Ok(0)` (what `&mut [u8]` and `Cursor<&mut [u8]>` do)
    /// instead of an `Err`
    pub zero_at_fail: bool,
}
thread_local! {
    /// what each call of `write` did, in the event vocabulary of the model's chunked writer
    /// (t<k>: at most k+1 bytes accepted; i: interrupted; z: Ok(0); f: failed)
    pub static WRITE_LOG: std::cell::RefCell<Vec<String>> = std::cell::RefCell::new(Vec::new());
    pub static WRITE_INTERRUPT_EVERY: std::cell::Cell<usize> = std::cell::Cell::new(0);
}
fn take_wlog() -> String {
    WRITE_LOG.with(|l| {
        let v = std::mem::take(&mut *l.borrow_mut());
        if v.is_empty() { "-".to_string() } else { v.join(",") }
    })
}
impl Write for ChunkWriter {
    fn write(&mut self, buf: &[u8]) -> std::io::Result<usize> {
        let every = WRITE_INTERRUPT_EVERY.with(|c| c.get());
        if every > 0 && self.turn % every == every - 1 && !buf.is_empty() {
            self.turn += 1;
            WRITE_LOG.with(|l| l.borrow_mut().push("i".into()));
            return Err(std::io::Error::new(std::io::ErrorKind::Interrupted, "interrupted"));
        }
        let mut cap = self.schedule[self.turn % self.schedule.len()].max(1);
        self.turn += 1;
        if let Some(k) = self.fail_at {
            if self.accepted.len() >= k {
                if self.zero_at_fail {
                    WRITE_LOG.with(|l| l.borrow_mut().push("z".into()));
                    return Ok(0);
                }
                WRITE_LOG.with(|l| l.borrow_mut().push("f".into()));
                return Err(std::io::Error::new(std::io::ErrorKind::Other, "injected"));
            }
            cap = cap.min(k - self.accepted.len());
        }
        let n = buf.len().min(cap);
        if !buf.is_empty() {
            WRITE_LOG.with(|l| l.borrow_mut().push(format!("t{}", cap.min(buf.len()) - 1)));
        }
        self.accepted.extend_from_slice(&buf[..n]);
        Ok(n)
    }
    fn flush(&mut self) -> std::io::Result<()> {
        if self.flush_fails {
            Err(std::io::Error::new(std::io::ErrorKind::Other, "flush"))
        } else {
            Ok(())
        }
    }
}
pub struct ChunkReader {
    pub data: Vec<u8>,
    pub pos: usize,
    pub schedule: Vec<usize>,
    pub turn: usize,
    pub fail_at: Option<usize>,
}
thread_local! {
    /// what each call of `read` did, in the event vocabulary of the model's chunked reader
    /// (g<k>: at most k+1 bytes; i: interrupted; f: failed); cleared by the caller
    pub static READ_LOG: std::cell::RefCell<Vec<String>> = std::cell::RefCell::new(Vec::new());
    /// every n-th call reports ErrorKind::Interrupted first (0: never)
    pub static INTERRUPT_EVERY: std::cell::Cell<usize> = std::cell::Cell::new(0);
}
impl Read for ChunkReader {
    fn read(&mut self, buf: &mut [u8]) -> std::io::Result<usize> {
        let every = INTERRUPT_EVERY.with(|c| c.get());
        if every > 0 && self.turn % every == every - 1 && buf.len() > 0 {
            // an interruption consumes a turn of the schedule, nothing else
            self.turn += 1;
            READ_LOG.with(|l| l.borrow_mut().push("i".into()));
            return Err(std::io::Error::new(std::io::ErrorKind::Interrupted, "interrupted"));
        }
        let mut cap = self.schedule[self.turn % self.schedule.len()].max(1);
        self.turn += 1;
        if let Some(k) = self.fail_at {
            if self.pos >= k {
                READ_LOG.with(|l| l.borrow_mut().push("f".into()));
                return Err(std::io::Error::new(std::io::ErrorKind::Other, "injected"));
            }
            cap = cap.min(k - self.pos);
        }
        let n = buf.len().min(cap).min(self.data.len() - self.pos);
        READ_LOG.with(|l| l.borrow_mut().push(format!("g{}", cap.min(buf.len().max(1)) - 1)));
        buf[..n].copy_from_slice(&self.data[self.pos..self.pos + n]);
        self.pos += n;
        Ok(n)
    }
}
fn take_log() -> String {
    READ_LOG.with(|l| {
        let v = std::mem::take(&mut *l.borrow_mut());
        if v.is_empty() { "-".to_string() } else { v.join(",") }
    })
}

fn schedules(r: &mut Rng) -> Vec<Vec<usize>> {
    vec![vec![1], (0..7).map(|_| r.range(1, 5) as usize).collect(), vec![usize::MAX]]
}

/// total bytes of borrowed data a value of this shape needs in the scratch buffer
fn scratch_needed(v: &Val) -> usize {
    match v {
        Val::Str(b) | Val::Bytes(b) => b.len(),
        Val::Char(c) => c.len_utf8(),
        Val::Some(x) | Val::Newtype(x) | Val::Variant(_, x) => scratch_needed(x),
        Val::Seq(xs) | Val::Tuple(xs) | Val::TupleStruct(xs) | Val::Struct(xs) => xs.iter().map(scratch_needed).sum(),
        Val::Map(kvs) => kvs.iter().map(|(k, v)| scratch_needed(k) + scratch_needed(v)).sum(),
        Val::F32(_) => 4,
        Val::F64(_) => 8,
        _ => 0,
    }
}

fn check_writer(o: &mut Out, r: &mut Rng, v: &Val) {
    let vs = v.to_string();
    let plain = match postcard::to_allocvec(v) {
        Ok(b) => b,
        Err(_) => return,
    };
    for sched in schedules(r) {
        let w = ChunkWriter { accepted: Vec::new(), schedule: sched.clone(), turn: 0, fail_at: None, flush_fails: false, zero_at_fail: false };
        o.eval(&("w", &vs, &sched), !plain.is_empty());
        // every third write call is interrupted first on the short-piece schedule
        WRITE_INTERRUPT_EVERY.with(|c| c.set(if sched.len() > 1 { 3 } else { 0 }));
        take_wlog();
        let got = guarded(|| postcard::to_io(v, w));
        WRITE_INTERRUPT_EVERY.with(|c| c.set(0));
        let events = take_wlog();
        if events.len() < 4000 {
            if let Ok(Ok(w)) = &got {
                // the model's chunked writer, driven by the events this writer produced
                o.case("toioc", &[&vs, &events, "0"], &format!("ok {}", hex(&w.accepted)));
            }
        }
        match got {
            Ok(Ok(w)) if w.accepted == plain => {}
            other => o.fail("writing through a writer produces exactly the plain encoding", format!("{} schedule {:?}", vs, sched), format!("{:?}", other.map(|r| r.map(|w| hex(&w.accepted)))), hex(&plain)),
        }
        o.bump("writer:ok");
    }
    o.case("toio", &[&vs, "-", "0"], &format!("ok {}", hex(&plain)));
    // failure at every byte offset
    for (k, zero) in (0..plain.len()).flat_map(|k| [(k, false), (k, true)]) {
        let all_s = schedules(r);
        let sched = r.pick(&all_s).clone();
        // keep a handle on what the writer accepted by writing into a shared buffer
        let shared = std::rc::Rc::new(std::cell::RefCell::new(Vec::<u8>::new()));
        struct Tee(ChunkWriter, std::rc::Rc<std::cell::RefCell<Vec<u8>>>);
        impl Write for Tee {
            fn write(&mut self, buf: &[u8]) -> std::io::Result<usize> {
                let n = self.0.write(buf)?;
                self.1.borrow_mut().extend_from_slice(&buf[..n]);
                Ok(n)
            }
            fn flush(&mut self) -> std::io::Result<()> {
                self.0.flush()
            }
        }
        let w = Tee(ChunkWriter { accepted: Vec::new(), schedule: sched.clone(), turn: 0, fail_at: Some(k), flush_fails: false, zero_at_fail: zero }, shared.clone());
        take_wlog();
        let got = guarded(|| postcard::to_io(v, w).map(|_| ()));
        let events = take_wlog();
        if k % 3 == 1 && events.len() < 4000 {
            if let Ok(Err(e)) = &got {
                o.case("toioc", &[&vs, &events, "0"], &format!("err:{:?}", e));
            }
        }
        o.eval(&("wf", &vs, k, zero), true);
        match got {
            Ok(Err(postcard::Error::SerializeBufferFull)) => {}
            other => o.fail("a writer that fails produces an error, never a panic", format!("{} fail_at {} ({})", vs, k, if zero { "writer reports Ok(0)" } else { "writer reports Err" }), format!("{:?}", other), "Err(SerializeBufferFull)".into()),
        }
        let acc = shared.borrow();
        if acc.len() > k || acc[..] != plain[..acc.len()] {
            o.fail("a failing writer has received only a prefix of the encoding", format!("{} fail_at {}", vs, k), hex(&acc), hex(&plain[..k]));
        }
        o.bump(if zero { "writer:full_reported_as_zero" } else { "writer:fail_injected" });
        if k % 4 == 0 && !zero {
            o.case("toio", &[&vs, &k.to_string(), "0"], "err:SerializeBufferFull");
        }
    }
    // the standard library's own bounded sinks, at every capacity
    for cap in 0..=plain.len() + 1 {
        let mut buf = vec![0xEEu8; cap];
        let got = guarded(|| postcard::to_io(v, &mut buf[..]).map(|rest| rest.len()));
        let mut buf2 = vec![0xEEu8; cap];
        let got2 = guarded(|| postcard::to_io(v, std::io::Cursor::new(&mut buf2[..])).map(|c| c.position() as usize));
        o.eval(&("wstd", &vs, cap), true);
        let fits = cap >= plain.len();
        let ok1 = match &got { Ok(Ok(rest)) => fits && *rest == cap - plain.len() && buf[..plain.len()] == plain[..], Ok(Err(postcard::Error::SerializeBufferFull)) => !fits, _ => false };
        let ok2 = match &got2 { Ok(Ok(pos)) => fits && *pos == plain.len() && buf2[..plain.len()] == plain[..], Ok(Err(postcard::Error::SerializeBufferFull)) => !fits, _ => false };
        if !ok1 || !ok2 {
            o.fail("a bounded std::io sink succeeds exactly when the encoding fits", format!("{} capacity {} (encoding {} bytes)", vs, cap, plain.len()), format!("&mut [u8]: {:?}; Cursor: {:?}", got, got2), if fits { "Ok with the plain encoding".into() } else { "Err(SerializeBufferFull)".into() });
        }
        o.bump("writer:std_bounded_sink");
    }
    let w = ChunkWriter { accepted: Vec::new(), schedule: vec![3], turn: 0, fail_at: None, flush_fails: true, zero_at_fail: false };
    match guarded(|| postcard::to_io(v, w).map(|_| ())) {
        Ok(Err(postcard::Error::SerializeBufferFull)) => {}
        other => o.fail("a failing flush is an error", vs.clone(), format!("{:?}", other), "Err(SerializeBufferFull)".into()),
    }
    o.case("toio", &[&vs, "-", "1"], "err:SerializeBufferFull");
}

fn check_reader(o: &mut Out, r: &mut Rng, t: &Ty, v: &Val) {
    let ts = t.to_string();
    let vs = v.to_string();
    let plain = match postcard::to_allocvec(v) {
        Ok(b) => b,
        Err(_) => return,
    };
    let need = scratch_needed(v);
    let mut stream = plain.clone();
    let suffix = r.bytes_upto(6);
    stream.extend_from_slice(&suffix);
    for sched in schedules(r) {
        for scratch_len in [need, need + 1, need + 5] {
            let mut scratch = vec![0xEEu8; scratch_len];
            let rd = ChunkReader { data: stream.clone(), pos: 0, schedule: sched.clone(), turn: 0, fail_at: None };
            // every third read call is interrupted first when the scratch is the roomy one
            INTERRUPT_EVERY.with(|c| c.set(if scratch_len == need + 5 { 3 } else { 0 }));
            take_log();
            let got = guarded(|| with_ty(t, || postcard::from_io::<Dyn, _>((rd, &mut scratch)).map(|(d, (rd, unused))| (d.0, rd.pos, unused.len()))));
            INTERRUPT_EVERY.with(|c| c.set(0));
            let events = take_log();
            o.eval(&("r", &ts, &stream, &sched, scratch_len), !plain.is_empty());
            if let Ok(Ok((back, pos, unused))) = &got {
                if events.len() < 4000 {
                    // the model's chunked reader, driven by the events this reader produced
                    o.case("fromioc", &[&ts, &hex(&stream), &events, &scratch_len.to_string()], &format!("ok {} {} {} {}", back, hex(&stream[*pos..]), scratch_len - unused, hex(&scratch)));
                }
            }
            match got {
                Ok(Ok((back, pos, unused))) => {
                    if back != *v {
                        o.fail("reading through a reader yields the value slice decoding would", format!("{} bytes {}", ts, hex(&stream)), back.to_string(), vs.clone());
                    }
                    if pos != plain.len() {
                        o.fail("decoding consumes from the reader precisely the bytes of the message", format!("{} bytes {} schedule {:?}", ts, hex(&stream), sched), pos.to_string(), plain.len().to_string());
                    }
                    if unused != scratch_len - need {
                        o.fail("the unused scratch is returned", format!("{} bytes {} scratch {}", ts, hex(&stream), scratch_len), unused.to_string(), (scratch_len - need).to_string());
                    }
                }
                other => o.fail("reader decoding succeeds with sufficient scratch", format!("{} bytes {} scratch {}", ts, hex(&stream), scratch_len), format!("{:?}", other.map(|r| r.map(|(v, p, u)| format!("{} {} {}", v, p, u)))), vs.clone()),
            }
            o.bump("reader:ok");
        }
    }
    // the model: value, what the reader still holds, scratch cursor, scratch contents
    {
        let scratch_len = need + 2;
        let mut scratch = vec![0xEEu8; scratch_len];
        let rd = ChunkReader { data: stream.clone(), pos: 0, schedule: vec![usize::MAX], turn: 0, fail_at: None };
        let got = guarded(|| with_ty(t, || postcard::from_io::<Dyn, _>((rd, &mut scratch)).map(|(d, (rd, unused))| (d.0, rd.pos, unused.len()))));
        if let Ok(Ok((back, pos, unused))) = got {
            o.case("fromio", &[&ts, &hex(&stream), "-", &scratch_len.to_string()], &format!("ok {} {} {} {}", back, hex(&stream[pos..]), scratch_len - unused, hex(&scratch)));
        }
    }
    // scratch too small: an error, never a panic
    for scratch_len in 0..need {
        let mut scratch = vec![0xEEu8; scratch_len];
        let rd = ChunkReader { data: stream.clone(), pos: 0, schedule: vec![2], turn: 0, fail_at: None };
        let got = guarded(|| with_ty(t, || postcard::from_io::<Dyn, _>((rd, &mut scratch)).map(|(d, _)| d.0)));
        o.eval(&("rs", &ts, &stream, scratch_len), true);
        match &got {
            Ok(Err(postcard::Error::DeserializeUnexpectedEnd)) => {}
            other => o.fail("a scratch buffer that is too small produces an error", format!("{} bytes {} scratch {} of {}", ts, hex(&stream), scratch_len, need), format!("{:?}", other.as_ref().map(|r| r.as_ref().map(|v| v.to_string()))), "Err(DeserializeUnexpectedEnd)".into()),
        }
        o.bump("reader:scratch_too_small");
        if scratch_len % 3 == 0 {
            o.case("fromio", &[&ts, &hex(&stream), "-", &scratch_len.to_string()], "err:DeserializeUnexpectedEnd");
        }
    }
    // stream ends (reader reports Ok(0)) at every offset of the message
    for k in 0..plain.len() {
        let mut scratch = vec![0xEEu8; need + 1];
        let all_s = schedules(r);
        let rd = ChunkReader { data: plain[..k].to_vec(), pos: 0, schedule: r.pick(&all_s).clone(), turn: 0, fail_at: None };
        let got = guarded(|| with_ty(t, || postcard::from_io::<Dyn, _>((rd, &mut scratch)).map(|(d, _)| d.0)));
        o.eval(&("re", &ts, &plain, k), true);
        match &got {
            Ok(Err(postcard::Error::DeserializeUnexpectedEnd)) => {}
            other => o.fail("a stream that ends inside the message produces an error, never a panic", format!("{} bytes {}", ts, hex(&plain[..k])), format!("{:?}", other.as_ref().map(|r| r.as_ref().map(|v| v.to_string()))), "Err(DeserializeUnexpectedEnd)".into()),
        }
        o.bump("reader:stream_ends");
    }
    // reader failure injected at every offset of the message
    for k in 0..plain.len() {
        let mut scratch = vec![0xEEu8; need + 1];
        let all_s = schedules(r);
        let rd = ChunkReader { data: stream.clone(), pos: 0, schedule: r.pick(&all_s).clone(), turn: 0, fail_at: Some(k) };
        take_log();
        let got = guarded(|| with_ty(t, || postcard::from_io::<Dyn, _>((rd, &mut scratch)).map(|(d, _)| d.0)));
        let events = take_log();
        if k % 3 == 1 && events.len() < 4000 {
            if let Ok(Err(e)) = &got {
                o.case("fromioc", &[&ts, &hex(&stream), &events, &(need + 1).to_string()], &format!("err:{:?}", e));
            }
        }
        o.eval(&("rf", &ts, &stream, k), true);
        match &got {
            Ok(Err(postcard::Error::DeserializeUnexpectedEnd)) => {}
            other => o.fail("a reader that fails produces an error, never a panic", format!("{} bytes {} fail_at {}", ts, hex(&stream), k), format!("{:?}", other.as_ref().map(|r| r.as_ref().map(|v| v.to_string()))), "Err(DeserializeUnexpectedEnd)".into()),
        }
        o.bump("reader:fail_injected");
        if k % 4 == 0 {
            o.case("fromio", &[&ts, &hex(&stream), &k.to_string(), &(need + 1).to_string()], "err:DeserializeUnexpectedEnd");
        }
    }
}


/// the same chunked writer / reader behind the embedded-io 0.6 traits (no Interrupted retry, a
/// write of Ok(0) is a contract violation there, so only Err-reporting failures are injected)
pub struct EW(pub ChunkWriter);
impl embedded_io::ErrorType for EW {
    type Error = embedded_io::ErrorKind;
}
impl embedded_io::Write for EW {
    fn write(&mut self, buf: &[u8]) -> Result<usize, Self::Error> {
        Write::write(&mut self.0, buf).map_err(|_| embedded_io::ErrorKind::Other)
    }
    fn flush(&mut self) -> Result<(), Self::Error> {
        Write::flush(&mut self.0).map_err(|_| embedded_io::ErrorKind::Other)
    }
}
pub struct ER(pub ChunkReader);
impl embedded_io::ErrorType for ER {
    type Error = embedded_io::ErrorKind;
}
impl embedded_io::Read for ER {
    fn read(&mut self, buf: &mut [u8]) -> Result<usize, Self::Error> {
        Read::read(&mut self.0, buf).map_err(|_| embedded_io::ErrorKind::Other)
    }
}

fn check_eio(o: &mut Out, r: &mut Rng, t: &Ty, v: &Val) {
    let ts = t.to_string();
    let vs = v.to_string();
    let plain = match postcard::to_allocvec(v) {
        Ok(b) => b,
        Err(_) => return,
    };
    // ---- to_eio ----
    for sched in schedules(r) {
        let w = EW(ChunkWriter { accepted: Vec::new(), schedule: sched.clone(), turn: 0, fail_at: None, flush_fails: false, zero_at_fail: false });
        o.eval(&("ew", &vs, &sched), !plain.is_empty());
        take_wlog();
        let got = guarded(|| postcard::to_eio(v, w));
        let events = take_wlog();
        if events.len() < 4000 {
            if let Ok(Ok(w)) = &got {
                o.case("toioc", &[&vs, &events, "0"], &format!("ok {}", hex(&w.0.accepted)));
            }
        }
        match got {
            Ok(Ok(w)) if w.0.accepted == plain => {}
            other => o.fail("writing through an embedded-io writer produces exactly the plain encoding", format!("{} schedule {:?}", vs, sched), format!("{:?}", other.map(|r| r.map(|w| hex(&w.0.accepted)))), hex(&plain)),
        }
        o.bump("eio_writer:ok");
    }
    for k in 0..plain.len() {
        let all_s = schedules(r);
        let sched = r.pick(&all_s).clone();
        let w = EW(ChunkWriter { accepted: Vec::new(), schedule: sched, turn: 0, fail_at: Some(k), flush_fails: false, zero_at_fail: false });
        take_wlog();
        let got = guarded(|| postcard::to_eio(v, w).map(|_| ()));
        let events = take_wlog();
        if k % 3 == 1 && events.len() < 4000 {
            if let Ok(Err(e)) = &got {
                o.case("toioc", &[&vs, &events, "0"], &format!("err:{:?}", e));
            }
        }
        o.eval(&("ewf", &vs, k), true);
        match got {
            Ok(Err(postcard::Error::SerializeBufferFull)) => {}
            other => o.fail("an embedded-io writer that fails produces an error, never a panic", format!("{} fail_at {}", vs, k), format!("{:?}", other), "Err(SerializeBufferFull)".into()),
        }
        o.bump("eio_writer:fail_injected");
    }
    let w = EW(ChunkWriter { accepted: Vec::new(), schedule: vec![3], turn: 0, fail_at: None, flush_fails: true, zero_at_fail: false });
    match guarded(|| postcard::to_eio(v, w).map(|_| ())) {
        Ok(Err(postcard::Error::SerializeBufferFull)) => {}
        other => o.fail("a failing embedded-io flush is an error", vs.clone(), format!("{:?}", other), "Err(SerializeBufferFull)".into()),
    }
    // ---- from_eio ----
    let need = scratch_needed(v);
    let mut stream = plain.clone();
    let suffix = r.bytes_upto(6);
    stream.extend_from_slice(&suffix);
    for sched in schedules(r) {
        for scratch_len in [need, need + 3] {
            let mut scratch = vec![0xEEu8; scratch_len];
            let rd = ER(ChunkReader { data: stream.clone(), pos: 0, schedule: sched.clone(), turn: 0, fail_at: None });
            take_log();
            let got = guarded(|| with_ty(t, || postcard::from_eio::<Dyn, _>((rd, &mut scratch)).map(|(d, (rd, unused))| (d.0, rd.0.pos, unused.len()))));
            let events = take_log();
            o.eval(&("er", &ts, &stream, &sched, scratch_len), !plain.is_empty());
            if let Ok(Ok((back, pos, unused))) = &got {
                if events.len() < 4000 {
                    o.case("fromioc", &[&ts, &hex(&stream), &events, &scratch_len.to_string()], &format!("ok {} {} {} {}", back, hex(&stream[*pos..]), scratch_len - unused, hex(&scratch)));
                }
            }
            match got {
                Ok(Ok((back, pos, unused))) if back == *v && pos == plain.len() && unused == scratch_len - need => {}
                other => o.fail("reading through an embedded-io reader yields the value, consumes exactly the message and returns the unused scratch", format!("{} bytes {} schedule {:?} scratch {}", ts, hex(&stream), sched, scratch_len), format!("{:?}", other.map(|r| r.map(|(v, p, u)| format!("{} {} {}", v, p, u)))), format!("{} {} {}", vs, plain.len(), scratch_len - need)),
            }
            o.bump("eio_reader:ok");
        }
    }
    for scratch_len in 0..need {
        let mut scratch = vec![0xEEu8; scratch_len];
        let rd = ER(ChunkReader { data: stream.clone(), pos: 0, schedule: vec![2], turn: 0, fail_at: None });
        let got = guarded(|| with_ty(t, || postcard::from_eio::<Dyn, _>((rd, &mut scratch)).map(|(d, _)| d.0)));
        o.eval(&("ers", &ts, &stream, scratch_len), true);
        match &got {
            Ok(Err(postcard::Error::DeserializeUnexpectedEnd)) => {}
            other => o.fail("an embedded-io scratch buffer that is too small produces an error", format!("{} bytes {} scratch {} of {}", ts, hex(&stream), scratch_len, need), format!("{:?}", other.as_ref().map(|r| r.as_ref().map(|v| v.to_string()))), "Err(DeserializeUnexpectedEnd)".into()),
        }
        o.bump("eio_reader:scratch_too_small");
    }
    for k in 0..plain.len() {
        let all_s = schedules(r);
        for ends in [true, false] {
            let mut scratch = vec![0xEEu8; need + 1];
            let rd = if ends {
                ER(ChunkReader { data: plain[..k].to_vec(), pos: 0, schedule: r.pick(&all_s).clone(), turn: 0, fail_at: None })
            } else {
                ER(ChunkReader { data: stream.clone(), pos: 0, schedule: r.pick(&all_s).clone(), turn: 0, fail_at: Some(k) })
            };
            take_log();
            let got = guarded(|| with_ty(t, || postcard::from_eio::<Dyn, _>((rd, &mut scratch)).map(|(d, _)| d.0)));
            let events = take_log();
            if !ends && k % 3 == 1 && events.len() < 4000 {
                if let Ok(Err(e)) = &got {
                    o.case("fromioc", &[&ts, &hex(&stream), &events, &(need + 1).to_string()], &format!("err:{:?}", e));
                }
            }
            o.eval(&("erf", &ts, &stream, k, ends), true);
            match &got {
                Ok(Err(postcard::Error::DeserializeUnexpectedEnd)) => {}
                other => o.fail("an embedded-io stream that ends or fails inside the message produces an error, never a panic", format!("{} bytes {} at {} ({})", ts, hex(&stream), k, if ends { "ends" } else { "fails" }), format!("{:?}", other.as_ref().map(|r| r.as_ref().map(|v| v.to_string()))), "Err(DeserializeUnexpectedEnd)".into()),
            }
            o.bump(if ends { "eio_reader:stream_ends" } else { "eio_reader:fail_injected" });
        }
    }
}

/// borrowed data lands in disjoint parts of the scratch buffer, in decode order
fn check_borrowed(o: &mut Out, r: &mut Rng) {
    let s1 = String::from_utf8(gen::gen_string(r, 12)).unwrap();
    let b2 = r.bytes_upto(10);
    let s3 = String::from_utf8(gen::gen_string(r, 12)).unwrap();
    let val: (&str, &[u8], u16, &str) = (&s1, &b2, 7, &s3);
    let plain = postcard::to_allocvec(&val).unwrap();
    let need = s1.len() + b2.len() + s3.len();
    let mut scratch = vec![0xEEu8; need + 3];
    let base = scratch.as_ptr() as usize;
    let rd = ChunkReader { data: plain.clone(), pos: 0, schedule: vec![r.range(1, 4) as usize], turn: 0, fail_at: None };
    let got = postcard::from_io::<(&str, &[u8], u16, &str), _>((rd, &mut scratch));
    o.eval(&("b", &plain), true);
    match got {
        Ok(((a, b, n, c), (_rd, unused))) => {
            let ra = (a.as_ptr() as usize - base, a.len());
            let rb = (b.as_ptr() as usize - base, b.len());
            let rc = (c.as_ptr() as usize - base, c.len());
            let ok = a == s1 && b == &b2[..] && n == 7 && c == s3 && ra.0 == 0 && rb.0 == ra.1 && rc.0 == ra.1 + rb.1 && rc.0 + rc.1 == need && unused.len() == 3;
            if !ok {
                o.fail("borrowed data occupies consecutive disjoint parts of the scratch buffer", hex(&plain), format!("{:?} {:?} {:?} unused {}", ra, rb, rc, unused.len()), format!("0..{} ..{} ..{} unused 3", s1.len(), s1.len() + b2.len(), need));
            }
        }
        Err(e) => o.fail("borrowing decode through a reader succeeds", hex(&plain), format!("{:?}", e), "Ok".into()),
    }
    o.bump("reader:borrowed");
}

/// several messages on one stream
fn check_consecutive(o: &mut Out, r: &mut Rng) {
    let k = r.range(2, 4) as usize;
    let items: Vec<(Ty, Val)> = (0..k).map(|_| { let t = gen::gen_ty(r, 2); let v = gen::gen_val(r, &t, 4); (t, v) }).collect();
    let mut stream = Vec::new();
    for (_, v) in &items {
        stream.extend_from_slice(&postcard::to_allocvec(v).unwrap());
    }
    let mut rd = ChunkReader { data: stream.clone(), pos: 0, schedule: vec![r.range(1, 5) as usize, 1, 3], turn: 0, fail_at: None };
    o.eval(&("seq", &stream), true);
    for (i, (t, v)) in items.iter().enumerate() {
        let mut scratch = vec![0u8; scratch_needed(v) + 1];
        let got = with_ty(t, || postcard::from_io::<Dyn, _>((rd, &mut scratch)).map(|(d, (rd, _))| (d.0, rd)));
        match got {
            Ok((back, rd2)) => {
                if back != *v {
                    o.fail("consecutive messages can be read from one stream", format!("stream {} message {}", hex(&stream), i), back.to_string(), v.to_string());
                }
                rd = rd2;
            }
            Err(e) => {
                o.fail("consecutive messages can be read from one stream", format!("stream {} message {}", hex(&stream), i), format!("{:?}", e), v.to_string());
                return;
            }
        }
    }
    if rd.pos != stream.len() {
        o.fail("all messages consumed exactly", hex(&stream), rd.pos.to_string(), stream.len().to_string());
    }
    o.bump(&format!("reader:consecutive:{}", k));
}

pub fn run(a: &Args) {
    let mut o = Out::new(&a.cases);
    let mut r = Rng::new(a.seed);
    let n = if a.thorough { 5000 } else { 250 };
    let mut done = 0;
    while done < n {
        let t = gen::gen_ty(&mut r, 3);
        let v = gen::gen_val(&mut r, &t, 4);
        let len = postcard::to_allocvec(&v).map(|b| b.len()).unwrap_or(usize::MAX);
        if len > 120 {
            continue;
        }
        check_writer(&mut o, &mut r, &v);
        check_reader(&mut o, &mut r, &t, &v);
        check_eio(&mut o, &mut r, &t, &v);
        if done % 3 == 0 {
            check_borrowed(&mut o, &mut r);
            check_consecutive(&mut o, &mut r);
        }
        if done < 10 {
            o.sample(format!("{} : {}", v, t));
        }
        done += 1;
    }
    let _ = IK::U8;
    o.finish(&a.summary, "generated shapes/values (encoding <= 120 bytes) x std::io and embedded-io 0.6 writers/readers that move data 1 byte at a time, in random short pieces or all at once x failure injected at every byte offset x scratch sizes 0..required+5 x borrowed-data placement x 2-4 consecutive messages on one stream; distinct = distinct (direction, shape, bytes, schedule, fault point / scratch size)");
}
