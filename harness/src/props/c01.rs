//! C01: round trip through every encode entry point x decode entry point.
use crate::dynval::{hex, Ty, Val};
use crate::gen;
use crate::out::Out;
use crate::prng::Rng;
use crate::props::{guarded, with_ty, Dyn};
use crate::Args;
use std::collections::BTreeMap;

pub const ENC: [&str; 5] = ["to_slice", "to_vec(heapless)", "to_allocvec", "to_extend", "to_io"];
pub const DEC: [&str; 3] = ["from_bytes", "take_from_bytes", "from_io"];

pub fn encode_with(which: usize, v: &Val) -> Result<Vec<u8>, postcard::Error> {
    match which {
        0 => {
            let mut buf = vec![0u8; 1 << 16];
            postcard::to_slice(v, &mut buf).map(|s| s.to_vec())
        }
        1 => postcard::to_vec::<Val, 4096>(v).map(|h| h.to_vec()),
        2 => postcard::to_allocvec(v),
        3 => postcard::to_extend(v, Vec::new()),
        _ => postcard::to_io(v, Vec::new()),
    }
}

pub fn decode_with(which: usize, t: &Ty, input: &[u8]) -> Result<(Val, Option<Vec<u8>>), postcard::Error> {
    with_ty(t, || match which {
        0 => postcard::from_bytes::<Dyn>(input).map(|d| (d.0, None)),
        1 => postcard::take_from_bytes::<Dyn>(input).map(|(d, rest)| (d.0, Some(rest.to_vec()))),
        _ => {
            let mut scratch = vec![0u8; input.len() + 16];
            let rd = std::io::Cursor::new(input);
            postcard::from_io::<Dyn, _>((rd, &mut scratch)).map(|(d, (rd, _unused))| {
                let pos = rd.position() as usize;
                (d.0, Some(input[pos..].to_vec()))
            })
        }
    })
}

pub fn check_value(o: &mut Out, r: &mut Rng, t: &Ty, v: &Val) {
    let vs = v.to_string();
    let ts = t.to_string();
    o.eval(&(vs.clone(), ts.clone()), !matches!(v, Val::Unit | Val::UnitStruct));
    let reference = match guarded(|| postcard::to_allocvec(v)) {
        Ok(Ok(b)) => b,
        other => {
            o.fail("to_allocvec succeeds", format!("{} : {}", vs, ts), format!("{:?}", other.map(|r| r.map(|b| hex(&b)))), "bytes".into());
            return;
        }
    };
    for (i, name) in ENC.iter().enumerate() {
        if (i == 0 && reference.len() > (1 << 16)) || (i == 1 && reference.len() > 4096) {
            continue;
        }
        match guarded(|| encode_with(i, v)) {
            Ok(Ok(b)) if b == reference => {}
            other => o.fail(&format!("{} produces the same bytes as to_allocvec", name), format!("{} : {}", vs, ts), format!("{:?}", other.map(|r| r.map(|b| hex(&b)))), hex(&reference)),
        }
    }
    let suffix = r.bytes_upto(9);
    let mut input = reference.clone();
    input.extend_from_slice(&suffix);
    for (j, name) in DEC.iter().enumerate() {
        match guarded(|| decode_with(j, t, &input)) {
            Ok(Ok((back, rest))) => {
                if back != *v {
                    o.fail(&format!("{} returns the encoded value", name), format!("{} : {} bytes {}", vs, ts, hex(&input)), back.to_string(), vs.clone());
                }
                if let Some(rest) = rest {
                    if rest != suffix {
                        o.fail(&format!("{} hands back exactly the bytes after the message", name), format!("{} : {} bytes {}", vs, ts, hex(&input)), hex(&rest), hex(&suffix));
                    }
                }
            }
            other => o.fail(&format!("{} decodes what the encoder produced", name), format!("{} : {} bytes {}", vs, ts, hex(&input)), format!("{:?}", other.map(|r| r.map(|(v, _)| v.to_string()))), vs.clone()),
        }
    }
    o.bump_by("pairings", (ENC.len() * DEC.len()) as u64);
    o.bump(&format!("suffix_len:{}", suffix.len()));
    // model comparison: encoding, and decoding with the suffix
    o.case("enc", &[&vs], &format!("ok {}", hex(&reference)));
    let d = guarded(|| decode_with(1, t, &input));
    let ds = match d {
        Ok(Ok((back, Some(rest)))) => format!("ok {} {}", back, hex(&rest)),
        Ok(Ok((back, None))) => format!("ok {} x", back),
        Ok(Err(e)) => format!("err:{:?}", e),
        Err(()) => "panic".into(),
    };
    o.case("de", &[&ts, &hex(&input)], &ds);
    o.sample(format!("{} : {} => {}", vs, ts, hex(&reference)));
}

pub fn run(a: &Args) {
    let mut o = Out::new(&a.cases);
    let mut r = Rng::new(a.seed);
    let mut kinds: BTreeMap<&'static str, u64> = BTreeMap::new();
    use crate::dynval::IK;
    for k in IK::ALL {
        let n = if a.thorough { 3000 } else { 120 };
        for _ in 0..n {
            let v = gen::gen_int(&mut r, k);
            check_value(&mut o, &mut r, &Ty::Int(k), &v);
        }
        if k.bits() == 8 || (a.thorough && k.bits() == 16) {
            for p in 0..(1u32 << k.bits()) {
                let v = if k.signed() { Val::signed(k, p as i128 - (1i128 << (k.bits() - 1))) } else { Val::unsigned(k, p as u128) };
                check_value(&mut o, &mut r, &Ty::Int(k), &v);
            }
            o.exhaustive.push(format!("entire domain of {}", k.name()));
        }
    }
    check_value(&mut o, &mut r, &Ty::Bool, &Val::Bool(false));
    check_value(&mut o, &mut r, &Ty::Bool, &Val::Bool(true));
    let n = if a.thorough { 4000 } else { 150 };
    for _ in 0..n {
        let (f, d, c) = (gen::gen_f32(&mut r), gen::gen_f64(&mut r), gen::gen_char(&mut r));
        check_value(&mut o, &mut r, &Ty::F32, &Val::F32(f));
        check_value(&mut o, &mut r, &Ty::F64, &Val::F64(d));
        check_value(&mut o, &mut r, &Ty::Char, &Val::Char(c));
    }
    if a.thorough {
        for c in (0..0x110000u32).filter_map(char::from_u32) {
            check_value(&mut o, &mut r, &Ty::Char, &Val::Char(c));
        }
        o.exhaustive.push("every char".into());
    }
    let n = if a.thorough { 50000 } else { 2000 };
    for _ in 0..n {
        let t = gen::gen_ty(&mut r, 4);
        gen::kinds(&t, &mut kinds);
        let v = gen::gen_val(&mut r, &t, 8);
        check_value(&mut o, &mut r, &t, &v);
    }
    // lengths at the 3 -> 4 byte varint boundary: round trip only (too large for the model's case file)
    for l in [2097151usize, 2097152, 2097153] {
        for (t, v) in [(Ty::Str, Val::Str(vec![b'a'; l])), (Ty::Bytes, Val::Bytes(vec![0x5a; l])), (Ty::Seq(Box::new(Ty::Unit)), Val::Seq(vec![Val::Unit; l]))] {
            let what = format!("{} of length {}", t, l);
            o.eval(&("big", &what), true);
            let got = guarded(|| postcard::to_allocvec(&v).and_then(|b| decode_with(1, &t, &b).map(|(back, rest)| (back == v, rest.map(|r| r.len())))));
            match got {
                Ok(Ok((true, Some(0)))) => {}
                other => o.fail("take_from_bytes returns the encoded value", what, format!("{:?}", other), "the value, nothing left".into()),
            }
            o.bump("boundary_2^21");
        }
    }
    for (t, v) in gen::boundary_cases() {
        check_value(&mut o, &mut r, &t, &v);
        o.bump("boundary_length_or_variant_index");
    }
    for (k, n) in kinds {
        o.bump_by(&format!("kind:{}", k), n);
    }
    o.finish(&a.summary, "random type shapes over all 29 serde kinds (depth <= 4) x boundary-biased values x 5 encode entry points x 3 decode entry points, lengths and variant indices at 126..129 and 16383..16385, a random suffix of 0-8 bytes appended; per-kind sweeps (entire u8/i8 domains; u16/i16/char domains in thorough); distinct = distinct (value, shape), non-trivial = not a bare unit");
}
