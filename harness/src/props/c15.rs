//! C15: borrowed and owned schemas are the same thing on the wire.
use crate::dynval::hex;
use crate::out::Out;
use crate::prng::Rng;
use crate::props::guarded;
use crate::stree::{self, ST};
use crate::Args;
use postcard_schema::schema::owned::OwnedDataModelType;
use postcard_schema::schema::DataModelType;

fn check_tree(o: &mut Out, r: &mut Rng, class: &str, t: &ST, b: &'static DataModelType) {
    let ts = t.to_string();
    o.eval(&ts, t.nodes() > 1);
    o.bump(&format!("class:{}", class));
    o.bump(&format!("depth:{}", t.depth().min(6)));
    // (1) the conversion preserves every kind, name, order and nesting
    let conv = match guarded(|| OwnedDataModelType::from(b)) {
        Ok(c) => c,
        Err(()) => {
            o.fail("the conversion to the owned form does not panic", ts.clone(), "panic".into(), "an owned schema".into());
            return;
        }
    };
    let back = ST::from_owned(&conv);
    if back != *t {
        o.fail("the owned conversion preserves every kind, name, order and nesting", ts.clone(), back.to_string(), ts.clone());
    }
    if conv != t.owned() {
        o.fail("the owned conversion equals the owned schema built directly", ts.clone(), format!("{:?}", conv), format!("{:?}", t.owned()));
    }
    // (2) identical bytes, equal to the wire format of the declared enums
    let bb = guarded(|| postcard::to_allocvec(b));
    let bo = guarded(|| postcard::to_allocvec(&conv));
    let mut want = Vec::new();
    t.wire(&mut want);
    match (&bb, &bo) {
        (Ok(Ok(x)), Ok(Ok(y))) => {
            if x != y {
                o.fail("borrowed and owned forms serialise to identical bytes", ts.clone(), format!("borrowed {} owned {}", hex(x), hex(y)), "equal".into());
            }
            if *x != want {
                o.fail("the bytes are the postcard encoding of the schema enum as declared", ts.clone(), hex(x), hex(&want));
            }
        }
        other => {
            o.fail("schemas serialise", ts.clone(), format!("{:?}", other), hex(&want));
            return;
        }
    }
    let bytes = bb.unwrap().unwrap();
    o.case("schemaser", &[&ts], &format!("ok {} {} {}", hex(&bytes), hex(bo.as_ref().unwrap().as_ref().unwrap()), back));
    // (3) those bytes deserialise to the conversion, consuming exactly them
    let suffix = r.bytes_upto(4);
    let mut stream = bytes.clone();
    stream.extend_from_slice(&suffix);
    match guarded(|| postcard::take_from_bytes::<OwnedDataModelType>(&stream).map(|(v, rest)| (v, rest.to_vec()))) {
        Ok(Ok((v, rest))) => {
            if v != conv {
                o.fail("the bytes deserialise to an owned schema equal to the conversion", ts.clone(), ST::from_owned(&v).to_string(), ts.clone());
            }
            if rest != suffix {
                o.fail("deserialising a schema consumes exactly its bytes", format!("{} ++ {}", hex(&bytes), hex(&suffix)), hex(&rest), hex(&suffix));
            }
            o.case("schemade", &[&hex(&stream)], &format!("ok {} {}", ST::from_owned(&v), hex(&rest)));
        }
        other => o.fail("the bytes deserialise as an owned schema", hex(&stream), format!("{:?}", other.map(|r| r.map(|(v, _)| ST::from_owned(&v).to_string()))), ts.clone()),
    }
    match guarded(|| postcard::from_bytes::<OwnedDataModelType>(&bytes)) {
        Ok(Ok(v)) if v == conv => {}
        other => o.fail("from_bytes of the schema bytes is the conversion", hex(&bytes), format!("{:?}", other.map(|r| r.map(|v| ST::from_owned(&v).to_string()))), ts.clone()),
    }
    // (4) the glue around it: truncated and mutated schema bytes never panic and behave as the
    // model's decoder (error kinds included)
    if bytes.len() <= 64 {
        let k = r.below(bytes.len() as u64 + 1) as usize;
        let mut variants: Vec<Vec<u8>> = vec![bytes[..k].to_vec()];
        if !bytes.is_empty() {
            let mut m = bytes.clone();
            let i = r.below(m.len() as u64) as usize;
            m[i] = match r.below(3) { 0 => m[i] ^ (1 << r.below(8)), 1 => r.below(30) as u8, _ => r.below(256) as u8 };
            variants.push(m);
        }
        for inp in variants {
            o.eval(&("mut", &inp), true);
            let got = guarded(|| postcard::take_from_bytes::<OwnedDataModelType>(&inp).map(|(v, rest)| (ST::from_owned(&v), rest.to_vec())));
            let obs = match got {
                Ok(Ok((v, rest))) => {
                    o.bump("malformed:accepted");
                    format!("ok {} {}", v, hex(&rest))
                }
                Ok(Err(e)) => {
                    o.bump(&format!("malformed:{:?}", e));
                    format!("err:{:?}", e)
                }
                Err(()) => {
                    o.fail("deserialising a schema from arbitrary bytes never panics", hex(&inp), "panic".into(), "a schema or an error".into());
                    "panic".into()
                }
            };
            o.case("schemade", &[&hex(&inp)], &obs);
        }
    }
}

pub fn run(a: &Args) {
    let mut o = Out::new(&a.cases);
    let mut r = Rng::new(a.seed);
    // every node kind on its own and under every unary constructor
    for i in 0..stree::PRIMS.len() {
        for t in [ST::P(i), ST::Opt(Box::new(ST::P(i))), ST::Seq(Box::new(ST::P(i))), ST::Tup(vec![ST::P(i)]), ST::Map(Box::new(ST::P(i)), Box::new(ST::P((i + 7) % 20)))] {
            let b = t.borrowed();
            check_tree(&mut o, &mut r, "every_kind", &t, b);
        }
    }
    o.exhaustive.push("all 20 leaf kinds alone and under Option, Seq, Tuple, Map".into());
    for (name, b) in stree::corpus() {
        let t = ST::from_owned(&OwnedDataModelType::from(b));
        check_tree(&mut o, &mut r, "corpus", &t, b);
        o.sample(format!("{} = {}", name, t));
    }
    let n = if a.thorough { 30000 } else { 1500 };
    let mut kinds = std::collections::BTreeMap::new();
    for i in 0..n {
        let t = stree::gen_tree(&mut r, 1 + (i % 5) as u32);
        t.kinds(&mut kinds);
        let b = t.borrowed();
        check_tree(&mut o, &mut r, "generated", &t, b);
        if i < 6 {
            o.sample(t.to_string());
        }
    }
    for (k, v) in kinds {
        o.bump_by(&k, v);
    }
    o.finish(&a.summary, "schema trees: every leaf kind alone and under each unary/binary constructor, the schemas of a corpus of concrete types (built-ins, derived structs/enums, the schema types themselves), random trees over all 26 node kinds and 4 data kinds with random names (empty, ASCII, multi-byte, tag-like bytes), depth <= 5, fan-out <= 3; each leaked to 'static for the borrowed form; plus one truncation and one byte mutation of every encoding; distinct = distinct tree / mutated input, non-trivial = more than one node");
}
