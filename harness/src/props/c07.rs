//! C07: COBS decoding of arbitrary bytes is total and agrees with the COBS definition.
use crate::dynval::{hex, Ty, IK};
use crate::mem::GuardBuf;
use crate::out::Out;
use crate::prng::Rng;
use crate::props::{guarded, with_ty, Dyn};
use crate::refimpl;
use crate::Args;

fn targets() -> Vec<Ty> {
    vec![
        Ty::Int(IK::U8),
        Ty::Int(IK::U32),
        Ty::Tuple(vec![Ty::Int(IK::U8), Ty::Int(IK::U8)]),
        Ty::Bytes,
        Ty::Str,
        Ty::Unit,
        Ty::Seq(Box::new(Ty::Int(IK::U16))),
        Ty::Option(Box::new(Ty::Bool)),
    ]
}

/// what the property prescribes: frame = bytes up to the first zero (or all of them);
/// ill-formed COBS -> bad encoding; otherwise plain decoding of the payload; the remainder
/// starts right after the sentinel (empty when there is none)
fn expected(t: &Ty, input: &[u8]) -> (String, String) {
    let z = input.iter().position(|b| *b == 0);
    let frame = &input[..z.unwrap_or(input.len())];
    let rest = match z {
        Some(p) => &input[p + 1..],
        None => &input[input.len()..],
    };
    match refimpl::cobs_decode(frame) {
        None => ("err:DeserializeBadEncoding".into(), "err:DeserializeBadEncoding".into()),
        Some(payload) => {
            let plain = with_ty(t, || postcard::from_bytes::<Dyn>(&payload).map(|d| d.0));
            match plain {
                Ok(v) => (format!("ok {} {}", v, hex(rest)), format!("ok {}", v)),
                Err(e) => (format!("err:{:?}", e), format!("err:{:?}", e)),
            }
        }
    }
}

pub fn check(o: &mut Out, t: &Ty, ts: &str, input: &[u8], class: &str, model: bool, flip: bool) {
    let (exp_take, exp_from) = expected(t, input);
    o.inflight(&format!("take_from_bytes_cobs / from_bytes_cobs as {} bytes {}", ts, hex(input)));
    // take_from_bytes_cobs, buffer flush against a guard page
    let mut g = GuardBuf::from_bytes(input, flip);
    let got = guarded(|| {
        with_ty(t, || {
            let buf = g.as_mut();
            postcard::take_from_bytes_cobs::<Dyn>(buf).map(|(d, rest)| (d.0, rest.to_vec(), rest.len()))
        })
    });
    let obs = match &got {
        Ok(Ok((v, rest, _))) => format!("ok {} {}", v, hex(rest)),
        Ok(Err(e)) => format!("err:{:?}", e),
        Err(()) => "panic".into(),
    };
    o.eval(&(ts, input), !input.is_empty());
    if obs != exp_take {
        o.fail("take_from_bytes_cobs == COBS-decode the first frame, then plain decoding", format!("{} bytes {}", ts, hex(input)), obs.clone(), exp_take.clone());
    }
    // bytes after the frame are unchanged in the buffer
    if let Some(p) = input.iter().position(|b| *b == 0) {
        if g.as_ref()[p + 1..] != input[p + 1..] {
            o.fail("bytes after the frame are untouched", format!("{} bytes {}", ts, hex(input)), hex(&g.as_ref()[p + 1..]), hex(&input[p + 1..]));
        }
    }
    let mut g2 = GuardBuf::from_bytes(input, !flip);
    let got2 = guarded(|| with_ty(t, || postcard::from_bytes_cobs::<Dyn>(g2.as_mut()).map(|d| d.0)));
    let obs2 = match &got2 {
        Ok(Ok(v)) => format!("ok {}", v),
        Ok(Err(e)) => format!("err:{:?}", e),
        Err(()) => "panic".into(),
    };
    if obs2 != exp_from {
        o.fail("from_bytes_cobs == COBS-decode the first frame, then plain decoding", format!("{} bytes {}", ts, hex(input)), obs2.clone(), exp_from);
    }
    let outcome = if obs.starts_with("ok") { "ok".to_string() } else { obs.clone() };
    o.bump(&format!("{}:{}", class, outcome));
    if model {
        o.case("takecobs", &[ts, &hex(input)], &obs);
        o.case("frombytescobs", &[ts, &hex(input)], &obs2);
    }
    if o.evaluations % 4001 == 7 {
        o.sample(format!("{} bytes {} => {}", ts, hex(input), obs));
    }
}

pub fn run(a: &Args) {
    let mut o = Out::new(&a.cases);
    let mut r = Rng::new(a.seed);
    let tys = targets();
    let alpha = [0x00u8, 0x01, 0x02, 0x03, 0x05, 0xFE, 0xFF];
    let maxlen = if a.thorough { 7 } else { 5 };
    for (ti, t) in tys.iter().enumerate() {
        let ts = t.to_string();
        let mut buf: Vec<u8> = Vec::new();
        fn rec(o: &mut Out, t: &Ty, ts: &str, alpha: &[u8], maxlen: usize, buf: &mut Vec<u8>, model_upto: usize) {
            let flip = buf.len() % 2 == 0;
            check(o, t, ts, buf, "exhaustive", buf.len() <= model_upto, flip);
            if buf.len() == maxlen {
                return;
            }
            for &b in alpha {
                buf.push(b);
                rec(o, t, ts, alpha, maxlen, buf, model_upto);
                buf.pop();
            }
        }
        // the full sweep for three targets, one shorter for the others
        let ml = if ti < 3 { maxlen } else { maxlen - 1 };
        rec(&mut o, t, &ts, &alpha, ml, &mut buf, 4);
        o.exhaustive.push(format!("all byte strings of length <= {} over {{00,01,02,03,05,FE,FF}} for {}", ml, ts));
    }
    // valid frames: every single-byte corruption, every truncation
    let n = if a.thorough { 3000 } else { 150 };
    for _ in 0..n {
        let t = r.pick(&tys).clone();
        let ts = t.to_string();
        let v = crate::gen::gen_val(&mut r, &t, 6);
        let frame = match postcard::to_allocvec_cobs(&v) {
            Ok(f) => f,
            Err(_) => continue,
        };
        if frame.len() > 300 {
            continue;
        }
        let mut tail = frame.clone();
        tail.extend_from_slice(&r.bytes_upto(6));
        check(&mut o, &t, &ts, &tail, "valid_plus_tail", true, r.chance(1, 2));
        for cut in 0..frame.len() {
            check(&mut o, &t, &ts, &frame[..cut], "truncated", cut % 3 == 0, cut % 2 == 0);
        }
        for i in 0..frame.len() {
            for newb in [0x00u8, 0x01, 0x02, 0xFF, frame[i].wrapping_add(1), frame[i] ^ 0x80] {
                if newb == frame[i] {
                    continue;
                }
                let mut m = tail.clone();
                m[i] = newb;
                check(&mut o, &t, &ts, &m, "corrupted", i % 4 == 0, i % 2 == 0);
            }
        }
    }
    // long runs around the 0xFF code, and random bytes
    for len in [253usize, 254, 255, 256, 300, 509, 510] {
        for code in [0xFFu8, 0xFE, 0x01] {
            let mut m = vec![code];
            m.extend((0..len).map(|i| (i % 254 + 1) as u8));
            for tailz in [false, true] {
                let mut mm = m.clone();
                if tailz {
                    mm.push(0);
                    mm.push(7);
                }
                check(&mut o, &Ty::Bytes, "bytes", &mm, "long_run", true, true);
            }
        }
    }
    let n = if a.thorough { 60000 } else { 3000 };
    for _ in 0..n {
        let t = r.pick(&tys).clone();
        let ts = t.to_string();
        let len = r.below(24) as usize;
        let m: Vec<u8> = (0..len).map(|_| match r.below(4) { 0 => 0, 1 => r.range(1, 6) as u8, _ => r.next() as u8 }).collect();
        check(&mut o, &t, &ts, &m, "random", true, r.chance(1, 2));
    }
    o.finish(&a.summary, "byte strings x 8 target types, each decoded with the buffer flush against a PROT_NONE page: exhaustive strings over {00,01,02,03,05,FE,FF} (length <= 5 quick / 7 thorough), valid frames with every truncation and single-byte corruptions, 0xFF/0xFE runs of 253..510 bytes, random bytes; oracle: independent COBS decoder followed by plain decoding; distinct = distinct (type, bytes), non-trivial = non-empty");
}
