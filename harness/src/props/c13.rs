//! C13: fixint::le / fixint::be fields.
use crate::dynval::hex;
use crate::out::Out;
use crate::prng::Rng;
use crate::Args;
use serde::{Deserialize, Serialize};

macro_rules! fix_structs {
    ($($t:ident $le:ident $be:ident),*) => {
        $(
            #[derive(Serialize, Deserialize, Debug, PartialEq)]
            struct $le { #[serde(with = "postcard::fixint::le")] x: $t }
            #[derive(Serialize, Deserialize, Debug, PartialEq)]
            struct $be { #[serde(with = "postcard::fixint::be")] x: $t }
        )*
    };
}
fix_structs!(u16 LeU16 BeU16, u32 LeU32 BeU32, u64 LeU64 BeU64, u128 LeU128 BeU128,
             i16 LeI16 BeI16, i32 LeI32 BeI32, i64 LeI64 BeI64, i128 LeI128 BeI128);

trait HexZ { fn hexz(self) -> String; }
macro_rules! hexz_impl {
    (signed $($t:ident),*) => { $(impl HexZ for $t { fn hexz(self) -> String { if self < 0 { format!("-{:x}", self.unsigned_abs()) } else { format!("{:x}", self) } } })* };
    (unsigned $($t:ident),*) => { $(impl HexZ for $t { fn hexz(self) -> String { format!("{:x}", self) } })* };
}
hexz_impl!(signed i16, i32, i64, i128);
hexz_impl!(unsigned u16, u32, u64, u128);

macro_rules! one {
    ($o:expr, $t:ident, $le:ident, $be:ident, $name:expr, $v:expr) => {{
        let x: $t = $v;
        for be in [false, true] {
            let order = if be { "be" } else { "le" };
            let (bytes, back): (Result<Vec<u8>, postcard::Error>, Option<$t>) = if be {
                let b = postcard::to_allocvec(&$be { x });
                let r = b.as_ref().ok().and_then(|b| postcard::from_bytes::<$be>(b).ok()).map(|s| s.x);
                (b, r)
            } else {
                let b = postcard::to_allocvec(&$le { x });
                let r = b.as_ref().ok().and_then(|b| postcard::from_bytes::<$le>(b).ok()).map(|s| s.x);
                (b, r)
            };
            let expect: Vec<u8> = if be { x.to_be_bytes().to_vec() } else { x.to_le_bytes().to_vec() };
            let zs = x.hexz();
            let input = format!("{} {} {}", order, $name, zs);
            $o.eval(&input, x != 0);
            match &bytes {
                Ok(b) => {
                    if *b != expect {
                        $o.fail("fixint bytes == to_{le,be}_bytes", input.clone(), hex(b), hex(&expect));
                    }
                    if back != Some(x) {
                        $o.fail("fixint round trip", input.clone(), format!("{:?}", back), format!("{:?}", x));
                    }
                    let backs = match back { Some(y) => y.hexz(), None => "undecodable".to_string() };
                    $o.case("fixint", &[order, $name, &zs], &format!("{} {}", hex(b), backs));
                }
                Err(e) => $o.fail("fixint serialises", input.clone(), format!("{:?}", e), hex(&expect)),
            }
            $o.bump(&format!("{}:{}", order, $name));
            if $o.samples.len() < 6 { $o.sample(format!("{} => {}", input, bytes.as_ref().map(|b| hex(b)).unwrap_or_default())); }
        }
    }};
}

macro_rules! sweep {
    ($o:expr, $r:expr, $thorough:expr, $t:ident, $le:ident, $be:ident, $name:expr) => {{
        let bits = <$t>::BITS;
        if bits == 16 {
            if $thorough {
                for p in 0..=u16::MAX { one!($o, $t, $le, $be, $name, p as $t); }
                $o.exhaustive.push(format!("entire 16-bit domain of {}", $name));
            } else {
                for _ in 0..600 { one!($o, $t, $le, $be, $name, $r.next() as $t); }
            }
        }
        // every pattern with exactly one non-zero byte
        let step = if $thorough { 1 } else { 17 };
        for pos in 0..(bits / 8) {
            let mut b = 1u32;
            while b < 256 {
                let p: u128 = (b as u128) << (8 * pos);
                one!($o, $t, $le, $be, $name, p as $t);
                b += step;
            }
            one!($o, $t, $le, $be, $name, ((255u128) << (8 * pos)) as $t);
        }
        for x in [<$t>::MIN, <$t>::MAX, 0 as $t, 1 as $t, (<$t>::MAX / 2), (<$t>::MIN / 2)] { one!($o, $t, $le, $be, $name, x); }
        let n = if $thorough { 20000 } else { 400 };
        for _ in 0..n { one!($o, $t, $le, $be, $name, $r.u128() as $t); }
    }};
}

pub fn run(a: &Args) {
    let mut o = Out::new(&a.cases);
    let mut r = Rng::new(a.seed);
    sweep!(o, r, a.thorough, u16, LeU16, BeU16, "u16");
    sweep!(o, r, a.thorough, i16, LeI16, BeI16, "i16");
    sweep!(o, r, a.thorough, u32, LeU32, BeU32, "u32");
    sweep!(o, r, a.thorough, i32, LeI32, BeI32, "i32");
    sweep!(o, r, a.thorough, u64, LeU64, BeU64, "u64");
    sweep!(o, r, a.thorough, i64, LeI64, BeI64, "i64");
    sweep!(o, r, a.thorough, u128, LeU128, BeU128, "u128");
    sweep!(o, r, a.thorough, i128, LeI128, BeI128, "i128");
    o.finish(&a.summary, "structs with #[serde(with = fixint::le|be)] fields of the 8 types; values: 16-bit domain (all in thorough, sampled in quick), every single-non-zero-byte pattern, extremes, random; distinct = distinct (order,type,value), non-trivial = value != 0");
}
