//! C05: bounded-buffer serialisation: exact capacity threshold, never out of bounds.
use crate::crcs::{algs, CrcAlg};
use crate::dynval::{hex, Ty, Val, IK};
use crate::gen;
use crate::hcap;
use crate::mem::GuardBuf;
use crate::out::Out;
use crate::prng::Rng;
use crate::props::guarded;
use crate::refimpl;
use crate::Args;

const CANARY: u8 = 0xEE;

fn show(r: &Result<Result<Vec<u8>, postcard::Error>, ()>) -> String {
    match r {
        Ok(Ok(b)) => format!("ok {}", hex(b)),
        Ok(Err(e)) => format!("err:{:?}", e),
        Err(()) => "panic".into(),
    }
}

/// the threshold oracle for one run on fixed storage
fn judge(o: &mut Out, what: &str, vs: &str, cap: usize, got: &Result<Result<Vec<u8>, postcard::Error>, ()>, full: &[u8], collect_str: bool) {
    let fits = cap >= full.len();
    o.eval(&(what, vs, cap), !full.is_empty());
    match got {
        Err(()) => o.fail(&format!("{}: no panic", what), format!("{} cap {}", vs, cap), "panic".into(), "Ok or Err".into()),
        Ok(Ok(b)) => {
            if !fits {
                o.fail(&format!("{}: too small a buffer is refused", what), format!("{} cap {}", vs, cap), show(got), "err:SerializeBufferFull".into());
            } else if b != full {
                o.fail(&format!("{}: bytes equal the unbounded output", what), format!("{} cap {}", vs, cap), hex(b), hex(full));
            }
        }
        Ok(Err(e)) => {
            if fits {
                o.fail(&format!("{}: a large enough buffer is accepted", what), format!("{} cap {}", vs, cap), show(got), format!("ok {}", hex(full)));
            } else if *e != postcard::Error::SerializeBufferFull && !(collect_str && *e == postcard::Error::CollectStrError) {
                o.fail(&format!("{}: error kind is buffer-full", what), format!("{} cap {}", vs, cap), show(got), "err:SerializeBufferFull".into());
            }
        }
    }
    o.bump(&format!("{}:{}", what, if fits { "fits" } else { "too_small" }));
}

/// run f on a canary-filled buffer of exactly cap bytes flush against a guard page;
/// returns (result, buffer afterwards) and checks the bytes beyond the output
fn on_slice(o: &mut Out, what: &str, vs: &str, cap: usize, at_end: bool, f: impl FnOnce(&mut [u8]) -> Result<usize, postcard::Error>) -> (Result<Result<Vec<u8>, postcard::Error>, ()>, Vec<u8>) {
    o.inflight(&format!("{} of {} into a {}-byte slice {}", what, vs, cap, if at_end { "flush against the guard page" } else { "starting at the guard page" }));
    let mut g = GuardBuf::new(cap, at_end);
    g.as_mut().fill(CANARY);
    g.fill_slack(0xA5);
    let r = guarded(|| f(g.as_mut()));
    let whole = g.as_ref().to_vec();
    if g.slack().iter().any(|b| *b != 0xA5) {
        o.fail(&format!("{}: nothing is written outside the buffer", what), format!("{} cap {}", vs, cap), "memory next to the buffer changed".into(), "untouched".into());
    }
    let res = match r {
        Err(()) => Err(()),
        Ok(Err(e)) => Ok(Err(e)),
        Ok(Ok(n)) => {
            if whole[n..].iter().any(|b| *b != CANARY) {
                o.fail(&format!("{}: the rest of the buffer is untouched", what), format!("{} cap {}", vs, cap), hex(&whole), format!("canary after {} bytes", n));
            }
            Ok(Ok(whole[..n].to_vec()))
        }
    };
    (res, whole)
}

fn model_slice(r: &Result<Result<Vec<u8>, postcard::Error>, ()>, whole: &[u8]) -> String {
    match r {
        Ok(Ok(b)) => format!("ok {} {}", hex(b), hex(whole)),
        Ok(Err(e)) => format!("err:{:?}", e),
        Err(()) => "panic".into(),
    }
}

pub fn check_value(o: &mut Out, r: &mut Rng, v: &Val, crc_algs: &[CrcAlg], model: bool) {
    let vs = v.to_string();
    let collect = matches!(v, Val::CollectStr(_));
    let plain = match postcard::to_allocvec(v) {
        Ok(b) => b,
        Err(_) => return,
    };
    o.eval(&vs, !plain.is_empty());
    o.bump(&format!("len:{}", match plain.len() { 0 => "0", 1..=4 => "1-4", 5..=16 => "5-16", 17..=64 => "17-64", _ => "65+" }));
    // unbounded storages and the size counter
    match guarded(|| postcard::experimental::serialized_size(v)) {
        Ok(Ok(n)) if n == plain.len() => {}
        other => o.fail("serialized_size reports the output length", vs.clone(), format!("{:?}", other), format!("{}", plain.len())),
    }
    match guarded(|| postcard::to_extend(v, Vec::new())) {
        Ok(Ok(b)) if b == plain => {}
        other => o.fail("to_extend produces the plain encoding", vs.clone(), format!("{:?}", other.map(|r| r.map(|b| hex(&b)))), hex(&plain)),
    }
    if model {
        o.case("size", &[&vs], &format!("ok {}", plain.len()));
        o.case("toallocvec", &[&vs], &format!("ok {}", hex(&plain)));
    }
    let cobs: Vec<u8> = {
        let mut c = refimpl::cobs_encode(&plain);
        c.push(0);
        c
    };
    let alg = *r.pick(crc_algs);
    let crc_frame: Vec<u8> = {
        let mut f = plain.clone();
        let c = refimpl::crc_bitwise(&alg.alg, &plain);
        f.extend_from_slice(&c.to_le_bytes()[..alg.alg.nbytes()]);
        f
    };
    for cap in 0..=plain.len() + 2 {
        let at_end = cap % 2 == 0;
        let (got, whole) = on_slice(o, "to_slice", &vs, cap, at_end, |b| postcard::to_slice(v, b).map(|s| s.len()));
        judge(o, "to_slice", &vs, cap, &got, &plain, collect);
        if model {
            o.case("toslice", &[&vs, &cap.to_string()], &model_slice(&got, &whole));
        }
        if let Some(got) = hcap!(cap, B => guarded(|| postcard::to_vec::<Val, B>(v).map(|h| h.to_vec()))) {
            judge(o, "to_vec", &vs, cap, &got, &plain, collect);
            if model {
                o.case("tovec", &[&vs, &cap.to_string()], &show(&got));
            }
        }
    }
    for cap in 0..=cobs.len() + 2 {
        let at_end = cap % 2 == 1;
        let (got, whole) = on_slice(o, "to_slice_cobs", &vs, cap, at_end, |b| postcard::to_slice_cobs(v, b).map(|s| s.len()));
        judge(o, "to_slice_cobs", &vs, cap, &got, &cobs, collect);
        if model {
            o.case("toslice_cobs", &[&vs, &cap.to_string()], &model_slice(&got, &whole));
        }
        if let Some(got) = hcap!(cap, B => guarded(|| postcard::to_vec_cobs::<Val, B>(v).map(|h| h.to_vec()))) {
            judge(o, "to_vec_cobs", &vs, cap, &got, &cobs, collect);
            if model {
                o.case("tovec_cobs", &[&vs, &cap.to_string()], &show(&got));
            }
        }
    }
    for cap in 0..=crc_frame.len() + 2 {
        let at_end = cap % 2 == 0;
        let (got, whole) = on_slice(o, "to_slice_crc", &vs, cap, at_end, |b| alg.to_slice(v, b).map(|s| s.len()));
        judge(o, "to_slice_crc", &vs, cap, &got, &crc_frame, collect);
        if model {
            o.case("toslice_crc", &[&alg.alg.spec(), &vs, &cap.to_string()], &model_slice(&got, &whole));
        }
        if let Some(got) = hcap!(cap, B => guarded(|| alg.to_vec::<B>(v))) {
            judge(o, "to_vec_crc", &vs, cap, &got, &crc_frame, collect);
            if model {
                o.case("tovec_crc", &[&alg.alg.spec(), &vs, &cap.to_string()], &show(&got));
            }
        }
    }
    o.sample(format!("{} => plain {} cobs {} {} {}", vs, hex(&plain), hex(&cobs), alg.alg.name, hex(&crc_frame)));
}

pub fn run(a: &Args) {
    let mut o = Out::new(&a.cases);
    let mut r = Rng::new(a.seed);
    let crc_algs = algs();
    let n = if a.thorough { 4000 } else { 260 };
    let mut done = 0;
    while done < n {
        let t = gen::gen_ty(&mut r, 3);
        let v = gen::gen_val(&mut r, &t, 3);
        let len = postcard::to_allocvec(&v).map(|b| b.len()).unwrap_or(usize::MAX);
        if len > 60 {
            continue;
        }
        check_value(&mut o, &mut r, &v, &crc_algs, true);
        done += 1;
    }
    // values around the 254-byte COBS block boundary (zero-free, with a zero at either end and
    // with interior zeros), every capacity from a few bytes below the plain length to a few
    // above the framed length, on the slice and on the heapless vector
    for len in [252usize, 253, 254, 255, 256, 507, 508, 509] {
        for variant in 0..5 {
            let mut bytes: Vec<u8> = (0..len).map(|i| (i % 255 + 1) as u8).collect();
            match variant {
                0 => {}
                1 => bytes[0] = 0,
                2 => bytes[len - 1] = 0,
                3 => bytes[len / 2] = 0,
                _ => {
                    for b in bytes.iter_mut() {
                        if r.chance(1, 40) {
                            *b = 0;
                        }
                    }
                }
            }
            let v = Val::Tuple(bytes.iter().map(|b| Val::unsigned(IK::U8, *b as u128)).collect());
            let plain = postcard::to_allocvec(&v).unwrap();
            let mut cobs = refimpl::cobs_encode(&plain);
            cobs.push(0);
            let vs = v.to_string();
            for cap in plain.len() - 3..=cobs.len() + 2 {
                let (got, whole) = on_slice(&mut o, "to_slice_cobs", &vs, cap, cap % 2 == 0, |b| postcard::to_slice_cobs(&v, b).map(|s| s.len()));
                judge(&mut o, "to_slice_cobs", &vs, cap, &got, &cobs, false);
                if variant == 0 || variant == 3 {
                    o.case("toslice_cobs", &[&vs, &cap.to_string()], &model_slice(&got, &whole));
                }
                let (got, _) = on_slice(&mut o, "to_slice", &vs, cap, cap % 2 == 1, |b| postcard::to_slice(&v, b).map(|s| s.len()));
                judge(&mut o, "to_slice", &vs, cap, &got, &plain, false);
                if let Some(got) = hcap!(cap, B => guarded(|| postcard::to_vec_cobs::<Val, B>(&v).map(|h| h.to_vec()))) {
                    judge(&mut o, "to_vec_cobs", &vs, cap, &got, &cobs, false);
                }
                if let Some(got) = hcap!(cap, B => guarded(|| postcard::to_vec::<Val, B>(&v).map(|h| h.to_vec()))) {
                    judge(&mut o, "to_vec", &vs, cap, &got, &plain, false);
                }
            }
            o.bump("block_boundary_values");
        }
    }
    // the same around block writes (str / bytes payloads handed to try_extend)
    for (i, (_t, v)) in gen::block_write_boundary_vals(&mut r, a.thorough).into_iter().enumerate() {
        let plain = postcard::to_allocvec(&v).unwrap();
        let mut cobs = refimpl::cobs_encode(&plain);
        cobs.push(0);
        let vs = v.to_string();
        for cap in plain.len() - 3..=cobs.len() + 2 {
            let (got, whole) = on_slice(&mut o, "to_slice_cobs", &vs, cap, cap % 2 == 0, |b| postcard::to_slice_cobs(&v, b).map(|s| s.len()));
            judge(&mut o, "to_slice_cobs", &vs, cap, &got, &cobs, false);
            if i % 7 == 0 && (cap == cobs.len() || cap + 1 == cobs.len()) {
                o.case("toslice_cobs", &[&vs, &cap.to_string()], &model_slice(&got, &whole));
            }
            let (got, _) = on_slice(&mut o, "to_slice", &vs, cap, cap % 2 == 1, |b| postcard::to_slice(&v, b).map(|s| s.len()));
            judge(&mut o, "to_slice", &vs, cap, &got, &plain, false);
            if let Some(got) = hcap!(cap, B => guarded(|| postcard::to_vec_cobs::<Val, B>(&v).map(|h| h.to_vec()))) {
                judge(&mut o, "to_vec_cobs", &vs, cap, &got, &cobs, false);
            }
            if let Some(got) = hcap!(cap, B => guarded(|| postcard::to_vec::<Val, B>(&v).map(|h| h.to_vec()))) {
                judge(&mut o, "to_vec", &vs, cap, &got, &plain, false);
            }
        }
        o.bump("block_write_boundary_values");
    }
    // collect_str: running out of room in the text pass is a CollectStrError
    for _ in 0..(if a.thorough { 300 } else { 40 }) {
        let pieces: Vec<Vec<u8>> = (0..r.range(1, 3)).map(|_| gen::gen_string(&mut r, 10)).collect();
        let v = Val::CollectStr(pieces);
        check_value(&mut o, &mut r, &v, &crc_algs, true);
    }
    let _ = Ty::Unit;
    o.finish(&a.summary, "generated values whose plain encoding is at most 60 bytes (plus byte tuples and str/bytes block writes around the 254-byte COBS boundaries and collect_str values) x every capacity 0..=len+2 x {caller slice flush against a PROT_NONE page (alternating sides), heapless Vec<B> for every instantiated B} x {plain, COBS, CRC of a catalogue algorithm}; growable/Extend/size counter once per value; distinct = distinct value, non-trivial = non-empty encoding");
}
