//! C18: the dynamic codec is total on untrusted bytes, JSON and schemas.
use crate::dynval::hex;
use crate::jsonv::{gen_any, gen_json, mutate, nullable, show};
use crate::mem::allocated_during;
use crate::out::Out;
use crate::prng::Rng;
use crate::props::guarded;
use crate::stree::{self, SD, ST};
use crate::Args;
use serde_json::Value;

const F7: &str = "option-with-nullable-payload";
const F8: &str = "duplicate-field-names";
const F9: &str = "zero-width-seq-elements";

fn walk(s: &ST, f: &mut dyn FnMut(&ST)) {
    walk_k(s, true, f)
}
/// the nodes the dynamic codec ever walks: a map's key schema is only ever compared with String
fn walk_vals(s: &ST, f: &mut dyn FnMut(&ST)) {
    walk_k(s, false, f)
}
fn walk_k(s: &ST, keys: bool, f: &mut dyn FnMut(&ST)) {
    f(s);
    let mut data = |d: &SD, f: &mut dyn FnMut(&ST)| match d {
        SD::Unit => {}
        SD::Newtype(t) => walk_k(t, keys, f),
        SD::Tuple(ts) => ts.iter().for_each(|t| walk_k(t, keys, f)),
        SD::Struct(fs) => fs.iter().for_each(|(_, t)| walk_k(t, keys, f)),
    };
    match s {
        ST::P(_) => {}
        ST::Opt(t) | ST::Seq(t) => walk_k(t, keys, f),
        ST::Tup(ts) => ts.iter().for_each(|t| walk_k(t, keys, f)),
        ST::Map(k, v) => {
            if keys {
                walk_k(k, keys, f);
            }
            walk_k(v, keys, f)
        }
        ST::Struct(_, d) => data(d, f),
        ST::Enum(_, vs) => vs.iter().for_each(|(_, d)| data(d, f)),
    }
}
/// decoding a value of this schema consumes no input
fn zero_width(s: &ST) -> bool {
    let data = |d: &SD| match d {
        SD::Unit => true,
        SD::Newtype(t) => zero_width(t),
        SD::Tuple(ts) => ts.iter().all(zero_width),
        SD::Struct(fs) => fs.iter().all(|(_, t)| zero_width(t)),
    };
    match s {
        ST::P(i) => stree::PRIMS[*i] == "Unit",
        ST::Tup(ts) => ts.iter().all(zero_width),
        ST::Struct(_, d) => data(d),
        _ => false,
    }
}
fn has_zero_width_seq(s: &ST) -> bool {
    let mut found = false;
    walk(s, &mut |n| {
        if let ST::Seq(t) = n {
            if zero_width(t) {
                found = true;
            }
        }
    });
    found
}
fn has_option_nullable(s: &ST) -> bool {
    let mut found = false;
    walk_vals(s, &mut |n| {
        if let ST::Opt(t) = n {
            if nullable(t) {
                found = true;
            }
        }
    });
    found
}
fn has_dup_fields(s: &ST) -> bool {
    fn dup(d: &SD) -> bool {
        if let SD::Struct(fs) = d {
            let mut names: Vec<&String> = fs.iter().map(|(n, _)| n).collect();
            names.sort();
            names.windows(2).any(|w| w[0] == w[1])
        } else {
            false
        }
    }
    let mut found = false;
    walk_vals(s, &mut |n| match n {
        ST::Struct(_, d) => found |= dup(d),
        ST::Enum(_, vs) => found |= vs.iter().any(|(_, d)| dup(d)),
        _ => {}
    });
    found
}
fn names_total(s: &ST) -> usize {
    let mut n = 0;
    let mut data = |d: &SD, n: &mut usize| {
        if let SD::Struct(fs) = d {
            *n += fs.iter().map(|(x, _)| x.len() + 1).sum::<usize>();
        }
    };
    walk(s, &mut |x| match x {
        ST::Struct(_, d) => data(d, &mut n),
        ST::Enum(_, vs) => vs.iter().for_each(|(vn, d)| {
            n += vn.len() + 1;
            data(d, &mut n)
        }),
        _ => {}
    });
    n
}

fn show_de<E: std::fmt::Debug>(r: &Result<Result<Value, E>, ()>) -> String {
    match r {
        Ok(Ok(j)) => format!("ok {}", show(j)),
        Ok(Err(e)) => format!("err:{:?}", e),
        Err(()) => "panic".into(),
    }
}
fn show_ser<E: std::fmt::Debug>(r: &Result<Result<Vec<u8>, E>, ()>) -> String {
    match r {
        Ok(Ok(b)) => format!("ok {}", hex(b)),
        Ok(Err(e)) => format!("err:{:?}", e),
        Err(()) => "panic".into(),
    }
}

fn decode(o: &mut Out, st: &ST, owned: &postcard_schema::schema::owned::OwnedDataModelType, ss: &str, class: &str, input: &[u8]) {
    o.eval(&("de", ss, input), !input.is_empty());
    o.inflight(&format!("from_slice_dyn schema {} bytes {}", ss, hex(input)));
    let (got, allocated, peak) = allocated_during(|| guarded(|| postcard_dyn::from_slice_dyn(owned, input)));
    let obs = show_de(&got);
    o.bump(&format!("de:{}:{}", class, if obs.starts_with("ok") { "ok" } else { &obs }));
    if got.is_err() {
        o.fail("dynamic decoding never panics", format!("schema {} bytes {}", ss, hex(input)), "panic".into(), "a value or an error".into());
    }
    let bound = 512 * input.len() + 256 * st.nodes() + 16 * names_total(st) + 4096;
    let mut comparable = true;
    if allocated > bound {
        let inp = format!("schema {} bytes {}", ss, hex(input));
        let obs = format!("{} bytes allocated (largest request {})", allocated, peak);
        if has_zero_width_seq(st) {
            // the model answers `unbounded` for this class instead of materialising the list
            comparable = false;
            o.fail_known(F9, "dynamic decoding allocates memory bounded by a constant multiple of the input length", inp, obs, format!("<= {}", bound));
        } else {
            o.fail("dynamic decoding allocates memory bounded by a constant multiple of the input length", inp, obs, format!("<= {}", bound));
        }
    }
    if ss.len() < 20000 && comparable {
        o.case("dynde", &[ss, &hex(input)], &obs);
        // the schema's F9 classification and the size of what was built, as the model counts it
        // (C18_allocation_bounded is about exactly these two)
        let size = match &got {
            Ok(Ok(v)) => json_size(v).to_string(),
            _ => "-".to_string(),
        };
        o.case("dynbound", &[ss, &hex(input)], &format!("nz={} size={}", !has_zero_width_seq(st) as u8, size));
    }
}

/// nodes + string bytes + key bytes (the model's jsize)
fn json_size(v: &Value) -> usize {
    match v {
        Value::String(s) => 1 + s.len(),
        Value::Array(a) => 1 + a.iter().map(json_size).sum::<usize>(),
        Value::Object(o) => 1 + o.iter().map(|(k, v)| 1 + k.len() + json_size(v)).sum::<usize>(),
        _ => 1,
    }
}

fn encode(o: &mut Out, st: &ST, owned: &postcard_schema::schema::owned::OwnedDataModelType, ss: &str, class: &str, j: &Value) -> Option<Vec<u8>> {
    let js = show(j);
    o.eval(&("ser", ss, &js), true);
    o.inflight(&format!("to_stdvec_dyn schema {} json {}", ss, js));
    let got = guarded(|| postcard_dyn::to_stdvec_dyn(owned, j));
    let obs = show_ser(&got);
    o.bump(&format!("ser:{}:{}", class, if obs.starts_with("ok") { "ok" } else { &obs }));
    if ss.len() + js.len() < 20000 {
        o.case("dynser", &[ss, &js], &obs);
        // the scope of the re-encode theorem: every serde_json value is well formed in its sense,
        // and a schema is outside it exactly when it is in one of the two known classes
        let scope = !(has_dup_fields(st) || has_option_nullable(st));
        o.case("reencscope", &[ss, &js], &format!("scope={} wf=1", scope as u8));
    }
    let inp = format!("schema {} json {}", ss, js);
    match got {
        Err(()) => {
            o.fail("dynamic encoding never panics", inp, "panic".into(), "bytes or an error".into());
            None
        }
        Ok(Err(_)) => None,
        Ok(Ok(bytes)) => {
            // whatever encoding accepts, decoding succeeds and re-encodes to the same bytes
            let known = if has_dup_fields(st) { Some(F8) } else if has_option_nullable(st) { Some(F7) } else { None };
            let mut report = |o: &mut Out, oracle: &str, observed: String| match known {
                Some(k) => o.fail_known(k, oracle, format!("{} bytes {}", inp, hex(&bytes)), observed, "re-encodes to the same bytes".into()),
                None => o.fail(oracle, format!("{} bytes {}", inp, hex(&bytes)), observed, "re-encodes to the same bytes".into()),
            };
            match guarded(|| postcard_dyn::from_slice_dyn(owned, &bytes)) {
                Ok(Ok(back)) => match guarded(|| postcard_dyn::to_stdvec_dyn(owned, &back)) {
                    Ok(Ok(again)) if again == bytes => o.bump("reencode:same"),
                    other => report(o, "what dynamic encoding produced decodes and re-encodes to the same bytes", format!("decoded {} re-encoded {}", show(&back), show_ser(&other))),
                },
                other => report(o, "what dynamic encoding produced decodes under the same schema", show_de(&other)),
            }
            Some(bytes)
        }
    }
}

fn check_schema(o: &mut Out, r: &mut Rng, class: &str, st: &ST, thorough: bool) {
    let owned = st.owned();
    let ss = st.to_string();
    o.bump(&format!("schema:{}", class));
    let zw = has_zero_width_seq(st);
    let reps = if thorough { 6 } else { 2 };
    let mut encodings: Vec<Vec<u8>> = Vec::new();
    for _ in 0..reps {
        let j = gen_json(r, st, 3);
        if let Some(b) = encode(o, st, &owned, &ss, "type_correct", &j) {
            encodings.push(b);
        }
        let m = mutate(r, &j);
        encode(o, st, &owned, &ss, "near_miss", &m);
    }
    encode(o, st, &owned, &ss, "unrelated", &gen_any(r, 2));
    // bytes: what the encoder produced, its truncations and mutations, random and adversarial
    for b in &encodings {
        decode(o, st, &owned, &ss, "valid", b);
        if !b.is_empty() {
            let k = r.below(b.len() as u64) as usize;
            decode(o, st, &owned, &ss, "truncated", &b[..k]);
            if !zw {
                let mut m = b.clone();
                let i = r.below(m.len() as u64) as usize;
                m[i] = match r.below(3) { 0 => m[i] ^ (1 << r.below(8)), 1 => 0xff, _ => r.below(256) as u8 };
                decode(o, st, &owned, &ss, "mutated", &m);
            }
        }
    }
    if !zw {
        decode(o, st, &owned, &ss, "random", &r.bytes_upto(24));
        // adversarial length prefixes: the largest counts a varint can carry
        for pre in [&[0xff, 0xff, 0xff, 0xff, 0xff, 0xff, 0xff, 0xff, 0xff, 0x01][..], &[0xff, 0xff, 0xff, 0xff, 0x0f][..], &[0x80, 0x80, 0x80, 0x80, 0x80, 0x80, 0x80, 0x80, 0x80, 0x80, 0x01][..]] {
            let mut b = pre.to_vec();
            b.extend_from_slice(&r.bytes_upto(6));
            decode(o, st, &owned, &ss, "adversarial_length", &b);
            if let Some(e) = encodings.first() {
                let mut b = e[..e.len().min(r.below(4) as usize)].to_vec();
                b.extend_from_slice(pre);
                decode(o, st, &owned, &ss, "adversarial_length", &b);
            }
        }
    }
}

pub fn run(a: &Args) {
    let mut o = Out::new(&a.cases);
    let mut r = Rng::new(a.seed);
    for i in 0..stree::PRIMS.len() {
        let p = ST::P(i);
        for t in [
            p.clone(),
            ST::Opt(Box::new(p.clone())),
            ST::Opt(Box::new(ST::Opt(Box::new(p.clone())))),
            ST::Seq(Box::new(p.clone())),
            ST::Tup(vec![]),
            ST::Tup(vec![p.clone()]),
            ST::Tup(vec![p.clone(), ST::P((i + 3) % 20)]),
            ST::Map(Box::new(ST::P(16)), Box::new(p.clone())),
            ST::Map(Box::new(p.clone()), Box::new(ST::P(2))),
            ST::Struct("S".into(), SD::Newtype(Box::new(p.clone()))),
            ST::Struct("S".into(), SD::Tuple(vec![p.clone()])),
            ST::Struct("S".into(), SD::Struct(vec![("f".into(), p.clone()), ("g".into(), ST::P(2))])),
            ST::Enum("E".into(), vec![("A".into(), SD::Unit), ("B".into(), SD::Tuple(vec![])), ("C".into(), SD::Tuple(vec![p.clone(), p.clone()])), ("D".into(), SD::Struct(vec![("g".into(), p.clone())])), ("F".into(), SD::Newtype(Box::new(p.clone())))]),
        ] {
            check_schema(&mut o, &mut r, "every_kind", &t, a.thorough);
        }
    }
    o.exhaustive.push("all 20 leaf kinds (incl. Char, Usize, Isize, 128-bit integers, Schema) alone and inside option, nested option, seq, tuples of arity 0/1/2, string- and non-string-keyed maps, each struct form and each variant form".into());
    // the known classes, each with its witness
    {
        let st = ST::Opt(Box::new(ST::P(18)));
        let owned = st.owned();
        encode(&mut o, &st, &owned, &st.to_string(), "witness", &serde_json::json!(5));
        let st = ST::Struct("S".into(), SD::Struct(vec![("a".into(), ST::P(2)), ("a".into(), ST::P(2))]));
        let owned = st.owned();
        encode(&mut o, &st, &owned, &st.to_string(), "witness", &serde_json::json!({"a": 1, "b": 2}));
        let st = ST::Seq(Box::new(ST::P(18)));
        let owned = st.owned();
        decode(&mut o, &st, &owned, &st.to_string(), "witness", &[0xc0, 0x9a, 0x0c]); // 200 000 units from 3 bytes
    }
    for (_, b) in stree::corpus() {
        let t = ST::from_owned(&postcard_schema::schema::owned::OwnedDataModelType::from(b));
        check_schema(&mut o, &mut r, "corpus", &t, a.thorough);
    }
    let n = if a.thorough { 20000 } else { 900 };
    let mut kinds = std::collections::BTreeMap::new();
    for i in 0..n {
        let t = stree::gen_tree(&mut r, 1 + (i % 4) as u32);
        t.kinds(&mut kinds);
        check_schema(&mut o, &mut r, "generated", &t, a.thorough);
        if i < 5 {
            o.sample(t.to_string());
        }
    }
    for (k, v) in kinds {
        o.bump_by(&k, v);
    }
    o.finish(&a.summary, "schema trees (every node kind alone and inside every constructor, corpus schemas, random trees with random names) x JSON values (generated to fit the schema, one-step mutations of those, unrelated values) through to_stdvec_dyn, and x byte strings (the encoder's output, truncations, single-byte mutations, random bytes, adversarial length prefixes) through from_slice_dyn with catch_unwind and a counting allocator; every accepted JSON is decoded and re-encoded; distinct = distinct (direction, schema, input)");
}
