//! C12: POSTCARD_MAX_SIZE is an upper bound on the encoded size of every value.
use crate::capture::capture;
use crate::corp::*;
use crate::dynval::Val;
use crate::out::Out;
use crate::prng::Rng;
use crate::props::guarded;
use crate::Args;
use core::marker::PhantomData;
use core::num::*;
use core::ops::{Range, RangeFrom, RangeInclusive, RangeTo};
use postcard::experimental::max_size::MaxSize;

/// the four struct forms encode identically; the model writes them all as `Struct`
fn flat(v: Val) -> Val {
    match v {
        Val::UnitStruct => Val::Struct(vec![]),
        Val::Newtype(x) => Val::Struct(vec![flat(*x)]),
        Val::TupleStruct(xs) | Val::Struct(xs) => Val::Struct(xs.into_iter().map(flat).collect()),
        Val::Some(x) => Val::Some(Box::new(flat(*x))),
        Val::Seq(xs) => Val::Seq(xs.into_iter().map(flat).collect()),
        Val::Tuple(xs) => Val::Tuple(xs.into_iter().map(flat).collect()),
        Val::Map(kvs) => Val::Map(kvs.into_iter().map(|(k, v)| (flat(k), flat(v))).collect()),
        Val::Variant(i, p) => Val::Variant(i, Box::new(flat(*p))),
        other => other,
    }
}

fn const_only<T: MaxSize>(o: &mut Out, mty: &str) {
    o.eval(&("const", mty), true);
    o.case("maxsize", &[mty], &format!("{}", T::POSTCARD_MAX_SIZE));
    o.bump("const_only");
}

fn check<T: Corp + 'static>(o: &mut Out, r: &mut Rng) {
    let mty = T::mty();
    let max = T::POSTCARD_MAX_SIZE;
    o.eval(&("type", &mty), true);
    o.case("maxsize", &[&mty], &format!("{}", max));
    o.bump("types");
    let mut best = 0usize;
    let cands = T::cands(r);
    for (i, v) in cands.iter().enumerate() {
        let size = match guarded(|| postcard::experimental::serialized_size(v)) {
            Ok(Ok(n)) => n,
            other => {
                o.fail("values of a MaxSize type serialise", format!("{} candidate {}", mty, i), format!("{:?}", other), "a size".into());
                continue;
            }
        };
        let bytes = postcard::to_allocvec(v).map(|b| b.len());
        o.eval(&("val", &mty, i), size > 0);
        if bytes != Ok(size) {
            o.fail("serialized_size is the length of the encoding", format!("{} candidate {}", mty, i), format!("{:?}", bytes), size.to_string());
        }
        let val = capture(v).map(|nv| flat(nv.to_val()));
        let vs = val.as_ref().map(|v| v.to_string()).unwrap_or_else(|e| format!("<{}>", e));
        if size > max {
            o.fail("the encoding is never longer than POSTCARD_MAX_SIZE", format!("{} value {}", mty, vs), format!("{} bytes", size), format!("<= {}", max));
        }
        // a buffer of exactly that size always suffices
        let mut buf = vec![0u8; max];
        if postcard::to_slice(v, &mut buf).is_err() {
            o.fail("a buffer of POSTCARD_MAX_SIZE bytes suffices", format!("{} value {}", mty, vs), "error".into(), "Ok".into());
        }
        best = best.max(size);
        if val.is_ok() && vs.len() < 40000 {
            o.case("msval", &[&mty, &vs], &format!("1 {}", size));
        }
        o.bump("values");
    }
    if T::tight() {
        o.bump("tight_types");
        if best != max {
            o.fail("the maximum is attained (tight) for this kind of type", mty.clone(), format!("largest candidate {} bytes", best), format!("{} bytes", max));
        }
    }
    o.sample(format!("{} : max {} (largest candidate {})", mty, max, best));
}

macro_rules! all {
    ($o:expr, $r:expr; $($t:ty),* $(,)?) => {$( check::<$t>($o, $r); )*};
}

pub fn run(a: &Args) {
    let mut o = Out::new(&a.cases);
    let mut r = Rng::new(a.seed);
    let rounds = if a.thorough { 40 } else { 3 };
    for _ in 0..rounds {
        all!(&mut o, &mut r;
            bool, u8, u16, u32, u64, u128, usize, i8, i16, i32, i64, i128, isize, f32, f64, char, (),
            NonZeroU8, NonZeroU16, NonZeroU32, NonZeroU64, NonZeroU128, NonZeroUsize,
            NonZeroI8, NonZeroI16, NonZeroI32, NonZeroI64, NonZeroI128, NonZeroIsize,
            PhantomData<u64>, Option<u8>, Option<i64>, Option<Option<char>>, Option<()>,
            Result<u8, u64>, Result<(), char>, Result<[u16; 3], Option<i128>>,
            [u8; 0], [u64; 1], [i16; 2], [char; 3], [Option<u32>; 7], [u8; 32], [[u16; 2]; 3],
            Box<u32>, Box<[i64; 2]>, &'static u16, &'static (u8, char),
            (u8,), (u8, u16), (i8, i16, i32), (u64, bool, char, f32), (u8, u16, u32, u64, u128), (i8, i16, i32, i64, i128, bool),
            ((u8, u16), (char,), Option<(u32, u32)>),
            Range<u32>, RangeInclusive<i16>, RangeFrom<u64>, RangeTo<char>, Range<Option<u8>>,
            heapless::Vec<u8, 0>, heapless::Vec<u8, 1>, heapless::Vec<u8, 127>, heapless::Vec<u8, 128>, heapless::Vec<u8, 16383>, heapless::Vec<u8, 16384>,
            heapless::Vec<u32, 5>, heapless::Vec<(u16, bool), 3>, heapless::Vec<Option<i64>, 130>, heapless::Vec<heapless::Vec<u8, 2>, 2>,
            heapless::String<0>, heapless::String<1>, heapless::String<127>, heapless::String<128>, heapless::String<16383>, heapless::String<16384>,
            UnitS, NewS, TupS, NamedS, EmptyS, Gen1<u8>, Gen1<Option<char>>, Gen1<NamedS>, Nested,
            E1, E2, Mixed<u8>, Mixed<i64>, Mixed<NamedS>, Mixed<Mixed<u16>>, Level, Packet, E127, E128, E129,
            Option<E2>, [Mixed<u8>; 2], (E1, E128), heapless::Vec<E129, 4>,
        );
    }
    // no values (uninhabited, or Serialize needs a serde feature the crate does not enable): constant only
    const_only::<E0>(&mut o, "(enum)");
    const_only::<std::rc::Rc<u64>>(&mut o, "(rc (int u64))");
    const_only::<std::sync::Arc<(u8, i32)>>(&mut o, "(arc (tup (int u8) (int i32)))");
    const_only::<&mut u128>(&mut o, "(refmut (int u128))");
    const_only::<Box<std::rc::Rc<std::sync::Arc<&u8>>>>(&mut o, "(box (rc (arc (ref (int u8)))))");
    o.finish(&a.summary, "every built-in MaxSize impl (integers, NonZero*, floats, bool, char, unit, PhantomData, Option, Result, arrays, references, Box/Rc/Arc, tuples 1-6, the four ranges, heapless Vec/String at capacities 0, 1, 127, 128, 16383, 16384) and types using the WORKSPACE derive (unit / newtype / tuple / named / empty / generic / nested structs; enums with 0, 1, 2, 4, 127, 128, 129 variants) x candidate values maximising each field (extremes of every width, 4-byte chars, full containers, every kind of variant) plus random ones; distinct = distinct (type, candidate index)");
}
