//! C10: CRC framing appends the right checksum and never accepts a wrong one.
use crate::crcs::{algs, CrcAlg};
use crate::dynval::{hex, Ty, Val};
use crate::gen;
use crate::hcap;
use crate::out::Out;
use crate::prng::Rng;
use crate::props::{guarded, with_ty, Dyn};
use crate::refimpl;
use crate::spec;
use crate::Args;

fn le(c: u128, n: usize) -> Vec<u8> {
    c.to_le_bytes()[..n].to_vec()
}

/// decode and classify; the acceptance oracle of the property
fn decode_check(o: &mut Out, alg: &CrcAlg, t: &Ty, ts: &str, input: &[u8], class: &str, must_reject: bool, model: bool) {
    let nb = alg.alg.nbytes();
    let got = guarded(|| alg.take_from_bytes(t, input));
    let obs = match &got {
        Ok(Ok((v, rest))) => format!("ok {} {}", v, hex(rest)),
        Ok(Err(e)) => format!("err:{:?}", e),
        Err(()) => "panic".into(),
    };
    o.eval(&(alg.alg.name, ts, input), !input.is_empty());
    o.bump(&format!("{}:{}", class, if obs.starts_with("ok") { "accepted".to_string() } else { obs.clone() }));
    match &got {
        Err(()) => o.fail("CRC-checked decoding never panics", format!("{} {} bytes {}", alg.alg.name, ts, hex(input)), obs.clone(), "Ok or Err".into()),
        Ok(Ok((v, rest))) => {
            // whatever was accepted: the consumed bytes are followed by their correct checksum
            let k = input.len() - rest.len() - nb.min(input.len() - rest.len());
            let consumed = &input[..k];
            let want = le(refimpl::crc_bitwise(&alg.alg, consumed), nb);
            if input.len() < rest.len() + nb || input[k..k + nb] != want[..] {
                o.fail("accepted input: the bytes consumed for the value are followed by their correct checksum", format!("{} {} bytes {}", alg.alg.name, ts, hex(input)), hex(&input[k..]), hex(&want));
            }
            // and the value is what plain decoding of those bytes gives, consuming all of them
            let plain = with_ty(t, || postcard::take_from_bytes::<Dyn>(consumed).map(|(d, r)| (d.0, r.len())));
            match plain {
                Ok((pv, 0)) if pv == *v => {}
                other => o.fail("accepted input: value equals plain decoding of the covered bytes", format!("{} {} bytes {}", alg.alg.name, ts, hex(input)), format!("{:?}", other.map(|(v, n)| (v.to_string(), n))), v.to_string()),
            }
            if must_reject {
                o.fail("a corruption confined to the checksum, or a single-bit / burst <= width corruption of the payload, is rejected", format!("{} {} bytes {} ({})", alg.alg.name, ts, hex(input), class), obs.clone(), "an error".into());
            }
        }
        Ok(Err(_)) => {}
    }
    // from_bytes variant agrees on acceptance
    let fb = guarded(|| alg.from_bytes(t, input));
    let agree = match (&got, &fb) {
        (Ok(Ok((v, _))), Ok(Ok(v2))) => v == v2,
        (Ok(Err(e)), Ok(Err(e2))) => e == e2,
        (Err(()), Err(())) => true,
        _ => false,
    };
    if !agree {
        o.fail("from_bytes_crc agrees with take_from_bytes_crc", format!("{} {} bytes {}", alg.alg.name, ts, hex(input)), format!("{:?}", fb.map(|r| r.map(|v| v.to_string()))), obs.clone());
    }
    if model {
        o.case("decrc", &[&alg.alg.spec(), ts, &hex(input)], &obs);
    }
}

/// flip the bits of `pattern` (bit 0 first) starting at stream bit `start`, in the
/// algorithm's own bit order (LSB-first within a byte when refin)
fn apply_burst(frame: &[u8], refin: bool, start: usize, pattern: u128, len: usize) -> Vec<u8> {
    let mut m = frame.to_vec();
    for j in 0..len {
        if pattern >> j & 1 == 1 {
            let i = start + j;
            let byte = i / 8;
            let bit = if refin { i % 8 } else { 7 - i % 8 };
            m[byte] ^= 1 << bit;
        }
    }
    m
}

fn check_value(o: &mut Out, r: &mut Rng, alg: &CrcAlg, t: &Ty, v: &Val, thorough: bool) {
    let ts = t.to_string();
    let vs = v.to_string();
    let nb = alg.alg.nbytes();
    let plain = match postcard::to_allocvec(v) {
        Ok(b) => b,
        Err(_) => return,
    };
    let c = refimpl::crc_bitwise(&alg.alg, &plain);
    let mut want = plain.clone();
    want.extend_from_slice(&le(c, nb));
    // the crc crate's table implementation against the bitwise model
    if alg.checksum(&plain) != c {
        o.fail("crate crc == bitwise Rocksoft model (modelled dependency)", format!("{} {}", alg.alg.name, hex(&plain)), format!("{:x}", alg.checksum(&plain)), format!("{:x}", c));
    }
    o.case("crc", &[&alg.alg.spec(), &hex(&plain)], &format!("{:x}", c));
    let mut outs: Vec<(&str, Result<Result<Vec<u8>, postcard::Error>, ()>)> = vec![
        ("to_allocvec_crc", guarded(|| alg.to_allocvec(v))),
        ("to_slice_crc", guarded(|| {
            let mut buf = vec![0u8; want.len() + 2];
            alg.to_slice(v, &mut buf).map(|s| s.to_vec())
        })),
    ];
    if let Some(x) = hcap!(want.len(), B => guarded(|| alg.to_vec::<B>(v))) {
        outs.push(("to_vec_crc", x));
    }
    o.eval(&(alg.alg.name, &vs), true);
    for (name, got) in outs {
        match got {
            Ok(Ok(b)) if b == want => {}
            other => o.fail(&format!("{} == plain ++ le(crc(plain))", name), format!("{} {}", alg.alg.name, vs), format!("{:?}", other.map(|r| r.map(|b| hex(&b)))), hex(&want)),
        }
    }
    o.case("toallocvec_crc", &[&alg.alg.spec(), &vs], &format!("ok {}", hex(&want)));
    o.bump(&format!("alg:{}", alg.alg.name));
    // round trip with a suffix
    let mut input = want.clone();
    let suffix = r.bytes_upto(5);
    input.extend_from_slice(&suffix);
    match guarded(|| alg.take_from_bytes(t, &input)) {
        Ok(Ok((back, rest))) if back == *v && rest == suffix => {}
        other => o.fail("CRC-checked decoding returns the value and the bytes after the checksum", format!("{} {} bytes {}", alg.alg.name, ts, hex(&input)), format!("{:?}", other.map(|r| r.map(|(v, rest)| format!("{} {}", v, hex(&rest))))), format!("{} {}", vs, hex(&suffix))),
    }
    decode_check(o, alg, t, &ts, &input, "valid", false, true);
    if spec::has_zero_width_collection(t) {
        return;
    }
    if want.len() > 40 {
        // long frames (block reads of more than one digest block): sampled single-bit flips over
        // the whole payload and in its last bytes, every checksum bit
        let payload_bits = plain.len() * 8;
        let mut flips: Vec<usize> = (0..16).map(|_| r.below(payload_bits as u64) as usize).collect();
        flips.extend((0..8).map(|_| payload_bits - 1 - r.below(64.min(payload_bits as u64)) as usize));
        flips.push(payload_bits - 1);
        for i in flips {
            let m = apply_burst(&want, alg.alg.refin, i, 1, 1);
            let keeps_len = matches!(with_ty(t, || postcard::take_from_bytes::<Dyn>(&m[..plain.len()]).map(|(_, r)| r.len())), Ok(0));
            decode_check(o, alg, t, &ts, &m, "long:bitflip_payload", keeps_len, false);
        }
        for i in payload_bits..want.len() * 8 {
            let m = apply_burst(&want, alg.alg.refin, i, 1, 1);
            decode_check(o, alg, t, &ts, &m, "long:bitflip_checksum", true, false);
        }
        return;
    }
    let total_bits = want.len() * 8;
    let payload_bits = plain.len() * 8;
    // does a payload corruption keep the decoded length?  ask the plain decoder
    let same_len = |m: &[u8]| -> bool {
        matches!(with_ty(t, || postcard::take_from_bytes::<Dyn>(&m[..plain.len()]).map(|(_, r)| r.len())), Ok(0))
    };
    // every single bit flip of the frame
    for i in 0..total_bits {
        let m = apply_burst(&want, alg.alg.refin, i, 1, 1);
        let in_checksum = i >= payload_bits;
        let must = in_checksum || same_len(&m);
        decode_check(o, alg, t, &ts, &m, if in_checksum { "bitflip_checksum" } else { "bitflip_payload" }, must, i % 5 == 0);
    }
    // bursts no longer than the width, at every bit offset
    let w = alg.alg.width as usize;
    let per_offset = if thorough { 24 } else { 4 };
    for start in 0..total_bits {
        for _ in 0..per_offset {
            let len = r.range(2, w as u64) as usize;
            if start + len > total_bits {
                continue;
            }
            // first and last bit set
            let mid = if len > 2 { r.u128() & ((1u128 << (len - 2)) - 1) } else { 0 };
            let pattern = 1 | (mid << 1) | (1u128 << (len - 1));
            let m = apply_burst(&want, alg.alg.refin, start, pattern, len);
            let touches_payload = start < payload_bits;
            let confined_payload = start + len <= payload_bits;
            let confined_checksum = start >= payload_bits;
            let must = confined_checksum || (confined_payload && same_len(&m));
            let class = if confined_checksum { "burst_checksum" } else if confined_payload { "burst_payload" } else { "burst_straddling" };
            let _ = touches_payload;
            decode_check(o, alg, t, &ts, &m, class, must, false);
        }
    }
    if w <= 8 && plain.len() <= 6 {
        // exhaustive burst patterns for 8-bit algorithms
        for start in 0..total_bits {
            for len in 1..=w {
                if start + len > total_bits {
                    continue;
                }
                let inner = if len >= 2 { 1u128 << (len - 2) } else { 1 };
                for mid in 0..inner {
                    let pattern = if len == 1 { 1 } else { 1 | (mid << 1) | (1u128 << (len - 1)) };
                    let m = apply_burst(&want, alg.alg.refin, start, pattern, len);
                    let confined_payload = start + len <= payload_bits;
                    let confined_checksum = start >= payload_bits;
                    let must = confined_checksum || (confined_payload && same_len(&m));
                    decode_check(o, alg, t, &ts, &m, "burst8_exhaustive", must, false);
                }
            }
        }
    }
    // random multi-byte damage and truncation
    for _ in 0..8 {
        let mut m = input.clone();
        for _ in 0..r.range(1, 4) {
            let i = r.below(m.len() as u64) as usize;
            m[i] = r.next() as u8;
        }
        decode_check(o, alg, t, &ts, &m, "random_damage", false, true);
    }
    for cut in 0..want.len() {
        decode_check(o, alg, t, &ts, &want[..cut], "truncated", false, cut % 3 == 0);
    }
    o.sample(format!("{} {} => {}", alg.alg.name, vs, hex(&want)));
}

pub fn run(a: &Args) {
    let mut o = Out::new(&a.cases);
    let mut r = Rng::new(a.seed);
    let all = algs();
    // the detection theorems assume parameters within the width and an odd polynomial
    for alg in &all {
        o.case("crcalg", &[&alg.alg.spec()], "1");
    }
    let n = if a.thorough { 1500 } else { 90 };
    for i in 0..n {
        let alg = all[i % all.len()];
        let t = gen::gen_ty(&mut r, 3);
        let v = gen::gen_val(&mut r, &t, 3);
        check_value(&mut o, &mut r, &alg, &t, &v, a.thorough);
    }
    // long payloads handed to the checksum in one block read (str / bytes of several hundred bytes)
    for (i, (t, v)) in gen::block_write_boundary_vals(&mut r, a.thorough).into_iter().enumerate() {
        if i % 3 == 0 || a.thorough {
            let alg = all[i % all.len()];
            check_value(&mut o, &mut r, &alg, &t, &v, a.thorough);
            o.bump("long_payload_values");
        }
    }
    for len in [257usize, 300, 511, 512, 513, 1000] {
        let alg = all[len % all.len()];
        let v = Val::Bytes((0..len).map(|i| (i * 7 + 3) as u8).collect());
        check_value(&mut o, &mut r, &alg, &Ty::Bytes, &v, a.thorough);
        let v = Val::Tuple(vec![Val::unsigned(crate::dynval::IK::U8, 9), Val::Str(vec![b'k'; len]), Val::unsigned(crate::dynval::IK::U16, 65535)]);
        check_value(&mut o, &mut r, &alg, &Ty::Tuple(vec![Ty::Int(crate::dynval::IK::U8), Ty::Str, Ty::Int(crate::dynval::IK::U16)]), &v, a.thorough);
        o.bump("long_payload_values");
    }
    o.finish(&a.summary, "generated shapes/values x 10 catalogue algorithms over the five checksum widths x three storages; long str/bytes payloads (257..1000 bytes and around the 254-byte boundaries) with sampled payload flips and every checksum flip; per short frame (<= 40 bytes): every single bit flip, sampled burst patterns of length <= width at every bit offset in the algorithm's bit order (all patterns for 8-bit algorithms on short frames), random multi-byte damage, every truncation; oracle: an accepted input's covered bytes are followed by their checksum recomputed by an independent bitwise CRC, and checksum-confined / single-bit / burst corruptions with unchanged decoded length are rejected; distinct = distinct (algorithm, shape, bytes)");
}
