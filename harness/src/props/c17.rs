//! C17: the dynamic (schema-driven) codec agrees with the static codec and serde_json.
use crate::capture::{capture, NV};
use crate::corp::*;
use crate::dynval::{hex, Ty, Val, IK};
use crate::gen;
use crate::jsonv::{nullable, schema_of_ty, show};
use crate::out::Out;
use crate::prng::Rng;
use crate::props::guarded;
use crate::stree::{SD, ST};
use crate::Args;
use core::num::*;
use core::ops::{Range, RangeFrom, RangeInclusive, RangeTo};
use postcard_schema::schema::owned::OwnedDataModelType;
use postcard_schema::Schema;
use serde::Serialize;

/// shapes in scope: serde's conventions (no unnamed-field struct or variant with exactly one
/// field written as a tuple), string-keyed maps only, nothing nullable directly inside Option
fn admissible_ty(t: &Ty) -> bool {
    match t {
        Ty::Option(x) => !nullable(&schema_of_ty(x)) && admissible_ty(x),
        Ty::Newtype(x) | Ty::Seq(x) => admissible_ty(x),
        Ty::TupleStruct(ts) => ts.len() != 1 && ts.iter().all(admissible_ty),
        Ty::Tuple(ts) | Ty::Struct(ts) | Ty::Enum(ts) => ts.iter().all(admissible_ty),
        Ty::Map(k, v) => matches!(**k, Ty::Str) && admissible_ty(v),
        _ => true,
    }
}
/// values in scope: integers within i64/u64, finite floats; maps get unique ascending keys
fn admissible_val(v: &mut Val) -> bool {
    match v {
        Val::Int(IK::I128, z, _) => i64::try_from(*z).is_ok(),
        Val::Int(IK::U128, _, u) => u64::try_from(*u).is_ok(),
        Val::F32(b) => f32::from_bits(*b).is_finite(),
        Val::F64(b) => f64::from_bits(*b).is_finite(),
        Val::Some(x) | Val::Newtype(x) | Val::Variant(_, x) => admissible_val(x),
        Val::Seq(xs) | Val::Tuple(xs) | Val::TupleStruct(xs) | Val::Struct(xs) => xs.iter_mut().all(admissible_val),
        Val::Map(kvs) => {
            kvs.sort_by(|a, b| match (&a.0, &b.0) {
                (Val::Str(x), Val::Str(y)) => x.cmp(y),
                _ => std::cmp::Ordering::Equal,
            });
            kvs.dedup_by(|a, b| a.0 == b.0);
            kvs.iter_mut().all(|(k, v)| admissible_val(k) && admissible_val(v))
        }
        _ => true,
    }
}

fn nv_unambiguous(v: &NV) -> bool {
    match v {
        NV::F32(b) => f32::from_bits(*b).is_finite(),
        NV::F64(b) => f64::from_bits(*b).is_finite(),
        NV::Int(IK::I128, z, _) => i64::try_from(*z).is_ok(),
        NV::Int(IK::U128, _, u) => u64::try_from(*u).is_ok(),
        NV::Some(x) | NV::NewtypeStruct(_, x) | NV::Variant(_, _, _, x) => nv_unambiguous(x),
        NV::Seq(xs) | NV::Tuple(xs) | NV::TupleStruct(_, xs) => xs.iter().all(nv_unambiguous),
        NV::Struct(_, fs) => fs.iter().all(|(_, x)| nv_unambiguous(x)),
        NV::Map(kvs) => {
            let keys: Vec<&Vec<u8>> = kvs.iter().filter_map(|(k, _)| if let NV::Str(s) = k { Some(s) } else { None }).collect();
            keys.len() == kvs.len() && keys.windows(2).all(|w| w[0] < w[1]) && kvs.iter().all(|(_, v)| nv_unambiguous(v))
        }
        _ => true,
    }
}
fn schema_in_scope(s: &ST) -> bool {
    fn data(d: &SD) -> bool {
        match d {
            SD::Unit => true,
            SD::Newtype(t) => schema_in_scope(t),
            SD::Tuple(ts) => ts.iter().all(schema_in_scope),
            SD::Struct(fs) => fs.iter().all(|(_, t)| schema_in_scope(t)),
        }
    }
    match s {
        ST::P(i) => crate::stree::PRIMS[*i] != "Schema",
        ST::Opt(t) => !nullable(t) && schema_in_scope(t),
        ST::Seq(t) => schema_in_scope(t),
        ST::Tup(ts) => ts.iter().all(schema_in_scope),
        ST::Map(k, v) => matches!(**k, ST::P(i) if crate::stree::PRIMS[i] == "String") && schema_in_scope(v),
        ST::Struct(_, d) => data(d),
        ST::Enum(_, vs) => vs.iter().all(|(_, d)| data(d)),
    }
}

fn agree<T: Serialize>(o: &mut Out, class: &str, what: &str, st: &ST, v: &T) {
    let owned = st.owned();
    let ss = st.to_string();
    let j = match serde_json::to_value(v) {
        Ok(j) => j,
        Err(_) => return,
    };
    let js = show(&j);
    let stat = match postcard::to_allocvec(v) {
        Ok(b) => b,
        Err(_) => return,
    };
    o.eval(&(&ss, &js), !stat.is_empty());
    o.bump(&format!("class:{}", class));
    o.inflight(&format!("to_stdvec_dyn / from_slice_dyn schema {} json {}", ss, js));
    let inp = format!("{} schema {} json {}", what, ss, js);
    match guarded(|| postcard_dyn::to_stdvec_dyn(&owned, &j)) {
        Ok(Ok(b)) if b == stat => {}
        other => o.fail("encoding the serde_json form under the schema yields exactly the static encoder's bytes", inp.clone(), format!("{:?}", other.map(|r| r.map(|b| hex(&b)))), hex(&stat)),
    }
    match guarded(|| postcard_dyn::from_slice_dyn(&owned, &stat)) {
        Ok(Ok(back)) if back == j => {}
        other => o.fail("decoding the static bytes under the schema yields exactly the serde_json form", format!("{} bytes {}", inp, hex(&stat)), format!("{:?}", other.map(|r| r.map(|b| show(&b)))), js.clone()),
    }
    if ss.len() + js.len() < 30000 {
        o.case("dynser", &[&ss, &js], &format!("ok {}", hex(&stat)));
        o.case("dynde", &[&ss, &hex(&stat)], &format!("ok {}", js));
        // the model of serde_json::to_value and of the property's restrictions, on the captured items
        if let Ok(nv) = capture(v) {
            let nvs = nv.to_string();
            o.case("jsonof", &[&nvs], &js);
            o.case("inscope", &[&ss, &nvs], "111");
            o.case("conform", &[&ss, &nvs, &hex(&stat)], "1 ok x");
        }
    }
}

fn corp<T: Corp + Schema>(o: &mut Out, r: &mut Rng, name: &str) {
    let st = ST::from_owned(&OwnedDataModelType::from(T::SCHEMA));
    if !schema_in_scope(&st) {
        o.bump("corpus:type_out_of_scope");
        return;
    }
    for v in T::cands(r) {
        match capture(&v) {
            Ok(nv) if nv_unambiguous(&nv) => agree(o, "corpus", name, &st, &v),
            _ => o.bump("corpus:value_out_of_scope"),
        }
    }
}
macro_rules! corp_types {
    ($o:expr, $r:expr; $($t:ty),* $(,)?) => {$( corp::<$t>($o, $r, stringify!($t)); )*};
}

pub fn run(a: &Args) {
    let mut o = Out::new(&a.cases);
    let mut r = Rng::new(a.seed);
    let rounds = if a.thorough { 20 } else { 2 };
    for _ in 0..rounds {
        corp_types!(&mut o, &mut r;
            bool, u8, u16, u32, u64, u128, i8, i16, i32, i64, i128, f32, f64, char, (),
            NonZeroU8, NonZeroU32, NonZeroI16, NonZeroI64,
            Option<u8>, Option<char>, Result<u8, u64>, Result<(), char>, Result<[u16; 3], Option<i128>>,
            [u8; 0], [u64; 1], [i16; 2], [Option<u32>; 7], [[u16; 2]; 3], &'static u16, &'static (u8, char),
            (u8,), (u8, u16), (i8, i16, i32), (u64, bool, char, f32), (u8, u16, u32, u64, u128), (i8, i16, i32, i64, i128, bool),
            ((u8, u16), (char,), Option<(u32, u32)>),
            Range<u32>, RangeInclusive<i16>, RangeFrom<u64>, RangeTo<char>,
            heapless::Vec<u8, 0>, heapless::Vec<u32, 5>, heapless::Vec<(u16, bool), 3>, heapless::String<0>, heapless::String<16>,
            UnitS, NewS, TupS, NamedS, EmptyS, Gen1<u8>, Gen1<char>, Gen1<NamedS>, Nested,
            E1, E2, Mixed<u8>, Mixed<NamedS>, Mixed<Mixed<u16>>, Level, Packet, E127, E128, E129, Option<E2>, [Mixed<u8>; 2], (E1, E128),
        );
    }
    // degenerate tuple shapes named in the property: arity 0 and 1, zero-field tuple forms
    #[derive(Serialize, Schema)]
    struct Z0();
    #[derive(Serialize, Schema)]
    enum ZV {
        A(),
        B(u8),
        C {},
    }
    let st = |s: &'static postcard_schema::schema::DataModelType| ST::from_owned(&OwnedDataModelType::from(s));
    agree(&mut o, "degenerate", "(5u8,)", &st(<(u8,)>::SCHEMA), &(5u8,));
    agree(&mut o, "degenerate", "[u8; 0]", &st(<[u8; 0]>::SCHEMA), &[0u8; 0]);
    agree(&mut o, "degenerate", "[u16; 1]", &st(<[u16; 1]>::SCHEMA), &[300u16]);
    agree(&mut o, "degenerate", "struct Z0()", &st(Z0::SCHEMA), &Z0());
    agree(&mut o, "degenerate", "ZV::A()", &st(ZV::SCHEMA), &ZV::A());
    agree(&mut o, "degenerate", "ZV::B(7)", &st(ZV::SCHEMA), &ZV::B(7));
    agree(&mut o, "degenerate", "ZV::C{}", &st(ZV::SCHEMA), &ZV::C {});
    // field order: struct and struct-variant fields declared in non-alphabetical order (serde_json's
    // map is sorted by key, the wire format follows the declaration)
    #[derive(Serialize, Schema)]
    struct Unsorted {
        zeta: u8,
        alpha: u16,
        mid: bool,
    }
    #[derive(Serialize, Schema)]
    enum Shape {
        Nothing,
        Rect { width: u8, height: u16 },
        Wrapped(Unsorted),
        Pair(u8, u16),
        Tag { z: String, a: Option<u8>, m: (u8, bool) },
    }
    agree(&mut o, "field_order", "Unsorted", &st(Unsorted::SCHEMA), &Unsorted { zeta: 9, alpha: 300, mid: true });
    agree(&mut o, "field_order", "Shape::Nothing", &st(Shape::SCHEMA), &Shape::Nothing);
    agree(&mut o, "field_order", "Shape::Rect", &st(Shape::SCHEMA), &Shape::Rect { width: 3, height: 900 });
    agree(&mut o, "field_order", "Shape::Wrapped", &st(Shape::SCHEMA), &Shape::Wrapped(Unsorted { zeta: 0, alpha: 65535, mid: false }));
    agree(&mut o, "field_order", "Shape::Pair", &st(Shape::SCHEMA), &Shape::Pair(7, 70));
    agree(&mut o, "field_order", "Shape::Tag", &st(Shape::SCHEMA), &Shape::Tag { z: "zz".into(), a: Some(1), m: (2, true) });
    agree(&mut o, "field_order", "Vec<Shape>", &st(<Vec<Shape>>::SCHEMA), &vec![Shape::Rect { width: 1, height: 2 }, Shape::Nothing, Shape::Tag { z: String::new(), a: None, m: (0, false) }]);
    // sequences and maps longer than 65536 elements (the theorem covers them when no element has an
    // empty encoding; too large for the model's case file: direct oracles only)
    let long: Vec<u16> = (0..70000u32).map(|i| (i % 65536) as u16).collect();
    agree(&mut o, "long", "Vec<u16> of 70000", &st(<Vec<u16>>::SCHEMA), &long);
    let longp: Vec<(u8, bool)> = (0..66000u32).map(|i| (i as u8, i % 3 == 0)).collect();
    agree(&mut o, "long", "Vec<(u8,bool)> of 66000", &st(<Vec<(u8, bool)>>::SCHEMA), &longp);
    let longm: std::collections::BTreeMap<String, u8> = (0..66000u32).map(|i| (format!("k{:06}", i), i as u8)).collect();
    agree(&mut o, "long", "BTreeMap<String,u8> of 66000", &st(<std::collections::BTreeMap<String, u8>>::SCHEMA), &longm);
    agree(&mut o, "degenerate", "((u8,),)", &st(<((u8,),)>::SCHEMA), &((9u8,),));
    // random shapes
    let n = if a.thorough { 40000 } else { 2500 };
    let mut done = 0;
    let mut tries = 0;
    while done < n && tries < 50 * n {
        tries += 1;
        let t = gen::gen_ty(&mut r, 3);
        if !admissible_ty(&t) {
            o.bump("random:shape_out_of_scope");
            continue;
        }
        let mut v = gen::gen_val(&mut r, &t, 4);
        if !admissible_val(&mut v) {
            o.bump("random:value_out_of_scope");
            continue;
        }
        let st = schema_of_ty(&t);
        let mut kinds = std::collections::BTreeMap::new();
        st.kinds(&mut kinds);
        for (k, c) in kinds {
            o.bump_by(&k, c);
        }
        agree(&mut o, "random_shape", "generated", &st, &v);
        done += 1;
    }
    o.finish(&a.summary, "random shapes/values (DynVal) and the concrete type corpus (built-ins, workspace-derived structs/enums incl. degenerate tuple shapes of arity 0 and 1 and zero-field variants), restricted as the property states (integers within i64/u64, finite floats, string-keyed maps with unique ascending keys, nothing nullable directly inside Option, one-field unnamed forms are newtypes); to_stdvec_dyn(schema, serde_json::to_value(v)) == to_allocvec(v) and from_slice_dyn(schema, bytes) == to_value(v), and both against the model; distinct = distinct (schema, json)");
}
