//! C20: stacked flavours compose as byte-stream transformers.
use crate::crcs::algs;
use crate::dynval::{hex, Val};
use crate::gen;
use crate::hcap;
use crate::out::Out;
use crate::prng::Rng;
use crate::props::{guarded, with_ty, Dyn};
use crate::refimpl;
use crate::Args;
use postcard::ser_flavors::Flavor;

#[derive(Debug, Clone, PartialEq)]
pub enum Call {
    Push(u8),
    Extend(Vec<u8>),
}
/// a user flavour that only implements try_push (try_extend is the trait's default)
pub struct RecDefault(pub Vec<Call>);
impl Flavor for RecDefault {
    type Output = Vec<Call>;
    fn try_push(&mut self, b: u8) -> postcard::Result<()> {
        self.0.push(Call::Push(b));
        Ok(())
    }
    fn finalize(self) -> postcard::Result<Vec<Call>> {
        Ok(self.0)
    }
}
/// a user flavour with its own block write
pub struct RecOverride(pub Vec<Call>);
impl Flavor for RecOverride {
    type Output = Vec<Call>;
    fn try_push(&mut self, b: u8) -> postcard::Result<()> {
        self.0.push(Call::Push(b));
        Ok(())
    }
    fn try_extend(&mut self, bs: &[u8]) -> postcard::Result<()> {
        self.0.push(Call::Extend(bs.to_vec()));
        Ok(())
    }
    fn finalize(self) -> postcard::Result<Vec<Call>> {
        Ok(self.0)
    }
}
fn calls_str(c: &[Call]) -> String {
    c.iter().map(|x| match x { Call::Push(b) => format!("p:{:02x}", b), Call::Extend(bs) => format!("e:{}", hex(bs)) }).collect::<Vec<_>>().join(" ")
}
fn calls_bytes(c: &[Call]) -> Vec<u8> {
    let mut v = Vec::new();
    for x in c {
        match x {
            Call::Push(b) => v.push(*b),
            Call::Extend(bs) => v.extend_from_slice(bs),
        }
    }
    v
}

pub fn run(a: &Args) {
    let mut o = Out::new(&a.cases);
    let mut r = Rng::new(a.seed);
    let all = algs();
    let n = if a.thorough { 20000 } else { 900 };
    let mut inputs: Vec<(crate::dynval::Ty, Val)> = gen::block_write_boundary_vals(&mut r, a.thorough);
    let nb_boundary = inputs.len();
    for _ in 0..n {
        let t = gen::gen_ty(&mut r, 3);
        let v: Val = gen::gen_val(&mut r, &t, 5);
        inputs.push((t, v));
    }
    for (i, (t, v)) in inputs.into_iter().enumerate() {
        let vs = v.to_string();
        o.bump(if i < nb_boundary { "input:block_write_boundary" } else { "input:generated" });
        let plain = match postcard::to_allocvec(&v) {
            Ok(b) => b,
            Err(_) => continue,
        };
        o.eval(&vs, !plain.is_empty());
        // user flavours receive exactly the plain encoding, in order
        for ov in [false, true] {
            let got = guarded(|| if ov { postcard::serialize_with_flavor(&v, RecOverride(Vec::new())) } else { postcard::serialize_with_flavor(&v, RecDefault(Vec::new())) });
            match got {
                Ok(Ok(calls)) => {
                    if calls_bytes(&calls) != plain {
                        o.fail("a user flavour receives exactly the plain encoding, in order", format!("{} override={}", vs, ov), hex(&calls_bytes(&calls)), hex(&plain));
                    }
                    o.case("recorder", &[&vs, if ov { "1" } else { "0" }], &format!("ok {}", calls_str(&calls)));
                    o.bump(if ov { "recorder:override" } else { "recorder:default" });
                }
                other => o.fail("a user flavour is served", vs.clone(), format!("{:?}", other.map(|r| r.map(|c| calls_str(&c)))), hex(&plain)),
            }
        }
        let alg = all[i % all.len()];
        let nb = alg.alg.nbytes();
        let mut with_crc = plain.clone();
        with_crc.extend_from_slice(&refimpl::crc_bitwise(&alg.alg, &plain).to_le_bytes()[..nb]);
        let mut stack = refimpl::cobs_encode(&with_crc);
        stack.push(0);
        let mut cobs_only = refimpl::cobs_encode(&plain);
        cobs_only.push(0);
        let mut outs: Vec<(String, Result<Result<Vec<u8>, postcard::Error>, ()>, Vec<u8>)> = Vec::new();
        outs.push(("cobs/alloc".into(), guarded(|| postcard::to_allocvec_cobs(&v)), cobs_only.clone()));
        outs.push(("crc/alloc".into(), guarded(|| alg.to_allocvec(&v)), with_crc.clone()));
        outs.push(("crc+cobs/alloc".into(), guarded(|| alg.to_allocvec_crc_cobs(&v)), stack.clone()));
        outs.push(("crc+cobs/slice".into(), guarded(|| {
            let mut buf = vec![0xEEu8; stack.len() + 1];
            alg.to_slice_crc_cobs(&v, &mut buf).map(|s| s.to_vec())
        }), stack.clone()));
        if let Some(x) = hcap!(stack.len(), B => guarded(|| alg.to_vec_crc_cobs::<B>(&v))) {
            outs.push(("crc+cobs/heapless".into(), x, stack.clone()));
            o.case("tovec_crc_cobs", &[&alg.alg.spec(), &vs, &stack.len().to_string()], &format!("ok {}", hex(&stack)));
        }
        for (name, got, want) in outs {
            o.bump(&format!("stack:{}", name));
            match got {
                Ok(Ok(b)) if b == want => {}
                other => o.fail(&format!("{} == the modifiers' transformations applied to the plain encoding in stack order", name), format!("{} {}", alg.alg.name, vs), format!("{:?}", other.map(|r| r.map(|b| hex(&b)))), hex(&want)),
            }
        }
        o.case("toallocvec_crc_cobs", &[&alg.alg.spec(), &vs], &format!("ok {}", hex(&stack)));
        o.case("toslice_crc_cobs", &[&alg.alg.spec(), &vs, &(stack.len() + 1).to_string()], &format!("ok {} {}ee", hex(&stack), hex(&stack)));
        // undo the layers in reverse order: COBS, then CRC, then plain decoding
        let frame = &stack[..stack.len() - 1];
        match refimpl::cobs_decode(frame) {
            Some(inner) if inner == with_crc => match alg.take_from_bytes(&t, &inner) {
                Ok((back, rest)) if back == v && rest.is_empty() => {}
                other => o.fail("undoing the layers in reverse order recovers the value", vs.clone(), format!("{:?}", other.map(|(v, r)| format!("{} {}", v, hex(&r)))), vs.clone()),
            },
            other => o.fail("un-COBS of the stack gives plain ++ checksum", vs.clone(), format!("{:?}", other.map(|b| hex(&b))), hex(&with_crc)),
        }
        // and the in-place COBS decoder of the crate agrees
        let mut buf = stack.clone();
        let dec = with_ty(&crate::dynval::Ty::Tuple(vec![crate::dynval::Ty::Int(crate::dynval::IK::U8); with_crc.len()]), || postcard::from_bytes_cobs::<Dyn>(&mut buf).map(|d| d.0));
        if let Ok(Val::Tuple(bs)) = &dec {
            let got: Vec<u8> = bs.iter().map(|b| if let Val::Int(_, _, u) = b { *u as u8 } else { 0 }).collect();
            if got != with_crc {
                o.fail("from_bytes_cobs of the stack gives plain ++ checksum", vs.clone(), hex(&got), hex(&with_crc));
            }
        } else {
            o.fail("from_bytes_cobs of the stack succeeds", vs.clone(), format!("{:?}", dec.map(|v| v.to_string())), hex(&with_crc));
        }
        if i >= nb_boundary {
            o.sample(format!("{} {} => {}", alg.alg.name, vs, hex(&stack)));
        }
    }
    o.finish(&a.summary, "generated shapes/values plus str/bytes payloads whose block writes end around each 254-byte COBS boundary x stacks {COBS, CRC of each width, CRC inside COBS} x innermost storage {slice, heapless, growable} x a recording user flavour with and without a try_extend override; oracle: output == independent COBS/CRC transforms applied to to_allocvec's bytes, layers undone in reverse order give back the value; distinct = distinct value, non-trivial = non-empty encoding");
}
