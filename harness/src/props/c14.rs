//! C14: a type's Schema describes exactly what its Serialize writes.
use crate::capture::{capture, NV};
use crate::corp::*;
use crate::dynval::{hex, IK};
use crate::out::Out;
use crate::prng::Rng;
use crate::props::guarded;
use crate::stree::{SD, ST};
use crate::sty::Sty;
use crate::Args;
use core::num::*;
use core::ops::{Range, RangeFrom, RangeInclusive, RangeTo};
use postcard_schema::schema::owned::OwnedDataModelType;
use postcard_schema::schema::DataModelType;
use postcard_schema::Schema;
use serde::Serialize;
use std::collections::{BTreeMap, BTreeSet, HashMap, HashSet};

/// independent conformance check of the captured items against the schema tree
fn conf(v: &NV, s: &ST) -> Result<(), String> {
    let bad = |what: &str| Err(format!("{}: item {} vs schema {}", what, v, s));
    let prim = |i: usize| crate::stree::PRIMS[i];
    fn data(v: &NV, d: &SD) -> Result<(), String> {
        match (d, v) {
            (SD::Unit, NV::UnitStruct(_)) => Ok(()),
            (SD::Newtype(t), NV::NewtypeStruct(_, x)) => conf(x, t),
            (SD::Tuple(ts), NV::TupleStruct(_, xs)) => {
                if ts.len() != xs.len() {
                    return Err(format!("arity {} vs {}", xs.len(), ts.len()));
                }
                xs.iter().zip(ts).try_for_each(|(x, t)| conf(x, t))
            }
            (SD::Struct(fs), NV::Struct(_, xs)) => {
                if fs.len() != xs.len() {
                    return Err(format!("field count {} vs {}", xs.len(), fs.len()));
                }
                for ((n, x), (fname, t)) in xs.iter().zip(fs) {
                    if n != fname {
                        return Err(format!("field name {:?} vs {:?}", n, fname));
                    }
                    conf(x, t)?;
                }
                Ok(())
            }
            _ => Err(format!("struct form: item {} vs data {}", v, d)),
        }
    }
    match (s, v) {
        (ST::P(i), _) => {
            let ok = match (prim(*i), v) {
                ("Bool", NV::Bool(_)) | ("F32", NV::F32(_)) | ("F64", NV::F64(_)) | ("Char", NV::Char(_)) | ("String", NV::Str(_)) | ("ByteArray", NV::Bytes(_)) | ("Unit", NV::Unit) => true,
                ("I8", NV::Int(IK::I8, ..)) | ("I16", NV::Int(IK::I16, ..)) | ("I32", NV::Int(IK::I32, ..)) | ("I64", NV::Int(IK::I64, ..)) | ("I128", NV::Int(IK::I128, ..)) => true,
                ("U8", NV::Int(IK::U8, ..)) | ("U16", NV::Int(IK::U16, ..)) | ("U32", NV::Int(IK::U32, ..)) | ("U64", NV::Int(IK::U64, ..)) | ("U128", NV::Int(IK::U128, ..)) => true,
                ("Usize", NV::Int(IK::U64, ..)) | ("Isize", NV::Int(IK::I64, ..)) => true,
                ("Schema", _) => {
                    // the item must be the serialisation of a schema tree
                    let bytes = postcard::to_allocvec(&v.to_val()).map_err(|e| format!("{:?}", e))?;
                    postcard::from_bytes::<OwnedDataModelType>(&bytes).is_ok()
                }
                _ => false,
            };
            if ok { Ok(()) } else { bad("kind") }
        }
        (ST::Opt(_), NV::None) => Ok(()),
        (ST::Opt(t), NV::Some(x)) => conf(x, t),
        (ST::Seq(t), NV::Seq(xs)) => xs.iter().try_for_each(|x| conf(x, t)),
        (ST::Tup(ts), NV::Tuple(xs)) => {
            if ts.len() != xs.len() {
                return bad("arity");
            }
            xs.iter().zip(ts).try_for_each(|(x, t)| conf(x, t))
        }
        (ST::Map(k, t), NV::Map(kvs)) => kvs.iter().try_for_each(|(a, b)| conf(a, k).and_then(|_| conf(b, t))),
        (ST::Struct(_, d), _) => data(v, d),
        (ST::Enum(_, vs), NV::Variant(_, idx, vname, p)) => match vs.get(*idx as usize) {
            Some((n, d)) => {
                if n != vname {
                    return Err(format!("variant {} is named {:?} in the schema, {:?} in the serialisation", idx, n, vname));
                }
                data(p, d)
            }
            None => bad("variant index out of range"),
        },
        _ => bad("kind"),
    }
}

fn check<T: Schema + Serialize + Sty>(o: &mut Out, r: &mut Rng, name: &str, vals: Vec<T>) {
    let schema: &'static DataModelType = T::SCHEMA;
    let st = ST::from_owned(&OwnedDataModelType::from(schema));
    let ss = st.to_string();
    o.bump("types");
    // the model's reading of the impl rows gives this type the same SCHEMA
    let sty = T::sty();
    match &sty {
        Some(t) => {
            o.case("styschema", &[t], &format!("ok {}", ss));
            o.bump("types_in_expression_language");
        }
        None => o.bump("types_outside_expression_language"),
    }
    o.sample(format!("{} : {}", name, if ss.len() > 150 { format!("{}...", &ss[..150]) } else { ss.clone() }));
    for (i, v) in vals.iter().enumerate() {
        o.eval(&(name, i), true);
        o.inflight(&format!("{} candidate {}", name, i));
        let nv = match capture(v) {
            Ok(nv) => nv,
            Err(e) => {
                o.fail("the value serialises", format!("{} candidate {}", name, i), e.to_string(), "items".into());
                continue;
            }
        };
        let bytes = match guarded(|| postcard::to_allocvec(v)) {
            Ok(Ok(b)) => b,
            other => {
                o.fail("the value encodes", format!("{} value {}", name, nv), format!("{:?}", other), "bytes".into());
                continue;
            }
        };
        if let Err(e) = conf(&nv, &st) {
            o.fail("the items a value serialises as conform to the type's schema (kinds, field names and order, variant names and indices, arity, element types)", format!("{} value {} schema {}", name, nv, ss), e, "conforms".into());
        }
        let suffix = r.bytes_upto(3);
        let mut stream = bytes.clone();
        stream.extend_from_slice(&suffix);
        let nvs = nv.to_string();
        if nvs.len() < 30000 {
            o.case("conform", &[&ss, &nvs, &hex(&stream)], &format!("1 ok {}", hex(&suffix)));
            // ... and the captured call tree is what the model says a value of the type emits
            if let Some(t) = &sty {
                o.case("styemit", &[t, &nvs], "1");
            }
        }
        o.bump("values");
    }
}

macro_rules! corp_types {
    ($o:expr, $r:expr; $($t:ty),* $(,)?) => {$({
        let vals = <$t as Corp>::cands($r);
        check::<$t>($o, $r, stringify!($t), vals);
    })*};
}

pub fn run(a: &Args) {
    let mut o = Out::new(&a.cases);
    let mut r = Rng::new(a.seed);
    let rounds = if a.thorough { 30 } else { 2 };
    for _ in 0..rounds {
        let r = &mut r;
        let o = &mut o;
        corp_types!(o, r;
            bool, u8, u16, u32, u64, u128, i8, i16, i32, i64, i128, f32, f64, char, (),
            NonZeroU8, NonZeroU16, NonZeroU32, NonZeroU64, NonZeroU128, NonZeroI8, NonZeroI16, NonZeroI32, NonZeroI64, NonZeroI128,
            Option<u8>, Option<Option<char>>, Option<()>, Result<u8, u64>, Result<(), char>, Result<[u16; 3], Option<i128>>,
            [u8; 0], [u64; 1], [i16; 2], [Option<u32>; 7], [[u16; 2]; 3], &'static u16, &'static (u8, char),
            (u8,), (u8, u16), (i8, i16, i32), (u64, bool, char, f32), (u8, u16, u32, u64, u128), (i8, i16, i32, i64, i128, bool),
            ((u8, u16), (char,), Option<(u32, u32)>),
            Range<u32>, RangeInclusive<i16>, RangeFrom<u64>, RangeTo<char>,
            heapless::Vec<u8, 0>, heapless::Vec<u32, 5>, heapless::Vec<(u16, bool), 3>, heapless::String<0>, heapless::String<16>,
            UnitS, NewS, TupS, NamedS, EmptyS, Gen1<u8>, Gen1<Option<char>>, Gen1<NamedS>, Nested,
            E1, E2, Mixed<u8>, Mixed<NamedS>, Mixed<Mixed<u16>>, Level, Packet, E127, E128, E129, Option<E2>, [Mixed<u8>; 2], (E1, E128),
        );
        // types outside the MaxSize corpus
        let strs: Vec<String> = vec![String::new(), "a".into(), "héllo wörld".into(), "x".repeat(200), String::from_utf8(crate::gen::gen_string(r, 40)).unwrap()];
        check::<String>(o, r, "String", strs.clone());
        check::<&str>(o, r, "&str", vec!["", "abc", "名前"]);
        check::<std::path::PathBuf>(o, r, "PathBuf", vec!["".into(), "/tmp/x".into(), "rel/ative.txt".into()]);
        check::<Vec<u16>>(o, r, "Vec<u16>", vec![vec![], vec![1, 2, 65535], (0..200).collect()]);
        check::<Vec<Option<String>>>(o, r, "Vec<Option<String>>", vec![vec![], vec![None, Some("z".into())]]);
        check::<&[u8]>(o, r, "&[u8]", vec![&[], &[0, 255, 7]]);
        check::<&[(u8, i16)]>(o, r, "&[(u8, i16)]", vec![&[], &[(1, -1), (2, i16::MIN)]]);
        check::<BTreeMap<String, u8>>(o, r, "BTreeMap<String,u8>", vec![BTreeMap::new(), [("a".to_string(), 1u8), ("b".to_string(), 255)].into_iter().collect()]);
        check::<HashMap<u32, Vec<bool>>>(o, r, "HashMap<u32,Vec<bool>>", vec![HashMap::new(), [(7u32, vec![true, false]), (0, vec![])].into_iter().collect()]);
        check::<BTreeSet<i64>>(o, r, "BTreeSet<i64>", vec![BTreeSet::new(), [i64::MIN, 0, 5].into_iter().collect()]);
        check::<HashSet<char>>(o, r, "HashSet<char>", vec![HashSet::new(), ['a', 'é'].into_iter().collect()]);
        let uuids = vec![uuid::Uuid::nil(), uuid::Uuid::from_u128(r.u128()), uuid::Uuid::max()];
        check::<uuid::Uuid>(o, r, "uuid::Uuid", uuids);
        let times = vec![chrono::DateTime::from_timestamp(0, 0).unwrap(), chrono::DateTime::from_timestamp((r.next() % 4_000_000_000) as i64, (r.next() % 1_000_000_000) as u32).unwrap()];
        check::<chrono::DateTime<chrono::Utc>>(o, r, "chrono::DateTime<Utc>", times);
        // heapless 0.8 and nalgebra 0.33 integrations
        {
            let mut hv: heapless08::Vec<u32, 5> = heapless08::Vec::new();
            let _ = hv.push(7);
            let _ = hv.push(u32::MAX);
            let mut full: heapless08::Vec<u32, 5> = heapless08::Vec::new();
            for i in 0..5 {
                let _ = full.push(i * 1000);
            }
            check::<heapless08::Vec<u32, 5>>(o, r, "heapless08::Vec<u32,5>", vec![heapless08::Vec::new(), hv, full]);
            let mut hp: heapless08::Vec<(u16, bool), 3> = heapless08::Vec::new();
            let _ = hp.push((9, true));
            check::<heapless08::Vec<(u16, bool), 3>>(o, r, "heapless08::Vec<(u16,bool),3>", vec![heapless08::Vec::new(), hp]);
            let mut hs: heapless08::String<16> = heapless08::String::new();
            let _ = hs.push_str("héllo");
            check::<heapless08::String<16>>(o, r, "heapless08::String<16>", vec![heapless08::String::new(), hs]);
            check::<heapless08::String<0>>(o, r, "heapless08::String<0>", vec![heapless08::String::new()]);
            check::<nalgebra::SMatrix<u8, 3, 3>>(o, r, "nalgebra::SMatrix<u8,3,3>", vec![nalgebra::SMatrix::<u8, 3, 3>::new(1, 2, 3, 4, 5, 6, 7, 8, 9), nalgebra::SMatrix::<u8, 3, 3>::zeros()]);
            check::<nalgebra::SMatrix<i16, 2, 3>>(o, r, "nalgebra::SMatrix<i16,2,3>", vec![nalgebra::SMatrix::<i16, 2, 3>::new(-1, 2, i16::MIN, 4, i16::MAX, 6)]);
            check::<nalgebra::SMatrix<f32, 1, 1>>(o, r, "nalgebra::SMatrix<f32,1,1>", vec![nalgebra::SMatrix::<f32, 1, 1>::new(1.5)]);
            check::<nalgebra::SMatrix<u64, 4, 1>>(o, r, "nalgebra::SMatrix<u64,4,1>", vec![nalgebra::SMatrix::<u64, 4, 1>::new(0, 1, u64::MAX, 300)]);
            check::<Option<nalgebra::SMatrix<u16, 2, 2>>>(o, r, "Option<nalgebra::SMatrix<u16,2,2>>", vec![None, Some(nalgebra::SMatrix::<u16, 2, 2>::new(1, 2, 3, 65535))]);
        }
        check::<postcard_schema::key::Key>(o, r, "Key", vec![postcard_schema::key::Key::for_path::<u8>("a"), postcard_schema::key::Key::for_path::<Nested>("topic/x")]);
        // the schema-of-schema kind: schemas are themselves values with a schema
        let mut trees: Vec<ST> = (0..6).map(|i| crate::stree::gen_tree(r, 1 + i % 4)).collect();
        // every leaf kind once, so that each variant index of the schema types is exercised
        trees.push(ST::Tup((0..crate::stree::PRIMS.len()).map(ST::P).collect()));
        // a schema written under the Schema kind by either schema type reads back as that schema
        for t in &trees {
            let want = t.owned();
            let from_borrowed = postcard::to_allocvec(&t.borrowed_val()).ok().and_then(|b| postcard::from_bytes::<OwnedDataModelType>(&b).ok());
            let from_owned = postcard::to_allocvec(&want).ok().and_then(|b| postcard::from_bytes::<OwnedDataModelType>(&b).ok());
            o.eval(&("schema_kind", t.to_string()), true);
            if from_borrowed.as_ref() != Some(&want) || from_owned.as_ref() != Some(&want) {
                o.fail("a schema serialised under the Schema kind (by DataModelType or OwnedDataModelType) reads back as that schema", t.to_string(),
                       format!("from borrowed: {:?}; from owned: {:?}", from_borrowed.map(|x| ST::from_owned(&x).to_string()), from_owned.map(|x| ST::from_owned(&x).to_string())), t.to_string());
            }
        }
        check::<OwnedDataModelType>(o, r, "OwnedDataModelType", trees.iter().map(|t| t.owned()).collect());
        check::<DataModelType>(o, r, "DataModelType", trees.iter().map(|t| t.borrowed_val()).collect());
        check::<Option<Vec<(String, Mixed<u8>)>>>(o, r, "Option<Vec<(String,Mixed<u8>)>>", vec![None, Some(vec![]), Some(vec![("k".into(), Mixed::S { a: Some(3), b: [1, 2] }), ("".into(), Mixed::U)])]);
        check::<Gen1<Vec<E2>>>(o, r, "Gen1<Vec<E2>>", vec![Gen1 { x: vec![E2::A, E2::B { x: 1, y: -1 }], y: None }, Gen1 { x: vec![], y: Some(vec![E2::A]) }]);
    }
    o.finish(&a.summary, "built-in Schema impls (integers, NonZero*, floats, bool, char, unit, str/String/PathBuf, Option, Result, references, arrays, slices/Vec/sets, maps, tuples 1-6, ranges, heapless 0.7 and 0.8, nalgebra 0.33 matrices, uuid, chrono, Key, the schema types themselves) and types using the WORKSPACE derive (unit / newtype / tuple / named / empty / generic / nested structs; enums mixing the four variant forms, 1..129 variants) x candidate values covering every variant; each value's serde call tree is captured by a recording serializer and checked against T::SCHEMA by an independent conformance function, by the model's `conforms`, and by the model's schema-driven reader on the real bytes followed by a random suffix; distinct = distinct (type, candidate)");
}
