//! C16: schema keys: both hashers agree and equal the documented FNV-1a stream.
use crate::dynval::hex;
use crate::out::Out;
use crate::prng::Rng;
use crate::props::guarded;
use crate::refimpl;
use crate::stree::{self, SD, ST};
use crate::Args;
use postcard_schema::key::hash::{fnv1a64, fnv1a64_owned};
use postcard_schema::key::Key;
use postcard_schema::schema::DataModelType;

/// class name of known finding F10 (see known_findings.jsonl)
const F10: &str = "adjacent-swap-with-commuting-encodings";

fn reference_key(path: &str, t: &ST) -> ([u8; 8], Vec<u8>) {
    let mut s = path.as_bytes().to_vec();
    t.stream(&mut s);
    (refimpl::fnv1a64(&s).to_le_bytes(), s)
}

fn gen_path(r: &mut Rng) -> String {
    match r.below(6) {
        0 => String::new(),
        1 => "/".into(),
        2 => "topic/名前/π".into(),
        3 => (0..r.range(40, 300)).map(|_| (b'a' + r.below(26) as u8) as char).collect(),
        _ => format!("{}/{}", stree::gen_name(r), stree::gen_name(r)),
    }
}

fn keys(o: &mut Out, path: &str, t: &ST, b: &'static DataModelType, emit: bool) -> Option<[u8; 8]> {
    let ts = t.to_string();
    let owned = t.owned();
    let kc = guarded(|| fnv1a64::verif_hash_ty_path_static(path, b));
    let ko = guarded(|| fnv1a64_owned::hash_ty_path_owned(path, &owned));
    let kp = guarded(|| Key::for_owned_schema_path(path, &owned).to_bytes());
    let (want, _) = reference_key(path, t);
    o.eval(&(path, &ts), t.nodes() > 1 || !path.is_empty());
    let inp = format!("path {} schema {}", hex(path.as_bytes()), ts);
    match (&kc, &ko, &kp) {
        (Ok(c), Ok(w), Ok(p)) => {
            if c != w {
                o.fail("compile-time hasher == run-time hasher", inp.clone(), format!("const {} owned {}", hex(c), hex(w)), "equal".into());
            }
            if *c != want {
                o.fail("compile-time key == FNV-1a(path ++ documented stream), little endian", inp.clone(), hex(c), hex(&want));
            }
            if *w != want {
                o.fail("run-time key == FNV-1a(path ++ documented stream), little endian", inp.clone(), hex(w), hex(&want));
            }
            if p != w {
                o.fail("Key::for_owned_schema_path is the run-time hasher", inp.clone(), hex(p), hex(w));
            }
            if emit {
                o.case("key", &[&hex(path.as_bytes()), &ts], &format!("{} {} {}", hex(c), hex(w), hex(&want)));
            }
            Some(*c)
        }
        other => {
            o.fail("hashing a schema never panics", inp, format!("{:?}", other), hex(&want));
            None
        }
    }
}

/// all trees obtained by one single-node mutation, tagged with the kind of mutation
fn mutations(t: &ST, r: &mut Rng, out: &mut Vec<(&'static str, ST)>) {
    fn in_data(d: &SD, r: &mut Rng, wrap: &dyn Fn(SD) -> ST, out: &mut Vec<(&'static str, ST)>) {
        match d {
            SD::Unit => {}
            SD::Newtype(t) => {
                let mut sub = Vec::new();
                mutations(t, r, &mut sub);
                for (k, m) in sub {
                    out.push((k, wrap(SD::Newtype(Box::new(m)))));
                }
            }
            SD::Tuple(ts) => {
                for i in 0..ts.len() {
                    let mut sub = Vec::new();
                    mutations(&ts[i], r, &mut sub);
                    for (k, m) in sub {
                        let mut c = ts.clone();
                        c[i] = m;
                        out.push((k, wrap(SD::Tuple(c))));
                    }
                    if i + 1 < ts.len() && ts[i] != ts[i + 1] {
                        let mut c = ts.clone();
                        c.swap(i, i + 1);
                        out.push(("swap_fields", wrap(SD::Tuple(c))));
                    }
                }
            }
            SD::Struct(fs) => {
                for i in 0..fs.len() {
                    let mut sub = Vec::new();
                    mutations(&fs[i].1, r, &mut sub);
                    for (k, m) in sub {
                        let mut c = fs.clone();
                        c[i].1 = m;
                        out.push((k, wrap(SD::Struct(c))));
                    }
                    let mut c = fs.clone();
                    c[i].0 = rename(&fs[i].0, r);
                    out.push(("rename_field", wrap(SD::Struct(c))));
                    if i + 1 < fs.len() && fs[i] != fs[i + 1] {
                        let mut c = fs.clone();
                        c.swap(i, i + 1);
                        out.push(("swap_fields", wrap(SD::Struct(c))));
                    }
                }
            }
        }
        // change the data kind where the fields allow it
        match d {
            SD::Unit => out.push(("data_kind", wrap(SD::Tuple(vec![])))),
            SD::Newtype(t) => out.push(("data_kind", wrap(SD::Tuple(vec![(**t).clone()])))),
            SD::Tuple(ts) if ts.len() == 1 => out.push(("data_kind", wrap(SD::Newtype(Box::new(ts[0].clone()))))),
            SD::Tuple(ts) if ts.is_empty() => out.push(("data_kind", wrap(SD::Unit))),
            _ => {}
        }
    }
    fn rename(n: &str, r: &mut Rng) -> String {
        loop {
            let m = match r.below(3) {
                0 => format!("{}x", n),
                1 if !n.is_empty() => n[..n.char_indices().last().unwrap().0].to_string(),
                _ => stree::gen_name(r),
            };
            if m != n {
                return m;
            }
        }
    }
    match t {
        ST::P(i) => {
            let j = (i + 1 + r.below(19) as usize) % 20;
            out.push(("leaf_kind", ST::P(j)));
        }
        ST::Opt(x) | ST::Seq(x) => {
            let is_opt = matches!(t, ST::Opt(_));
            let mut sub = Vec::new();
            mutations(x, r, &mut sub);
            for (k, m) in sub {
                out.push((k, if is_opt { ST::Opt(Box::new(m)) } else { ST::Seq(Box::new(m)) }));
            }
            out.push(("node_kind", if is_opt { ST::Seq(x.clone()) } else { ST::Opt(x.clone()) }));
        }
        ST::Tup(ts) => {
            for i in 0..ts.len() {
                let mut sub = Vec::new();
                mutations(&ts[i], r, &mut sub);
                for (k, m) in sub {
                    let mut c = ts.clone();
                    c[i] = m;
                    out.push((k, ST::Tup(c)));
                }
                if i + 1 < ts.len() && ts[i] != ts[i + 1] {
                    let mut c = ts.clone();
                    c.swap(i, i + 1);
                    out.push(("swap_elements", ST::Tup(c)));
                }
            }
        }
        ST::Map(k, v) => {
            let mut sub = Vec::new();
            mutations(k, r, &mut sub);
            for (kk, m) in sub {
                out.push((kk, ST::Map(Box::new(m), v.clone())));
            }
            let mut sub = Vec::new();
            mutations(v, r, &mut sub);
            for (kk, m) in sub {
                out.push((kk, ST::Map(k.clone(), Box::new(m))));
            }
            if k != v {
                out.push(("swap_key_val", ST::Map(v.clone(), k.clone())));
            }
        }
        ST::Struct(n, d) => {
            let n = n.clone();
            in_data(d, r, &move |d| ST::Struct(n.clone(), d), out);
        }
        ST::Enum(n, vs) => {
            for i in 0..vs.len() {
                let (n2, vs2) = (n.clone(), vs.clone());
                in_data(
                    &vs[i].1,
                    r,
                    &move |d| {
                        let mut c = vs2.clone();
                        c[i].1 = d;
                        ST::Enum(n2.clone(), c)
                    },
                    out,
                );
                let mut c = vs.clone();
                c[i].0 = rename(&vs[i].0, r);
                out.push(("rename_variant", ST::Enum(n.clone(), c)));
                if i + 1 < vs.len() && vs[i] != vs[i + 1] {
                    let mut c = vs.clone();
                    c.swap(i, i + 1);
                    out.push(("swap_variants", ST::Enum(n.clone(), c)));
                }
            }
        }
    }
}

/// rename every struct and enum type (not the fields or variants)
fn retype(t: &ST, r: &mut Rng) -> ST {
    fn d(x: &SD, r: &mut Rng) -> SD {
        match x {
            SD::Unit => SD::Unit,
            SD::Newtype(t) => SD::Newtype(Box::new(retype(t, r))),
            SD::Tuple(ts) => SD::Tuple(ts.iter().map(|t| retype(t, r)).collect()),
            SD::Struct(fs) => SD::Struct(fs.iter().map(|(n, t)| (n.clone(), retype(t, r))).collect()),
        }
    }
    match t {
        ST::P(i) => ST::P(*i),
        ST::Opt(x) => ST::Opt(Box::new(retype(x, r))),
        ST::Seq(x) => ST::Seq(Box::new(retype(x, r))),
        ST::Tup(ts) => ST::Tup(ts.iter().map(|t| retype(t, r)).collect()),
        ST::Map(k, v) => ST::Map(Box::new(retype(k, r)), Box::new(retype(v, r))),
        ST::Struct(_, x) => ST::Struct(stree::gen_name(r), d(x, r)),
        ST::Enum(_, vs) => ST::Enum(stree::gen_name(r), vs.iter().map(|(n, x)| (n.clone(), d(x, r))).collect()),
    }
}

fn check_tree(o: &mut Out, r: &mut Rng, class: &str, t: &ST, b: &'static DataModelType, emit: bool) {
    o.bump(&format!("class:{}", class));
    let path = gen_path(r);
    o.bump(&format!("path:{}", match path.len() { 0 => "empty", 1..=39 => "short", _ => "long" }));
    let k0 = match keys(o, &path, t, b, emit) {
        Some(k) => k,
        None => return,
    };
    let ts = t.to_string();
    // type names do not matter
    let t2 = retype(t, r);
    if t2 != *t {
        if let Some(k2) = keys(o, &path, &t2, t2.borrowed(), false) {
            o.bump("retyped");
            if k2 != k0 {
                o.fail("keys ignore struct and enum type names", format!("path {} {} vs {}", hex(path.as_bytes()), ts, t2), hex(&k2), hex(&k0));
            }
        }
    }
    // a different path gives a different key
    let p2 = match r.below(3) {
        0 => format!("{}x", path),
        1 if !path.is_empty() => path[..path.char_indices().last().unwrap().0].to_string(),
        _ => format!("y{}", path),
    };
    if let Some(k2) = keys(o, &p2, t, b, false) {
        o.bump("mutation:path");
        if k2 == k0 {
            o.notes.push(format!("FNV-1a collision between paths {} and {} on {}", hex(path.as_bytes()), hex(p2.as_bytes()), ts));
            o.bump("collision");
        }
    }
    // every single-node mutation changes the key
    let mut ms = Vec::new();
    mutations(t, r, &mut ms);
    for (kind, m) in ms {
        if m == *t {
            continue;
        }
        let k2 = match keys(o, &path, &m, m.borrowed(), false) {
            Some(k) => k,
            None => continue,
        };
        o.bump(&format!("mutation:{}", kind));
        if k2 != k0 {
            continue;
        }
        let (_, s0) = reference_key(&path, t);
        let (_, s1) = reference_key(&path, &m);
        let inp = format!("path {} {} -> [{}] {}", hex(path.as_bytes()), ts, kind, m);
        if s0 == s1 && kind.starts_with("swap_") {
            o.fail_known(F10, "changing the order of fields or variants changes the key", inp, hex(&k2), "a different key".into());
        } else if s0 == s1 {
            o.fail("a single-node change of the schema changes the key", inp, format!("same key {} (identical hash input)", hex(&k2)), "a different key".into());
        } else {
            o.notes.push(format!("FNV-1a collision: {}", inp));
            o.bump("collision");
        }
    }
}

pub fn run(a: &Args) {
    let mut o = Out::new(&a.cases);
    let mut r = Rng::new(a.seed);
    for i in 0..stree::PRIMS.len() {
        for t in [ST::P(i), ST::Opt(Box::new(ST::P(i))), ST::Seq(Box::new(ST::P(i))), ST::Tup(vec![ST::P(i)]), ST::Map(Box::new(ST::P(i)), Box::new(ST::P((i + 7) % 20)))] {
            let b = t.borrowed();
            check_tree(&mut o, &mut r, "every_kind", &t, b, true);
        }
    }
    o.exhaustive.push("all 20 leaf kinds alone and under Option, Seq, Tuple, Map".into());
    // the published API on concrete types: Key::for_path::<T> is the const hasher on T::SCHEMA
    macro_rules! api {
        ($($t:ty),*) => {$({
            use postcard_schema::Schema;
            let p = "some/path";
            let k = Key::for_path::<$t>(p).to_bytes();
            let h = fnv1a64::verif_hash_ty_path_static(p, <$t as Schema>::SCHEMA);
            o.eval(&("api", stringify!($t)), true);
            if k != h {
                o.fail("Key::for_path::<T> is the compile-time hasher on T::SCHEMA", stringify!($t).into(), hex(&k), hex(&h));
            }
            o.bump("api:for_path");
        })*};
    }
    api!(u8, i128, char, (), &str, Option<u16>, Result<u8, i8>, (u8, i16, bool), [u8; 4], &[u32], Vec<Option<String>>, DataModelType, Key);
    for (name, b) in stree::corpus() {
        let t = ST::from_owned(&postcard_schema::schema::owned::OwnedDataModelType::from(b));
        check_tree(&mut o, &mut r, "corpus", &t, b, true);
        o.sample(format!("{} = {}", name, t));
    }
    // the F10 witness itself and a near miss
    for (fa, fb) in [("G", "GG"), ("G", "GH")] {
        let t = ST::Struct("S".into(), SD::Struct(vec![(fa.into(), ST::P(18)), (fb.into(), ST::P(18))]));
        let b = t.borrowed();
        check_tree(&mut o, &mut r, "f10_shape", &t, b, true);
    }
    let n = if a.thorough { 20000 } else { 700 };
    let mut kinds = std::collections::BTreeMap::new();
    for i in 0..n {
        let t = stree::gen_tree(&mut r, 1 + (i % 4) as u32);
        t.kinds(&mut kinds);
        let b = t.borrowed();
        check_tree(&mut o, &mut r, "generated", &t, b, true);
        if i < 5 {
            o.sample(t.to_string());
        }
    }
    for (k, v) in kinds {
        o.bump_by(&k, v);
    }
    o.finish(&a.summary, "schema trees (every leaf kind alone and under each constructor, corpus types, random trees over all node and data kinds with random names, depth <= 4) x paths (empty, ASCII, multi-byte, 40-300 bytes); const hasher (cfg hook) vs run-time hasher vs independent FNV-1a over path ++ documented stream; every single-node mutation (leaf kind, node kind, data kind, rename field/variant, swap adjacent fields/variants/elements/key-val, path edit) and renaming of all type names; distinct = distinct (path, tree)");
}
