//! serde_json values for the dynamic-codec properties (C17, C18): text form shared with the
//! runner, schema of a DynVal shape, generators of type-correct / near-miss / unrelated JSON.
use crate::dynval::{hex, hexi, Ty, IK, NAMES};
use crate::prng::Rng;
use crate::stree::{SD, ST};
use serde_json::{Map, Number, Value};

pub fn show(j: &Value) -> String {
    match j {
        Value::Null => "null".into(),
        Value::Bool(b) => format!("(b {})", *b as u8),
        Value::Number(n) => {
            if let Some(u) = n.as_u64() {
                format!("(n {:x})", u)
            } else if let Some(i) = n.as_i64() {
                format!("(n {})", hexi(i as i128))
            } else {
                format!("(f {:x})", n.as_f64().unwrap().to_bits())
            }
        }
        Value::String(s) => format!("(s {})", hex(s.as_bytes())),
        Value::Array(l) => {
            let mut s = String::from("(a");
            for x in l {
                s.push(' ');
                s.push_str(&show(x));
            }
            s.push(')');
            s
        }
        Value::Object(m) => {
            let mut s = String::from("(o");
            for (k, v) in m {
                s.push_str(&format!(" ({} {})", hex(k.as_bytes()), show(v)));
            }
            s.push(')');
            s
        }
    }
}

fn prim(name: &str) -> ST {
    ST::P(crate::stree::PRIMS.iter().position(|x| *x == name).unwrap())
}

/// the schema a Rust type of this DynVal shape would declare (names as `Val`'s Serialize emits them)
pub fn schema_of_ty(t: &Ty) -> ST {
    let field = |i: usize| NAMES[i % 64].to_string();
    match t {
        Ty::Bool => prim("Bool"),
        Ty::Int(k) => prim(match k {
            IK::I8 => "I8",
            IK::I16 => "I16",
            IK::I32 => "I32",
            IK::I64 => "I64",
            IK::I128 => "I128",
            IK::U8 => "U8",
            IK::U16 => "U16",
            IK::U32 => "U32",
            IK::U64 => "U64",
            IK::U128 => "U128",
        }),
        Ty::USize => prim("Usize"),
        Ty::ISize => prim("Isize"),
        Ty::F32 => prim("F32"),
        Ty::F64 => prim("F64"),
        Ty::Char => prim("Char"),
        Ty::Str => prim("String"),
        Ty::Bytes => prim("ByteArray"),
        Ty::Unit => prim("Unit"),
        Ty::Option(x) => ST::Opt(Box::new(schema_of_ty(x))),
        Ty::Seq(x) => ST::Seq(Box::new(schema_of_ty(x))),
        Ty::Tuple(ts) => ST::Tup(ts.iter().map(schema_of_ty).collect()),
        Ty::Map(k, v) => ST::Map(Box::new(schema_of_ty(k)), Box::new(schema_of_ty(v))),
        Ty::UnitStruct => ST::Struct("U".into(), SD::Unit),
        Ty::Newtype(x) => ST::Struct("N".into(), SD::Newtype(Box::new(schema_of_ty(x)))),
        Ty::TupleStruct(ts) => ST::Struct("T".into(), SD::Tuple(ts.iter().map(schema_of_ty).collect())),
        Ty::Struct(ts) => ST::Struct("S".into(), SD::Struct(ts.iter().enumerate().map(|(i, t)| (field(i), schema_of_ty(t))).collect())),
        Ty::Enum(ps) => ST::Enum(
            "E".into(),
            ps.iter()
                .enumerate()
                .map(|(i, p)| {
                    let d = match p {
                        Ty::UnitStruct => SD::Unit,
                        Ty::Newtype(x) => SD::Newtype(Box::new(schema_of_ty(x))),
                        Ty::TupleStruct(ts) => SD::Tuple(ts.iter().map(schema_of_ty).collect()),
                        Ty::Struct(ts) => SD::Struct(ts.iter().enumerate().map(|(i, t)| (field(i), schema_of_ty(t))).collect()),
                        other => panic!("generator: bad variant payload shape {:?}", other),
                    };
                    (field(i), d)
                })
                .collect(),
        ),
    }
}

/// can a value of this schema be JSON null?
pub fn nullable(s: &ST) -> bool {
    match s {
        ST::P(i) => crate::stree::PRIMS[*i] == "Unit",
        ST::Opt(_) => true,
        ST::Struct(_, SD::Unit) => true,
        ST::Struct(_, SD::Newtype(t)) => nullable(t),
        _ => false,
    }
}

fn num_u(u: u64) -> Value {
    Value::Number(Number::from(u))
}
fn num_i(i: i64) -> Value {
    Value::Number(Number::from(i))
}

/// a JSON value the dynamic encoder should accept under this schema
pub fn gen_json(r: &mut Rng, s: &ST, depth: u32) -> Value {
    let small = |r: &mut Rng, bits: u32| -> u64 {
        match r.below(4) {
            0 => 0,
            1 => ((1u128 << bits) - 1) as u64,
            2 => r.next() & (((1u128 << bits) - 1) as u64),
            _ => r.below(300) & (((1u128 << bits) - 1) as u64),
        }
    };
    let signed = |r: &mut Rng, bits: u32| -> i64 {
        let m = small(r, bits);
        let v = (m >> 1) as i64;
        if m & 1 == 1 { -v - 1 } else { v }
    };
    match s {
        ST::P(i) => match crate::stree::PRIMS[*i] {
            "Bool" => Value::Bool(r.chance(1, 2)),
            "I8" => num_i(signed(r, 8)),
            "I16" => num_i(signed(r, 16)),
            "I32" => num_i(signed(r, 32)),
            "I64" | "I128" | "Isize" => num_i(signed(r, 64)),
            "U8" => num_u(small(r, 8)),
            "U16" => num_u(small(r, 16)),
            "U32" => num_u(small(r, 32)),
            "U64" | "U128" | "Usize" => num_u(small(r, 64)),
            "F32" => match r.below(4) {
                0 => Value::from(f32::from_bits(r.next() as u32 & 0x7f7f_ffff) as f64),
                1 => num_u(r.below(1 << 24)),
                2 => Value::from(1.5f64),
                _ => Value::from(f32::MAX as f64),
            },
            "F64" => match r.below(3) {
                0 => {
                    let f = f64::from_bits(r.next());
                    if f.is_finite() { Value::from(f) } else { Value::from(0.25) }
                }
                1 => num_i(signed(r, 64)),
                _ => Value::from(-1e300),
            },
            "Char" => Value::String(crate::gen::gen_char(r).to_string()),
            "String" => Value::String(String::from_utf8(crate::gen::gen_string(r, 12)).unwrap()),
            "ByteArray" => Value::Array((0..r.below(6)).map(|_| num_u(r.below(256))).collect()),
            "Unit" => Value::Null,
            _ => Value::Null, // Schema: nothing is accepted
        },
        ST::Opt(t) => {
            if r.chance(1, 3) {
                Value::Null
            } else {
                gen_json(r, t, depth)
            }
        }
        ST::Seq(t) => Value::Array((0..r.below(4)).map(|_| gen_json(r, t, depth)).collect()),
        ST::Tup(ts) => Value::Array(ts.iter().map(|t| gen_json(r, t, depth)).collect()),
        ST::Map(_, v) => {
            let mut m = Map::new();
            for _ in 0..r.below(4) {
                m.insert(String::from_utf8(crate::gen::gen_string(r, 6)).unwrap(), gen_json(r, v, depth));
            }
            Value::Object(m)
        }
        ST::Struct(_, d) => gen_data(r, d, depth),
        ST::Enum(_, vs) => {
            if vs.is_empty() {
                return Value::String("none".into());
            }
            let (n, d) = &vs[r.below(vs.len() as u64) as usize];
            match d {
                SD::Unit if r.chance(2, 3) => Value::String(n.clone()),
                _ => {
                    let mut m = Map::new();
                    m.insert(n.clone(), gen_data(r, d, depth));
                    Value::Object(m)
                }
            }
        }
    }
}
fn gen_data(r: &mut Rng, d: &SD, depth: u32) -> Value {
    match d {
        SD::Unit => Value::Null,
        SD::Newtype(t) => gen_json(r, t, depth),
        SD::Tuple(ts) => Value::Array(ts.iter().map(|t| gen_json(r, t, depth)).collect()),
        SD::Struct(fs) => {
            let mut m = Map::new();
            for (n, t) in fs {
                m.insert(n.clone(), gen_json(r, t, depth));
            }
            Value::Object(m)
        }
    }
}

/// any JSON value at all
pub fn gen_any(r: &mut Rng, depth: u32) -> Value {
    match r.below(if depth == 0 { 6 } else { 8 }) {
        0 => Value::Null,
        1 => Value::Bool(r.chance(1, 2)),
        2 => num_u(match r.below(3) { 0 => r.below(300), 1 => u64::MAX, _ => r.next() }),
        3 => num_i(-(r.below(1 << 40) as i64) - 1),
        4 => Value::from(match r.below(3) { 0 => 1e300, 1 => -0.5, _ => 3.0e38 }),
        5 => Value::String(match r.below(3) { 0 => String::new(), 1 => "hello".into(), _ => crate::stree::gen_name(r) }),
        6 => Value::Array((0..r.below(4)).map(|_| gen_any(r, depth - 1)).collect()),
        _ => {
            let mut m = Map::new();
            for _ in 0..r.below(4) {
                m.insert(crate::stree::gen_name(r), gen_any(r, depth - 1));
            }
            Value::Object(m)
        }
    }
}

/// one small change somewhere in the value
pub fn mutate(r: &mut Rng, j: &Value) -> Value {
    match j {
        Value::Array(l) if !l.is_empty() && r.chance(2, 3) => {
            let mut l = l.clone();
            match r.below(3) {
                0 => {
                    l.pop();
                }
                1 => l.push(gen_any(r, 1)),
                _ => {
                    let i = r.below(l.len() as u64) as usize;
                    l[i] = mutate(r, &l[i]);
                }
            }
            Value::Array(l)
        }
        Value::Object(m) if !m.is_empty() && r.chance(2, 3) => {
            let mut m = m.clone();
            let keys: Vec<String> = m.keys().cloned().collect();
            let k = keys[r.below(keys.len() as u64) as usize].clone();
            match r.below(4) {
                0 => {
                    m.remove(&k);
                }
                1 => {
                    m.insert(crate::stree::gen_name(r), gen_any(r, 1));
                }
                2 => {
                    let v = m.remove(&k).unwrap();
                    m.insert(format!("{}x", k), v);
                }
                _ => {
                    let v = mutate(r, &m[&k]);
                    m.insert(k, v);
                }
            }
            Value::Object(m)
        }
        Value::Number(n) if r.chance(1, 2) => match n.as_u64() {
            Some(u) => num_u(u.wrapping_mul(257).wrapping_add(1 << r.below(64))),
            None => Value::from(0.5),
        },
        _ => gen_any(r, 1),
    }
}
