//! Schema trees for the schema-side properties (C15, C16, C19): the harness's own tree type,
//! built independently into the borrowed (`&'static DataModelType`, leaked) and the owned
//! form, a generator over every node kind with random names, a text form shared with the
//! runner, and independent reference functions (wire bytes, key stream, nesting set).
use crate::prng::Rng;
use postcard_schema::schema::owned::{OwnedData, OwnedDataModelType, OwnedNamedField, OwnedVariant};
use postcard_schema::schema::{Data, DataModelType, NamedField, Variant};

pub const PRIMS: [&str; 20] = [
    "Bool", "I8", "U8", "I16", "I32", "I64", "I128", "U16", "U32", "U64", "U128", "Usize", "Isize", "F32", "F64", "Char", "String",
    "ByteArray", "Unit", "Schema",
];

#[derive(Clone, PartialEq, Eq, Debug, Hash, PartialOrd, Ord)]
pub enum ST {
    P(usize),
    Opt(Box<ST>),
    Seq(Box<ST>),
    Tup(Vec<ST>),
    Map(Box<ST>, Box<ST>),
    Struct(String, SD),
    Enum(String, Vec<(String, SD)>),
}
#[derive(Clone, PartialEq, Eq, Debug, Hash, PartialOrd, Ord)]
pub enum SD {
    Unit,
    Newtype(Box<ST>),
    Tuple(Vec<ST>),
    Struct(Vec<(String, ST)>),
}

fn leak<T>(x: T) -> &'static T {
    Box::leak(Box::new(x))
}
fn leak_str(s: &str) -> &'static str {
    Box::leak(s.to_string().into_boxed_str())
}

impl ST {
    pub fn borrowed_val(&self) -> DataModelType {
        match self {
            ST::P(i) => match PRIMS[*i] {
                "Bool" => DataModelType::Bool,
                "I8" => DataModelType::I8,
                "U8" => DataModelType::U8,
                "I16" => DataModelType::I16,
                "I32" => DataModelType::I32,
                "I64" => DataModelType::I64,
                "I128" => DataModelType::I128,
                "U16" => DataModelType::U16,
                "U32" => DataModelType::U32,
                "U64" => DataModelType::U64,
                "U128" => DataModelType::U128,
                "Usize" => DataModelType::Usize,
                "Isize" => DataModelType::Isize,
                "F32" => DataModelType::F32,
                "F64" => DataModelType::F64,
                "Char" => DataModelType::Char,
                "String" => DataModelType::String,
                "ByteArray" => DataModelType::ByteArray,
                "Unit" => DataModelType::Unit,
                _ => DataModelType::Schema,
            },
            ST::Opt(t) => DataModelType::Option(t.borrowed()),
            ST::Seq(t) => DataModelType::Seq(t.borrowed()),
            ST::Tup(ts) => DataModelType::Tuple(Box::leak(ts.iter().map(|t| t.borrowed()).collect::<Vec<_>>().into_boxed_slice())),
            ST::Map(k, v) => DataModelType::Map { key: k.borrowed(), val: v.borrowed() },
            ST::Struct(n, d) => DataModelType::Struct { name: leak_str(n), data: d.borrowed() },
            ST::Enum(n, vs) => DataModelType::Enum {
                name: leak_str(n),
                variants: Box::leak(vs.iter().map(|(vn, d)| leak(Variant { name: leak_str(vn), data: d.borrowed() })).collect::<Vec<_>>().into_boxed_slice()),
            },
        }
    }
    /// the compile-time form, leaked to `'static`
    pub fn borrowed(&self) -> &'static DataModelType {
        leak(self.borrowed_val())
    }
    /// the owned form, built directly (not through the crate's From conversion)
    pub fn owned(&self) -> OwnedDataModelType {
        use OwnedDataModelType as O;
        match self {
            ST::P(i) => match PRIMS[*i] {
                "Bool" => O::Bool,
                "I8" => O::I8,
                "U8" => O::U8,
                "I16" => O::I16,
                "I32" => O::I32,
                "I64" => O::I64,
                "I128" => O::I128,
                "U16" => O::U16,
                "U32" => O::U32,
                "U64" => O::U64,
                "U128" => O::U128,
                "Usize" => O::Usize,
                "Isize" => O::Isize,
                "F32" => O::F32,
                "F64" => O::F64,
                "Char" => O::Char,
                "String" => O::String,
                "ByteArray" => O::ByteArray,
                "Unit" => O::Unit,
                _ => O::Schema,
            },
            ST::Opt(t) => O::Option(Box::new(t.owned())),
            ST::Seq(t) => O::Seq(Box::new(t.owned())),
            ST::Tup(ts) => O::Tuple(ts.iter().map(|t| t.owned()).collect()),
            ST::Map(k, v) => O::Map { key: Box::new(k.owned()), val: Box::new(v.owned()) },
            ST::Struct(n, d) => O::Struct { name: n.as_str().into(), data: d.owned() },
            ST::Enum(n, vs) => O::Enum { name: n.as_str().into(), variants: vs.iter().map(|(vn, d)| OwnedVariant { name: vn.as_str().into(), data: d.owned() }).collect() },
        }
    }
    /// read an owned schema back into the harness's tree type
    pub fn from_owned(o: &OwnedDataModelType) -> ST {
        use OwnedDataModelType as O;
        let p = |n: &str| ST::P(PRIMS.iter().position(|x| *x == n).unwrap());
        match o {
            O::Bool => p("Bool"),
            O::I8 => p("I8"),
            O::U8 => p("U8"),
            O::I16 => p("I16"),
            O::I32 => p("I32"),
            O::I64 => p("I64"),
            O::I128 => p("I128"),
            O::U16 => p("U16"),
            O::U32 => p("U32"),
            O::U64 => p("U64"),
            O::U128 => p("U128"),
            O::Usize => p("Usize"),
            O::Isize => p("Isize"),
            O::F32 => p("F32"),
            O::F64 => p("F64"),
            O::Char => p("Char"),
            O::String => p("String"),
            O::ByteArray => p("ByteArray"),
            O::Unit => p("Unit"),
            O::Schema => p("Schema"),
            O::Option(t) => ST::Opt(Box::new(ST::from_owned(t))),
            O::Seq(t) => ST::Seq(Box::new(ST::from_owned(t))),
            O::Tuple(ts) => ST::Tup(ts.iter().map(ST::from_owned).collect()),
            O::Map { key, val } => ST::Map(Box::new(ST::from_owned(key)), Box::new(ST::from_owned(val))),
            O::Struct { name, data } => ST::Struct(name.to_string(), SD::from_owned(data)),
            O::Enum { name, variants } => ST::Enum(name.to_string(), variants.iter().map(|v| (v.name.to_string(), SD::from_owned(&v.data))).collect()),
        }
    }
    pub fn depth(&self) -> usize {
        match self {
            ST::P(_) => 0,
            ST::Opt(t) | ST::Seq(t) => 1 + t.depth(),
            ST::Tup(ts) => 1 + ts.iter().map(|t| t.depth()).max().unwrap_or(0),
            ST::Map(k, v) => 1 + k.depth().max(v.depth()),
            ST::Struct(_, d) => 1 + d.depth(),
            ST::Enum(_, vs) => 1 + vs.iter().map(|(_, d)| d.depth()).max().unwrap_or(0),
        }
    }
    pub fn nodes(&self) -> usize {
        match self {
            ST::P(_) => 1,
            ST::Opt(t) | ST::Seq(t) => 1 + t.nodes(),
            ST::Tup(ts) => 1 + ts.iter().map(|t| t.nodes()).sum::<usize>(),
            ST::Map(k, v) => 1 + k.nodes() + v.nodes(),
            ST::Struct(_, d) => 1 + d.nodes(),
            ST::Enum(_, vs) => 1 + vs.iter().map(|(_, d)| d.nodes()).sum::<usize>(),
        }
    }
    pub fn kinds(&self, h: &mut std::collections::BTreeMap<String, u64>) {
        let mut bump = |k: &str| *h.entry(format!("node:{}", k)).or_insert(0) += 1;
        match self {
            ST::P(i) => bump(PRIMS[*i]),
            ST::Opt(t) => {
                bump("Option");
                t.kinds(h)
            }
            ST::Seq(t) => {
                bump("Seq");
                t.kinds(h)
            }
            ST::Tup(ts) => {
                bump("Tuple");
                ts.iter().for_each(|t| t.kinds(h))
            }
            ST::Map(k, v) => {
                bump("Map");
                k.kinds(h);
                v.kinds(h)
            }
            ST::Struct(_, d) => {
                bump("Struct");
                d.kinds(h)
            }
            ST::Enum(_, vs) => {
                bump("Enum");
                vs.iter().for_each(|(_, d)| d.kinds(h))
            }
        }
    }
}
impl SD {
    pub fn borrowed(&self) -> Data {
        match self {
            SD::Unit => Data::Unit,
            SD::Newtype(t) => Data::Newtype(t.borrowed()),
            SD::Tuple(ts) => Data::Tuple(Box::leak(ts.iter().map(|t| t.borrowed()).collect::<Vec<_>>().into_boxed_slice())),
            SD::Struct(fs) => Data::Struct(Box::leak(fs.iter().map(|(n, t)| leak(NamedField { name: leak_str(n), ty: t.borrowed() })).collect::<Vec<_>>().into_boxed_slice())),
        }
    }
    pub fn owned(&self) -> OwnedData {
        match self {
            SD::Unit => OwnedData::Unit,
            SD::Newtype(t) => OwnedData::Newtype(Box::new(t.owned())),
            SD::Tuple(ts) => OwnedData::Tuple(ts.iter().map(|t| t.owned()).collect()),
            SD::Struct(fs) => OwnedData::Struct(fs.iter().map(|(n, t)| OwnedNamedField { name: n.as_str().into(), ty: t.owned() }).collect()),
        }
    }
    pub fn from_owned(d: &OwnedData) -> SD {
        match d {
            OwnedData::Unit => SD::Unit,
            OwnedData::Newtype(t) => SD::Newtype(Box::new(ST::from_owned(t))),
            OwnedData::Tuple(ts) => SD::Tuple(ts.iter().map(ST::from_owned).collect()),
            OwnedData::Struct(fs) => SD::Struct(fs.iter().map(|f| (f.name.to_string(), ST::from_owned(&f.ty))).collect()),
        }
    }
    pub fn depth(&self) -> usize {
        match self {
            SD::Unit => 0,
            SD::Newtype(t) => t.depth(),
            SD::Tuple(ts) => ts.iter().map(|t| t.depth()).max().unwrap_or(0),
            SD::Struct(fs) => fs.iter().map(|(_, t)| t.depth()).max().unwrap_or(0),
        }
    }
    pub fn nodes(&self) -> usize {
        match self {
            SD::Unit => 0,
            SD::Newtype(t) => t.nodes(),
            SD::Tuple(ts) => ts.iter().map(|t| t.nodes()).sum(),
            SD::Struct(fs) => fs.iter().map(|(_, t)| t.nodes()).sum(),
        }
    }
    pub fn kinds(&self, h: &mut std::collections::BTreeMap<String, u64>) {
        let k = match self {
            SD::Unit => "data:Unit",
            SD::Newtype(_) => "data:Newtype",
            SD::Tuple(_) => "data:Tuple",
            SD::Struct(_) => "data:Struct",
        };
        *h.entry(k.to_string()).or_insert(0) += 1;
        match self {
            SD::Unit => {}
            SD::Newtype(t) => t.kinds(h),
            SD::Tuple(ts) => ts.iter().for_each(|t| t.kinds(h)),
            SD::Struct(fs) => fs.iter().for_each(|(_, t)| t.kinds(h)),
        }
    }
}

// ---------- text form (shared with runner/util.ml) ----------
pub fn xname(s: &str) -> String {
    let mut o = String::from("x");
    for b in s.as_bytes() {
        o.push_str(&format!("{:02x}", b));
    }
    o
}
impl std::fmt::Display for ST {
    fn fmt(&self, f: &mut std::fmt::Formatter<'_>) -> std::fmt::Result {
        match self {
            ST::P(i) => write!(f, "{}", PRIMS[*i]),
            ST::Opt(t) => write!(f, "(opt {})", t),
            ST::Seq(t) => write!(f, "(seq {})", t),
            ST::Tup(ts) => {
                write!(f, "(tup")?;
                for t in ts {
                    write!(f, " {}", t)?;
                }
                write!(f, ")")
            }
            ST::Map(k, v) => write!(f, "(map {} {})", k, v),
            ST::Struct(n, d) => write!(f, "(struct {} {})", xname(n), d),
            ST::Enum(n, vs) => {
                write!(f, "(enum {}", xname(n))?;
                for (vn, d) in vs {
                    write!(f, " ({} {})", xname(vn), d)?;
                }
                write!(f, ")")
            }
        }
    }
}
impl std::fmt::Display for SD {
    fn fmt(&self, f: &mut std::fmt::Formatter<'_>) -> std::fmt::Result {
        match self {
            SD::Unit => write!(f, "U"),
            SD::Newtype(t) => write!(f, "(N {})", t),
            SD::Tuple(ts) => {
                write!(f, "(T")?;
                for t in ts {
                    write!(f, " {}", t)?;
                }
                write!(f, ")")
            }
            SD::Struct(fs) => {
                write!(f, "(S")?;
                for (n, t) in fs {
                    write!(f, " ({} {})", xname(n), t)?;
                }
                write!(f, ")")
            }
        }
    }
}

// ---------- generator ----------
pub fn gen_name(r: &mut Rng) -> String {
    // includes what derive(Schema) records for raw identifiers (`r#type`), names with
    // leading / trailing punctuation and white space, and look-alikes of Rust paths
    const ASCII: [&str; 22] = ["a", "b", "x", "id", "G", "GG", "name", "ty", "data", "Foo", "field_1", "A_long_identifier_name",
        "r#type", "r#", "r#match", "_", "__x", " a", "a ", "a::b", "T<U>", "0"];
    const MULTI: [&str; 6] = ["é", "名前", "π2", "ж", "𝔘", "a\u{0301}"];
    match r.below(10) {
        0 => String::new(),
        1 | 2 => MULTI[r.below(MULTI.len() as u64) as usize].to_string(),
        3 => {
            // raw bytes that also occur as tag bytes of the key stream
            let tags = ["G", "=", "%", "e", "m", "O", "\u{7f}", "\u{5}", "\u{3}"];
            (0..r.range(1, 3)).map(|_| tags[r.below(tags.len() as u64) as usize]).collect()
        }
        4 => (0..r.range(1, 8)).map(|_| (b'a' + r.below(26) as u8) as char).collect(),
        _ => ASCII[r.below(ASCII.len() as u64) as usize].to_string(),
    }
}
pub fn gen_data(r: &mut Rng, depth: u32) -> SD {
    match r.below(4) {
        0 => SD::Unit,
        1 => SD::Newtype(Box::new(gen_tree(r, depth))),
        2 => SD::Tuple((0..r.below(4)).map(|_| gen_tree(r, depth)).collect()),
        _ => SD::Struct((0..r.below(4)).map(|_| (gen_name(r), gen_tree(r, depth))).collect()),
    }
}
pub fn gen_tree(r: &mut Rng, depth: u32) -> ST {
    if depth == 0 || r.chance(2, 5) {
        return ST::P(r.below(PRIMS.len() as u64) as usize);
    }
    let d = depth - 1;
    match r.below(6) {
        0 => ST::Opt(Box::new(gen_tree(r, d))),
        1 => ST::Seq(Box::new(gen_tree(r, d))),
        2 => ST::Tup((0..r.below(4)).map(|_| gen_tree(r, d)).collect()),
        3 => ST::Map(Box::new(gen_tree(r, d)), Box::new(gen_tree(r, d))),
        4 => ST::Struct(gen_name(r), gen_data(r, d)),
        _ => ST::Enum(gen_name(r), (0..r.below(4)).map(|_| (gen_name(r), gen_data(r, d))).collect()),
    }
}

/// the schemas of a corpus of concrete types (what `T::SCHEMA` really looks like)
pub fn corpus() -> Vec<(&'static str, &'static DataModelType)> {
    use postcard_schema::Schema;
    #[derive(Schema)]
    #[allow(dead_code)]
    struct Point {
        x: i32,
        y: i32,
    }
    #[derive(Schema)]
    #[allow(dead_code)]
    enum Shape<'a> {
        Empty,
        Dot(Point),
        Line(Point, Point),
        Named { label: &'a str, at: Point, tags: &'a [u8] },
    }
    #[derive(Schema)]
    #[allow(dead_code)]
    struct Wrapper<T>(T);
    #[derive(Schema)]
    #[allow(dead_code)]
    struct UnitS;
    vec![
        ("u8", <u8 as Schema>::SCHEMA),
        ("i128", <i128 as Schema>::SCHEMA),
        ("char", <char as Schema>::SCHEMA),
        ("()", <() as Schema>::SCHEMA),
        ("&str", <&str as Schema>::SCHEMA),
        ("Option<u16>", <Option<u16> as Schema>::SCHEMA),
        ("Result<u8,i8>", <Result<u8, i8> as Schema>::SCHEMA),
        ("(u8,i16,bool)", <(u8, i16, bool) as Schema>::SCHEMA),
        ("[u8;4]", <[u8; 4] as Schema>::SCHEMA),
        ("&[u32]", <&[u32] as Schema>::SCHEMA),
        ("Vec<Option<String>>", <Vec<Option<String>> as Schema>::SCHEMA),
        ("BTreeMap<String,u8>", <std::collections::BTreeMap<String, u8> as Schema>::SCHEMA),
        ("Point", <Point as Schema>::SCHEMA),
        ("Shape", <Shape as Schema>::SCHEMA),
        ("Wrapper<Point>", <Wrapper<Point> as Schema>::SCHEMA),
        ("UnitS", <UnitS as Schema>::SCHEMA),
        ("DataModelType", <DataModelType as Schema>::SCHEMA),
        ("OwnedDataModelType", <OwnedDataModelType as Schema>::SCHEMA),
        ("Key", <postcard_schema::key::Key as Schema>::SCHEMA),
    ]
}

// ---------- independent references ----------
fn varint(mut n: u64, out: &mut Vec<u8>) {
    loop {
        let b = (n & 0x7f) as u8;
        n >>= 7;
        if n == 0 {
            out.push(b);
            return;
        }
        out.push(b | 0x80);
    }
}
fn wstr(s: &str, out: &mut Vec<u8>) {
    varint(s.len() as u64, out);
    out.extend_from_slice(s.as_bytes());
}
impl ST {
    /// the postcard encoding of the schema as a value of the (Owned)DataModelType enum, written
    /// from the documentation of the enum (variant index = declaration order, 0-based)
    pub fn wire(&self, out: &mut Vec<u8>) {
        match self {
            // declaration order: the 18 scalar kinds, Option, Unit, Seq, Tuple, Map, Struct, Enum, Schema
            ST::P(i) => {
                let idx = match PRIMS[*i] {
                    "Unit" => 19,
                    "Schema" => 25,
                    _ => *i as u64,
                };
                varint(idx, out)
            }
            ST::Opt(t) => {
                varint(18, out);
                t.wire(out)
            }
            ST::Seq(t) => {
                varint(20, out);
                t.wire(out)
            }
            ST::Tup(ts) => {
                varint(21, out);
                varint(ts.len() as u64, out);
                ts.iter().for_each(|t| t.wire(out))
            }
            ST::Map(k, v) => {
                varint(22, out);
                k.wire(out);
                v.wire(out)
            }
            ST::Struct(n, d) => {
                varint(23, out);
                wstr(n, out);
                d.wire(out)
            }
            ST::Enum(n, vs) => {
                varint(24, out);
                wstr(n, out);
                varint(vs.len() as u64, out);
                for (vn, d) in vs {
                    wstr(vn, out);
                    d.wire(out)
                }
            }
        }
    }
    /// documented key stream: tag bytes ("shuffled primes") and names, no type names
    pub fn stream(&self, out: &mut Vec<u8>) {
        const PRIM_TAGS: [u8; 20] = [17, 197, 61, 29, 13, 11, 2, 131, 211, 19, 139, 107, 173, 239, 113, 193, 37, 101, 71, 229];
        match self {
            ST::P(i) => out.push(PRIM_TAGS[*i]),
            ST::Opt(t) => {
                out.push(109);
                t.stream(out)
            }
            ST::Seq(t) => {
                out.push(3);
                t.stream(out)
            }
            ST::Tup(ts) => {
                out.push(167);
                ts.iter().for_each(|t| t.stream(out))
            }
            ST::Map(k, v) => {
                out.push(79);
                k.stream(out);
                v.stream(out)
            }
            ST::Struct(_, d) => d.stream([191, 157, 5, 127], out),
            ST::Enum(_, vs) => {
                out.push(233);
                for (vn, d) in vs {
                    out.extend_from_slice(vn.as_bytes());
                    d.stream([181, 223, 199, 103], out)
                }
            }
        }
    }
    /// the schema itself and every schema nested anywhere inside it
    pub fn subtrees(&self, out: &mut std::collections::BTreeSet<ST>) {
        out.insert(self.clone());
        match self {
            ST::P(_) => {}
            ST::Opt(t) | ST::Seq(t) => t.subtrees(out),
            ST::Tup(ts) => ts.iter().for_each(|t| t.subtrees(out)),
            ST::Map(k, v) => {
                k.subtrees(out);
                v.subtrees(out)
            }
            ST::Struct(_, d) => d.subtrees(out),
            ST::Enum(_, vs) => vs.iter().for_each(|(_, d)| d.subtrees(out)),
        }
    }
}
impl SD {
    pub fn wire(&self, out: &mut Vec<u8>) {
        match self {
            SD::Unit => varint(0, out),
            SD::Newtype(t) => {
                varint(1, out);
                t.wire(out)
            }
            SD::Tuple(ts) => {
                varint(2, out);
                varint(ts.len() as u64, out);
                ts.iter().for_each(|t| t.wire(out))
            }
            SD::Struct(fs) => {
                varint(3, out);
                varint(fs.len() as u64, out);
                for (n, t) in fs {
                    wstr(n, out);
                    t.wire(out)
                }
            }
        }
    }
    pub fn stream(&self, tags: [u8; 4], out: &mut Vec<u8>) {
        match self {
            SD::Unit => out.push(tags[0]),
            SD::Newtype(t) => {
                out.push(tags[1]);
                t.stream(out)
            }
            SD::Tuple(ts) => {
                out.push(tags[2]);
                ts.iter().for_each(|t| t.stream(out))
            }
            SD::Struct(fs) => {
                out.push(tags[3]);
                for (n, t) in fs {
                    out.extend_from_slice(n.as_bytes());
                    t.stream(out)
                }
            }
        }
    }
    pub fn subtrees(&self, out: &mut std::collections::BTreeSet<ST>) {
        match self {
            SD::Unit => {}
            SD::Newtype(t) => t.subtrees(out),
            SD::Tuple(ts) => ts.iter().for_each(|t| t.subtrees(out)),
            SD::Struct(fs) => fs.iter().for_each(|(_, t)| t.subtrees(out)),
        }
    }
}
