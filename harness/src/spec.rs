//! An independent encoder and decoder written from spec/src/wire-format.md with plain
//! arithmetic (div/mod, no shifts or masks taken from the implementation).  These are the
//! direct oracles for C02 and C03; they share nothing with postcard or with the Coq model.
use crate::dynval::{Ty, Val, IK};

pub fn varint(mut n: u128, out: &mut Vec<u8>) {
    loop {
        let low = (n % 128) as u8;
        n /= 128;
        if n == 0 {
            out.push(low);
            return;
        }
        out.push(low + 128);
    }
}
pub fn zigzag(z: i128) -> u128 {
    if z >= 0 {
        2 * (z as u128)
    } else {
        // -2z - 1, computed without overflow for i128::MIN
        2 * ((-(z + 1)) as u128) + 1
    }
}
pub fn unzigzag(n: u128) -> i128 {
    if n % 2 == 0 {
        (n / 2) as i128
    } else {
        -((n / 2) as i128) - 1
    }
}
fn utf8_of_char(c: char) -> Vec<u8> {
    let c = c as u32;
    if c < 0x80 {
        vec![c as u8]
    } else if c < 0x800 {
        vec![(192 + c / 64) as u8, (128 + c % 64) as u8]
    } else if c < 0x10000 {
        vec![(224 + c / 4096) as u8, (128 + c / 64 % 64) as u8, (128 + c % 64) as u8]
    } else {
        vec![(240 + c / 262144) as u8, (128 + c / 4096 % 64) as u8, (128 + c / 64 % 64) as u8, (128 + c % 64) as u8]
    }
}
fn le(mut n: u128, bytes: usize, out: &mut Vec<u8>) {
    for _ in 0..bytes {
        out.push((n % 256) as u8);
        n /= 256;
    }
}

/// None: the specification refuses (length unknown)
pub fn encode(v: &Val, out: &mut Vec<u8>) -> Option<()> {
    match v {
        Val::Bool(b) => out.push(*b as u8),
        Val::Int(k, z, u) => match k {
            IK::U8 => out.push(*u as u8),
            IK::I8 => out.push(((*z + 256) % 256) as u8),
            _ if k.signed() => varint(zigzag(*z), out),
            _ => varint(*u, out),
        },
        Val::USize(u) => varint(*u as u128, out),
        Val::ISize(z) => varint(zigzag(*z as i128), out),
        Val::F32(b) => le(*b as u128, 4, out),
        Val::F64(b) => le(*b as u128, 8, out),
        Val::Char(c) => {
            let b = utf8_of_char(*c);
            varint(b.len() as u128, out);
            out.extend_from_slice(&b);
        }
        Val::Str(b) | Val::Bytes(b) => {
            varint(b.len() as u128, out);
            out.extend_from_slice(b);
        }
        Val::None => out.push(0),
        Val::Some(x) => {
            out.push(1);
            encode(x, out)?;
        }
        Val::Unit | Val::UnitStruct => {}
        Val::Newtype(x) => encode(x, out)?,
        Val::Seq(xs) => {
            varint(xs.len() as u128, out);
            for x in xs {
                encode(x, out)?;
            }
        }
        Val::Tuple(xs) | Val::TupleStruct(xs) | Val::Struct(xs) => {
            for x in xs {
                encode(x, out)?;
            }
        }
        Val::Map(kvs) => {
            varint(kvs.len() as u128, out);
            for (k, x) in kvs {
                encode(k, out)?;
                encode(x, out)?;
            }
        }
        Val::Variant(i, p) => {
            varint(*i as u128, out);
            encode(p, out)?;
        }
        Val::SeqNoLen(_) | Val::MapNoLen(_) => return None,
        Val::CollectStr(ps) => {
            let total: usize = ps.iter().map(|p| p.len()).sum();
            varint(total as u128, out);
            for p in ps {
                out.extend_from_slice(p);
            }
        }
    }
    Some(())
}

#[derive(Debug, PartialEq, Eq, Clone, Copy)]
pub enum DErr {
    UnexpectedEnd,
    BadVarint,
    BadBool,
    BadChar,
    BadUtf8,
    BadOption,
    /// variant index not declared by the enum: serde's custom error
    Custom,
}
impl DErr {
    pub fn name(self) -> &'static str {
        match self {
            DErr::UnexpectedEnd => "err:DeserializeUnexpectedEnd",
            DErr::BadVarint => "err:DeserializeBadVarint",
            DErr::BadBool => "err:DeserializeBadBool",
            DErr::BadChar => "err:DeserializeBadChar",
            DErr::BadUtf8 => "err:DeserializeBadUtf8",
            DErr::BadOption => "err:DeserializeBadOption",
            DErr::Custom => "err:SerdeDeCustom",
        }
    }
}

/// a varint of at most ceil(bits/7) groups whose value is below 2^bits
pub fn read_varint(bits: u32, inp: &[u8], pos: &mut usize) -> Result<u128, DErr> {
    let max_groups = (bits as usize + 6) / 7;
    let mut groups: Vec<u8> = Vec::new();
    loop {
        if groups.len() == max_groups {
            return Err(DErr::BadVarint); // a continuation flag on the last permitted group
        }
        let b = *inp.get(*pos).ok_or(DErr::UnexpectedEnd)?;
        *pos += 1;
        groups.push(b % 128);
        if b < 128 {
            break;
        }
    }
    // value = sum g_i * 128^i; must be < 2^bits
    if groups.len() == max_groups {
        let top_bits = bits as usize - 7 * (max_groups - 1);
        let last = *groups.last().unwrap() as u32;
        if top_bits < 7 && last >= (1u32 << top_bits) {
            return Err(DErr::BadVarint);
        }
    }
    let mut v: u128 = 0;
    for g in groups.iter().rev() {
        v = v * 128 + *g as u128;
    }
    Ok(v)
}
fn take<'a>(n: u128, inp: &'a [u8], pos: &mut usize) -> Result<&'a [u8], DErr> {
    if ((inp.len() - *pos) as u128) < n {
        return Err(DErr::UnexpectedEnd);
    }
    let n = n as usize;
    let s = &inp[*pos..*pos + n];
    *pos += n;
    Ok(s)
}
fn from_le(b: &[u8]) -> u128 {
    let mut v = 0u128;
    for x in b.iter().rev() {
        v = v * 256 + *x as u128;
    }
    v
}

pub fn decode(t: &Ty, inp: &[u8], pos: &mut usize) -> Result<Val, DErr> {
    Ok(match t {
        Ty::Bool => match take(1, inp, pos)?[0] {
            0 => Val::Bool(false),
            1 => Val::Bool(true),
            _ => return Err(DErr::BadBool),
        },
        Ty::Int(IK::U8) => Val::unsigned(IK::U8, take(1, inp, pos)?[0] as u128),
        Ty::Int(IK::I8) => {
            let b = take(1, inp, pos)?[0] as i128;
            Val::signed(IK::I8, if b >= 128 { b - 256 } else { b })
        }
        Ty::Int(k) => {
            let n = read_varint(k.bits(), inp, pos)?;
            if k.signed() {
                Val::signed(*k, unzigzag(n))
            } else {
                Val::unsigned(*k, n)
            }
        }
        Ty::USize => Val::USize(read_varint(64, inp, pos)? as u64),
        Ty::ISize => Val::ISize(unzigzag(read_varint(64, inp, pos)?) as i64),
        Ty::F32 => Val::F32(from_le(take(4, inp, pos)?) as u32),
        Ty::F64 => Val::F64(from_le(take(8, inp, pos)?) as u64),
        Ty::Char => {
            let n = read_varint(64, inp, pos)?;
            if n > 4 {
                return Err(DErr::BadChar);
            }
            let b = take(n, inp, pos)?;
            let s = std::str::from_utf8(b).map_err(|_| DErr::BadChar)?;
            let mut it = s.chars();
            match (it.next(), it.next()) {
                (Some(c), None) => Val::Char(c),
                _ => return Err(DErr::BadChar),
            }
        }
        Ty::Str => {
            let n = read_varint(64, inp, pos)?;
            let b = take(n, inp, pos)?;
            std::str::from_utf8(b).map_err(|_| DErr::BadUtf8)?;
            Val::Str(b.to_vec())
        }
        Ty::Bytes => {
            let n = read_varint(64, inp, pos)?;
            Val::Bytes(take(n, inp, pos)?.to_vec())
        }
        Ty::Option(t) => match take(1, inp, pos)?[0] {
            0 => Val::None,
            1 => Val::Some(Box::new(decode(t, inp, pos)?)),
            _ => return Err(DErr::BadOption),
        },
        Ty::Unit => Val::Unit,
        Ty::UnitStruct => Val::UnitStruct,
        Ty::Newtype(t) => Val::Newtype(Box::new(decode(t, inp, pos)?)),
        Ty::Seq(t) => {
            let n = read_varint(64, inp, pos)?;
            let mut out = Vec::new();
            for _ in 0..n {
                out.push(decode(t, inp, pos)?);
            }
            Val::Seq(out)
        }
        Ty::Tuple(ts) => Val::Tuple(fields(ts, inp, pos)?),
        Ty::TupleStruct(ts) => Val::TupleStruct(fields(ts, inp, pos)?),
        Ty::Struct(ts) => Val::Struct(fields(ts, inp, pos)?),
        Ty::Map(k, v) => {
            let n = read_varint(64, inp, pos)?;
            let mut out = Vec::new();
            for _ in 0..n {
                let key = decode(k, inp, pos)?;
                let val = decode(v, inp, pos)?;
                out.push((key, val));
            }
            Val::Map(out)
        }
        Ty::Enum(vs) => {
            let i = read_varint(32, inp, pos)?;
            let t = vs.get(i as usize).ok_or(DErr::Custom)?;
            Val::Variant(i as u32, Box::new(decode(t, inp, pos)?))
        }
    })
}
fn fields(ts: &[Ty], inp: &[u8], pos: &mut usize) -> Result<Vec<Val>, DErr> {
    let mut out = Vec::new();
    for t in ts {
        out.push(decode(t, inp, pos)?);
    }
    Ok(out)
}

/// true when every sequence/map element type in t occupies at least one byte on the wire
pub fn zero_width(t: &Ty) -> bool {
    match t {
        Ty::Unit | Ty::UnitStruct => true,
        Ty::Newtype(t) => zero_width(t),
        Ty::Tuple(ts) | Ty::TupleStruct(ts) | Ty::Struct(ts) => ts.iter().all(zero_width),
        _ => false,
    }
}
pub fn has_zero_width_collection(t: &Ty) -> bool {
    match t {
        Ty::Seq(e) => zero_width(e) || has_zero_width_collection(e),
        Ty::Map(k, v) => (zero_width(k) && zero_width(v)) || has_zero_width_collection(k) || has_zero_width_collection(v),
        Ty::Option(t) | Ty::Newtype(t) => has_zero_width_collection(t),
        Ty::Tuple(ts) | Ty::TupleStruct(ts) | Ty::Struct(ts) | Ty::Enum(ts) => ts.iter().any(has_zero_width_collection),
        _ => false,
    }
}
