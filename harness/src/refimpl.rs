//! Independent reference implementations used as direct oracles: COBS (as postcard frames
//! it), the bitwise Rocksoft CRC, FNV-1a.  Nothing here is taken from the crates under test.

/// COBS of m as the `cobs` crate's streaming encoder produces it: blocks of up to 254
/// non-zero bytes; a full block (code 0xFF) is always followed by another code byte, even
/// at the end of the message.  No sentinel.
pub fn cobs_encode(m: &[u8]) -> Vec<u8> {
    let mut out = Vec::new();
    let mut block: Vec<u8> = Vec::new();
    for &b in m {
        if b == 0 {
            out.push(block.len() as u8 + 1);
            out.append(&mut block);
        } else {
            block.push(b);
            if block.len() == 254 {
                out.push(0xFF);
                out.append(&mut block);
            }
        }
    }
    out.push(block.len() as u8 + 1);
    out.append(&mut block);
    out
}

/// standard COBS decoding of one frame (no zero bytes inside): None when a code byte points
/// past the end of the frame
pub fn cobs_decode(frame: &[u8]) -> Option<Vec<u8>> {
    let mut out = Vec::new();
    let mut i = 0;
    while i < frame.len() {
        let code = frame[i] as usize;
        if code == 0 {
            return None;
        }
        if i + code > frame.len() {
            return None;
        }
        out.extend_from_slice(&frame[i + 1..i + code]);
        i += code;
        if code != 0xFF && i < frame.len() {
            out.push(0);
        }
    }
    Some(out)
}

#[derive(Clone, Copy, Debug)]
pub struct Alg {
    pub width: u32,
    pub poly: u128,
    pub init: u128,
    pub refin: bool,
    pub refout: bool,
    pub xorout: u128,
    pub name: &'static str,
}
impl Alg {
    pub fn spec(&self) -> String {
        format!("{}:{:x}:{:x}:{}:{}:{:x}", self.width, self.poly, self.init, self.refin as u8, self.refout as u8, self.xorout)
    }
    pub fn nbytes(&self) -> usize {
        match self.width {
            0..=8 => 1,
            9..=16 => 2,
            17..=32 => 4,
            33..=64 => 8,
            _ => 16,
        }
    }
}
fn reflect(v: u128, bits: u32) -> u128 {
    let mut r = 0u128;
    for i in 0..bits {
        if v >> i & 1 == 1 {
            r |= 1 << (bits - 1 - i);
        }
    }
    r
}
/// bit-at-a-time CRC, Rocksoft model
pub fn crc_bitwise(a: &Alg, data: &[u8]) -> u128 {
    let mask: u128 = if a.width == 128 { u128::MAX } else { (1u128 << a.width) - 1 };
    let top: u128 = 1u128 << (a.width - 1);
    let mut reg = a.init & mask;
    for &byte in data {
        let b = if a.refin { reflect(byte as u128, 8) as u8 } else { byte };
        for i in (0..8).rev() {
            let bit = (b >> i) & 1 == 1;
            let t = reg & top != 0;
            reg = (reg << 1) & mask;
            if t != bit {
                reg ^= a.poly;
            }
        }
    }
    if a.refout {
        reg = reflect(reg, a.width);
    }
    (reg ^ a.xorout) & mask
}

pub fn fnv1a64(data: &[u8]) -> u64 {
    let mut h: u64 = 0xcbf29ce484222325;
    for b in data {
        h ^= *b as u64;
        h = h.wrapping_mul(0x100000001b3);
    }
    h
}
