//! pvh: runs the real postcard crates on generated inputs, evaluates each property's
//! direct oracle on the implementation and writes the cases for the model comparison.
mod crcs;
mod dynval;
mod mem;
mod refimpl;
mod gen;
mod out;
mod prng;
mod spec;
mod stree;
mod capture;
mod corp;
mod corp_gen;
mod jsonv;
mod sty;
mod props;

use std::collections::HashMap;

pub struct Args {
    pub prop: String,
    pub seed: u64,
    pub thorough: bool,
    pub cases: String,
    pub summary: String,
    pub replay: Option<String>,
    pub extra: HashMap<String, String>,
}

#[global_allocator]
static GLOBAL: mem::Counting = mem::Counting;

fn main() {
    let mut it = std::env::args().skip(1);
    let prop = it.next().expect("usage: pvh <property> [--seed N] [--tier quick|thorough] --cases F --summary F");
    let mut a = Args {
        prop,
        seed: 1,
        thorough: false,
        cases: "cases.txt".into(),
        summary: "summary.json".into(),
        replay: None,
        extra: HashMap::new(),
    };
    while let Some(k) = it.next() {
        let v = it.next().unwrap_or_default();
        match k.as_str() {
            "--seed" => a.seed = v.parse().expect("seed"),
            "--tier" => a.thorough = v == "thorough",
            "--cases" => a.cases = v,
            "--summary" => a.summary = v,
            "--replay" => a.replay = Some(v),
            other => {
                a.extra.insert(other.trim_start_matches("--").to_string(), v);
            }
        }
    }
    assert_eq!(std::mem::size_of::<usize>(), 8, "the model fixes usize to 64 bits");
    // a panic inside the implementation is an observation, not a harness crash
    std::panic::set_hook(Box::new(|_| {}));
    props::run(&a);
}
