//! The corpus of concrete types for C12 (MaxSize): each type describes itself as a model type
//! expression and offers candidate values, the maximising ones first.  Derived types use the
//! WORKSPACE derive (source/postcard-derive), not the registry copy postcard re-exports.
use crate::prng::Rng;
use core::marker::PhantomData;
use core::num::*;
use core::ops::{Range, RangeFrom, RangeInclusive, RangeTo};
use postcard::experimental::max_size::MaxSize;
use serde::Serialize;

pub use crate::corp_gen::{E127, E128, E129};

pub trait Corp: MaxSize + Serialize + Clone {
    fn mty() -> String;
    fn cands(r: &mut Rng) -> Vec<Self>;
    /// the property claims the maximum is attained for this type
    fn tight() -> bool;
}

macro_rules! ints {
    ($($t:ty => $m:expr;)*) => {$(
        impl Corp for $t {
            fn mty() -> String { $m.into() }
            fn cands(r: &mut Rng) -> Vec<Self> {
                vec![<$t>::MAX, <$t>::MIN, 0, 1, (<$t>::MAX / 2) + 1, <$t>::MAX / 2, r.u128() as $t, (r.u128() as $t) >> (r.below(<$t>::BITS as u64) as u32), 127, 128 as u8 as $t]
            }
            fn tight() -> bool { true }
        }
    )*};
}
ints! {
    u8 => "(int u8)"; u16 => "(int u16)"; u32 => "(int u32)"; u64 => "(int u64)"; u128 => "(int u128)";
    i8 => "(int i8)"; i16 => "(int i16)"; i32 => "(int i32)"; i64 => "(int i64)"; i128 => "(int i128)";
    usize => "usize"; isize => "isize";
}
macro_rules! nonzero {
    ($($t:ty, $b:ty => $m:expr;)*) => {$(
        impl Corp for $t {
            fn mty() -> String { $m.into() }
            fn cands(r: &mut Rng) -> Vec<Self> {
                let mut v = vec![<$t>::new(<$b>::MAX).unwrap(), <$t>::new(<$b>::MIN).or(<$t>::new(1)).unwrap(), <$t>::new(1).unwrap()];
                if let Some(x) = <$t>::new(r.u128() as $b) { v.push(x); }
                v
            }
            fn tight() -> bool { true }
        }
    )*};
}
nonzero! {
    NonZeroU8, u8 => "(nz u8)"; NonZeroU16, u16 => "(nz u16)"; NonZeroU32, u32 => "(nz u32)"; NonZeroU64, u64 => "(nz u64)"; NonZeroU128, u128 => "(nz u128)";
    NonZeroI8, i8 => "(nz i8)"; NonZeroI16, i16 => "(nz i16)"; NonZeroI32, i32 => "(nz i32)"; NonZeroI64, i64 => "(nz i64)"; NonZeroI128, i128 => "(nz i128)";
    NonZeroUsize, usize => "nzusize"; NonZeroIsize, isize => "nzisize";
}
impl Corp for bool {
    fn mty() -> String { "bool".into() }
    fn cands(_: &mut Rng) -> Vec<Self> { vec![true, false] }
    fn tight() -> bool { true }
}
impl Corp for f32 {
    fn mty() -> String { "f32".into() }
    fn cands(r: &mut Rng) -> Vec<Self> { vec![f32::MAX, f32::NAN, -0.0, f32::from_bits(r.next() as u32)] }
    fn tight() -> bool { true }
}
impl Corp for f64 {
    fn mty() -> String { "f64".into() }
    fn cands(r: &mut Rng) -> Vec<Self> { vec![f64::MIN, f64::INFINITY, 0.0, f64::from_bits(r.next())] }
    fn tight() -> bool { true }
}
impl Corp for char {
    fn mty() -> String { "char".into() }
    fn cands(_: &mut Rng) -> Vec<Self> { vec!['\u{10FFFF}', '\u{10000}', '\u{FFFF}', 'é', 'a', '\0'] }
    fn tight() -> bool { true }
}
impl Corp for () {
    fn mty() -> String { "unit".into() }
    fn cands(_: &mut Rng) -> Vec<Self> { vec![()] }
    fn tight() -> bool { true }
}
impl<T: Clone> Corp for PhantomData<T> {
    fn mty() -> String { "phantom".into() }
    fn cands(_: &mut Rng) -> Vec<Self> { vec![PhantomData] }
    fn tight() -> bool { true }
}
impl<T: Corp> Corp for Option<T> {
    fn mty() -> String { format!("(opt {})", T::mty()) }
    fn cands(r: &mut Rng) -> Vec<Self> {
        let mut v: Vec<Self> = T::cands(r).into_iter().map(Some).collect();
        v.push(None);
        v
    }
    fn tight() -> bool { T::tight() }
}
impl<T: Corp, E: Corp> Corp for Result<T, E> {
    fn mty() -> String { format!("(res {} {})", T::mty(), E::mty()) }
    fn cands(r: &mut Rng) -> Vec<Self> {
        let mut v: Vec<Self> = T::cands(r).into_iter().map(Ok).collect();
        v.extend(E::cands(r).into_iter().map(Err));
        v
    }
    fn tight() -> bool { false }
}
macro_rules! arrays {
    ($($n:expr),*) => {$(
        impl<T: Corp> Corp for [T; $n] {
            fn mty() -> String { format!("(arr {} {})", T::mty(), $n) }
            fn cands(r: &mut Rng) -> Vec<Self> {
                let c = T::cands(r);
                let mut v: Vec<Self> = (0..c.len().min(3)).map(|j| core::array::from_fn(|_| c[j].clone())).collect();
                v.push(core::array::from_fn(|i| c[(i * 7 + 1) % c.len()].clone()));
                v
            }
            fn tight() -> bool { T::tight() }
        }
    )*};
}
arrays!(0, 1, 2, 3, 7, 32);
macro_rules! transparent {
    ($($w:ident, $m:expr, $mk:expr;)*) => {$(
        impl<T: Corp> Corp for $w<T> {
            fn mty() -> String { format!("({} {})", $m, T::mty()) }
            fn cands(r: &mut Rng) -> Vec<Self> { T::cands(r).into_iter().map($mk).collect() }
            fn tight() -> bool { T::tight() }
        }
    )*};
}
transparent! { Box, "box", Box::new; }
impl<T: Corp + 'static> Corp for &'static T {
    fn mty() -> String { format!("(ref {})", T::mty()) }
    fn cands(r: &mut Rng) -> Vec<Self> { T::cands(r).into_iter().take(3).map(|x| &*Box::leak(Box::new(x))).collect() }
    fn tight() -> bool { T::tight() }
}
macro_rules! tuples {
    ($(($($n:ident),+);)*) => {$(
        impl<$($n: Corp),+> Corp for ($($n,)+) {
            fn mty() -> String { let mut s = String::from("(tup"); $( s.push(' '); s.push_str(&$n::mty()); )+ s.push(')'); s }
            #[allow(non_snake_case)]
            fn cands(r: &mut Rng) -> Vec<Self> {
                $( let $n = $n::cands(r); )+
                (0..4).map(|j| ($($n[j % $n.len()].clone(),)+)).collect()
            }
            fn tight() -> bool { true $(&& $n::tight())+ }
        }
    )*};
}
tuples! { (A); (A, B); (A, B, C); (A, B, C, D); (A, B, C, D, E); (A, B, C, D, E, F); }
impl<T: Corp> Corp for Range<T> {
    fn mty() -> String { format!("(range {})", T::mty()) }
    fn cands(r: &mut Rng) -> Vec<Self> { let c = T::cands(r); (0..3).map(|j| c[j % c.len()].clone()..c[(j + 1) % c.len()].clone()).collect() }
    fn tight() -> bool { false }
}
impl<T: Corp> Corp for RangeInclusive<T> {
    fn mty() -> String { format!("(rangei {})", T::mty()) }
    fn cands(r: &mut Rng) -> Vec<Self> { let c = T::cands(r); (0..3).map(|j| c[j % c.len()].clone()..=c[(j + 1) % c.len()].clone()).collect() }
    fn tight() -> bool { false }
}
impl<T: Corp> Corp for RangeFrom<T> {
    fn mty() -> String { format!("(rangefrom {})", T::mty()) }
    fn cands(r: &mut Rng) -> Vec<Self> { T::cands(r).into_iter().take(3).map(|x| x..).collect() }
    fn tight() -> bool { false }
}
impl<T: Corp> Corp for RangeTo<T> {
    fn mty() -> String { format!("(rangeto {})", T::mty()) }
    fn cands(r: &mut Rng) -> Vec<Self> { T::cands(r).into_iter().take(3).map(|x| ..x).collect() }
    fn tight() -> bool { false }
}
impl<T: Corp, const N: usize> Corp for heapless::Vec<T, N> {
    fn mty() -> String { format!("(hvec {} {})", T::mty(), N) }
    fn cands(r: &mut Rng) -> Vec<Self> {
        let c = T::cands(r);
        let mut full = heapless::Vec::new();
        while full.push(c[0].clone()).is_ok() {}
        let mut mixed = heapless::Vec::new();
        let k = if N == 0 { 0 } else { r.below(N as u64 + 1) as usize };
        for i in 0..k {
            let _ = mixed.push(c[i % c.len()].clone());
        }
        vec![full, mixed, heapless::Vec::new()]
    }
    fn tight() -> bool { T::tight() }
}
impl<const N: usize> Corp for heapless::String<N> {
    fn mty() -> String { format!("(hstr {})", N) }
    fn cands(r: &mut Rng) -> Vec<Self> {
        let mut full = heapless::String::new();
        while full.push('x').is_ok() {}
        let mut multi = heapless::String::new();
        while multi.push('é').is_ok() {}
        let mut some = heapless::String::new();
        let k = if N == 0 { 0 } else { r.below(N as u64 + 1) as usize };
        for _ in 0..k {
            let _ = some.push('q');
        }
        vec![full, multi, some, heapless::String::new()]
    }
    fn tight() -> bool { true }
}

// ---------- derived types (workspace derive) ----------
macro_rules! derived_struct {
    ($name:ident $(<$($g:ident),+>)?, $decl:item, [$($ft:ty),*], |$r:ident| $mk:expr) => {
        #[derive(Serialize, Clone, Debug, postcard_derive_ws::MaxSize, postcard_derive_ws::Schema)]
        $decl
        impl$(<$($g: Corp),+>)? Corp for $name$(<$($g),+>)? {
            fn mty() -> String { let mut s = String::from("(struct"); $( s.push(' '); s.push_str(&<$ft as Corp>::mty()); )* s.push(')'); s }
            fn cands($r: &mut Rng) -> Vec<Self> { $mk }
            fn tight() -> bool { true $(&& <$ft as Corp>::tight())* }
        }
    };
}
derived_struct!(UnitS, pub struct UnitS;, [], |_r| vec![UnitS]);
derived_struct!(NewS, pub struct NewS(pub u32);, [u32], |r| u32::cands(r).into_iter().map(NewS).collect());
derived_struct!(TupS, pub struct TupS(pub u8, pub i64, pub char);, [u8, i64, char],
    |r| { let (a, b, c) = (u8::cands(r), i64::cands(r), char::cands(r)); (0..4).map(|j| TupS(a[j % a.len()], b[j % b.len()], c[j % c.len()])).collect() });
derived_struct!(NamedS, pub struct NamedS { pub a: Option<u16>, pub b: [i32; 3], pub c: bool, pub d: (u8, u64) }, [Option<u16>, [i32; 3], bool, (u8, u64)],
    |r| { let (a, b, c, d) = (<Option<u16>>::cands(r), <[i32; 3]>::cands(r), bool::cands(r), <(u8, u64)>::cands(r));
          (0..4).map(|j| NamedS { a: a[j % a.len()], b: b[j % b.len()], c: c[j % c.len()], d: d[j % d.len()] }).collect() });
derived_struct!(EmptyS, pub struct EmptyS {}, [], |_r| vec![EmptyS {}]);
derived_struct!(Gen1<T>, pub struct Gen1<T> { pub x: T, pub y: Option<T> }, [T, Option<T>],
    |r| { let (a, b) = (T::cands(r), <Option<T>>::cands(r)); (0..4).map(|j| Gen1 { x: a[j % a.len()].clone(), y: b[j % b.len()].clone() }).collect() });
derived_struct!(Nested, pub struct Nested { pub p: NamedS, pub q: Gen1<u128>, pub s: heapless::String<16> }, [NamedS, Gen1<u128>, heapless::String<16>],
    |r| { let (a, b, c) = (NamedS::cands(r), <Gen1<u128>>::cands(r), <heapless::String<16>>::cands(r));
          (0..4).map(|j| Nested { p: a[j % a.len()].clone(), q: b[j % b.len()].clone(), s: c[j % c.len()].clone() }).collect() });

#[derive(Serialize, Clone, Debug, postcard_derive_ws::MaxSize, postcard_derive_ws::Schema)]
pub enum E0 {}
#[derive(Serialize, Clone, Debug, postcard_derive_ws::MaxSize, postcard_derive_ws::Schema)]
pub enum E1 {
    Only(u64),
}
#[derive(Serialize, Clone, Debug, postcard_derive_ws::MaxSize, postcard_derive_ws::Schema)]
pub enum E2 {
    A,
    B { x: u8, y: i128 },
}
#[derive(Serialize, Clone, Debug, postcard_derive_ws::MaxSize, postcard_derive_ws::Schema)]
pub enum Mixed<T> {
    U,
    N(T),
    T2(u8, T),
    S { a: Option<T>, b: [u8; 2] },
}
impl Corp for E0 {
    fn mty() -> String { "(enum)".into() }
    fn cands(_: &mut Rng) -> Vec<Self> { vec![] }
    fn tight() -> bool { false }
}
impl Corp for E1 {
    fn mty() -> String { "(enum ((int u64)))".into() }
    fn cands(r: &mut Rng) -> Vec<Self> { u64::cands(r).into_iter().map(E1::Only).collect() }
    fn tight() -> bool { false }
}
impl Corp for E2 {
    fn mty() -> String { "(enum () ((int u8) (int i128)))".into() }
    fn cands(r: &mut Rng) -> Vec<Self> {
        let (a, b) = (u8::cands(r), i128::cands(r));
        let mut v: Vec<Self> = (0..4).map(|j| E2::B { x: a[j % a.len()], y: b[j % b.len()] }).collect();
        v.push(E2::A);
        v
    }
    fn tight() -> bool { false }
}
impl<T: Corp> Corp for Mixed<T> {
    fn mty() -> String { format!("(enum () ({t}) ((int u8) {t}) ((opt {t}) (arr (int u8) 2)))", t = T::mty()) }
    fn cands(r: &mut Rng) -> Vec<Self> {
        let c = T::cands(r);
        let mut v = vec![Mixed::U];
        for j in 0..c.len().min(3) {
            v.push(Mixed::N(c[j].clone()));
            v.push(Mixed::T2(255, c[j].clone()));
            v.push(Mixed::S { a: Some(c[j].clone()), b: [255, 0] });
        }
        v.push(Mixed::S { a: None, b: [1, 2] });
        v
    }
    fn tight() -> bool { false }
}
macro_rules! big_enum {
    ($($e:ident, $n:expr;)*) => {$(
        impl Corp for $e {
            fn mty() -> String {
                let mut s = String::from("(enum");
                for _ in 0..$n - 1 { s.push_str(" ()"); }
                s.push_str(" ((int u16)))");
                s
            }
            fn cands(r: &mut Rng) -> Vec<Self> {
                vec![$e::pick($n - 1, u16::MAX), $e::pick($n - 2, 0), $e::pick(0, 0), $e::pick(127, 0), $e::pick(r.below($n) as usize, r.next() as u16)]
            }
            fn tight() -> bool { false }
        }
    )*};
}
big_enum! { E127, 127; E128, 128; E129, 129; }

// enums with explicit discriminants that are not ascending in declaration order: serde numbers
// variants by declaration position, never by discriminant
#[derive(Serialize, Clone, Debug, postcard_derive_ws::MaxSize, postcard_derive_ws::Schema)]
pub enum Level {
    High = 10,
    Mid = 5,
    Low = 1,
}
#[derive(Serialize, Clone, Debug, postcard_derive_ws::MaxSize, postcard_derive_ws::Schema)]
#[repr(u8)]
pub enum Packet {
    Data(u32, u32) = 2,
    Ack = 1,
    Name { id: u8 } = 0,
}
impl Corp for Level {
    fn mty() -> String { "(enum () () ())".into() }
    fn cands(_: &mut Rng) -> Vec<Self> { vec![Level::High, Level::Mid, Level::Low] }
    fn tight() -> bool { false }
}
impl Corp for Packet {
    fn mty() -> String { "(enum ((int u32) (int u32)) () ((int u8)))".into() }
    fn cands(r: &mut Rng) -> Vec<Self> { vec![Packet::Data(u32::MAX, u32::MAX), Packet::Data(3, r.next() as u32), Packet::Ack, Packet::Name { id: 255 }] }
    fn tight() -> bool { false }
}
