//! A dynamic value and type-shape pair that drives the real postcard Serializer and
//! Deserializer through every one of the 29 serde data-model kinds.
use serde::de::{self, DeserializeSeed, EnumAccess, MapAccess, SeqAccess, VariantAccess, Visitor};
use serde::ser::{
    SerializeMap, SerializeSeq, SerializeStruct, SerializeStructVariant, SerializeTuple,
    SerializeTupleStruct, SerializeTupleVariant,
};
use serde::{Deserializer, Serialize, Serializer};
use std::fmt;

#[derive(Clone, Copy, Debug, PartialEq, Eq, Hash)]
pub enum IK {
    I8,
    I16,
    I32,
    I64,
    I128,
    U8,
    U16,
    U32,
    U64,
    U128,
}
impl IK {
    pub const ALL: [IK; 10] = [IK::I8, IK::I16, IK::I32, IK::I64, IK::I128, IK::U8, IK::U16, IK::U32, IK::U64, IK::U128];
    pub fn bits(self) -> u32 {
        match self {
            IK::I8 | IK::U8 => 8,
            IK::I16 | IK::U16 => 16,
            IK::I32 | IK::U32 => 32,
            IK::I64 | IK::U64 => 64,
            IK::I128 | IK::U128 => 128,
        }
    }
    pub fn signed(self) -> bool {
        matches!(self, IK::I8 | IK::I16 | IK::I32 | IK::I64 | IK::I128)
    }
    pub fn name(self) -> &'static str {
        match self {
            IK::I8 => "i8",
            IK::I16 => "i16",
            IK::I32 => "i32",
            IK::I64 => "i64",
            IK::I128 => "i128",
            IK::U8 => "u8",
            IK::U16 => "u16",
            IK::U32 => "u32",
            IK::U64 => "u64",
            IK::U128 => "u128",
        }
    }
}

#[derive(Clone, Debug, PartialEq, Eq, Hash)]
pub enum Ty {
    Bool,
    Int(IK),
    /// usize / isize through serde's own impls (printed as u64 / i64: 64-bit host)
    USize,
    ISize,
    F32,
    F64,
    Char,
    Str,
    Bytes,
    Option(Box<Ty>),
    Unit,
    UnitStruct,
    Newtype(Box<Ty>),
    Seq(Box<Ty>),
    Tuple(Vec<Ty>),
    TupleStruct(Vec<Ty>),
    Map(Box<Ty>, Box<Ty>),
    Struct(Vec<Ty>),
    /// payload shapes: UnitStruct, Newtype, TupleStruct, Struct
    Enum(Vec<Ty>),
}

#[derive(Clone, Debug, PartialEq, Eq, Hash)]
pub enum Val {
    Bool(bool),
    /// signed kinds: value as i128 two's complement in `u128`; see `int_i128`
    Int(IK, i128, u128),
    USize(u64),
    ISize(i64),
    F32(u32),
    F64(u64),
    Char(char),
    Str(Vec<u8>),
    Bytes(Vec<u8>),
    None,
    Some(Box<Val>),
    Unit,
    UnitStruct,
    Newtype(Box<Val>),
    Seq(Vec<Val>),
    Tuple(Vec<Val>),
    TupleStruct(Vec<Val>),
    Map(Vec<(Val, Val)>),
    Struct(Vec<Val>),
    Variant(u32, Box<Val>),
    SeqNoLen(Vec<Val>),
    MapNoLen(Vec<(Val, Val)>),
    CollectStr(Vec<Vec<u8>>),
}

impl Val {
    pub fn signed(k: IK, z: i128) -> Val {
        Val::Int(k, z, 0)
    }
    pub fn unsigned(k: IK, u: u128) -> Val {
        Val::Int(k, 0, u)
    }
}

pub const NAMES: [&str; 64] = [
    "f0", "f1", "f2", "f3", "f4", "f5", "f6", "f7", "f8", "f9", "f10", "f11", "f12", "f13", "f14", "f15", "f16",
    "f17", "f18", "f19", "f20", "f21", "f22", "f23", "f24", "f25", "f26", "f27", "f28", "f29", "f30", "f31", "f32",
    "f33", "f34", "f35", "f36", "f37", "f38", "f39", "f40", "f41", "f42", "f43", "f44", "f45", "f46", "f47", "f48",
    "f49", "f50", "f51", "f52", "f53", "f54", "f55", "f56", "f57", "f58", "f59", "f60", "f61", "f62", "f63",
];
pub fn names(n: usize) -> &'static [&'static str] {
    &NAMES[..n.min(64)]
}
fn name(i: usize) -> &'static str {
    NAMES[i % 64]
}

// ---------------------------------------------------------------------------------------
// printing (the syntax the OCaml runner parses)

pub fn hex(bs: &[u8]) -> String {
    let mut s = String::with_capacity(2 * bs.len() + 1);
    s.push('x');
    for b in bs {
        s.push_str(&format!("{:02x}", b));
    }
    s
}
pub fn unhex(s: &str) -> Vec<u8> {
    let s = s.strip_prefix('x').unwrap_or(s);
    (0..s.len() / 2).map(|i| u8::from_str_radix(&s[2 * i..2 * i + 2], 16).unwrap()).collect()
}

impl fmt::Display for Ty {
    fn fmt(&self, f: &mut fmt::Formatter<'_>) -> fmt::Result {
        fn many(f: &mut fmt::Formatter<'_>, tag: &str, ts: &[Ty]) -> fmt::Result {
            write!(f, "({}", tag)?;
            for t in ts {
                write!(f, " {}", t)?;
            }
            write!(f, ")")
        }
        match self {
            Ty::Bool => write!(f, "bool"),
            Ty::Int(k) => write!(f, "{}", k.name()),
            Ty::USize => write!(f, "u64"),
            Ty::ISize => write!(f, "i64"),
            Ty::F32 => write!(f, "f32"),
            Ty::F64 => write!(f, "f64"),
            Ty::Char => write!(f, "char"),
            Ty::Str => write!(f, "str"),
            Ty::Bytes => write!(f, "bytes"),
            Ty::Option(t) => write!(f, "(opt {})", t),
            Ty::Unit => write!(f, "unit"),
            Ty::UnitStruct => write!(f, "ustruct"),
            Ty::Newtype(t) => write!(f, "(nt {})", t),
            Ty::Seq(t) => write!(f, "(seq {})", t),
            Ty::Tuple(ts) => many(f, "tup", ts),
            Ty::TupleStruct(ts) => many(f, "ts", ts),
            Ty::Map(k, v) => write!(f, "(map {} {})", k, v),
            Ty::Struct(ts) => many(f, "st", ts),
            Ty::Enum(ts) => many(f, "enum", ts),
        }
    }
}

pub fn hexi(z: i128) -> String {
    if z < 0 {
        format!("-{:x}", z.unsigned_abs())
    } else {
        format!("{:x}", z)
    }
}

impl fmt::Display for Val {
    fn fmt(&self, f: &mut fmt::Formatter<'_>) -> fmt::Result {
        fn many(f: &mut fmt::Formatter<'_>, tag: &str, vs: &[Val]) -> fmt::Result {
            write!(f, "({}", tag)?;
            for v in vs {
                write!(f, " {}", v)?;
            }
            write!(f, ")")
        }
        fn pairs(f: &mut fmt::Formatter<'_>, tag: &str, kvs: &[(Val, Val)]) -> fmt::Result {
            write!(f, "({}", tag)?;
            for (k, v) in kvs {
                write!(f, " {} {}", k, v)?;
            }
            write!(f, ")")
        }
        match self {
            Val::Bool(b) => write!(f, "(b {})", *b as u8),
            Val::Int(k, z, u) => {
                if k.signed() {
                    write!(f, "(i {} {})", k.name(), hexi(*z))
                } else {
                    write!(f, "(i {} {:x})", k.name(), u)
                }
            }
            Val::USize(u) => write!(f, "(i u64 {:x})", u),
            Val::ISize(z) => write!(f, "(i i64 {})", hexi(*z as i128)),
            Val::F32(b) => write!(f, "(f32 {:x})", b),
            Val::F64(b) => write!(f, "(f64 {:x})", b),
            Val::Char(c) => write!(f, "(c {:x})", *c as u32),
            Val::Str(bs) => write!(f, "(s {})", hex(bs)),
            Val::Bytes(bs) => write!(f, "(y {})", hex(bs)),
            Val::None => write!(f, "none"),
            Val::Some(v) => write!(f, "(some {})", v),
            Val::Unit => write!(f, "unit"),
            Val::UnitStruct => write!(f, "ustruct"),
            Val::Newtype(v) => write!(f, "(nt {})", v),
            Val::Seq(vs) => many(f, "seq", vs),
            Val::Tuple(vs) => many(f, "tup", vs),
            Val::TupleStruct(vs) => many(f, "ts", vs),
            Val::Map(kvs) => pairs(f, "map", kvs),
            Val::Struct(vs) => many(f, "st", vs),
            Val::Variant(i, p) => write!(f, "(var {:x} {})", i, p),
            Val::SeqNoLen(vs) => many(f, "seqnl", vs),
            Val::MapNoLen(kvs) => pairs(f, "mapnl", kvs),
            Val::CollectStr(ps) => {
                write!(f, "(cstr")?;
                for p in ps {
                    write!(f, " {}", hex(p))?;
                }
                write!(f, ")")
            }
        }
    }
}

// ---------------------------------------------------------------------------------------
// Serialize

struct Pieces<'a>(&'a [Vec<u8>]);
impl fmt::Display for Pieces<'_> {
    fn fmt(&self, f: &mut fmt::Formatter<'_>) -> fmt::Result {
        for p in self.0 {
            f.write_str(std::str::from_utf8(p).map_err(|_| fmt::Error)?)?;
        }
        Ok(())
    }
}

impl Serialize for Val {
    fn serialize<S: Serializer>(&self, s: S) -> Result<S::Ok, S::Error> {
        match self {
            Val::Bool(b) => s.serialize_bool(*b),
            Val::Int(k, z, u) => match k {
                IK::I8 => s.serialize_i8(*z as i8),
                IK::I16 => s.serialize_i16(*z as i16),
                IK::I32 => s.serialize_i32(*z as i32),
                IK::I64 => s.serialize_i64(*z as i64),
                IK::I128 => s.serialize_i128(*z),
                IK::U8 => s.serialize_u8(*u as u8),
                IK::U16 => s.serialize_u16(*u as u16),
                IK::U32 => s.serialize_u32(*u as u32),
                IK::U64 => s.serialize_u64(*u as u64),
                IK::U128 => s.serialize_u128(*u),
            },
            Val::USize(u) => (*u as usize).serialize(s),
            Val::ISize(z) => (*z as isize).serialize(s),
            Val::F32(b) => s.serialize_f32(f32::from_bits(*b)),
            Val::F64(b) => s.serialize_f64(f64::from_bits(*b)),
            Val::Char(c) => s.serialize_char(*c),
            Val::Str(bs) => s.serialize_str(std::str::from_utf8(bs).expect("generator: Str must be UTF-8")),
            Val::Bytes(bs) => s.serialize_bytes(bs),
            Val::None => s.serialize_none(),
            Val::Some(v) => s.serialize_some(&**v),
            Val::Unit => s.serialize_unit(),
            Val::UnitStruct => s.serialize_unit_struct("U"),
            Val::Newtype(v) => s.serialize_newtype_struct("N", &**v),
            Val::Seq(vs) => {
                let mut q = s.serialize_seq(Some(vs.len()))?;
                for v in vs {
                    q.serialize_element(v)?;
                }
                q.end()
            }
            Val::SeqNoLen(vs) => {
                let mut q = s.serialize_seq(None)?;
                for v in vs {
                    q.serialize_element(v)?;
                }
                q.end()
            }
            Val::Tuple(vs) => {
                let mut q = s.serialize_tuple(vs.len())?;
                for v in vs {
                    q.serialize_element(v)?;
                }
                q.end()
            }
            Val::TupleStruct(vs) => {
                let mut q = s.serialize_tuple_struct("T", vs.len())?;
                for v in vs {
                    q.serialize_field(v)?;
                }
                q.end()
            }
            Val::Map(kvs) => {
                let mut q = s.serialize_map(Some(kvs.len()))?;
                for (k, v) in kvs {
                    q.serialize_key(k)?;
                    q.serialize_value(v)?;
                }
                q.end()
            }
            Val::MapNoLen(kvs) => {
                let mut q = s.serialize_map(None)?;
                for (k, v) in kvs {
                    q.serialize_key(k)?;
                    q.serialize_value(v)?;
                }
                q.end()
            }
            Val::Struct(vs) => {
                let mut q = s.serialize_struct("S", vs.len())?;
                for (i, v) in vs.iter().enumerate() {
                    q.serialize_field(name(i), v)?;
                }
                q.end()
            }
            Val::Variant(idx, p) => match &**p {
                Val::UnitStruct => s.serialize_unit_variant("E", *idx, name(*idx as usize)),
                Val::Newtype(v) => s.serialize_newtype_variant("E", *idx, name(*idx as usize), &**v),
                Val::TupleStruct(vs) => {
                    let mut q = s.serialize_tuple_variant("E", *idx, name(*idx as usize), vs.len())?;
                    for v in vs {
                        q.serialize_field(v)?;
                    }
                    q.end()
                }
                Val::Struct(vs) => {
                    let mut q = s.serialize_struct_variant("E", *idx, name(*idx as usize), vs.len())?;
                    for (i, v) in vs.iter().enumerate() {
                        q.serialize_field(name(i), v)?;
                    }
                    q.end()
                }
                other => panic!("generator: bad variant payload {:?}", other),
            },
            Val::CollectStr(ps) => s.collect_str(&Pieces(ps)),
        }
    }
}

// ---------------------------------------------------------------------------------------
// Deserialize (shape-directed)

pub struct Seed<'t>(pub &'t Ty);

macro_rules! prim_visitor {
    ($name:ident, $visit:ident, $t:ty, $conv:expr) => {
        struct $name;
        impl<'de> Visitor<'de> for $name {
            type Value = Val;
            fn expecting(&self, f: &mut fmt::Formatter) -> fmt::Result {
                f.write_str(stringify!($t))
            }
            fn $visit<E: de::Error>(self, v: $t) -> Result<Val, E> {
                Ok($conv(v))
            }
        }
    };
}
prim_visitor!(VBool, visit_bool, bool, Val::Bool);
prim_visitor!(VI8, visit_i8, i8, |v| Val::signed(IK::I8, v as i128));
prim_visitor!(VI16, visit_i16, i16, |v| Val::signed(IK::I16, v as i128));
prim_visitor!(VI32, visit_i32, i32, |v| Val::signed(IK::I32, v as i128));
prim_visitor!(VI64, visit_i64, i64, |v| Val::signed(IK::I64, v as i128));
prim_visitor!(VI128, visit_i128, i128, |v| Val::signed(IK::I128, v));
prim_visitor!(VU8, visit_u8, u8, |v| Val::unsigned(IK::U8, v as u128));
prim_visitor!(VU16, visit_u16, u16, |v| Val::unsigned(IK::U16, v as u128));
prim_visitor!(VU32, visit_u32, u32, |v| Val::unsigned(IK::U32, v as u128));
prim_visitor!(VU64, visit_u64, u64, |v| Val::unsigned(IK::U64, v as u128));
prim_visitor!(VU128, visit_u128, u128, |v| Val::unsigned(IK::U128, v));
prim_visitor!(VF32, visit_f32, f32, |v: f32| Val::F32(v.to_bits()));
prim_visitor!(VF64, visit_f64, f64, |v: f64| Val::F64(v.to_bits()));
prim_visitor!(VChar, visit_char, char, Val::Char);

struct VStr;
impl<'de> Visitor<'de> for VStr {
    type Value = Val;
    fn expecting(&self, f: &mut fmt::Formatter) -> fmt::Result {
        f.write_str("str")
    }
    fn visit_borrowed_str<E: de::Error>(self, v: &'de str) -> Result<Val, E> {
        Ok(Val::Str(v.as_bytes().to_vec()))
    }
    fn visit_str<E: de::Error>(self, v: &str) -> Result<Val, E> {
        Ok(Val::Str(v.as_bytes().to_vec()))
    }
}
struct VBytes;
impl<'de> Visitor<'de> for VBytes {
    type Value = Val;
    fn expecting(&self, f: &mut fmt::Formatter) -> fmt::Result {
        f.write_str("bytes")
    }
    fn visit_borrowed_bytes<E: de::Error>(self, v: &'de [u8]) -> Result<Val, E> {
        Ok(Val::Bytes(v.to_vec()))
    }
    fn visit_bytes<E: de::Error>(self, v: &[u8]) -> Result<Val, E> {
        Ok(Val::Bytes(v.to_vec()))
    }
}
struct VOption<'t>(&'t Ty);
impl<'de, 't> Visitor<'de> for VOption<'t> {
    type Value = Val;
    fn expecting(&self, f: &mut fmt::Formatter) -> fmt::Result {
        f.write_str("option")
    }
    fn visit_none<E: de::Error>(self) -> Result<Val, E> {
        Ok(Val::None)
    }
    fn visit_some<D: Deserializer<'de>>(self, d: D) -> Result<Val, D::Error> {
        Ok(Val::Some(Box::new(Seed(self.0).deserialize(d)?)))
    }
}
struct VUnit(Val);
impl<'de> Visitor<'de> for VUnit {
    type Value = Val;
    fn expecting(&self, f: &mut fmt::Formatter) -> fmt::Result {
        f.write_str("unit")
    }
    fn visit_unit<E: de::Error>(self) -> Result<Val, E> {
        Ok(self.0)
    }
}
struct VNewtype<'t>(&'t Ty);
impl<'de, 't> Visitor<'de> for VNewtype<'t> {
    type Value = Val;
    fn expecting(&self, f: &mut fmt::Formatter) -> fmt::Result {
        f.write_str("newtype")
    }
    fn visit_newtype_struct<D: Deserializer<'de>>(self, d: D) -> Result<Val, D::Error> {
        Ok(Val::Newtype(Box::new(Seed(self.0).deserialize(d)?)))
    }
}
/// like serde's Vec<T> visitor: pre-allocates min(size_hint, 1 MiB / size_of::<T>())
struct VSeq<'t>(&'t Ty);
impl<'de, 't> Visitor<'de> for VSeq<'t> {
    type Value = Val;
    fn expecting(&self, f: &mut fmt::Formatter) -> fmt::Result {
        f.write_str("seq")
    }
    fn visit_seq<A: SeqAccess<'de>>(self, mut a: A) -> Result<Val, A::Error> {
        let cap = std::cmp::min(a.size_hint().unwrap_or(0), 1024 * 1024 / std::mem::size_of::<Val>());
        let mut out = Vec::with_capacity(cap);
        while let Some(v) = a.next_element_seed(Seed(self.0))? {
            out.push(v);
        }
        Ok(Val::Seq(out))
    }
}
/// fixed arity, like serde's tuple and derived struct visitors
struct VFields<'t>(&'t [Ty], fn(Vec<Val>) -> Val);
impl<'de, 't> Visitor<'de> for VFields<'t> {
    type Value = Val;
    fn expecting(&self, f: &mut fmt::Formatter) -> fmt::Result {
        f.write_str("fields")
    }
    fn visit_seq<A: SeqAccess<'de>>(self, mut a: A) -> Result<Val, A::Error> {
        let mut out = Vec::with_capacity(self.0.len());
        for (i, t) in self.0.iter().enumerate() {
            match a.next_element_seed(Seed(t))? {
                Some(v) => out.push(v),
                None => return Err(de::Error::invalid_length(i, &self)),
            }
        }
        Ok((self.1)(out))
    }
}
struct VMap<'t>(&'t Ty, &'t Ty);
impl<'de, 't> Visitor<'de> for VMap<'t> {
    type Value = Val;
    fn expecting(&self, f: &mut fmt::Formatter) -> fmt::Result {
        f.write_str("map")
    }
    fn visit_map<A: MapAccess<'de>>(self, mut a: A) -> Result<Val, A::Error> {
        // serde's own map visitors ask for the hint (and cap it); ask too, so that the hint's
        // arithmetic is exercised, but do not allocate from it (maps are outside C04's allocation claim)
        let _ = a.size_hint();
        let mut out = Vec::new();
        while let Some(k) = a.next_key_seed(Seed(self.0))? {
            let v = a.next_value_seed(Seed(self.1))?;
            out.push((k, v));
        }
        Ok(Val::Map(out))
    }
}
struct IdxSeed;
impl<'de> DeserializeSeed<'de> for IdxSeed {
    type Value = u64;
    fn deserialize<D: Deserializer<'de>>(self, d: D) -> Result<u64, D::Error> {
        struct V;
        impl<'de> Visitor<'de> for V {
            type Value = u64;
            fn expecting(&self, f: &mut fmt::Formatter) -> fmt::Result {
                f.write_str("variant index")
            }
            fn visit_u64<E: de::Error>(self, v: u64) -> Result<u64, E> {
                Ok(v)
            }
        }
        d.deserialize_identifier(V)
    }
}
struct VEnum<'t>(&'t [Ty]);
impl<'de, 't> Visitor<'de> for VEnum<'t> {
    type Value = Val;
    fn expecting(&self, f: &mut fmt::Formatter) -> fmt::Result {
        f.write_str("enum")
    }
    fn visit_enum<A: EnumAccess<'de>>(self, a: A) -> Result<Val, A::Error> {
        let (idx, variant) = a.variant_seed(IdxSeed)?;
        let t = match self.0.get(idx as usize) {
            Some(t) => t,
            None => return Err(de::Error::custom("unknown variant index")),
        };
        let payload = match t {
            Ty::UnitStruct => {
                variant.unit_variant()?;
                Val::UnitStruct
            }
            Ty::Newtype(inner) => Val::Newtype(Box::new(variant.newtype_variant_seed(Seed(inner))?)),
            Ty::TupleStruct(ts) => variant.tuple_variant(ts.len(), VFields(ts, Val::TupleStruct))?,
            Ty::Struct(ts) => variant.struct_variant(names(ts.len()), VFields(ts, Val::Struct))?,
            other => panic!("generator: bad variant shape {:?}", other),
        };
        Ok(Val::Variant(idx as u32, Box::new(payload)))
    }
}

impl<'de, 't> DeserializeSeed<'de> for Seed<'t> {
    type Value = Val;
    fn deserialize<D: Deserializer<'de>>(self, d: D) -> Result<Val, D::Error> {
        match self.0 {
            Ty::Bool => d.deserialize_bool(VBool),
            Ty::Int(IK::I8) => d.deserialize_i8(VI8),
            Ty::Int(IK::I16) => d.deserialize_i16(VI16),
            Ty::Int(IK::I32) => d.deserialize_i32(VI32),
            Ty::Int(IK::I64) => d.deserialize_i64(VI64),
            Ty::Int(IK::I128) => d.deserialize_i128(VI128),
            Ty::Int(IK::U8) => d.deserialize_u8(VU8),
            Ty::Int(IK::U16) => d.deserialize_u16(VU16),
            Ty::Int(IK::U32) => d.deserialize_u32(VU32),
            Ty::Int(IK::U64) => d.deserialize_u64(VU64),
            Ty::Int(IK::U128) => d.deserialize_u128(VU128),
            Ty::USize => {
                let v: usize = serde::Deserialize::deserialize(d)?;
                Ok(Val::USize(v as u64))
            }
            Ty::ISize => {
                let v: isize = serde::Deserialize::deserialize(d)?;
                Ok(Val::ISize(v as i64))
            }
            Ty::F32 => d.deserialize_f32(VF32),
            Ty::F64 => d.deserialize_f64(VF64),
            Ty::Char => d.deserialize_char(VChar),
            Ty::Str => d.deserialize_str(VStr),
            Ty::Bytes => d.deserialize_bytes(VBytes),
            Ty::Option(t) => d.deserialize_option(VOption(t)),
            Ty::Unit => d.deserialize_unit(VUnit(Val::Unit)),
            Ty::UnitStruct => d.deserialize_unit_struct("U", VUnit(Val::UnitStruct)),
            Ty::Newtype(t) => d.deserialize_newtype_struct("N", VNewtype(t)),
            Ty::Seq(t) => d.deserialize_seq(VSeq(t)),
            Ty::Tuple(ts) => d.deserialize_tuple(ts.len(), VFields(ts, Val::Tuple)),
            Ty::TupleStruct(ts) => d.deserialize_tuple_struct("T", ts.len(), VFields(ts, Val::TupleStruct)),
            Ty::Map(k, v) => d.deserialize_map(VMap(k, v)),
            Ty::Struct(ts) => d.deserialize_struct("S", names(ts.len()), VFields(ts, Val::Struct)),
            Ty::Enum(ts) => d.deserialize_enum("E", names(ts.len()), VEnum(ts)),
        }
    }
}

/// error kinds as the runner prints them
pub fn err_name(e: &postcard::Error) -> String {
    format!("err:{:?}", e)
}
