//! Type expressions of the model's `sty` (coq/Model/SchemaImpls.v) for the corpus types of C14:
//! each type names itself; the model then says which SCHEMA the translated impl rows give it
//! and whether the captured serde call tree is what a value of the type emits.
use crate::corp::*;
use crate::stree::xname;
use core::num::*;
use core::ops::{Range, RangeFrom, RangeInclusive, RangeTo};
use std::collections::{BTreeMap, BTreeSet, HashMap, HashSet};

pub trait Sty {
    /// None: the type is outside the expression language (checked by the direct oracles only)
    fn sty() -> Option<String>;
}
fn s1(head: &str, a: Option<String>) -> Option<String> {
    a.map(|a| format!("({} {})", head, a))
}
fn s2(head: &str, a: Option<String>, b: Option<String>) -> Option<String> {
    Some(format!("({} {} {})", head, a?, b?))
}
macro_rules! leaf {
    ($($t:ty => $e:expr;)*) => {$( impl Sty for $t { fn sty() -> Option<String> { Some($e.into()) } } )*};
}
leaf! {
    bool => "bool"; f32 => "f32"; f64 => "f64"; char => "char"; () => "unit"; str => "str"; String => "string";
    std::path::PathBuf => "pathbuf"; uuid::Uuid => "uuid"; postcard_schema::key::Key => "key";
    postcard_schema::schema::owned::OwnedDataModelType => "ownedschema"; postcard_schema::schema::DataModelType => "borrowedschema";
    u8 => "(int u8)"; u16 => "(int u16)"; u32 => "(int u32)"; u64 => "(int u64)"; u128 => "(int u128)";
    i8 => "(int i8)"; i16 => "(int i16)"; i32 => "(int i32)"; i64 => "(int i64)"; i128 => "(int i128)";
    NonZeroU8 => "(nz u8)"; NonZeroU16 => "(nz u16)"; NonZeroU32 => "(nz u32)"; NonZeroU64 => "(nz u64)"; NonZeroU128 => "(nz u128)";
    NonZeroI8 => "(nz i8)"; NonZeroI16 => "(nz i16)"; NonZeroI32 => "(nz i32)"; NonZeroI64 => "(nz i64)"; NonZeroI128 => "(nz i128)";
}
impl<Tz: chrono::TimeZone> Sty for chrono::DateTime<Tz> {
    fn sty() -> Option<String> { Some("datetime".into()) }
}
impl<T: Sty> Sty for Option<T> {
    fn sty() -> Option<String> { s1("opt", T::sty()) }
}
impl<T: Sty, E: Sty> Sty for Result<T, E> {
    fn sty() -> Option<String> { s2("res", T::sty(), E::sty()) }
}
impl<T: Sty + ?Sized> Sty for &'_ T {
    fn sty() -> Option<String> { s1("ref", T::sty()) }
}
impl<T: Sty> Sty for [T] {
    fn sty() -> Option<String> { s1("slice", T::sty()) }
}
impl<T: Sty, const N: usize> Sty for [T; N] {
    fn sty() -> Option<String> { T::sty().map(|t| format!("(arr {} {})", t, N)) }
}
macro_rules! tuples {
    ($(($($g:ident),+))*) => {$(
        impl<$($g: Sty),+> Sty for ($($g,)+) {
            fn sty() -> Option<String> { let mut s = String::from("(tup"); $( s.push(' '); s.push_str(&$g::sty()?); )+ s.push(')'); Some(s) }
        }
    )*};
}
tuples! { (A) (A, B) (A, B, C) (A, B, C, D) (A, B, C, D, E) (A, B, C, D, E, F) }
impl<T: Sty> Sty for Range<T> {
    fn sty() -> Option<String> { s1("range", T::sty()) }
}
impl<T: Sty> Sty for RangeInclusive<T> {
    fn sty() -> Option<String> { s1("rangei", T::sty()) }
}
impl<T: Sty> Sty for RangeFrom<T> {
    fn sty() -> Option<String> { s1("rangefrom", T::sty()) }
}
impl<T: Sty> Sty for RangeTo<T> {
    fn sty() -> Option<String> { s1("rangeto", T::sty()) }
}
impl<T: Sty> Sty for Vec<T> {
    fn sty() -> Option<String> { s1("vec", T::sty()) }
}
impl<K: Sty, V: Sty> Sty for BTreeMap<K, V> {
    fn sty() -> Option<String> { s2("btreemap", K::sty(), V::sty()) }
}
impl<K: Sty, V: Sty> Sty for HashMap<K, V> {
    fn sty() -> Option<String> { s2("hashmap", K::sty(), V::sty()) }
}
impl<T: Sty> Sty for BTreeSet<T> {
    fn sty() -> Option<String> { s1("btreeset", T::sty()) }
}
impl<T: Sty> Sty for HashSet<T> {
    fn sty() -> Option<String> { s1("hashset", T::sty()) }
}
impl<T: Sty, const N: usize> Sty for heapless::Vec<T, N> {
    fn sty() -> Option<String> { T::sty().map(|t| format!("(hvec {} {})", t, N)) }
}
impl<const N: usize> Sty for heapless::String<N> {
    fn sty() -> Option<String> { Some(format!("(hstr {})", N)) }
}
// heapless 0.8: the same rows (the model proves the two versions' rows equal, C14_alias_rows)
impl<T: Sty, const N: usize> Sty for heapless08::Vec<T, N> {
    fn sty() -> Option<String> { T::sty().map(|t| format!("(hvec {} {})", t, N)) }
}
impl<const N: usize> Sty for heapless08::String<N> {
    fn sty() -> Option<String> { Some(format!("(hstr {})", N)) }
}
// nalgebra's row goes through an unsafe `flatten`: outside the expression language, decided by the
// direct oracles (conformance of the captured items, schema-driven reading of the real bytes)
impl<T, const R: usize, const C: usize> Sty for nalgebra::SMatrix<T, R, C> {
    fn sty() -> Option<String> { None }
}

// ---- types using the workspace derive: the declaration, restated ----
fn field(name: &str, t: Option<String>) -> Option<String> {
    Some(format!("({} {})", if name.is_empty() { "_".to_string() } else { xname(name) }, t?))
}
fn dstruct(name: &str, form: &str, fs: Vec<Option<String>>) -> Option<String> {
    let mut s = format!("(dstruct {} {}", xname(name), form);
    for f in fs {
        s.push(' ');
        s.push_str(&f?);
    }
    s.push(')');
    Some(s)
}
fn variant(name: &str, form: &str, fs: Vec<Option<String>>) -> Option<String> {
    let mut s = format!("({} {}", xname(name), form);
    for f in fs {
        s.push(' ');
        s.push_str(&f?);
    }
    s.push(')');
    Some(s)
}
fn denum(name: &str, vs: Vec<Option<String>>) -> Option<String> {
    let mut s = format!("(denum {}", xname(name));
    for v in vs {
        s.push(' ');
        s.push_str(&v?);
    }
    s.push(')');
    Some(s)
}
impl Sty for UnitS {
    fn sty() -> Option<String> { dstruct("UnitS", "unit", vec![]) }
}
impl Sty for NewS {
    fn sty() -> Option<String> { dstruct("NewS", "newtype", vec![field("", u32::sty())]) }
}
impl Sty for TupS {
    fn sty() -> Option<String> { dstruct("TupS", "tuple", vec![field("", u8::sty()), field("", i64::sty()), field("", char::sty())]) }
}
impl Sty for NamedS {
    fn sty() -> Option<String> {
        dstruct("NamedS", "struct", vec![field("a", <Option<u16>>::sty()), field("b", <[i32; 3]>::sty()), field("c", bool::sty()), field("d", <(u8, u64)>::sty())])
    }
}
impl Sty for EmptyS {
    fn sty() -> Option<String> { dstruct("EmptyS", "struct", vec![]) }
}
impl<T: Sty> Sty for Gen1<T> {
    fn sty() -> Option<String> { dstruct("Gen1", "struct", vec![field("x", T::sty()), field("y", <Option<T>>::sty())]) }
}
impl Sty for Nested {
    fn sty() -> Option<String> { dstruct("Nested", "struct", vec![field("p", NamedS::sty()), field("q", <Gen1<u128>>::sty()), field("s", <heapless::String<16>>::sty())]) }
}
impl Sty for E1 {
    fn sty() -> Option<String> { denum("E1", vec![variant("Only", "newtype", vec![field("", u64::sty())])]) }
}
impl Sty for E2 {
    fn sty() -> Option<String> { denum("E2", vec![variant("A", "unit", vec![]), variant("B", "struct", vec![field("x", u8::sty()), field("y", i128::sty())])]) }
}
impl<T: Sty> Sty for Mixed<T> {
    fn sty() -> Option<String> {
        denum("Mixed", vec![
            variant("U", "unit", vec![]),
            variant("N", "newtype", vec![field("", T::sty())]),
            variant("T2", "tuple", vec![field("", u8::sty()), field("", T::sty())]),
            variant("S", "struct", vec![field("a", <Option<T>>::sty()), field("b", <[u8; 2]>::sty())]),
        ])
    }
}
impl Sty for Level {
    fn sty() -> Option<String> { denum("Level", vec![variant("High", "unit", vec![]), variant("Mid", "unit", vec![]), variant("Low", "unit", vec![])]) }
}
impl Sty for Packet {
    fn sty() -> Option<String> {
        denum("Packet", vec![variant("Data", "tuple", vec![field("", u32::sty()), field("", u32::sty())]), variant("Ack", "unit", vec![]), variant("Name", "struct", vec![field("id", u8::sty())])])
    }
}
// the generated many-variant enums are outside the expression language here
impl Sty for E127 {
    fn sty() -> Option<String> { None }
}
impl Sty for E128 {
    fn sty() -> Option<String> { None }
}
impl Sty for E129 {
    fn sty() -> Option<String> { None }
}
