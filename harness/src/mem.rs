//! Buffers flush against an inaccessible page (PROT_NONE), so that a single byte read or
//! written outside the buffer faults; and a counting global allocator.
use std::alloc::{GlobalAlloc, Layout, System};
use std::sync::atomic::{AtomicUsize, Ordering};

pub struct GuardBuf {
    base: *mut u8,
    map_len: usize,
    ptr: *mut u8,
    len: usize,
}

const PAGE: usize = 4096;

impl GuardBuf {
    /// `at_end`: the buffer's last byte is the last byte before the guard page;
    /// otherwise its first byte is the first byte after a guard page.
    pub fn new(len: usize, at_end: bool) -> GuardBuf {
        let data_pages = (len + PAGE - 1) / PAGE + 1;
        let map_len = (data_pages + 2) * PAGE;
        unsafe {
            let base = libc::mmap(std::ptr::null_mut(), map_len, libc::PROT_READ | libc::PROT_WRITE, libc::MAP_PRIVATE | libc::MAP_ANONYMOUS, -1, 0) as *mut u8;
            assert!(base as isize != -1, "mmap failed");
            // guard pages at both ends
            assert_eq!(libc::mprotect(base as *mut _, PAGE, libc::PROT_NONE), 0);
            assert_eq!(libc::mprotect(base.add(map_len - PAGE) as *mut _, PAGE, libc::PROT_NONE), 0);
            let ptr = if at_end { base.add(map_len - PAGE - len) } else { base.add(PAGE) };
            GuardBuf { base, map_len, ptr, len }
        }
    }
    pub fn from_bytes(bytes: &[u8], at_end: bool) -> GuardBuf {
        let mut g = GuardBuf::new(bytes.len(), at_end);
        g.as_mut().copy_from_slice(bytes);
        g
    }
    pub fn as_mut(&mut self) -> &mut [u8] {
        unsafe { std::slice::from_raw_parts_mut(self.ptr, self.len) }
    }
    pub fn as_ref(&self) -> &[u8] {
        unsafe { std::slice::from_raw_parts(self.ptr, self.len) }
    }
    /// the accessible bytes on the non-guarded side of the buffer (to check for stray writes)
    pub fn slack(&self) -> &[u8] {
        unsafe {
            let lo = self.base.add(PAGE);
            let hi = self.base.add(self.map_len - PAGE);
            if self.ptr == lo {
                let start = self.ptr.add(self.len);
                std::slice::from_raw_parts(start, hi as usize - start as usize)
            } else {
                std::slice::from_raw_parts(lo, self.ptr as usize - lo as usize)
            }
        }
    }
    pub fn fill_slack(&mut self, b: u8) {
        unsafe {
            let lo = self.base.add(PAGE);
            let hi = self.base.add(self.map_len - PAGE);
            if self.ptr == lo {
                let start = self.ptr.add(self.len);
                std::ptr::write_bytes(start, b, hi as usize - start as usize);
            } else {
                std::ptr::write_bytes(lo, b, self.ptr as usize - lo as usize);
            }
        }
    }
}
impl Drop for GuardBuf {
    fn drop(&mut self) {
        unsafe {
            libc::munmap(self.base as *mut _, self.map_len);
        }
    }
}

pub struct Counting;
pub static ALLOCATED: AtomicUsize = AtomicUsize::new(0);
pub static PEAK_REQUEST: AtomicUsize = AtomicUsize::new(0);
unsafe impl GlobalAlloc for Counting {
    unsafe fn alloc(&self, l: Layout) -> *mut u8 {
        ALLOCATED.fetch_add(l.size(), Ordering::Relaxed);
        PEAK_REQUEST.fetch_max(l.size(), Ordering::Relaxed);
        System.alloc(l)
    }
    unsafe fn dealloc(&self, p: *mut u8, l: Layout) {
        System.dealloc(p, l)
    }
    unsafe fn realloc(&self, p: *mut u8, l: Layout, new: usize) -> *mut u8 {
        if new > l.size() {
            ALLOCATED.fetch_add(new - l.size(), Ordering::Relaxed);
            PEAK_REQUEST.fetch_max(new, Ordering::Relaxed);
        }
        System.realloc(p, l, new)
    }
}
/// bytes requested from the allocator while f runs (this thread is the only one running)
pub fn allocated_during<R>(f: impl FnOnce() -> R) -> (R, usize, usize) {
    let before = ALLOCATED.load(Ordering::Relaxed);
    PEAK_REQUEST.store(0, Ordering::Relaxed);
    let r = f();
    (r, ALLOCATED.load(Ordering::Relaxed) - before, PEAK_REQUEST.load(Ordering::Relaxed))
}
