//! Case file + summary written by every property driver.
use std::collections::{BTreeMap, HashSet};
use std::fs::File;
use std::hash::{Hash, Hasher};
use std::io::{BufWriter, Write};

pub struct Failure {
    pub oracle: String,
    pub input: String,
    pub observed: String,
    pub expected: String,
    /// name of the known-finding class this input belongs to, if any
    pub known: Option<String>,
}

pub struct Out {
    cases: BufWriter<File>,
    pub evaluations: u64,
    pub case_lines: u64,
    distinct: HashSet<u64>,
    pub failures: Vec<Failure>,
    pub known_hits: BTreeMap<String, u64>,
    pub hist: BTreeMap<String, u64>,
    pub samples: Vec<String>,
    pub exhaustive: Vec<String>,
    pub notes: Vec<String>,
    inflight: File,
}

pub fn json_str(s: &str) -> String {
    let mut o = String::from("\"");
    for c in s.chars() {
        match c {
            '"' => o.push_str("\\\""),
            '\\' => o.push_str("\\\\"),
            '\n' => o.push_str("\\n"),
            '\t' => o.push_str("\\t"),
            c if (c as u32) < 0x20 => o.push_str(&format!("\\u{:04x}", c as u32)),
            c => o.push(c),
        }
    }
    o.push('"');
    o
}

impl Out {
    pub fn new(cases_path: &str) -> Out {
        Out {
            cases: BufWriter::new(File::create(cases_path).expect("create cases file")),
            evaluations: 0,
            case_lines: 0,
            distinct: HashSet::new(),
            failures: Vec::new(),
            known_hits: BTreeMap::new(),
            hist: BTreeMap::new(),
            samples: Vec::new(),
            exhaustive: Vec::new(),
            notes: Vec::new(),
            inflight: File::create(format!("{}.inflight", cases_path)).expect("create inflight file"),
        }
    }
    /// record the input about to be handed to the implementation, so that a run the
    /// implementation brings down (SIGSEGV at a guard page, abort, stack overflow) can still name it
    pub fn inflight(&mut self, what: &str) {
        use std::io::{Seek, SeekFrom};
        let _ = self.inflight.set_len(0);
        let _ = self.inflight.seek(SeekFrom::Start(0));
        let _ = self.inflight.write_all(what.as_bytes());
    }
    /// one line for the runner: op, args, observed outcome (tab separated)
    pub fn case(&mut self, op: &str, args: &[&str], observed: &str) {
        let mut line = String::from(op);
        for a in args {
            line.push('\t');
            line.push_str(a);
        }
        line.push('\t');
        line.push_str(observed);
        debug_assert!(!line.contains('\n'));
        writeln!(self.cases, "{}", line).unwrap();
        self.case_lines += 1;
    }
    /// count one evaluation; `key` identifies the case, `nontrivial` by the driver's rule
    pub fn eval<K: Hash>(&mut self, key: &K, nontrivial: bool) {
        self.evaluations += 1;
        if nontrivial {
            let mut h = std::collections::hash_map::DefaultHasher::new();
            key.hash(&mut h);
            self.distinct.insert(h.finish());
        }
    }
    pub fn bump(&mut self, k: &str) {
        *self.hist.entry(k.to_string()).or_insert(0) += 1;
    }
    pub fn bump_by(&mut self, k: &str, n: u64) {
        *self.hist.entry(k.to_string()).or_insert(0) += n;
    }
    pub fn sample(&mut self, s: String) {
        if self.samples.len() < 12 {
            self.samples.push(s);
        }
    }
    pub fn fail(&mut self, oracle: &str, input: String, observed: String, expected: String) {
        if self.failures.len() < 200 {
            self.failures.push(Failure { oracle: oracle.to_string(), input, observed, expected, known: None });
        }
    }
    pub fn fail_known(&mut self, class: &str, oracle: &str, input: String, observed: String, expected: String) {
        *self.known_hits.entry(class.to_string()).or_insert(0) += 1;
        if self.failures.iter().filter(|f| f.known.as_deref() == Some(class)).count() < 3 {
            self.failures.push(Failure { oracle: oracle.to_string(), input, observed, expected, known: Some(class.to_string()) });
        }
    }
    pub fn finish(mut self, summary_path: &str, rule: &str) {
        self.cases.flush().unwrap();
        let mut s = String::from("{\n");
        s.push_str(&format!(" \"evaluations\": {},\n", self.evaluations));
        s.push_str(&format!(" \"case_lines\": {},\n", self.case_lines));
        s.push_str(&format!(" \"distinct_nontrivial\": {},\n", self.distinct.len()));
        s.push_str(&format!(" \"rule\": {},\n", json_str(rule)));
        s.push_str(" \"histogram\": {");
        let mut first = true;
        for (k, v) in &self.hist {
            if !first {
                s.push_str(", ");
            }
            first = false;
            s.push_str(&format!("{}: {}", json_str(k), v));
        }
        s.push_str("},\n \"known_hits\": {");
        first = true;
        for (k, v) in &self.known_hits {
            if !first {
                s.push_str(", ");
            }
            first = false;
            s.push_str(&format!("{}: {}", json_str(k), v));
        }
        s.push_str("},\n \"samples\": [");
        s.push_str(&self.samples.iter().map(|x| json_str(x)).collect::<Vec<_>>().join(", "));
        s.push_str("],\n \"exhaustive\": [");
        s.push_str(&self.exhaustive.iter().map(|x| json_str(x)).collect::<Vec<_>>().join(", "));
        s.push_str("],\n \"notes\": [");
        s.push_str(&self.notes.iter().map(|x| json_str(x)).collect::<Vec<_>>().join(", "));
        s.push_str("],\n \"failures\": [\n");
        let fs: Vec<String> = self
            .failures
            .iter()
            .map(|f| {
                format!(
                    "  {{\"oracle\": {}, \"input\": {}, \"observed\": {}, \"expected\": {}, \"known\": {}}}",
                    json_str(&f.oracle),
                    json_str(&f.input),
                    json_str(&f.observed),
                    json_str(&f.expected),
                    match &f.known {
                        Some(k) => json_str(k),
                        None => "null".to_string(),
                    }
                )
            })
            .collect();
        s.push_str(&fs.join(",\n"));
        s.push_str("\n ]\n}\n");
        std::fs::write(summary_path, s).expect("write summary");
    }
}
