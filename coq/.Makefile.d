Model/Base.vo Model/Base.glob Model/Base.v.beautified Model/Base.required_vo: Model/Base.v 
Model/Base.vio: Model/Base.v 
Model/Base.vos Model/Base.vok Model/Base.required_vos: Model/Base.v 
Model/MachineInt.vo Model/MachineInt.glob Model/MachineInt.v.beautified Model/MachineInt.required_vo: Model/MachineInt.v Model/Base.vo
Model/MachineInt.vio: Model/MachineInt.v Model/Base.vio
Model/MachineInt.vos Model/MachineInt.vok Model/MachineInt.required_vos: Model/MachineInt.v Model/Base.vos
Model/VarintParams.vo Model/VarintParams.glob Model/VarintParams.v.beautified Model/VarintParams.required_vo: Model/VarintParams.v Model/Base.vo Model/MachineInt.vo
Model/VarintParams.vio: Model/VarintParams.v Model/Base.vio Model/MachineInt.vio
Model/VarintParams.vos Model/VarintParams.vok Model/VarintParams.required_vos: Model/VarintParams.v Model/Base.vos Model/MachineInt.vos
Gen/GenArith.vo Gen/GenArith.glob Gen/GenArith.v.beautified Gen/GenArith.required_vo: Gen/GenArith.v Model/Base.vo Model/MachineInt.vo
Gen/GenArith.vio: Gen/GenArith.v Model/Base.vio Model/MachineInt.vio
Gen/GenArith.vos Gen/GenArith.vok Gen/GenArith.required_vos: Gen/GenArith.v Model/Base.vos Model/MachineInt.vos
Gen/GenLoops.vo Gen/GenLoops.glob Gen/GenLoops.v.beautified Gen/GenLoops.required_vo: Gen/GenLoops.v Model/Base.vo Model/MachineInt.vo Model/VarintParams.vo
Gen/GenLoops.vio: Gen/GenLoops.v Model/Base.vio Model/MachineInt.vio Model/VarintParams.vio
Gen/GenLoops.vos Gen/GenLoops.vok Gen/GenLoops.required_vos: Gen/GenLoops.v Model/Base.vos Model/MachineInt.vos Model/VarintParams.vos
Model/Varint.vo Model/Varint.glob Model/Varint.v.beautified Model/Varint.required_vo: Model/Varint.v Model/Base.vo Model/MachineInt.vo Model/VarintParams.vo Gen/GenArith.vo
Model/Varint.vio: Model/Varint.v Model/Base.vio Model/MachineInt.vio Model/VarintParams.vio Gen/GenArith.vio
Model/Varint.vos Model/Varint.vok Model/Varint.required_vos: Model/Varint.v Model/Base.vos Model/MachineInt.vos Model/VarintParams.vos Gen/GenArith.vos
Model/Utf8.vo Model/Utf8.glob Model/Utf8.v.beautified Model/Utf8.required_vo: Model/Utf8.v Model/Base.vo
Model/Utf8.vio: Model/Utf8.v Model/Base.vio
Model/Utf8.vos Model/Utf8.vok Model/Utf8.required_vos: Model/Utf8.v Model/Base.vos
Model/DataModel.vo Model/DataModel.glob Model/DataModel.v.beautified Model/DataModel.required_vo: Model/DataModel.v Model/Base.vo Model/MachineInt.vo Model/Utf8.vo
Model/DataModel.vio: Model/DataModel.v Model/Base.vio Model/MachineInt.vio Model/Utf8.vio
Model/DataModel.vos Model/DataModel.vok Model/DataModel.required_vos: Model/DataModel.v Model/Base.vos Model/MachineInt.vos Model/Utf8.vos
Model/Ser.vo Model/Ser.glob Model/Ser.v.beautified Model/Ser.required_vo: Model/Ser.v Model/Base.vo Model/MachineInt.vo Model/VarintParams.vo Gen/GenArith.vo Gen/GenLoops.vo Model/Varint.vo Model/Utf8.vo Model/DataModel.vo
Model/Ser.vio: Model/Ser.v Model/Base.vio Model/MachineInt.vio Model/VarintParams.vio Gen/GenArith.vio Gen/GenLoops.vio Model/Varint.vio Model/Utf8.vio Model/DataModel.vio
Model/Ser.vos Model/Ser.vok Model/Ser.required_vos: Model/Ser.v Model/Base.vos Model/MachineInt.vos Model/VarintParams.vos Gen/GenArith.vos Gen/GenLoops.vos Model/Varint.vos Model/Utf8.vos Model/DataModel.vos
Model/De.vo Model/De.glob Model/De.v.beautified Model/De.required_vo: Model/De.v Model/Base.vo Model/MachineInt.vo Model/VarintParams.vo Gen/GenArith.vo Gen/GenLoops.vo Model/Varint.vo Model/Utf8.vo Model/DataModel.vo
Model/De.vio: Model/De.v Model/Base.vio Model/MachineInt.vio Model/VarintParams.vio Gen/GenArith.vio Gen/GenLoops.vio Model/Varint.vio Model/Utf8.vio Model/DataModel.vio
Model/De.vos Model/De.vok Model/De.required_vos: Model/De.v Model/Base.vos Model/MachineInt.vos Model/VarintParams.vos Gen/GenArith.vos Gen/GenLoops.vos Model/Varint.vos Model/Utf8.vos Model/DataModel.vos
Model/Fixint.vo Model/Fixint.glob Model/Fixint.v.beautified Model/Fixint.required_vo: Model/Fixint.v Model/Base.vo Model/MachineInt.vo Model/DataModel.vo Model/Ser.vo Model/De.vo
Model/Fixint.vio: Model/Fixint.v Model/Base.vio Model/MachineInt.vio Model/DataModel.vio Model/Ser.vio Model/De.vio
Model/Fixint.vos Model/Fixint.vok Model/Fixint.required_vos: Model/Fixint.v Model/Base.vos Model/MachineInt.vos Model/DataModel.vos Model/Ser.vos Model/De.vos
Model/Cobs.vo Model/Cobs.glob Model/Cobs.v.beautified Model/Cobs.required_vo: Model/Cobs.v Model/Base.vo
Model/Cobs.vio: Model/Cobs.v Model/Base.vio
Model/Cobs.vos Model/Cobs.vok Model/Cobs.required_vos: Model/Cobs.v Model/Base.vos
Model/Crc.vo Model/Crc.glob Model/Crc.v.beautified Model/Crc.required_vo: Model/Crc.v Model/Base.vo
Model/Crc.vio: Model/Crc.v Model/Base.vio
Model/Crc.vos Model/Crc.vok Model/Crc.required_vos: Model/Crc.v Model/Base.vos
Model/SerFlavors.vo Model/SerFlavors.glob Model/SerFlavors.v.beautified Model/SerFlavors.required_vo: Model/SerFlavors.v Model/Base.vo Model/DataModel.vo Model/Ser.vo Model/Cobs.vo Model/Crc.vo
Model/SerFlavors.vio: Model/SerFlavors.v Model/Base.vio Model/DataModel.vio Model/Ser.vio Model/Cobs.vio Model/Crc.vio
Model/SerFlavors.vos Model/SerFlavors.vok Model/SerFlavors.required_vos: Model/SerFlavors.v Model/Base.vos Model/DataModel.vos Model/Ser.vos Model/Cobs.vos Model/Crc.vos
Model/DeFlavors.vo Model/DeFlavors.glob Model/DeFlavors.v.beautified Model/DeFlavors.required_vo: Model/DeFlavors.v Model/Base.vo Model/DataModel.vo Model/De.vo Model/Cobs.vo Model/Crc.vo
Model/DeFlavors.vio: Model/DeFlavors.v Model/Base.vio Model/DataModel.vio Model/De.vio Model/Cobs.vio Model/Crc.vio
Model/DeFlavors.vos Model/DeFlavors.vok Model/DeFlavors.required_vos: Model/DeFlavors.v Model/Base.vos Model/DataModel.vos Model/De.vos Model/Cobs.vos Model/Crc.vos
Model/Accumulator.vo Model/Accumulator.glob Model/Accumulator.v.beautified Model/Accumulator.required_vo: Model/Accumulator.v Model/Base.vo Model/DataModel.vo Model/De.vo Model/Cobs.vo Model/DeFlavors.vo
Model/Accumulator.vio: Model/Accumulator.v Model/Base.vio Model/DataModel.vio Model/De.vio Model/Cobs.vio Model/DeFlavors.vio
Model/Accumulator.vos Model/Accumulator.vok Model/Accumulator.required_vos: Model/Accumulator.v Model/Base.vos Model/DataModel.vos Model/De.vos Model/Cobs.vos Model/DeFlavors.vos
Model/Extract.vo Model/Extract.glob Model/Extract.v.beautified Model/Extract.required_vo: Model/Extract.v Model/Base.vo Model/MachineInt.vo Model/VarintParams.vo Gen/GenArith.vo Gen/GenLoops.vo Model/Varint.vo Model/Utf8.vo Model/DataModel.vo Model/Ser.vo Model/De.vo Model/Fixint.vo Model/Cobs.vo Model/Crc.vo Model/SerFlavors.vo Model/DeFlavors.vo Model/Accumulator.vo Spec/WireFormat.vo
Model/Extract.vio: Model/Extract.v Model/Base.vio Model/MachineInt.vio Model/VarintParams.vio Gen/GenArith.vio Gen/GenLoops.vio Model/Varint.vio Model/Utf8.vio Model/DataModel.vio Model/Ser.vio Model/De.vio Model/Fixint.vio Model/Cobs.vio Model/Crc.vio Model/SerFlavors.vio Model/DeFlavors.vio Model/Accumulator.vio Spec/WireFormat.vio
Model/Extract.vos Model/Extract.vok Model/Extract.required_vos: Model/Extract.v Model/Base.vos Model/MachineInt.vos Model/VarintParams.vos Gen/GenArith.vos Gen/GenLoops.vos Model/Varint.vos Model/Utf8.vos Model/DataModel.vos Model/Ser.vos Model/De.vos Model/Fixint.vos Model/Cobs.vos Model/Crc.vos Model/SerFlavors.vos Model/DeFlavors.vos Model/Accumulator.vos Spec/WireFormat.vos
Proofs/BaseFacts.vo Proofs/BaseFacts.glob Proofs/BaseFacts.v.beautified Proofs/BaseFacts.required_vo: Proofs/BaseFacts.v Model/Base.vo
Proofs/BaseFacts.vio: Proofs/BaseFacts.v Model/Base.vio
Proofs/BaseFacts.vos Proofs/BaseFacts.vok Proofs/BaseFacts.required_vos: Proofs/BaseFacts.v Model/Base.vos
Spec/WireFormat.vo Spec/WireFormat.glob Spec/WireFormat.v.beautified Spec/WireFormat.required_vo: Spec/WireFormat.v Model/Base.vo Model/MachineInt.vo Model/Utf8.vo Model/DataModel.vo
Spec/WireFormat.vio: Spec/WireFormat.v Model/Base.vio Model/MachineInt.vio Model/Utf8.vio Model/DataModel.vio
Spec/WireFormat.vos Spec/WireFormat.vok Spec/WireFormat.required_vos: Spec/WireFormat.v Model/Base.vos Model/MachineInt.vos Model/Utf8.vos Model/DataModel.vos
Proofs/BitFacts.vo Proofs/BitFacts.glob Proofs/BitFacts.v.beautified Proofs/BitFacts.required_vo: Proofs/BitFacts.v Model/Base.vo
Proofs/BitFacts.vio: Proofs/BitFacts.v Model/Base.vio
Proofs/BitFacts.vos Proofs/BitFacts.vok Proofs/BitFacts.required_vos: Proofs/BitFacts.v Model/Base.vos
Proofs/VarintFacts.vo Proofs/VarintFacts.glob Proofs/VarintFacts.v.beautified Proofs/VarintFacts.required_vo: Proofs/VarintFacts.v Model/Base.vo Model/MachineInt.vo Model/VarintParams.vo Gen/GenArith.vo Gen/GenLoops.vo Model/Varint.vo Spec/WireFormat.vo Proofs/BaseFacts.vo Proofs/BitFacts.vo
Proofs/VarintFacts.vio: Proofs/VarintFacts.v Model/Base.vio Model/MachineInt.vio Model/VarintParams.vio Gen/GenArith.vio Gen/GenLoops.vio Model/Varint.vio Spec/WireFormat.vio Proofs/BaseFacts.vio Proofs/BitFacts.vio
Proofs/VarintFacts.vos Proofs/VarintFacts.vok Proofs/VarintFacts.required_vos: Proofs/VarintFacts.v Model/Base.vos Model/MachineInt.vos Model/VarintParams.vos Gen/GenArith.vos Gen/GenLoops.vos Model/Varint.vos Spec/WireFormat.vos Proofs/BaseFacts.vos Proofs/BitFacts.vos
Proofs/VarintCore.vo Proofs/VarintCore.glob Proofs/VarintCore.v.beautified Proofs/VarintCore.required_vo: Proofs/VarintCore.v Model/Base.vo Model/MachineInt.vo Model/VarintParams.vo Gen/GenArith.vo Gen/GenLoops.vo Model/Varint.vo Spec/WireFormat.vo Model/De.vo Proofs/BaseFacts.vo Proofs/BitFacts.vo Proofs/VarintFacts.vo
Proofs/VarintCore.vio: Proofs/VarintCore.v Model/Base.vio Model/MachineInt.vio Model/VarintParams.vio Gen/GenArith.vio Gen/GenLoops.vio Model/Varint.vio Spec/WireFormat.vio Model/De.vio Proofs/BaseFacts.vio Proofs/BitFacts.vio Proofs/VarintFacts.vio
Proofs/VarintCore.vos Proofs/VarintCore.vok Proofs/VarintCore.required_vos: Proofs/VarintCore.v Model/Base.vos Model/MachineInt.vos Model/VarintParams.vos Gen/GenArith.vos Gen/GenLoops.vos Model/Varint.vos Spec/WireFormat.vos Model/De.vos Proofs/BaseFacts.vos Proofs/BitFacts.vos Proofs/VarintFacts.vos
Proofs/ZigZagFacts.vo Proofs/ZigZagFacts.glob Proofs/ZigZagFacts.v.beautified Proofs/ZigZagFacts.required_vo: Proofs/ZigZagFacts.v Model/Base.vo Model/MachineInt.vo Gen/GenArith.vo Model/DataModel.vo Spec/WireFormat.vo Model/Ser.vo Model/De.vo
Proofs/ZigZagFacts.vio: Proofs/ZigZagFacts.v Model/Base.vio Model/MachineInt.vio Gen/GenArith.vio Model/DataModel.vio Spec/WireFormat.vio Model/Ser.vio Model/De.vio
Proofs/ZigZagFacts.vos Proofs/ZigZagFacts.vok Proofs/ZigZagFacts.required_vos: Proofs/ZigZagFacts.v Model/Base.vos Model/MachineInt.vos Gen/GenArith.vos Model/DataModel.vos Spec/WireFormat.vos Model/Ser.vos Model/De.vos
Proofs/FixintFacts.vo Proofs/FixintFacts.glob Proofs/FixintFacts.v.beautified Proofs/FixintFacts.required_vo: Proofs/FixintFacts.v Model/Base.vo Model/MachineInt.vo Model/DataModel.vo Model/Ser.vo Model/De.vo Model/Fixint.vo Proofs/BaseFacts.vo Proofs/ZigZagFacts.vo
Proofs/FixintFacts.vio: Proofs/FixintFacts.v Model/Base.vio Model/MachineInt.vio Model/DataModel.vio Model/Ser.vio Model/De.vio Model/Fixint.vio Proofs/BaseFacts.vio Proofs/ZigZagFacts.vio
Proofs/FixintFacts.vos Proofs/FixintFacts.vok Proofs/FixintFacts.required_vos: Proofs/FixintFacts.v Model/Base.vos Model/MachineInt.vos Model/DataModel.vos Model/Ser.vos Model/De.vos Model/Fixint.vos Proofs/BaseFacts.vos Proofs/ZigZagFacts.vos
Properties/C13.vo Properties/C13.glob Properties/C13.v.beautified Properties/C13.required_vo: Properties/C13.v Model/Base.vo Model/MachineInt.vo Model/DataModel.vo Model/Ser.vo Model/De.vo Model/Fixint.vo Proofs/FixintFacts.vo
Properties/C13.vio: Properties/C13.v Model/Base.vio Model/MachineInt.vio Model/DataModel.vio Model/Ser.vio Model/De.vio Model/Fixint.vio Proofs/FixintFacts.vio
Properties/C13.vos Properties/C13.vok Properties/C13.required_vos: Properties/C13.v Model/Base.vos Model/MachineInt.vos Model/DataModel.vos Model/Ser.vos Model/De.vos Model/Fixint.vos Proofs/FixintFacts.vos
Proofs/ValueInd.vo Proofs/ValueInd.glob Proofs/ValueInd.v.beautified Proofs/ValueInd.required_vo: Proofs/ValueInd.v Model/Base.vo Model/DataModel.vo
Proofs/ValueInd.vio: Proofs/ValueInd.v Model/Base.vio Model/DataModel.vio
Proofs/ValueInd.vos Proofs/ValueInd.vok Proofs/ValueInd.required_vos: Proofs/ValueInd.v Model/Base.vos Model/DataModel.vos
Proofs/SerFacts.vo Proofs/SerFacts.glob Proofs/SerFacts.v.beautified Proofs/SerFacts.required_vo: Proofs/SerFacts.v Model/Base.vo Model/MachineInt.vo Model/VarintParams.vo Gen/GenArith.vo Gen/GenLoops.vo Model/Varint.vo Model/Utf8.vo Model/DataModel.vo Model/Ser.vo Spec/WireFormat.vo Proofs/BaseFacts.vo Proofs/BitFacts.vo Proofs/VarintFacts.vo Proofs/VarintCore.vo Proofs/ZigZagFacts.vo Proofs/ValueInd.vo
Proofs/SerFacts.vio: Proofs/SerFacts.v Model/Base.vio Model/MachineInt.vio Model/VarintParams.vio Gen/GenArith.vio Gen/GenLoops.vio Model/Varint.vio Model/Utf8.vio Model/DataModel.vio Model/Ser.vio Spec/WireFormat.vio Proofs/BaseFacts.vio Proofs/BitFacts.vio Proofs/VarintFacts.vio Proofs/VarintCore.vio Proofs/ZigZagFacts.vio Proofs/ValueInd.vio
Proofs/SerFacts.vos Proofs/SerFacts.vok Proofs/SerFacts.required_vos: Proofs/SerFacts.v Model/Base.vos Model/MachineInt.vos Model/VarintParams.vos Gen/GenArith.vos Gen/GenLoops.vos Model/Varint.vos Model/Utf8.vos Model/DataModel.vos Model/Ser.vos Spec/WireFormat.vos Proofs/BaseFacts.vos Proofs/BitFacts.vos Proofs/VarintFacts.vos Proofs/VarintCore.vos Proofs/ZigZagFacts.vos Proofs/ValueInd.vos
Proofs/Utf8Facts.vo Proofs/Utf8Facts.glob Proofs/Utf8Facts.v.beautified Proofs/Utf8Facts.required_vo: Proofs/Utf8Facts.v Model/Base.vo Model/Utf8.vo
Proofs/Utf8Facts.vio: Proofs/Utf8Facts.v Model/Base.vio Model/Utf8.vio
Proofs/Utf8Facts.vos Proofs/Utf8Facts.vok Proofs/Utf8Facts.required_vos: Proofs/Utf8Facts.v Model/Base.vos Model/Utf8.vos
Proofs/DeFacts.vo Proofs/DeFacts.glob Proofs/DeFacts.v.beautified Proofs/DeFacts.required_vo: Proofs/DeFacts.v Model/Base.vo Model/MachineInt.vo Model/VarintParams.vo Gen/GenArith.vo Gen/GenLoops.vo Model/Varint.vo Model/Utf8.vo Model/DataModel.vo Model/Ser.vo Model/De.vo Spec/WireFormat.vo Proofs/BaseFacts.vo Proofs/BitFacts.vo Proofs/VarintFacts.vo Proofs/VarintCore.vo Proofs/ZigZagFacts.vo Proofs/ValueInd.vo Proofs/SerFacts.vo Proofs/Utf8Facts.vo Proofs/FixintFacts.vo
Proofs/DeFacts.vio: Proofs/DeFacts.v Model/Base.vio Model/MachineInt.vio Model/VarintParams.vio Gen/GenArith.vio Gen/GenLoops.vio Model/Varint.vio Model/Utf8.vio Model/DataModel.vio Model/Ser.vio Model/De.vio Spec/WireFormat.vio Proofs/BaseFacts.vio Proofs/BitFacts.vio Proofs/VarintFacts.vio Proofs/VarintCore.vio Proofs/ZigZagFacts.vio Proofs/ValueInd.vio Proofs/SerFacts.vio Proofs/Utf8Facts.vio Proofs/FixintFacts.vio
Proofs/DeFacts.vos Proofs/DeFacts.vok Proofs/DeFacts.required_vos: Proofs/DeFacts.v Model/Base.vos Model/MachineInt.vos Model/VarintParams.vos Gen/GenArith.vos Gen/GenLoops.vos Model/Varint.vos Model/Utf8.vos Model/DataModel.vos Model/Ser.vos Model/De.vos Spec/WireFormat.vos Proofs/BaseFacts.vos Proofs/BitFacts.vos Proofs/VarintFacts.vos Proofs/VarintCore.vos Proofs/ZigZagFacts.vos Proofs/ValueInd.vos Proofs/SerFacts.vos Proofs/Utf8Facts.vos Proofs/FixintFacts.vos
Properties/C01.vo Properties/C01.glob Properties/C01.v.beautified Properties/C01.required_vo: Properties/C01.v Model/Base.vo Model/MachineInt.vo Model/DataModel.vo Model/Ser.vo Model/De.vo Proofs/DeFacts.vo
Properties/C01.vio: Properties/C01.v Model/Base.vio Model/MachineInt.vio Model/DataModel.vio Model/Ser.vio Model/De.vio Proofs/DeFacts.vio
Properties/C01.vos Properties/C01.vok Properties/C01.required_vos: Properties/C01.v Model/Base.vos Model/MachineInt.vos Model/DataModel.vos Model/Ser.vos Model/De.vos Proofs/DeFacts.vos
Properties/C02.vo Properties/C02.glob Properties/C02.v.beautified Properties/C02.required_vo: Properties/C02.v Model/Base.vo Model/MachineInt.vo Model/VarintParams.vo Gen/GenArith.vo Gen/GenLoops.vo Model/Varint.vo Model/Utf8.vo Model/DataModel.vo Model/Ser.vo Model/De.vo Spec/WireFormat.vo Proofs/VarintFacts.vo Proofs/VarintCore.vo Proofs/ZigZagFacts.vo Proofs/SerFacts.vo
Properties/C02.vio: Properties/C02.v Model/Base.vio Model/MachineInt.vio Model/VarintParams.vio Gen/GenArith.vio Gen/GenLoops.vio Model/Varint.vio Model/Utf8.vio Model/DataModel.vio Model/Ser.vio Model/De.vio Spec/WireFormat.vio Proofs/VarintFacts.vio Proofs/VarintCore.vio Proofs/ZigZagFacts.vio Proofs/SerFacts.vio
Properties/C02.vos Properties/C02.vok Properties/C02.required_vos: Properties/C02.v Model/Base.vos Model/MachineInt.vos Model/VarintParams.vos Gen/GenArith.vos Gen/GenLoops.vos Model/Varint.vos Model/Utf8.vos Model/DataModel.vos Model/Ser.vos Model/De.vos Spec/WireFormat.vos Proofs/VarintFacts.vos Proofs/VarintCore.vos Proofs/ZigZagFacts.vos Proofs/SerFacts.vos
Proofs/DeSpec.vo Proofs/DeSpec.glob Proofs/DeSpec.v.beautified Proofs/DeSpec.required_vo: Proofs/DeSpec.v Model/Base.vo Model/MachineInt.vo Model/VarintParams.vo Gen/GenArith.vo Gen/GenLoops.vo Model/Varint.vo Model/Utf8.vo Model/DataModel.vo Model/Ser.vo Model/De.vo Spec/WireFormat.vo Proofs/BaseFacts.vo Proofs/BitFacts.vo Proofs/VarintFacts.vo Proofs/VarintCore.vo Proofs/ZigZagFacts.vo Proofs/ValueInd.vo Proofs/FixintFacts.vo Proofs/DeFacts.vo
Proofs/DeSpec.vio: Proofs/DeSpec.v Model/Base.vio Model/MachineInt.vio Model/VarintParams.vio Gen/GenArith.vio Gen/GenLoops.vio Model/Varint.vio Model/Utf8.vio Model/DataModel.vio Model/Ser.vio Model/De.vio Spec/WireFormat.vio Proofs/BaseFacts.vio Proofs/BitFacts.vio Proofs/VarintFacts.vio Proofs/VarintCore.vio Proofs/ZigZagFacts.vio Proofs/ValueInd.vio Proofs/FixintFacts.vio Proofs/DeFacts.vio
Proofs/DeSpec.vos Proofs/DeSpec.vok Proofs/DeSpec.required_vos: Proofs/DeSpec.v Model/Base.vos Model/MachineInt.vos Model/VarintParams.vos Gen/GenArith.vos Gen/GenLoops.vos Model/Varint.vos Model/Utf8.vos Model/DataModel.vos Model/Ser.vos Model/De.vos Spec/WireFormat.vos Proofs/BaseFacts.vos Proofs/BitFacts.vos Proofs/VarintFacts.vos Proofs/VarintCore.vos Proofs/ZigZagFacts.vos Proofs/ValueInd.vos Proofs/FixintFacts.vos Proofs/DeFacts.vos
Properties/C03.vo Properties/C03.glob Properties/C03.v.beautified Properties/C03.required_vo: Properties/C03.v Model/Base.vo Model/MachineInt.vo Model/VarintParams.vo Gen/GenArith.vo Gen/GenLoops.vo Model/Varint.vo Model/Utf8.vo Model/DataModel.vo Model/Ser.vo Model/De.vo Spec/WireFormat.vo Proofs/VarintFacts.vo Proofs/VarintCore.vo Proofs/DeFacts.vo Proofs/DeSpec.vo
Properties/C03.vio: Properties/C03.v Model/Base.vio Model/MachineInt.vio Model/VarintParams.vio Gen/GenArith.vio Gen/GenLoops.vio Model/Varint.vio Model/Utf8.vio Model/DataModel.vio Model/Ser.vio Model/De.vio Spec/WireFormat.vio Proofs/VarintFacts.vio Proofs/VarintCore.vio Proofs/DeFacts.vio Proofs/DeSpec.vio
Properties/C03.vos Properties/C03.vok Properties/C03.required_vos: Properties/C03.v Model/Base.vos Model/MachineInt.vos Model/VarintParams.vos Gen/GenArith.vos Gen/GenLoops.vos Model/Varint.vos Model/Utf8.vos Model/DataModel.vos Model/Ser.vos Model/De.vos Spec/WireFormat.vos Proofs/VarintFacts.vos Proofs/VarintCore.vos Proofs/DeFacts.vos Proofs/DeSpec.vos
