Model/Base.vo Model/Base.glob Model/Base.v.beautified Model/Base.required_vo: Model/Base.v 
Model/Base.vio: Model/Base.v 
Model/Base.vos Model/Base.vok Model/Base.required_vos: Model/Base.v 
Model/MachineInt.vo Model/MachineInt.glob Model/MachineInt.v.beautified Model/MachineInt.required_vo: Model/MachineInt.v Model/Base.vo
Model/MachineInt.vio: Model/MachineInt.v Model/Base.vio
Model/MachineInt.vos Model/MachineInt.vok Model/MachineInt.required_vos: Model/MachineInt.v Model/Base.vos
Model/VarintParams.vo Model/VarintParams.glob Model/VarintParams.v.beautified Model/VarintParams.required_vo: Model/VarintParams.v Model/Base.vo Model/MachineInt.vo
Model/VarintParams.vio: Model/VarintParams.v Model/Base.vio Model/MachineInt.vio
Model/VarintParams.vos Model/VarintParams.vok Model/VarintParams.required_vos: Model/VarintParams.v Model/Base.vos Model/MachineInt.vos
Gen/GenArith.vo Gen/GenArith.glob Gen/GenArith.v.beautified Gen/GenArith.required_vo: Gen/GenArith.v Model/Base.vo Model/MachineInt.vo
Gen/GenArith.vio: Gen/GenArith.v Model/Base.vio Model/MachineInt.vio
Gen/GenArith.vos Gen/GenArith.vok Gen/GenArith.required_vos: Gen/GenArith.v Model/Base.vos Model/MachineInt.vos
Gen/GenLoops.vo Gen/GenLoops.glob Gen/GenLoops.v.beautified Gen/GenLoops.required_vo: Gen/GenLoops.v Model/Base.vo Model/MachineInt.vo Model/VarintParams.vo
Gen/GenLoops.vio: Gen/GenLoops.v Model/Base.vio Model/MachineInt.vio Model/VarintParams.vio
Gen/GenLoops.vos Gen/GenLoops.vok Gen/GenLoops.required_vos: Gen/GenLoops.v Model/Base.vos Model/MachineInt.vos Model/VarintParams.vos
Model/Varint.vo Model/Varint.glob Model/Varint.v.beautified Model/Varint.required_vo: Model/Varint.v Model/Base.vo Model/MachineInt.vo Model/VarintParams.vo Gen/GenArith.vo
Model/Varint.vio: Model/Varint.v Model/Base.vio Model/MachineInt.vio Model/VarintParams.vio Gen/GenArith.vio
Model/Varint.vos Model/Varint.vok Model/Varint.required_vos: Model/Varint.v Model/Base.vos Model/MachineInt.vos Model/VarintParams.vos Gen/GenArith.vos
Model/Utf8.vo Model/Utf8.glob Model/Utf8.v.beautified Model/Utf8.required_vo: Model/Utf8.v Model/Base.vo
Model/Utf8.vio: Model/Utf8.v Model/Base.vio
Model/Utf8.vos Model/Utf8.vok Model/Utf8.required_vos: Model/Utf8.v Model/Base.vos
Model/DataModel.vo Model/DataModel.glob Model/DataModel.v.beautified Model/DataModel.required_vo: Model/DataModel.v Model/Base.vo Model/MachineInt.vo Model/Utf8.vo
Model/DataModel.vio: Model/DataModel.v Model/Base.vio Model/MachineInt.vio Model/Utf8.vio
Model/DataModel.vos Model/DataModel.vok Model/DataModel.required_vos: Model/DataModel.v Model/Base.vos Model/MachineInt.vos Model/Utf8.vos
Model/Ser.vo Model/Ser.glob Model/Ser.v.beautified Model/Ser.required_vo: Model/Ser.v Model/Base.vo Model/MachineInt.vo Model/VarintParams.vo Gen/GenArith.vo Gen/GenLoops.vo Model/Varint.vo Model/Utf8.vo Model/DataModel.vo
Model/Ser.vio: Model/Ser.v Model/Base.vio Model/MachineInt.vio Model/VarintParams.vio Gen/GenArith.vio Gen/GenLoops.vio Model/Varint.vio Model/Utf8.vio Model/DataModel.vio
Model/Ser.vos Model/Ser.vok Model/Ser.required_vos: Model/Ser.v Model/Base.vos Model/MachineInt.vos Model/VarintParams.vos Gen/GenArith.vos Gen/GenLoops.vos Model/Varint.vos Model/Utf8.vos Model/DataModel.vos
Model/De.vo Model/De.glob Model/De.v.beautified Model/De.required_vo: Model/De.v Model/Base.vo Model/MachineInt.vo Model/VarintParams.vo Gen/GenArith.vo Gen/GenLoops.vo Model/Varint.vo Model/Utf8.vo Model/DataModel.vo
Model/De.vio: Model/De.v Model/Base.vio Model/MachineInt.vio Model/VarintParams.vio Gen/GenArith.vio Gen/GenLoops.vio Model/Varint.vio Model/Utf8.vio Model/DataModel.vio
Model/De.vos Model/De.vok Model/De.required_vos: Model/De.v Model/Base.vos Model/MachineInt.vos Model/VarintParams.vos Gen/GenArith.vos Gen/GenLoops.vos Model/Varint.vos Model/Utf8.vos Model/DataModel.vos
