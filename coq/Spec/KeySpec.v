(* KeySpec.v: the documented key: 64-bit FNV-1a over the path bytes followed by the
   tag-and-name stream of the schema, little-endian digest.  The tag bytes are the
   "shuffled primes" the source documents next to the hasher; struct and enum type names do
   not enter the stream (hashv2: "safe type punning"). *)
From PV Require Import Base DataModel Schema.
Open Scope N_scope.

Definition spec_basis : N := 14695981039346656037.      (* 0xcbf29ce484222325 *)
Definition spec_prime : N := 1099511628211.             (* 0x00000100000001b3 *)
Definition spec_fnv_step (state : N) (b : byte) : N := (N.lxor state b * spec_prime) mod 2 ^ 64.
Definition spec_fnv1a64 (bs : list byte) : N := fold_left spec_fnv_step bs spec_basis.

Definition prim_tag (p : prim) : N :=
  match p with
  | PBool => 17 | PI8 => 197 | PU8 => 61 | PI16 => 29 | PI32 => 13 | PI64 => 11 | PI128 => 2
  | PU16 => 131 | PU32 => 211 | PU64 => 19 | PU128 => 139 | PUsize => 107 | PIsize => 173
  | PF32 => 239 | PF64 => 113 | PChar => 193 | PString => 37 | PByteArray => 101
  | PUnit => 71 | PSchema => 229
  end.
Definition struct_data_tag (k : dkind) : N :=
  match k with DUnit => 191 | DNewtype => 157 | DTuple => 5 | DStruct => 127 end.
Definition variant_data_tag (k : dkind) : N :=
  match k with DUnit => 181 | DNewtype => 223 | DTuple => 199 | DStruct => 103 end.

Section Stream.
  Variable stream : schema -> list byte.
  Fixpoint stream_fields (named : bool) (fs : list (str * schema)) : list byte :=
    match fs with
    | [] => []
    | f :: r => (if named then fst f else []) ++ stream (snd f) ++ stream_fields named r
    end.
End Stream.

Fixpoint stream (s : schema) : list byte :=
  match s with
  | SPrim p => [prim_tag p]
  | SOption t => 109 :: stream t
  | SSeq t => 3 :: stream t
  | STuple ts => 167 :: flat_map stream ts
  | SMap k v => 79 :: stream k ++ stream v
  | SStruct _ k fields =>                               (* the struct's own name is NOT hashed *)
    struct_data_tag k :: stream_fields stream (match k with DStruct => true | _ => false end) fields
  | SEnum _ vs =>                                       (* nor the enum's; variant names are *)
    233 :: (fix go (vs : list (str * dkind * list (str * schema))) : list byte :=
              match vs with
              | [] => []
              | v :: r => fst (fst v) ++ variant_data_tag (snd (fst v))
                          :: stream_fields stream (match snd (fst v) with DStruct => true | _ => false end) (snd v) ++ go r
              end) vs
  end.

Definition spec_key (path : str) (s : schema) : list byte :=
  le_bytes 8 (spec_fnv1a64 (path ++ stream s)).
