(* CobsRef.v: COBS (consistent overhead byte stuffing) as a definition, independent of the
   streaming encoder and the in-place decoder of crate `cobs`.
   Encoding, on the message followed by a phantom zero: a run of 254 non-zero bytes gives
   the block 0xFF :: run and consumes no zero; a shorter run ended by a zero gives
   (len + 1) :: run and consumes the zero.  (So a message whose last run has exactly 254
   bytes ends with an extra 0x01 block: this is what the crate's encoder emits.) *)
From PV Require Import Base.
Open Scope N_scope.

(* `run`: the non-zero bytes of the block being collected (fewer than 254) *)
Fixpoint cobs_go (run : list byte) (m : list byte) : list byte :=
  match m with
  | [] => N.of_nat (length run + 1) :: run                    (* the phantom zero ends the last block *)
  | b :: m' =>
    if b =? 0 then N.of_nat (length run + 1) :: run ++ cobs_go [] m'
    else if Nat.eqb (length run + 1) 254 then 255 :: (run ++ [b]) ++ cobs_go [] m'
    else cobs_go (run ++ [b]) m'
  end.
Definition cobs_ref (m : list byte) : list byte := cobs_go [] m.
Definition cobs_frame (m : list byte) : list byte := cobs_ref m ++ [0].

(* Decoding of one frame (a list without zero bytes): each code byte c is followed by c - 1
   data bytes; a zero is emitted after the block unless c = 0xFF or the frame ends there.
   None: a code byte points past the end of the frame. *)
Fixpoint cobs_dec_fuel (fuel : nat) (frame : list byte) : option (list byte) :=
  match frame with
  | [] => Some []
  | code :: rest =>
    match fuel with
    | O => None
    | S f =>
      let n := (N.to_nat code - 1)%nat in
      if Nat.ltb (length rest) n then None
      else
        let data := firstn n rest in
        let rest' := skipn n rest in
        match cobs_dec_fuel f rest' with
        | None => None
        | Some tail =>
          Some (data ++ (if negb (code =? 255) && negb (Nat.eqb (length rest') 0) then [0] else []) ++ tail)
        end
    end
  end.
Definition cobs_dec_ref (frame : list byte) : option (list byte) := cobs_dec_fuel (length frame) frame.

(* the frame of a buffer: its bytes up to (not including) the first zero, or all of them *)
Fixpoint take_frame (buf : list byte) : list byte :=
  match buf with
  | [] => []
  | b :: r => if b =? 0 then [] else b :: take_frame r
  end.
