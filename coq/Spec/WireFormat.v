(* WireFormat.v: the postcard wire format, written from spec/src/wire-format.md with plain
   arithmetic (div, mod, powers): no shifts, masks or loops taken from the implementation.
   This is the independent statement the encoder is proved equal to (C02) and the decoder
   is proved sound and complete against (C03). *)
From PV Require Import Base MachineInt Utf8 DataModel.
Open Scope N_scope.

(* "varint": 7 bits per byte, least significant group first, bit 7 = continuation.
   The canonical (minimal) form: *)
Fixpoint spec_varint_fuel (fuel : nat) (n : N) : list byte :=
  match fuel with
  | O => []
  | S f => if n <? 128 then [n] else (n mod 128 + 128) :: spec_varint_fuel f (n / 128)
  end.
(* N.size n bits need at most N.size n groups (and at least one) *)
Definition spec_varint (n : N) : list byte := spec_varint_fuel (S (N.to_nat (N.size n))) n.

(* zig-zag: 0, -1, 1, -2, 2 ... -> 0, 1, 2, 3, 4 ... *)
Definition spec_zigzag (z : Z) : N := Z.to_N (if (0 <=? z)%Z then 2 * z else - 2 * z - 1)%Z.
Definition spec_unzigzag (n : N) : Z :=
  (if (Z.of_N n mod 2 =? 0) then Z.of_N n / 2 else - (Z.of_N n / 2) - 1)%Z.

Definition spec_int (k : ikind) (z : Z) : list byte :=
  match k with
  | U8 => [Z.to_N z]
  | I8 => [Z.to_N (z mod 256)]               (* two's complement byte *)
  | U16 | U32 | U64 | U128 => spec_varint (Z.to_N z)
  | I16 | I32 | I64 | I128 => spec_varint (spec_zigzag z)
  end.
Definition spec_len (n : nat) : list byte := spec_varint (N.of_nat n).   (* varint(usize) *)

Fixpoint spec_enc (v : value) : list byte :=
  match v with
  | VBool b => [if b then 1 else 0]
  | VInt k z => spec_int k z
  | VF32 b => le_bytes 4 b
  | VF64 b => le_bytes 8 b
  | VChar c => let u := utf8_encode c in spec_len (length u) ++ u
  | VStr bs | VBytes bs => spec_len (length bs) ++ bs
  | VNone => [0]
  | VSome x => 1 :: spec_enc x
  | VUnit | VUnitStruct => []
  | VNewtype x => spec_enc x
  | VSeq vs => spec_len (length vs) ++ flat_map spec_enc vs
  | VTuple vs | VTupleStruct vs | VStruct vs => flat_map spec_enc vs
  | VMap kvs => spec_len (length kvs) ++ flat_map (fun kv => spec_enc (fst kv) ++ spec_enc (snd kv)) kvs
  | VVariant idx p => spec_varint idx ++ spec_enc p      (* varint(u32) discriminant *)
  | VSeqNoLen _ | VMapNoLen _ => []                      (* refused: no encoding *)
  | VCollectStr pieces => spec_len (length (concat pieces)) ++ concat pieces
  end.

(* ---- the decoder side: every encoding the specification permits ---- *)

(* bs is a varint of at most ceil(w/7) bytes denoting n < 2^w: every byte but the last has
   the continuation bit, groups are the low 7 bits, least significant first.  Non-minimal
   encodings (trailing zero groups) are permitted as long as the length stays within the
   maximum. *)
Fixpoint varint_value (bs : list byte) : N :=
  match bs with [] => 0 | b :: r => b mod 128 + 128 * varint_value r end.
Fixpoint varint_shape (bs : list byte) : bool :=
  match bs with
  | [] => false
  | [b] => b <? 128
  | b :: r => (128 <=? b) && (b <? 256) && varint_shape r
  end.
Definition varint_max_len (w : N) : N := (w + 6) / 7.
Definition valid_varint (w : N) (bs : list byte) (n : N) : Prop :=
  varint_shape bs = true /\ N.of_nat (length bs) <= varint_max_len w /\
  varint_value bs = n /\ n < 2 ^ w.

(* executable reference reader: Ok (n, rest) / which rule fails first *)
Inductive vspec := VsOk (n : N) (rest : list byte) | VsEnd | VsBad.
Fixpoint spec_vread_loop (w : N) (fuel : nat) (i acc : N) (l : list byte) : vspec :=
  match fuel with
  | O => VsBad                                        (* longer than ceil(w/7) bytes *)
  | S f =>
    match l with
    | [] => VsEnd
    | b :: r =>
      let acc' := acc + (b mod 128) * 128 ^ i in
      if b <? 128 then (if acc' <? 2 ^ w then VsOk acc' r else VsBad)   (* out of range *)
      else spec_vread_loop w f (i + 1) acc' r
    end
  end.
Definition spec_vread (w : N) (l : list byte) : vspec :=
  spec_vread_loop w (N.to_nat (varint_max_len w)) 0 0 l.

(* ---- reference decoder: what wire-format.md prescribes for every input, arithmetically ---- *)
Definition vspec_res (v : vspec) : res (N * list byte) :=
  match v with
  | VsOk n r => Ok (n, r)
  | VsEnd => Err DeserializeUnexpectedEnd
  | VsBad => Err DeserializeBadVarint
  end.
Definition sd_varint (w : N) (l : list byte) : res (N * list byte) := vspec_res (spec_vread w l).
Definition sd_byte (l : list byte) : res (byte * list byte) :=
  match l with [] => Err DeserializeUnexpectedEnd | b :: r => Ok (b, r) end.
Definition sd_take (n : N) (l : list byte) : res (list byte * list byte) :=
  if N.of_nat (length l) <? n then Err DeserializeUnexpectedEnd
  else Ok (firstn (N.to_nat n) l, skipn (N.to_nat n) l).
Definition ik_width (k : ikind) : N :=
  match k with I8 | U8 => 8 | I16 | U16 => 16 | I32 | U32 => 32 | I64 | U64 => 64 | I128 | U128 => 128 end.

Definition sd_int (k : ikind) (l : list byte) : res (value * list byte) :=
  match k with
  | U8 => let* '(b, r) := sd_byte l in Ok (VInt U8 (Z.of_N b), r)
  | I8 => let* '(b, r) := sd_byte l in
          Ok (VInt I8 (if b <? 128 then Z.of_N b else (Z.of_N b - 256)%Z), r)
  | U16 | U32 | U64 | U128 => let* '(n, r) := sd_varint (ik_width k) l in Ok (VInt k (Z.of_N n), r)
  | I16 | I32 | I64 | I128 => let* '(n, r) := sd_varint (ik_width k) l in Ok (VInt k (spec_unzigzag n), r)
  end.

Section SpecFields.
  Variable sd : ty -> list byte -> res (value * list byte).
  Fixpoint sd_fields (ts : list ty) (l : list byte) : res (list value * list byte) :=
    match ts with
    | [] => Ok ([], l)
    | t :: ts' => let* '(v, l1) := sd t l in let* '(vs, l2) := sd_fields ts' l1 in Ok (v :: vs, l2)
    end.
End SpecFields.

Fixpoint spec_de (t : ty) (l : list byte) {struct t} : res (value * list byte) :=
  match t with
  | TBool => let* '(b, r) := sd_byte l in
             if b =? 0 then Ok (VBool false, r) else if b =? 1 then Ok (VBool true, r)
             else Err DeserializeBadBool
  | TInt k => sd_int k l
  | TF32 => let* '(bs, r) := sd_take 4 l in Ok (VF32 (of_le_bytes bs), r)
  | TF64 => let* '(bs, r) := sd_take 8 l in Ok (VF64 (of_le_bytes bs), r)
  | TChar => let* '(n, r) := sd_varint 64 l in
             if 4 <? n then Err DeserializeBadChar
             else let* '(bs, r2) := sd_take n r in
                  match utf8_chars bs with Some [c] => Ok (VChar c, r2) | _ => Err DeserializeBadChar end
  | TStr => let* '(n, r) := sd_varint 64 l in
            let* '(bs, r2) := sd_take n r in
            if utf8_valid bs then Ok (VStr bs, r2) else Err DeserializeBadUtf8
  | TBytes => let* '(n, r) := sd_varint 64 l in
              let* '(bs, r2) := sd_take n r in Ok (VBytes bs, r2)
  | TOption t' => let* '(b, r) := sd_byte l in
                  if b =? 0 then Ok (VNone, r)
                  else if b =? 1 then (let* '(v, r2) := spec_de t' r in Ok (VSome v, r2))
                  else Err DeserializeBadOption
  | TUnit => Ok (VUnit, l)
  | TUnitStruct => Ok (VUnitStruct, l)
  | TNewtype t' => let* '(v, r) := spec_de t' l in Ok (VNewtype v, r)
  | TSeq t' => let* '(n, r) := sd_varint 64 l in
               let* '(racc, r2) := iter_N (fun st => let* '(v, s') := spec_de t' (snd st) in Ok (v :: fst st, s'))
                                          n ([], r) in
               Ok (VSeq (rev racc), r2)
  | TTuple ts => let* '(vs, r) := sd_fields spec_de ts l in Ok (VTuple vs, r)
  | TTupleStruct ts => let* '(vs, r) := sd_fields spec_de ts l in Ok (VTupleStruct vs, r)
  | TStruct ts => let* '(vs, r) := sd_fields spec_de ts l in Ok (VStruct vs, r)
  | TMap tk tv => let* '(n, r) := sd_varint 64 l in
                  let* '(racc, r2) := iter_N (fun st => let* '(k, s') := spec_de tk (snd st) in
                                                        let* '(v, s'') := spec_de tv s' in
                                                        Ok ((k, v) :: fst st, s''))
                                             n ([], r) in
                  Ok (VMap (rev racc), r2)
  | TEnum vs => let* '(idx, r) := sd_varint 32 l in
                if N.of_nat (length vs) <=? idx then Err SerdeDeCustom   (* not a declared variant *)
                else
                  (fix pick (vs : list ty) (i : nat) : res (value * list byte) :=
                     match vs, i with
                     | [], _ => Err SerdeDeCustom
                     | t' :: _, O => let* '(v, r2) := spec_de t' r in Ok (VVariant idx v, r2)
                     | _ :: vs', S i' => pick vs' i'
                     end) vs (N.to_nat idx)
  end.
