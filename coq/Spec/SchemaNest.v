(* SchemaNest.v: "x is nested somewhere inside s" (reflexive): through option, sequence,
   tuple elements, map key and value, struct fields and variant fields. *)
From PV Require Import Base DataModel Schema.

Inductive subschema (x : schema) : schema -> Prop :=
| sub_refl : subschema x x
| sub_option t : subschema x t -> subschema x (SOption t)
| sub_seq t : subschema x t -> subschema x (SSeq t)
| sub_tuple ts t : In t ts -> subschema x t -> subschema x (STuple ts)
| sub_map_key k v : subschema x k -> subschema x (SMap k v)
| sub_map_val k v : subschema x v -> subschema x (SMap k v)
| sub_struct n k (fs : list (list N * schema)) f : In f fs -> subschema x (snd f) -> subschema x (SStruct n k fs)
| sub_enum n (vs : list (list N * dkind * list (list N * schema))) v f :
    In v vs -> In f (snd v) -> subschema x (snd f) -> subschema x (SEnum n vs).
