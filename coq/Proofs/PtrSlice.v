(* PtrSlice.v: C04.  The decoder over the raw-pointer slice flavour (cursor / end indices,
   unchecked reads) refines the decoder over byte lists: the invariant cursor <= end =
   length input makes every read land inside the input, so no Fault, and nothing panics. *)
From Coq Require Import Lia ZifyBool ZifyNat ZifyN.
From PV Require Import Base MachineInt VarintParams GenArith GenLoops Varint Utf8 DataModel De DeFlavors
  WireFormat BaseFacts ValueInd Simulation DeSpec.
Open Scope N_scope.

Definition ptr_inv (s : dslice) (l : list byte) : Prop :=
  (ds_cursor s <= ds_end s)%nat /\ ds_end s = length (ds_input s) /\ l = skipn (ds_cursor s) (ds_input s).

Lemma read_at_skipn {A} (l : list A) i : read_at l i = match skipn i l with [] => None | x :: _ => Some x end.
Proof.
  revert i; induction l as [|x l IH]; intro i; destruct i; try reflexivity. cbn [read_at skipn]. apply IH.
Qed.

Lemma skipn_S_tail {A} (l : list A) i x r : skipn i l = x :: r -> skipn (S i) l = r.
Proof.
  revert i; induction l as [|y l IH]; intros i H.
  - destruct i; discriminate.
  - destruct i; cbn [skipn] in *; [inversion H; reflexivity|apply IH, H].
Qed.

Lemma read_run_skipn (l : list byte) i n :
  (i + n <= length l)%nat -> read_run l i n = Some (firstn n (skipn i l)).
Proof.
  revert i; induction n as [|n IH]; intros i H; [reflexivity|].
  cbn [read_run]. rewrite read_at_skipn.
  destruct (skipn i l) as [|x r] eqn:E.
  - assert (length (skipn i l) = 0)%nat by (rewrite E; reflexivity). rewrite skipn_length in *. lia.
  - rewrite IH by lia. rewrite (skipn_S_tail l i x r E). reflexivity.
Qed.

Lemma ptr_pop_sim s l : ptr_inv s l -> rrel ptr_inv (dslice_pop s) (slice_pop l).
Proof.
  intros (Hc & He & Hl). unfold dslice_pop, slice_pop.
  destruct (Nat.eqb_spec (ds_cursor s) (ds_end s)) as [E|E].
  - subst l. rewrite E, He, skipn_all. reflexivity.
  - rewrite read_at_skipn. rewrite <- Hl. destruct l as [|b r].
    + exfalso. assert (length (skipn (ds_cursor s) (ds_input s)) = 0)%nat by (rewrite <- Hl; reflexivity).
      rewrite skipn_length in *. lia.
    + cbn. split; [reflexivity|]. unfold ptr_inv. cbn [ds_cursor ds_end ds_input].
      repeat split; [lia|assumption|]. symmetry. eapply skipn_S_tail. symmetry. exact Hl.
Qed.

Lemma ptr_take_sim n s l : ptr_inv s l -> rrel ptr_inv (dslice_take_n n s) (slice_take_n n l).
Proof.
  intros (Hc & He & Hl). unfold dslice_take_n, slice_take_n.
  destruct (Nat.ltb_spec (ds_end s) (ds_cursor s)); [lia|].
  assert (Hlen : length l = (ds_end s - ds_cursor s)%nat) by (subst l; rewrite skipn_length; lia).
  rewrite Hlen.
  destruct (N.ltb_spec (N.of_nat (ds_end s - ds_cursor s)) n) as [Hs|Hs]; [reflexivity|].
  rewrite read_run_skipn by lia. rewrite <- Hl. cbn. split; [reflexivity|].
  unfold ptr_inv. cbn [ds_cursor ds_end ds_input]. repeat split; [lia|assumption|].
  subst l. rewrite skipn_skipn'. reflexivity.
Qed.

Theorem de_ptr_is_slice t s l :
  ptr_inv s l -> rrel ptr_inv (de_ptr t s) (de_slice t l).
Proof. apply de_sim; [apply ptr_pop_sim|apply ptr_take_sim]. Qed.

Lemma ptr_finalize s l : ptr_inv s l -> dslice_finalize s = Ok l.
Proof.
  intros (Hc & He & Hl). unfold dslice_finalize.
  destruct (Nat.ltb_spec (ds_end s) (ds_cursor s)); [lia|].
  rewrite read_run_skipn by lia. rewrite <- Hl. f_equal.
  apply firstn_all2. subst l. rewrite skipn_length. lia.
Qed.

Theorem take_from_bytes_ptr_is_slice t input :
  take_from_bytes_ptr t input = de_slice t input.
Proof.
  unfold take_from_bytes_ptr.
  assert (H0 : ptr_inv (dslice_new input) input) by (unfold ptr_inv, dslice_new; cbn [ds_cursor ds_end ds_input skipn]; repeat split; lia).
  pose proof (de_ptr_is_slice t _ _ H0) as H.
  destruct (de_ptr t (dslice_new input)) as [[v s]|e| | |], (de_slice t input) as [[v' l]|e'| | |];
    cbn in H; try contradiction; cbn [bind]; try (subst; reflexivity).
  destruct H as [-> H]. rewrite (ptr_finalize s l H). reflexivity.
Qed.

(* the reference decoder only ever returns a value or an error *)
Lemma benign_bind {A B} (r : res A) (f : A -> res B) :
  benign r -> (forall a, benign (f a)) -> benign (bind r f).
Proof. destruct r; cbn; auto. Qed.

Lemma sd_varint_benign w l : benign (sd_varint w l).
Proof. unfold sd_varint. destruct (spec_vread w l); exact I. Qed.
Lemma sd_byte_benign l : benign (sd_byte l).
Proof. destruct l; exact I. Qed.
Lemma sd_take_benign n l : benign (sd_take n l).
Proof. unfold sd_take. destruct (_ <? _); exact I. Qed.

Lemma iter_nat_benign {A} (f : A -> res A) n a : (forall a, benign (f a)) -> benign (iter_nat f n a).
Proof.
  intro H. revert a; induction n as [|n IH]; intro a; cbn [iter_nat]; [exact I|].
  apply benign_bind; [apply H|apply IH].
Qed.

Theorem spec_de_benign : forall t l, benign (spec_de t l).
Proof.
  induction t as [ |k| | | | | |t IH| | |t IH|t IH|ts IH|ts IH|tk tv IHk IHv|ts IH|ts IH] using ty_ind';
    intro l; cbn [spec_de].
  - apply benign_bind; [apply sd_byte_benign|]. intros [b r]. destruct (b =? 0); [exact I|]. destruct (b =? 1); exact I.
  - destruct k; cbn [sd_int];
      (apply benign_bind; [apply sd_byte_benign || apply sd_varint_benign|]; intros [x r]; exact I).
  - apply benign_bind; [apply sd_take_benign|]. intros [b r]. exact I.
  - apply benign_bind; [apply sd_take_benign|]. intros [b r]. exact I.
  - apply benign_bind; [apply sd_varint_benign|]. intros [n r]. destruct (4 <? n); [exact I|].
    apply benign_bind; [apply sd_take_benign|]. intros [bs r2].
    destruct (utf8_chars bs) as [[|c [|c2 cs]]|]; exact I.
  - apply benign_bind; [apply sd_varint_benign|]. intros [n r].
    apply benign_bind; [apply sd_take_benign|]. intros [bs r2]. destruct (utf8_valid bs); exact I.
  - apply benign_bind; [apply sd_varint_benign|]. intros [n r].
    apply benign_bind; [apply sd_take_benign|]. intros [bs r2]. exact I.
  - apply benign_bind; [apply sd_byte_benign|]. intros [b r]. destruct (b =? 0); [exact I|].
    destruct (b =? 1); [|exact I]. apply benign_bind; [apply IH|]. intros [v r2]. exact I.
  - exact I.
  - exact I.
  - apply benign_bind; [apply IH|]. intros [v r]. exact I.
  - apply benign_bind; [apply sd_varint_benign|]. intros [n r].
    apply benign_bind; [|intros [racc r2]; exact I]. rewrite iter_N_nat. apply iter_nat_benign.
    intros [acc s]. apply benign_bind; [apply IH|]. intros [v s']. exact I.
  - apply benign_bind; [|intros [vs r]; exact I].
    revert l; induction IH as [|t' ts' Ht' Hts' IHts]; intro l; cbn [sd_fields]; [exact I|].
    apply benign_bind; [apply Ht'|]. intros [v l1]. apply benign_bind; [apply IHts|]. intros [vs l2]. exact I.
  - apply benign_bind; [|intros [vs r]; exact I].
    revert l; induction IH as [|t' ts' Ht' Hts' IHts]; intro l; cbn [sd_fields]; [exact I|].
    apply benign_bind; [apply Ht'|]. intros [v l1]. apply benign_bind; [apply IHts|]. intros [vs l2]. exact I.
  - apply benign_bind; [apply sd_varint_benign|]. intros [n r].
    apply benign_bind; [|intros [racc r2]; exact I]. rewrite iter_N_nat. apply iter_nat_benign.
    intros [acc s]. apply benign_bind; [apply IHk|]. intros [k s']. apply benign_bind; [apply IHv|]. intros [v s'']. exact I.
  - apply benign_bind; [|intros [vs r]; exact I].
    revert l; induction IH as [|t' ts' Ht' Hts' IHts]; intro l; cbn [sd_fields]; [exact I|].
    apply benign_bind; [apply Ht'|]. intros [v l1]. apply benign_bind; [apply IHts|]. intros [vs l2]. exact I.
  - apply benign_bind; [apply sd_varint_benign|]. intros [idx r].
    destruct (N.of_nat (length ts) <=? idx); [exact I|]. generalize (N.to_nat idx).
    induction IH as [|t' ts' Ht' Hts' IHts]; intro i; [exact I|]. destruct i; [|apply IHts].
    apply benign_bind; [apply Ht'|]. intros [v r2]. exact I.
Qed.

(* C04: total, in bounds *)
Theorem decode_total t input :
  bytes_ok input ->
  take_from_bytes_ptr t input = spec_de t input /\ benign (take_from_bytes_ptr t input).
Proof.
  intro H. rewrite take_from_bytes_ptr_is_slice, de_is_spec by assumption.
  split; [reflexivity|apply spec_de_benign].
Qed.

(* what try_take_n hands out is the sub-list of the input at the cursor: borrowed strings
   and byte slices lie inside the input right after their length prefix *)
Theorem take_n_in_input n s l bs s' :
  ptr_inv s l -> dslice_take_n n s = Ok (bs, s') ->
  bs = firstn (N.to_nat n) (skipn (ds_cursor s) (ds_input s)) /\
  ds_cursor s' = (ds_cursor s + N.to_nat n)%nat /\ (ds_cursor s' <= length (ds_input s))%nat /\
  ds_input s' = ds_input s.
Proof.
  intros (Hc & He & Hl) H. unfold dslice_take_n in H.
  destruct (Nat.ltb_spec (ds_end s) (ds_cursor s)); [lia|].
  destruct (N.ltb_spec (N.of_nat (ds_end s - ds_cursor s)) n) as [Hs|Hs]; [discriminate|].
  rewrite read_run_skipn in H by lia. inversion H; subst. cbn. repeat split; lia.
Qed.

(* SeqAccess::size_hint never promises more elements than bytes remain *)
Theorem hint_sound s l n len : ptr_inv s l ->
  seq_size_hint (dslice_hint s) len = Some n -> n <= N.of_nat (length l) /\ n = len.
Proof.
  intros (Hc & He & Hl). unfold seq_size_hint, dslice_hint.
  assert (length l = (ds_end s - ds_cursor s)%nat) by (subst l; rewrite skipn_length; lia).
  change (cmp_eval seq_hint_cmp) with N.ltb.
  destruct (N.ltb_spec (N.of_nat (ds_end s - ds_cursor s)) len); [discriminate|].
  intro E. inversion E; subst. lia.
Qed.
