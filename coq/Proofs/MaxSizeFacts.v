(* MaxSizeFacts.v: POSTCARD_MAX_SIZE is an upper bound on the encoded size (C12). *)
From PV Require Import Base MachineInt GenArith Utf8 DataModel SchemaDecl MaxSizeDecl GenMaxSize MaxSize WireFormat.
From PV Require Import BaseFacts BitFacts VarintFacts ZigZagFacts Utf8Facts.
From Coq Require Import Lia.
Open Scope N_scope.

Section MtyInd.
  Variable P : mty -> Prop.
  Hypothesis HLeaf : forall t, match t with
                               | MBool | MInt _ | MUsize | MIsize | MF32 | MF64 | MChar | MUnit
                               | MNonZero _ | MNonZeroUsize | MNonZeroIsize | MPhantom | MHString _ => P t
                               | _ => True
                               end.
  Hypothesis HOption : forall a, P a -> P (MOption a).
  Hypothesis HResult : forall a e, P a -> P e -> P (MResult a e).
  Hypothesis HArray : forall a n, P a -> P (MArray a n).
  Hypothesis HRef : forall a, P a -> P (MRef a).
  Hypothesis HRefMut : forall a, P a -> P (MRefMut a).
  Hypothesis HBox : forall a, P a -> P (MBox a).
  Hypothesis HRc : forall a, P a -> P (MRc a).
  Hypothesis HArc : forall a, P a -> P (MArc a).
  Hypothesis HTuple : forall ts, Forall P ts -> P (MTuple ts).
  Hypothesis HRange : forall a, P a -> P (MRange a).
  Hypothesis HRangeI : forall a, P a -> P (MRangeInclusive a).
  Hypothesis HRangeF : forall a, P a -> P (MRangeFrom a).
  Hypothesis HRangeT : forall a, P a -> P (MRangeTo a).
  Hypothesis HHVec : forall a n, P a -> P (MHVec a n).
  Hypothesis HStruct : forall fs, Forall P fs -> P (MStruct fs).
  Hypothesis HEnum : forall vs, Forall (Forall P) vs -> P (MEnum vs).

  Fixpoint mty_ind' (t : mty) : P t :=
    let fix go (ts : list mty) : Forall P ts :=
      match ts with
      | [] => Forall_nil P
      | x :: r => Forall_cons x (mty_ind' x) (go r)
      end in
    let fix gov (vs : list (list mty)) : Forall (Forall P) vs :=
      match vs with
      | [] => Forall_nil _
      | v :: r => Forall_cons v (go v) (gov r)
      end in
    match t with
    | MBool => HLeaf MBool | MInt k => HLeaf (MInt k) | MUsize => HLeaf MUsize | MIsize => HLeaf MIsize
    | MF32 => HLeaf MF32 | MF64 => HLeaf MF64 | MChar => HLeaf MChar | MUnit => HLeaf MUnit
    | MNonZero k => HLeaf (MNonZero k) | MNonZeroUsize => HLeaf MNonZeroUsize | MNonZeroIsize => HLeaf MNonZeroIsize
    | MPhantom => HLeaf MPhantom | MHString n => HLeaf (MHString n)
    | MOption a => HOption a (mty_ind' a)
    | MResult a e => HResult a e (mty_ind' a) (mty_ind' e)
    | MArray a n => HArray a n (mty_ind' a)
    | MRef a => HRef a (mty_ind' a) | MRefMut a => HRefMut a (mty_ind' a) | MBox a => HBox a (mty_ind' a)
    | MRc a => HRc a (mty_ind' a) | MArc a => HArc a (mty_ind' a)
    | MTuple ts => HTuple ts (go ts)
    | MRange a => HRange a (mty_ind' a) | MRangeInclusive a => HRangeI a (mty_ind' a)
    | MRangeFrom a => HRangeF a (mty_ind' a) | MRangeTo a => HRangeT a (mty_ind' a)
    | MHVec a n => HHVec a n (mty_ind' a)
    | MStruct fs => HStruct fs (go fs)
    | MEnum vs => HEnum vs (gov vs)
    end.
End MtyInd.

Definition elen (v : value) : N := N.of_nat (length (spec_enc v)).

(* ---- sizes of the pieces ---- *)
Lemma varint_len_le w v : v < 2 ^ w -> 1 <= w -> N.of_nat (length (spec_varint v)) <= (w + 6) / 7.
Proof.
  intros Hv Hw. destruct (spec_varint_valid w v Hv Hw) as (_ & H & _). exact H.
Qed.

Lemma int_len k z : in_range (ik_ity k) z ->
  N.of_nat (length (spec_int k z)) <= match k with I8 | U8 => 1 | _ => Z.to_N (Core.varint_max (ik_ity k)) end.
Proof.
  intros Hr. destruct k; cbn [spec_int length]; try (simpl; lia);
    unfold in_range in Hr; cbn [signed ik_ity bits i16 i32 i64 i128 u16 u32 u64 u128] in Hr.
  - (* i16 *) change (Z.to_N (Core.varint_max (ik_ity I16))) with ((16 + 6) / 7). apply varint_len_le; [|lia].
    pose proof (spec_zigzag_bound 16 z ltac:(lia) Hr). lia.
  - change (Z.to_N (Core.varint_max (ik_ity I32))) with ((32 + 6) / 7). apply varint_len_le; [|lia].
    pose proof (spec_zigzag_bound 32 z ltac:(lia) Hr). lia.
  - change (Z.to_N (Core.varint_max (ik_ity I64))) with ((64 + 6) / 7). apply varint_len_le; [|lia].
    pose proof (spec_zigzag_bound 64 z ltac:(lia) Hr). lia.
  - change (Z.to_N (Core.varint_max (ik_ity I128))) with ((128 + 6) / 7). apply varint_len_le; [|lia].
    pose proof (spec_zigzag_bound 128 z ltac:(lia) Hr). lia.
  - change (Z.to_N (Core.varint_max (ik_ity U16))) with ((16 + 6) / 7). apply varint_len_le; [|lia]. lia.
  - change (Z.to_N (Core.varint_max (ik_ity U32))) with ((32 + 6) / 7). apply varint_len_le; [|lia]. lia.
  - change (Z.to_N (Core.varint_max (ik_ity U64))) with ((64 + 6) / 7). apply varint_len_le; [|lia]. lia.
  - change (Z.to_N (Core.varint_max (ik_ity U128))) with ((128 + 6) / 7). apply varint_len_le; [|lia]. lia.
Qed.

Lemma wrap_u64_small x : (0 <= x < 2 ^ 64)%Z -> wrap usize x = x.
Proof. intros H. unfold wrap. cbn [signed bits usize u64]. apply Z.mod_small. exact H. Qed.
Lemma wrap_u32_small x : (0 <= x < 2 ^ 32)%Z -> wrap u32 x = x.
Proof. intros H. unfold wrap. cbn [signed bits u32]. apply Z.mod_small. exact H. Qed.

(* varint_size(n) = ceil(bit length of n / 7), at least 1 *)
Lemma varint_size_spec n : (0 < n < 2 ^ 64)%Z -> Core.varint_size n = ((Z.log2 n + 7) / 7)%Z.
Proof.
  intros Hn. unfold Core.varint_size. destruct (Z.eqb_spec n 0) as [->|_]; [lia|]. cbv zeta.
  assert (HL : (0 <= Z.log2 n < 64)%Z).
  { split; [apply Z.log2_nonneg|]. apply Z.log2_lt_pow2; lia. }
  unfold size_of. cbn [bits usize u64]. change (64 / 8)%Z with 8%Z.
  unfold mul. change (8 * 8)%Z with 64%Z. rewrite (wrap_u64_small 64) by lia.
  unfold leading_zeros, cast. cbn [bits usize u64]. destruct (Z.eqb_spec n 0) as [->|_]; [lia|].
  rewrite (wrap_u64_small (64 - Z.log2 n - 1)) by lia.
  unfold sub. rewrite (wrap_u64_small (64 - (64 - Z.log2 n - 1))) by lia.
  change (7 - 1)%Z with 6%Z. rewrite (wrap_u64_small 6) by lia.
  unfold add. rewrite (wrap_u64_small (64 - (64 - Z.log2 n - 1) + 6)) by lia.
  unfold div. rewrite Z.quot_div_nonneg by lia.
  replace (64 - (64 - Z.log2 n - 1) + 6)%Z with (Z.log2 n + 7)%Z by lia.
  apply wrap_u64_small. split; [apply Z.div_pos; lia|].
  apply Z.div_lt_upper_bound; lia.
Qed.

Lemma len_prefix_le m n : m <= n -> n < 2 ^ 64 ->
  N.of_nat (length (spec_varint m)) <= Z.to_N (Core.varint_size (Z.of_N n)).
Proof.
  intros Hm Hn. destruct (N.eq_dec n 0) as [->|Hnz].
  - assert (m = 0) by lia. subst m. vm_compute. discriminate.
  - rewrite varint_size_spec by lia.
    set (L := Z.log2 (Z.of_N n)).
    assert (HL : (0 <= L)%Z) by apply Z.log2_nonneg.
    assert (Hlt : (Z.of_N n < 2 ^ (L + 1))%Z).
    { unfold L. replace (Z.log2 (Z.of_N n) + 1)%Z with (Z.succ (Z.log2 (Z.of_N n))) by lia.
      apply Z.log2_spec. lia. }
    assert (Hm' : m < 2 ^ Z.to_N (L + 1)).
    { apply N2Z.inj_lt. rewrite N2Z.inj_pow, Z2N.id by lia. change (Z.of_N 2) with 2%Z. lia. }
    pose proof (varint_len_le (Z.to_N (L + 1)) m Hm' ltac:(lia)) as H.
    eapply N.le_trans; [exact H|].
    replace (Z.to_N (L + 1) + 6) with (Z.to_N (L + 7)) by lia.
    rewrite Z2N.inj_div by lia. change (Z.to_N 7) with 7. lia.
Qed.

(* the derive's discriminant width covers every variant index below the variant count *)
Lemma discriminant_spec c : (0 < c < 2 ^ 32)%Z -> Derive.varint_size_discriminant c = ((Z.log2 c + 7) / 7)%Z.
Proof.
  intros Hn. unfold Derive.varint_size_discriminant. cbv zeta.
  assert (HL : (0 <= Z.log2 c < 32)%Z).
  { split; [apply Z.log2_nonneg|]. apply Z.log2_lt_pow2; lia. }
  unfold size_of, cast. cbn [bits u32]. change (32 / 8)%Z with 4%Z. rewrite (wrap_u32_small 4) by lia.
  unfold mul. change (4 * 8)%Z with 32%Z. rewrite (wrap_u32_small 32) by lia.
  unfold leading_zeros. cbn [bits u32]. destruct (Z.eqb_spec c 0) as [->|_]; [lia|].
  unfold sub. rewrite (wrap_u32_small (32 - (32 - Z.log2 c - 1))) by lia.
  change (7 - 1)%Z with 6%Z. rewrite (wrap_u32_small 6) by lia.
  unfold add. rewrite (wrap_u32_small (32 - (32 - Z.log2 c - 1) + 6)) by lia.
  unfold div. rewrite Z.quot_div_nonneg by lia.
  replace (32 - (32 - Z.log2 c - 1) + 6)%Z with (Z.log2 c + 7)%Z by lia.
  apply wrap_u32_small. split; [apply Z.div_pos; lia|].
  apply Z.div_lt_upper_bound; lia.
Qed.
Lemma discriminant_le idx count : idx < count -> count < 2 ^ 32 ->
  N.of_nat (length (spec_varint idx)) <= Z.to_N (Derive.varint_size_discriminant (Z.of_N count)).
Proof.
  intros Hi Hc. rewrite discriminant_spec by lia.
  set (L := Z.log2 (Z.of_N count)).
  assert (HL : (0 <= L)%Z) by apply Z.log2_nonneg.
  assert (Hlt : (Z.of_N count < 2 ^ (L + 1))%Z).
  { unfold L. replace (Z.log2 (Z.of_N count) + 1)%Z with (Z.succ (Z.log2 (Z.of_N count))) by lia.
    apply Z.log2_spec. lia. }
  assert (Hm' : idx < 2 ^ Z.to_N (L + 1)).
  { apply N2Z.inj_lt. rewrite N2Z.inj_pow, Z2N.id by lia. change (Z.of_N 2) with 2%Z. lia. }
  pose proof (varint_len_le (Z.to_N (L + 1)) idx Hm' ltac:(lia)) as H.
  eapply N.le_trans; [exact H|].
  replace (Z.to_N (L + 1) + 6) with (Z.to_N (L + 7)) by lia.
  rewrite Z2N.inj_div by lia. change (Z.to_N 7) with 7. lia.
Qed.

(* ---- what the translated rows evaluate to ---- *)
Lemma max_z x y : Z.to_N (Core.max (Z.of_N x) (Z.of_N y)) = N.max x y.
Proof. unfold Core.max. destruct (Z.gtb_spec (Z.of_N x) (Z.of_N y)); lia. Qed.

Lemma ms_option a : max_size (MOption a) = option_map (fun x => x + 1) (max_size a).
Proof. cbn [max_size]. destruct (max_size a); reflexivity. Qed.
Lemma ms_result a e :
  max_size (MResult a e) = match max_size a, max_size e with Some x, Some y => Some (N.max x y + 1) | _, _ => None end.
Proof.
  cbn [max_size]. destruct (max_size a) as [x|]; [|reflexivity]. destruct (max_size e) as [y|]; [|reflexivity].
  change (R key_result None [([84], x); ([69], y)] []) with (Some (Z.to_N (Core.max (Z.of_N x) (Z.of_N y)) + 1)).
  rewrite max_z. reflexivity.
Qed.
Lemma ms_array a n : max_size (MArray a n) = option_map (fun x => x * n) (max_size a).
Proof. cbn [max_size]. destruct (max_size a); reflexivity. Qed.
Lemma ms_transparent a :
  max_size (MRef a) = max_size a /\ max_size (MRefMut a) = max_size a /\ max_size (MBox a) = max_size a /\
  max_size (MRc a) = max_size a /\ max_size (MArc a) = max_size a /\
  max_size (MRangeFrom a) = max_size a /\ max_size (MRangeTo a) = max_size a.
Proof. cbn [max_size]. destruct (max_size a); repeat split; reflexivity. Qed.
Lemma ms_range a :
  max_size (MRange a) = option_map (fun x => x * 2) (max_size a) /\
  max_size (MRangeInclusive a) = option_map (fun x => x * 2) (max_size a).
Proof. cbn [max_size]. destruct (max_size a); split; reflexivity. Qed.
Lemma ms_hvec a n :
  max_size (MHVec a n) = option_map (fun x => x * n + Z.to_N (Core.varint_size (Z.of_N n))) (max_size a).
Proof. cbn [max_size]. destruct (max_size a); reflexivity. Qed.
Lemma ms_hstring n : max_size (MHString n) = Some (1 * n + Z.to_N (Core.varint_size (Z.of_N n))).
Proof. reflexivity. Qed.
Lemma ms_tuple ts : (1 <= length ts <= 6)%nat ->
  max_size (MTuple ts) = sum_opt (map max_size ts).
Proof.
  intros Hl. cbn [max_size].
  assert (X : forall sizes : list N, (1 <= length sizes <= 6)%nat ->
                R (tuple_key (length sizes)) None (tuple_env sizes 65) [] = Some (fold_right N.add 0 sizes)).
  { intros sizes H. destruct sizes as [|a [|b [|c [|d [|e [|f [|g r]]]]]]]; cbn [length] in H; try lia.
    - cbv. destruct a; reflexivity.
    - change (Some (a + b) = Some (a + (b + 0))). f_equal. lia.
    - change (Some (a + b + c) = Some (a + (b + (c + 0)))). f_equal. lia.
    - change (Some (a + b + c + d) = Some (a + (b + (c + (d + 0))))). f_equal. lia.
    - change (Some (a + b + c + d + e) = Some (a + (b + (c + (d + (e + 0)))))). f_equal. lia.
    - change (Some (a + b + c + d + e + f) = Some (a + (b + (c + (d + (e + (f + 0))))))). f_equal. lia. }
  assert (Y : forall l : list (option N), sum_opt l = option_map (fold_right N.add 0) (all_opt l)).
  { induction l as [|[x|] r IH]; [reflexivity| |reflexivity]. cbn [sum_opt all_opt]. rewrite IH.
    destruct (all_opt r); reflexivity. }
  rewrite Y. destruct (all_opt (map max_size ts)) as [sizes|] eqn:E; [|reflexivity].
  assert (length sizes = length ts).
  { clear -E. revert sizes E. induction ts as [|t r IH]; intros sizes E; cbn [map all_opt] in E.
    - injection E as <-. reflexivity.
    - destruct (max_size t); [|discriminate]. destruct (all_opt (map max_size r)) as [s'|]; [|discriminate].
      injection E as <-. cbn [length]. f_equal. apply IH. reflexivity. }
  rewrite <- H. apply X. lia.
Qed.

(* ---- the bound ---- *)
Fixpoint mfields (ts : list mty) (vs : list value) {struct ts} : bool :=
  match ts, vs with
  | [], [] => true
  | t' :: ts', x :: vs' => mhas x t' && mfields ts' vs'
  | _, _ => false
  end.
Lemma mhas_tuple ts v : mhas v (MTuple ts) = match v with VTuple vs => mfields ts vs | _ => false end.
Proof. reflexivity. Qed.
Lemma mhas_struct ts v : mhas v (MStruct ts) = match v with VStruct vs => mfields ts vs | _ => false end.
Proof. reflexivity. Qed.

Definition bounded (t : mty) : Prop :=
  forall v b, mty_ok t = true -> mhas v t = true -> max_size t = Some b -> elen v <= b.

Lemma fields_bound ts :
  Forall bounded ts -> forallb mty_ok ts = true ->
  forall vs b, mfields ts vs = true -> sum_opt (map max_size ts) = Some b ->
               N.of_nat (length (flat_map spec_enc vs)) <= b.
Proof.
  induction 1 as [|t r Ht _ IH]; intros Hok vs b Hm Hb.
  - destruct vs; [|discriminate Hm]. injection Hb as <-. simpl. lia.
  - destruct vs as [|x vs]; [discriminate Hm|]. cbn [mfields] in Hm. apply andb_prop in Hm as [Hx Hr].
    cbn [forallb] in Hok. apply andb_prop in Hok as [Hot Hor].
    cbn [map sum_opt] in Hb. destruct (max_size t) as [bt|] eqn:Et; [|discriminate Hb].
    destruct (sum_opt (map max_size r)) as [br|] eqn:Er; [|discriminate Hb]. injection Hb as <-.
    cbn [flat_map]. rewrite app_length.
    pose proof (Ht x bt Hot Hx Et) as H1. pose proof (IH Hor vs br Hr eq_refl) as H2. unfold elen in H1. lia.
Qed.

Lemma int_val_len k nz v c :
  int_val k nz v = true ->
  (match k with I8 | U8 => 1 | _ => Z.to_N (Core.varint_max (ik_ity k)) end) <= c -> elen v <= c.
Proof.
  intros Hv Hc. destruct v; try discriminate Hv. cbn [int_val] in Hv.
  apply andb_prop in Hv as [Hv _]. apply andb_prop in Hv as [Hk Hr].
  assert (k = k0) by (destruct k, k0; try discriminate Hk; reflexivity). subst k0.
  unfold elen. cbn [spec_enc]. eapply N.le_trans; [apply int_len|exact Hc].
  unfold in_range, in_rangeb in *. destruct (signed (ik_ity k)); lia.
Qed.

Lemma seq_len (a : mty) vs bx :
  bounded a -> mty_ok a = true -> max_size a = Some bx -> forallb (fun x => mhas x a) vs = true ->
  N.of_nat (length (flat_map spec_enc vs)) <= bx * N.of_nat (length vs).
Proof.
  intros Ha Hok Hb Hall. induction vs as [|x r IH]; [simpl; lia|].
  cbn [forallb] in Hall. apply andb_prop in Hall as [Hx Hr]. cbn [flat_map length]. rewrite app_length.
  pose proof (Ha x bx Hok Hx Hb) as H1. specialize (IH Hr). unfold elen in H1. lia.
Qed.

Theorem max_size_bound : forall t, bounded t.
Proof.
  apply (mty_ind' bounded); unfold bounded.
  - intros t. destruct t; try exact I; intros v b Hok Hv Hb.
    + (* bool *) destruct v; try discriminate Hv. injection Hb as <-. unfold elen. simpl. lia.
    + (* int *) eapply int_val_len; [exact Hv|]. destruct k; injection Hb as <-; vm_compute; discriminate.
    + (* usize *) eapply (int_val_len U64); [exact Hv|]. injection Hb as <-. vm_compute. discriminate.
    + (* isize *) eapply (int_val_len I64); [exact Hv|]. injection Hb as <-. vm_compute. discriminate.
    + (* f32 *) destruct v; try discriminate Hv. injection Hb as <-. unfold elen. cbn [spec_enc]. rewrite le_bytes_length. vm_compute. discriminate.
    + (* f64 *) destruct v; try discriminate Hv. injection Hb as <-. unfold elen. cbn [spec_enc]. rewrite le_bytes_length. vm_compute. discriminate.
    + (* char *) destruct v; try discriminate Hv. injection Hb as <-. unfold elen. cbn [spec_enc].
      pose proof (utf8_encode_len c) as Hl. rewrite app_length.
      assert (length (spec_len (length (utf8_encode c))) = 1%nat).
      { unfold spec_len. rewrite spec_varint_unfold. destruct (N.ltb_spec (N.of_nat (length (utf8_encode c))) 128); [reflexivity|lia]. }
      change (R key_char None [] []) with (Some 5) in *. lia.
    + (* unit *) destruct v; try discriminate Hv. unfold elen. simpl. lia.
    + (* nonzero *) eapply int_val_len; [exact Hv|]. destruct k; injection Hb as <-; vm_compute; discriminate.
    + eapply (int_val_len U64); [exact Hv|]. injection Hb as <-. vm_compute. discriminate.
    + eapply (int_val_len I64); [exact Hv|]. injection Hb as <-. vm_compute. discriminate.
    + (* phantom *) destruct v; try discriminate Hv. destruct vs; [|discriminate Hv]. unfold elen. simpl. lia.
    + (* heapless string *) destruct v; try discriminate Hv. cbn [mhas] in Hv.
      apply andb_prop in Hv as [Hv _]. apply andb_prop in Hv as [Hl _]. apply N.leb_le in Hl.
      rewrite ms_hstring in Hb. injection Hb as <-. cbn [mty_ok] in Hok. apply N.ltb_lt in Hok.
      unfold elen. cbn [spec_enc]. rewrite app_length.
      pose proof (len_prefix_le (N.of_nat (length bs)) n Hl Hok). unfold spec_len. lia.
  - (* option *) intros t IHt v b Hok Hv Hb. rewrite ms_option in Hb. destruct (max_size t) as [x|] eqn:E; [|discriminate Hb].
    injection Hb as <-. destruct v; try discriminate Hv.
    + unfold elen. simpl. lia.
    + pose proof (IHt v x Hok Hv eq_refl). unfold elen in *. cbn [spec_enc length]. lia.
  - (* result *) intros t1 t2 IHt1 IHt2 v b Hok Hv Hb. rewrite ms_result in Hb.
    destruct (max_size t1) as [x|] eqn:E1; [|discriminate Hb]. destruct (max_size t2) as [y|] eqn:E2; [|discriminate Hb].
    injection Hb as <-. cbn [mty_ok] in Hok. apply andb_prop in Hok as [Ho1 Ho2].
    destruct v; try discriminate Hv. destruct v; try discriminate Hv. destruct vs as [|p [|? ?]]; try discriminate Hv.
    cbn [mhas] in Hv. unfold elen. cbn [spec_enc flat_map]. rewrite app_length, app_nil_r.
    destruct (N.eqb_spec idx 0) as [->|_].
    + pose proof (IHt1 p x Ho1 Hv eq_refl). unfold elen in *. simpl length. lia.
    + destruct (N.eqb_spec idx 1) as [->|_]; [|discriminate Hv].
      pose proof (IHt2 p y Ho2 Hv eq_refl). unfold elen in *. simpl length. lia.
  - (* array *) intros t n IHt v b Hok Hv Hb. change (bounded t) in IHt. rewrite ms_array in Hb. destruct (max_size t) as [x|] eqn:E; [|discriminate Hb].
    injection Hb as <-. cbn [mty_ok] in Hok. apply andb_prop in Hok as [Hoa _].
    destruct v; try discriminate Hv. cbn [mhas] in Hv. apply andb_prop in Hv as [Hl Hall]. apply N.eqb_eq in Hl.
    unfold elen. cbn [spec_enc]. pose proof (seq_len t vs x IHt Hoa E Hall). lia.
  - intros t IHt v b Hok Hv Hb. destruct (ms_transparent t) as (E & _). rewrite E in Hb. exact (IHt v b Hok Hv Hb).
  - intros t IHt v b Hok Hv Hb. destruct (ms_transparent t) as (_ & E & _). rewrite E in Hb. exact (IHt v b Hok Hv Hb).
  - intros t IHt v b Hok Hv Hb. destruct (ms_transparent t) as (_ & _ & E & _). rewrite E in Hb. exact (IHt v b Hok Hv Hb).
  - intros t IHt v b Hok Hv Hb. destruct (ms_transparent t) as (_ & _ & _ & E & _). rewrite E in Hb. exact (IHt v b Hok Hv Hb).
  - intros t IHt v b Hok Hv Hb. destruct (ms_transparent t) as (_ & _ & _ & _ & E & _). rewrite E in Hb. exact (IHt v b Hok Hv Hb).
  - (* tuple *) intros ts H v b Hok Hv Hb. cbn [mty_ok] in Hok. apply andb_prop in Hok as [Hok H6]. apply andb_prop in Hok as [Hok H1].
    apply Nat.leb_le in H1, H6. rewrite ms_tuple in Hb by lia. rewrite mhas_tuple in Hv.
    destruct v; try discriminate Hv. unfold elen. cbn [spec_enc]. eapply fields_bound; eassumption.
  - (* range *) intros t IHt v b Hok Hv Hb. destruct (ms_range t) as [E _]. rewrite E in Hb.
    destruct (max_size t) as [x|] eqn:Ex; [|discriminate Hb]. injection Hb as <-.
    destruct v; try discriminate Hv. destruct vs as [|p [|q [|? ?]]]; try discriminate Hv. cbn [mhas] in Hv.
    apply andb_prop in Hv as [Hp Hq]. pose proof (IHt p x Hok Hp eq_refl). pose proof (IHt q x Hok Hq eq_refl).
    unfold elen in *. cbn [spec_enc flat_map]. rewrite !app_length. simpl length. lia.
  - intros t IHt v b Hok Hv Hb. destruct (ms_range t) as [_ E]. rewrite E in Hb.
    destruct (max_size t) as [x|] eqn:Ex; [|discriminate Hb]. injection Hb as <-.
    destruct v; try discriminate Hv. destruct vs as [|p [|q [|? ?]]]; try discriminate Hv. cbn [mhas] in Hv.
    apply andb_prop in Hv as [Hp Hq]. pose proof (IHt p x Hok Hp eq_refl). pose proof (IHt q x Hok Hq eq_refl).
    unfold elen in *. cbn [spec_enc flat_map]. rewrite !app_length. simpl length. lia.
  - intros t IHt v b Hok Hv Hb. destruct (ms_transparent t) as (_ & _ & _ & _ & _ & E & _). rewrite E in Hb.
    destruct v; try discriminate Hv. destruct vs as [|p [|? ?]]; try discriminate Hv. cbn [mhas] in Hv.
    pose proof (IHt p b Hok Hv Hb). unfold elen in *. cbn [spec_enc flat_map]. rewrite app_nil_r. lia.
  - intros t IHt v b Hok Hv Hb. destruct (ms_transparent t) as (_ & _ & _ & _ & _ & _ & E). rewrite E in Hb.
    destruct v; try discriminate Hv. destruct vs as [|p [|? ?]]; try discriminate Hv. cbn [mhas] in Hv.
    pose proof (IHt p b Hok Hv Hb). unfold elen in *. cbn [spec_enc flat_map]. rewrite app_nil_r. lia.
  - (* heapless vec *) intros t n IHt v b Hok Hv Hb. change (bounded t) in IHt. rewrite ms_hvec in Hb. destruct (max_size t) as [x|] eqn:E; [|discriminate Hb].
    injection Hb as <-. cbn [mty_ok] in Hok. apply andb_prop in Hok as [Hoa Hn]. apply N.ltb_lt in Hn.
    destruct v; try discriminate Hv. cbn [mhas] in Hv. apply andb_prop in Hv as [Hl Hall]. apply N.leb_le in Hl.
    unfold elen. cbn [spec_enc]. rewrite app_length. pose proof (seq_len t vs x IHt Hoa E Hall).
    pose proof (len_prefix_le (N.of_nat (length vs)) n Hl Hn). unfold spec_len. nia.
  - (* derived struct *) intros fs H v b Hok Hv Hb. cbn [mty_ok] in Hok. rewrite mhas_struct in Hv. cbn [max_size] in Hb.
    destruct v; try discriminate Hv. unfold elen. cbn [spec_enc]. eapply fields_bound; eassumption.
  - (* derived enum *) intros vs H v b Hok Hv Hb. cbn [mty_ok] in Hok. apply andb_prop in Hok as [Hok Hc]. apply N.ltb_lt in Hc.
    cbn [max_size] in Hb. destruct (all_opt (map (fun v => sum_opt (map max_size v)) vs)) as [sizes|] eqn:Es; [|discriminate Hb].
    injection Hb as <-. destruct v; try discriminate Hv. destruct v; try discriminate Hv. cbn [mhas] in Hv.
    apply andb_prop in Hv as [Hp Hi]. apply N.ltb_lt in Hi.
    unfold elen. cbn [spec_enc]. rewrite app_length.
    assert (Hd : N.of_nat (length (spec_varint idx)) <= Z.to_N (Derive.varint_size_discriminant (Z.of_nat (length vs)))).
    { rewrite <- nat_N_Z. apply discriminant_le; assumption. }
    assert (Hpay : N.of_nat (length (flat_map spec_enc vs0)) <= max_fold 0 sizes).
    { assert (Hmf : forall l acc, acc <= max_fold acc l /\ (forall x, In x l -> x <= max_fold acc l)).
      { induction l as [|y l IHl]; intros acc; cbn [max_fold]; [split; [lia|intros ? []]|].
        destruct (N.ltb_spec y acc); destruct (IHl acc) as [A B]; destruct (IHl y) as [A' B']; split; try lia.
        - intros x [<-|Hx]; [lia|auto].
        - intros x [<-|Hx]; [lia|auto]. }
      clear Hd Hi Hc. revert sizes Es idx Hp. generalize 0 at 1.
      induction H as [|fs r Hfs _ IHr]; intros acc sizes Es idx Hp; [destruct (N.to_nat idx); discriminate Hp|].
      cbn [map all_opt] in Es. destruct (sum_opt (map max_size fs)) as [bf|] eqn:Ef; [|discriminate Es].
      destruct (all_opt (map (fun v => sum_opt (map max_size v)) r)) as [sr|] eqn:Er; [|discriminate Es].
      injection Es as <-. cbn [forallb] in Hok. apply andb_prop in Hok as [Hof Hor].
      destruct (N.to_nat idx) as [|i] eqn:Ei.
      - pose proof (fields_bound fs Hfs Hof vs0 bf Hp Ef). cbn [max_fold].
        destruct (Hmf sr (if bf <? acc then acc else bf)) as [A _]. destruct (N.ltb_spec bf acc); lia.
      - cbn [max_fold]. apply (IHr Hor _ sr eq_refl (N.of_nat i)). rewrite Nat2N.id. exact Hp. }
    lia.
Qed.

(* ---- values of a type expression are typed values of its serde shape, so the real encoder
   produces exactly spec_enc for them (C02) ---- *)
From PV Require Import Ser SerFacts.

Lemma int_val_typed k nz v : int_val k nz v = true -> has_type v (TInt k) = true.
Proof.
  destruct v; try discriminate. cbn [int_val has_type]. intros H.
  apply andb_prop in H as [H _]. apply andb_prop in H as [Hk Hr].
  assert (k = k0) by (destruct k, k0; try discriminate Hk; reflexivity). subst k0. rewrite Hk, Hr. reflexivity.
Qed.

Definition typed (t : mty) : Prop := forall v, mty_ok t = true -> mhas v t = true -> has_type v (shape t) = true.

Lemma fields_typed ts : Forall typed ts -> forallb mty_ok ts = true -> forall vs, mfields ts vs = true ->
  (fix go (vs : list value) (ts : list ty) : bool :=
     match vs, ts with
     | [], [] => true
     | x :: vs', t' :: ts' => has_type x t' && go vs' ts'
     | _, _ => false
     end) vs (map shape ts) = true.
Proof.
  induction 1 as [|t r Ht _ IH]; intros Hok vs Hm.
  - destruct vs; [reflexivity|discriminate Hm].
  - destruct vs as [|x vs]; [discriminate Hm|]. cbn [mfields] in Hm. apply andb_prop in Hm as [Hx Hr].
    cbn [forallb] in Hok. apply andb_prop in Hok as [Hot Hor]. cbn [map].
    rewrite (Ht x Hot Hx), (IH Hor vs Hr). reflexivity.
Qed.

Theorem mhas_typed : forall t, typed t.
Proof.
  apply (mty_ind' typed); unfold typed.
  - intros t. destruct t; try exact I; intros v Hok Hv; cbn [shape];
      try (eapply int_val_typed; exact Hv); try (destruct v; try discriminate Hv; exact Hv);
      try (destruct v; try discriminate Hv; destruct vs; [reflexivity|discriminate Hv]).
    destruct v; try discriminate Hv. cbn [mhas] in Hv. apply andb_prop in Hv as [Hv Hu]. apply andb_prop in Hv as [Hl Hb].
    cbn [has_type mty_ok] in *. rewrite Hb, Hu. cbn [andb]. apply N.leb_le in Hl. apply N.ltb_lt in Hok. apply N.ltb_lt. lia.
  - intros t IH v Hok Hv. destruct v; try discriminate Hv; cbn [shape has_type]; [reflexivity|apply IH; assumption].
  - intros a e IHa IHe v Hok Hv. cbn [mty_ok] in Hok. apply andb_prop in Hok as [Ha He].
    destruct v; try discriminate Hv. destruct v; try discriminate Hv. destruct vs as [|p [|? ?]]; try discriminate Hv.
    cbn [mhas] in Hv. cbn [shape].
    destruct (N.eqb_spec idx 0) as [->|_]; [cbn; rewrite (IHa p Ha Hv); reflexivity|].
    destruct (N.eqb_spec idx 1) as [->|_]; [cbn; rewrite (IHe p He Hv); reflexivity|discriminate Hv].
  - intros a n IH v Hok Hv. cbn [mty_ok] in Hok. apply andb_prop in Hok as [Ha Hn].
    destruct v; try discriminate Hv. cbn [mhas] in Hv. apply andb_prop in Hv as [Hl Hall]. apply N.eqb_eq in Hl.
    cbn [shape has_type]. subst n. rewrite Nat2N.id. clear Hn.
    induction vs as [|x r IHr]; [reflexivity|]. cbn [forallb] in Hall. apply andb_prop in Hall as [Hx Hr].
    cbn [length repeat]. rewrite (IH x Ha Hx), (IHr Hr). reflexivity.
  - intros a IH v Hok Hv. exact (IH v Hok Hv).
  - intros a IH v Hok Hv. exact (IH v Hok Hv).
  - intros a IH v Hok Hv. exact (IH v Hok Hv).
  - intros a IH v Hok Hv. exact (IH v Hok Hv).
  - intros a IH v Hok Hv. exact (IH v Hok Hv).
  - intros ts H v Hok Hv. cbn [mty_ok] in Hok. apply andb_prop in Hok as [Hok _]. apply andb_prop in Hok as [Hok _].
    rewrite mhas_tuple in Hv. destruct v; try discriminate Hv. cbn [shape has_type]. apply fields_typed; assumption.
  - intros a IH v Hok Hv. destruct v; try discriminate Hv. destruct vs as [|p [|q [|? ?]]]; try discriminate Hv.
    cbn [mhas] in Hv. apply andb_prop in Hv as [Hp Hq]. cbn [shape has_type]. rewrite (IH p Hok Hp), (IH q Hok Hq). reflexivity.
  - intros a IH v Hok Hv. destruct v; try discriminate Hv. destruct vs as [|p [|q [|? ?]]]; try discriminate Hv.
    cbn [mhas] in Hv. apply andb_prop in Hv as [Hp Hq]. cbn [shape has_type]. rewrite (IH p Hok Hp), (IH q Hok Hq). reflexivity.
  - intros a IH v Hok Hv. destruct v; try discriminate Hv. destruct vs as [|p [|? ?]]; try discriminate Hv.
    cbn [mhas] in Hv. cbn [shape has_type]. rewrite (IH p Hok Hv). reflexivity.
  - intros a IH v Hok Hv. destruct v; try discriminate Hv. destruct vs as [|p [|? ?]]; try discriminate Hv.
    cbn [mhas] in Hv. cbn [shape has_type]. rewrite (IH p Hok Hv). reflexivity.
  - intros a n IH v Hok Hv. cbn [mty_ok] in Hok. apply andb_prop in Hok as [Ha Hn]. apply N.ltb_lt in Hn.
    destruct v; try discriminate Hv. cbn [mhas] in Hv. apply andb_prop in Hv as [Hl Hall]. apply N.leb_le in Hl.
    cbn [shape has_type]. apply andb_true_intro. split; [|apply N.ltb_lt; lia].
    apply forallb_forall. intros x Hx. rewrite forallb_forall in Hall. apply IH; auto.
  - intros fs H v Hok Hv. cbn [mty_ok] in Hok. rewrite mhas_struct in Hv. destruct v; try discriminate Hv.
    cbn [shape has_type]. apply fields_typed; assumption.
  - intros vs H v Hok Hv. cbn [mty_ok] in Hok. apply andb_prop in Hok as [Hok Hc]. apply N.ltb_lt in Hc.
    destruct v; try discriminate Hv. destruct v; try discriminate Hv. cbn [mhas] in Hv.
    apply andb_prop in Hv as [Hp Hi]. apply N.ltb_lt in Hi. cbn [shape has_type]. rewrite map_length.
    replace (idx <? 2 ^ 32) with true by (symmetry; apply N.ltb_lt; lia).
    replace (idx <? N.of_nat (length vs)) with true by (symmetry; apply N.ltb_lt; lia). cbn [andb].
    clear Hi Hc. revert Hp. generalize (N.to_nat idx) as i. induction H as [|fs r Hfs _ IHr]; intros i Hp.
    + destruct i; discriminate Hp.
    + cbn [forallb] in Hok. apply andb_prop in Hok as [Hof Hor]. destruct i as [|i]; cbn [map].
      * apply (fields_typed fs Hfs Hof vs0 Hp).
      * apply (IHr Hor i Hp).
Qed.

(* the bound, stated on the encoder *)
Theorem max_size_bound_enc t v b :
  mty_ok t = true -> mhas v t = true -> max_size t = Some b ->
  ser_err v = None /\ N.of_nat (length (enc v)) <= b.
Proof.
  intros Hok Hv Hb. destruct (enc_is_spec_aux v (shape t) (mhas_typed t v Hok Hv)) as [E1 E2].
  split; [exact E1|]. rewrite E2. exact (max_size_bound t v b Hok Hv Hb).
Qed.

(* ---- tightness ---- *)
Lemma spec_varint_length_lower k : forall v, 128 ^ N.of_nat k <= v -> (k + 1 <= length (spec_varint v))%nat.
Proof.
  induction k as [|k IH]; intros v Hv.
  - rewrite spec_varint_unfold. destruct (v <? 128); simpl; lia.
  - replace (N.of_nat (S k)) with (N.succ (N.of_nat k)) in Hv by lia. rewrite N.pow_succ_r' in Hv.
    rewrite spec_varint_unfold. destruct (N.ltb_spec v 128) as [Hs|Hs].
    + assert (1 <= 128 ^ N.of_nat k) by (apply N.lt_pred_le; apply N.neq_0_lt_0, N.pow_nonzero; discriminate). lia.
    + cbn [length]. apply le_n_S. apply IH. apply N.div_le_lower_bound; [discriminate|lia].
Qed.

Lemma varint_size_exact n : n < 2 ^ 64 ->
  N.of_nat (length (spec_varint n)) = Z.to_N (Core.varint_size (Z.of_N n)).
Proof.
  intros Hn. apply N.le_antisymm; [apply len_prefix_le; [lia|exact Hn]|].
  destruct (N.eq_dec n 0) as [->|Hnz]; [vm_compute; discriminate|].
  rewrite varint_size_spec by lia.
  set (L := Z.log2 (Z.of_N n)).
  assert (HL : (0 <= L)%Z) by apply Z.log2_nonneg.
  assert (Hge : (2 ^ L <= Z.of_N n)%Z) by (apply Z.log2_spec; lia).
  pose proof (spec_varint_length_lower (Z.to_nat (L / 7)) n) as H.
  assert (Hp : 128 ^ N.of_nat (Z.to_nat (L / 7)) <= n).
  { apply N2Z.inj_le. rewrite N2Z.inj_pow. change (Z.of_N 128) with (2 ^ 7)%Z.
    rewrite <- Z.pow_mul_r by (try lia; apply N2Z.is_nonneg).
    eapply Z.le_trans; [|exact Hge]. apply Z.pow_le_mono_r; [lia|].
    rewrite nat_N_Z, Z2Nat.id by (apply Z.div_pos; lia).
    pose proof (Z.mul_div_le L 7 ltac:(lia)). lia. }
  specialize (H Hp).
  replace ((L + 7) / 7)%Z with (L / 7 + 1)%Z by (replace (L + 7)%Z with (L + 1 * 7)%Z by lia; rewrite Z.div_add by lia; reflexivity).
  assert (0 <= L / 7)%Z by (apply Z.div_pos; lia). lia.
Qed.

Lemma repeat_ascii_valid n : utf8_valid (repeat 120 n) = true /\ bytes_okb (repeat 120 n) = true.
Proof.
  split.
  - unfold utf8_valid, utf8_chars. rewrite repeat_length.
    assert (X : forall m f, (m <= f)%nat -> exists cs, utf8_chars_fuel f (repeat 120 m) = Some cs).
    { induction m as [|m IH]; intros f Hf; [destruct f; eexists; reflexivity|].
      destruct f as [|f]; [lia|]. cbn [repeat utf8_chars_fuel]. change (utf8_next (120 :: repeat 120 m)) with (Some (120, repeat 120 m)).
      destruct (IH f ltac:(lia)) as [cs ->]. eexists. reflexivity. }
    destruct (X n n (le_n n)) as [cs ->]. reflexivity.
  - induction n as [|n IH]; [reflexivity|]. cbn [repeat bytes_okb forallb]. exact IH.
Qed.

Lemma flat_map_repeat_len (x : value) n :
  length (flat_map spec_enc (repeat x n)) = (n * length (spec_enc x))%nat.
Proof. induction n as [|n IH]; [reflexivity|]. cbn [repeat flat_map]. rewrite app_length, IH. lia. Qed.

Definition attained (t : mty) : Prop :=
  tight_kind t = true -> mty_ok t = true ->
  exists b, max_size t = Some b /\ mhas (max_value t) t = true /\ elen (max_value t) = b.

Lemma fields_attained ts :
  Forall attained ts -> forallb tight_kind ts = true -> forallb mty_ok ts = true ->
  exists b, sum_opt (map max_size ts) = Some b /\ mfields ts (map max_value ts) = true /\
            N.of_nat (length (flat_map spec_enc (map max_value ts))) = b.
Proof.
  induction 1 as [|t r Ht _ IH]; intros Hk Hok; [exists 0; repeat split|].
  cbn [forallb] in Hk, Hok. apply andb_prop in Hk as [Hkt Hkr]. apply andb_prop in Hok as [Hot Hor].
  destruct (Ht Hkt Hot) as (bt & E1 & M1 & L1). destruct (IH Hkr Hor) as (br & E2 & M2 & L2).
  exists (bt + br). cbn [map sum_opt mfields flat_map]. rewrite E1, E2, M1, M2, app_length. unfold elen in L1.
  repeat split. lia.
Qed.

Theorem max_size_attained : forall t, attained t.
Proof.
  apply (mty_ind' attained); unfold attained.
  - intros t. destruct t; try exact I; intros Hk Hok.
    + eexists. repeat split.
    + destruct k; eexists; repeat split.
    + eexists. repeat split.
    + eexists. repeat split.
    + eexists. repeat split.
    + eexists. repeat split.
    + eexists. repeat split.
    + eexists. repeat split.
    + destruct k; eexists; repeat split.
    + eexists. repeat split.
    + eexists. repeat split.
    + eexists. repeat split.
    + (* heapless string *) cbn [mty_ok] in Hok. apply N.ltb_lt in Hok. rewrite ms_hstring. eexists. split; [reflexivity|].
      destruct (repeat_ascii_valid (N.to_nat n)) as [Hu Hb]. cbn [max_value mhas]. rewrite repeat_length, N2Nat.id, Hu, Hb.
      split; [rewrite N.leb_refl; reflexivity|]. unfold elen. cbn [spec_enc]. rewrite app_length, repeat_length.
      unfold spec_len. rewrite N2Nat.id. rewrite Nat2N.inj_add, N2Nat.id, varint_size_exact by exact Hok. lia.
  - (* option *) intros a IH Hk Hok. destruct (IH Hk Hok) as (b & E & M & L). rewrite ms_option, E.
    eexists. split; [reflexivity|]. split; [exact M|]. unfold elen in *. cbn [max_value spec_enc length]. lia.
  - intros a e _ _ Hk. discriminate Hk.
  - (* array *) intros a n IH Hk Hok. cbn [mty_ok] in Hok. apply andb_prop in Hok as [Hoa _].
    destruct (IH Hk Hoa) as (b & E & M & L). rewrite ms_array, E. eexists. split; [reflexivity|].
    cbn [max_value mhas]. rewrite repeat_length, N2Nat.id, N.eqb_refl. split.
    + apply forallb_forall. intros x Hx. apply repeat_spec in Hx. subst x. exact M.
    + unfold elen in *. cbn [spec_enc]. rewrite flat_map_repeat_len. lia.
  - intros a IH Hk Hok. destruct (IH Hk Hok) as (b & E & M & L). destruct (ms_transparent a) as (X & _). rewrite X. exists b. auto.
  - intros a IH Hk Hok. destruct (IH Hk Hok) as (b & E & M & L). destruct (ms_transparent a) as (_ & X & _). rewrite X. exists b. auto.
  - intros a IH Hk Hok. destruct (IH Hk Hok) as (b & E & M & L). destruct (ms_transparent a) as (_ & _ & X & _). rewrite X. exists b. auto.
  - intros a IH Hk Hok. destruct (IH Hk Hok) as (b & E & M & L). destruct (ms_transparent a) as (_ & _ & _ & X & _). rewrite X. exists b. auto.
  - intros a IH Hk Hok. destruct (IH Hk Hok) as (b & E & M & L). destruct (ms_transparent a) as (_ & _ & _ & _ & X & _). rewrite X. exists b. auto.
  - (* tuple *) intros ts H Hk Hok. cbn [mty_ok] in Hok. apply andb_prop in Hok as [Hok H6]. apply andb_prop in Hok as [Hok H1].
    apply Nat.leb_le in H1, H6. rewrite ms_tuple by lia. cbn [tight_kind] in Hk.
    destruct (fields_attained ts H Hk Hok) as (b & E & M & L). exists b. rewrite mhas_tuple. cbn [max_value]. auto.
  - intros a _ Hk. discriminate Hk.
  - intros a _ Hk. discriminate Hk.
  - intros a _ Hk. discriminate Hk.
  - intros a _ Hk. discriminate Hk.
  - (* heapless vec *) intros a n IH Hk Hok. cbn [mty_ok] in Hok. apply andb_prop in Hok as [Hoa Hn]. apply N.ltb_lt in Hn.
    destruct (IH Hk Hoa) as (b & E & M & L). rewrite ms_hvec, E. eexists. split; [reflexivity|].
    cbn [max_value mhas]. rewrite repeat_length, N2Nat.id, N.leb_refl. split.
    + apply forallb_forall. intros x Hx. apply repeat_spec in Hx. subst x. exact M.
    + unfold elen in *. cbn [spec_enc]. rewrite app_length, flat_map_repeat_len, repeat_length.
      unfold spec_len. rewrite N2Nat.id, Nat2N.inj_add, varint_size_exact by exact Hn. lia.
  - (* derived struct *) intros fs H Hk Hok. cbn [mty_ok tight_kind] in *.
    destruct (fields_attained fs H Hk Hok) as (b & E & M & L). exists b. rewrite mhas_struct. cbn [max_value max_size]. auto.
  - intros vs _ Hk. discriminate Hk.
Qed.
