(* CobsDecFacts.v: C07.  The in-place decoder of crate cobs (decode_raw! with source =
   destination) never indexes outside the buffer, never runs out of fuel, and computes the
   reference decoding of the first frame: the write index trails the read index, so what
   it still has to read is never overwritten, and nothing at or after the frame's end is
   touched. *)
From Coq Require Import Lia ZifyBool ZifyNat ZifyN.
From PV Require Import Base Cobs CobsRef BaseFacts ListAt.
Open Scope N_scope.

(* ---- the frame of a buffer ---- *)
Lemma take_frame_nonzero buf : Forall (fun b => b <> 0) (take_frame buf).
Proof.
  induction buf as [|b r IH]; cbn [take_frame]; [constructor|].
  destruct (N.eqb_spec b 0); [constructor|]. constructor; assumption.
Qed.
Lemma take_frame_prefix buf i :
  (i < length (take_frame buf))%nat -> read_at (take_frame buf) i = read_at buf i.
Proof.
  revert i; induction buf as [|b r IH]; intros i H; cbn [take_frame] in *; [cbn in H; lia|].
  destruct (N.eqb_spec b 0); [cbn in H; lia|]. destruct i; [reflexivity|]. cbn [read_at]. apply IH. cbn in H. lia.
Qed.
Lemma take_frame_length_le buf : (length (take_frame buf) <= length buf)%nat.
Proof.
  induction buf as [|b r IH]; cbn [take_frame]; [lia|]. destruct (b =? 0); cbn [length]; lia.
Qed.
Lemma src_end_is_frame_length buf :
  match index_of_zero buf with Some e => e | None => length buf end = length (take_frame buf).
Proof.
  induction buf as [|b r IH]; cbn [index_of_zero take_frame]; [reflexivity|].
  destruct (b =? 0); [reflexivity|]. cbn [length]. destruct (index_of_zero r); cbn [option_map]; lia.
Qed.
Lemma at_frame_end buf : read_at buf (length (take_frame buf)) = Some 0 \/ length (take_frame buf) = length buf.
Proof.
  induction buf as [|b r IH]; cbn [take_frame]; [right; reflexivity|].
  destruct (N.eqb_spec b 0); [left; subst; reflexivity|]. cbn [length read_at]. destruct IH; [left; assumption|right; lia].
Qed.

(* ---- fuel of the reference decoder ---- *)
Lemma cobs_dec_fuel_enough f1 f2 frame :
  (length frame <= f1)%nat -> (length frame <= f2)%nat -> cobs_dec_fuel f1 frame = cobs_dec_fuel f2 frame.
Proof.
  revert f2 frame; induction f1 as [|f1 IH]; intros f2 frame H1 H2.
  - destruct frame; [destruct f2; reflexivity|cbn in H1; lia].
  - destruct frame as [|code rest]; [destruct f2; reflexivity|].
    destruct f2 as [|f2]; [cbn in H2; lia|]. cbn [cobs_dec_fuel].
    destruct (Nat.ltb _ _); [reflexivity|].
    rewrite (IH f2); [reflexivity| |]; rewrite skipn_length; cbn [length] in *; lia.
Qed.
Lemma cobs_dec_ref_cons code rest :
  cobs_dec_ref (code :: rest) =
  let n := (N.to_nat code - 1)%nat in
  if Nat.ltb (length rest) n then None
  else match cobs_dec_ref (skipn n rest) with
       | None => None
       | Some tail => Some (firstn n rest ++ (if negb (code =? 255) && negb (Nat.eqb (length (skipn n rest)) 0) then [0] else []) ++ tail)
       end.
Proof.
  unfold cobs_dec_ref at 1. cbn [length cobs_dec_fuel]. cbv zeta.
  destruct (Nat.ltb _ _); [reflexivity|].
  rewrite (cobs_dec_fuel_enough (length rest) (length (skipn (N.to_nat code - 1) rest))); [reflexivity| |lia].
  rewrite skipn_length. lia.
Qed.

(* ---- the copy loop ---- *)
Lemma copy_run_spec n : forall buf si di,
  (di < si)%nat -> (si + n <= length buf)%nat ->
  exists buf', copy_run n buf si di = Ok (buf', (si + n)%nat, (di + n)%nat) /\ length buf' = length buf /\
    forall i, read_at buf' i = if Nat.leb di i && Nat.ltb i (di + n) then read_at buf (si + (i - di)) else read_at buf i.
Proof.
  induction n as [|n IH]; intros buf si di Hd Hs; cbn [copy_run].
  - exists buf. rewrite !Nat.add_0_r. repeat split. intro i.
    destruct (Nat.leb_spec di i), (Nat.ltb_spec i di); cbn [andb]; try lia; reflexivity.
  - destruct (read_at_Some buf si ltac:(lia)) as [x Ex]. rewrite Ex.
    destruct (write_at_spec buf di x ltac:(lia)) as (buf1 & Ew & L1 & R1). rewrite Ew.
    destruct (IH buf1 (S si) (S di) ltac:(lia) ltac:(lia)) as (buf' & Ec & L' & R').
    exists buf'. replace (si + S n)%nat with (S si + n)%nat by lia. replace (di + S n)%nat with (S di + n)%nat by lia.
    split; [exact Ec|]. split; [lia|]. intro i. rewrite R'.
    destruct (Nat.leb_spec (S di) i), (Nat.ltb_spec i (S di + n)), (Nat.leb_spec di i); cbn [andb]; try lia.
    + rewrite R1. destruct (Nat.eqb_spec (S si + (i - S di)) di); [lia|]. f_equal. lia.
    + rewrite R1. destruct (Nat.eqb_spec i di); [lia|reflexivity].
    + rewrite R1. destruct (Nat.eqb_spec i di) as [->|]; [|lia].
      replace (si + (di - di))%nat with si by lia. symmetry. exact Ex.
    + rewrite R1. destruct (Nat.eqb_spec i di); [lia|reflexivity].
Qed.

(* ---- the decoder loop against the reference ---- *)
Section Loop.
  Variable o : list byte.                     (* the buffer as handed in *)
  Variable E : nat.
  Variable frame : list byte.
  Hypothesis Hframe : frame = take_frame o.
  Hypothesis HE : E = length frame.

  Definition loop_inv (buf : list byte) (si di : nat) : Prop :=
    length buf = length o /\ (di <= si <= E)%nat /\ forall i, (si <= i)%nat -> read_at buf i = read_at o i.

  Definition loop_post (buf : list byte) (di : nat) (tail : list byte) (buf' : list byte) : Prop :=
    length buf' = length o /\
    (forall i, (i < di)%nat -> read_at buf' i = read_at buf i) /\
    (forall k, (k < length tail)%nat -> read_at buf' (di + k) = read_at tail k) /\
    (forall i, (E <= i)%nat -> read_at buf' i = read_at o i) /\
    (di + length tail <= E)%nat.

  Lemma frame_at i : (i < E)%nat -> exists c, read_at o i = Some c /\ c <> 0 /\ read_at frame i = Some c.
  Proof.
    intro H. destruct (read_at_Some frame i ltac:(lia)) as [c Hc]. exists c.
    assert (Hi : (i < length (take_frame o))%nat) by (rewrite <- Hframe; lia).
    rewrite <- (take_frame_prefix o i Hi), <- Hframe. split; [exact Hc|]. split; [|exact Hc].
    pose proof (take_frame_nonzero o) as HF. rewrite <- Hframe, Forall_forall in HF. apply HF.
    clear - Hc. revert i Hc. induction frame as [|y l IH]; intros i Hc; [destruct i; discriminate|].
    destruct i; [inversion Hc; left; reflexivity|right; eapply IH; exact Hc].
  Qed.

  Lemma skipn_frame_cons si c : (si < E)%nat -> read_at frame si = Some c ->
    skipn si frame = c :: skipn (S si) frame.
  Proof.
    intros H Hc. apply list_ext.
    - cbn [length]. rewrite !skipn_length. lia.
    - intro i. destruct i as [|i]; cbn [read_at]; rewrite !read_at_skipn'.
      + rewrite Nat.add_0_r. exact Hc.
      + f_equal. lia.
  Qed.

  Lemma dst_eq a b : a = b -> {| dst_used := a; src_used := E |} = {| dst_used := b; src_used := E |}.
  Proof. intros ->. reflexivity. Qed.

  Lemma decode_loop_spec fuel : forall buf si di,
    loop_inv buf si di -> (E < fuel + si)%nat ->
    match cobs_dec_ref (skipn si frame) with
    | None => decode_loop fuel E buf si di = Ok None
    | Some tail => exists buf', decode_loop fuel E buf si di = Ok (Some (buf', {| dst_used := (di + length tail)%nat; src_used := E |}))
                                /\ loop_post buf di tail buf'
    end.
  Proof.
    induction fuel as [|fuel IH]; intros buf si di (HL & (Hd & Hs) & HR) Hf.
    - (* no fuel: si must already be at the end *) lia.
    - cbn [decode_loop]. destruct (Nat.leb_spec E si) as [Hend|Hlt].
      + assert (si = E) by lia. subst si. rewrite HE, skipn_all. unfold cobs_dec_ref. cbn.
        exists buf. rewrite Nat.add_0_r. split; [reflexivity|]. unfold loop_post. cbn [length].
        repeat split; try assumption; try lia; intros k Hk; cbn in Hk; lia.
      + destruct (frame_at si Hlt) as (code & Hoc & Hnz & Hfc).
        rewrite (HR si (le_n _)), Hoc. rewrite (skipn_frame_cons si code Hlt Hfc), cobs_dec_ref_cons. cbv zeta.
        set (n := (N.to_nat code - 1)%nat).
        assert (Hcode : (1 <= N.to_nat code)%nat) by lia.
        assert (Hrl : length (skipn (S si) frame) = (E - S si)%nat) by (rewrite skipn_length; lia).
        rewrite Hrl.
        destruct (N.eqb_spec code 1) as [E1|N1]; cbn [negb andb].
        * (* code = 1: no data bytes *)
          rewrite Bool.andb_false_r. subst code. replace n with O by (subst n; cbn; lia). cbn [copy_run bind].
          change (skipn 0 (skipn (S si) frame)) with (skipn (S si) frame).
          change (firstn 0 (skipn (S si) frame)) with (@nil byte). cbn [app].
          destruct (Nat.ltb_spec (E - S si) 0); [lia|].
          change (1 =? 255) with false. change (255 =? 1) with false. cbn [negb andb].
          rewrite Hrl.
          destruct (Nat.ltb_spec (S si) E) as [Hmore|Hlast].
          -- (* a zero is emitted *)
             destruct (Nat.eqb_spec (E - S si) 0); [lia|]. cbn [negb].
             destruct (write_at_spec buf di 0 ltac:(pose proof (take_frame_length_le o); rewrite <- Hframe in *; lia)) as (buf2 & Ew & L2 & R2).
             rewrite Ew.
             assert (Hinv2 : loop_inv buf2 (S si) (S di)).
             { split; [lia|]. split; [lia|]. intros i Hi. rewrite R2. destruct (Nat.eqb_spec i di); [lia|]. apply HR. lia. }
             specialize (IH buf2 (S si) (S di) Hinv2 ltac:(lia)).
             destruct (cobs_dec_ref (skipn (S si) frame)) as [tail|]; [|exact IH].
             destruct IH as (buf' & Ed & HP). exists buf'. cbn [length app].
             replace (di + S (length tail))%nat with (S di + length tail)%nat by lia. split; [rewrite Ed; do 3 f_equal; apply dst_eq; cbn [length]; lia|].
             destruct HP as (P1 & P2 & P3 & P4 & P5). unfold loop_post; cbn [length]; rewrite ?app_length, ?Lfn; cbn [length]. repeat split; try assumption; try lia.
             ++ intros i Hi. rewrite P2 by lia. rewrite R2. destruct (Nat.eqb_spec i di); [lia|reflexivity].
             ++ intros k Hk. destruct k as [|k]; cbn [read_at].
                ** rewrite Nat.add_0_r, P2 by lia. rewrite R2, Nat.eqb_refl. reflexivity.
                ** replace (di + S k)%nat with (S di + k)%nat by lia. apply P3. cbn [length] in *. cbn [length] in Hk. lia.
          -- (* the frame ends here: no zero *)
             destruct (Nat.eqb_spec (E - S si) 0); [|lia]. cbn [negb].
             assert (Hinv2 : loop_inv buf (S si) di).
             { split; [assumption|]. split; [lia|]. intros i Hi. apply HR. lia. }
             specialize (IH buf (S si) di Hinv2 ltac:(lia)).
             destruct (cobs_dec_ref (skipn (S si) frame)) as [tail|]; [|exact IH].
             destruct IH as (buf' & Ed & HP). exists buf'. cbn [length app]. split; [exact Ed|exact HP].
        * (* code >= 2 *)
          rewrite Bool.andb_true_r.
          assert (Hn : (N.to_nat code = S n)%nat) by (subst n; lia).
          destruct (Nat.ltb_spec E (si + N.to_nat code)) as [Hbad|Hok];
            destruct (Nat.ltb_spec (E - S si) n) as [Hbad'|Hok']; try lia; [reflexivity|].
          destruct (copy_run_spec n buf (S si) di ltac:(lia) ltac:(pose proof (take_frame_length_le o); rewrite <- Hframe in *; lia))
            as (buf1 & Ec & L1 & R1).
          rewrite Ec. cbn [bind]. rewrite skipn_length, Hrl.
          assert (HR1 : forall i, (S si + n <= i)%nat -> read_at buf1 i = read_at o i).
          { intros i Hi. rewrite R1. destruct (Nat.leb_spec di i), (Nat.ltb_spec i (di + n)); cbn [andb]; try lia; apply HR; lia. }
          assert (Hdata : forall k, (k < n)%nat -> read_at buf1 (di + k) = read_at (firstn n (skipn (S si) frame)) k).
          { intros k Hk. rewrite R1. destruct (Nat.leb_spec di (di + k)), (Nat.ltb_spec (di + k) (di + n)); cbn [andb]; try lia.
            rewrite read_at_firstn. destruct (Nat.ltb_spec k n); [|lia]. rewrite read_at_skipn'.
            replace (S si + (di + k - di))%nat with (S si + k)%nat by lia.
            rewrite HR by lia. symmetry. rewrite Hframe. apply take_frame_prefix. rewrite <- Hframe. lia. }
          assert (Lfn : length (firstn n (skipn (S si) frame)) = n) by (apply firstn_length_le; lia).
          destruct (N.eqb_spec 255 code) as [E255|N255]; destruct (N.eqb_spec code 255) as [E255'|N255']; try congruence; cbn [negb andb].
          -- (* 0xFF block: no zero *)
             assert (Hinv2 : loop_inv buf1 (S si + n) (di + n)).
             { split; [lia|]. split; [lia|]. exact HR1. }
             specialize (IH buf1 (S si + n)%nat (di + n)%nat Hinv2 ltac:(lia)).
             rewrite skipn_skipn' in *. replace (S si + n)%nat with (n + S si)%nat in * by lia.
             destruct (cobs_dec_ref (skipn (n + S si) frame)) as [tail|]; [|exact IH].
             destruct IH as (buf' & Ed & HP). exists buf'. cbn [app]. rewrite app_length, Lfn.
             replace (di + (n + length tail))%nat with (di + n + length tail)%nat by lia. split; [rewrite Ed; do 3 f_equal; apply dst_eq; cbn [length]; lia|].
             destruct HP as (P1 & P2 & P3 & P4 & P5). unfold loop_post; cbn [length]; rewrite ?app_length, ?Lfn; cbn [length]. repeat split; try assumption; try lia.
             ++ intros i Hi. rewrite P2 by lia. rewrite R1.
                destruct (Nat.leb_spec di i), (Nat.ltb_spec i (di + n)); cbn [andb]; try lia; reflexivity.
             ++ intros k Hk. rewrite read_at_app, Lfn. destruct (Nat.ltb_spec k n).
                ** rewrite P2 by lia. apply Hdata. assumption.
                ** replace (di + k)%nat with (di + n + (k - n))%nat by lia. apply P3. cbn [length] in *. rewrite ?app_length, ?Lfn in Hk. lia.
          -- destruct (Nat.ltb_spec (n + S si) E) as [Hmore|Hlast]; replace (S si + n)%nat with (n + S si)%nat in * by lia.
             ++ destruct (Nat.ltb_spec (n + S si) E); [|lia].
                destruct (Nat.eqb_spec (E - S si - n) 0); [lia|]. cbn [negb].
                destruct (write_at_spec buf1 (di + n) 0 ltac:(pose proof (take_frame_length_le o); rewrite <- Hframe in *; lia)) as (buf2 & Ew & L2 & R2).
                rewrite Ew.
                assert (Hinv2 : loop_inv buf2 (n + S si) (S (di + n))).
                { split; [lia|]. split; [lia|]. intros i Hi. rewrite R2. destruct (Nat.eqb_spec i (di + n)); [lia|]. apply HR1. lia. }
                specialize (IH buf2 (n + S si)%nat (S (di + n)) Hinv2 ltac:(lia)).
                rewrite skipn_skipn' in *. replace (S si + n)%nat with (n + S si)%nat in * by lia.
                destruct (cobs_dec_ref (skipn (n + S si) frame)) as [tail|]; [|exact IH].
                destruct IH as (buf' & Ed & HP). exists buf'. rewrite !app_length, Lfn. cbn [length].
                replace (di + (n + (1 + length tail)))%nat with (S (di + n) + length tail)%nat by lia. split; [rewrite Ed; do 3 f_equal; apply dst_eq; cbn [length]; lia|].
                destruct HP as (P1 & P2 & P3 & P4 & P5). unfold loop_post; cbn [length]; rewrite ?app_length, ?Lfn; cbn [length]. repeat split; try assumption; try lia.
                ** intros i Hi. rewrite P2 by lia. rewrite R2. destruct (Nat.eqb_spec i (di + n)); [lia|]. rewrite R1.
                   destruct (Nat.leb_spec di i), (Nat.ltb_spec i (di + n)); cbn [andb]; try lia; reflexivity.
                ** intros k Hk. rewrite read_at_app, Lfn. destruct (Nat.ltb_spec k n).
                   --- rewrite P2 by lia. rewrite R2. destruct (Nat.eqb_spec (di + k) (di + n)); [lia|]. apply Hdata. assumption.
                   --- destruct (Nat.eq_dec k n) as [->|Hne].
                       +++ rewrite Nat.sub_diag. cbn [app read_at]. rewrite P2 by lia. rewrite R2, Nat.eqb_refl. reflexivity.
                       +++ replace (k - n)%nat with (S (k - n - 1)) by lia. cbn [app read_at].
                           replace (di + k)%nat with (S (di + n) + (k - n - 1))%nat by lia. apply P3. cbn [length] in *. lia.
             ++ destruct (Nat.ltb_spec (n + S si) E); [lia|].
                destruct (Nat.eqb_spec (E - S si - n) 0); [|lia]. cbn [negb].
                assert (Hinv2 : loop_inv buf1 (n + S si) (di + n)).
                { split; [lia|]. split; [lia|]. intros i Hi. apply HR1. lia. }
                specialize (IH buf1 (n + S si)%nat (di + n)%nat Hinv2 ltac:(lia)).
                rewrite skipn_skipn' in *. replace (S si + n)%nat with (n + S si)%nat in * by lia.
                destruct (cobs_dec_ref (skipn (n + S si) frame)) as [tail|]; [|exact IH].
                destruct IH as (buf' & Ed & HP). exists buf'. cbn [app]. rewrite app_length, Lfn.
                replace (di + (n + length tail))%nat with (di + n + length tail)%nat by lia. split; [rewrite Ed; do 3 f_equal; apply dst_eq; cbn [length]; lia|].
                destruct HP as (P1 & P2 & P3 & P4 & P5). unfold loop_post; cbn [length]; rewrite ?app_length, ?Lfn; cbn [length]. repeat split; try assumption; try lia.
                ** intros i Hi. rewrite P2 by lia. rewrite R1.
                   destruct (Nat.leb_spec di i), (Nat.ltb_spec i (di + n)); cbn [andb]; try lia; reflexivity.
                ** intros k Hk. rewrite read_at_app, Lfn. destruct (Nat.ltb_spec k n).
                   --- rewrite P2 by lia. apply Hdata. assumption.
                   --- replace (di + k)%nat with (di + n + (k - n))%nat by lia. apply P3. cbn [length] in *. rewrite ?app_length, ?Lfn in Hk. lia.
  Qed.
End Loop.

(* ---- the decoder as a whole ---- *)
Theorem decode_in_place_spec buf :
  match cobs_dec_ref (take_frame buf) with
  | None => decode_in_place_report buf = Ok None
  | Some p =>
    exists buf', decode_in_place_report buf
                 = Ok (Some (buf', {| dst_used := length p; src_used := length (take_frame buf) |})) /\
                 length buf' = length buf /\ firstn (length p) buf' = p /\
                 skipn (length (take_frame buf)) buf' = skipn (length (take_frame buf)) buf /\
                 (length p <= length (take_frame buf))%nat
  end.
Proof.
  unfold decode_in_place_report. rewrite src_end_is_frame_length.
  set (E := length (take_frame buf)).
  assert (Hinv : loop_inv buf E buf 0 0) by (unfold loop_inv; repeat split; lia).
  pose proof (decode_loop_spec buf E (take_frame buf) eq_refl eq_refl (S E) buf 0%nat 0%nat Hinv ltac:(lia)) as H.
  cbn [skipn] in H.
  destruct (cobs_dec_ref (take_frame buf)) as [p|]; [|exact H].
  destruct H as (buf' & Ed & (P1 & P2 & P3 & P4 & P5)). exists buf'. cbn [Nat.add] in *.
  split; [exact Ed|]. split; [exact P1|]. split; [|split; [|exact P5]].
  - apply list_ext.
    + apply firstn_length_le. pose proof (take_frame_length_le buf) as HL. subst E. lia.
    + intro i. rewrite read_at_firstn. destruct (Nat.ltb_spec i (length p)); [apply P3; assumption|].
      symmetry. apply read_at_None. assumption.
  - apply list_ext; [rewrite !skipn_length; lia|]. intro i. rewrite !read_at_skipn'. apply P4. lia.
Qed.

Theorem decode_in_place_total buf : benign (decode_in_place_report buf).
Proof.
  pose proof (decode_in_place_spec buf) as H. destruct (cobs_dec_ref (take_frame buf)).
  - destruct H as (buf' & -> & _). exact I.
  - rewrite H. exact I.
Qed.
