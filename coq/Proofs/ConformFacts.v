(* ConformFacts.v: a value whose data-model items conform to a schema has the shape the schema
   prescribes, so a reader that knows only the schema consumes its encoding exactly (C14). *)
From PV Require Import Base MachineInt Utf8 DataModel Schema SchemaDecl SchemaConv SchemaOps Conform Ser De.
From PV Require Import BaseFacts SerFacts DeFacts SchemaFacts.
From Coq Require Import Lia.
Open Scope N_scope.

Section NvalueInd.
  Variable P : nvalue -> Prop.
  Hypothesis HLeaf : forall v, match v with
                               | NBool _ | NInt _ _ | NF32 _ | NF64 _ | NChar _ | NStr _ | NBytes _ | NNone | NUnit
                               | NUnitStruct _ => P v
                               | _ => True
                               end.
  Hypothesis HSome : forall x, P x -> P (NSome x).
  Hypothesis HNewtype : forall n x, P x -> P (NNewtypeStruct n x).
  Hypothesis HSeq : forall xs, Forall P xs -> P (NSeq xs).
  Hypothesis HTuple : forall xs, Forall P xs -> P (NTuple xs).
  Hypothesis HTupleStruct : forall n xs, Forall P xs -> P (NTupleStruct n xs).
  Hypothesis HMap : forall kvs, Forall (fun kv => P (fst kv) /\ P (snd kv)) kvs -> P (NMap kvs).
  Hypothesis HStruct : forall n fs, Forall (fun f => P (snd f)) fs -> P (NStruct n fs).
  Hypothesis HVariant : forall e i vn p, P p -> P (NVariant e i vn p).
  Fixpoint nvalue_ind' (v : nvalue) : P v :=
    let fix go (xs : list nvalue) : Forall P xs :=
      match xs with [] => Forall_nil P | x :: r => Forall_cons x (nvalue_ind' x) (go r) end in
    let fix gom (kvs : list (nvalue * nvalue)) : Forall (fun kv => P (fst kv) /\ P (snd kv)) kvs :=
      match kvs with [] => Forall_nil _ | kv :: r => Forall_cons kv (conj (nvalue_ind' (fst kv)) (nvalue_ind' (snd kv))) (gom r) end in
    let fix gof (fs : list (list N * nvalue)) : Forall (fun f => P (snd f)) fs :=
      match fs with [] => Forall_nil _ | f :: r => Forall_cons f (nvalue_ind' (snd f)) (gof r) end in
    match v with
    | NBool b => HLeaf (NBool b) | NInt k z => HLeaf (NInt k z) | NF32 b => HLeaf (NF32 b) | NF64 b => HLeaf (NF64 b)
    | NChar c => HLeaf (NChar c) | NStr b => HLeaf (NStr b) | NBytes b => HLeaf (NBytes b)
    | NNone => HLeaf NNone | NUnit => HLeaf NUnit | NUnitStruct n => HLeaf (NUnitStruct n)
    | NSome x => HSome x (nvalue_ind' x)
    | NNewtypeStruct n x => HNewtype n x (nvalue_ind' x)
    | NSeq xs => HSeq xs (go xs) | NTuple xs => HTuple xs (go xs)
    | NTupleStruct n xs => HTupleStruct n xs (go xs)
    | NMap kvs => HMap kvs (gom kvs)
    | NStruct n fs => HStruct n fs (gof fs)
    | NVariant e i vn p => HVariant e i vn p (nvalue_ind' p)
    end.
End NvalueInd.

Section Typed.
  Variable d : nat.
  Definition ok (v : nvalue) : Prop := forall s, conforms d v s = true -> has_type (erase v) (schema_ty d s) = true.

  Definition fields_typed (vs : list value) (ts : list ty) : bool :=
    (fix go (vs : list value) (ts : list ty) : bool :=
       match vs, ts with
       | [], [] => true
       | x :: vs', t' :: ts' => has_type x t' && go vs' ts'
       | _, _ => false
       end) vs ts.

  Lemma prim_typed v p : prim_conforms d v p = true -> has_type (erase v) (prim_ty d p) = true.
  Proof. destruct p, v; cbn [prim_conforms]; intros H; try discriminate H; exact H. Qed.

  Lemma list_typed xs : Forall ok xs -> forall ts, conforms_list (conforms d) xs ts = true ->
    fields_typed (map erase xs) (map (schema_ty d) ts) = true.
  Proof.
    induction 1 as [|x r Hx _ IH]; intros [|t ts] H; try discriminate H; [reflexivity|].
    cbn [conforms_list] in H. apply andb_prop in H as [H1 H2]. cbn [map fields_typed].
    rewrite (Hx t H1). exact (IH ts H2).
  Qed.
  Lemma unnamed_typed xs : Forall ok xs -> forall fs : list (str * schema), conforms_unnamed (conforms d) xs fs = true ->
    fields_typed (map erase xs) (map (fun f => schema_ty d (snd f)) fs) = true.
  Proof.
    induction 1 as [|x r Hx _ IH]; intros [|t ts] H; try discriminate H; [reflexivity|].
    cbn [conforms_unnamed] in H. apply andb_prop in H as [H1 H2]. cbn [map fields_typed].
    rewrite (Hx (snd t) H1). exact (IH ts H2).
  Qed.
  Lemma named_typed (xs : list (list N * nvalue)) : Forall (fun f => ok (snd f)) xs ->
    forall fs : list (str * schema), conforms_named (conforms d) xs fs = true ->
    fields_typed (map (fun f => erase (snd f)) xs) (map (fun f => schema_ty d (snd f)) fs) = true.
  Proof.
    induction 1 as [|x r Hx _ IH]; intros [|t ts] H; try discriminate H; [reflexivity|].
    cbn [conforms_named] in H. apply andb_prop in H as [H1 H2]. apply andb_prop in H1 as [_ H1]. cbn [map fields_typed].
    rewrite (Hx (snd t) H1). exact (IH ts H2).
  Qed.

  Theorem conforms_typed : forall v, ok v.
  Proof.
    apply (nvalue_ind' ok); unfold ok.
    - intros v. destruct v; try exact I; intros s H; destruct s; cbn [conforms] in H; try discriminate H;
        try (apply prim_typed; exact H); try reflexivity.
      (* against a struct schema: only the unit struct conforms, to the unit data kind *)
      all: match type of H with match ?kk with _ => _ end = true => destruct kk end; try discriminate H.
      all: destruct fields; [reflexivity|discriminate H].
    - intros x IH s H. destruct s; cbn [conforms] in H; try discriminate H; [apply prim_typed; exact H| |destruct k; discriminate H].
      cbn [erase schema_ty has_type]. apply IH. exact H.
    - intros n x IH s H. destruct s; cbn [conforms] in H; try discriminate H; [apply prim_typed; exact H|].
      destruct k; try discriminate H. destruct fields as [|f [|? ?]]; try discriminate H.
      cbn [erase schema_ty map data_shape has_type]. apply IH. exact H.
    - intros xs IH s H. destruct s; cbn [conforms] in H; try discriminate H; [apply prim_typed; exact H| |destruct k; discriminate H].
      apply andb_prop in H as [H Hl]. cbn [erase schema_ty has_type]. rewrite map_length, Hl, andb_true_r.
      apply forallb_forall. intros y Hy. apply in_map_iff in Hy as (x & <- & Hx).
      rewrite forallb_forall in H. rewrite Forall_forall in IH. apply IH; auto.
    - intros xs IH s H. destruct s; cbn [conforms] in H; try discriminate H; [apply prim_typed; exact H| |destruct k; discriminate H].
      cbn [erase schema_ty has_type]. exact (list_typed xs IH ts H).
    - intros n xs IH s H. destruct s; cbn [conforms] in H; try discriminate H; [apply prim_typed; exact H|].
      destruct k; try discriminate H. cbn [erase schema_ty data_shape has_type]. exact (unnamed_typed xs IH fields H).
    - intros kvs IH s H. destruct s; cbn [conforms] in H; try discriminate H; [apply prim_typed; exact H| |destruct k; discriminate H].
      apply andb_prop in H as [H Hl]. cbn [erase schema_ty has_type]. rewrite map_length, Hl, andb_true_r.
      apply forallb_forall. intros y Hy. apply in_map_iff in Hy as (kv & <- & Hkv).
      rewrite forallb_forall in H. rewrite Forall_forall in IH. specialize (H kv Hkv). apply andb_prop in H as [Hk Hv].
      destruct (IH kv Hkv) as [Ik Iv]. cbn [fst snd]. rewrite (Ik _ Hk), (Iv _ Hv). reflexivity.
    - intros n fs IH s H. destruct s; cbn [conforms] in H; try discriminate H; [apply prim_typed; exact H|].
      destruct k; try discriminate H. cbn [erase schema_ty data_shape has_type]. exact (named_typed fs IH fields H).
    - intros e i vn p IH s H. destruct s; cbn [conforms] in H; try discriminate H; [apply prim_typed; exact H|destruct k; discriminate H|].
      apply andb_prop in H as [Hi H]. destruct (nth_error variants (N.to_nat i)) as [[[vn' k] fs]|] eqn:En; [|discriminate H].
      apply andb_prop in H as [_ H]. cbn [erase schema_ty].
      eapply has_type_variant.
      + rewrite nth_error_map, En. reflexivity.
      + apply N.ltb_lt. exact Hi.
      + cbn [fst snd]. pose proof (IH (SStruct [] k fs)) as IHs. cbn [conforms schema_ty] in IHs. apply IHs.
        destruct k, p; try discriminate H; exact H.
  Qed.
End Typed.

(* the schema-driven reader consumes every encoding of a conforming value exactly *)
Theorem conforms_skip d v s rest :
  conforms d v s = true -> bytes_ok rest ->
  ser_err (erase v) = None /\ schema_skip d s (enc (erase v) ++ rest) = Ok rest.
Proof.
  intros H Hr. pose proof (conforms_typed d v s H) as Ht.
  destruct (enc_is_spec_aux _ _ Ht) as [E _]. split; [exact E|].
  unfold schema_skip. rewrite (roundtrip _ _ rest Ht Hr). reflexivity.
Qed.
