(* Thresholds.v: the entry points of ser/mod.rs on fixed and growable storage, plain and with
   COBS / CRC framing: C05 (exact capacity threshold), C06 (COBS output), C20 (stacks). *)
From Coq Require Import Lia ZifyBool ZifyNat ZifyN.
From PV Require Import Base MachineInt DataModel Ser De Cobs CobsRef Crc SerFlavors DeFlavors
  BaseFacts ListAt SerFacts DeFacts CobsDecFacts CobsEncFacts CobsEntry Sinks CrcFacts.
Open Scope N_scope.

Definition ordinary_value (v : value) : Prop := ser_err v = None /\ ordinary (fst (ser_ops v)).

(* ---------------- plain ---------------- *)
Lemma slice_new_inv buf : slice_inv (slice_new buf) /\ slice_bytes (slice_new buf) = [] /\ slice_room (slice_new buf) = Some (length buf).
Proof. unfold slice_inv, slice_bytes, slice_room, slice_new. cbn. repeat split; try lia. f_equal. lia. Qed.

Theorem to_slice_threshold v buf :
  ordinary_value v ->
  if Nat.leb (length (enc v)) (length buf)
  then to_slice v buf = Ok (enc v, enc v ++ skipn (length (enc v)) buf)
  else to_slice v buf = Err SerializeBufferFull.
Proof.
  intros [He Ho]. destruct (slice_new_inv buf) as (Hi & Hb & Hr). unfold to_slice.
  pose proof (serialize_with_spec slice_flavor slice_inv slice_bytes slice_room (fun o => fst o) slice_lawful v (slice_new buf) Hi He) as H.
  rewrite Hr in H. cbn [room_ok] in H. destruct (Nat.leb_spec (length (enc v)) (length buf)).
  - destruct H as ([out whole] & E & Hout). rewrite E. rewrite Hb in Hout. cbn [fst app] in Hout. subst out. f_equal. f_equal.
    (* the whole buffer afterwards *)
    unfold serialize_with in E. unfold ser_err in He. destruct (ser_ops v) as [ops e0] eqn:Eo. cbn [snd] in He. subst e0.
    destruct (run_ops slice_flavor (slice_new buf) ops) as [s'| | | |] eqn:Er; try discriminate. cbn [bind] in E.
    destruct (slice_rest_untouched ops _ _ Hi Er) as (Sk & L & _). cbn [slice_new sl_buf] in Sk, L.
    cbn [slice_flavor sf_finalize] in E. unfold slice_finalize in E. destruct (Nat.ltb _ _); [discriminate|]. cbn [map_err] in E.
    inversion E as [[E1 E2]]. 
    pose proof (run_ops_spec slice_flavor slice_inv slice_bytes slice_room (fun o => fst o) slice_lawful ops (slice_new buf) Hi) as HR.
    rewrite Hr in HR. cbn [room_ok] in HR. unfold enc in *. rewrite Eo in *. cbn [fst] in *.
    destruct (Nat.leb_spec (length (flatten_ops ops)) (length buf)); [|lia].
    destruct HR as (s'' & Er' & (Hs0 & Hc & Hend) & Hbs & _). rewrite Er in Er'. inversion Er'; subst s''.
    rewrite Hb in Hbs. cbn [app] in Hbs. unfold slice_bytes in Hbs.
    assert (Hcur : sl_cursor s' = length (flatten_ops ops)).
    { rewrite <- Hbs. rewrite firstn_length_le; lia. }
    rewrite ?E1. clear E1 E2 E.
    transitivity (firstn (sl_cursor s') (sl_buf s') ++ skipn (sl_cursor s') (sl_buf s')); [symmetry; apply firstn_skipn|].
    rewrite Hbs, Sk, Hcur. reflexivity.
  - destruct H as (e & -> & Hord). rewrite (Hord Ho). reflexivity.
Qed.

Theorem to_vec_threshold cap v :
  ordinary_value v ->
  if Nat.leb (length (enc v)) cap then to_vec cap v = Ok (enc v) else to_vec cap v = Err SerializeBufferFull.
Proof.
  intros [He Ho]. unfold to_vec.
  pose proof (serialize_with_spec (hvec_flavor cap) _ _ _ _ (hvec_lawful cap) v [] ltac:(cbn; lia) He) as H.
  cbn [room_ok length] in H. rewrite Nat.sub_0_r in H. destruct (Nat.leb (length (enc v)) cap).
  - destruct H as (o & -> & Hout). cbn [app] in Hout. subst o. reflexivity.
  - destruct H as (e & -> & Hord). rewrite (Hord Ho). reflexivity.
Qed.

Theorem to_allocvec_is_enc v : ser_err v = None -> to_allocvec v = Ok (enc v).
Proof.
  intro He. unfold to_allocvec.
  pose proof (serialize_with_spec alloc_flavor _ _ _ _ alloc_lawful v [] I He) as H. cbn [room_ok] in H.
  destruct H as (o & -> & Hout). cbn [app] in Hout. subst o. reflexivity.
Qed.
Theorem to_extend_is_enc v pre : ser_err v = None -> to_extend v pre = Ok (pre ++ enc v).
Proof.
  intro He. unfold to_extend, serialize_with, ser_err, enc in *. destruct (ser_ops v) as [ops e0]. cbn [fst snd] in *. subst e0.
  assert (H : forall ops s, run_ops extend_flavor s ops = Ok (s ++ flatten_ops ops)).
  { clear. induction ops as [|o ops IH]; intro s; cbn [run_ops]; [unfold flatten_ops; cbn; now rewrite app_nil_r|].
    destruct o; cbn [run_op extend_flavor sf_push sf_extend map_err bind]; rewrite IH; unfold flatten_ops; cbn [flat_map op_bytes];
      rewrite <- app_assoc; reflexivity. }
  rewrite H. reflexivity.
Qed.
Theorem size_counts v : ser_err v = None -> serialized_size v = Ok (N.of_nat (length (enc v))).
Proof.
  intro He. unfold serialized_size, serialize_with, ser_err, enc in *. destruct (ser_ops v) as [ops e0]. cbn [fst snd] in *. subst e0.
  assert (H : forall ops n, run_ops size_flavor n ops = Ok (n + N.of_nat (length (flatten_ops ops)))).
  { clear. induction ops as [|o ops IH]; intro n; cbn [run_ops]; [unfold flatten_ops; cbn; f_equal; lia|].
    assert (E : flatten_ops (o :: ops) = op_bytes o ++ flatten_ops ops) by reflexivity. rewrite E, app_length.
    destruct o; cbn [run_op size_flavor sf_push sf_extend map_err bind op_bytes length]; rewrite IH; f_equal; lia. }
  rewrite H. cbn [bind size_flavor sf_finalize map_err]. f_equal.
Qed.

(* ---------------- COBS ---------------- *)
Lemma cobs_serialize {St Out} (inner : sflavor St Out) s0 v :
  ser_err v = None ->
  match cobs_whole inner s0 (enc v) with
  | Ok o => (let* st := cobs_try_new inner s0 in serialize_with (cobs_flavor inner) st v) = Ok o
  | Err e => exists e', (let* st := cobs_try_new inner s0 in serialize_with (cobs_flavor inner) st v) = Err e' /\
                        (e = SerializeBufferFull -> ordinary (fst (ser_ops v)) -> e' = SerializeBufferFull)
  | Panic => (let* st := cobs_try_new inner s0 in serialize_with (cobs_flavor inner) st v) = Panic
  | Fault => (let* st := cobs_try_new inner s0 in serialize_with (cobs_flavor inner) st v) = Fault
  | OutOfFuel => (let* st := cobs_try_new inner s0 in serialize_with (cobs_flavor inner) st v) = OutOfFuel
  end.
Proof.
  intro He. unfold cobs_whole, serialize_with, ser_err, enc in *. destruct (ser_ops v) as [ops e0]. cbn [fst snd] in *. subst e0.
  destruct (cobs_try_new inner s0) as [st|e| | |]; cbn [bind]; try reflexivity; [|eexists; split; [reflexivity|intros; assumption]].
  pose proof (run_ops_bytewise (cobs_flavor inner) (cobs_bytewise inner) ops st) as HR. cbn [cobs_flavor sf_push] in HR.
  destruct (extend_by_push (cobs_push inner) st (flatten_ops ops)) as [st'|e| | |]; cbn [bind].
  - rewrite HR. cbn [bind cobs_flavor sf_finalize]. destruct (cobs_finalize inner st'); cbn [map_err]; try reflexivity.
    eexists. split; [reflexivity|reflexivity].
  - destruct HR as (e' & -> & He'). exists e'. split; [reflexivity|]. intros _ Hord. apply He', Hord.
  - rewrite HR. reflexivity.
  - rewrite HR. reflexivity.
  - rewrite HR. reflexivity.
Qed.

Theorem to_allocvec_cobs_is_ref v : ser_err v = None -> to_allocvec_cobs v = Ok (cobs_frame (enc v)).
Proof.
  intro He. unfold to_allocvec_cobs. pose proof (cobs_serialize alloc_flavor [] v He) as H.
  pose proof (cobs_whole_spec alloc_flavor _ _ _ _ alloc_lawful alloc_lawful_set [] (enc v) I eq_refl) as HW. cbn [room_ok] in HW.
  destruct HW as (o & E & Ho). rewrite E in H. subst o. exact H.
Qed.
Theorem to_vec_cobs_threshold cap v :
  ordinary_value v ->
  if Nat.leb (length (cobs_frame (enc v))) cap then to_vec_cobs cap v = Ok (cobs_frame (enc v))
  else to_vec_cobs cap v = Err SerializeBufferFull.
Proof.
  intros [He Ho]. unfold to_vec_cobs. pose proof (cobs_serialize (hvec_flavor cap) [] v He) as H.
  pose proof (cobs_whole_spec (hvec_flavor cap) _ _ _ _ (hvec_lawful cap) (hvec_lawful_set cap) [] (enc v) ltac:(cbn; lia) eq_refl) as HW.
  cbn [room_ok length] in HW. rewrite Nat.sub_0_r in HW. destruct (Nat.leb (length (cobs_frame (enc v))) cap).
  - destruct HW as (o & E & Hout). rewrite E in H. subst o. exact H.
  - rewrite HW in H. destruct H as (e' & -> & He'). rewrite (He' eq_refl Ho). reflexivity.
Qed.
Theorem to_slice_cobs_threshold v buf :
  ordinary_value v ->
  if Nat.leb (length (cobs_frame (enc v))) (length buf)
  then exists whole, to_slice_cobs v buf = Ok (cobs_frame (enc v), whole)
  else to_slice_cobs v buf = Err SerializeBufferFull.
Proof.
  intros [He Ho]. unfold to_slice_cobs. pose proof (cobs_serialize slice_flavor (slice_new buf) v He) as H.
  destruct (slice_new_inv buf) as (Hi & Hb & Hr).
  pose proof (cobs_whole_spec slice_flavor _ _ _ _ slice_lawful slice_lawful_set (slice_new buf) (enc v) Hi Hb) as HW.
  rewrite Hr in HW. cbn [room_ok] in HW. destruct (Nat.leb (length (cobs_frame (enc v))) (length buf)).
  - destruct HW as ([out whole] & E & Hout). rewrite E in H. cbn [fst] in Hout. subst out. exists whole. exact H.
  - rewrite HW in H. destruct H as (e' & -> & He'). rewrite (He' eq_refl Ho). reflexivity.
Qed.

(* ---------------- CRC ---------------- *)
Theorem to_vec_crc_threshold alg nb cap v :
  ordinary_value v ->
  if Nat.leb (length (enc v) + nb) cap then to_vec_crc alg nb cap v = Ok (enc v ++ le_bytes nb (crc alg (enc v)))
  else to_vec_crc alg nb cap v = Err SerializeBufferFull.
Proof.
  intros [He Ho]. unfold to_vec_crc. pose proof (crc_serialize_spec (hvec_flavor cap) alg nb [] v He) as H.
  unfold crc_whole in H.
  pose proof (pushes_spec (hvec_flavor cap) _ _ _ _ (hvec_lawful cap) (enc v ++ le_bytes nb (crc alg (enc v))) [] ltac:(cbn; lia)) as HP.
  cbn [room_ok length] in HP. rewrite Nat.sub_0_r, app_length, le_bytes_length in HP.
  destruct (Nat.leb (length (enc v) + nb) cap).
  - destruct HP as (s' & E & _ & Hb & _). rewrite E in H. cbn [bind hvec_flavor sf_finalize] in H. rewrite H. cbn [app] in Hb. now subst s'.
  - rewrite HP in H. cbn [bind] in H. destruct H as (e' & -> & He'). rewrite (He' Ho). reflexivity.
Qed.
Theorem to_slice_crc_threshold alg nb v buf :
  ordinary_value v ->
  if Nat.leb (length (enc v) + nb) (length buf)
  then exists whole, to_slice_crc alg nb v buf = Ok (enc v ++ le_bytes nb (crc alg (enc v)), whole)
  else to_slice_crc alg nb v buf = Err SerializeBufferFull.
Proof.
  intros [He Ho]. unfold to_slice_crc. pose proof (crc_serialize_spec slice_flavor alg nb (slice_new buf) v He) as H.
  unfold crc_whole in H. destruct (slice_new_inv buf) as (Hi & Hb & Hr).
  pose proof (pushes_spec slice_flavor _ _ _ _ slice_lawful (enc v ++ le_bytes nb (crc alg (enc v))) (slice_new buf) Hi) as HP.
  rewrite Hr in HP. cbn [room_ok] in HP. rewrite app_length, le_bytes_length in HP.
  destruct (Nat.leb (length (enc v) + nb) (length buf)).
  - destruct HP as (s' & E & Hi' & Hbs & _). rewrite E in H. cbn [bind] in H.
    destruct (law_finalize _ _ _ _ _ slice_lawful s' Hi') as ([out whole] & Ef & Hout). rewrite Ef in H.
    cbn [fst] in Hout. rewrite Hbs, Hb in Hout. cbn [app] in Hout. subst out. exists whole. exact H.
  - rewrite HP in H. cbn [bind] in H. destruct H as (e' & -> & He'). rewrite (He' Ho). reflexivity.
Qed.

(* ---------------- stacks: checksum, then COBS ---------------- *)
Theorem crc_cobs_stack_alloc alg nb v :
  ser_err v = None ->
  to_allocvec_crc_cobs alg nb v = Ok (cobs_frame (enc v ++ le_bytes nb (crc alg (enc v)))).
Proof.
  intro He. unfold to_allocvec_crc_cobs.
  pose proof (cobs_whole_spec alloc_flavor _ _ _ _ alloc_lawful alloc_lawful_set [] (enc v ++ le_bytes nb (crc alg (enc v))) I eq_refl) as HW.
  cbn [room_ok] in HW. destruct HW as (o & E & Ho). unfold cobs_whole in E.
  destruct (cobs_try_new alloc_flavor []) as [st| | | |]; cbn [bind] in *; try discriminate.
  pose proof (crc_serialize_spec (cobs_flavor alloc_flavor) alg nb st v He) as H. unfold crc_whole in H.
  cbn [cobs_flavor sf_push sf_finalize] in H.
  destruct (extend_by_push (cobs_push alloc_flavor) st _) as [st'| | | |]; cbn [bind] in *; try discriminate.
  rewrite E in H. rewrite H. subst o. reflexivity.
Qed.

(* a user flavour receives exactly the plain encoding, through whichever of push / extend *)
Definition call_bytes (c : call) : list byte := match c with CPush b => [b] | CExtend bs => bs end.
Theorem recorder_sees_plain ov v :
  ser_err v = None -> exists calls, to_recorder ov v = Ok calls /\ flat_map call_bytes calls = enc v.
Proof.
  intro He. unfold to_recorder, serialize_with, ser_err, enc in *. destruct (ser_ops v) as [ops e0]. cbn [fst snd] in *. subst e0.
  assert (HP : forall bs (c : list call), extend_by_push (fun c b => Ok (c ++ [CPush b])) c bs = Ok (c ++ map CPush bs)).
  { clear. induction bs as [|b bs IH]; intro c; cbn [extend_by_push map bind]; [now rewrite app_nil_r|]. rewrite IH, <- app_assoc. reflexivity. }
  assert (HM : forall bs, flat_map call_bytes (map CPush bs) = bs).
  { induction bs as [|b bs IH]; [reflexivity|]. cbn. now rewrite IH. }
  assert (H : forall l c, exists c', run_ops (record_flavor ov) c l = Ok c' /\ flat_map call_bytes c' = flat_map call_bytes c ++ flatten_ops l).
  { clear - HP HM. induction l as [|o ops IH]; intro c; cbn [run_ops]; [exists c; unfold flatten_ops; cbn; now rewrite app_nil_r|].
    assert (E : flatten_ops (o :: ops) = op_bytes o ++ flatten_ops ops) by reflexivity. rewrite E.
    assert (Ho : exists c1, run_op (record_flavor ov) c o = Ok c1 /\ flat_map call_bytes c1 = flat_map call_bytes c ++ op_bytes o).
    { destruct o as [b|bs|bs]; cbn [run_op record_flavor sf_push sf_extend op_bytes map_err].
      - eexists. split; [reflexivity|]. rewrite flat_map_app. reflexivity.
      - destruct ov; [|rewrite HP]; cbn [map_err]; eexists; (split; [reflexivity|]); rewrite flat_map_app; cbn [flat_map call_bytes]; rewrite ?app_nil_r, ?HM; reflexivity.
      - destruct ov; [|rewrite HP]; cbn [map_err]; eexists; (split; [reflexivity|]); rewrite flat_map_app; cbn [flat_map call_bytes]; rewrite ?app_nil_r, ?HM; reflexivity. }
    destruct Ho as (c1 & -> & H1). cbn [bind]. destruct (IH c1) as (c' & -> & H'). exists c'. split; [reflexivity|].
    rewrite H', H1, <- app_assoc. reflexivity. }
  destruct (H ops []) as (c' & -> & Hc). exists c'. split; [reflexivity|exact Hc].
Qed.

(* ---------------- COBS frames decode back, frame by frame ---------------- *)
Theorem cobs_frame_roundtrip t v rest :
  has_type v t = true ->
  take_from_bytes_cobs t (cobs_frame (enc v) ++ rest) = Ok (v, rest) /\
  take_from_bytes_cobs t (cobs_ref (enc v)) = Ok (v, []).
Proof.
  intro Ht. rewrite !take_from_bytes_cobs_spec. unfold cobs_then_plain, cobs_frame.
  assert (Hd : cobs_dec_ref (cobs_ref (enc v)) = Some (enc v)) by (apply (cobs_go_dec (enc v) []); [constructor|cbn; lia]).
  assert (Hp : de_slice t (enc v) = Ok (v, [])).
  { pose proof (roundtrip v t [] Ht ltac:(constructor)) as H. rewrite app_nil_r in H. exact H. }
  split.
  - rewrite <- app_assoc. rewrite (take_frame_app_zero (cobs_ref (enc v)) rest (cobs_ref_nonzero _)), Hd, Hp. cbn [bind].
    f_equal. f_equal. change (S (length (cobs_ref (enc v)))) with (1 + length (cobs_ref (enc v)))%nat.
    rewrite Nat.add_comm, <- skipn_skipn', skipn_app_len by reflexivity. reflexivity.
  - rewrite (take_frame_nonzero_all _ (cobs_ref_nonzero _)), Hd, Hp. cbn [bind]. f_equal. f_equal. apply skipn_all2. lia.
Qed.

(* several frames back to back *)
Fixpoint take_frames (ts : list ty) (buf : list byte) : res (list value * list byte) :=
  match ts with
  | [] => Ok ([], buf)
  | t :: ts' =>
    let* '(v, rest) := take_from_bytes_cobs t buf in
    let* '(vs, rest') := take_frames ts' rest in Ok (v :: vs, rest')
  end.
Theorem frames_roundtrip : forall tvs rest,
  Forall (fun tv => has_type (snd tv) (fst tv) = true) tvs ->
  take_frames (map fst tvs) (flat_map (fun tv => cobs_frame (enc (snd tv))) tvs ++ rest) = Ok (map snd tvs, rest).
Proof.
  induction tvs as [|[t v] tvs IH]; intros rest H; [reflexivity|].
  apply Forall_cons_iff in H as [Hv Hvs]. cbn [map fst snd flat_map take_frames] in *. rewrite <- app_assoc.
  destruct (cobs_frame_roundtrip t v (flat_map (fun tv => cobs_frame (enc (snd tv))) tvs ++ rest) Hv) as [-> _]. cbn [bind].
  rewrite (IH rest Hvs). reflexivity.
Qed.
(* ... whether or not the last frame's sentinel is present *)
Theorem frames_roundtrip_no_last_sentinel : forall tvs t v,
  Forall (fun tv => has_type (snd tv) (fst tv) = true) tvs -> has_type v t = true ->
  take_frames (map fst tvs ++ [t]) (flat_map (fun tv => cobs_frame (enc (snd tv))) tvs ++ cobs_ref (enc v))
  = Ok (map snd tvs ++ [v], []).
Proof.
  induction tvs as [|[t0 v0] tvs IH]; intros t v H Hv.
  - cbn [map app flat_map take_frames]. destruct (cobs_frame_roundtrip t v [] Hv) as [_ ->]. reflexivity.
  - apply Forall_cons_iff in H as [Hv0 Hvs]. cbn [map fst snd flat_map take_frames app] in *. rewrite <- app_assoc.
    destruct (cobs_frame_roundtrip t0 v0 (flat_map (fun tv => cobs_frame (enc (snd tv))) tvs ++ cobs_ref (enc v)) Hv0) as [-> _]. cbn [bind].
    rewrite (IH t v Hvs Hv). reflexivity.
Qed.

Theorem unstack : forall (alg : crc_alg) (nb : nat) (t : ty) (v : value),
  CrcFacts.wf_alg alg -> 2 ^ c_width alg <= 256 ^ N.of_nat nb -> has_type v t = true ->
  cobs_dec_ref (take_frame (cobs_frame (enc v ++ le_bytes nb (crc alg (enc v)))))
  = Some (enc v ++ le_bytes nb (crc alg (enc v))) /\
  take_from_bytes_crc alg nb t (enc v ++ le_bytes nb (crc alg (enc v))) = Ok (v, []).
Proof.
  intros alg nb t v Hwf Hnb Ht. split.
  - destruct (cobs_frame_one_zero (enc v ++ le_bytes nb (crc alg (enc v)))) as [-> _].
    apply (cobs_go_dec _ []); [constructor|cbn; lia].
  - pose proof (CrcFacts.crc_roundtrip alg nb t v [] Hwf Hnb Ht ltac:(constructor)) as H. rewrite app_nil_r in H. exact H.
Qed.
