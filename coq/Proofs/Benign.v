(* Benign.v: over any flavour whose pop / try_take_n return a value or an error, the decoder
   returns a value or an error: no clause of the deserializer can panic (shift amounts stay
   below the width in every varint loop of the source) or run out of fuel. *)
From Coq Require Import Lia ZifyBool ZifyNat ZifyN.
From PV Require Import Base MachineInt VarintParams GenArith GenLoops Varint Utf8 DataModel De
  BaseFacts VarintFacts VarintCore ValueInd PtrSlice.
Open Scope N_scope.

Section Benign.
  Context {St : Type}.
  Variable pop : St -> res (byte * St).
  Variable take_n : N -> St -> res (list byte * St).
  Hypothesis Hpop : forall s, benign (pop s).
  Hypothesis Htake : forall n s, benign (take_n n s).

  Lemma vdec_loop_no_panic {E} (e : E) t w vmax molb fuel i out s :
    vfacts w vmax molb -> wbits t = w -> N.of_nat fuel + i = vmax ->
    match vdec_loop (std_reader t e) vmax molb (fun s => match pop s with Ok x => inl x | other => inr other end) fuel i out s with
    | VPanic => False
    | VStop x => benign x /\ (forall a, x <> Ok a)
    | _ => True
    end.
  Proof.
    intros [F1 F2 F3 F4] Hw. revert i out s; induction fuel as [|f IH]; intros i out s Hi; cbn [vdec_loop]; [exact I|].
    pose proof (Hpop s) as Hb. destruct (pop s) as [[b s']|e0| | |]; try (split; [exact Hb|intros a; discriminate]).
    cbn [std_reader r_ty r_mul r_flag r_lastoff r_cmp r_mask]. rewrite Hw.
    destruct (N.leb_spec w (7 * i)); [nia|].
    destruct (N.land b 128 =? 0).
    - destruct (N.ltb_spec vmax 1); [lia|]. destruct (_ && _); exact I.
    - apply IH. lia.
  Qed.

  Lemma take_varint_benign t s : is_vty t -> benign (take_varint pop (std_reader t DeserializeBadVarint) s).
  Proof.
    intro Ht. unfold take_varint, core_vdec, vdec. cbn [std_reader r_ty].
    pose proof (vdec_loop_no_panic DeserializeBadVarint t (wbits t) (tvmax t) (tmolb t) (N.to_nat (tvmax t)) 0 0 s
                                   (vfacts_of t Ht) eq_refl ltac:(lia)) as H.
    fold (tvmax t) (tmolb t).
    destruct (vdec_loop _ _ _ _ _ _ _ _) as [n s'|x| | |]; try exact I; try contradiction.
    destruct H as [Hb Hn]. destruct x as [a| | | |]; try exact I; try contradiction. exfalso. apply (Hn a). reflexivity.
  Qed.

  Theorem de_benign : forall t s, benign (de pop take_n t s).
  Proof.
    assert (HU : forall s, benign (take_usize pop s)).
    { intro s. unfold take_usize. rewrite DeFacts.usize_reader_std. apply take_varint_benign. right; right; left; reflexivity. }
    induction t as [ |k| | | | | |t IH| | |t IH|t IH|ts IH|ts IH|tk tv IHk IHv|ts IH|ts IH] using ty_ind';
      intro s; cbn [de].
    - apply benign_bind; [apply Hpop|]. intros [b r]. destruct (b =? 0); [exact I|]. destruct (b =? 1); exact I.
    - destruct k; cbn [de_int reader_of];
        try (apply benign_bind; [apply Hpop|]; intros [x r]; exact I).
      all: apply benign_bind; [|intros [x r]; exact I].
      + apply (take_varint_benign u16). left; reflexivity.
      + apply (take_varint_benign u32). right; left; reflexivity.
      + apply (take_varint_benign u64). right; right; left; reflexivity.
      + apply (take_varint_benign u128). right; right; right; reflexivity.
      + apply (take_varint_benign u16). left; reflexivity.
      + apply (take_varint_benign u32). right; left; reflexivity.
      + apply (take_varint_benign u64). right; right; left; reflexivity.
      + apply (take_varint_benign u128). right; right; right; reflexivity.
    - apply benign_bind; [apply Htake|]. intros [b r]. exact I.
    - apply benign_bind; [apply Htake|]. intros [b r]. exact I.
    - unfold de_char. apply benign_bind; [apply HU|]. intros [n r]. destruct (4 <? n); [exact I|].
      apply benign_bind; [apply Htake|]. intros [bs r2]. destruct (utf8_chars bs) as [[|c [|c2 cs]]|]; exact I.
    - unfold de_str. apply benign_bind; [apply HU|]. intros [n r].
      apply benign_bind; [apply Htake|]. intros [bs r2]. destruct (utf8_valid bs); exact I.
    - unfold de_bytes. apply benign_bind; [apply HU|]. intros [n r].
      apply benign_bind; [apply Htake|]. intros [bs r2]. exact I.
    - apply benign_bind; [apply Hpop|]. intros [b r]. destruct (b =? 0); [exact I|].
      destruct (b =? 1); [|exact I]. apply benign_bind; [apply IH|]. intros [v r2]. exact I.
    - exact I.
    - exact I.
    - apply benign_bind; [apply IH|]. intros [v r]. exact I.
    - apply benign_bind; [apply HU|]. intros [n r].
      apply benign_bind; [|intros [racc r2]; exact I]. rewrite iter_N_nat. apply iter_nat_benign.
      intros [acc s0]. apply benign_bind; [apply IH|]. intros [v s']. exact I.
    - apply benign_bind; [|intros [vs r]; exact I].
      revert s; induction IH as [|t' ts' Ht' Hts' IHts]; intro s; cbn [de_fields]; [exact I|].
      apply benign_bind; [apply Ht'|]. intros [v l1]. apply benign_bind; [apply IHts|]. intros [vs l2]. exact I.
    - apply benign_bind; [|intros [vs r]; exact I].
      revert s; induction IH as [|t' ts' Ht' Hts' IHts]; intro s; cbn [de_fields]; [exact I|].
      apply benign_bind; [apply Ht'|]. intros [v l1]. apply benign_bind; [apply IHts|]. intros [vs l2]. exact I.
    - apply benign_bind; [apply HU|]. intros [n r].
      apply benign_bind; [|intros [racc r2]; exact I]. rewrite iter_N_nat. apply iter_nat_benign.
      intros [acc s0]. apply benign_bind; [apply IHk|]. intros [k s']. apply benign_bind; [apply IHv|]. intros [v s'']. exact I.
    - apply benign_bind; [|intros [vs r]; exact I].
      revert s; induction IH as [|t' ts' Ht' Hts' IHts]; intro s; cbn [de_fields]; [exact I|].
      apply benign_bind; [apply Ht'|]. intros [v l1]. apply benign_bind; [apply IHts|]. intros [vs l2]. exact I.
    - apply benign_bind; [apply (take_varint_benign u32); right; left; reflexivity|]. intros [idx r].
      destruct (N.of_nat (length ts) <=? idx); [exact I|]. generalize (N.to_nat idx).
      induction IH as [|t' ts' Ht' Hts' IHts]; intro i; [exact I|]. destruct i; [|apply IHts].
      apply benign_bind; [apply Ht'|]. intros [v r2]. exact I.
  Qed.
End Benign.

(* a flavour that is benign only while an invariant holds: sanitise it, simulate, conclude *)
Section BenignInv.
  Context {St : Type}.
  Variable pop : St -> res (byte * St).
  Variable take_n : N -> St -> res (list byte * St).
  Variable Inv : St -> Prop.
  Hypothesis Hpop : forall s, Inv s -> benign (pop s) /\ (forall b s', pop s = Ok (b, s') -> Inv s').
  Hypothesis Htake : forall n s, Inv s -> benign (take_n n s) /\ (forall bs s', take_n n s = Ok (bs, s') -> Inv s').

  Definition sanitize {A} (r : res A) : res A :=
    match r with Ok a => Ok a | Err e => Err e | _ => Err WontImplement end.

  Theorem de_benign_inv t s : Inv s ->
    benign (de pop take_n t s) /\ (forall v s', de pop take_n t s = Ok (v, s') -> Inv s').
  Proof.
    intro Hs.
    pose proof (Simulation.de_sim (fun a b : St => a = b /\ Inv a) pop take_n
                  (fun s => sanitize (pop s)) (fun n s => sanitize (take_n n s))) as HS.
    assert (H1 : forall s1 s2, s1 = s2 /\ Inv s1 ->
                 Simulation.rrel (fun a b : St => a = b /\ Inv a) (pop s1) (sanitize (pop s2))).
    { intros s1 s2 [<- Hi]. destruct (Hpop s1 Hi) as [Hb Hn]. destruct (pop s1) as [[b s']| | | |]; cbn in *; try contradiction;
        [split; [reflexivity|split; [reflexivity|apply (Hn b s' eq_refl)]]|reflexivity]. }
    assert (H2 : forall n s1 s2, s1 = s2 /\ Inv s1 ->
                 Simulation.rrel (fun a b : St => a = b /\ Inv a) (take_n n s1) (sanitize (take_n n s2))).
    { intros n s1 s2 [<- Hi]. destruct (Htake n s1 Hi) as [Hb Hn]. destruct (take_n n s1) as [[b s']| | | |]; cbn in *; try contradiction;
        [split; [reflexivity|split; [reflexivity|apply (Hn b s' eq_refl)]]|reflexivity]. }
    specialize (HS H1 H2 t s s (conj eq_refl Hs)).
    assert (B1 : forall s0, benign (sanitize (pop s0))) by (intro s0; destruct (pop s0); exact I).
    assert (B2 : forall n s0, benign (sanitize (take_n n s0))) by (intros n s0; destruct (take_n n s0); exact I).
    pose proof (de_benign (fun s => sanitize (pop s)) (fun n s => sanitize (take_n n s)) B1 B2 t s) as HB.
    destruct (de pop take_n t s) as [[v s1]| | | |], (de _ _ t s) as [[v' s2]| | | |];
      cbn in HS, HB |- *; try contradiction; split; try exact I; try discriminate.
    intros v0 s0 E. inversion E; subst. destruct HS as [_ [_ Hi]]. exact Hi.
  Qed.
End BenignInv.
