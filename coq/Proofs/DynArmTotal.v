(* DynArmTotal.v: the decoder arms read from postcard-dyn/src/de.rs reach no panic site on any
   byte string (C18): they compute what Dyn.de_prim computes (DynArmFacts), which is total
   (DynFacts). *)
From PV Require Import Base MachineInt VarintParams GenLoops DataModel Schema Dyn DynArmDecl GenDynArms DynArms DynArmFacts BaseFacts DynFacts.
Open Scope N_scope.

Lemma de_arms_never_panic widen p bs r : bytes_ok bs ->
  de_prim_via_arms widen p bs = Some r -> r <> DPanic.
Proof.
  intros Hb H. pose proof (de_prim_is_source widen p bs) as A. rewrite H in A. subst r.
  pose proof (de_prim_good widen p bs Hb) as G. intros E. rewrite E in G. exact G.
Qed.
