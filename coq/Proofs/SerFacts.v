(* SerFacts.v: C02.  What the serializer emits is exactly the wire-format.md encoding. *)
From Coq Require Import Lia ZifyBool ZifyNat ZifyN.
From PV Require Import Base MachineInt VarintParams GenArith GenLoops Varint Utf8 DataModel Ser
  WireFormat BaseFacts BitFacts VarintFacts VarintCore ZigZagFacts ValueInd.
Open Scope N_scope.

Lemma flatten_app a b : flatten_ops (a ++ b) = flatten_ops a ++ flatten_ops b.
Proof. unfold flatten_ops. apply flat_map_app. Qed.

Lemma sseq_ok a b : snd a = None -> sseq a b = (fst a ++ fst b, snd b).
Proof. destruct a as [o [e|]]; simpl; [discriminate|reflexivity]. Qed.

Lemma ser_list_ok {A} (f : A -> sres) (g : A -> list byte) l :
  Forall (fun x => snd (f x) = None /\ flatten_ops (fst (f x)) = g x) l ->
  snd (ser_list f l) = None /\ flatten_ops (fst (ser_list f l)) = flat_map g l.
Proof.
  induction 1 as [|x l [Hx1 Hx2] Hl [IH1 IH2]]; [split; reflexivity|].
  cbn [ser_list flat_map]. rewrite sseq_ok by assumption. cbn [fst snd].
  rewrite flatten_app, Hx2, IH2. split; [assumption|reflexivity].
Qed.

Lemma usize_writer_std : core_writer_usize = std_writer u64.
Proof. reflexivity. Qed.

Lemma ser_len_spec n : N.of_nat n < 2 ^ 64 ->
  op_bytes (ser_len n) = spec_len n.
Proof.
  intro H. unfold ser_len, spec_len. cbn [op_bytes]. rewrite usize_writer_std.
  apply venc_std; [right; right; left; reflexivity|exact H].
Qed.

Lemma int_width k : exists W, bits (ik_ity k) = W /\ wbits (ik_uty k) = Z.to_N W /\ (8 <= W)%Z.
Proof. destruct k; eexists; repeat split; vm_compute; congruence. Qed.

Lemma ser_int_spec k z : in_range (ik_ity k) z ->
  flatten_ops (ser_int k z) = spec_int k z.
Proof.
  intro Hz. unfold in_range in Hz.
  destruct k; cbn [ser_int spec_int flatten_ops flat_map op_bytes app writer_of];
    cbn [ik_ity signed bits i8 i16 i32 i64 i128 u8 u16 u32 u64 u128] in Hz; try reflexivity.
  - (* I16 *) rewrite app_nil_r. rewrite (zig_zag_spec I16 16 z eq_refl) by exact Hz. rewrite N2Z.id.
    apply (venc_std u16); [left; reflexivity|].
    pose proof (spec_zigzag_bound 16 z ltac:(lia) Hz). change (wbits u16) with 16. lia.
  - rewrite app_nil_r. rewrite (zig_zag_spec I32 32 z eq_refl) by exact Hz. rewrite N2Z.id.
    apply (venc_std u32); [right; left; reflexivity|].
    pose proof (spec_zigzag_bound 32 z ltac:(lia) Hz). change (wbits u32) with 32. lia.
  - rewrite app_nil_r. rewrite (zig_zag_spec I64 64 z eq_refl) by exact Hz. rewrite N2Z.id.
    apply (venc_std u64); [right; right; left; reflexivity|].
    pose proof (spec_zigzag_bound 64 z ltac:(lia) Hz). change (wbits u64) with 64. lia.
  - rewrite app_nil_r. rewrite (zig_zag_spec I128 128 z eq_refl) by exact Hz. rewrite N2Z.id.
    apply (venc_std u128); [right; right; right; reflexivity|].
    pose proof (spec_zigzag_bound 128 z ltac:(lia) Hz). change (wbits u128) with 128. lia.
  - rewrite app_nil_r. apply (venc_std u16); [left; reflexivity|]. change (wbits u16) with 16. lia.
  - rewrite app_nil_r. apply (venc_std u32); [right; left; reflexivity|]. change (wbits u32) with 32. lia.
  - rewrite app_nil_r. apply (venc_std u64); [right; right; left; reflexivity|]. change (wbits u64) with 64. lia.
  - rewrite app_nil_r. apply (venc_std u128); [right; right; right; reflexivity|]. change (wbits u128) with 128. lia.
Qed.

Lemma ser_str_spec bs : N.of_nat (length bs) < 2 ^ 64 ->
  flatten_ops (ser_str bs) = spec_len (length bs) ++ bs.
Proof.
  intro H. unfold ser_str. cbn [flatten_ops flat_map]. rewrite ser_len_spec by assumption.
  cbn [op_bytes]. rewrite app_nil_r. reflexivity.
Qed.

Lemma utf8_encode_length c : (length (utf8_encode c) <= 4)%nat.
Proof. unfold utf8_encode. repeat match goal with |- context [if ?b then _ else _] => destruct b end; simpl; lia. Qed.

Lemma has_type_fields_forall vs ts (P : value -> Prop) :
  (fix go (vs : list value) (ts : list ty) : bool :=
     match vs, ts with
     | [], [] => true
     | x :: vs', t' :: ts' => has_type x t' && go vs' ts'
     | _, _ => false
     end) vs ts = true ->
  Forall (fun v => forall t, has_type v t = true -> P v) vs -> Forall P vs.
Proof.
  revert ts; induction vs as [|v vs IH]; intros ts H HF; [constructor|].
  destruct ts as [|t ts]; [discriminate|].
  apply andb_prop in H as [H1 H2]. apply Forall_cons_iff in HF as [Hv Hvs].
  constructor; [apply (Hv t H1)|apply (IH ts H2 Hvs)].
Qed.

Lemma pick_has_type p vs n :
  (fix pick (vs : list ty) (i : nat) : bool :=
     match vs, i with
     | [], _ => false
     | t' :: _, O => has_type p t'
     | _ :: vs', S i' => pick vs' i'
     end) vs n = true -> exists t', In t' vs /\ has_type p t' = true.
Proof.
  revert n; induction vs as [|t' ts IH]; intros n H; [discriminate|].
  destruct n; [exists t'; split; [left; reflexivity|assumption]|].
  destruct (IH n H) as [t'' [Hin Ht]]. exists t''. split; [right; assumption|assumption].
Qed.

Definition enc_ok (v : value) : Prop := ser_err v = None /\ enc v = spec_enc v.

Theorem enc_is_spec_aux : forall v t, has_type v t = true -> enc_ok v.
Proof.
  unfold enc_ok, ser_err, enc.
  induction v as [b|k z|b|b|c|bs|bs| |v IH| | |v IH|vs IH|vs IH|vs IH|kvs IH|vs IH|i v IH|vs|kvs|ps]
    using value_ind'; intros t Ht; destruct t; try discriminate Ht; cbn [has_type] in Ht.
  - split; reflexivity.
  - apply andb_prop in Ht as [Hk Hr]. split; [reflexivity|].
    cbn [ser_ops fst spec_enc]. apply ser_int_spec.
    unfold in_range, in_rangeb in *. destruct (signed (ik_ity k)); lia.
  - split; reflexivity.
  - split; reflexivity.
  - split; [reflexivity|]. cbn [ser_ops fst spec_enc]. apply ser_str_spec.
    pose proof (utf8_encode_length c). lia.
  - split; [reflexivity|]. cbn [ser_ops fst spec_enc]. apply ser_str_spec. lia.
  - split; [reflexivity|]. cbn [ser_ops fst spec_enc]. apply ser_str_spec. lia.
  - split; reflexivity.
  - destruct (IH _ Ht) as [I1 I2]. cbn [ser_ops]. rewrite sseq_ok by reflexivity.
    cbn [fst snd spec_enc]. split; [assumption|]. rewrite flatten_app, I2. reflexivity.
  - split; reflexivity.
  - split; reflexivity.
  - destruct (IH _ Ht) as [I1 I2]. cbn [ser_ops spec_enc]. split; assumption.
  - (* seq *)
    apply andb_prop in Ht as [Hall Hlen]. rewrite forallb_forall in Hall.
    assert (HF : Forall (fun x => snd (ser_ops x) = None /\ flatten_ops (fst (ser_ops x)) = spec_enc x) vs).
    { rewrite Forall_forall in IH |- *. intros x Hx. apply (IH x Hx t). apply Hall, Hx. }
    destruct (ser_list_ok ser_ops spec_enc vs HF) as [L1 L2].
    cbn [ser_ops]. rewrite sseq_ok by reflexivity. cbn [fst snd spec_enc]. split; [assumption|].
    rewrite flatten_app, L2. cbn [flatten_ops flat_map]. rewrite ser_len_spec by lia.
    rewrite app_nil_r. reflexivity.
  - (* tuple *)
    pose proof (has_type_fields_forall vs ts _ Ht IH) as HF.
    destruct (ser_list_ok ser_ops spec_enc vs HF) as [L1 L2]. cbn [ser_ops spec_enc]. split; assumption.
  - pose proof (has_type_fields_forall vs ts _ Ht IH) as HF.
    destruct (ser_list_ok ser_ops spec_enc vs HF) as [L1 L2]. cbn [ser_ops spec_enc]. split; assumption.
  - (* map *)
    apply andb_prop in Ht as [Hall Hlen]. rewrite forallb_forall in Hall.
    assert (HF : Forall (fun kv => snd (sseq (ser_ops (fst kv)) (ser_ops (snd kv))) = None /\
                                   flatten_ops (fst (sseq (ser_ops (fst kv)) (ser_ops (snd kv))))
                                   = spec_enc (fst kv) ++ spec_enc (snd kv)) kvs).
    { rewrite Forall_forall in IH |- *. intros kv Hkv. destruct (IH kv Hkv) as [Ik Iv].
      specialize (Hall kv Hkv). apply andb_prop in Hall as [Hk Hv].
      destruct (Ik _ Hk) as [K1 K2]. destruct (Iv _ Hv) as [V1 V2].
      rewrite sseq_ok by assumption. cbn [fst snd]. rewrite flatten_app, K2, V2. split; [assumption|reflexivity]. }
    destruct (ser_list_ok _ _ kvs HF) as [L1 L2].
    cbn [ser_ops]. rewrite sseq_ok by reflexivity. cbn [fst snd spec_enc]. split; [assumption|].
    rewrite flatten_app, L2. cbn [flatten_ops flat_map]. rewrite ser_len_spec by lia.
    rewrite app_nil_r. reflexivity.
  - pose proof (has_type_fields_forall vs ts _ Ht IH) as HF.
    destruct (ser_list_ok ser_ops spec_enc vs HF) as [L1 L2]. cbn [ser_ops spec_enc]. split; assumption.
  - (* variant *)
    apply andb_prop in Ht as [Hi Hp]. apply andb_prop in Hi as [Hi32 Hin].
    assert (Hv : exists t', has_type v t' = true).
    { apply pick_has_type in Hp. destruct Hp as [t' [_ Hp]]. eauto. }
    destruct Hv as [t' Hv]. destruct (IH _ Hv) as [I1 I2].
    cbn [ser_ops]. rewrite sseq_ok by reflexivity. cbn [fst snd spec_enc]. split; [assumption|].
    rewrite flatten_app, I2. cbn [flatten_ops flat_map op_bytes]. rewrite app_nil_r. f_equal.
    apply (venc_std u32); [right; left; reflexivity|]. change (wbits u32) with 32. lia.
Qed.

Lemma flatten_extendfmt ps : flatten_ops (map ExtendFmt ps) = concat ps.
Proof.
  unfold flatten_ops. induction ps as [|p ps IH]; [reflexivity|].
  cbn [map flat_map op_bytes concat]. now rewrite IH.
Qed.

Theorem collect_str_is_str pieces :
  enc (VCollectStr pieces) = enc (VStr (concat pieces)) /\ ser_err (VCollectStr pieces) = None.
Proof.
  split; [|reflexivity]. unfold enc. cbn [ser_ops fst ser_str].
  change (ser_len (length (concat pieces)) :: map ExtendFmt pieces)
    with ([ser_len (length (concat pieces))] ++ map ExtendFmt pieces).
  rewrite flatten_app, flatten_extendfmt. unfold ser_str. cbn [flatten_ops flat_map op_bytes]. rewrite !app_nil_r. reflexivity.
Qed.
