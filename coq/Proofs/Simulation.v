(* Simulation.v: if two deserializer flavours simulate each other step by step (pop and
   try_take_n), the whole decoder gives related results on them, for every type shape.
   One induction over the shape serves the pointer-level slice (C04), the reader flavour
   (C11) and the CRC modifier (C10). *)
From Coq Require Import Lia.
From PV Require Import Base MachineInt VarintParams GenArith GenLoops Varint Utf8 DataModel De
  BaseFacts ValueInd.
Open Scope N_scope.

Section Sim.
  Context {S1 S2 : Type}.
  Variable R : S1 -> S2 -> Prop.

  Definition rrel {A} (r1 : res (A * S1)) (r2 : res (A * S2)) : Prop :=
    match r1, r2 with
    | Ok (a, s1), Ok (b, s2) => a = b /\ R s1 s2
    | Err e1, Err e2 => e1 = e2
    | Panic, Panic | Fault, Fault | OutOfFuel, OutOfFuel => True
    | _, _ => False
    end.

  Variable pop1 : S1 -> res (byte * S1).
  Variable take1 : N -> S1 -> res (list byte * S1).
  Variable pop2 : S2 -> res (byte * S2).
  Variable take2 : N -> S2 -> res (list byte * S2).
  Hypothesis Hpop : forall s1 s2, R s1 s2 -> rrel (pop1 s1) (pop2 s2).
  Hypothesis Htake : forall n s1 s2, R s1 s2 -> rrel (take1 n s1) (take2 n s2).

  Lemma rrel_bind {A B} (r1 : res (A * S1)) (r2 : res (A * S2))
        (f1 : A * S1 -> res (B * S1)) (f2 : A * S2 -> res (B * S2)) :
    rrel r1 r2 -> (forall a s1 s2, R s1 s2 -> rrel (f1 (a, s1)) (f2 (a, s2))) ->
    rrel (bind r1 f1) (bind r2 f2).
  Proof.
    intros H Hf. destruct r1 as [[a s1]|e1| | |], r2 as [[b s2]|e2| | |]; cbn in *; try contradiction; auto.
    destruct H as [-> H]. apply Hf, H.
  Qed.

  Lemma vdec_loop_sim {E} (p : rparams E) vmax molb fuel : forall i out s1 s2, R s1 s2 ->
    match vdec_loop p vmax molb (fun s => match pop1 s with Ok x => inl x | other => inr other end) fuel i out s1,
          vdec_loop p vmax molb (fun s => match pop2 s with Ok x => inl x | other => inr other end) fuel i out s2 with
    | VOk n s1', VOk m s2' => n = m /\ R s1' s2'
    | VStop x, VStop y => rrel x y /\ (forall a, x <> Ok a)
    | VErrLast, VErrLast | VErrLong, VErrLong | VPanic, VPanic => True
    | _, _ => False
    end.
  Proof.
    induction fuel as [|f IH]; intros i out s1 s2 HR; cbn [vdec_loop]; [exact I|].
    pose proof (Hpop s1 s2 HR) as Hp.
    destruct (pop1 s1) as [[b s1']|e1| | |], (pop2 s2) as [[b' s2']|e2| | |]; cbn in Hp; try contradiction;
      try (split; [exact Hp || exact I|intros a; discriminate]).
    destruct Hp as [<- HR'].
    destruct (wbits (r_ty p) <=? r_mul p * i); [exact I|].
    destruct (N.land b (r_flag p) =? 0).
    - destruct (vmax <? r_lastoff p); [exact I|]. destruct (_ && _); [exact I|]. split; [reflexivity|assumption].
    - apply IH, HR'.
  Qed.

  Lemma take_varint_sim p s1 s2 : R s1 s2 -> rrel (take_varint pop1 p s1) (take_varint pop2 p s2).
  Proof.
    intro HR. unfold take_varint, core_vdec, vdec.
    pose proof (vdec_loop_sim p (Z.to_N (Core.varint_max (r_ty p))) (Z.to_N (Core.max_of_last_byte (r_ty p)))
                              (N.to_nat (Z.to_N (Core.varint_max (r_ty p)))) 0 0 s1 s2 HR) as H.
    destruct (vdec_loop _ _ _ _ _ _ _ s1) as [n s1'|x| | |], (vdec_loop _ _ _ _ _ _ _ s2) as [m s2'|y| | |];
      try contradiction; try exact I; cbn.
    - exact H.
    - destruct H as [H Hn]. destruct x as [a|e| | |]; [exfalso; apply (Hn a); reflexivity| | | |];
        destruct y as [b|e'| | |]; cbn in H; try contradiction; auto.
    - reflexivity.
    - reflexivity.
  Qed.

  Definition SIM (t : ty) : Prop :=
    forall s1 s2, R s1 s2 -> rrel (de pop1 take1 t s1) (de pop2 take2 t s2).

  Lemma fields_sim ts : Forall SIM ts -> forall s1 s2, R s1 s2 ->
    rrel (de_fields (de pop1 take1) ts s1) (de_fields (de pop2 take2) ts s2).
  Proof.
    induction 1 as [|t ts Ht Hts IH]; intros s1 s2 HR; cbn [de_fields]; [split; [reflexivity|assumption]|].
    apply rrel_bind; [apply Ht, HR|]. intros v a1 a2 Ha.
    apply rrel_bind; [apply IH, Ha|]. intros vs b1 b2 Hb. split; [reflexivity|assumption].
  Qed.

  Lemma iter_sim {A} (f1 : A * S1 -> res (A * S1)) (f2 : A * S2 -> res (A * S2)) :
    (forall a s1 s2, R s1 s2 -> rrel (f1 (a, s1)) (f2 (a, s2))) ->
    forall n a s1 s2, R s1 s2 -> rrel (iter_nat f1 n (a, s1)) (iter_nat f2 n (a, s2)).
  Proof.
    intros Hf n; induction n as [|n IH]; intros a s1 s2 HR; cbn [iter_nat]; [split; [reflexivity|assumption]|].
    apply rrel_bind; [apply Hf, HR|]. intros a' b1 b2 Hb. apply IH, Hb.
  Qed.

  Theorem de_sim : forall t, SIM t.
  Proof.
    induction t as [ |k| | | | | |t IH| | |t IH|t IH|ts IH|ts IH|tk tv IHk IHv|ts IH|ts IH] using ty_ind';
      intros s1 s2 HR; cbn [de].
    - apply rrel_bind; [apply Hpop, HR|]. intros b a1 a2 Ha.
      destruct (b =? 0); [split; [reflexivity|assumption]|]. destruct (b =? 1); [split; [reflexivity|assumption]|reflexivity].
    - destruct k; cbn [de_int];
        try (apply rrel_bind; [apply Hpop, HR|]; intros b a1 a2 Ha; split; [reflexivity|assumption]);
        (apply rrel_bind; [apply take_varint_sim, HR|]; intros n a1 a2 Ha; split; [reflexivity|assumption]).
    - apply rrel_bind; [apply Htake, HR|]. intros b a1 a2 Ha. split; [reflexivity|assumption].
    - apply rrel_bind; [apply Htake, HR|]. intros b a1 a2 Ha. split; [reflexivity|assumption].
    - unfold de_char, take_usize. apply rrel_bind; [apply take_varint_sim, HR|]. intros n a1 a2 Ha.
      destruct (4 <? n); [reflexivity|]. apply rrel_bind; [apply Htake, Ha|]. intros bs b1 b2 Hb.
      destruct (utf8_chars bs) as [[|c [|c2 cs]]|]; try reflexivity. split; [reflexivity|assumption].
    - unfold de_str, take_usize. apply rrel_bind; [apply take_varint_sim, HR|]. intros n a1 a2 Ha.
      apply rrel_bind; [apply Htake, Ha|]. intros bs b1 b2 Hb.
      destruct (utf8_valid bs); [split; [reflexivity|assumption]|reflexivity].
    - unfold de_bytes, take_usize. apply rrel_bind; [apply take_varint_sim, HR|]. intros n a1 a2 Ha.
      apply rrel_bind; [apply Htake, Ha|]. intros bs b1 b2 Hb. split; [reflexivity|assumption].
    - apply rrel_bind; [apply Hpop, HR|]. intros b a1 a2 Ha.
      destruct (b =? 0); [split; [reflexivity|assumption]|]. destruct (b =? 1); [|reflexivity].
      apply rrel_bind; [apply IH, Ha|]. intros v b1 b2 Hb. split; [reflexivity|assumption].
    - split; [reflexivity|assumption].
    - split; [reflexivity|assumption].
    - apply rrel_bind; [apply IH, HR|]. intros v b1 b2 Hb. split; [reflexivity|assumption].
    - unfold take_usize. apply rrel_bind; [apply take_varint_sim, HR|]. intros n a1 a2 Ha.
      rewrite !iter_N_nat.
      apply (rrel_bind (A := list value) (B := value)); [|intros racc b1 b2 Hb; split; [reflexivity|assumption]].
      apply (iter_sim (A := list value)
               (fun st => let* '(v, s') := de pop1 take1 t (snd st) in Ok (v :: fst st, s'))
               (fun st => let* '(v, s') := de pop2 take2 t (snd st) in Ok (v :: fst st, s'))); [|exact Ha].
      intros acc c1 c2 Hc. cbn [fst snd]. apply rrel_bind; [apply IH, Hc|].
      intros v d1 d2 Hd. split; [reflexivity|assumption].
    - apply rrel_bind; [apply fields_sim; assumption|]. intros vs b1 b2 Hb. split; [reflexivity|assumption].
    - apply rrel_bind; [apply fields_sim; assumption|]. intros vs b1 b2 Hb. split; [reflexivity|assumption].
    - unfold take_usize. apply rrel_bind; [apply take_varint_sim, HR|]. intros n a1 a2 Ha.
      rewrite !iter_N_nat.
      apply (rrel_bind (A := list (value * value)) (B := value)); [|intros racc b1 b2 Hb; split; [reflexivity|assumption]].
      apply (iter_sim (A := list (value * value))
               (fun st => let* '(k, s') := de pop1 take1 tk (snd st) in
                          let* '(v, s'') := de pop1 take1 tv s' in Ok ((k, v) :: fst st, s''))
               (fun st => let* '(k, s') := de pop2 take2 tk (snd st) in
                          let* '(v, s'') := de pop2 take2 tv s' in Ok ((k, v) :: fst st, s''))); [|exact Ha].
      intros acc c1 c2 Hc. cbn [fst snd]. apply rrel_bind; [apply IHk, Hc|].
      intros k d1 d2 Hd. apply rrel_bind; [apply IHv, Hd|]. intros v e1 e2 He. split; [reflexivity|assumption].
    - apply rrel_bind; [apply fields_sim; assumption|]. intros vs b1 b2 Hb. split; [reflexivity|assumption].
    - apply rrel_bind; [apply take_varint_sim, HR|]. intros idx a1 a2 Ha.
      destruct (N.of_nat (length ts) <=? idx); [reflexivity|].
      generalize (N.to_nat idx). induction IH as [|t' ts' Ht' Hts' IHts]; intro i; [reflexivity|].
      destruct i as [|i]; [|apply IHts].
      apply rrel_bind; [apply Ht', Ha|]. intros v b1 b2 Hb. split; [reflexivity|assumption].
  Qed.
End Sim.
