(* SerMethodFacts.v: the hand-written serializer model (Ser.v) is, clause by clause, what
   the method bodies read from ser/serializer.rs compute (C01, C02, C05). *)
From PV Require Import Base MachineInt VarintParams GenArith GenLoops Varint Utf8 DataModel Ser SchemaDecl SerMethodDecl GenSerMethods SerMethods.
From PV Require Import BaseFacts ValueInd.
From Coq Require Import Lia.
Open Scope N_scope.

Lemma to_N_of_nat n : Z.to_N (Z.of_nat n) = N.of_nat n.
Proof. rewrite <- nat_N_Z. apply N2Z.id. Qed.

(* ---- each method body, interpreted ---- *)
Lemma m_bool b : R mn_bool [VBo b] = ([Push (if b then 1 else 0)], MDone).
Proof. destruct b; reflexivity. Qed.
Lemma m_int k z : R (mn_int k) [VZ z] = (ser_int k z, MDone).
Proof. destruct k; reflexivity. Qed.
Lemma m_f32 b : R mn_f32 [VFl 32 b] = ([Extend (le_bytes 4 b)], MDone).
Proof. reflexivity. Qed.
Lemma m_f64 b : R mn_f64 [VFl 64 b] = ([Extend (le_bytes 8 b)], MDone).
Proof. reflexivity. Qed.
Lemma m_str bs : R mn_str [VBs bs] = (ser_str bs, MDone).
Proof. reflexivity. Qed.
Lemma m_bytes bs : R mn_bytes [VBs bs] = (ser_str bs, MDone).
Proof. reflexivity. Qed.
Lemma m_char c : R mn_char [VCh c] = (ser_str (utf8_encode c), MDone).
Proof. reflexivity. Qed.
Lemma m_none : R mn_none [] = ([Push 0], MDone).
Proof. reflexivity. Qed.
Lemma m_some : R mn_some [VSub] = ([Push 1], MValue).
Proof. reflexivity. Qed.
Lemma m_unit : R mn_unit [] = ([], MDone) /\ R mn_unit_struct [VSub] = ([], MDone).
Proof. split; reflexivity. Qed.
Lemma m_newtype_struct : R mn_newtype_struct [VSub; VSub] = ([], MValue).
Proof. reflexivity. Qed.
Lemma m_variants idx :
  R mn_unit_variant [VSub; VNn idx; VSub] = ([Extend (venc core_writer_u32 idx)], MDone) /\
  R mn_newtype_variant [VSub; VNn idx; VSub; VSub] = ([Extend (venc core_writer_u32 idx)], MValue) /\
  R mn_tuple_variant [VSub; VNn idx; VSub; VSub] = ([Extend (venc core_writer_u32 idx)], MDone) /\
  R mn_struct_variant [VSub; VNn idx; VSub; VSub] = ([Extend (venc core_writer_u32 idx)], MDone).
Proof. repeat split; reflexivity. Qed.
Lemma m_lens n :
  R mn_seq [VLenOpt (Some n)] = ([ser_len n], MDone) /\ R mn_map [VLenOpt (Some n)] = ([ser_len n], MDone) /\
  R mn_seq [VLenOpt None] = ([], MFail SerializeSeqLengthUnknown) /\ R mn_map [VLenOpt None] = ([], MFail SerializeSeqLengthUnknown).
Proof. repeat split; reflexivity. Qed.
Lemma m_openers :
  R mn_tuple [VSub] = ([], MDone) /\ R mn_tuple_struct [VSub; VSub] = ([], MDone) /\ R mn_struct [VSub; VSub] = ([], MDone).
Proof. repeat split; reflexivity. Qed.
Lemma m_elements :
  R mn_elem_seq [VSub] = ([], MValue) /\ R mn_elem_tuple [VSub] = ([], MValue) /\
  R mn_field_tuple_struct [VSub] = ([], MValue) /\ R mn_field_tuple_variant [VSub] = ([], MValue) /\
  R mn_map_key [VSub] = ([], MValue) /\ R mn_map_value [VSub] = ([], MValue) /\
  R mn_field_struct [VSub; VSub] = ([], MValue) /\ R mn_field_struct_variant [VSub; VSub] = ([], MValue).
Proof. repeat split; reflexivity. Qed.
Lemma m_collect : collect_str_two_passes_over_bytes = true.
Proof. reflexivity. Qed.

(* ---- the whole serializer ---- *)
Lemma sseq_nil (s : sres) : sseq ([], None) s = s.
Proof. destruct s; reflexivity. Qed.
Lemma elems_agree (m : list N) (vs : list value) : R m [VSub] = ([], MValue) ->
  Forall (fun x => ser_via_methods x = ser_ops x) vs ->
  ser_list (fun x => then_value (R m [VSub]) (ser_via_methods x)) vs = ser_list ser_ops vs.
Proof.
  intros Hm. induction 1 as [|x r Hx _ IH]; cbn [ser_list]; [reflexivity|].
  rewrite IH, Hm, Hx. unfold then_value. cbn [snd fst]. rewrite sseq_nil. reflexivity.
Qed.
Lemma elems2_agree (m : list N) (vs : list value) : R m [VSub; VSub] = ([], MValue) ->
  Forall (fun x => ser_via_methods x = ser_ops x) vs ->
  ser_list (fun x => then_value (R m [VSub; VSub]) (ser_via_methods x)) vs = ser_list ser_ops vs.
Proof.
  intros Hm. induction 1 as [|x r Hx _ IH]; cbn [ser_list]; [reflexivity|].
  rewrite IH, Hm, Hx. unfold then_value. cbn [snd fst]. rewrite sseq_nil. reflexivity.
Qed.

Lemma elems_same (m m' : list N) (a a' : list mval) (vs : list value) :
  R m a = ([], MValue) -> R m' a' = ([], MValue) ->
  ser_list (fun x => then_value (R m a) (ser_via_methods x)) vs =
  ser_list (fun x => then_value (R m' a') (ser_via_methods x)) vs.
Proof. intros H H'. rewrite H, H'. reflexivity. Qed.

Theorem ser_methods_agree : forall v, ser_via_methods v = ser_ops v.
Proof.
  destruct m_unit as [Mu Mus]. destruct m_openers as (Mt & Mts & Mst).
  destruct m_elements as (Es & Et & Ets & Etv & Ek & Ev & Efs & Efsv).
  induction v using value_ind'; cbn [ser_via_methods ser_ops].
  - rewrite m_bool. reflexivity.
  - rewrite m_int. reflexivity.
  - rewrite m_f32. reflexivity.
  - rewrite m_f64. reflexivity.
  - rewrite m_char. reflexivity.
  - rewrite m_str. reflexivity.
  - rewrite m_bytes. reflexivity.
  - rewrite m_none. reflexivity.
  - rewrite m_some, IHv. reflexivity.
  - rewrite Mu. reflexivity.
  - rewrite Mus. reflexivity.
  - rewrite m_newtype_struct, IHv. unfold then_value. cbn [snd fst]. apply sseq_nil.
  - destruct (m_lens (length vs)) as (Ms & _). rewrite Ms. cbn [lift snd fst]. rewrite (elems_agree _ vs Es H). reflexivity.
  - rewrite Mt. cbn [lift snd fst]. rewrite (elems_agree _ vs Et H). apply sseq_nil.
  - rewrite Mts. cbn [lift snd fst]. rewrite (elems_agree _ vs Ets H). apply sseq_nil.
  - destruct (m_lens (length kvs)) as (_ & Mm & _). rewrite Mm. cbn [lift snd fst]. f_equal. clear Mm.
    induction H as [|kv r [Hk Hv] _ IH]; cbn [ser_list]; [reflexivity|]. rewrite IH, Ek, Ev, Hk, Hv.
    unfold then_value. cbn [snd fst]. rewrite !sseq_nil. reflexivity.
  - rewrite Mst. cbn [lift snd fst]. rewrite (elems2_agree _ vs Efs H). apply sseq_nil.
  - (* variant *)
    destruct (m_variants i) as (Vu & Vn & Vt & Vs).
    destruct v; cbn [ser_via_methods ser_ops] in IHv |- *;
      try (rewrite Vn, IHv; reflexivity).
    + rewrite Vu. reflexivity.
    + rewrite Vu. reflexivity.
    + (* newtype payload *)
      rewrite Vn. rewrite m_newtype_struct in IHv. unfold then_value in *. cbn [snd fst] in *. rewrite sseq_nil in IHv. rewrite IHv. reflexivity.
    + (* tuple payload *)
      rewrite Vt. cbn [lift snd fst]. rewrite Mts in IHv. cbn [lift snd fst] in IHv. rewrite sseq_nil in IHv.
      rewrite (elems_same _ mn_field_tuple_struct [VSub] [VSub] vs Etv Ets), IHv. reflexivity.
    + (* struct payload *)
      rewrite Vs. cbn [lift snd fst]. rewrite Mst in IHv. cbn [lift snd fst] in IHv. rewrite sseq_nil in IHv.
      rewrite (elems_same _ mn_field_struct [VSub; VSub] [VSub; VSub] vs Efsv Efs), IHv. reflexivity.
  - destruct (m_lens 0) as (_ & _ & Ms & _). rewrite Ms. reflexivity.
  - destruct (m_lens 0) as (_ & _ & _ & Mm). rewrite Mm. reflexivity.
  - rewrite m_collect. reflexivity.
Qed.

(* hence: the plain encoding, and whether a value serialises at all, are those of the method bodies *)
Corollary enc_via_methods v : flatten_ops (fst (ser_via_methods v)) = enc v /\ snd (ser_via_methods v) = ser_err v.
Proof. rewrite ser_methods_agree. split; reflexivity. Qed.
