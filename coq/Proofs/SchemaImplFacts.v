(* SchemaImplFacts.v: for every type expression the built-in rows can answer, the items a
   value of the type serialises as conform to the SCHEMA the rows build (C14). *)
From PV Require Import Base MachineInt Utf8 DataModel Schema SchemaDecl SchemaConv SchemaOps Conform SchemaImplDecl GenSchemaImpls MaxSize SchemaImpls.
From Coq Require Import Lia Bool.
Open Scope N_scope.

(* ---- induction over type expressions with their nested lists ---- *)
Section StyInd.
  Variable P : sty -> Prop.
  Hypothesis HLeaf : forall t, match t with
                               | YBool | YInt _ | YNonZero _ | YF32 | YF64 | YChar | YUnit | YStr | YString | YPathBuf
                               | YHString _ | YUuid | YDateTime | YKey | YOwnedSchema | YBorrowedSchema => P t
                               | _ => True
                               end.
  Hypothesis HOption : forall a, P a -> P (YOption a).
  Hypothesis HResult : forall a b, P a -> P b -> P (YResult a b).
  Hypothesis HRef : forall a, P a -> P (YRef a).
  Hypothesis HSlice : forall a, P a -> P (YSlice a).
  Hypothesis HArray : forall a n, P a -> P (YArray a n).
  Hypothesis HTuple : forall ts, Forall P ts -> P (YTuple ts).
  Hypothesis HRange : forall a, P a -> P (YRange a).
  Hypothesis HRangeI : forall a, P a -> P (YRangeInclusive a).
  Hypothesis HRangeF : forall a, P a -> P (YRangeFrom a).
  Hypothesis HRangeT : forall a, P a -> P (YRangeTo a).
  Hypothesis HVec : forall a, P a -> P (YVec a).
  Hypothesis HBTreeMap : forall a b, P a -> P b -> P (YBTreeMap a b).
  Hypothesis HHashMap : forall a b, P a -> P b -> P (YHashMap a b).
  Hypothesis HBTreeSet : forall a, P a -> P (YBTreeSet a).
  Hypothesis HHashSet : forall a, P a -> P (YHashSet a).
  Hypothesis HHVec : forall a n, P a -> P (YHVec a n).
  Hypothesis HDStruct : forall n k fs, Forall (fun f => P (snd f)) fs -> P (YDStruct n k fs).
  Hypothesis HDEnum : forall n vs, Forall (fun v => Forall (fun f => P (snd f)) (snd v)) vs -> P (YDEnum n vs).

  Fixpoint sty_ind' (t : sty) : P t :=
    let fix go (ts : list sty) : Forall P ts :=
      match ts with
      | [] => Forall_nil P
      | x :: r => Forall_cons x (sty_ind' x) (go r)
      end in
    let fix gof (fs : list (str * sty)) : Forall (fun f => P (snd f)) fs :=
      match fs with
      | [] => Forall_nil _
      | f :: r => Forall_cons f (sty_ind' (snd f)) (gof r)
      end in
    let fix gov (vs : list (str * dkind * list (str * sty))) : Forall (fun v => Forall (fun f => P (snd f)) (snd v)) vs :=
      match vs with
      | [] => Forall_nil _
      | v :: r => Forall_cons v (gof (snd v)) (gov r)
      end in
    match t with
    | YBool => HLeaf YBool | YInt k => HLeaf (YInt k) | YNonZero k => HLeaf (YNonZero k)
    | YF32 => HLeaf YF32 | YF64 => HLeaf YF64 | YChar => HLeaf YChar | YUnit => HLeaf YUnit
    | YStr => HLeaf YStr | YString => HLeaf YString | YPathBuf => HLeaf YPathBuf
    | YHString n => HLeaf (YHString n) | YUuid => HLeaf YUuid | YDateTime => HLeaf YDateTime | YKey => HLeaf YKey
    | YOwnedSchema => HLeaf YOwnedSchema | YBorrowedSchema => HLeaf YBorrowedSchema
    | YOption a => HOption a (sty_ind' a)
    | YResult a b => HResult a b (sty_ind' a) (sty_ind' b)
    | YRef a => HRef a (sty_ind' a)
    | YSlice a => HSlice a (sty_ind' a)
    | YArray a n => HArray a n (sty_ind' a)
    | YTuple ts => HTuple ts (go ts)
    | YRange a => HRange a (sty_ind' a)
    | YRangeInclusive a => HRangeI a (sty_ind' a)
    | YRangeFrom a => HRangeF a (sty_ind' a)
    | YRangeTo a => HRangeT a (sty_ind' a)
    | YVec a => HVec a (sty_ind' a)
    | YBTreeMap a b => HBTreeMap a b (sty_ind' a) (sty_ind' b)
    | YHashMap a b => HHashMap a b (sty_ind' a) (sty_ind' b)
    | YBTreeSet a => HBTreeSet a (sty_ind' a)
    | YHashSet a => HHashSet a (sty_ind' a)
    | YHVec a n => HHVec a n (sty_ind' a)
    | YDStruct n k fs => HDStruct n k fs (gof fs)
    | YDEnum n vs => HDEnum n vs (gov vs)
    end.
End StyInd.

(* ---- the walks of schema_of and emit_ok over lists, by name ---- *)
Fixpoint slist (ts : list sty) : option (list schema) :=
  match ts with
  | [] => Some []
  | a :: r => match schema_of a, slist r with Some s, Some l => Some (s :: l) | _, _ => None end
  end.
Fixpoint sfields (fs : list (str * sty)) : option (list (str * schema)) :=
  match fs with
  | [] => Some []
  | f :: r => match schema_of (snd f), sfields r with Some s, Some l => Some ((fst f, s) :: l) | _, _ => None end
  end.
Fixpoint svariants (vs : list (str * dkind * list (str * sty))) : option (list (str * dkind * list (str * schema))) :=
  match vs with
  | [] => Some []
  | v :: r => match sfields (snd v), svariants r with Some l, Some rest => Some ((fst v, l) :: rest) | _, _ => None end
  end.
Lemma schema_of_tuple ts : schema_of (YTuple ts) =
  match slist ts with Some ss => RS (tuple_key (length ts)) (tuple_senv ss 65) [] | None => None end.
Proof. reflexivity. Qed.
Lemma schema_of_dstruct n k fs : schema_of (YDStruct n k fs) = option_map (SStruct n k) (sfields fs).
Proof. reflexivity. Qed.
Lemma schema_of_denum n vs : schema_of (YDEnum n vs) = option_map (SEnum n) (svariants vs).
Proof. reflexivity. Qed.

Section EmitWalks.
  Variable d : nat.
  Fixpoint emit_zip (ts : list sty) (xs : list nvalue) : bool :=
    match ts, xs with
    | [], [] => true
    | a :: ts', x :: xs' => emit_ok d a x && emit_zip ts' xs'
    | _, _ => false
    end.
  Fixpoint emit_unnamed (fs : list (str * sty)) (xs : list nvalue) : bool :=
    match fs, xs with
    | [], [] => true
    | f :: fs', x :: xs' => emit_ok d (snd f) x && emit_unnamed fs' xs'
    | _, _ => false
    end.
  Fixpoint emit_named (fs : list (str * sty)) (xs : list (list N * nvalue)) : bool :=
    match fs, xs with
    | [], [] => true
    | f :: fs', x :: xs' => list_N_eqb (fst x) (fst f) && emit_ok d (snd f) (snd x) && emit_named fs' xs'
    | _, _ => false
    end.
  Definition emit_body (k : dkind) (fs : list (str * sty)) (p : nvalue) : bool :=
    match k, p with
    | DUnit, NUnitStruct _ => match fs with [] => true | _ => false end
    | DNewtype, NNewtypeStruct _ x => match fs with [f] => emit_ok d (snd f) x | _ => false end
    | DTuple, NTupleStruct _ xs => emit_unnamed fs xs
    | DStruct, NStruct _ xs => emit_named fs xs
    | _, _ => false
    end.
  Section Pick.
    Variable vn : list N.
    Variable p : nvalue.
    Fixpoint emit_pick (vs : list (str * dkind * list (str * sty))) (i : nat) : bool :=
      match vs, i with
      | [], _ => false
      | w :: _, 0%nat => list_N_eqb vn (fst (fst w)) && emit_body (snd (fst w)) (snd w) p
      | _ :: r, S i' => emit_pick r i'
      end.
  End Pick.
  Lemma emit_tuple ts v : emit_ok d (YTuple ts) v = match v with NTuple xs => emit_zip ts xs | _ => false end.
  Proof. reflexivity. Qed.
  Lemma emit_dstruct n k fs v : emit_ok d (YDStruct n k fs) v = emit_body k fs v.
  Proof. reflexivity. Qed.
  Lemma emit_denum n vs v : emit_ok d (YDEnum n vs) v =
    match v with NVariant _ idx vn p => (idx <? 2 ^ 32) && emit_pick vn p vs (N.to_nat idx) | _ => false end.
  Proof. reflexivity. Qed.
End EmitWalks.

(* ---- what the rows say (each is a computation on the translated table) ---- *)
Definition prim_of_ik (k : ikind) : prim :=
  match k with
  | I8 => PI8 | I16 => PI16 | I32 => PI32 | I64 => PI64 | I128 => PI128
  | U8 => PU8 | U16 => PU16 | U32 => PU32 | U64 => PU64 | U128 => PU128
  end.
Lemma prim_ty_ik d k : prim_ty d (prim_of_ik k) = TInt k.
Proof. destruct k; reflexivity. Qed.
Lemma row_int k : schema_of (YInt k) = Some (SPrim (prim_of_ik k)).
Proof. destruct k; reflexivity. Qed.
Lemma row_nonzero k : schema_of (YNonZero k) = Some (SPrim (prim_of_ik k)).
Proof. destruct k; reflexivity. Qed.
Lemma row_leaves :
  schema_of YBool = Some (SPrim PBool) /\ schema_of YF32 = Some (SPrim PF32) /\ schema_of YF64 = Some (SPrim PF64) /\
  schema_of YChar = Some (SPrim PChar) /\ schema_of YUnit = Some (SPrim PUnit) /\
  schema_of YStr = Some (SPrim PString) /\ schema_of YString = Some (SPrim PString) /\ schema_of YPathBuf = Some (SPrim PString) /\
  (forall n, schema_of (YHString n) = Some (SPrim PString)) /\ schema_of YDateTime = Some (SPrim PString) /\
  schema_of YUuid = Some (SPrim PByteArray) /\
  schema_of YOwnedSchema = Some (SPrim PSchema) /\ schema_of YBorrowedSchema = Some (SPrim PSchema).
Proof. repeat split; reflexivity. Qed.
Lemma row_key : exists nm, schema_of YKey = Some (SStruct nm DNewtype [([], STuple (repeat (SPrim PU8) 8))]).
Proof. eexists. reflexivity. Qed.

Ltac unary key p a :=
  cbn [schema_of]; destruct (schema_of a); reflexivity.
Lemma row_option a : schema_of (YOption a) = option_map SOption (schema_of a).
Proof. unary key_option (84%N) a. Qed.
Lemma row_ref a : schema_of (YRef a) = schema_of a.
Proof. unary key_ref (84%N) a. Qed.
Lemma row_slice a : schema_of (YSlice a) = option_map SSeq (schema_of a).
Proof. unary sk_slice (84%N) a. Qed.
Lemma row_vec a : schema_of (YVec a) = option_map SSeq (schema_of a).
Proof. unary sk_vec (84%N) a. Qed.
Lemma row_btreeset a : schema_of (YBTreeSet a) = option_map SSeq (schema_of a).
Proof. unary sk_btreeset (75%N) a. Qed.
Lemma row_hashset a : schema_of (YHashSet a) = option_map SSeq (schema_of a).
Proof. unary sk_hashset (75%N) a. Qed.
Lemma row_hvec a n : schema_of (YHVec a n) = option_map SSeq (schema_of a).
Proof.
  cbn [schema_of].
  destruct (schema_of a); reflexivity.
Qed.
Lemma row_array a n : schema_of (YArray a n) = option_map (fun x => STuple (repeat x (N.to_nat n))) (schema_of a).
Proof.
  cbn [schema_of].
  destruct (schema_of a); reflexivity.
Qed.
Lemma row_range a : exists nm, schema_of (YRange a) = option_map (fun x => SStruct nm DStruct [(nm_start, x); (nm_end, x)]) (schema_of a).
Proof. eexists. cbn [schema_of]. destruct (schema_of a); reflexivity. Qed.
Lemma row_range_incl a : exists nm, schema_of (YRangeInclusive a) = option_map (fun x => SStruct nm DStruct [(nm_start, x); (nm_end, x)]) (schema_of a).
Proof. eexists. cbn [schema_of]. destruct (schema_of a); reflexivity. Qed.
Lemma row_range_from a : exists nm, schema_of (YRangeFrom a) = option_map (fun x => SStruct nm DStruct [(nm_start, x)]) (schema_of a).
Proof. eexists. cbn [schema_of]. destruct (schema_of a); reflexivity. Qed.
Lemma row_range_to a : exists nm, schema_of (YRangeTo a) = option_map (fun x => SStruct nm DStruct [(nm_end, x)]) (schema_of a).
Proof. eexists. cbn [schema_of]. destruct (schema_of a); reflexivity. Qed.
Lemma row_result a b : exists nm, schema_of (YResult a b) =
  match schema_of a, schema_of b with
  | Some x, Some y => Some (SEnum nm [(nm_ok, DNewtype, [([], x)]); (nm_err, DNewtype, [([], y)])])
  | _, _ => None
  end.
Proof.
  eexists. cbn [schema_of].
  destruct (schema_of a), (schema_of b); reflexivity.
Qed.
Lemma row_btreemap a b : schema_of (YBTreeMap a b) =
  match schema_of a, schema_of b with Some x, Some y => Some (SMap x y) | _, _ => None end.
Proof.
  cbn [schema_of].
  destruct (schema_of a), (schema_of b); reflexivity.
Qed.
Lemma row_hashmap a b : schema_of (YHashMap a b) =
  match schema_of a, schema_of b with Some x, Some y => Some (SMap x y) | _, _ => None end.
Proof.
  cbn [schema_of].
  destruct (schema_of a), (schema_of b); reflexivity.
Qed.
Lemma row_tuple ss : (1 <= length ss <= 6)%nat -> RS (tuple_key (length ss)) (tuple_senv ss 65) [] = Some (STuple ss).
Proof.
  intros H. destruct ss as [|a [|b [|c [|e [|f [|g [|h r]]]]]]]; cbn [length] in H; try lia; reflexivity.
Qed.
(* the rows compiled under the alloc feature, and those for heapless 0.8, are the same rows *)
Lemma rows_alias : Forall (fun ab => assoc (fst ab) schema_impls = assoc (snd ab) schema_impls /\ assoc (snd ab) schema_impls <> None) alias_rows.
Proof. repeat constructor; try reflexivity; discriminate. Qed.

(* ---- conformance ---- *)
Section Main.
  Variable d : nat.
  Definition conf_at (t : sty) : Prop :=
    sty_ok t = true -> forall s v, schema_of t = Some s -> emit_ok d t v = true -> conforms d v s = true.

  Lemma forallb_conf a s xs : (forall v, emit_ok d a v = true -> conforms d v s = true) ->
    forallb (emit_ok d a) xs = true -> forallb (fun x => conforms d x s) xs = true.
  Proof.
    intros H. induction xs as [|x r IH]; cbn [forallb]; [reflexivity|]. intros E. apply andb_prop in E as [E1 E2].
    rewrite (H x E1), (IH E2). reflexivity.
  Qed.
  Lemma repeat_conf a s xs : (forall v, emit_ok d a v = true -> conforms d v s = true) ->
    forallb (emit_ok d a) xs = true -> conforms_list (conforms d) xs (repeat s (length xs)) = true.
  Proof.
    intros H. induction xs as [|x r IH]; cbn [forallb length repeat conforms_list]; [reflexivity|]. intros E.
    apply andb_prop in E as [E1 E2]. rewrite (H x E1), (IH E2). reflexivity.
  Qed.
  Lemma zip_conf ts : Forall conf_at ts -> forall ss xs, forallb sty_ok ts = true -> slist ts = Some ss ->
    emit_zip d ts xs = true -> conforms_list (conforms d) xs ss = true.
  Proof.
    induction 1 as [|t r Ht _ IH]; intros ss xs Hok Hs He.
    - injection Hs as <-. destruct xs; [reflexivity|discriminate He].
    - cbn [slist forallb] in *. apply andb_prop in Hok as [Hok1 Hok2].
      destruct (schema_of t) as [s|] eqn:Es; try discriminate Hs. destruct (slist r) as [l|] eqn:El; try discriminate Hs.
      injection Hs as <-. destruct xs as [|x xs]; [discriminate He|]. cbn [emit_zip] in He. apply andb_prop in He as [He1 He2].
      cbn [conforms_list]. rewrite (Ht Hok1 s x Es He1), (IH l xs Hok2 eq_refl He2). reflexivity.
  Qed.
  Lemma unnamed_conf (fs : list (str * sty)) : Forall (fun f => conf_at (snd f)) fs -> forall fs' xs,
    forallb (fun f => sty_ok (snd f)) fs = true -> sfields fs = Some fs' ->
    emit_unnamed d fs xs = true -> conforms_unnamed (conforms d) xs fs' = true.
  Proof.
    induction 1 as [|t r Ht _ IH]; intros ss xs Hok Hs He.
    - injection Hs as <-. destruct xs; [reflexivity|discriminate He].
    - cbn [sfields forallb] in *. apply andb_prop in Hok as [Hok1 Hok2].
      destruct (schema_of (snd t)) as [s|] eqn:Es; try discriminate Hs. destruct (sfields r) as [l|] eqn:El; try discriminate Hs.
      injection Hs as <-. destruct xs as [|x xs]; [discriminate He|]. cbn [emit_unnamed] in He. apply andb_prop in He as [He1 He2].
      cbn [conforms_unnamed snd]. rewrite (Ht Hok1 s x Es He1), (IH l xs Hok2 eq_refl He2). reflexivity.
  Qed.
  Lemma named_conf (fs : list (str * sty)) : Forall (fun f => conf_at (snd f)) fs -> forall fs' xs,
    forallb (fun f => sty_ok (snd f)) fs = true -> sfields fs = Some fs' ->
    emit_named d fs xs = true -> conforms_named (conforms d) xs fs' = true.
  Proof.
    induction 1 as [|t r Ht _ IH]; intros ss xs Hok Hs He.
    - injection Hs as <-. destruct xs; [reflexivity|discriminate He].
    - cbn [sfields forallb] in *. apply andb_prop in Hok as [Hok1 Hok2].
      destruct (schema_of (snd t)) as [s|] eqn:Es; try discriminate Hs. destruct (sfields r) as [l|] eqn:El; try discriminate Hs.
      injection Hs as <-. destruct xs as [|x xs]; [discriminate He|]. cbn [emit_named] in He. apply andb_prop in He as [He1 He2].
      apply andb_prop in He1 as [Hn He1].
      cbn [conforms_named fst snd]. rewrite Hn, (Ht Hok1 s (snd x) Es He1), (IH l xs Hok2 eq_refl He2). reflexivity.
  Qed.
  Lemma body_conf k (fs : list (str * sty)) : Forall (fun f => conf_at (snd f)) fs -> forall fs' p,
    forallb (fun f => sty_ok (snd f)) fs = true -> sfields fs = Some fs' ->
    emit_body d k fs p = true -> conforms_data (conforms d) p k fs' = true.
  Proof.
    intros Hfs fs' p Hok Hs He. destruct k, p; try discriminate He; cbn [emit_body conforms_data] in *.
    - destruct fs; [injection Hs as <-; reflexivity|discriminate He].
    - destruct fs as [|f [|? ?]]; try discriminate He. cbn [sfields] in Hs.
      destruct (schema_of (snd f)) as [s|] eqn:Es; try discriminate Hs. injection Hs as <-. cbn [snd].
      apply Forall_inv in Hfs. cbn [forallb] in Hok. apply andb_prop in Hok as [Hok _]. apply (Hfs Hok s _ Es He).
    - eapply unnamed_conf; eassumption.
    - eapply named_conf; eassumption.
  Qed.

  Lemma u8_item x : match x with NInt _ _ => has_type (erase x) (TInt U8) | _ => false end = true -> conforms d x (SPrim PU8) = true.
  Proof. destruct x; try discriminate. intros H. exact H. Qed.

  Theorem builtin_conforms : forall t, conf_at t.
  Proof.
    apply (sty_ind' conf_at); unfold conf_at.
    - (* leaves *)
      destruct row_leaves as (Lb & L32 & L64 & Lc & Lu & Ls1 & Ls2 & Ls3 & Lh & Ldt & Luu & Lo & Lbo).
      intros t; destruct t; try exact I; intros _ s v Hs He.
      + rewrite Lb in Hs. injection Hs as <-. destruct v; try discriminate He. reflexivity.
      + rewrite row_int in Hs. injection Hs as <-. destruct v; try discriminate He. cbn [emit_ok] in He.
        cbn [conforms prim_conforms]. destruct k; exact He.
      + rewrite row_nonzero in Hs. injection Hs as <-. destruct v; try discriminate He. cbn [emit_ok] in He.
        apply andb_prop in He as [He _]. cbn [conforms prim_conforms]. destruct k; exact He.
      + rewrite L32 in Hs. injection Hs as <-. destruct v; try discriminate He. exact He.
      + rewrite L64 in Hs. injection Hs as <-. destruct v; try discriminate He. exact He.
      + rewrite Lc in Hs. injection Hs as <-. destruct v; try discriminate He. exact He.
      + rewrite Lu in Hs. injection Hs as <-. destruct v; try discriminate He. reflexivity.
      + rewrite Ls1 in Hs. injection Hs as <-. destruct v; try discriminate He. exact He.
      + rewrite Ls2 in Hs. injection Hs as <-. destruct v; try discriminate He. exact He.
      + rewrite Ls3 in Hs. injection Hs as <-. destruct v; try discriminate He. exact He.
      + rewrite Lh in Hs. injection Hs as <-. destruct v; try discriminate He. exact He.
      + rewrite Luu in Hs. injection Hs as <-. destruct v; try discriminate He. cbn [emit_ok] in He.
        apply andb_prop in He as [He _]. exact He.
      + rewrite Ldt in Hs. injection Hs as <-. destruct v; try discriminate He. exact He.
      + destruct row_key as [nm Hk]. rewrite Hk in Hs. injection Hs as <-.
        destruct v as [| | | | | | | | | | |n0 p| | | | | | ]; try discriminate He. destruct p as [| | | | | | | | | | | | |xs| | | | ]; try discriminate He.
        cbn [emit_ok] in He. apply andb_prop in He as [He Hl]. apply N.eqb_eq in Hl.
        cbn [conforms snd].
        destruct xs as [|x1 [|x2 [|x3 [|x4 [|x5 [|x6 [|x7 [|x8 [|x9 r]]]]]]]]]; cbn [length] in Hl; try lia.
        cbn [forallb] in He. repeat (apply andb_prop in He as [?H He]).
        cbn [repeat conforms_list]. rewrite !u8_item by assumption. reflexivity.
      + rewrite Lo in Hs. injection Hs as <-. destruct v; exact He.
      + rewrite Lbo in Hs. injection Hs as <-. destruct v; exact He.
    - (* Option *)
      intros a IH Hok s v Hs He. rewrite row_option in Hs. destruct (schema_of a) as [sa|] eqn:Ea; try discriminate Hs. injection Hs as <-.
      cbn [sty_ok] in Hok. destruct v; try discriminate He; cbn [emit_ok conforms] in *; [reflexivity|]. apply (IH Hok sa _ eq_refl He).
    - (* Result *)
      intros a b IHa IHb Hok s v Hs He. destruct (row_result a b) as [nm Hr]. rewrite Hr in Hs.
      destruct (schema_of a) as [sa|] eqn:Ea; try discriminate Hs. destruct (schema_of b) as [sb|] eqn:Eb; try discriminate Hs. injection Hs as <-.
      cbn [sty_ok] in Hok. apply andb_prop in Hok as [Hoka Hokb].
      destruct v as [| | | | | | | | | | | | | | | | |en idx vn p]; try discriminate He. destruct p as [| | | | | | | | | | |n0 x| | | | | | ]; try discriminate He.
      cbn [emit_ok] in He. apply orb_prop in He as [He|He]; apply andb_prop in He as [He Hx]; apply andb_prop in He as [Hi Hn]; apply N.eqb_eq in Hi; subst idx.
      + cbn [conforms N.to_nat nth_error]. change (0 <? 2 ^ 32) with true. cbn [andb snd]. rewrite Hn. apply (IHa Hoka sa x eq_refl Hx).
      + cbn [conforms]. change (N.to_nat 1) with 1%nat. cbn [nth_error]. change (1 <? 2 ^ 32) with true. cbn [andb snd]. rewrite Hn. apply (IHb Hokb sb x eq_refl Hx).
    - (* Ref *)
      intros a IH Hok s v Hs He. rewrite row_ref in Hs. cbn [sty_ok emit_ok] in *. apply (IH Hok s v Hs He).
    - (* Slice *)
      intros a IH Hok s v Hs He. rewrite row_slice in Hs. destruct (schema_of a) as [sa|] eqn:Ea; try discriminate Hs. injection Hs as <-.
      cbn [sty_ok] in Hok. destruct v; try discriminate He. cbn [emit_ok conforms] in *. apply andb_prop in He as [He Hl].
      rewrite Hl, (forallb_conf a sa vs (fun v Hv => IH Hok sa v eq_refl Hv) He). reflexivity.
    - (* Array *)
      intros a n IH Hok s v Hs He. rewrite row_array in Hs. destruct (schema_of a) as [sa|] eqn:Ea; try discriminate Hs. injection Hs as <-.
      cbn [sty_ok] in Hok. destruct v; try discriminate He. cbn [emit_ok conforms] in *. apply andb_prop in He as [He Hl]. apply N.eqb_eq in Hl.
      subst n. rewrite Nat2N.id. apply (repeat_conf a sa vs (fun v Hv => IH Hok sa v eq_refl Hv) He).
    - (* Tuple *)
      intros ts IH Hok s v Hs He. rewrite schema_of_tuple in Hs. destruct (slist ts) as [ss|] eqn:Es; try discriminate Hs.
      cbn [sty_ok] in Hok. apply andb_prop in Hok as [Hok H6]. apply andb_prop in Hok as [Hok H1].
      apply Nat.leb_le in H1, H6.
      assert (Hlen : length ss = length ts).
      { clear -Es. revert ss Es. induction ts as [|t r IHr]; intros ss Es; cbn [slist] in Es; [injection Es as <-; reflexivity|].
        destruct (schema_of t); try discriminate Es. destruct (slist r) as [l|]; try discriminate Es. injection Es as <-.
        cbn [length]. rewrite (IHr l eq_refl). reflexivity. }
      rewrite <- Hlen, row_tuple in Hs by lia. injection Hs as <-.
      rewrite emit_tuple in He. destruct v; try discriminate He. cbn [conforms]. eapply zip_conf; eassumption.
    - (* Range *)
      intros a IH Hok s v Hs He. destruct (row_range a) as [nm Hr]. rewrite Hr in Hs. destruct (schema_of a) as [sa|] eqn:Ea; try discriminate Hs. injection Hs as <-.
      cbn [sty_ok] in Hok. destruct v as [| | | | | | | | | | | | | | | |n0 fs| ]; try discriminate He.
      destruct fs as [|[n1 x] [|[n2 y] [|? ?]]]; try discriminate He. cbn [emit_ok] in He.
      apply andb_prop in He as [He Hy]. apply andb_prop in He as [He Hx]. apply andb_prop in He as [H1 H2].
      cbn [conforms conforms_named fst snd]. rewrite H1, H2, (IH Hok sa x eq_refl Hx), (IH Hok sa y eq_refl Hy). reflexivity.
    - (* RangeInclusive *)
      intros a IH Hok s v Hs He. destruct (row_range_incl a) as [nm Hr]. rewrite Hr in Hs. destruct (schema_of a) as [sa|] eqn:Ea; try discriminate Hs. injection Hs as <-.
      cbn [sty_ok] in Hok. destruct v as [| | | | | | | | | | | | | | | |n0 fs| ]; try discriminate He.
      destruct fs as [|[n1 x] [|[n2 y] [|? ?]]]; try discriminate He. cbn [emit_ok] in He.
      apply andb_prop in He as [He Hy]. apply andb_prop in He as [He Hx]. apply andb_prop in He as [H1 H2].
      cbn [conforms conforms_named fst snd]. rewrite H1, H2, (IH Hok sa x eq_refl Hx), (IH Hok sa y eq_refl Hy). reflexivity.
    - (* RangeFrom *)
      intros a IH Hok s v Hs He. destruct (row_range_from a) as [nm Hr]. rewrite Hr in Hs. destruct (schema_of a) as [sa|] eqn:Ea; try discriminate Hs. injection Hs as <-.
      cbn [sty_ok] in Hok. destruct v as [| | | | | | | | | | | | | | | |n0 fs| ]; try discriminate He.
      destruct fs as [|[n1 x] [|? ?]]; try discriminate He. cbn [emit_ok] in He. apply andb_prop in He as [H1 Hx].
      cbn [conforms conforms_named fst snd]. rewrite H1, (IH Hok sa x eq_refl Hx). reflexivity.
    - (* RangeTo *)
      intros a IH Hok s v Hs He. destruct (row_range_to a) as [nm Hr]. rewrite Hr in Hs. destruct (schema_of a) as [sa|] eqn:Ea; try discriminate Hs. injection Hs as <-.
      cbn [sty_ok] in Hok. destruct v as [| | | | | | | | | | | | | | | |n0 fs| ]; try discriminate He.
      destruct fs as [|[n1 x] [|? ?]]; try discriminate He. cbn [emit_ok] in He. apply andb_prop in He as [H1 Hx].
      cbn [conforms conforms_named fst snd]. rewrite H1, (IH Hok sa x eq_refl Hx). reflexivity.
    - (* Vec *)
      intros a IH Hok s v Hs He. rewrite row_vec in Hs. destruct (schema_of a) as [sa|] eqn:Ea; try discriminate Hs. injection Hs as <-.
      cbn [sty_ok] in Hok. destruct v; try discriminate He. cbn [emit_ok conforms] in *. apply andb_prop in He as [He Hl].
      rewrite Hl, (forallb_conf a sa vs (fun v Hv => IH Hok sa v eq_refl Hv) He). reflexivity.
    - (* BTreeMap *)
      intros a b IHa IHb Hok s v Hs He. rewrite row_btreemap in Hs.
      destruct (schema_of a) as [sa|] eqn:Ea; try discriminate Hs. destruct (schema_of b) as [sb|] eqn:Eb; try discriminate Hs. injection Hs as <-.
      cbn [sty_ok] in Hok. apply andb_prop in Hok as [Hoka Hokb]. destruct v; try discriminate He. cbn [emit_ok conforms] in *.
      apply andb_prop in He as [He Hl]. rewrite Hl, andb_true_r. clear Hl. induction kvs as [|kv r IHr]; [reflexivity|].
      cbn [forallb] in *. apply andb_prop in He as [He1 He2]. apply andb_prop in He1 as [Hk Hv].
      rewrite (IHa Hoka sa _ eq_refl Hk), (IHb Hokb sb _ eq_refl Hv), (IHr He2). reflexivity.
    - (* HashMap *)
      intros a b IHa IHb Hok s v Hs He. rewrite row_hashmap in Hs.
      destruct (schema_of a) as [sa|] eqn:Ea; try discriminate Hs. destruct (schema_of b) as [sb|] eqn:Eb; try discriminate Hs. injection Hs as <-.
      cbn [sty_ok] in Hok. apply andb_prop in Hok as [Hoka Hokb]. destruct v; try discriminate He. cbn [emit_ok conforms] in *.
      apply andb_prop in He as [He Hl]. rewrite Hl, andb_true_r. clear Hl. induction kvs as [|kv r IHr]; [reflexivity|].
      cbn [forallb] in *. apply andb_prop in He as [He1 He2]. apply andb_prop in He1 as [Hk Hv].
      rewrite (IHa Hoka sa _ eq_refl Hk), (IHb Hokb sb _ eq_refl Hv), (IHr He2). reflexivity.
    - (* BTreeSet *)
      intros a IH Hok s v Hs He. rewrite row_btreeset in Hs. destruct (schema_of a) as [sa|] eqn:Ea; try discriminate Hs. injection Hs as <-.
      cbn [sty_ok] in Hok. destruct v; try discriminate He. cbn [emit_ok conforms] in *. apply andb_prop in He as [He Hl].
      rewrite Hl, (forallb_conf a sa vs (fun v Hv => IH Hok sa v eq_refl Hv) He). reflexivity.
    - (* HashSet *)
      intros a IH Hok s v Hs He. rewrite row_hashset in Hs. destruct (schema_of a) as [sa|] eqn:Ea; try discriminate Hs. injection Hs as <-.
      cbn [sty_ok] in Hok. destruct v; try discriminate He. cbn [emit_ok conforms] in *. apply andb_prop in He as [He Hl].
      rewrite Hl, (forallb_conf a sa vs (fun v Hv => IH Hok sa v eq_refl Hv) He). reflexivity.
    - (* heapless Vec *)
      intros a n IH Hok s v Hs He. rewrite row_hvec in Hs. destruct (schema_of a) as [sa|] eqn:Ea; try discriminate Hs. injection Hs as <-.
      cbn [sty_ok] in Hok. destruct v; try discriminate He. cbn [emit_ok conforms] in *. apply andb_prop in He as [He Hl].
      rewrite Hl, (forallb_conf a sa vs (fun v Hv => IH Hok sa v eq_refl Hv) He). reflexivity.
    - (* derived struct *)
      intros n k fs IH Hok s v Hs He. rewrite schema_of_dstruct in Hs. destruct (sfields fs) as [fs'|] eqn:Ef; try discriminate Hs. injection Hs as <-.
      cbn [sty_ok] in Hok. rewrite emit_dstruct in He.
      pose proof (body_conf k fs IH fs' v Hok Ef He) as Hc.
      destruct k, v; try discriminate Hc; exact Hc.
    - (* derived enum *)
      intros n vs IH Hok s v Hs He. rewrite schema_of_denum in Hs. destruct (svariants vs) as [vs'|] eqn:Ev; try discriminate Hs. injection Hs as <-.
      cbn [sty_ok] in Hok. rewrite emit_denum in He. destruct v as [| | | | | | | | | | | | | | | | |en idx vn p]; try discriminate He.
      apply andb_prop in He as [Hi He]. cbn [conforms]. rewrite Hi. cbn [andb].
      revert vs' Ev He. generalize (N.to_nat idx) as i. induction IH as [|w r Hw _ IHr]; intros i vs' Ev He; [destruct i; discriminate He|].
      cbn [svariants forallb] in *. apply andb_prop in Hok as [Hok1 Hok2].
      destruct (sfields (snd w)) as [l|] eqn:El; try discriminate Ev. destruct (svariants r) as [rest|] eqn:Er; try discriminate Ev. injection Ev as <-.
      destruct i as [|i]; cbn [emit_pick nth_error] in *.
      + apply andb_prop in He as [Hn Hb]. destruct w as [[wn wk] wf]. cbn [fst snd] in *. rewrite Hn. cbn [andb].
        pose proof (body_conf wk wf Hw l p Hok1 El Hb) as Hc. destruct wk, p; try discriminate Hc; exact Hc.
      + apply (IHr Hok2 i rest eq_refl He).
  Qed.
End Main.

(* ---- every type expression in range has a row ---- *)
Theorem schema_of_total : forall t, sty_ok t = true -> exists s, schema_of t = Some s.
Proof.
  apply (sty_ind' (fun t => sty_ok t = true -> exists s, schema_of t = Some s)).
  - destruct row_leaves as (Lb & L32 & L64 & Lc & Lu & Ls1 & Ls2 & Ls3 & Lh & Ldt & Luu & Lo & Lbo).
    intros t; destruct t; try exact I; intros _; try (eexists; reflexivity); try (destruct k; eexists; reflexivity).
  - intros a IH Hok. destruct (IH Hok) as [s Hs]. rewrite row_option, Hs. eexists; reflexivity.
  - intros a b IHa IHb Hok. cbn [sty_ok] in Hok. apply andb_prop in Hok as [Ha Hb]. destruct (IHa Ha) as [sa Hsa]. destruct (IHb Hb) as [sb Hsb].
    destruct (row_result a b) as [nm Hr]. rewrite Hr, Hsa, Hsb. eexists; reflexivity.
  - intros a IH Hok. destruct (IH Hok) as [s Hs]. rewrite row_ref, Hs. eexists; reflexivity.
  - intros a IH Hok. destruct (IH Hok) as [s Hs]. rewrite row_slice, Hs. eexists; reflexivity.
  - intros a n IH Hok. destruct (IH Hok) as [s Hs]. rewrite row_array, Hs. eexists; reflexivity.
  - intros ts IH Hok. cbn [sty_ok] in Hok. apply andb_prop in Hok as [Hok H6]. apply andb_prop in Hok as [Hok H1]. apply Nat.leb_le in H1, H6.
    assert (Hl : exists ss, slist ts = Some ss /\ length ss = length ts).
    { clear H1 H6. induction IH as [|t r Ht _ IHr]; [exists []; split; reflexivity|]. cbn [forallb] in Hok. apply andb_prop in Hok as [Hk1 Hk2].
      destruct (Ht Hk1) as [s Hs]. destruct (IHr Hk2) as (l & Hl & Hn). exists (s :: l). cbn [slist length]. rewrite Hs, Hl, Hn. split; reflexivity. }
    destruct Hl as (ss & Hs & Hn). rewrite schema_of_tuple, Hs, <- Hn, row_tuple by lia. eexists; reflexivity.
  - intros a IH Hok. destruct (IH Hok) as [s Hs]. destruct (row_range a) as [nm Hr]. rewrite Hr, Hs. eexists; reflexivity.
  - intros a IH Hok. destruct (IH Hok) as [s Hs]. destruct (row_range_incl a) as [nm Hr]. rewrite Hr, Hs. eexists; reflexivity.
  - intros a IH Hok. destruct (IH Hok) as [s Hs]. destruct (row_range_from a) as [nm Hr]. rewrite Hr, Hs. eexists; reflexivity.
  - intros a IH Hok. destruct (IH Hok) as [s Hs]. destruct (row_range_to a) as [nm Hr]. rewrite Hr, Hs. eexists; reflexivity.
  - intros a IH Hok. destruct (IH Hok) as [s Hs]. rewrite row_vec, Hs. eexists; reflexivity.
  - intros a b IHa IHb Hok. cbn [sty_ok] in Hok. apply andb_prop in Hok as [Ha Hb]. destruct (IHa Ha) as [sa Hsa]. destruct (IHb Hb) as [sb Hsb].
    rewrite row_btreemap, Hsa, Hsb. eexists; reflexivity.
  - intros a b IHa IHb Hok. cbn [sty_ok] in Hok. apply andb_prop in Hok as [Ha Hb]. destruct (IHa Ha) as [sa Hsa]. destruct (IHb Hb) as [sb Hsb].
    rewrite row_hashmap, Hsa, Hsb. eexists; reflexivity.
  - intros a IH Hok. destruct (IH Hok) as [s Hs]. rewrite row_btreeset, Hs. eexists; reflexivity.
  - intros a IH Hok. destruct (IH Hok) as [s Hs]. rewrite row_hashset, Hs. eexists; reflexivity.
  - intros a n IH Hok. destruct (IH Hok) as [s Hs]. rewrite row_hvec, Hs. eexists; reflexivity.
  - intros n k fs IH Hok. cbn [sty_ok] in Hok. rewrite schema_of_dstruct.
    assert (Hl : exists l, sfields fs = Some l).
    { induction IH as [|f r Hf _ IHr]; [exists []; reflexivity|]. cbn [forallb] in Hok. apply andb_prop in Hok as [Hk1 Hk2].
      destruct (Hf Hk1) as [s Hs]. destruct (IHr Hk2) as (l & Hl). exists ((fst f, s) :: l). cbn [sfields]. rewrite Hs, Hl. reflexivity. }
    destruct Hl as [l Hl]. rewrite Hl. cbn [option_map]. eexists; reflexivity.
  - intros n vs IH Hok. cbn [sty_ok] in Hok. rewrite schema_of_denum.
    assert (Hl : exists l, svariants vs = Some l).
    { induction IH as [|w r Hw _ IHr]; [exists []; reflexivity|]. cbn [forallb] in Hok. apply andb_prop in Hok as [Hk1 Hk2].
      assert (Hf : exists l, sfields (snd w) = Some l).
      { clear -Hw Hk1. induction Hw as [|f r0 Hf _ IHr0]; [exists []; reflexivity|]. cbn [forallb] in Hk1. apply andb_prop in Hk1 as [Hk1 Hk2].
        destruct (Hf Hk1) as [s Hs]. destruct (IHr0 Hk2) as (l & Hl). exists ((fst f, s) :: l). cbn [sfields]. rewrite Hs, Hl. reflexivity. }
      destruct Hf as [lf Hlf]. destruct (IHr Hk2) as (l & Hl). exists ((fst w, lf) :: l). cbn [svariants]. rewrite Hlf, Hl. reflexivity. }
    destruct Hl as [l Hl]. rewrite Hl. cbn [option_map]. eexists; reflexivity.
Qed.
