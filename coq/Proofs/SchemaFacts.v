(* SchemaFacts.v: borrowed and owned schemas are the same thing on the wire (C15). *)
From PV Require Import Base Utf8 DataModel Schema SchemaDecl GenSchemaDecl SchemaSer SchemaConv Ser De SchemaOps.
From PV Require Import BaseFacts ValueInd SerFacts DeFacts.
From Coq Require Import Lia.
Open Scope N_scope.

Section SchemaInd.
  Variable P : schema -> Prop.
  Hypothesis HPrim : forall p, P (SPrim p).
  Hypothesis HOption : forall t, P t -> P (SOption t).
  Hypothesis HSeq : forall t, P t -> P (SSeq t).
  Hypothesis HTuple : forall ts, Forall P ts -> P (STuple ts).
  Hypothesis HMap : forall k v, P k -> P v -> P (SMap k v).
  Hypothesis HStruct : forall n k fs, Forall (fun f => P (snd f)) fs -> P (SStruct n k fs).
  Hypothesis HEnum : forall n vs, Forall (fun v => Forall (fun f => P (snd f)) (snd v)) vs -> P (SEnum n vs).

  Fixpoint schema_ind' (s : schema) : P s :=
    let fix go (ts : list schema) : Forall P ts :=
      match ts with
      | [] => Forall_nil P
      | x :: r => Forall_cons x (schema_ind' x) (go r)
      end in
    let fix gof (fs : list (str * schema)) : Forall (fun f => P (snd f)) fs :=
      match fs with
      | [] => Forall_nil _
      | f :: r => Forall_cons f (schema_ind' (snd f)) (gof r)
      end in
    let fix gov (vs : list (str * dkind * list (str * schema))) : Forall (fun v => Forall (fun f => P (snd f)) (snd v)) vs :=
      match vs with
      | [] => Forall_nil _
      | v :: r => Forall_cons v (gof (snd v)) (gov r)
      end in
    match s with
    | SPrim p => HPrim p
    | SOption t => HOption t (schema_ind' t)
    | SSeq t => HSeq t (schema_ind' t)
    | STuple ts => HTuple ts (go ts)
    | SMap k v => HMap k v (schema_ind' k) (schema_ind' v)
    | SStruct n k fs => HStruct n k fs (gof fs)
    | SEnum n vs => HEnum n vs (gov vs)
    end.
End SchemaInd.

(* ---- the two declarations are the same declaration ---- *)
Lemma decl_agree :
  borrowed_dmt = owned_dmt /\ borrowed_data = owned_data /\
  borrowed_named_field = owned_named_field /\ borrowed_variant = owned_variant.
Proof. repeat split; reflexivity. Qed.


Lemma borrowed_is_owned s : B s = O s.
Proof.
  unfold B, O. destruct decl_agree as (E1 & E2 & E3 & E4). rewrite E1, E2, E3, E4. reflexivity.
Qed.

(* ---- the conversion is the identity on the tree view ---- *)
Lemma conv_list_id (f : schema -> option schema) ts :
  Forall (fun t => f t = Some t) ts -> conv_list f ts = Some ts.
Proof. induction 1 as [|t r Ht _ IH]; cbn [conv_list]; [reflexivity|]. rewrite Ht, IH. reflexivity. Qed.
Lemma conv_fields_id (f : schema -> option schema) fs :
  Forall (fun x => f (snd x) = Some (snd x)) fs -> conv_fields f fs = Some fs.
Proof.
  induction 1 as [|x r Hx _ IH]; cbn [conv_fields]; [reflexivity|]. rewrite Hx, IH. destruct x; reflexivity.
Qed.
Lemma conv_data_id (f : schema -> option schema) k fs :
  Forall (fun x => f (snd x) = Some (snd x)) fs ->
  conv_data_of conv_data conv_named_field f k fs = Some (k, fs).
Proof.
  intros H. unfold conv_data_of. rewrite (conv_fields_id f fs H). destruct k; reflexivity.
Qed.

Theorem to_owned_id : forall s, conv s = Some s.
Proof.
  unfold conv.
  induction s as [p|t IH|t IH|ts IH|k v IHk IHv|n k fs IH|n vs IH] using schema_ind'.
  - destruct p; reflexivity.
  - cbn [to_owned node_name]. change (row _ conv_dmt) with (Some (nm_option, nm_option, @nil (list N * list N))).
    cbv iota beta. rewrite IH. reflexivity.
  - cbn [to_owned node_name]. change (row _ conv_dmt) with (Some (nm_seq, nm_seq, @nil (list N * list N))).
    cbv iota beta. rewrite IH. reflexivity.
  - cbn [to_owned node_name]. change (row _ conv_dmt) with (Some (nm_tuple, nm_tuple, @nil (list N * list N))).
    cbv iota beta. change (list_N_eqb nm_tuple nm_tuple) with true. cbv iota.
    rewrite (conv_list_id _ ts IH). reflexivity.
  - cbn [to_owned node_name].
    change (row _ conv_dmt) with (Some (nm_map, nm_map, [(nm_key, nm_key); (nm_val, nm_val)])).
    cbv iota beta. change (list_N_eqb nm_map nm_map) with true. cbv iota.
    rewrite IHk, IHv. reflexivity.
  - cbn [to_owned node_name].
    change (row _ conv_dmt) with (Some (nm_struct, nm_struct, [(nm_name, nm_name); (nm_data, nm_data)])).
    cbv iota beta.
    change (list_N_eqb nm_struct nm_struct && same_field nm_name [(nm_name, nm_name); (nm_data, nm_data)]
            && same_field nm_data [(nm_name, nm_name); (nm_data, nm_data)]) with true. cbv iota.
    rewrite (conv_data_id _ k fs IH). reflexivity.
  - cbn [to_owned node_name].
    change (row _ conv_dmt) with (Some (nm_enum, nm_enum, [(nm_name, nm_name); (nm_variants, nm_variants)])).
    cbv iota beta.
    change (list_N_eqb nm_enum nm_enum && same_field nm_name [(nm_name, nm_name); (nm_variants, nm_variants)]
            && same_field nm_variants [(nm_name, nm_name); (nm_variants, nm_variants)]
            && same_field nm_name conv_variant && same_field nm_data conv_variant) with true. cbv iota.
    match goal with |- option_map _ (?g vs) = _ => assert (E : g vs = Some vs) end.
    { induction IH as [|v r Hv _ IHr]; [reflexivity|].
      rewrite (conv_data_id _ (snd (fst v)) (snd v) Hv), IHr. destruct v as [[a b] c]. reflexivity. }
    rewrite E. reflexivity.
Qed.

(* ---- the value a schema serialises as has the shape of the owned enum ---- *)
Lemma enum_value_eq decl kind named pos idx sh :
  index_of kind decl 0 = Some (idx, sh) ->
  enum_value decl kind named pos = VVariant idx (assemble sh named pos).
Proof. intros E. unfold enum_value. rewrite E. reflexivity. Qed.

Lemma has_type_variant idx p vs t :
  nth_error vs (N.to_nat idx) = Some t -> idx < 2 ^ 32 -> has_type p t = true ->
  has_type (VVariant idx p) (TEnum vs) = true.
Proof.
  intros Hn Hi Hp. cbn [has_type].
  assert (Hl : (N.to_nat idx < length vs)%nat) by (apply nth_error_Some; rewrite Hn; discriminate).
  replace (idx <? 2 ^ 32) with true by (symmetry; apply N.ltb_lt; assumption).
  replace (idx <? N.of_nat (length vs)) with true by (symmetry; apply N.ltb_lt; lia).
  cbn [andb]. clear Hi Hl. revert vs Hn. induction (N.to_nat idx) as [|i IH]; intros [|x r] Hn; try discriminate Hn.
  - injection Hn as ->. exact Hp.
  - apply IH. exact Hn.
Qed.

Lemma name_ok_str n : name_ok n = true -> has_type (VStr n) TStr = true.
Proof. intros H. exact H. Qed.

Lemma seq_has_type (f : schema -> value) (t : ty) ts :
  Forall (fun s => has_type (f s) t = true) ts -> N.of_nat (length ts) <? 2 ^ 64 = true ->
  has_type (VSeq (map f ts)) (TSeq t) = true.
Proof.
  intros H Hl. cbn [has_type]. rewrite map_length, Hl, andb_true_r.
  apply forallb_forall. intros x Hx. apply in_map_iff in Hx as (s & <- & Hs).
  rewrite Forall_forall in H. apply H. exact Hs.
Qed.

Lemma depth_tuple_lt ts d : (depth (STuple ts) < S d)%nat -> Forall (fun t => (depth t < d)%nat) ts.
Proof.
  cbn [depth]. intros H. apply Forall_forall. intros t Ht.
  assert (depth t <= fold_right (fun t m => Nat.max (depth t) m) 0%nat ts)%nat; [|lia].
  clear H. induction ts as [|a r IH]; [destruct Ht|]. cbn [fold_right]. destruct Ht as [->|Ht]; [lia|].
  specialize (IH Ht). lia.
Qed.
Lemma depth_fields_lt (fs : list (str * schema)) d :
  (fold_right (fun f m => Nat.max (depth (snd f)) m) 0%nat fs < d)%nat ->
  Forall (fun f => (depth (snd f) < d)%nat) fs.
Proof.
  intros H. apply Forall_forall. intros t Ht.
  assert (depth (snd t) <= fold_right (fun f m => Nat.max (depth (snd f)) m) 0%nat fs)%nat; [|lia].
  clear H. induction fs as [|a r IH]; [destruct Ht|]. cbn [fold_right]. destruct Ht as [->|Ht]; [lia|].
  specialize (IH Ht). lia.
Qed.

Definition odata_ty (d : nat) : ty := data_ty owned_data owned_named_field (oty d).
Definition onf_ty (d : nat) : ty := nf_ty owned_named_field (oty d).
Definition ovar_ty (d : nat) : ty := var_ty owned_data owned_named_field owned_variant (oty d).

Lemma oty_S d :
  oty (S d) = TEnum (map (fun r => shape_ty (fty_ty (oty d) (odata_ty d) (onf_ty d) (ovar_ty d)) (snd r)) owned_dmt).
Proof. reflexivity. Qed.

Definition Od := data_value owned_data owned_named_field.

Lemma data_has_type k (fs : list (str * schema)) d :
  Forall (fun f => name_ok (fst f) = true /\ has_type (O (snd f)) (oty d) = true) fs ->
  N.of_nat (length fs) <? 2 ^ 64 = true ->
  data_wf k fs = true ->
  has_type (Od k (map (fun f => (fst f, O (snd f))) fs)) (odata_ty d) = true.
Proof.
  intros HF Hl Hwf. unfold Od, data_value, odata_ty, data_ty.
  destruct k.
  - erewrite enum_value_eq by reflexivity. eapply has_type_variant; [reflexivity|reflexivity|]. reflexivity.
  - erewrite enum_value_eq by reflexivity. eapply has_type_variant; [reflexivity|reflexivity|].
    destruct fs as [|[n s] [|? ?]]; try discriminate Hwf.
    apply Forall_inv in HF. cbn [map snd fst assemble shape_ty fty_ty has_type] in *. apply HF.
  - erewrite enum_value_eq by reflexivity. eapply has_type_variant; [reflexivity|reflexivity|].
    cbn [assemble shape_ty fty_ty snd]. cbn [has_type]. rewrite !map_length, Hl, andb_true_r.
    apply forallb_forall. intros x Hx. rewrite map_map in Hx. apply in_map_iff in Hx as (f & <- & Hf).
    rewrite Forall_forall in HF. apply (HF f Hf).
  - erewrite enum_value_eq by reflexivity. eapply has_type_variant; [reflexivity|reflexivity|].
    cbn [assemble shape_ty fty_ty snd]. cbn [has_type]. rewrite !map_length, Hl, andb_true_r.
    apply forallb_forall. intros x Hx. rewrite map_map in Hx. apply in_map_iff in Hx as (f & <- & Hf).
    rewrite Forall_forall in HF. destruct (HF f Hf) as [Hn Ht].
    cbn [fst snd]. unfold struct_value, nf_ty.
    change (map _ owned_named_field) with [VStr (fst f); O (snd f)] at 1.
    change (map _ owned_named_field) with [TStr; oty d].
    cbn [has_type]. rewrite Ht, andb_true_r.
    change (has_type (VStr (fst f)) TStr = true). apply name_ok_str, Hn.
Qed.

Ltac foldO := change (sval owned_dmt owned_data owned_named_field owned_variant) with O in *;
              change (data_value owned_data owned_named_field) with Od in *.

Lemma fields_ok_forall (fs : list (str * schema)) d :
  Forall (fun f => forall d, schema_ok (snd f) = true -> schema_wf (snd f) = true -> (depth (snd f) < d)%nat ->
                             has_type (O (snd f)) (oty d) = true) fs ->
  fields_ok schema_ok fs = true -> forallb (fun f => schema_wf (snd f)) fs = true ->
  (fold_right (fun f m => Nat.max (depth (snd f)) m) 0%nat fs < d)%nat ->
  Forall (fun f => name_ok (fst f) = true /\ has_type (O (snd f)) (oty d) = true) fs /\
  N.of_nat (length fs) <? 2 ^ 64 = true.
Proof.
  intros IH Hok Hwf Hd. unfold fields_ok in Hok. apply andb_prop in Hok as [Hok Hl]. split; [|exact Hl].
  apply depth_fields_lt in Hd. rewrite forallb_forall in Hok, Hwf. rewrite Forall_forall in *.
  intros f Hf. specialize (Hok f Hf). apply andb_prop in Hok as [Hn Hs]. split; [exact Hn|].
  apply IH; auto.
Qed.

Theorem sval_has_type : forall s d,
  schema_ok s = true -> schema_wf s = true -> (depth s < d)%nat -> has_type (O s) (oty d) = true.
Proof.
  induction s as [p|t IH|t IH|ts IH|k v IHk IHv|n k fs IH|n vs IH] using schema_ind';
    intros d Hok Hwf Hd; (destruct d as [|d]; [inversion Hd|]); rewrite oty_S;
    unfold O; cbn [sval]; foldO.
  - destruct p; (erewrite enum_value_eq by reflexivity); (eapply has_type_variant; [reflexivity|reflexivity|reflexivity]).
  - erewrite enum_value_eq by reflexivity. eapply has_type_variant; [reflexivity|reflexivity|].
    cbn [assemble shape_ty fty_ty snd has_type]. apply IH; [exact Hok|exact Hwf|cbn [depth] in Hd; lia].
  - erewrite enum_value_eq by reflexivity. eapply has_type_variant; [reflexivity|reflexivity|].
    cbn [assemble shape_ty fty_ty snd has_type]. apply IH; [exact Hok|exact Hwf|cbn [depth] in Hd; lia].
  - erewrite enum_value_eq by reflexivity. eapply has_type_variant; [reflexivity|reflexivity|].
    cbn [assemble shape_ty fty_ty snd]. cbn [schema_ok schema_wf] in Hok, Hwf.
    apply andb_prop in Hok as [Hok Hl].
    change (has_type (VNewtype (VSeq (map O ts))) (TNewtype (TSeq (oty d))) = true). cbn [has_type].
    change (has_type (VSeq (map O ts)) (TSeq (oty d)) = true).
    apply seq_has_type; [|exact Hl]. apply depth_tuple_lt in Hd.
    rewrite forallb_forall in Hok, Hwf. rewrite Forall_forall in *. intros t Ht. apply IH; auto.
  - erewrite enum_value_eq by reflexivity. eapply has_type_variant; [reflexivity|reflexivity|].
    cbn [schema_ok schema_wf depth] in Hok, Hwf, Hd.
    apply andb_prop in Hok as [Hk Hv]. apply andb_prop in Hwf as [Wk Wv].
    change (has_type (VStruct [O k; O v]) (TStruct [oty d; oty d]) = true). cbn [has_type].
    rewrite IHk, IHv by (auto; lia). reflexivity.
  - erewrite enum_value_eq by reflexivity. eapply has_type_variant; [reflexivity|reflexivity|].
    cbn [schema_ok schema_wf depth] in Hok, Hwf, Hd.
    apply andb_prop in Hok as [Hn Hf]. apply andb_prop in Hwf as [Wd Wf].
    destruct (fields_ok_forall fs d IH Hf Wf ltac:(lia)) as [HF Hl].
    change (has_type (VStruct [VStr n; Od k (map (fun f => (fst f, O (snd f))) fs)]) (TStruct [TStr; odata_ty d]) = true).
    cbn [has_type]. rewrite (data_has_type k fs d HF Hl Wd), andb_true_r. apply name_ok_str, Hn.
  - erewrite enum_value_eq by reflexivity. eapply has_type_variant; [reflexivity|reflexivity|].
    cbn [schema_ok schema_wf depth] in Hok, Hwf, Hd.
    apply andb_prop in Hok as [Hok Hl]. apply andb_prop in Hok as [Hn Hvs].
    match goal with |- has_type (assemble _ [_; (_, VSeq ?l)] _) _ = true =>
      change (has_type (VStruct [VStr n; VSeq l]) (TStruct [TStr; TSeq (ovar_ty d)]) = true) end.
    cbn [has_type]. rewrite map_length, Hl, !andb_true_r.
    replace (bytes_okb n && utf8_valid n && (N.of_nat (length n) <? 2 ^ 64)) with true by (symmetry; exact Hn).
    cbn [andb]. apply forallb_forall. intros x Hx. apply in_map_iff in Hx as (v & <- & Hv).
    rewrite forallb_forall in Hvs, Hwf. rewrite Forall_forall in IH.
    specialize (Hvs v Hv). specialize (Hwf v Hv). specialize (IH v Hv).
    apply andb_prop in Hvs as [Hvn Hvf]. apply andb_prop in Hwf as [Wd Wf].
    assert (Hdv : (fold_right (fun f m => Nat.max (depth (snd f)) m) 0%nat (snd v) < d)%nat).
    { assert (forall l : list (str * dkind * list (str * schema)), In v l ->
                (fold_right (fun f m => Nat.max (depth (snd f)) m) 0%nat (snd v)
                 <= fold_right (fun v m => Nat.max (fold_right (fun f m => Nat.max (depth (snd f)) m) 0%nat (snd v)) m) 0%nat l)%nat) as X.
      { induction l as [|a r IHl]; intros Hin; [destruct Hin|]. cbn [fold_right]. destruct Hin as [->|Hin]; [lia|].
        specialize (IHl Hin). lia. }
      specialize (X vs Hv). lia. }
    destruct (fields_ok_forall (snd v) d IH Hvf Wf Hdv) as [HF Hlf].
    unfold struct_value, ovar_ty, var_ty.
    match goal with |- has_type (VStruct (map _ owned_variant)) _ = true =>
      change (has_type (VStruct [VStr (fst (fst v)); Od (snd (fst v)) (map (fun f => (fst f, O (snd f))) (snd v))])
                       (TStruct [TStr; odata_ty d]) = true) end.
    cbn [has_type]. rewrite (data_has_type _ _ d HF Hlf Wd), andb_true_r. apply name_ok_str, Hvn.
Qed.

(* ---- same bytes, and decoding them gives back the conversion ---- *)
Theorem owned_same_bytes s s' : conv s = Some s' -> enc (B s) = enc (O s').
Proof. rewrite to_owned_id. intros [= <-]. rewrite borrowed_is_owned. reflexivity. Qed.

Theorem owned_roundtrip s s' d rest :
  conv s = Some s' -> schema_ok s = true -> schema_wf s = true -> (depth s < d)%nat -> bytes_ok rest ->
  de_slice (oty d) (enc (B s) ++ rest) = Ok (O s', rest).
Proof.
  rewrite to_owned_id. intros [= <-] Hok Hwf Hd Hr. rewrite borrowed_is_owned.
  apply roundtrip; [apply sval_has_type; assumption|exact Hr].
Qed.

(* ---- the decoded value read back as a tree is the tree ---- *)
Definition rb_data := of_data owned_data owned_named_field read_back.

Lemma of_values_id ts : Forall (fun t => read_back (O t) = Some t) ts -> of_values read_back (map O ts) = Some ts.
Proof. induction 1 as [|t r Ht _ IH]; cbn [map of_values]; [reflexivity|]. rewrite Ht, IH. reflexivity. Qed.

Lemma rb_data_id k (fs : list (str * schema)) :
  Forall (fun f => read_back (O (snd f)) = Some (snd f)) fs -> data_wf k fs = true ->
  rb_data (Od k (map (fun f => (fst f, O (snd f))) fs)) = Some (k, fs).
Proof.
  intros HF Hwf. destruct k.
  - destruct fs; [reflexivity|discriminate Hwf].
  - destruct fs as [|[n s] [|? ?]]; try discriminate Hwf. destruct n; [|discriminate Hwf].
    apply Forall_inv in HF. cbn [snd fst map] in *.
    change (rb_data (Od DNewtype [([], O s)])) with (option_map (fun s => (DNewtype, [(@nil N, s)])) (read_back (O s))).
    rewrite HF. reflexivity.
  - change (rb_data (Od DTuple (map (fun f => (fst f, O (snd f))) fs)))
      with (option_map (fun l => (DTuple, unnamed l)) (of_values read_back (map snd (map (fun f : list N * schema => (fst f, O (snd f))) fs)))).
    rewrite map_map. cbn [snd]. rewrite <- (map_map snd O).
    rewrite of_values_id by (rewrite Forall_map; exact HF). cbn [option_map]. do 2 f_equal.
    cbn [data_wf] in Hwf. unfold unnamed. rewrite map_map.
    induction fs as [|[n s] r IH]; [reflexivity|]. cbn [forallb fst] in Hwf. destruct n; [|discriminate Hwf].
    cbn [map snd]. f_equal. apply IH; [apply Forall_inv_tail in HF; exact HF|exact Hwf].
  - change (rb_data (Od DStruct (map (fun f => (fst f, O (snd f))) fs)))
      with (option_map (fun l => (DStruct, l))
              (of_named_fields owned_named_field read_back
                 (map (fun f : list N * value => struct_value owned_named_field [(n_name, VStr (fst f)); (n_ty, snd f)])
                      (map (fun f : list N * schema => (fst f, O (snd f))) fs)))).
    rewrite map_map. cbn [fst snd].
    assert (E : of_named_fields owned_named_field read_back
                  (map (fun x : list N * schema => struct_value owned_named_field [(n_name, VStr (fst x)); (n_ty, O (snd x))]) fs)
                = Some fs).
    { clear Hwf. induction HF as [|f r Hf _ IH]; [reflexivity|]. cbn [map of_named_fields].
      change (of_named_field owned_named_field read_back (struct_value owned_named_field [(n_name, VStr (fst f)); (n_ty, O (snd f))]))
        with (option_map (fun s => (fst f, s)) (read_back (O (snd f)))).
      rewrite Hf, IH. destruct f; reflexivity. }
    rewrite E. reflexivity.
Qed.

Theorem read_back_sval : forall s, schema_wf s = true -> read_back (O s) = Some s.
Proof.
  induction s as [p|t IH|t IH|ts IH|k v IHk IHv|n k fs IH|n vs IH] using schema_ind'; intros Hwf.
  - destruct p; reflexivity.
  - change (read_back (O (SOption t))) with (option_map SOption (read_back (O t))). rewrite IH by exact Hwf. reflexivity.
  - change (read_back (O (SSeq t))) with (option_map SSeq (read_back (O t))). rewrite IH by exact Hwf. reflexivity.
  - change (read_back (O (STuple ts))) with (option_map STuple (of_values read_back (map O ts))).
    rewrite of_values_id; [reflexivity|]. cbn [schema_wf] in Hwf. rewrite forallb_forall in Hwf.
    rewrite Forall_forall in *. intros t Ht. apply IH; auto.
  - cbn [schema_wf] in Hwf. apply andb_prop in Hwf as [Wk Wv].
    change (read_back (O (SMap k v)))
      with (match read_back (O k), read_back (O v) with Some x, Some y => Some (SMap x y) | _, _ => None end).
    rewrite IHk, IHv by assumption. reflexivity.
  - cbn [schema_wf] in Hwf. apply andb_prop in Hwf as [Wd Wf].
    change (read_back (O (SStruct n k fs)))
      with (option_map (fun kd => SStruct n (fst kd) (snd kd)) (rb_data (Od k (map (fun f => (fst f, O (snd f))) fs)))).
    rewrite rb_data_id; [reflexivity| |exact Wd].
    rewrite forallb_forall in Wf. rewrite Forall_forall in *. intros f Hf. apply IH; auto.
  - cbn [schema_wf] in Hwf.
    change (read_back (O (SEnum n vs)))
      with (option_map (SEnum n)
              ((fix go (xs : list value) : option (list (list N * dkind * list (list N * schema))) :=
                  match xs with
                  | [] => Some []
                  | x :: r =>
                    match x with
                    | VStruct [c; d] =>
                      match c with
                      | VStr vn =>
                        match rb_data d, go r with
                        | Some kd, Some b => Some ((vn, fst kd, snd kd) :: b)
                        | _, _ => None
                        end
                      | _ => None
                      end
                    | _ => None
                    end
                  end)
                 (map (fun v : list N * dkind * list (list N * schema) =>
                         VStruct [VStr (fst (fst v)); Od (snd (fst v)) (map (fun f => (fst f, O (snd f))) (snd v))]) vs))).
    match goal with |- option_map _ (?g ?l) = _ => assert (E : g l = Some vs) end.
    { rewrite forallb_forall in Hwf.
      induction vs as [|v r IHr]; [reflexivity|]. cbn [map].
      pose proof (Hwf v (or_introl eq_refl)) as Hv. apply andb_prop in Hv as [Wd Wf].
      rewrite rb_data_id; [| |exact Wd].
      - rewrite IHr; [destruct v as [[a b] c]; reflexivity| |].
        + apply Forall_inv_tail in IH. exact IH.
        + intros x Hx. apply Hwf. right. exact Hx.
      - apply Forall_inv in IH. rewrite forallb_forall in Wf. rewrite Forall_forall in *. intros f Hf. apply IH; auto. }
    rewrite E. reflexivity.
Qed.

(* ---- every level of nesting costs at least one byte, so unfolding the owned enum
   length+1 levels loses nothing: the executable decoder schema_de is complete ---- *)
From PV Require Import WireFormat.
Definition slen (s : schema) : nat := length (spec_enc (O s)).

Lemma flat_map_len_ge {A} (f : A -> list byte) l x : In x l -> (length (f x) <= length (flat_map f l))%nat.
Proof.
  induction l as [|a r IH]; [intros []|]. cbn [flat_map]. rewrite app_length. intros [<-|H]; [lia|specialize (IH H); lia].
Qed.
Lemma fold_max_le (l : list nat) b : (forall x, In x l -> x <= b)%nat -> (fold_right Nat.max 0 l <= b)%nat.
Proof. induction l as [|a r IH]; intros H; cbn [fold_right]; [lia|]. apply Nat.max_lub; [apply H; left; reflexivity|apply IH; intros x Hx; apply H; right; exact Hx]. Qed.

Lemma varint_len_pos n : (1 <= length (spec_varint n))%nat.
Proof. rewrite VarintFacts.spec_varint_unfold. destruct (n <? 128); cbn [length]; lia. Qed.

Lemma O_option t : O (SOption t) = VVariant 18 (VNewtype (O t)). Proof. reflexivity. Qed.
Lemma O_seq t : O (SSeq t) = VVariant 20 (VNewtype (O t)). Proof. reflexivity. Qed.
Lemma O_tuple ts : O (STuple ts) = VVariant 21 (VNewtype (VSeq (map O ts))). Proof. reflexivity. Qed.
Lemma O_map k v : O (SMap k v) = VVariant 22 (VStruct [O k; O v]). Proof. reflexivity. Qed.
Lemma O_struct n k fs : O (SStruct n k fs) = VVariant 23 (VStruct [VStr n; Od k (map (fun f => (fst f, O (snd f))) fs)]).
Proof. reflexivity. Qed.
Lemma O_enum n vs :
  O (SEnum n vs) = VVariant 24 (VStruct [VStr n; VSeq (map (fun v : list N * dkind * list (list N * schema) =>
                     VStruct [VStr (fst (fst v)); Od (snd (fst v)) (map (fun f => (fst f, O (snd f))) (snd v))]) vs)]).
Proof. reflexivity. Qed.

Lemma data_len_ge k (fs : list (str * schema)) : data_wf k fs = true -> forall f, In f fs ->
  (slen (snd f) + 1 <= length (spec_enc (Od k (map (fun f => (fst f, O (snd f))) fs))))%nat.
Proof.
  intros Hwf f Hf. unfold slen. destruct k.
  - destruct fs; [destruct Hf|discriminate Hwf].
  - destruct fs as [|[n s] [|? ?]]; try discriminate Hwf. destruct Hf as [<-|[]].
    change (Od DNewtype (map (fun f => (fst f, O (snd f))) [(n, s)])) with (VVariant 1 (VNewtype (O s))).
    cbn [spec_enc snd]. rewrite app_length. pose proof (varint_len_pos 1). lia.
  - change (Od DTuple (map (fun f => (fst f, O (snd f))) fs))
      with (VVariant 2 (VNewtype (VSeq (map snd (map (fun f : list N * schema => (fst f, O (snd f))) fs))))).
    cbn [spec_enc]. rewrite !app_length. pose proof (varint_len_pos 2).
    assert (length (spec_enc (O (snd f))) <= length (flat_map spec_enc (map snd (map (fun f : list N * schema => (fst f, O (snd f))) fs))))%nat; [|lia].
    apply (flat_map_len_ge spec_enc _ (O (snd f))). rewrite map_map. cbn [snd]. apply (in_map (fun x => O (snd x))). exact Hf.
  - change (Od DStruct (map (fun f => (fst f, O (snd f))) fs))
      with (VVariant 3 (VNewtype (VSeq (map (fun f : list N * value => VStruct [VStr (fst f); snd f])
                                             (map (fun f : list N * schema => (fst f, O (snd f))) fs))))).
    cbn [spec_enc]. rewrite !app_length. pose proof (varint_len_pos 3). rewrite map_map. cbn [fst snd].
    assert (length (spec_enc (O (snd f))) <= length (flat_map spec_enc (map (fun x : list N * schema => VStruct [VStr (fst x); O (snd x)]) fs)))%nat; [|lia].
    eapply Nat.le_trans; [|apply (flat_map_len_ge spec_enc _ (VStruct [VStr (fst f); O (snd f)])); apply (in_map (fun x : list N * schema => VStruct [VStr (fst x); O (snd x)])); exact Hf].
    cbn [spec_enc flat_map]. rewrite !app_length. lia.
Qed.

Theorem depth_lt_len : forall s, schema_wf s = true -> (depth s + 1 <= slen s)%nat.
Proof.
  induction s as [p|t IH|t IH|ts IH|k v IHk IHv|n k fs IH|n vs IH] using schema_ind'; intros Hwf; unfold slen in *.
  - destruct p; vm_compute; lia.
  - rewrite O_option. cbn [spec_enc depth]. rewrite app_length. pose proof (varint_len_pos 18). specialize (IH Hwf). lia.
  - rewrite O_seq. cbn [spec_enc depth]. rewrite app_length. pose proof (varint_len_pos 20). specialize (IH Hwf). lia.
  - rewrite O_tuple. cbn [spec_enc depth]. rewrite !app_length. pose proof (varint_len_pos 21).
    pose proof (varint_len_pos (N.of_nat (length (map O ts)))) as Hp. unfold spec_len.
    cbn [schema_wf] in Hwf. rewrite forallb_forall in Hwf.
    assert (fold_right (fun t m => Nat.max (depth t) m) 0%nat ts <= length (flat_map spec_enc (map O ts)))%nat; [|lia].
    clear Hp H. rewrite Forall_forall in IH.
    assert (X : forall l : list schema, (forall t, In t l -> In t ts) ->
                (fold_right (fun t m => Nat.max (depth t) m) 0%nat l <= length (flat_map spec_enc (map O ts)))%nat).
    { induction l as [|a r IHl]; intros Hin; cbn [fold_right]; [lia|]. apply Nat.max_lub.
      - specialize (IH a (Hin a (or_introl eq_refl)) (Hwf a (Hin a (or_introl eq_refl)))).
        pose proof (flat_map_len_ge spec_enc (map O ts) (O a) (in_map O ts a (Hin a (or_introl eq_refl)))). lia.
      - apply IHl. intros t Ht. apply Hin. right. exact Ht. }
    apply X. auto.
  - rewrite O_map. cbn [spec_enc depth flat_map]. rewrite !app_length. pose proof (varint_len_pos 22).
    cbn [schema_wf] in Hwf. apply andb_prop in Hwf as [Wk Wv]. specialize (IHk Wk). specialize (IHv Wv). cbn [length]. lia.
  - rewrite O_struct. cbn [spec_enc depth flat_map]. rewrite !app_length. pose proof (varint_len_pos 23).
    pose proof (varint_len_pos (N.of_nat (length n))) as Hp. unfold spec_len. cbn [length].
    cbn [schema_wf] in Hwf. apply andb_prop in Hwf as [Wd Wf]. rewrite forallb_forall in Wf. rewrite Forall_forall in IH.
    assert (fold_right (fun f m => Nat.max (depth (snd f)) m) 0%nat fs
            <= length (spec_enc (Od k (map (fun f => (fst f, O (snd f))) fs))))%nat; [|lia].
    assert (X : forall l : list (list N * schema), (forall f, In f l -> In f fs) ->
                (fold_right (fun f m => Nat.max (depth (snd f)) m) 0%nat l
                 <= length (spec_enc (Od k (map (fun f => (fst f, O (snd f))) fs))))%nat).
    { induction l as [|a r IHl]; intros Hin; cbn [fold_right]; [lia|]. apply Nat.max_lub.
      - specialize (IH a (Hin a (or_introl eq_refl)) (Wf a (Hin a (or_introl eq_refl)))).
        pose proof (data_len_ge k fs Wd a (Hin a (or_introl eq_refl))). unfold slen in *. lia.
      - apply IHl. intros t Ht. apply Hin. right. exact Ht. }
    apply X. auto.
  - rewrite O_enum. cbn [spec_enc depth flat_map]. rewrite !app_length. pose proof (varint_len_pos 24).
    pose proof (varint_len_pos (N.of_nat (length n))) as Hp. unfold spec_len. cbn [length]. rewrite ?app_nil_r, ?app_length.
    cbn [schema_wf] in Hwf. rewrite forallb_forall in Hwf. rewrite Forall_forall in IH.
    match goal with |- context [length (flat_map spec_enc ?L)] =>
      assert (fold_right (fun (v : list N * dkind * list (list N * schema)) m =>
                            Nat.max (fold_right (fun f m0 => Nat.max (depth (snd f)) m0) 0%nat (snd v)) m) 0%nat vs
              <= length (flat_map spec_enc L))%nat; [|lia] end.
    assert (X : forall l : list (list N * dkind * list (list N * schema)), (forall v, In v l -> In v vs) ->
                (fold_right (fun v m => Nat.max (fold_right (fun f m => Nat.max (depth (snd f)) m) 0%nat (snd v)) m) 0%nat l
                 <= length (flat_map spec_enc (map (fun v : list N * dkind * list (list N * schema) =>
                       VStruct [VStr (fst (fst v)); Od (snd (fst v)) (map (fun f => (fst f, O (snd f))) (snd v))]) vs)))%nat).
    { induction l as [|a r IHl]; intros Hin; cbn [fold_right]; [lia|]. apply Nat.max_lub; [|apply IHl; intros t Ht; apply Hin; right; exact Ht].
      pose proof (Hin a (or_introl eq_refl)) as Ha. specialize (Hwf a Ha). apply andb_prop in Hwf as [Wd Wf]. rewrite forallb_forall in Wf.
      specialize (IH a Ha). rewrite Forall_forall in IH.
      eapply Nat.le_trans; [|apply (flat_map_len_ge spec_enc _ (VStruct [VStr (fst (fst a)); Od (snd (fst a)) (map (fun f => (fst f, O (snd f))) (snd a))]));
                              apply (in_map (fun v : list N * dkind * list (list N * schema) =>
                                               VStruct [VStr (fst (fst v)); Od (snd (fst v)) (map (fun f => (fst f, O (snd f))) (snd v))])); exact Ha].
      cbn [spec_enc flat_map]. rewrite ?app_nil_r, ?app_length.
      assert (Y : forall l' : list (list N * schema), (forall f, In f l' -> In f (snd a)) ->
                  (fold_right (fun f m => Nat.max (depth (snd f)) m) 0%nat l'
                   <= length (spec_enc (Od (snd (fst a)) (map (fun f => (fst f, O (snd f))) (snd a)))))%nat).
      { induction l' as [|b r' IHl']; intros Hin'; cbn [fold_right]; [lia|]. apply Nat.max_lub; [|apply IHl'; intros t Ht; apply Hin'; right; exact Ht].
        specialize (IH b (Hin' b (or_introl eq_refl)) (Wf b (Hin' b (or_introl eq_refl)))).
        pose proof (data_len_ge (snd (fst a)) (snd a) Wd b (Hin' b (or_introl eq_refl))). unfold slen in *. lia. }
      specialize (Y (snd a) (fun f H => H)). lia. }
    apply X. auto.
Qed.

Theorem schema_de_complete s rest :
  schema_ok s = true -> schema_wf s = true -> bytes_ok rest -> schema_de (enc (B s) ++ rest) = Ok (s, rest).
Proof.
  intros Hok Hwf Hr. unfold schema_de.
  assert (Hd : (depth s < S (length (enc (B s) ++ rest)))%nat).
  { pose proof (depth_lt_len s Hwf) as H. unfold slen in H. rewrite app_length, borrowed_is_owned.
    destruct (enc_is_spec_aux _ _ (sval_has_type s (S (depth s)) Hok Hwf (Nat.lt_succ_diag_r _))) as [_ E]. rewrite E. lia. }
  rewrite (owned_roundtrip s s _ rest (to_owned_id s) Hok Hwf Hd Hr). cbn [bind].
  rewrite (read_back_sval s Hwf). reflexivity.
Qed.
