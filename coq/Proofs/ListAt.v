(* ListAt.v: pointwise reasoning about buffers through the checked accessors read_at / write_at *)
From Coq Require Import Lia.
From PV Require Import Base BaseFacts.

Lemma read_at_Some {A} (l : list A) i : (i < length l)%nat -> exists x, read_at l i = Some x.
Proof.
  revert i; induction l as [|y l IH]; intros i H; [cbn in H; lia|].
  destruct i; [eexists; reflexivity|]. cbn [read_at]. apply IH. cbn in H. lia.
Qed.
Lemma read_at_None {A} (l : list A) i : (length l <= i)%nat -> read_at l i = None.
Proof.
  revert i; induction l as [|y l IH]; intros i H; [destruct i; reflexivity|].
  destruct i; [cbn in H; lia|]. cbn [read_at]. apply IH. cbn in H. lia.
Qed.
Lemma read_at_lt {A} (l : list A) i x : read_at l i = Some x -> (i < length l)%nat.
Proof.
  intro H. destruct (Nat.lt_ge_cases i (length l)) as [|Hge]; [assumption|].
  rewrite read_at_None in H by assumption. discriminate.
Qed.

Lemma write_at_spec {A} (l : list A) i x : (i < length l)%nat ->
  exists l', write_at l i x = Some l' /\ length l' = length l /\
             forall j, read_at l' j = if Nat.eqb j i then Some x else read_at l j.
Proof.
  revert i; induction l as [|y l IH]; intros i H; [cbn in H; lia|].
  destruct i as [|i]; cbn [write_at].
  - eexists. repeat split. intro j. destruct j; reflexivity.
  - destruct (IH i ltac:(cbn in H; lia)) as (l' & E & L & R). rewrite E.
    eexists. repeat split; [cbn; lia|]. intro j. destruct j as [|j]; [reflexivity|]. cbn [read_at]. rewrite R. reflexivity.
Qed.
Lemma write_at_None {A} (l : list A) i x : (length l <= i)%nat -> write_at l i x = None.
Proof.
  revert i; induction l as [|y l IH]; intros i H; [destruct i; reflexivity|].
  destruct i; [cbn in H; lia|]. cbn [write_at]. rewrite IH by (cbn in H; lia). reflexivity.
Qed.

Lemma list_ext {A} (a b : list A) :
  length a = length b -> (forall i, read_at a i = read_at b i) -> a = b.
Proof.
  revert b; induction a as [|x a IH]; intros [|y b] L R; try (cbn in L; lia); [reflexivity|].
  pose proof (R O) as R0. cbn in R0. inversion R0; subst. f_equal. apply IH; [cbn in L; lia|].
  intro i. apply (R (S i)).
Qed.

Lemma read_at_app {A} (a b : list A) i :
  read_at (a ++ b) i = if Nat.ltb i (length a) then read_at a i else read_at b (i - length a).
Proof.
  revert i; induction a as [|x a IH]; intro i; cbn [app length].
  - rewrite Nat.sub_0_r. reflexivity.
  - destruct i as [|i]; [reflexivity|]. cbn [read_at]. rewrite IH.
    destruct (Nat.ltb_spec i (length a)), (Nat.ltb_spec (S i) (S (length a))); try lia; reflexivity.
Qed.
Lemma read_at_firstn {A} (l : list A) n i :
  read_at (firstn n l) i = if Nat.ltb i n then read_at l i else None.
Proof.
  revert n i; induction l as [|x l IH]; intros n i.
  - rewrite firstn_nil. destruct (Nat.ltb i n); destruct i; reflexivity.
  - destruct n as [|n]; [destruct i; reflexivity|]. destruct i as [|i]; [reflexivity|].
    cbn [firstn read_at]. rewrite IH. destruct (Nat.ltb_spec i n), (Nat.ltb_spec (S i) (S n)); try lia; reflexivity.
Qed.
Lemma read_at_skipn' {A} (l : list A) n i : read_at (skipn n l) i = read_at l (n + i).
Proof.
  revert l; induction n as [|n IH]; intro l; [reflexivity|].
  destruct l as [|x l]; [destruct i; reflexivity|]. cbn [skipn Nat.add read_at]. apply IH.
Qed.
