(* FmtFacts.v: the schema inspection helpers are total and faithful (C19). *)
From PV Require Import Base DataModel Schema SchemaDecl GenFmt GenPanicArms SchemaFmt FmtOps SchemaConv.
From PV Require Import BaseFacts SchemaFacts.
From Coq Require Import Lia.
Open Scope N_scope.

Ltac eval_tables :=
  repeat match goal with
         | |- context [lit ?t ?k ?i] => let v := eval vm_compute in (lit t k i) in change (lit t k i) with v
         | |- context [panics_on ?t ?k] => let v := eval vm_compute in (panics_on t k) in change (panics_on t k) with v
         end.

(* ---- infix ---- *)
Definition infix (x l : list byte) : Prop := exists a b, l = a ++ x ++ b.
Lemma infix_here x a b : infix x (a ++ x ++ b).
Proof. exists a, b. reflexivity. Qed.
Lemma infix_app_l x l r : infix x l -> infix x (l ++ r).
Proof. intros (a & b & ->). exists a, (b ++ r). rewrite <- !app_assoc. reflexivity. Qed.
Lemma infix_app_r x l r : infix x r -> infix x (l ++ r).
Proof. intros (a & b & ->). exists (l ++ a), b. rewrite <- !app_assoc. reflexivity. Qed.
Lemma infix_trans x y l : infix x y -> infix y l -> infix x l.
Proof.
  intros (a & b & ->) (c & d & ->). exists (c ++ a), (b ++ d). rewrite <- !app_assoc. reflexivity.
Qed.
Lemma infix_prefix x r : infix x (x ++ r).
Proof. exists [], r. reflexivity. Qed.
Lemma infix_join sep p parts : In p parts -> infix p (join sep parts).
Proof.
  destruct parts as [|q r]; [intros []|]. cbn [join]. intros [->|Hin].
  - apply infix_prefix.
  - apply infix_app_r. induction r as [|y r IH]; [destruct Hin|]. cbn [flat_map].
    destruct Hin as [->|Hin].
    + apply infix_app_l, infix_app_r. exists [], []. rewrite app_nil_r. reflexivity.
    + apply infix_app_r, IH, Hin.
Qed.

(* ---- the formatter is total ---- *)
Definition renders (s : schema) : Prop := exists bs, pseudocode_nested s = Ok bs.

Lemma render_all_ok ts :
  Forall renders ts -> exists parts, render_all pseudocode_nested ts = Ok parts /\ length parts = length ts.
Proof.
  induction 1 as [|t r [x Hx] _ [parts [IH Hl]]]; [exists []; split; reflexivity|].
  cbn [render_all]. rewrite Hx, IH. cbn [bind]. eexists. split; [reflexivity|]. cbn [length]. rewrite Hl. reflexivity.
Qed.
Lemma render_named_ok sep (fs : list (str * schema)) :
  Forall (fun f => renders (snd f)) fs ->
  exists parts, render_named pseudocode_nested sep fs = Ok parts /\
                Forall2 (fun f p => exists x, p = fst f ++ sep ++ x) fs parts.
Proof.
  induction 1 as [|f r [x Hx] _ [parts [IH HF]]]; [exists []; split; [reflexivity|constructor]|].
  cbn [render_named]. rewrite Hx, IH. cbn [bind]. eexists. split; [reflexivity|]. constructor; [eexists; reflexivity|exact HF].
Qed.

(* what fmt_data appends: it mentions every field name of a named-field body *)
Lemma render_data_ok k (fs : list (str * schema)) :
  Forall (fun f => renders (snd f)) fs -> data_wf k fs = true ->
  exists d, render_data fmt_data_lits pseudocode_nested k fs = Ok d /\
            (k = DStruct -> forall f, In f fs -> infix (fst f) d).
Proof.
  intros HF Hwf. destruct k; unfold render_data.
  - exists []. split; [reflexivity|discriminate].
  - destruct fs as [|[n s] [|? ?]]; try discriminate Hwf. apply Forall_inv in HF. destruct HF as [x Hx].
    cbn [snd] in *. eval_tables. cbn [bind]. rewrite Hx. cbn [bind]. eexists. split; [reflexivity|discriminate].
  - eval_tables. cbn [bind].
    destruct (render_all_ok (map snd fs)) as [parts [E _]]; [rewrite Forall_map; exact HF|].
    rewrite E. cbn [bind]. eexists. split; [reflexivity|discriminate].
  - eval_tables. cbn [bind]. destruct fs as [|f r].
    + eexists. split; [reflexivity|]. intros _ f [].
    + pose proof (Forall_inv HF) as [x Hx]. apply Forall_inv_tail in HF.
      destruct (render_named_ok [58; 32] r HF) as [parts [E HF2]].
      rewrite Hx. cbn [bind]. rewrite E. cbn [bind]. eexists. split; [reflexivity|].
      intros _ g [<-|Hg].
      * apply infix_app_r, infix_app_l. eapply infix_trans; [|apply infix_join; left; reflexivity]. apply infix_prefix.
      * apply infix_app_r, infix_app_l.
        assert (exists p, In p parts /\ infix (fst g) p) as (p & Hp & Hi).
        { clear E HF Hwf. induction HF2 as [|a p r' ps [y Hy] _ IH]; [destruct Hg|]. destruct Hg as [<-|Hg].
          - exists p. split; [left; reflexivity|]. rewrite Hy. apply infix_prefix.
          - destruct (IH Hg) as (q & Hq & Hi). exists q. split; [right; exact Hq|exact Hi]. }
        eapply infix_trans; [exact Hi|]. apply infix_join. right. exact Hp.
Qed.

Theorem render_nested_total : forall s, schema_wf s = true -> renders s.
Proof.
  unfold renders.
  induction s as [p|t IH|t IH|ts IH|k v IHk IHv|n k fs IH|n vs IH] using schema_ind'; intros Hwf;
    unfold pseudocode_nested; cbn [render_in node_name].
  - destruct p; eexists; vm_compute; reflexivity.
  - destruct (IH Hwf) as [x Hx]. unfold pseudocode_nested in Hx. eval_tables. cbv iota. cbn [bind].
    rewrite Hx. cbn [bind]. eexists. reflexivity.
  - destruct (IH Hwf) as [x Hx]. unfold pseudocode_nested in Hx. eval_tables. cbv iota. cbn [bind].
    rewrite Hx. cbn [bind]. eexists. reflexivity.
  - cbn [schema_wf] in Hwf. rewrite forallb_forall in Hwf.
    assert (HF : Forall renders ts).
    { rewrite Forall_forall in *. intros t Ht. apply IH; auto. }
    eval_tables. cbv iota. destruct ts as [|first r]; [eexists; reflexivity|].
    destruct (forallb (schema_eqb first) (first :: r)).
    + destruct (Forall_inv HF) as [x Hx]. unfold pseudocode_nested in Hx. cbn [bind]. rewrite Hx. cbn [bind]. eexists. reflexivity.
    + destruct (render_all_ok (first :: r) HF) as [parts [E _]]. unfold pseudocode_nested in E. cbn [bind].
      rewrite E. cbn [bind]. eexists. reflexivity.
  - cbn [schema_wf] in Hwf. apply andb_prop in Hwf as [Wk Wv].
    destruct (IHk Wk) as [a Ha]. destruct (IHv Wv) as [b Hb]. unfold pseudocode_nested in Ha, Hb.
    eval_tables. cbv iota. cbn [bind]. rewrite Ha. cbn [bind]. rewrite Hb. cbn [bind]. eexists. reflexivity.
  - eval_tables. cbv iota. eexists. reflexivity.
  - eval_tables. cbv iota. eexists. reflexivity.
Qed.

Lemma wf_fields_render (fs : list (str * schema)) :
  forallb (fun f => schema_wf (snd f)) fs = true -> Forall (fun f => renders (snd f)) fs.
Proof.
  intros H. rewrite forallb_forall in H. apply Forall_forall. intros f Hf. apply render_nested_total, H, Hf.
Qed.

Lemma render_variants_ok sep (vs : list (str * dkind * list (str * schema))) :
  forallb (fun v => data_wf (snd (fst v)) (snd v) && forallb (fun f => schema_wf (snd f)) (snd v)) vs = true ->
  exists parts, render_variants fmt_lits fmt_data_lits panics_fmt sep vs = Ok parts /\
    Forall2 (fun v p => exists d, p = fst (fst v) ++ d /\
                                  (snd (fst v) = DStruct -> forall f, In f (snd v) -> infix (fst f) d)) vs parts.
Proof.
  intros H. induction vs as [|v r IH]; [exists []; split; [reflexivity|constructor]|].
  cbn [forallb] in H. apply andb_prop in H as [Hv Hr]. apply andb_prop in Hv as [Wd Wf].
  destruct (render_data_ok (snd (fst v)) (snd v) (wf_fields_render _ Wf) Wd) as [d [Ed Hd]].
  destruct (IH Hr) as [parts [E HF]]. unfold render_variants in *. unfold pseudocode_nested in Ed.
  rewrite Ed. cbn [bind]. rewrite E. cbn [bind]. eexists. split; [reflexivity|].
  constructor; [exists d; split; [reflexivity|exact Hd]|exact HF].
Qed.

(* to_pseudocode never panics and always produces text *)
Theorem render_total : forall s, schema_wf s = true -> exists bs, pseudocode s = Ok bs.
Proof.
  intros s Hwf. destruct s as [p|t|t|ts|k v|n k fs|n vs];
    try (exact (render_nested_total _ Hwf)); unfold pseudocode; cbn [render_top node_name].
  - cbn [schema_wf] in Hwf. apply andb_prop in Hwf as [Wd Wf].
    destruct (render_data_ok k fs (wf_fields_render _ Wf) Wd) as [d [Ed _]]. unfold pseudocode_nested in Ed.
    eval_tables. cbv iota. cbn [bind]. rewrite Ed. cbn [bind]. eexists. reflexivity.
  - cbn [schema_wf] in Hwf. destruct (render_variants_ok [44; 32] vs Hwf) as [parts [E _]].
    eval_tables. cbv iota. cbn [bind]. rewrite E. cbn [bind]. eexists. reflexivity.
Qed.

(* a top-level struct mentions its name and each field name *)
Theorem render_struct_mentions n k fs :
  schema_wf (SStruct n k fs) = true ->
  exists bs, pseudocode (SStruct n k fs) = Ok bs /\ infix n bs /\
             (k = DStruct -> forall f, In f fs -> infix (fst f) bs).
Proof.
  intros Hwf. cbn [schema_wf] in Hwf. apply andb_prop in Hwf as [Wd Wf].
  destruct (render_data_ok k fs (wf_fields_render _ Wf) Wd) as [d [Ed Hd]]. unfold pseudocode_nested in Ed.
  unfold pseudocode. cbn [render_top node_name]. eval_tables. cbv iota. cbn [bind]. rewrite Ed. cbn [bind].
  eexists. split; [reflexivity|]. split.
  - apply infix_here.
  - intros Hk f Hf. do 2 apply infix_app_r. apply Hd; assumption.
Qed.

(* a top-level enum mentions its name, each variant name and each field name of its variants *)
Theorem render_enum_mentions n vs :
  schema_wf (SEnum n vs) = true ->
  exists bs, pseudocode (SEnum n vs) = Ok bs /\ infix n bs /\
             (forall v, In v vs -> infix (fst (fst v)) bs /\
                        (snd (fst v) = DStruct -> forall f, In f (snd v) -> infix (fst f) bs)).
Proof.
  intros Hwf. cbn [schema_wf] in Hwf. destruct (render_variants_ok [44; 32] vs Hwf) as [parts [E HF]].
  unfold pseudocode. cbn [render_top node_name]. eval_tables. cbv iota. cbn [bind]. rewrite E. cbn [bind].
  eexists. split; [reflexivity|]. split; [apply infix_here|].
  intros v Hv.
  assert (exists p d, In p parts /\ p = fst (fst v) ++ d /\
                      (snd (fst v) = DStruct -> forall f, In f (snd v) -> infix (fst f) d)) as (p & d & Hp & -> & Hd).
  { clear E Hwf. induction HF as [|a p r ps (d & Hpd & Hd) _ IH]; [destruct Hv|]. destruct Hv as [<-|Hv].
    - exists p, d. split; [left; reflexivity|]. split; assumption.
    - destruct (IH Hv) as (q & d' & Hq & X). exists q, d'. split; [right; exact Hq|exact X]. }
  assert (Hin : infix (fst (fst v) ++ d) ([101; 110; 117; 109; 32] ++ n ++ [32; 123; 32] ++ join [44; 32] parts ++ [32; 125])).
  { do 3 apply infix_app_r. apply infix_app_l. apply infix_join. exact Hp. }
  split.
  - eapply infix_trans; [apply infix_prefix|exact Hin].
  - intros Hk f Hf. eapply infix_trans; [|exact Hin]. apply infix_app_r. apply Hd; assumption.
Qed.

(* ---- discovery: exactly the schema itself and everything nested inside it ---- *)
From PV Require Import SchemaNest.

Section DiscoverFacts.
  Variable panics : list (list N * bool).
  Let D := discover panics.
  Definition sound (t : schema) : Prop := forall l, D t = Ok l -> forall x, In x l <-> subschema x t.

  Lemma discover_list_spec ts l :
    Forall sound ts -> discover_list D ts = Ok l ->
    forall x, In x l <-> exists t, In t ts /\ subschema x t.
  Proof.
    intros HF. revert l. induction HF as [|t r Ht _ IH]; intros l E x; cbn [discover_list] in E.
    - injection E as <-. split; [intros []|intros (t & [] & _)].
    - destruct (D t) as [a| | | |] eqn:Ea; try discriminate E. cbn [bind] in E.
      destruct (discover_list D r) as [b| | | |] eqn:Eb; try discriminate E. cbn [bind] in E. injection E as <-.
      rewrite in_app_iff, (Ht a Ea x), (IH b eq_refl x). split.
      + intros [H|(t' & Hin & H)]; [exists t; split; [left; reflexivity|exact H]|exists t'; split; [right; exact Hin|exact H]].
      + intros (t' & [<-|Hin] & H); [left; exact H|right; exists t'; split; assumption].
  Qed.
  Lemma discover_fields_spec (fs : list (str * schema)) l :
    Forall (fun f => sound (snd f)) fs -> discover_fields D fs = Ok l ->
    forall x, In x l <-> exists f, In f fs /\ subschema x (snd f).
  Proof.
    intros HF. revert l. induction HF as [|t r Ht _ IH]; intros l E x; cbn [discover_fields] in E.
    - injection E as <-. split; [intros []|intros (t & [] & _)].
    - destruct (D (snd t)) as [a| | | |] eqn:Ea; try discriminate E. cbn [bind] in E.
      destruct (discover_fields D r) as [b| | | |] eqn:Eb; try discriminate E. cbn [bind] in E. injection E as <-.
      rewrite in_app_iff, (Ht a Ea x), (IH b eq_refl x). split.
      + intros [H|(t' & Hin & H)]; [exists t; split; [left; reflexivity|exact H]|exists t'; split; [right; exact Hin|exact H]].
      + intros (t' & [<-|Hin] & H); [left; exact H|right; exists t'; split; assumption].
  Qed.

  Theorem discover_spec : forall s, sound s.
  Proof.
    unfold sound.
    induction s as [p|t IH|t IH|ts IH|k v IHk IHv|n k fs IH|n vs IH] using schema_ind'; intros l E x;
      unfold D in E; cbn [discover] in E;
      match type of E with (if ?c then _ else _) = _ => destruct c; [discriminate E|] end;
      fold D in E.
    - injection E as <-. split; [intros [<-|[]]; constructor|intros H; inversion H; left; reflexivity].
    - destruct (D t) as [a| | | |] eqn:Ea; try discriminate E. cbn [bind] in E. injection E as <-.
      cbn [In]. rewrite (IH a eq_refl x). split.
      + intros [<-|H]; [apply sub_refl|apply sub_option, H].
      + intros H. inversion H; subst; [left; reflexivity|right; assumption].
    - destruct (D t) as [a| | | |] eqn:Ea; try discriminate E. cbn [bind] in E. injection E as <-.
      cbn [In]. rewrite (IH a eq_refl x). split.
      + intros [<-|H]; [apply sub_refl|apply sub_seq, H].
      + intros H. inversion H; subst; [left; reflexivity|right; assumption].
    - destruct (discover_list D ts) as [a| | | |] eqn:Ea; try discriminate E. cbn [bind] in E. injection E as <-.
      cbn [In]. rewrite (discover_list_spec ts a IH Ea x). split.
      + intros [<-|(t & Hin & H)]; [apply sub_refl|eapply sub_tuple; eassumption].
      + intros H. inversion H; subst; [left; reflexivity|right; eexists; split; eassumption].
    - destruct (D k) as [a| | | |] eqn:Ea; try discriminate E. cbn [bind] in E.
      destruct (D v) as [b| | | |] eqn:Eb; try discriminate E. cbn [bind] in E. injection E as <-.
      cbn [In]. rewrite in_app_iff, (IHk a eq_refl x), (IHv b eq_refl x). split.
      + intros [<-|[H|H]]; [apply sub_refl|apply sub_map_key, H|apply sub_map_val, H].
      + intros H. inversion H; subst; [left; reflexivity|right; left; assumption|right; right; assumption].
    - destruct (discover_fields D fs) as [a| | | |] eqn:Ea; try discriminate E. cbn [bind] in E. injection E as <-.
      cbn [In]. rewrite (discover_fields_spec fs a IH Ea x). split.
      + intros [<-|(f & Hin & H)]; [apply sub_refl|eapply sub_struct; eassumption].
      + intros H. inversion H; subst; [left; reflexivity|right; eexists; split; eassumption].
    - match type of E with (let* l := ?g vs in _) = _ => destruct (g vs) as [a| | | |] eqn:Ea; try discriminate E end.
      cbn [bind] in E. injection E as <-. cbn [In].
      assert (X : In x a <-> exists v f, In v vs /\ In f (snd v) /\ subschema x (snd f)).
      { clear n. revert a Ea. induction IH as [|v r Hv _ IHr]; intros a Ea.
        - injection Ea as <-. split; [intros []|intros (v & f & [] & _)].
        - destruct (discover_fields D (snd v)) as [b| | | |] eqn:Eb; try discriminate Ea. cbn [bind] in Ea.
          match type of Ea with (let* b := ?g r in _) = _ => destruct (g r) as [c| | | |] eqn:Ec; try discriminate Ea end.
          cbn [bind] in Ea. injection Ea as <-.
          rewrite in_app_iff, (discover_fields_spec (snd v) b Hv Eb x), (IHr c eq_refl). split.
          + intros [(f & Hf & H)|(v' & f & Hin & Hf & H)].
            * exists v, f. split; [left; reflexivity|split; assumption].
            * exists v', f. split; [right; exact Hin|split; assumption].
          + intros (v' & f & [<-|Hin] & Hf & H).
            * left. exists f. split; assumption.
            * right. exists v', f. split; [exact Hin|split; assumption]. }
      rewrite X. split.
      + intros [<-|(v & f & Hv & Hf & H)]; [apply sub_refl|eapply sub_enum; eassumption].
      + intros H. inversion H; subst; [left; reflexivity|right; do 2 eexists; split; [eassumption|split; eassumption]].
  Qed.

  (* no panicking arm: discovery always answers *)
  Hypothesis no_panic : forall s : schema, panics_on panics (node_name s) = false.
  Lemma discover_list_total ts : Forall (fun t => exists l, D t = Ok l) ts -> exists l, discover_list D ts = Ok l.
  Proof.
    induction 1 as [|t r [a Ha] _ [b Hb]]; [exists []; reflexivity|]. cbn [discover_list]. rewrite Ha, Hb. eexists. reflexivity.
  Qed.
  Lemma discover_fields_total (fs : list (str * schema)) :
    Forall (fun f => exists l, D (snd f) = Ok l) fs -> exists l, discover_fields D fs = Ok l.
  Proof.
    induction 1 as [|t r [a Ha] _ [b Hb]]; [exists []; reflexivity|]. cbn [discover_fields]. rewrite Ha, Hb. eexists. reflexivity.
  Qed.
  Theorem discover_total : forall s, exists l, D s = Ok l.
  Proof.
    induction s as [p|t IH|t IH|ts IH|k v IHk IHv|n k fs IH|n vs IH] using schema_ind';
      unfold D; cbn [discover]; rewrite no_panic; fold D.
    - eexists. reflexivity.
    - destruct IH as [a ->]. eexists. reflexivity.
    - destruct IH as [a ->]. eexists. reflexivity.
    - destruct (discover_list_total ts IH) as [a ->]. eexists. reflexivity.
    - destruct IHk as [a ->]. destruct IHv as [b ->]. eexists. reflexivity.
    - destruct (discover_fields_total fs IH) as [a ->]. eexists. reflexivity.
    - match goal with |- exists l, (let* l := ?g vs in _) = _ => assert (exists a, g vs = Ok a) as [a ->] end.
      { induction IH as [|v r Hv _ [c Hc]]; [exists []; reflexivity|].
        destruct (discover_fields_total (snd v) Hv) as [b ->]. rewrite Hc. eexists. reflexivity. }
      eexists. reflexivity.
  Qed.
End DiscoverFacts.

(* the arms of discover_tys as the translator read them: none panics *)
Lemma discover_no_panic_arm : forall s : schema, panics_on panics_discover (node_name s) = false.
Proof. intros s. destruct s as [p| | | | | |]; [destruct p|..]; reflexivity. Qed.
Lemma fmt_no_panic_arm : forall s : schema, panics_on panics_fmt (node_name s) = false.
Proof. intros s. destruct s as [p| | | | | |]; [destruct p|..]; reflexivity. Qed.

Theorem used_types_total : forall s, exists l, used_types s = Ok l.
Proof. exact (discover_total panics_discover discover_no_panic_arm). Qed.
Theorem used_types_spec : forall s l, used_types s = Ok l -> forall x, In x l <-> subschema x s.
Proof. exact (discover_spec panics_discover). Qed.
