(* AccFacts.v: C08 / C09.  The COBS accumulator: what one feed call does, in terms of the
   buffered bytes; totality; conservation of bytes; reset at every zero byte. *)
From Coq Require Import Lia ZifyBool ZifyNat ZifyN.
From PV Require Import Base MachineInt DataModel De Cobs CobsRef DeFlavors Accumulator
  BaseFacts ListAt CobsDecFacts CobsEntry.
Open Scope N_scope.

Definition acc_inv (st : acc_st) : Prop := (a_idx st <= length (a_buf st))%nat.
Definition cap_of (st : acc_st) : nat := length (a_buf st).
Definition buffered (st : acc_st) : list byte := firstn (a_idx st) (a_buf st).

Lemma buffered_length st : acc_inv st -> length (buffered st) = a_idx st.
Proof. intro H. apply firstn_length_le. exact H. Qed.

Definition remaining (r : feed_result) : list byte :=
  match r with Consumed => [] | OverFull w | DeserError w | Success _ w => w end.

(* ---- splitting at the first zero ---- *)
Lemma index_of_zero_spec l :
  match index_of_zero l with
  | Some n => (n < length l)%nat /\ read_at l n = Some 0 /\ Forall (fun b => b <> 0) (firstn n l)
  | None => Forall (fun b => b <> 0) l
  end.
Proof.
  induction l as [|b r IH]; cbn [index_of_zero]; [constructor|].
  destruct (N.eqb_spec b 0) as [->|Hb].
  - cbn. repeat split; [lia|constructor].
  - destruct (index_of_zero r) as [n|]; cbn [option_map].
    + destruct IH as (H1 & H2 & H3). cbn [length read_at firstn]. repeat split; [lia|assumption|constructor; assumption].
    + constructor; assumption.
Qed.

Lemma split_first_zero_spec l :
  match split_first_zero l with
  | Some (take, release) => l = take ++ release /\ exists seg, take = seg ++ [0] /\ Forall (fun b => b <> 0) seg
  | None => Forall (fun b => b <> 0) l
  end.
Proof.
  unfold split_first_zero. pose proof (index_of_zero_spec l) as H.
  destruct (index_of_zero l) as [n|]; [|exact H]. destruct H as (H1 & H2 & H3).
  split; [symmetry; apply firstn_skipn|]. exists (firstn n l). split; [|exact H3].
  apply list_ext.
  - rewrite app_length, !firstn_length_le by lia. cbn. lia.
  - intro i. rewrite read_at_app, !read_at_firstn, firstn_length_le by lia.
    destruct (Nat.ltb_spec i n), (Nat.ltb_spec i (S n)); try lia; try reflexivity.
    + assert (i = n) by lia. subst i. rewrite Nat.sub_diag. exact H2.
    + destruct (i - n)%nat as [|k] eqn:E; [lia|]. destruct k; reflexivity.
Qed.

(* ---- extend_unchecked ---- *)
Lemma extend_unchecked_spec st input :
  acc_inv st -> (a_idx st + length input <= cap_of st)%nat ->
  exists st1, extend_unchecked st input = Ok st1 /\ cap_of st1 = cap_of st /\
              a_idx st1 = (a_idx st + length input)%nat /\ buffered st1 = buffered st ++ input /\ acc_inv st1.
Proof.
  intros Hi Hfit. unfold extend_unchecked, cap_of in *.
  destruct (Nat.ltb_spec (length (a_buf st)) (a_idx st + length input)); [lia|].
  eexists. split; [reflexivity|]. unfold cap_of, buffered, acc_inv. cbn [a_buf a_idx].
  assert (L1 : length (firstn (a_idx st) (a_buf st)) = a_idx st) by (apply firstn_length_le; exact Hi).
  assert (LT : length (firstn (a_idx st) (a_buf st) ++ input ++ skipn (a_idx st + length input) (a_buf st)) = length (a_buf st)).
  { rewrite !app_length, L1, skipn_length. lia. }
  repeat split; try lia.
  rewrite app_assoc, firstn_app, app_length, L1, Nat.sub_diag. cbn [firstn]. rewrite app_nil_r.
  apply firstn_all2. rewrite app_length, L1. lia.
Qed.

(* the events a feed call can report *)
Inductive ev := EvOk (v : value) | EvErr | EvOver.
Definition dec_ev (t : ty) (window : list byte) : ev :=
  match cobs_then_plain t window with Ok (v, _) => EvOk v | _ => EvErr end.
Definition ev_of (r : feed_result) : option ev :=
  match r with Consumed => None | OverFull _ => Some EvOver | DeserError _ => Some EvErr | Success v _ => Some (EvOk v) end.

(* ---- one feed call, completely ---- *)
Theorem feed_spec t st input :
  acc_inv st ->
  exists st' r, feed t st input = Ok (st', r) /\ cap_of st' = cap_of st /\ acc_inv st' /\
    match input with
    | [] => r = Consumed /\ st' = st
    | _ =>
      match split_first_zero input with
      | Some (take, release) =>
        a_idx st' = 0%nat /\ remaining r = release /\
        (if Nat.leb (a_idx st + length take) (cap_of st)
         then ev_of r = Some (dec_ev t (buffered st ++ take))
         else r = OverFull release)
      | None =>
        if Nat.ltb (cap_of st) (a_idx st + length input)
        then r = OverFull (skipn (cap_of st - a_idx st) input) /\ a_idx st' = 0%nat
        else r = Consumed /\ buffered st' = buffered st ++ input
      end
    end.
Proof.
  intro Hi. unfold feed. fold (cap_of st).
  destruct input as [|b0 rest]; [exists st, Consumed; repeat split; assumption|].
  set (input := b0 :: rest). destruct (split_first_zero input) as [[take release]|] eqn:Es.
  - destruct (Nat.leb_spec (a_idx st + length take) (cap_of st)) as [Hfit|Hover].
    + destruct (extend_unchecked_spec st take Hi Hfit) as (st1 & -> & Hc & Hidx & Hb & Hi1). cbn [bind].
      destruct (Nat.ltb_spec (length (a_buf st1)) (a_idx st1)); [unfold acc_inv in Hi1; lia|].
      fold (buffered st1). rewrite Hb.
      pose proof (from_bytes_cobs_spec t (buffered st ++ take)) as HF.
      unfold dec_ev.
      destruct (from_bytes_cobs t (buffered st ++ take)) as [[v w']|e| | |];
        destruct (cobs_then_plain t (buffered st ++ take)) as [[v' r']|e'| | |]; try contradiction.
      * destruct HF as [-> HL]. eexists _, _. split; [reflexivity|]. unfold cap_of, acc_inv in *. cbn [a_buf a_idx].
        assert (length (w' ++ skipn (a_idx st1) (a_buf st1)) = length (a_buf st1)).
        { rewrite app_length, skipn_length, HL, <- Hb. unfold buffered. rewrite firstn_length_le by lia. lia. }
        repeat split; try lia; reflexivity.
      * eexists _, _. split; [reflexivity|]. unfold cap_of, acc_inv in *. cbn [a_buf a_idx].
        repeat split; try lia; reflexivity.
    + eexists _, _. split; [reflexivity|]. unfold cap_of, acc_inv in *. cbn [a_buf a_idx]. repeat split; try lia; reflexivity.
  - destruct (Nat.ltb_spec (cap_of st) (a_idx st + length input)) as [Hover|Hfit].
    + destruct (Nat.ltb_spec (cap_of st) (a_idx st)); [unfold acc_inv, cap_of in *; lia|].
      destruct (Nat.ltb_spec (length input) (cap_of st - a_idx st)); [lia|].
      eexists _, _. split; [reflexivity|]. unfold cap_of, acc_inv in *. cbn [a_buf a_idx]. repeat split; try lia; reflexivity.
    + destruct (extend_unchecked_spec st input Hi Hfit) as (st1 & -> & Hc & Hidx & Hb & Hi1). cbn [bind].
      eexists _, _. split; [reflexivity|]. repeat split; assumption.
Qed.

(* C09: never a panic, never an index outside the buffer, whatever is fed *)
Theorem feed_total t st input :
  acc_inv st -> benign (feed t st input) /\
  (forall st' r, feed t st input = Ok (st', r) -> acc_inv st' /\ cap_of st' = cap_of st).
Proof.
  intro Hi. destruct (feed_spec t st input Hi) as (st' & r & -> & Hc & Hi' & _).
  split; [exact I|]. intros st'' r' E. inversion E; subst. split; assumption.
Qed.

(* no byte is lost or duplicated: what a call returns as remainder is the tail of its chunk *)
Theorem feed_conserves t st input st' r :
  acc_inv st -> feed t st input = Ok (st', r) -> exists consumed, input = consumed ++ remaining r.
Proof.
  intros Hi E. destruct (feed_spec t st input Hi) as (st1 & r1 & E1 & _ & _ & H). rewrite E in E1. inversion E1; subst st1 r1.
  destruct input as [|b0 rest]; [destruct H as [-> _]; exists []; reflexivity|].
  pose proof (split_first_zero_spec (b0 :: rest)) as HS.
  destruct (split_first_zero (b0 :: rest)) as [[take release]|].
  - destruct H as (_ & -> & _). destruct HS as [-> _]. exists take. reflexivity.
  - destruct (Nat.ltb _ _).
    + destruct H as [-> _]. cbn [remaining]. eexists. symmetry. apply firstn_skipn.
    + destruct H as [-> _]. cbn [remaining]. exists (b0 :: rest). now rewrite app_nil_r.
Qed.

(* C09: after every zero byte the accumulator is back in its initial state *)
Theorem reset_after_zero t st input st' r :
  acc_inv st -> In 0 input -> feed t st input = Ok (st', r) ->
  a_idx st' = 0%nat /\ buffered st' = [] /\
  exists seg, Forall (fun b => b <> 0) seg /\ input = seg ++ [0] ++ remaining r.
Proof.
  intros Hi Hz E. destruct (feed_spec t st input Hi) as (st1 & r1 & E1 & _ & _ & H). rewrite E in E1. inversion E1; subst st1 r1.
  destruct input as [|b0 rest]; [contradiction|].
  pose proof (split_first_zero_spec (b0 :: rest)) as HS.
  destruct (split_first_zero (b0 :: rest)) as [[take release]|].
  - destruct H as (Hidx & Hr & _). destruct HS as (Hin & seg & -> & Hnz).
    split; [exact Hidx|]. split; [unfold buffered; rewrite Hidx; reflexivity|].
    exists seg. split; [exact Hnz|]. rewrite Hr, Hin, <- app_assoc. reflexivity.
  - exfalso. rewrite Forall_forall in HS. apply (HS 0 Hz). reflexivity.
Qed.

(* ---- the documented loop ---- *)
Fixpoint events_of (rs : list feed_result) : list ev :=
  match rs with
  | [] => []
  | r :: rs' => match ev_of r with Some e => e :: events_of rs' | None => events_of rs' end
  end.
Lemma events_of_app a b : events_of (a ++ b) = events_of a ++ events_of b.
Proof. induction a as [|r a IH]; [reflexivity|]. cbn [app events_of]. destruct (ev_of r); cbn [app]; now rewrite IH. Qed.

(* reference semantics on a stream in which everything fits: one event per zero byte *)
Fixpoint spec_run (fuel : nat) (t : ty) (b : list byte) (stream : list byte) : list ev * list byte :=
  match fuel with
  | O => ([], b ++ stream)
  | S f =>
    match split_first_zero stream with
    | None => ([], b ++ stream)
    | Some (take, release) => let '(evs, fin) := spec_run f t [] release in (dec_ev t (b ++ take) :: evs, fin)
    end
  end.
Fixpoint fits (fuel : nat) (cap : nat) (blen : nat) (stream : list byte) : Prop :=
  match fuel with
  | O => (blen + length stream <= cap)%nat
  | S f =>
    match split_first_zero stream with
    | None => (blen + length stream <= cap)%nat
    | Some (take, release) => (blen + length take <= cap)%nat /\ fits f cap 0 release
    end
  end.

Lemma split_release_shorter l take release : split_first_zero l = Some (take, release) -> (length release < length l)%nat.
Proof.
  intro E. pose proof (split_first_zero_spec l) as H. rewrite E in H. destruct H as (-> & seg & -> & _).
  rewrite !app_length. cbn. lia.
Qed.

Lemma spec_run_fuel t : forall f1 f2 b s, (length s <= f1)%nat -> (length s <= f2)%nat -> spec_run f1 t b s = spec_run f2 t b s.
Proof.
  induction f1 as [|f1 IHf]; intros f2 b s H1 H2.
  - destruct s; [destruct f2; reflexivity|cbn in H1; lia].
  - destruct f2 as [|f2]; [destruct s; [reflexivity|cbn in H2; lia]|]. cbn [spec_run].
    pose proof (split_release_shorter s) as Hs. destruct (split_first_zero s) as [[tk rl]|]; [|reflexivity].
    specialize (Hs tk rl eq_refl). rewrite (IHf f2 [] rl) by lia. reflexivity.
Qed.
Lemma fits_fuel : forall f1 f2 c bl s, (length s <= f1)%nat -> (length s <= f2)%nat -> fits f1 c bl s -> fits f2 c bl s.
Proof.
  induction f1 as [|f1 IHf]; intros f2 c bl s H1 H2 HF.
  - destruct s; [destruct f2; exact HF|cbn in H1; lia].
  - destruct f2 as [|f2]; [destruct s; [cbn in HF; exact HF|cbn in H2; lia]|].
    cbn [fits] in *. pose proof (split_release_shorter s) as Hs. destruct (split_first_zero s) as [[tk rl]|]; [|exact HF].
    specialize (Hs tk rl eq_refl). destruct HF as [F1 F2]. split; [exact F1|]. apply (IHf f2); try lia. exact F2.
Qed.
Definition spec (t : ty) (b stream : list byte) : list ev * list byte := spec_run (length stream) t b stream.
Definition fits_stream (cap blen : nat) (stream : list byte) : Prop := fits (length stream) cap blen stream.

(* C08 (one chunk): if everything fits, the loop reports exactly the reference events and
   ends with exactly the unterminated tail buffered *)
Theorem drive_fits t : forall fuel st w acc,
  acc_inv st -> (length w < fuel)%nat -> fits (length w) (cap_of st) (a_idx st) w ->
  exists st' rs, drive fuel t st w acc = Ok (st', rev acc ++ rs) /\
                 events_of rs = fst (spec_run (length w) t (buffered st) w) /\
                 buffered st' = snd (spec_run (length w) t (buffered st) w) /\
                 acc_inv st' /\ cap_of st' = cap_of st.
Proof.
  induction fuel as [|fuel IH]; intros st w acc Hi Hf Hfit; [lia|].
  destruct w as [|b0 rest].
  - cbn [drive length spec_run fst snd]. exists st, []. rewrite !app_nil_r. repeat split; try assumption.
  - cbn [drive].
    destruct (feed_spec t st (b0 :: rest) Hi) as (st1 & r & -> & Hc & Hi1 & H). cbn [bind]. cbv iota in H.
    set (w := b0 :: rest) in *.
    destruct (length w) as [|n] eqn:El; [discriminate|]. cbn [spec_run fits] in *.
    pose proof (split_release_shorter w) as Hsh.
    destruct (split_first_zero w) as [[take release]|] eqn:Es.
    + destruct H as (Hidx & Hr & Hev). destruct Hfit as [Hfit1 Hfit2].
      destruct (Nat.leb_spec (a_idx st + length take) (cap_of st)); [|lia].
      specialize (Hsh take release eq_refl).
      assert (Hn : forall f1 f2 b s, (length s <= f1)%nat -> (length s <= f2)%nat -> spec_run f1 t b s = spec_run f2 t b s).
      { clear. induction f1 as [|f1 IHf]; intros f2 b s H1 H2.
        - destruct s; [destruct f2; reflexivity|cbn in H1; lia].
        - destruct f2 as [|f2]; [destruct s; [reflexivity|cbn in H2; lia]|]. cbn [spec_run].
          pose proof (split_release_shorter s) as Hs. destruct (split_first_zero s) as [[tk rl]|]; [|reflexivity].
          specialize (Hs tk rl eq_refl). rewrite (IHf f2 [] rl) by lia. reflexivity. }
      assert (Hfn : forall f1 f2 c bl s, (length s <= f1)%nat -> (length s <= f2)%nat -> fits f1 c bl s -> fits f2 c bl s).
      { clear. induction f1 as [|f1 IHf]; intros f2 c bl s H1 H2 HF.
        - destruct s; [destruct f2; exact HF|cbn in H1; lia].
        - destruct f2 as [|f2]; [destruct s; [cbn in *; destruct (split_first_zero []); exact HF || (cbn in HF; exact HF)|cbn in H2; lia]|].
          cbn [fits] in *. pose proof (split_release_shorter s) as Hs. destruct (split_first_zero s) as [[tk rl]|]; [|exact HF].
          specialize (Hs tk rl eq_refl). destruct HF as [F1 F2]. split; [exact F1|]. apply (IHf f2); try lia. exact F2. }
      assert (Hb1 : buffered st1 = []) by (unfold buffered; rewrite Hidx; reflexivity).
      assert (Hrel : remaining r = release) by exact Hr.
      assert (Hstep : exists st' rs, drive fuel t st1 release (r :: acc) = Ok (st', rev (r :: acc) ++ rs) /\
                 events_of rs = fst (spec_run (length release) t [] release) /\
                 buffered st' = snd (spec_run (length release) t [] release) /\ acc_inv st' /\ cap_of st' = cap_of st1).
      { rewrite <- Hb1. apply IH; [assumption|lia|]. rewrite Hidx, Hc. apply (Hfn n); try lia. exact Hfit2. }
      destruct Hstep as (st' & rs & Ed & Ee & Eb & Hi' & Hc').
      rewrite (Hn n (length release) [] release) by lia.
      destruct (spec_run (length release) t [] release) as [evs fin] eqn:Esr. cbn [fst snd] in *.
      assert (Hdr : drive fuel t st1 (remaining r) (r :: acc) = Ok (st', rev acc ++ r :: rs)).
      { rewrite Hrel, Ed. cbn [rev]. rewrite <- app_assoc. reflexivity. }
      exists st', (r :: rs).
      assert (Hevr : ev_of r = Some (dec_ev t (buffered st ++ take))) by exact Hev.
      destruct r as [|rem|rem|v rem]; cbn [ev_of] in Hevr; try discriminate; cbn [remaining] in Hdr;
        (split; [exact Hdr|]); cbn [events_of ev_of]; inversion Hevr; subst;
        repeat split; try assumption; try congruence.
    + destruct (Nat.ltb_spec (cap_of st) (a_idx st + S n)); [lia|].
      destruct H as [-> Hb]. exists st1, [Consumed]. cbn [rev events_of ev_of fst snd].
      repeat split; try assumption.
Qed.

(* ---- chunks compose: the reference semantics is byte-stream compositional ---- *)
Lemma split_first_zero_app_some a b take release :
  split_first_zero a = Some (take, release) -> split_first_zero (a ++ b) = Some (take, release ++ b).
Proof.
  unfold split_first_zero. intro H.
  assert (G : forall l n, index_of_zero l = Some n -> index_of_zero (l ++ b) = Some n /\ (n < length l)%nat).
  { induction l as [|x l IH]; intros n E; [discriminate|]. cbn [index_of_zero app] in *.
    destruct (x =? 0); [inversion E; split; [reflexivity|cbn; lia]|].
    destruct (index_of_zero l) as [m|]; [|discriminate]. cbn [option_map] in E. inversion E; subst.
    destruct (IH m eq_refl) as [-> Hm]. cbn. split; [reflexivity|lia]. }
  destruct (index_of_zero a) as [n|] eqn:E; [|discriminate]. destruct (G a n E) as [-> Hn].
  inversion H; subst. f_equal. f_equal.
  - rewrite firstn_app. replace (S n - length a)%nat with O by lia. cbn [firstn]. now rewrite app_nil_r.
  - rewrite skipn_app. replace (S n - length a)%nat with O by lia. reflexivity.
Qed.
Lemma split_first_zero_app_none a b :
  split_first_zero a = None ->
  split_first_zero (a ++ b) = match split_first_zero b with Some (take, release) => Some (a ++ take, release) | None => None end.
Proof.
  unfold split_first_zero. intro H.
  assert (Ha : index_of_zero a = None) by (destruct (index_of_zero a); [discriminate|reflexivity]).
  assert (G : forall l, index_of_zero l = None -> index_of_zero (l ++ b) = option_map (fun n => (length l + n)%nat) (index_of_zero b)).
  { induction l as [|x l IH]; intro E; [cbn; destruct (index_of_zero b); reflexivity|]. cbn [index_of_zero app] in *.
    destruct (x =? 0); [discriminate|]. destruct (index_of_zero l) as [m|] eqn:El; [discriminate|].
    rewrite (IH eq_refl). destruct (index_of_zero b); reflexivity. }
  rewrite (G a Ha). destruct (index_of_zero b) as [n|]; cbn [option_map]; [|reflexivity].
  f_equal. f_equal.
  - replace (S (length a + n)) with (length a + S n)%nat by lia. rewrite firstn_app_2. reflexivity.
  - replace (S (length a + n)) with (length a + S n)%nat by lia. rewrite skipn_app, skipn_all2 by lia.
    replace (length a + S n - length a)%nat with (S n) by lia. reflexivity.
Qed.

Lemma spec_app t : forall n a, (length a <= n)%nat -> forall b c,
  spec t b (a ++ c) = let '(e1, b1) := spec t b a in let '(e2, b2) := spec t b1 c in (e1 ++ e2, b2).
Proof.
  unfold spec. induction n as [|n IH]; intros a Ha b c.
  - destruct a; [|cbn in Ha; lia]. cbn [app length spec_run]. rewrite app_nil_r.
    destruct (spec_run (length c) t b c). reflexivity.
  - destruct (split_first_zero a) as [[take release]|] eqn:Es.
    + pose proof (split_release_shorter a take release Es) as Hsh.
      destruct (length (a ++ c)) as [|m] eqn:El; [rewrite app_length in El; lia|].
      destruct (length a) as [|k] eqn:Ela; [lia|]. cbn [spec_run].
      rewrite (split_first_zero_app_some a c take release Es), Es.
      rewrite (spec_run_fuel t m (length (release ++ c)) [] (release ++ c)) by (rewrite app_length in *; lia).
      rewrite (spec_run_fuel t k (length release) [] release) by lia.
      rewrite (IH release ltac:(lia) [] c).
      destruct (spec_run (length release) t [] release) as [e1 b1].
      destruct (spec_run (length c) t b1 c) as [e2 b2]. reflexivity.
    + assert (Ea : spec_run (length a) t b a = ([], b ++ a)).
      { destruct (length a); cbn [spec_run]; [reflexivity|]. rewrite Es. reflexivity. }
      rewrite Ea.
      destruct (length (a ++ c)) as [|m] eqn:El.
      * destruct a, c; cbn in El; try lia. cbn. rewrite !app_nil_r. reflexivity.
      * cbn [spec_run]. rewrite (split_first_zero_app_none a c Es).
        destruct (length c) as [|k] eqn:Elc.
        -- destruct c; [|discriminate]. cbn. rewrite !app_nil_r. reflexivity.
        -- cbn [spec_run]. pose proof (split_release_shorter c) as Hsh.
           destruct (split_first_zero c) as [[take release]|]; [|rewrite app_assoc; reflexivity].
           specialize (Hsh take release eq_refl).
           rewrite (spec_run_fuel t m k [] release) by (rewrite app_length in El; lia).
           rewrite app_assoc. destruct (spec_run k t [] release). reflexivity.
Qed.

Lemma spec_buffered_length t : forall n s, (length s <= n)%nat -> forall cap b,
  fits_stream cap (length b) s -> (length (snd (spec t b s)) <= cap)%nat.
Proof.
  unfold spec, fits_stream. induction n as [|n IH]; intros s Hs cap b HF.
  - destruct s; [|cbn in Hs; lia]. cbn in *. rewrite app_nil_r. lia.
  - destruct (length s) as [|k] eqn:El.
    + destruct s; [|discriminate]. cbn in *. rewrite app_nil_r. lia.
    + cbn [spec_run fits] in *. pose proof (split_release_shorter s) as Hsh.
      destruct (split_first_zero s) as [[take release]|].
      * specialize (Hsh take release eq_refl). destruct HF as [_ F2].
        rewrite (spec_run_fuel t k (length release) [] release) by lia.
        specialize (IH release ltac:(lia) cap []). cbn [length] in IH.
        destruct (spec_run (length release) t [] release) as [e fin]. cbn [snd] in *. apply IH.
        apply (fits_fuel k); try lia. exact F2.
      * cbn [snd]. rewrite app_length, El. lia.
Qed.

Lemma fits_app t : forall n a, (length a <= n)%nat -> forall cap b c,
  fits_stream cap (length b) (a ++ c) ->
  fits_stream cap (length b) a /\ fits_stream cap (length (snd (spec t b a))) c.
Proof.
  unfold fits_stream, spec. induction n as [|n IH]; intros a Ha cap b c HF.
  - destruct a; [|cbn in Ha; lia]. cbn [app length spec_run snd fits] in *. rewrite app_nil_r.
    split; [|exact HF]. assert (length c >= 0)%nat by lia.
    destruct (length c) as [|k] eqn:E; cbn [fits] in HF; [lia|].
    destruct (split_first_zero c) as [[tk rl]|]; [destruct HF; lia|lia].
  - destruct (split_first_zero a) as [[take release]|] eqn:Es.
    + pose proof (split_release_shorter a take release Es) as Hsh.
      destruct (length (a ++ c)) as [|m] eqn:El; [rewrite app_length in El; lia|].
      destruct (length a) as [|k] eqn:Ela; [lia|]. cbn [spec_run fits] in *.
      rewrite (split_first_zero_app_some a c take release Es) in HF. rewrite Es. destruct HF as [F1 F2].
      assert (F2' : fits (length (release ++ c)) cap (length (@nil byte)) (release ++ c)).
      { apply (fits_fuel m); try (rewrite app_length in *; lia). exact F2. }
      destruct (IH release ltac:(lia) cap [] c F2') as [G1 G2].
      rewrite (spec_run_fuel t k (length release) [] release) by lia.
      destruct (spec_run (length release) t [] release) as [e1 b1]. cbn [snd] in *.
      split; [split; [exact F1|apply (fits_fuel (length release)); try lia; exact G1]|exact G2].
    + assert (Ea : spec_run (length a) t b a = ([], b ++ a)).
      { destruct (length a); cbn [spec_run]; [reflexivity|]. rewrite Es. reflexivity. }
      rewrite Ea. cbn [snd]. rewrite app_length.
      destruct (length (a ++ c)) as [|m] eqn:El.
      * destruct a, c; cbn in El; try lia. cbn in *. split; lia.
      * cbn [fits] in HF. rewrite (split_first_zero_app_none a c Es) in HF.
        destruct (length c) as [|k] eqn:Elc.
        -- destruct c; [|discriminate]. cbn [split_first_zero index_of_zero] in HF. rewrite ?app_nil_r, ?app_length in *.
           cbn [fits length]. split; [|lia]. destruct (length a) as [|j] eqn:Ej; cbn [fits]; [lia|rewrite Es, ?Ej; lia].
        -- cbn [fits]. pose proof (split_release_shorter c) as Hsh.
           destruct (split_first_zero c) as [[take release]|].
           ++ specialize (Hsh take release eq_refl). destruct HF as [F1 F2]. rewrite app_length in F1.
              split; [destruct (length a) as [|j] eqn:Ej; cbn [fits]; [lia|rewrite Es, ?Ej; lia]|].
              split; [lia|]. apply (fits_fuel m); try (rewrite app_length in El; lia). exact F2.
           ++ rewrite app_length in HF. split; [destruct (length a) as [|j] eqn:Ej; cbn [fits]; [lia|rewrite Es, ?Ej; lia]|lia].
Qed.

(* C08: for every way of cutting the stream into feed calls *)
Theorem exactly_once t : forall chunks st,
  acc_inv st -> fits_stream (cap_of st) (a_idx st) (concat chunks) ->
  exists st' rs, drive_all t st chunks = Ok (st', rs) /\
                 events_of rs = fst (spec t (buffered st) (concat chunks)) /\
                 buffered st' = snd (spec t (buffered st) (concat chunks)) /\
                 acc_inv st' /\ cap_of st' = cap_of st.
Proof.
  induction chunks as [|c cs IH]; intros st Hi HF.
  - exists st, []. cbn. unfold spec. cbn. rewrite app_nil_r. repeat split; assumption.
  - cbn [concat drive_all] in *. rewrite <- (buffered_length st Hi) in HF.
    destruct (fits_app t (length c) c (le_n _) (cap_of st) (buffered st) (concat cs) HF) as [F1 F2].
    rewrite (buffered_length st Hi) in F1.
    unfold drive_chunk.
    destruct (drive_fits t (2 * length c + 2) st c [] Hi ltac:(lia) F1) as (st1 & r1 & -> & E1 & B1 & Hi1 & C1).
    cbn [bind rev app].
    assert (F2' : fits_stream (cap_of st1) (a_idx st1) (concat cs)).
    { rewrite C1, <- (buffered_length st1 Hi1), B1. exact F2. }
    destruct (IH st1 Hi1 F2') as (st2 & r2 & -> & E2 & B2 & Hi2 & C2). cbn [bind].
    exists st2, (r1 ++ r2). split; [reflexivity|].
    rewrite (spec_app t (length c) c (le_n _) (buffered st) (concat cs)).
    fold (spec t (buffered st) c) in E1, B1.
    destruct (spec t (buffered st) c) as [e1 b1]. cbn [fst snd] in *. rewrite B1 in E2, B2.
    destruct (spec t b1 (concat cs)) as [e2 b2]. cbn [fst snd] in *.
    rewrite events_of_app, E1, E2. repeat split; try assumption; congruence.
Qed.

(* ---- the reference semantics on a stream of zero-terminated segments ---- *)
Definition nonzero (l : list byte) : Prop := Forall (fun b => b <> 0) l.

Lemma index_of_zero_nonzero l : nonzero l -> index_of_zero l = None.
Proof.
  induction 1 as [|b l Hb Hl IH]; [reflexivity|]. cbn [index_of_zero].
  destruct (N.eqb_spec b 0); [contradiction|]. rewrite IH. reflexivity.
Qed.
Lemma split_nonzero l : nonzero l -> split_first_zero l = None.
Proof. intro H. unfold split_first_zero. rewrite index_of_zero_nonzero by assumption. reflexivity. Qed.
Lemma split_segment s rest : nonzero s -> split_first_zero (s ++ [0] ++ rest) = Some (s ++ [0], rest).
Proof.
  intro H. rewrite app_assoc.
  assert (E : split_first_zero (s ++ [0]) = Some (s ++ [0], [])).
  { rewrite (split_first_zero_app_none s [0] (split_nonzero s H)). reflexivity. }
  exact (split_first_zero_app_some _ rest _ _ E).
Qed.

Definition frames (segs : list (list byte)) (tail : list byte) : list byte :=
  concat (map (fun s => s ++ [0]) segs) ++ tail.

Theorem spec_frames t segs tail :
  Forall nonzero segs -> nonzero tail ->
  spec t [] (frames segs tail) = (map (fun s => dec_ev t (s ++ [0])) segs, tail).
Proof.
  intros Hs Ht. unfold spec, frames. induction Hs as [|s segs Hs1 Hs2 IH]; cbn [map concat app].
  - destruct (length tail); cbn [spec_run]; [reflexivity|]. rewrite split_nonzero by assumption. reflexivity.
  - rewrite <- !app_assoc.
    match goal with |- context [spec_run (length (s ++ ?z ++ ?r))] => set (rest := r) in * end.
    match goal with |- context [spec_run (length ?l)] => destruct (length l) as [|k] eqn:El end;
      [rewrite !app_length in El; cbn in El; lia|].
    cbn [spec_run]. rewrite (split_segment s rest Hs1).
    rewrite (spec_run_fuel t k (length rest) [] rest) by (rewrite !app_length in El; cbn in El; lia).
    rewrite IH. reflexivity.
Qed.

Theorem fits_frames cap segs tail :
  Forall nonzero segs -> nonzero tail ->
  Forall (fun s => (length s + 1 <= cap)%nat) segs -> (length tail <= cap)%nat ->
  fits_stream cap 0 (frames segs tail).
Proof.
  intros Hs Ht Hl Hlt. unfold fits_stream, frames. induction Hs as [|s segs Hs1 Hs2 IH]; cbn [map concat app].
  - destruct (length tail) eqn:E; cbn [fits]; [lia|]. rewrite split_nonzero by assumption. lia.
  - apply Forall_cons_iff in Hl as [Hl1 Hl2]. rewrite <- !app_assoc.
    match goal with |- fits (length (s ++ ?z ++ ?r)) _ _ _ => set (rest := r) in * end.
    match goal with |- fits (length ?l) _ _ _ => destruct (length l) as [|k] eqn:El end;
      [rewrite !app_length in El; cbn in El; lia|].
    cbn [fits]. rewrite (split_segment s rest Hs1). split; [rewrite app_length; cbn; lia|].
    apply (fits_fuel (length rest)); try (rewrite !app_length in El; cbn in El; lia).
    apply IH. exact Hl2.
Qed.

(* ---- C09: the documented loop always makes progress and terminates (capacity >= 1) ---- *)
Theorem drive_terminates t : forall fuel st w acc,
  acc_inv st -> (1 <= cap_of st)%nat ->
  (2 * length w + (if Nat.eqb (a_idx st) 0 then 0 else 1) < fuel)%nat ->
  exists st' rs, drive fuel t st w acc = Ok (st', rev acc ++ rs) /\ acc_inv st' /\ cap_of st' = cap_of st.
Proof.
  induction fuel as [|fuel IH]; intros st w acc Hi Hcap Hm; [lia|].
  destruct w as [|b0 rest].
  - exists st, []. cbn [drive]. rewrite app_nil_r. repeat split; assumption.
  - cbn [drive]. destruct (feed_spec t st (b0 :: rest) Hi) as (st1 & r & -> & Hc & Hi1 & H). cbn [bind]. cbv iota in H.
    set (w := b0 :: rest) in *.
    pose proof (split_release_shorter w) as Hsh.
    assert (Hgo : forall rem, remaining r = rem -> ev_of r <> None -> a_idx st1 = 0%nat ->
                  (2 * length rem < fuel)%nat ->
                  exists st' rs, drive fuel t st1 rem (r :: acc) = Ok (st', rev acc ++ rs) /\ acc_inv st' /\ cap_of st' = cap_of st).
    { intros rem Hr _ Hidx Hlen.
      destruct (IH st1 rem (r :: acc) Hi1 ltac:(lia) ltac:(rewrite Hidx; cbn; lia)) as (st' & rs & Ed & Hi' & Hc').
      exists st', (r :: rs). rewrite Ed. cbn [rev]. rewrite <- app_assoc. repeat split; [assumption|congruence]. }
    destruct (split_first_zero w) as [[take release]|] eqn:Es.
    + destruct H as (Hidx & Hr & Hev). specialize (Hsh take release eq_refl).
      assert (Hnc : ev_of r <> None).
      { destruct (Nat.leb _ _); [rewrite Hev; discriminate|subst r; discriminate]. }
      destruct (Hgo release Hr Hnc Hidx ltac:(cbn [length] in *; lia)) as (st' & rs & Ed & Hi' & Hc').
      destruct r as [|rem|rem|v rem]; cbn [remaining] in Hr; try (exfalso; apply Hnc; reflexivity); subst rem;
        exists st', rs; repeat split; assumption.
    + destruct (Nat.ltb_spec (cap_of st) (a_idx st + length w)) as [Hover|Hfit].
      * destruct H as [-> Hidx].
        assert (Hlen : (2 * length (skipn (cap_of st - a_idx st) w) < fuel)%nat).
        { rewrite skipn_length. unfold acc_inv, cap_of in *. destruct (Nat.eqb_spec (a_idx st) 0); cbn [length] in *; lia. }
        destruct (Hgo _ eq_refl ltac:(discriminate) Hidx Hlen) as (st' & rs & Ed & Hi' & Hc').
        exists st', rs. repeat split; assumption.
      * destruct H as [-> Hb]. exists st1, [Consumed]. repeat split; assumption.
Qed.

Corollary drive_chunk_total t st chunk :
  acc_inv st -> (1 <= cap_of st)%nat ->
  exists st' rs, drive_chunk t st chunk = Ok (st', rs) /\ acc_inv st' /\ cap_of st' = cap_of st.
Proof.
  intros Hi Hc. unfold drive_chunk.
  destruct (drive_terminates t (2 * length chunk + 2) st chunk [] Hi Hc) as (st' & rs & E & H).
  { destruct (Nat.eqb (a_idx st) 0); lia. }
  exists st', rs. split; [exact E|exact H].
Qed.

(* with capacity 0 the documented loop does not make progress: why the property says
   "for every capacity of at least one byte" *)
Example drive_capacity_zero_stalls :
  feed TUnit (acc_new 0) [1] = Ok (acc_new 0, OverFull [1]) /\ drive_chunk TUnit (acc_new 0) [1] = OutOfFuel.
Proof. split; vm_compute; reflexivity. Qed.

(* ---- C09: an over-long segment is reported as overflow ---- *)
Lemma drive_all_total t : forall chunks st,
  acc_inv st -> (1 <= cap_of st)%nat ->
  exists st' rs, drive_all t st chunks = Ok (st', rs) /\ acc_inv st' /\ cap_of st' = cap_of st.
Proof.
  induction chunks as [|c cs IH]; intros st Hi Hc; [exists st, []; repeat split; assumption|].
  cbn [drive_all]. destruct (drive_chunk_total t st c Hi Hc) as (st1 & r1 & -> & Hi1 & Hc1). cbn [bind].
  destruct (IH st1 Hi1 ltac:(lia)) as (st2 & r2 & -> & Hi2 & Hc2). cbn [bind].
  exists st2, (r1 ++ r2). repeat split; [assumption|congruence].
Qed.

Lemma nonzero_prefix (w later s more : list byte) :
  nonzero w -> nonzero s -> w ++ later = s ++ [0] ++ more -> exists s', s = w ++ s'.
Proof.
  revert s; induction w as [|x w IH]; intros s Hw Hs E; [exists s; reflexivity|].
  apply Forall_cons_iff in Hw as [Hx Hw]. destruct s as [|y s].
  - cbn in E. inversion E; subst. contradiction.
  - cbn in E. inversion E; subst. apply Forall_cons_iff in Hs as [_ Hs].
    destruct (IH s Hw Hs H1) as [s' ->]. exists s'. reflexivity.
Qed.

Lemma first_zero_of_stream (take release later s more : list byte) seg :
  take = seg ++ [0] -> nonzero seg -> nonzero s ->
  (take ++ release) ++ later = s ++ [0] ++ more -> seg = s.
Proof.
  intros -> Hseg Hs E. rewrite <- !app_assoc in E. revert s Hs E; induction seg as [|x seg IH]; intros s Hs E.
  - destruct s as [|y s]; [reflexivity|]. cbn in E. inversion E; subst. apply Forall_cons_iff in Hs as [Hy _]. contradiction.
  - apply Forall_cons_iff in Hseg as [Hx Hseg]. destruct s as [|y s].
    + cbn in E. inversion E; subst. contradiction.
    + cbn in E. inversion E; subst. apply Forall_cons_iff in Hs as [_ Hs]. f_equal. apply IH; assumption.
Qed.

(* the loop inside one chunk, when the stream from here on starts with an over-long segment:
   either an overflow is reported in this chunk, or the whole chunk was buffered and the
   rest of the segment is still over-long *)
Lemma drive_overlong t : forall fuel st w acc later s more,
  acc_inv st -> (1 <= cap_of st)%nat ->
  (2 * length w + (if Nat.eqb (a_idx st) 0 then 0 else 1) < fuel)%nat ->
  nonzero s -> w ++ later = s ++ [0] ++ more -> (cap_of st < a_idx st + length s + 1)%nat ->
  exists st' rs, drive fuel t st w acc = Ok (st', rev acc ++ rs) /\ acc_inv st' /\ cap_of st' = cap_of st /\
    (In EvOver (events_of rs) \/
     (exists s', s = w ++ s' /\ (cap_of st' < a_idx st' + length s' + 1)%nat /\ events_of rs = [])).
Proof.
  intros fuel st w acc later s more Hi Hcap Hm Hs E Hlong.
  destruct w as [|b0 rest].
  - exists st, []. destruct fuel; cbn [drive]; rewrite app_nil_r; (split; [reflexivity|]); (split; [assumption|]); (split; [reflexivity|]);
      right; exists s; repeat split; assumption.
  - destruct fuel as [|fuel]; [lia|]. cbn [drive].
    destruct (feed_spec t st (b0 :: rest) Hi) as (st1 & r & -> & Hc & Hi1 & H). cbn [bind]. cbv iota in H.
    set (w := b0 :: rest) in *.
    pose proof (split_first_zero_spec w) as HS. pose proof (split_release_shorter w) as Hsh.
    destruct (split_first_zero w) as [[take release]|] eqn:Es.
    + (* the chunk contains the sentinel: its first zero ends the over-long segment *)
      destruct H as (Hidx & Hr & Hev). destruct HS as (Hw & seg & Htake & Hseg). specialize (Hsh take release eq_refl).
      assert (seg = s) by (rewrite Hw in E; eapply first_zero_of_stream; eassumption). subst seg.
      assert (Htl : length take = (length s + 1)%nat) by (rewrite Htake, app_length; reflexivity).
      destruct (Nat.leb_spec (a_idx st + length take) (cap_of st)); [lia|]. subst r. cbn [remaining] in *.
      destruct (drive_terminates t fuel st1 release (OverFull release :: acc) Hi1 ltac:(lia))
        as (st' & rs & Ed & Hi' & Hc'); [rewrite Hidx; cbn; cbn [length] in *; lia|].
      exists st', (OverFull release :: rs). rewrite Ed. cbn [rev]. rewrite <- app_assoc.
      repeat split; [assumption|congruence|]. left. cbn [events_of ev_of]. left. reflexivity.
    + destruct (nonzero_prefix w later s more HS Hs E) as [s' ->].
      destruct (Nat.ltb_spec (cap_of st) (a_idx st + length w)) as [Hover|Hfit].
      * destruct H as [-> Hidx].
        destruct (drive_terminates t fuel st1 (skipn (cap_of st - a_idx st) w) (OverFull (skipn (cap_of st - a_idx st) w) :: acc) Hi1 ltac:(lia))
          as (st' & rs & Ed & Hi' & Hc').
        { rewrite Hidx, skipn_length. unfold acc_inv, cap_of in *. destruct (Nat.eqb_spec (a_idx st) 0); cbn [Nat.eqb length] in *; lia. }
        exists st', (OverFull (skipn (cap_of st - a_idx st) w) :: rs). cbn [remaining]. rewrite Ed. cbn [rev]. rewrite <- app_assoc.
        repeat split; [assumption|congruence|]. left. cbn [events_of ev_of]. left. reflexivity.
      * destruct H as [-> Hb]. exists st1, [Consumed]. repeat split; try assumption.
        right. exists s'. split; [reflexivity|]. split; [|reflexivity].
        assert (Hidx1 : a_idx st1 = (a_idx st + length w)%nat).
        { rewrite <- (buffered_length st1 Hi1), Hb, app_length, (buffered_length st Hi). reflexivity. }
        rewrite app_length in Hlong. lia.
Qed.

Theorem overflow_reported t : forall chunks st s more,
  acc_inv st -> (1 <= cap_of st)%nat ->
  nonzero s -> concat chunks = s ++ [0] ++ more -> (cap_of st < a_idx st + length s + 1)%nat ->
  exists st' rs, drive_all t st chunks = Ok (st', rs) /\ In EvOver (events_of rs).
Proof.
  induction chunks as [|c cs IH]; intros st s more Hi Hcap Hs E Hlong.
  - cbn in E. destruct s; discriminate.
  - cbn [concat drive_all] in *. unfold drive_chunk.
    destruct (drive_overlong t (2 * length c + 2) st c [] (concat cs) s more Hi Hcap) as (st1 & r1 & -> & Hi1 & Hc1 & Hcase);
      try assumption; [destruct (Nat.eqb (a_idx st) 0); lia|]. cbn [bind rev app].
    destruct Hcase as [Hin|(s' & -> & Hlong' & He)].
    + destruct (drive_all_total t cs st1 Hi1 ltac:(lia)) as (st2 & r2 & -> & _). cbn [bind].
      exists st2, (r1 ++ r2). split; [reflexivity|]. rewrite events_of_app. apply in_or_app. left. exact Hin.
    + rewrite <- app_assoc in E. apply app_inv_head in E.
      destruct (IH st1 s' more Hi1 ltac:(lia) ltac:(unfold nonzero in *; apply Forall_app in Hs; apply Hs) E Hlong')
        as (st2 & r2 & -> & Hin). cbn [bind].
      exists st2, (r1 ++ r2). split; [reflexivity|]. rewrite events_of_app. apply in_or_app. right. exact Hin.
Qed.

Theorem exactly_once_frames : forall (t : ty) (cap : nat) (segs : list (list byte)) (tail : list byte) (chunks : list (list byte)),
  Forall nonzero segs -> nonzero tail ->
  Forall (fun s => (length s + 1 <= cap)%nat) segs -> (length tail <= cap)%nat ->
  concat chunks = frames segs tail ->
  exists st' rs, drive_all t (acc_new cap) chunks = Ok (st', rs) /\
                 events_of rs = map (fun s => dec_ev t (s ++ [0])) segs /\ buffered st' = tail.
Proof.
  intros t cap segs tail chunks Hs Ht Hl Hlt Hc.
  assert (Hi : acc_inv (acc_new cap)) by (unfold acc_inv, acc_new; cbn; lia).
  assert (Hcap : cap_of (acc_new cap) = cap) by (unfold cap_of, acc_new; cbn; apply repeat_length).
  destruct (exactly_once t chunks (acc_new cap) Hi) as (st' & rs & E & He & Hb & _).
  { rewrite Hcap, Hc. cbn [acc_new a_idx]. apply fits_frames; assumption. }
  exists st', rs. split; [exact E|].
  assert (Hbuf : buffered (acc_new cap) = []) by reflexivity.
  rewrite Hbuf, Hc, spec_frames in He, Hb by assumption. split; assumption.
Qed.

