(* ValueInd.v: the induction principle for the nested value type, and list helpers *)
From PV Require Import Base DataModel.

Section ValueInd.
  Variable P : value -> Prop.
  Hypothesis HBool : forall b, P (VBool b).
  Hypothesis HInt : forall k z, P (VInt k z).
  Hypothesis HF32 : forall b, P (VF32 b).
  Hypothesis HF64 : forall b, P (VF64 b).
  Hypothesis HChar : forall c, P (VChar c).
  Hypothesis HStr : forall bs, P (VStr bs).
  Hypothesis HBytes : forall bs, P (VBytes bs).
  Hypothesis HNone : P VNone.
  Hypothesis HSome : forall v, P v -> P (VSome v).
  Hypothesis HUnit : P VUnit.
  Hypothesis HUnitStruct : P VUnitStruct.
  Hypothesis HNewtype : forall v, P v -> P (VNewtype v).
  Hypothesis HSeq : forall vs, Forall P vs -> P (VSeq vs).
  Hypothesis HTuple : forall vs, Forall P vs -> P (VTuple vs).
  Hypothesis HTupleStruct : forall vs, Forall P vs -> P (VTupleStruct vs).
  Hypothesis HMap : forall kvs, Forall (fun kv => P (fst kv) /\ P (snd kv)) kvs -> P (VMap kvs).
  Hypothesis HStruct : forall vs, Forall P vs -> P (VStruct vs).
  Hypothesis HVariant : forall i v, P v -> P (VVariant i v).
  Hypothesis HSeqNoLen : forall vs, P (VSeqNoLen vs).
  Hypothesis HMapNoLen : forall kvs, P (VMapNoLen kvs).
  Hypothesis HCollectStr : forall ps, P (VCollectStr ps).

  Fixpoint value_ind' (v : value) : P v :=
    let fix go (vs : list value) : Forall P vs :=
      match vs with
      | [] => Forall_nil P
      | x :: r => Forall_cons x (value_ind' x) (go r)
      end in
    let fix gom (kvs : list (value * value)) : Forall (fun kv => P (fst kv) /\ P (snd kv)) kvs :=
      match kvs with
      | [] => Forall_nil _
      | kv :: r => Forall_cons kv (conj (value_ind' (fst kv)) (value_ind' (snd kv))) (gom r)
      end in
    match v with
    | VBool b => HBool b
    | VInt k z => HInt k z
    | VF32 b => HF32 b
    | VF64 b => HF64 b
    | VChar c => HChar c
    | VStr bs => HStr bs
    | VBytes bs => HBytes bs
    | VNone => HNone
    | VSome x => HSome x (value_ind' x)
    | VUnit => HUnit
    | VUnitStruct => HUnitStruct
    | VNewtype x => HNewtype x (value_ind' x)
    | VSeq vs => HSeq vs (go vs)
    | VTuple vs => HTuple vs (go vs)
    | VTupleStruct vs => HTupleStruct vs (go vs)
    | VMap kvs => HMap kvs (gom kvs)
    | VStruct vs => HStruct vs (go vs)
    | VVariant i x => HVariant i x (value_ind' x)
    | VSeqNoLen vs => HSeqNoLen vs
    | VMapNoLen kvs => HMapNoLen kvs
    | VCollectStr ps => HCollectStr ps
    end.
End ValueInd.

Section TyInd.
  Variable P : ty -> Prop.
  Hypothesis HBool : P TBool.
  Hypothesis HInt : forall k, P (TInt k).
  Hypothesis HF32 : P TF32.
  Hypothesis HF64 : P TF64.
  Hypothesis HChar : P TChar.
  Hypothesis HStr : P TStr.
  Hypothesis HBytes : P TBytes.
  Hypothesis HOption : forall t, P t -> P (TOption t).
  Hypothesis HUnit : P TUnit.
  Hypothesis HUnitStruct : P TUnitStruct.
  Hypothesis HNewtype : forall t, P t -> P (TNewtype t).
  Hypothesis HSeq : forall t, P t -> P (TSeq t).
  Hypothesis HTuple : forall ts, Forall P ts -> P (TTuple ts).
  Hypothesis HTupleStruct : forall ts, Forall P ts -> P (TTupleStruct ts).
  Hypothesis HMap : forall k v, P k -> P v -> P (TMap k v).
  Hypothesis HStruct : forall ts, Forall P ts -> P (TStruct ts).
  Hypothesis HEnum : forall ts, Forall P ts -> P (TEnum ts).

  Fixpoint ty_ind' (t : ty) : P t :=
    let fix go (ts : list ty) : Forall P ts :=
      match ts with
      | [] => Forall_nil P
      | x :: r => Forall_cons x (ty_ind' x) (go r)
      end in
    match t with
    | TBool => HBool | TInt k => HInt k | TF32 => HF32 | TF64 => HF64 | TChar => HChar
    | TStr => HStr | TBytes => HBytes
    | TOption t' => HOption t' (ty_ind' t')
    | TUnit => HUnit | TUnitStruct => HUnitStruct
    | TNewtype t' => HNewtype t' (ty_ind' t')
    | TSeq t' => HSeq t' (ty_ind' t')
    | TTuple ts => HTuple ts (go ts)
    | TTupleStruct ts => HTupleStruct ts (go ts)
    | TMap k v => HMap k v (ty_ind' k) (ty_ind' v)
    | TStruct ts => HStruct ts (go ts)
    | TEnum ts => HEnum ts (go ts)
    end.
End TyInd.
