(* Utf8Facts.v: the UTF-8 encoder and decoder of the model are inverse on scalar values *)
From Coq Require Import Lia ZifyBool ZifyNat ZifyN ZArith.
From PV Require Import Base Utf8.
Open Scope N_scope.
Ltac Zify.zify_post_hook ::= Z.div_mod_to_equations.

Ltac rng := unfold cont, in_rng; lia.

Lemma utf8_next_encode c rest : is_scalar c = true ->
  utf8_next (utf8_encode c ++ rest) = Some (c, rest).
Proof.
  unfold is_scalar, utf8_encode. intro H.
  destruct (N.ltb_spec c 128) as [H1|H1].
  { cbn [app utf8_next]. destruct (N.ltb_spec c 128); [reflexivity|lia]. }
  destruct (N.ltb_spec c 2048) as [H2|H2].
  { cbn [app utf8_next].
    replace (192 + c / 64 <? 128) with false by lia.
    replace (in_rng 194 223 (192 + c / 64)) with true by rng.
    replace (cont (128 + c mod 64)) with true by rng.
    f_equal. f_equal. lia. }
  destruct (N.ltb_spec c 65536) as [H3|H3].
  { cbn [app utf8_next].
    replace (224 + c / 4096 <? 128) with false by lia.
    replace (in_rng 194 223 (224 + c / 4096)) with false by rng.
    replace (in_rng 224 239 (224 + c / 4096)) with true by rng.
    replace (cont (128 + c mod 64)) with true by rng.
    destruct (N.eqb_spec (224 + c / 4096) 224) as [E1|E1].
    - replace (in_rng 160 191 (128 + (c / 64) mod 64)) with true by rng.
      cbn [andb]. f_equal. f_equal. lia.
    - destruct (N.eqb_spec (224 + c / 4096) 237) as [E2|E2].
      + replace (in_rng 128 159 (128 + (c / 64) mod 64)) with true by rng.
        cbn [andb]. f_equal. f_equal. lia.
      + replace (cont (128 + (c / 64) mod 64)) with true by rng.
        cbn [andb]. f_equal. f_equal. lia. }
  cbn [app utf8_next].
  replace (240 + c / 262144 <? 128) with false by lia.
  replace (in_rng 194 223 (240 + c / 262144)) with false by rng.
  replace (in_rng 224 239 (240 + c / 262144)) with false by rng.
  replace (in_rng 240 244 (240 + c / 262144)) with true by rng.
  replace (cont (128 + c mod 64)) with true by rng.
  replace (cont (128 + (c / 64) mod 64)) with true by rng.
  destruct (N.eqb_spec (240 + c / 262144) 240) as [E1|E1].
  - replace (in_rng 144 191 (128 + (c / 4096) mod 64)) with true by rng.
    cbn [andb]. f_equal. f_equal. lia.
  - destruct (N.eqb_spec (240 + c / 262144) 244) as [E2|E2].
    + replace (in_rng 128 143 (128 + (c / 4096) mod 64)) with true by rng.
      cbn [andb]. f_equal. f_equal. lia.
    + replace (cont (128 + (c / 4096) mod 64)) with true by rng.
      cbn [andb]. f_equal. f_equal. lia.
Qed.

Lemma utf8_encode_nonempty c : utf8_encode c <> [].
Proof. unfold utf8_encode. repeat match goal with |- context [if ?b then _ else _] => destruct b end; discriminate. Qed.

Lemma utf8_encode_len c : (1 <= length (utf8_encode c) <= 4)%nat.
Proof. unfold utf8_encode. repeat match goal with |- context [if ?b then _ else _] => destruct b end; simpl; lia. Qed.

Lemma utf8_chars_encode c : is_scalar c = true -> utf8_chars (utf8_encode c) = Some [c].
Proof.
  intro H. unfold utf8_chars.
  pose proof (utf8_next_encode c [] H) as Hn. rewrite app_nil_r in Hn.
  pose proof (utf8_encode_len c) as Hl.
  destruct (utf8_encode c) as [|b r] eqn:E; [simpl in Hl; lia|].
  cbn [length utf8_chars_fuel]. rewrite Hn. destruct (length r); reflexivity.
Qed.

Lemma utf8_encode_bytes_ok c : is_scalar c = true -> bytes_ok (utf8_encode c).
Proof.
  unfold is_scalar, utf8_encode, bytes_ok, byte_ok. intro H.
  repeat match goal with |- context [if ?b <? ?k then _ else _] => destruct (N.ltb_spec b k) end;
    repeat constructor; lia.
Qed.
