(* DynSize.v: what from_slice_dyn builds is bounded by a schema-dependent multiple of the bytes it
   consumed, and its loops run no longer than the input allows, for every schema without a
   sequence of zero-width elements (the class of known finding F9) - the allocation clause of C18. *)
From PV Require Import Base MachineInt VarintParams GenArith GenLoops GenPanicArms Varint Utf8 DataModel Schema SchemaDecl SchemaFmt SchemaConv Dyn DynSizeDefs WireFormat.
From PV Require Import BaseFacts VarintFacts VarintCore SchemaFacts DynFacts Locality SizeBound.
From Coq Require Import Lia.
Open Scope N_scope.

Lemma jsize_arr l : jsize (JArr l) = 1 + jsum l.
Proof. reflexivity. Qed.
Lemma jsize_obj kvs : jsize (JObj kvs) = 1 + osum kvs.
Proof. reflexivity. Qed.
Lemma jsum_app a b : jsum (a ++ b) = jsum a + jsum b.
Proof. induction a as [|x r IH]; cbn [jsum app]; [reflexivity|]. rewrite IH. lia. Qed.
Lemma jsum_rev l : jsum (rev l) = jsum l.
Proof. induction l as [|x r IH]; cbn [rev jsum]; [reflexivity|]. rewrite jsum_app, IH. cbn [jsum]. lia. Qed.
Lemma osum_insert k v kvs : osum (obj_insert k v kvs) <= 1 + N.of_nat (length k) + jsize v + osum kvs.
Proof.
  induction kvs as [|[k' v'] r IH]; cbn [obj_insert osum fst snd]; [lia|].
  destruct (bytes_cmp k k'); cbn [osum fst snd]; lia.
Qed.

Lemma dmin_tuple ts : dmin (STuple ts) = dmin_sum ts.
Proof. reflexivity. Qed.
Lemma dmin_struct n k fs : dmin (SStruct n k fs) = match k with DUnit => 0 | _ => dmin_fsum fs end.
Proof. destruct k; reflexivity. Qed.

Lemma doff_fsum_eq fs :
  (fix sum (fs : list (str * schema)) : N :=
     match fs with [] => 0 | f :: r => 1 + N.of_nat (length (fst f)) + doffset (snd f) + sum r end) fs = doff_fsum fs.
Proof. reflexivity. Qed.
Lemma doffset_tuple ts : doffset (STuple ts) = 1 + doff_sum ts.
Proof. reflexivity. Qed.
Lemma doffset_struct n k fs : doffset (SStruct n k fs) = 1 + doff_fsum fs.
Proof. reflexivity. Qed.
Lemma doffset_enum n vs : doffset (SEnum n vs) = 1 + doff_vsum vs.
Proof. reflexivity. Qed.

Lemma dsl_fsum_eq fs :
  (fix sum (fs : list (str * schema)) : N := match fs with [] => 0 | f :: r => dslope (snd f) + sum r end) fs = dsl_fsum fs.
Proof. reflexivity. Qed.
Lemma dslope_tuple ts : dslope (STuple ts) = 1 + dsl_sum ts.
Proof. reflexivity. Qed.
Lemma dslope_struct n k fs : dslope (SStruct n k fs) = 1 + dsl_fsum fs.
Proof. reflexivity. Qed.
Lemma dslope_enum n vs : dslope (SEnum n vs) = 1 + dsl_vsum vs.
Proof. reflexivity. Qed.

(* ---- decoders whose result is bounded by what they consume ---- *)
Definition dbounded {A} (w : A -> N) (a b m : N) (f : list byte -> dres dyn_de_error (A * list byte)) : Prop :=
  forall l x rest, bytes_ok l -> f l = DOk (x, rest) ->
  exists p, l = p ++ rest /\ m <= N.of_nat (length p) /\ w x <= a * N.of_nat (length p) + b.

Lemma dbounded_weaken {A} (w : A -> N) a b m a' b' m' f :
  a <= a' -> b <= b' -> m' <= m -> dbounded w a b m f -> dbounded w a' b' m' f.
Proof.
  intros Ha Hb Hm H l x rest Hl E. destruct (H l x rest Hl E) as (p & -> & Hp & Hw). exists p. split; [reflexivity|]. split; [lia|nia].
Qed.
Lemma dbounded_ret {A} (w : A -> N) (x : A) a b : w x <= b -> dbounded w a b 0 (fun l => DOk (x, l)).
Proof. intros Hw l y rest _ [= <- <-]. exists []. split; [reflexivity|]. cbn [length]. split; lia. Qed.
Lemma dbounded_bind {A B} (wA : A -> N) (wB : B -> N) a b1 b2 m1 m2
      (f : list byte -> dres dyn_de_error (A * list byte)) (g : A -> list byte -> dres dyn_de_error (B * list byte)) :
  dbounded wA a b1 m1 f -> (forall x, dbounded wB a (b2 + wA x) m2 (g x)) ->
  dbounded wB a (b1 + b2) (m1 + m2) (fun l => dbind (f l) (fun xr => g (fst xr) (snd xr))).
Proof.
  intros Hf Hg l y rest Hl H. destruct (f l) as [[x r]|e| |] eqn:Ef; try discriminate H. cbn [dbind fst snd] in H.
  destruct (Hf _ _ _ Hl Ef) as (p1 & -> & M1 & W1).
  assert (Hr : bytes_ok r) by (apply bytes_ok_app in Hl; apply Hl).
  destruct (Hg x _ _ _ Hr H) as (p2 & -> & M2 & W2).
  exists (p1 ++ p2). split; [rewrite app_assoc; reflexivity|]. rewrite app_length. split; [lia|nia].
Qed.
Lemma dbounded_ext {A} (w : A -> N) a b m (f g : list byte -> dres dyn_de_error (A * list byte)) :
  (forall l, f l = g l) -> dbounded w a b m f -> dbounded w a b m g.
Proof. intros E H l x rest Hl Hg. rewrite <- E in Hg. exact (H l x rest Hl Hg). Qed.

Lemma dbounded_take_one (w : byte -> N) c : (forall b, w b <= c) -> dbounded w 0 c 1 take_one.
Proof.
  intros Hw [|b r] x rest _ H; [discriminate H|]. injection H as <- <-. exists [b]. split; [reflexivity|]. cbn [length]. split; [lia|].
  specialize (Hw b). lia.
Qed.
Lemma dbounded_take_n n : dbounded (fun bs : list byte => N.of_nat (length bs)) 1 0 n (take_n n).
Proof.
  intros l x rest _ H. unfold take_n in H. destruct (N.ltb_spec (N.of_nat (length l)) n) as [L|L]; [discriminate H|].
  injection H as <- <-. exists (firstn (N.to_nat n) l). split; [symmetry; apply firstn_skipn|].
  rewrite firstn_length_le by lia. split; lia.
Qed.
Lemma dbounded_dvar t c : is_vty t -> dbounded (fun _ : N => c) 0 c 1 (dvar (std_reader t DynSchemaMismatch)).
Proof.
  intros Ht l x rest Hl H. rewrite dvar_spec in H by assumption.
  destruct (spec_vread (wbits t) l) as [n r| |] eqn:E; cbn [dspec] in H; try discriminate H. injection H as <- <-.
  assert (S : sd_varint (wbits t) l = Ok (n, r)) by (unfold sd_varint; rewrite E; reflexivity).
  destruct (bounded_varint (wbits t) c l n r S) as (p & -> & M & W). exists p. split; [reflexivity|]. split; lia.
Qed.

(* ---- inversion of the readers ---- *)
Lemma take_one_inv l b r : take_one l = DOk (b, r) -> l = b :: r.
Proof. destruct l as [|x l']; cbn [take_one]; [discriminate|]. intros [= -> ->]. reflexivity. Qed.
Lemma take_n_inv n l x r : take_n n l = DOk (x, r) -> l = x ++ r /\ N.of_nat (length x) = n.
Proof.
  unfold take_n. destruct (N.ltb_spec (N.of_nat (length l)) n) as [L|L]; [discriminate|]. intros [= <- <-].
  split; [symmetry; apply firstn_skipn|]. rewrite firstn_length_le by lia. lia.
Qed.
Lemma dvar_inv t l n r : is_vty t -> bytes_ok l -> dvar (std_reader t DynSchemaMismatch) l = DOk (n, r) ->
  exists p, l = p ++ r /\ 1 <= N.of_nat (length p).
Proof.
  intros Ht Hl H. destruct (dbounded_dvar t 0 Ht l n r Hl H) as (p & -> & M & _). exists p. split; [reflexivity|exact M].
Qed.
Lemma dusize_inv l n r : bytes_ok l -> dusize l = DOk (n, r) -> exists p, l = p ++ r /\ 1 <= N.of_nat (length p).
Proof. intros Hl H. unfold dusize in H. change dyn_reader_u64 with (std_reader u64 DynSchemaMismatch) in H. eapply dvar_inv; [right; right; left; reflexivity|exact Hl|exact H]. Qed.
Lemma de_str_inv l s r : bytes_ok l -> de_str l = DOk (s, r) -> exists p, l = p ++ s ++ r /\ 1 <= N.of_nat (length p).
Proof.
  intros Hl H. unfold de_str in H. destruct (dusize l) as [[n r1]|e| |] eqn:E1; try discriminate H. cbn [dbind] in H.
  destruct (take_n n r1) as [[s' r2]|e| |] eqn:E2; try discriminate H. cbn [dbind] in H.
  destruct (utf8_valid s'); try discriminate H. injection H as <- <-.
  destruct (dusize_inv _ _ _ Hl E1) as (p & -> & M). apply take_n_inv in E2 as [-> _]. exists p. split; [reflexivity|exact M].
Qed.

Section Sized.
  Variable widen : N -> N.
  Let DE := dyn_de widen.

  Lemma jsum_nums b : jsum (map (fun x : N => num (Z.of_N x)) b) = N.of_nat (length b).
  Proof. induction b as [|x r IH]; cbn [map jsum length]; [reflexivity|]. rewrite IH. cbn [num jsize]. lia. Qed.

  Lemma de_prim_sized p : dbounded jsize 1 1 (pmin p) (de_prim widen p).
  Proof.
    intros l x rest Hl H. destruct p; cbn [de_prim pmin] in H |- *; cbv zeta in H.
    all: try (match type of H with context [take_one ?l0] =>
                destruct (take_one l0) as [[b r]|e| |] eqn:E; try discriminate H; cbn [dbind] in H; apply take_one_inv in E; subst l0 end).
    all: try (match type of H with context [dvar ?rd ?l0] =>
                destruct (dvar rd l0) as [[n r]|e| |] eqn:E; try discriminate H; cbn [dbind] in H;
                apply (dvar_inv _ l0 n r) in E; [destruct E as (p & -> & M)| |exact Hl] end).
    all: try (unfold is_vty; tauto).
    all: try (match type of H with context [take_n ?k ?l0] =>
                destruct (take_n k l0) as [[tb r]|e| |] eqn:E; try discriminate H; cbn [dbind] in H;
                apply take_n_inv in E; destruct E as (-> & Elen) end).
    all: try (match type of H with context [de_str ?l0] =>
                destruct (de_str l0) as [[str r]|e| |] eqn:E; try discriminate H; cbn [dbind] in H;
                apply de_str_inv in E; [destruct E as (p & -> & M)|exact Hl] end).
    all: try (match type of H with context [dusize ?l0] =>
                destruct (dusize l0) as [[n r]|e| |] eqn:E; try discriminate H; cbn [dbind] in H;
                apply dusize_inv in E; [destruct E as (p & -> & M)|exact Hl] end).
    all: try (match type of H with context [take_n ?k ?l0] =>
                destruct (take_n k l0) as [[tb r']|e| |] eqn:E; try discriminate H; cbn [dbind] in H;
                apply take_n_inv in E; destruct E as (-> & Elen) end).
    all: repeat match type of H with context [if ?c then _ else _] => destruct c end; try discriminate H.
    all: try (match type of H with context [utf8_chars ?s] => destruct (utf8_chars s) as [[|c [|? ?]]|]; try discriminate H end).
    all: injection H as <- <-.
    all: try (exists [b]; split; [reflexivity|]; cbn [length num jsize]; lia).
    all: try (exists p; split; [reflexivity|]; cbn [num jsize]; lia).
    all: try (exists tb; split; [reflexivity|]; cbn [jsize]; lia).
    all: try (exists (p ++ str); split; [rewrite app_assoc; reflexivity|]; rewrite app_length; cbn [jsize]; lia).
    all: try (exists (p ++ tb); split; [rewrite app_assoc; reflexivity|]; rewrite app_length, jsize_arr, jsum_nums; lia).
    exists []. split; [reflexivity|]. cbn [length jsize]. lia.
  Qed.

  Definition sized_at (s : schema) : Prop := dbounded jsize (dslope s) (doffset s) (dmin s) (DE s).

  Lemma de_all_sized ts : Forall sized_at ts ->
    dbounded jsum (dsl_sum ts) (doff_sum ts) (dmin_sum ts) (de_all DE ts).
  Proof.
    induction 1 as [|t r Ht _ IH]; intros l x rest Hl H; cbn [de_all] in H.
    - injection H as <- <-. exists []. split; [reflexivity|]. cbn [length jsum dsl_sum doff_sum dmin_sum]. lia.
    - destruct (DE t l) as [[j l1]|e| |] eqn:E1; try discriminate H. cbn [dbind] in H.
      destruct (de_all DE r l1) as [[js l2]|e| |] eqn:E2; try discriminate H. cbn [dbind] in H. injection H as <- <-.
      destruct (Ht _ _ _ Hl E1) as (p1 & -> & M1 & W1).
      assert (Hl1 : bytes_ok l1) by (apply bytes_ok_app in Hl; apply Hl).
      destruct (IH _ _ _ Hl1 E2) as (p2 & -> & M2 & W2).
      exists (p1 ++ p2). split; [rewrite app_assoc; reflexivity|]. rewrite app_length.
      cbn [jsum dsl_sum doff_sum dmin_sum]. split; [lia|nia].
  Qed.
  Lemma de_snd_all_sized (fs : list (str * schema)) : Forall (fun f => sized_at (snd f)) fs ->
    dbounded jsum (dsl_fsum fs) (doff_fsum fs) (dmin_fsum fs) (de_snd_all DE fs).
  Proof.
    induction 1 as [|t r Ht _ IH]; intros l x rest Hl H; cbn [de_snd_all] in H.
    - injection H as <- <-. exists []. split; [reflexivity|]. cbn [length jsum dsl_fsum doff_fsum dmin_fsum]. lia.
    - destruct (DE (snd t) l) as [[j l1]|e| |] eqn:E1; try discriminate H. cbn [dbind] in H.
      destruct (de_snd_all DE r l1) as [[js l2]|e| |] eqn:E2; try discriminate H. cbn [dbind] in H. injection H as <- <-.
      destruct (Ht _ _ _ Hl E1) as (p1 & -> & M1 & W1).
      assert (Hl1 : bytes_ok l1) by (apply bytes_ok_app in Hl; apply Hl).
      destruct (IH _ _ _ Hl1 E2) as (p2 & -> & M2 & W2).
      exists (p1 ++ p2). split; [rewrite app_assoc; reflexivity|]. rewrite app_length.
      cbn [jsum dsl_fsum doff_fsum dmin_fsum]. split; [lia|nia].
  Qed.
  Lemma de_fields_sized (fs : list (str * schema)) : Forall (fun f => sized_at (snd f)) fs ->
    forall acc l obj rest, bytes_ok l -> de_fields DE fs acc l = DOk (obj, rest) ->
    exists p, l = p ++ rest /\ dmin_fsum fs <= N.of_nat (length p) /\
              osum obj <= dsl_fsum fs * N.of_nat (length p) + doff_fsum fs + osum acc.
  Proof.
    induction 1 as [|t r Ht _ IH]; intros acc l obj rest Hl H; cbn [de_fields] in H.
    - injection H as <- <-. exists []. split; [reflexivity|]. cbn [length dsl_fsum doff_fsum dmin_fsum]. lia.
    - destruct (DE (snd t) l) as [[j l1]|e| |] eqn:E1; try discriminate H. cbn [dbind] in H.
      destruct (Ht _ _ _ Hl E1) as (p1 & -> & M1 & W1).
      assert (Hl1 : bytes_ok l1) by (apply bytes_ok_app in Hl; apply Hl).
      destruct (IH _ _ _ _ Hl1 H) as (p2 & -> & M2 & W2).
      exists (p1 ++ p2). split; [rewrite app_assoc; reflexivity|]. rewrite app_length.
      pose proof (osum_insert (fst t) j acc) as I. cbn [dsl_fsum doff_fsum dmin_fsum]. split; [lia|nia].
  Qed.
  Lemma de_repeat_sized (g : list byte -> de_res (json * list byte)) a b : dbounded jsize a b 1 g ->
    forall fuel n acc l js rest, bytes_ok l -> de_repeat fuel g n acc l = DOk (js, rest) ->
    exists p, l = p ++ rest /\ jsum js <= (a + b) * N.of_nat (length p) + jsum acc.
  Proof.
    intros Hg. induction fuel as [|f IH]; intros n acc l js rest Hl H; cbn [de_repeat] in H; destruct (n =? 0).
    - injection H as <- <-. exists []. split; [reflexivity|]. rewrite jsum_rev. cbn [length]. lia.
    - discriminate H.
    - injection H as <- <-. exists []. split; [reflexivity|]. rewrite jsum_rev. cbn [length]. lia.
    - destruct (g l) as [[j l1]|e| |] eqn:E1; try discriminate H. cbn [dbind] in H.
      destruct (Hg _ _ _ Hl E1) as (p1 & -> & M1 & W1).
      assert (Hl1 : bytes_ok l1) by (apply bytes_ok_app in Hl; apply Hl).
      destruct (IH _ _ _ _ _ Hl1 H) as (p2 & -> & W2).
      exists (p1 ++ p2). split; [rewrite app_assoc; reflexivity|]. rewrite app_length. cbn [jsum] in W2. nia.
  Qed.
  Lemma de_entries_sized (g : list byte -> de_res (json * list byte)) a b : dbounded jsize a b 0 g ->
    forall fuel n acc l obj rest, bytes_ok l -> de_entries fuel g n acc l = DOk (obj, rest) ->
    exists p, l = p ++ rest /\ osum obj <= (1 + a + b) * N.of_nat (length p) + osum acc.
  Proof.
    intros Hg. induction fuel as [|f IH]; intros n acc l obj rest Hl H; cbn [de_entries] in H; destruct (n =? 0).
    - injection H as <- <-. exists []. split; [reflexivity|]. cbn [length]. lia.
    - discriminate H.
    - injection H as <- <-. exists []. split; [reflexivity|]. cbn [length]. lia.
    - destruct (de_str l) as [[k l0]|e| |] eqn:E0; try discriminate H. cbn [dbind] in H.
      destruct (de_str_inv _ _ _ Hl E0) as (p0 & -> & M0).
      assert (Hl0 : bytes_ok l0) by (apply bytes_ok_app in Hl; destruct Hl as [_ Hl]; apply bytes_ok_app in Hl; apply Hl).
      destruct (g l0) as [[j l1]|e| |] eqn:E1; try discriminate H. cbn [dbind] in H.
      destruct (Hg _ _ _ Hl0 E1) as (p1 & -> & M1 & W1).
      assert (Hl1 : bytes_ok l1) by (apply bytes_ok_app in Hl0; apply Hl0).
      destruct (IH _ _ _ _ _ Hl1 H) as (p2 & -> & W2).
      exists (p0 ++ k ++ p1 ++ p2). split; [rewrite <- !app_assoc; reflexivity|]. rewrite !app_length.
      pose proof (osum_insert k j acc) as I. nia.
  Qed.
End Sized.

Section Main.
  Variable widen : N -> N.
  Let DE := dyn_de widen.

  Lemma de_data_sized k (fs : list (str * schema)) : Forall (fun f => sized_at widen (snd f)) fs ->
    dbounded jsize (1 + dsl_fsum fs) (1 + doff_fsum fs) (match k with DUnit => 0 | _ => dmin_fsum fs end) (de_data DE k fs).
  Proof.
    intros HF l x rest Hl H. destruct k; cbn [de_data] in H.
    - injection H as <- <-. exists []. split; [reflexivity|]. cbn [length jsize]. lia.
    - destruct fs as [|f [|? ?]]; try discriminate H. apply Forall_inv in HF.
      destruct (HF _ _ _ Hl H) as (p & -> & M & W). exists p. split; [reflexivity|].
      cbn [dsl_fsum doff_fsum dmin_fsum]. split; [lia|nia].
    - destruct (de_snd_all DE fs l) as [[js l1]|e| |] eqn:E; try discriminate H. cbn [dbind] in H. injection H as <- <-.
      destruct (de_snd_all_sized widen fs HF _ _ _ Hl E) as (p & -> & M & W). exists p. split; [reflexivity|].
      rewrite jsize_arr. split; [lia|nia].
    - destruct (de_fields DE fs [] l) as [[obj l1]|e| |] eqn:E; try discriminate H. cbn [dbind] in H. injection H as <- <-.
      destruct (de_fields_sized widen fs HF _ _ _ _ Hl E) as (p & -> & M & W). exists p. split; [reflexivity|].
      rewrite jsize_obj. cbn [osum] in W. split; [lia|nia].
  Qed.

  Theorem dyn_de_sized : forall s, dno_zero s = true -> sized_at widen s.
  Proof.
    unfold sized_at.
    induction s as [p|t IH|t IH|ts IH|k v IHk IHv|n k fs IH|n vs IH] using schema_ind'; intros Hz l x rest Hl H;
      cbn [dyn_de] in H; rewrite de_no_panic_arm in H.
    - destruct (de_prim_sized widen p l x rest Hl H) as (q & -> & M & W). exists q. split; [reflexivity|].
      cbn [dslope doffset dmin]. split; lia.
    - (* Option *)
      cbn [dno_zero] in Hz.
      destruct (take_one l) as [[b r]|e| |] eqn:E; try discriminate H. cbn [dbind] in H. apply take_one_inv in E. subst l.
      assert (Hr : bytes_ok r) by (apply Forall_inv_tail in Hl; exact Hl).
      destruct (b =? 0).
      + injection H as <- <-. exists [b]. split; [reflexivity|]. cbn [length jsize dmin dslope doffset]. lia.
      + destruct (b =? 1); [|discriminate H].
        destruct (IH Hz _ _ _ Hr H) as (q & -> & M & W). exists (b :: q). split; [reflexivity|].
        cbn [length dslope doffset dmin]. split; [lia|nia].
    - (* Seq *)
      cbn [dno_zero] in Hz. apply andb_prop in Hz as [Hz Hm]. apply N.leb_le in Hm.
      destruct (dusize l) as [[cnt r]|e| |] eqn:E; try discriminate H. cbn [dbind] in H.
      destruct (dusize_inv _ _ _ Hl E) as (p0 & -> & M0).
      assert (Hr : bytes_ok r) by (apply bytes_ok_app in Hl; apply Hl).
      destruct (de_repeat _ _ cnt [] r) as [[js r']|e| |] eqn:E2; try discriminate H. cbn [dbind] in H. injection H as <- <-.
      assert (Hg : dbounded jsize (dslope t) (doffset t) 1 (dyn_de widen t)).
      { eapply dbounded_weaken; [apply N.le_refl|apply N.le_refl|exact Hm|exact (IH Hz)]. }
      destruct (de_repeat_sized widen _ _ _ Hg _ _ _ _ _ _ Hr E2) as (q & -> & W).
      exists (p0 ++ q). split; [rewrite app_assoc; reflexivity|]. rewrite app_length, jsize_arr.
      cbn [jsum] in W. cbn [dslope doffset dmin]. split; [lia|nia].
    - (* Tuple *)
      cbn [dno_zero] in Hz. rewrite forallb_forall in Hz.
      destruct (de_all (dyn_de widen) ts l) as [[js r]|e| |] eqn:E; try discriminate H. cbn [dbind] in H. injection H as <- <-.
      assert (HF : Forall (sized_at widen) ts).
      { rewrite Forall_forall in *. intros t Ht. unfold sized_at. apply IH; auto. }
      destruct (de_all_sized widen ts HF _ _ _ Hl E) as (q & -> & M & W). exists q. split; [reflexivity|].
      rewrite jsize_arr, dslope_tuple, doffset_tuple, dmin_tuple. split; [lia|nia].
    - (* Map *)
      cbn [dno_zero] in Hz.
      destruct k as [[]| | | | | |]; try discriminate H.
      destruct (dusize l) as [[cnt r]|e| |] eqn:E; try discriminate H. cbn [dbind] in H.
      destruct (dusize_inv _ _ _ Hl E) as (p0 & -> & M0).
      assert (Hr : bytes_ok r) by (apply bytes_ok_app in Hl; apply Hl).
      destruct (de_entries _ _ cnt [] r) as [[obj r']|e| |] eqn:E2; try discriminate H. cbn [dbind] in H. injection H as <- <-.
      assert (Hg : dbounded jsize (dslope v) (doffset v) 0 (dyn_de widen v)).
      { eapply dbounded_weaken; [apply N.le_refl|apply N.le_refl|apply N.le_0_l|exact (IHv Hz)]. }
      destruct (de_entries_sized widen _ _ _ Hg _ _ _ _ _ _ Hr E2) as (q & -> & W).
      exists (p0 ++ q). split; [rewrite app_assoc; reflexivity|]. rewrite app_length, jsize_obj.
      cbn [osum] in W. cbn [dslope doffset dmin]. split; [lia|nia].
    - (* Struct *)
      cbn [dno_zero] in Hz. rewrite forallb_forall in Hz.
      assert (HF : Forall (fun f => sized_at widen (snd f)) fs).
      { rewrite Forall_forall in *. intros f Hf. unfold sized_at. apply IH; auto. }
      destruct (de_data_sized k fs HF _ _ _ Hl H) as (q & -> & M & W). exists q. split; [reflexivity|].
      rewrite dslope_struct, doffset_struct, dmin_struct. split; [destruct k; lia|lia].
    - (* Enum *)
      cbn [dno_zero] in Hz. rewrite forallb_forall in Hz.
      destruct (dusize l) as [[idx r]|e| |] eqn:E; try discriminate H. cbn [dbind] in H.
      destruct (dusize_inv _ _ _ Hl E) as (p0 & -> & M0).
      assert (Hr : bytes_ok r) by (apply bytes_ok_app in Hl; apply Hl).
      rewrite dslope_enum, doffset_enum. cbn [dmin].
      revert H. generalize (if idx <? N.of_nat (length vs) then N.to_nat idx else length vs) as i.
      induction IH as [|v vrest Hv _ IHr]; intros i H; [destruct i; discriminate H|].
      destruct i as [|i].
      + assert (HF : Forall (fun f => sized_at widen (snd f)) (snd v)).
        { pose proof (Hz v (or_introl eq_refl)) as Hzv. rewrite forallb_forall in Hzv.
          rewrite Forall_forall in *. intros f Hf. unfold sized_at. apply Hv; auto. }
        cbn [dsl_vsum doff_vsum].
        destruct (snd (fst v)) eqn:Ek.
        * injection H as <- <-. exists p0. split; [reflexivity|]. cbn [jsize]. split; [lia|nia].
        * destruct (de_data (dyn_de widen) DNewtype (snd v) r) as [[j r']|e| |] eqn:E2; try discriminate H. cbn [dbind] in H. injection H as <- <-.
          destruct (de_data_sized DNewtype (snd v) HF _ _ _ Hr E2) as (q & -> & M & W).
          exists (p0 ++ q). split; [rewrite app_assoc; reflexivity|]. rewrite app_length, jsize_obj. cbn [osum fst snd]. split; [lia|nia].
        * destruct (de_data (dyn_de widen) DTuple (snd v) r) as [[j r']|e| |] eqn:E2; try discriminate H. cbn [dbind] in H. injection H as <- <-.
          destruct (de_data_sized DTuple (snd v) HF _ _ _ Hr E2) as (q & -> & M & W).
          exists (p0 ++ q). split; [rewrite app_assoc; reflexivity|]. rewrite app_length, jsize_obj. cbn [osum fst snd]. split; [lia|nia].
        * destruct (de_data (dyn_de widen) DStruct (snd v) r) as [[j r']|e| |] eqn:E2; try discriminate H. cbn [dbind] in H. injection H as <- <-.
          destruct (de_data_sized DStruct (snd v) HF _ _ _ Hr E2) as (q & -> & M & W).
          exists (p0 ++ q). split; [rewrite app_assoc; reflexivity|]. rewrite app_length, jsize_obj. cbn [osum fst snd]. split; [lia|nia].
      + assert (Hz' : forall x : str * dkind * list (str * schema), In x vrest -> forallb (fun f => dno_zero (snd f)) (snd x) = true)
          by (intros y Hy; apply Hz; right; exact Hy).
        destruct (IHr Hz' i H) as (q & Eq & M & W). exists q. split; [exact Eq|]. cbn [dsl_vsum doff_vsum]. split; [lia|nia].
  Qed.
End Main.

(* ---- the loops run no longer than the input allows ---- *)
Definition nub {A} (r : dres dyn_de_error A) : Prop := r <> DUnbounded.
Lemma nub_bind {A B} (r : dres dyn_de_error A) (f : A -> dres dyn_de_error B) :
  nub r -> (forall a, r = DOk a -> nub (f a)) -> nub (dbind r f).
Proof. destruct r as [a|e| |]; cbn [dbind]; unfold nub; intros H1 H2; try discriminate; [apply H2; reflexivity|congruence]. Qed.
Lemma take_one_nub l : nub (take_one l). Proof. destruct l; discriminate. Qed.
Lemma take_n_nub n l : nub (take_n n l). Proof. unfold take_n. destruct (_ <? _); discriminate. Qed.
Lemma dvar_nub p l : nub (dvar p l). Proof. unfold dvar. destruct (vdec _ _ _ _ _); discriminate. Qed.
Lemma dusize_nub l : nub (dusize l). Proof. apply dvar_nub. Qed.
Lemma de_str_nub l : nub (de_str l).
Proof.
  unfold de_str. apply nub_bind; [apply dusize_nub|]. intros [n r] _. apply nub_bind; [apply take_n_nub|].
  intros [s r'] _. destruct (utf8_valid s); discriminate.
Qed.

Section Loops.
  Variable widen : N -> N.
  Let DE := dyn_de widen.

  Lemma de_prim_nub p l : nub (de_prim widen p l).
  Proof.
    destruct p; cbn [de_prim]; cbv zeta;
      repeat first [ apply nub_bind; [first [apply take_one_nub | apply take_n_nub | apply dvar_nub | apply dusize_nub | apply de_str_nub]|intros [? ?] _]
                   | match goal with |- nub (if ?c then _ else _) => destruct c end
                   | match goal with |- nub (match utf8_chars ?s with _ => _ end) => destruct (utf8_chars s) as [[|? [|? ?]]|] end
                   | discriminate ].
    all: match goal with |- context [if ?c then _ else _] => destruct c end; discriminate.
  Qed.

  (* per schema: bounded by what it consumes, and never cut off *)
  Definition ok_at (s : schema) : Prop := sized_at widen s /\ forall l, bytes_ok l -> nub (DE s l).

  Lemma rest_ok (s : schema) l x rest : sized_at widen s -> bytes_ok l -> DE s l = DOk (x, rest) -> bytes_ok rest.
  Proof. intros Hs Hl E. destruct (Hs _ _ _ Hl E) as (p & -> & _). apply bytes_ok_app in Hl. apply Hl. Qed.

  Lemma de_all_nub ts : Forall ok_at ts -> forall l, bytes_ok l -> nub (de_all DE ts l).
  Proof.
    induction 1 as [|t r [Hs Hn] _ IH]; intros l Hl; cbn [de_all]; [discriminate|].
    apply nub_bind; [apply Hn; exact Hl|]. intros [j l1] E. apply nub_bind; [apply IH; eapply rest_ok; eassumption|].
    intros [js l2] _. discriminate.
  Qed.
  Lemma de_snd_all_nub (fs : list (str * schema)) : Forall (fun f => ok_at (snd f)) fs -> forall l, bytes_ok l -> nub (de_snd_all DE fs l).
  Proof.
    induction 1 as [|t r [Hs Hn] _ IH]; intros l Hl; cbn [de_snd_all]; [discriminate|].
    apply nub_bind; [apply Hn; exact Hl|]. intros [j l1] E. apply nub_bind; [apply IH; eapply rest_ok; eassumption|].
    intros [js l2] _. discriminate.
  Qed.
  Lemma de_fields_nub (fs : list (str * schema)) : Forall (fun f => ok_at (snd f)) fs -> forall acc l, bytes_ok l -> nub (de_fields DE fs acc l).
  Proof.
    induction 1 as [|t r [Hs Hn] _ IH]; intros acc l Hl; cbn [de_fields]; [discriminate|].
    apply nub_bind; [apply Hn; exact Hl|]. intros [j l1] E. apply IH. eapply rest_ok; eassumption.
  Qed.
  Lemma de_data_nub k (fs : list (str * schema)) : Forall (fun f => ok_at (snd f)) fs -> forall l, bytes_ok l -> nub (de_data DE k fs l).
  Proof.
    intros HF l Hl. destruct k; cbn [de_data].
    - discriminate.
    - destruct fs as [|f [|? ?]]; try discriminate. apply Forall_inv in HF. apply HF. exact Hl.
    - apply nub_bind; [apply de_snd_all_nub; assumption|]. intros [js r] _. discriminate.
    - apply nub_bind; [apply de_fields_nub; assumption|]. intros [obj r] _. discriminate.
  Qed.

  (* a loop given at least as many rounds as its count asks for is never cut off ... *)
  Lemma de_repeat_count (g : list byte -> de_res (json * list byte)) :
    (forall l, bytes_ok l -> nub (g l)) ->
    (forall l j r, bytes_ok l -> g l = DOk (j, r) -> bytes_ok r) ->
    forall fuel n acc l, bytes_ok l -> (N.to_nat n <= fuel)%nat -> nub (de_repeat fuel g n acc l).
  Proof.
    intros Hg Hr. induction fuel as [|f IH]; intros n acc l Hl Hf; cbn [de_repeat]; destruct (N.eqb_spec n 0) as [->|Hn]; try discriminate.
    - lia.
    - apply nub_bind; [apply Hg; exact Hl|]. intros [j l1] E. apply IH; [eapply Hr; eassumption|lia].
  Qed.
  (* ... and neither is one given more rounds than there are bytes, when every round consumes one *)
  Lemma de_repeat_bytes (g : list byte -> de_res (json * list byte)) :
    (forall l, bytes_ok l -> nub (g l)) ->
    (forall l j r, bytes_ok l -> g l = DOk (j, r) -> exists p, l = p ++ r /\ 1 <= N.of_nat (length p)) ->
    forall fuel n acc l, bytes_ok l -> (length l < fuel)%nat -> nub (de_repeat fuel g n acc l).
  Proof.
    intros Hg Hc. induction fuel as [|f IH]; intros n acc l Hl Hf; cbn [de_repeat]; destruct (n =? 0); try discriminate.
    - lia.
    - apply nub_bind; [apply Hg; exact Hl|]. intros [j l1] E. destruct (Hc _ _ _ Hl E) as (p & -> & M).
      apply IH; [apply bytes_ok_app in Hl; apply Hl|]. rewrite app_length in Hf. lia.
  Qed.
  Lemma de_entries_count (g : list byte -> de_res (json * list byte)) :
    (forall l, bytes_ok l -> nub (g l)) ->
    (forall l j r, bytes_ok l -> g l = DOk (j, r) -> bytes_ok r) ->
    forall fuel n acc l, bytes_ok l -> (N.to_nat n <= fuel)%nat -> nub (de_entries fuel g n acc l).
  Proof.
    intros Hg Hr. induction fuel as [|f IH]; intros n acc l Hl Hf; cbn [de_entries]; destruct (N.eqb_spec n 0) as [->|Hn]; try discriminate.
    - lia.
    - apply nub_bind; [apply de_str_nub|]. intros [k l0] E0. destruct (de_str_inv _ _ _ Hl E0) as (p0 & -> & M0).
      assert (Hl0 : bytes_ok l0) by (apply bytes_ok_app in Hl; destruct Hl as [_ Hl]; apply bytes_ok_app in Hl; apply Hl).
      apply nub_bind; [apply Hg; exact Hl0|]. intros [j l1] E1. apply IH; [eapply Hr; eassumption|lia].
  Qed.
  Lemma de_entries_bytes (g : list byte -> de_res (json * list byte)) :
    (forall l, bytes_ok l -> nub (g l)) ->
    (forall l j r, bytes_ok l -> g l = DOk (j, r) -> exists p, l = p ++ r) ->
    forall fuel n acc l, bytes_ok l -> (length l < fuel)%nat -> nub (de_entries fuel g n acc l).
  Proof.
    intros Hg Hc. induction fuel as [|f IH]; intros n acc l Hl Hf; cbn [de_entries]; destruct (n =? 0); try discriminate.
    - lia.
    - apply nub_bind; [apply de_str_nub|]. intros [k l0] E0. destruct (de_str_inv _ _ _ Hl E0) as (p0 & -> & M0).
      assert (Hl0 : bytes_ok l0) by (apply bytes_ok_app in Hl; destruct Hl as [_ Hl]; apply bytes_ok_app in Hl; apply Hl).
      apply nub_bind; [apply Hg; exact Hl0|]. intros [j l1] E1. destruct (Hc _ _ _ Hl0 E1) as (p1 & ->).
      apply IH; [apply bytes_ok_app in Hl0; apply Hl0|]. rewrite !app_length in Hf. lia.
  Qed.

  Theorem dyn_de_never_cut_off : forall s, dno_zero s = true -> forall l, bytes_ok l -> nub (DE s l).
  Proof.
    induction s as [p|t IH|t IH|ts IH|k v IHk IHv|n k fs IH|n vs IH] using schema_ind'; intros Hz l Hl;
      unfold DE; cbn [dyn_de]; rewrite de_no_panic_arm; fold DE.
    - apply de_prim_nub.
    - cbn [dno_zero] in Hz. apply nub_bind; [apply take_one_nub|]. intros [b r] E. apply take_one_inv in E. subst l.
      destruct (b =? 0); [discriminate|]. destruct (b =? 1); [|discriminate]. apply IH; [exact Hz|]. apply Forall_inv_tail in Hl. exact Hl.
    - cbn [dno_zero] in Hz. apply andb_prop in Hz as [Hz Hm]. apply N.leb_le in Hm.
      apply nub_bind; [apply dusize_nub|]. intros [cnt r] E. destruct (dusize_inv _ _ _ Hl E) as (p0 & -> & M0).
      assert (Hr : bytes_ok r) by (apply bytes_ok_app in Hl; apply Hl).
      pose proof (dyn_de_sized widen t Hz) as Hs.
      apply nub_bind; [|intros [js r'] _; discriminate].
      unfold loop_fuel. destruct (cnt <=? N.of_nat (length r) + 65536).
      + apply de_repeat_count; [intros; apply IH; assumption| |exact Hr|lia].
        intros l0 j r0 Hl0 E0. eapply rest_ok; eassumption.
      + apply de_repeat_bytes; [intros; apply IH; assumption| |exact Hr|lia].
        intros l0 j r0 Hl0 E0. destruct (Hs _ _ _ Hl0 E0) as (q & -> & M & _). exists q. split; [reflexivity|lia].
    - cbn [dno_zero] in Hz. rewrite forallb_forall in Hz.
      apply nub_bind; [|intros [js r] _; discriminate]. apply de_all_nub; [|exact Hl].
      rewrite Forall_forall in *. intros t Ht. split; [apply dyn_de_sized; auto|intros; apply IH; auto].
    - cbn [dno_zero] in Hz. destruct k as [[]| | | | | |]; try discriminate.
      apply nub_bind; [apply dusize_nub|]. intros [cnt r] E. destruct (dusize_inv _ _ _ Hl E) as (p0 & -> & M0).
      assert (Hr : bytes_ok r) by (apply bytes_ok_app in Hl; apply Hl).
      pose proof (dyn_de_sized widen v Hz) as Hs.
      apply nub_bind; [|intros [obj r'] _; discriminate].
      unfold loop_fuel. destruct (cnt <=? N.of_nat (length r) + 65536).
      + apply de_entries_count; [intros; apply IHv; assumption| |exact Hr|lia].
        intros l0 j r0 Hl0 E0. eapply rest_ok; eassumption.
      + apply de_entries_bytes; [intros; apply IHv; assumption| |exact Hr|lia].
        intros l0 j r0 Hl0 E0. destruct (Hs _ _ _ Hl0 E0) as (q & -> & _). exists q. reflexivity.
    - cbn [dno_zero] in Hz. rewrite forallb_forall in Hz. apply de_data_nub; [|exact Hl].
      rewrite Forall_forall in *. intros f Hf. split; [apply dyn_de_sized; auto|intros; apply IH; auto].
    - cbn [dno_zero] in Hz. rewrite forallb_forall in Hz.
      apply nub_bind; [apply dusize_nub|]. intros [idx r] E. destruct (dusize_inv _ _ _ Hl E) as (p0 & -> & M0).
      assert (Hr : bytes_ok r) by (apply bytes_ok_app in Hl; apply Hl).
      generalize (if idx <? N.of_nat (length vs) then N.to_nat idx else length vs) as i.
      induction IH as [|v vrest Hv _ IHr]; intros i; [destruct i; discriminate|].
      destruct i as [|i].
      + assert (HF : Forall (fun f => ok_at (snd f)) (snd v)).
        { pose proof (Hz v (or_introl eq_refl)) as Hzv. rewrite forallb_forall in Hzv.
          rewrite Forall_forall in *. intros f Hf. split; [apply dyn_de_sized; auto|intros; apply Hv; auto]. }
        destruct (snd (fst v)) eqn:Ek; [discriminate| | |];
          (apply nub_bind; [apply de_data_nub; [exact HF|exact Hr]|]; intros [j r'] _; discriminate).
      + apply IHr. intros y Hy. apply Hz. right. exact Hy.
  Qed.
End Loops.

(* ---- the two together: the allocation clause of C18 outside F9 ---- *)
Theorem dyn_alloc_bounded widen s l : dno_zero s = true -> bytes_ok l ->
  dyn_de widen s l <> DUnbounded /\
  forall j rest, dyn_de widen s l = DOk (j, rest) ->
    exists p, l = p ++ rest /\ jsize j <= dslope s * N.of_nat (length p) + doffset s.
Proof.
  intros Hz Hl. split; [apply dyn_de_never_cut_off; assumption|].
  intros j rest E. destruct (dyn_de_sized widen s Hz _ _ _ Hl E) as (p & -> & _ & W). exists p. split; [reflexivity|exact W].
Qed.
