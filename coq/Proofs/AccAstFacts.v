(* AccAstFacts.v: the hand-written accumulator step (Accumulator.feed) is what the statement
   tree of feed_ref read from accumulator.rs computes (C08, C09). *)
From PV Require Import Base DataModel De Cobs DeFlavors Accumulator SchemaDecl AccDecl GenAccumulator AccInterp.
From Coq Require Import Lia.
Open Scope N_scope.

Lemma index_of_zero_lt l n : index_of_zero l = Some n -> (n < length l)%nat.
Proof.
  revert n; induction l as [|x l IH]; intros n H; cbn [index_of_zero] in H; [discriminate|].
  destruct (x =? 0); [injection H as <-; cbn [length]; lia|].
  destruct (index_of_zero l) as [m|]; [|discriminate]. injection H as <-. specialize (IH m eq_refl). cbn [length]. lia.
Qed.

Ltac stepred := cbn -[index_of_zero from_bytes_cobs extend_unchecked firstn skipn Nat.leb Nat.ltb length Nat.sub Nat.add].

Theorem feed_ast_is_feed t st input : feed_ast t st input = feed t st input.
Proof.
  unfold feed_ast, feed, split_first_zero. destruct input as [|b r]; [reflexivity|].
  stepred. destruct (index_of_zero (b :: r)) as [n|] eqn:E; stepred.
  - pose proof (index_of_zero_lt _ _ E) as Hn. change (Pos.to_nat 1) with 1%nat. rewrite Nat.add_1_r.
    destruct (Nat.ltb_spec (length (b :: r)) (S n)) as [H|H]; [lia|]. stepred.
    destruct (Nat.leb (a_idx st + length (firstn (S n) (b :: r))) (length (a_buf st))); stepred; [|reflexivity].
    destruct (extend_unchecked st (firstn (S n) (b :: r))) as [st1| | | |]; stepred; try reflexivity.
    destruct (Nat.ltb (length (a_buf st1)) (a_idx st1)); stepred; try reflexivity.
    destruct (from_bytes_cobs t (firstn (a_idx st1) (a_buf st1))) as [[v w]|e| | |]; stepred; reflexivity.
  - destruct (Nat.ltb (length (a_buf st)) (a_idx st + length (b :: r))); stepred.
    + destruct (Nat.ltb (length (a_buf st)) (a_idx st)); stepred; [reflexivity|].
      destruct (Nat.ltb (length (b :: r)) (length (a_buf st) - a_idx st)); stepred; reflexivity.
    + destruct (extend_unchecked st (b :: r)) as [st1| | | |]; stepred; reflexivity.
Qed.
