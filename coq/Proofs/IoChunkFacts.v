(* IoChunkFacts.v: however a reader cuts its data into pieces (and however often it is
   interrupted), decoding through it is slice decoding and consumes exactly the message;
   with end-of-stream reports or failures anywhere, it is a value or an error (C11). *)
From PV Require Import Base MachineInt DataModel De DeFlavors IoChunks.
From PV Require Import BaseFacts Simulation Benign IoFacts.
From Coq Require Import Lia.
Open Scope N_scope.

Lemma firstn_skipn_add {A} (l : list A) a b : firstn a l ++ firstn b (skipn a l) = firstn (a + b) l.
Proof.
  revert l; induction a as [|a IH]; intros l; [reflexivity|]. destruct l as [|x l]; cbn [firstn skipn plus app].
  - rewrite firstn_nil. reflexivity.
  - rewrite IH. reflexivity.
Qed.
Lemma skipn_skipn_add {A} (l : list A) a b : skipn b (skipn a l) = skipn (a + b) l.
Proof.
  revert l; induction a as [|a IH]; intros l; [reflexivity|]. destruct l as [|x l]; cbn [skipn plus]; [apply skipn_nil|apply IH].
Qed.

Lemma loop_zero fuel r acc : read_exact_loop fuel r 0 acc = Ok (acc, r).
Proof. destruct fuel; reflexivity. Qed.

(* the loop terminates within its fuel, and a success returns exactly the wanted number *)
Lemma loop_total : forall fuel r want acc, (want + length (cr_sched r) + 1 <= fuel)%nat ->
  match read_exact_loop fuel r want acc with
  | Ok (bs, _) => length bs = (length acc + want)%nat
  | Err e => e = DeserializeUnexpectedEnd
  | _ => False
  end.
Proof.
  induction fuel as [|f IH]; intros r want acc Hf; [lia|].
  destruct want as [|w]; [cbn [read_exact_loop]; lia|]. cbn [read_exact_loop].
  unfold raw_read. destruct (cr_sched r) as [|[k| | |] s] eqn:Es; cbn [length] in Hf.
  - set (n := Nat.min (S w) (length (cr_data r))). destruct (firstn n (cr_data r)) as [|b bs] eqn:Ef; [reflexivity|].
    assert (Hn : length (b :: bs) = n) by (rewrite <- Ef; apply firstn_length_le; subst n; lia).
    assert (Hn1 : (1 <= n <= S w)%nat) by (cbn [length] in Hn; subst n; lia).
    specialize (IH {| cr_data := skipn n (cr_data r); cr_sched := [] |} (S w - length (b :: bs))%nat (acc ++ b :: bs)).
    specialize (IH ltac:(cbn [cr_sched length]; cbn [length] in Hn; lia)).
    destruct (read_exact_loop f _ _ _) as [[bs0 r0]|e| | |]; try exact IH. rewrite IH, app_length. cbn [length] in *. lia.
  - set (n := Nat.min (Nat.min (S k) (S w)) (length (cr_data r))). destruct (firstn n (cr_data r)) as [|b bs] eqn:Ef; [reflexivity|].
    assert (Hn : length (b :: bs) = n) by (rewrite <- Ef; apply firstn_length_le; subst n; lia).
    assert (Hn1 : (1 <= n <= S w)%nat) by (cbn [length] in Hn; subst n; lia).
    specialize (IH {| cr_data := skipn n (cr_data r); cr_sched := s |} (S w - length (b :: bs))%nat (acc ++ b :: bs)).
    specialize (IH ltac:(cbn [cr_sched length]; cbn [length] in Hn; lia)).
    destruct (read_exact_loop f _ _ _) as [[bs0 r0]|e| | |]; try exact IH. rewrite IH, app_length. cbn [length] in *. lia.
  - specialize (IH {| cr_data := cr_data r; cr_sched := s |} (S w) acc). cbn [cr_sched] in IH. apply IH. lia.
  - reflexivity.
  - reflexivity.
Qed.

(* a gentle schedule: read_exact over the pieces is read_exact over the whole *)
Lemma loop_gentle : forall fuel r want acc, gentle (cr_sched r) = true -> (want + length (cr_sched r) + 1 <= fuel)%nat ->
  if Nat.ltb (length (cr_data r)) want then read_exact_loop fuel r want acc = Err DeserializeUnexpectedEnd
  else exists s', gentle s' = true /\
       read_exact_loop fuel r want acc = Ok (acc ++ firstn want (cr_data r), {| cr_data := skipn want (cr_data r); cr_sched := s' |}).
Proof.
  induction fuel as [|f IH]; intros r want acc Hg Hf; [lia|].
  destruct want as [|w].
  { cbn [read_exact_loop Nat.ltb Nat.leb firstn skipn]. exists (cr_sched r). split; [exact Hg|]. rewrite app_nil_r. destruct r; reflexivity. }
  cbn [read_exact_loop]. unfold raw_read. destruct (cr_sched r) as [|[k| | |] s] eqn:Es; cbn [length] in Hf; try discriminate Hg.
  - set (n := Nat.min (S w) (length (cr_data r))).
    destruct (Nat.ltb_spec (length (cr_data r)) (S w)) as [Hlt|Hge].
    + (* not enough data: everything is delivered, then the end is reported *)
      destruct (firstn n (cr_data r)) as [|b bs] eqn:Ef; [reflexivity|].
      assert (Hn : length (b :: bs) = n) by (rewrite <- Ef; apply firstn_length_le; subst n; lia).
      specialize (IH {| cr_data := skipn n (cr_data r); cr_sched := [] |} (S w - length (b :: bs))%nat (acc ++ b :: bs) eq_refl).
      cbn [cr_sched cr_data] in IH. specialize (IH ltac:(cbn [length] in *; lia)).
      rewrite skipn_length in IH. replace (Nat.ltb (length (cr_data r) - n) (S w - length (b :: bs))) with true in IH
        by (symmetry; apply Nat.ltb_lt; rewrite Hn; subst n; lia). exact IH.
    + assert (Hn : n = S w) by (subst n; lia). rewrite Hn.
      destruct (firstn (S w) (cr_data r)) as [|b bs] eqn:Ef.
      { exfalso. assert (L : length (firstn (S w) (cr_data r)) = S w) by (apply firstn_length_le; lia). rewrite Ef in L. discriminate L. }
      assert (L : length (b :: bs) = S w) by (rewrite <- Ef; apply firstn_length_le; lia).
      rewrite L, Nat.sub_diag, loop_zero. exists []. split; [reflexivity|]. reflexivity.
  - cbn [gentle forallb] in Hg.
    set (n := Nat.min (Nat.min (S k) (S w)) (length (cr_data r))).
    destruct (firstn n (cr_data r)) as [|b bs] eqn:Ef.
    + (* nothing delivered: only possible when nothing is left *)
      assert (L : length (firstn n (cr_data r)) = n) by (apply firstn_length_le; subst n; lia). rewrite Ef in L. cbn [length] in L.
      assert (Hd : length (cr_data r) = 0%nat) by (subst n; lia). rewrite Hd. reflexivity.
    + assert (Hn : length (b :: bs) = n) by (rewrite <- Ef; apply firstn_length_le; subst n; lia).
      assert (Hn1 : (1 <= n <= S w)%nat) by (cbn [length] in Hn; subst n; lia).
      assert (Hnd : (n <= length (cr_data r))%nat) by (subst n; lia).
      specialize (IH {| cr_data := skipn n (cr_data r); cr_sched := s |} (S w - length (b :: bs))%nat (acc ++ b :: bs) Hg).
      cbn [cr_sched cr_data] in IH. specialize (IH ltac:(cbn [length] in *; lia)). rewrite skipn_length, Hn in IH. rewrite Hn.
      destruct (Nat.ltb_spec (length (cr_data r)) (S w)) as [Hlt|Hge].
      * replace (Nat.ltb (length (cr_data r) - n) (S w - n)) with true in IH by (symmetry; apply Nat.ltb_lt; lia). exact IH.
      * replace (Nat.ltb (length (cr_data r) - n) (S w - n)) with false in IH by (symmetry; apply Nat.ltb_ge; lia).
        destruct IH as (s' & Hs' & E). exists s'. split; [exact Hs'|]. rewrite E. f_equal. f_equal.
        -- rewrite <- app_assoc. f_equal. rewrite <- Ef. rewrite firstn_skipn_add. f_equal. lia.
        -- f_equal. rewrite skipn_skipn_add. f_equal. lia.
  - cbn [gentle forallb] in Hg. specialize (IH {| cr_data := cr_data r; cr_sched := s |} (S w) acc Hg). cbn [cr_sched cr_data] in IH. apply IH. lia.
Qed.

Lemma read_exact_c_gentle r n : gentle (cr_sched r) = true ->
  if Nat.ltb (length (cr_data r)) n then read_exact_c r n = Err DeserializeUnexpectedEnd
  else exists s', gentle s' = true /\
       read_exact_c r n = Ok (firstn n (cr_data r), {| cr_data := skipn n (cr_data r); cr_sched := s' |}).
Proof. intros Hg. unfold read_exact_c. apply (loop_gentle _ r n [] Hg). lia. Qed.
Lemma read_exact_c_total r n :
  match read_exact_c r n with
  | Ok (bs, _) => length bs = n
  | Err e => e = DeserializeUnexpectedEnd
  | _ => False
  end.
Proof. unfold read_exact_c. apply (loop_total _ r n []). lia. Qed.

(* ---- the flavour over a chunked reader simulates the flavour over the whole ---- *)
Definition cio_rel (c : cioreader) (s : ioreader) : Prop :=
  cio_scratch c = io_scratch s /\ cio_cursor c = io_cursor s /\ cio_end c = io_end s /\
  cr_data (cio_rd c) = rd_data (io_rd s) /\ rd_limit (io_rd s) = None /\ gentle (cr_sched (cio_rd c)) = true.

Lemma read_exact_whole r n : rd_limit r = None ->
  read_exact r n = if Nat.ltb (length (rd_data r)) n then Err DeserializeUnexpectedEnd
                   else Ok (firstn n (rd_data r), {| rd_data := skipn n (rd_data r); rd_limit := None |}).
Proof. intros H. unfold read_exact. rewrite H. reflexivity. Qed.

Lemma cio_pop_sim c s : cio_rel c s -> rrel cio_rel (cio_pop c) (io_pop s).
Proof.
  intros (Hs & Hc & He & Hd & Hl & Hg). unfold cio_pop, io_pop. rewrite (read_exact_whole _ 1 Hl).
  pose proof (read_exact_c_gentle (cio_rd c) 1 Hg) as H. rewrite Hd in H.
  destruct (Nat.ltb (length (rd_data (io_rd s))) 1).
  - rewrite H. reflexivity.
  - destruct H as (s' & Hs' & E). rewrite E. cbn [bind]. rewrite ?Hd.
    destruct (firstn 1 (rd_data (io_rd s))) as [|b [|? ?]]; try exact I.
    split; [reflexivity|]. unfold cio_rel. cbn. repeat split; assumption.
Qed.
Lemma cio_take_sim n c s : cio_rel c s -> rrel cio_rel (cio_take_n n c) (io_take_n n s).
Proof.
  intros (Hs & Hc & He & Hd & Hl & Hg). unfold cio_take_n, io_take_n. rewrite Hc, He, Hs.
  destruct (Nat.ltb (io_end s) (io_cursor s)); [exact I|].
  destruct (N.of_nat (io_end s - io_cursor s) <? n); [reflexivity|].
  rewrite (read_exact_whole _ (N.to_nat n) Hl).
  pose proof (read_exact_c_gentle (cio_rd c) (N.to_nat n) Hg) as H. rewrite Hd in H.
  destruct (Nat.ltb (length (rd_data (io_rd s))) (N.to_nat n)).
  - rewrite H. reflexivity.
  - destruct H as (s' & Hs' & E). rewrite E. cbn [bind]. rewrite ?Hd.
    destruct (splice (io_scratch s) (io_cursor s) (firstn (N.to_nat n) (rd_data (io_rd s)))); [|exact I].
    split; [reflexivity|]. unfold cio_rel. cbn. repeat split; assumption.
Qed.

Theorem from_io_chunked_is_slice t input sched scratch :
  gentle sched = true -> (length input <= length scratch)%nat ->
  match from_io_c t {| cr_data := input; cr_sched := sched |} scratch, de_slice t input with
  | Ok (v, (rd, _, _)), Ok (v', rest) => v = v' /\ cr_data rd = rest
  | Err e, Err e' => e = e'
  | _, _ => False
  end.
Proof.
  intros Hg Hlen.
  pose proof (from_io_is_slice t input scratch Hlen) as Hw.
  assert (H0 : cio_rel (cioreader_new {| cr_data := input; cr_sched := sched |} scratch)
                       (ioreader_new {| rd_data := input; rd_limit := None |} scratch)).
  { unfold cio_rel, cioreader_new, ioreader_new. cbn. repeat split; assumption. }
  pose proof (de_sim cio_rel cio_pop cio_take_n io_pop io_take_n cio_pop_sim cio_take_sim t _ _ H0) as H.
  unfold from_io_c. unfold from_io in Hw.
  destruct (de cio_pop cio_take_n t _) as [[v c]|e| | |], (de io_pop io_take_n t _) as [[v' s]|e'| | |];
    cbn in H; try contradiction; cbn [bind] in *.
  - destruct H as [-> (Hs & Hc & He & Hd & Hl & Hg')]. unfold cio_finalize, io_finalize in *. rewrite Hc, He.
    destruct (Nat.ltb (io_end s) (io_cursor s)); cbn [bind] in *.
    + destruct (de_slice t input) as [[? ?]| | | |]; exact Hw.
    + destruct (de_slice t input) as [[v2 rest]|e2| | |]; try exact Hw. destruct Hw as (-> & Hr & _). split; [reflexivity|]. cbn. congruence.
  - subst e'. exact Hw.
Qed.

(* any schedule at all: a value or an error *)
Definition cio_inv (s : cioreader) : Prop :=
  (cio_cursor s <= cio_end s)%nat /\ cio_end s = length (cio_scratch s).
Lemma cio_pop_inv s : cio_inv s ->
  benign (cio_pop s) /\ (forall b s', cio_pop s = Ok (b, s') -> cio_inv s').
Proof.
  intros [Hc He]. unfold cio_pop. pose proof (read_exact_c_total (cio_rd s) 1) as H.
  destruct (read_exact_c (cio_rd s) 1) as [[bs r']|e| | |]; try contradiction; cbn [bind].
  - destruct bs as [|b [|b2 bs]]; try (cbn in H; lia).
    split; [exact I|]. intros b0 s' E. inversion E; subst. split; assumption.
  - split; [exact I|discriminate].
Qed.
Lemma cio_take_inv n s : cio_inv s ->
  benign (cio_take_n n s) /\ (forall bs s', cio_take_n n s = Ok (bs, s') -> cio_inv s').
Proof.
  intros [Hc He]. unfold cio_take_n.
  destruct (Nat.ltb_spec (cio_end s) (cio_cursor s)) as [Hx|Hx]; [lia|].
  destruct (N.ltb_spec (N.of_nat (cio_end s - cio_cursor s)) n) as [Hs|Hs]; [split; [exact I|discriminate]|].
  pose proof (read_exact_c_total (cio_rd s) (N.to_nat n)) as HR.
  destruct (read_exact_c (cio_rd s) (N.to_nat n)) as [[bs r']|e| | |]; try contradiction; cbn [bind].
  - destruct (splice_ok (cio_scratch s) (cio_cursor s) bs ltac:(lia)) as (sc' & E & L' & _).
    rewrite E. split; [exact I|]. intros bs0 s' E0. inversion E0; subst. unfold cio_inv. cbn. split; lia.
  - split; [exact I|discriminate].
Qed.
Theorem from_io_chunked_total t r scratch : benign (from_io_c t r scratch).
Proof.
  unfold from_io_c.
  assert (H0 : cio_inv (cioreader_new r scratch)) by (unfold cio_inv, cioreader_new; cbn; split; lia).
  destruct (de_benign_inv cio_pop cio_take_n cio_inv cio_pop_inv cio_take_inv t _ H0) as [Hb Hi].
  destruct (de cio_pop cio_take_n t (cioreader_new r scratch)) as [[v s]|e| | |]; try contradiction; cbn [bind]; try exact I.
  destruct (Hi v s eq_refl) as [Hc He]. unfold cio_finalize.
  destruct (Nat.ltb_spec (cio_end s) (cio_cursor s)); [lia|]. exact I.
Qed.

(* ---------------- writer: however it accepts data in pieces ---------------- *)
From PV Require Import Ser SerFlavors SerFacts.
Lemma write_loop_nil fuel w : write_all_loop fuel w [] = Ok w.
Proof. destruct fuel; reflexivity. Qed.
Lemma write_loop_gentle : forall fuel w bs, wgentle (cw_sched w) = true -> (length bs + length (cw_sched w) + 1 <= fuel)%nat ->
  exists s', wgentle s' = true /\
    write_all_loop fuel w bs = Ok {| cw_accepted := cw_accepted w ++ bs; cw_sched := s'; cw_flush_fails := cw_flush_fails w |}.
Proof.
  induction fuel as [|f IH]; intros w bs Hg Hf; [lia|].
  destruct bs as [|b bs].
  { exists (cw_sched w). split; [exact Hg|]. cbn [write_all_loop]. rewrite app_nil_r. destruct w; reflexivity. }
  cbn [write_all_loop]. destruct (cw_sched w) as [|[k| | |] s] eqn:Es; try discriminate Hg.
  - exists []. split; reflexivity.
  - cbn [wgentle forallb] in Hg. set (n := Nat.min (S k) (length (b :: bs))).
    specialize (IH {| cw_accepted := cw_accepted w ++ firstn n (b :: bs); cw_sched := s; cw_flush_fails := cw_flush_fails w |} (skipn n (b :: bs)) Hg).
    cbn [cw_sched cw_accepted cw_flush_fails] in IH. rewrite skipn_length in IH.
    assert (Hn : (1 <= n <= length (b :: bs))%nat) by (subst n; cbn [length]; lia).
    specialize (IH ltac:(cbn [length] in *; lia)). destruct IH as (s' & Hs' & E). exists s'. split; [exact Hs'|].
    rewrite E. rewrite <- app_assoc, firstn_skipn. reflexivity.
  - cbn [wgentle forallb] in Hg.
    specialize (IH {| cw_accepted := cw_accepted w; cw_sched := s; cw_flush_fails := cw_flush_fails w |} (b :: bs) Hg).
    cbn [cw_sched cw_accepted cw_flush_fails] in IH. apply IH. cbn [length] in *. lia.
Qed.
Lemma write_loop_total : forall fuel w bs, (length bs + length (cw_sched w) + 1 <= fuel)%nat ->
  match write_all_loop fuel w bs with
  | Ok w' => exists p, cw_accepted w' = cw_accepted w ++ p   (* only ever appended to *)
  | Err e => e = SerializeBufferFull
  | _ => False
  end.
Proof.
  induction fuel as [|f IH]; intros w bs Hf; [lia|].
  destruct bs as [|b bs]; [cbn [write_all_loop]; exists []; rewrite app_nil_r; reflexivity|].
  cbn [write_all_loop]. destruct (cw_sched w) as [|[k| | |] s] eqn:Es; try reflexivity.
  - exists (b :: bs). reflexivity.
  - set (n := Nat.min (S k) (length (b :: bs))).
    specialize (IH {| cw_accepted := cw_accepted w ++ firstn n (b :: bs); cw_sched := s; cw_flush_fails := cw_flush_fails w |} (skipn n (b :: bs))).
    cbn [cw_sched cw_accepted] in IH. rewrite skipn_length in IH.
    assert (Hn : (1 <= n <= length (b :: bs))%nat) by (subst n; cbn [length]; lia).
    specialize (IH ltac:(cbn [length] in *; lia)).
    destruct (write_all_loop f _ _) as [w'|e| | |]; try exact IH. destruct IH as [p Hp]. exists (firstn n (b :: bs) ++ p). rewrite Hp, app_assoc. reflexivity.
  - specialize (IH {| cw_accepted := cw_accepted w; cw_sched := s; cw_flush_fails := cw_flush_fails w |} (b :: bs)).
    cbn [cw_sched cw_accepted] in IH. apply IH. cbn [length] in *. lia.
Qed.

Lemma cwriter_run_ops ops : forall w, wgentle (cw_sched w) = true ->
  exists s', wgentle s' = true /\
    run_ops cwriter_flavor w ops = Ok {| cw_accepted := cw_accepted w ++ flatten_ops ops; cw_sched := s'; cw_flush_fails := cw_flush_fails w |}.
Proof.
  induction ops as [|o ops IH]; intros w Hg; cbn [run_ops].
  - exists (cw_sched w). split; [exact Hg|]. unfold flatten_ops. cbn. rewrite app_nil_r. destruct w; reflexivity.
  - assert (Hop : exists s1, wgentle s1 = true /\
              run_op cwriter_flavor w o = Ok {| cw_accepted := cw_accepted w ++ op_bytes o; cw_sched := s1; cw_flush_fails := cw_flush_fails w |}).
    { destruct o; cbn [run_op cwriter_flavor sf_push sf_extend op_bytes]; unfold write_all_c;
        match goal with |- context [write_all_loop ?fu w ?l] => destruct (write_loop_gentle fu w l Hg ltac:(lia)) as (s1 & Hs1 & E) end;
        exists s1; (split; [exact Hs1|]); rewrite E; reflexivity. }
    destruct Hop as (s1 & Hs1 & E). rewrite E. cbn [bind].
    destruct (IH {| cw_accepted := cw_accepted w ++ op_bytes o; cw_sched := s1; cw_flush_fails := cw_flush_fails w |} Hs1) as (s' & Hs' & E2).
    exists s'. split; [exact Hs'|]. rewrite E2. cbn [cw_accepted cw_flush_fails]. unfold flatten_ops. cbn [flat_map]. rewrite <- app_assoc. reflexivity.
Qed.

Theorem to_io_chunked_is_encode v sched : wgentle sched = true -> ser_err v = None -> to_io_c v sched false = Ok (enc v).
Proof.
  intros Hg H. unfold to_io_c, serialize_with, ser_err, enc in *. destruct (ser_ops v) as [ops e]. cbn [snd fst] in *. subst e.
  destruct (cwriter_run_ops ops {| cw_accepted := []; cw_sched := sched; cw_flush_fails := false |} Hg) as (s' & _ & E).
  rewrite E. reflexivity.
Qed.

Lemma cwriter_run_ops_total ops : forall w,
  match run_ops cwriter_flavor w ops with
  | Ok w' => cw_flush_fails w' = cw_flush_fails w
  | Err e => e = SerializeBufferFull \/ e = CollectStrError
  | _ => False
  end.
Proof.
  induction ops as [|o ops IH]; intros w; cbn [run_ops]; [reflexivity|].
  assert (Hop : match run_op cwriter_flavor w o with
                | Ok w' => cw_flush_fails w' = cw_flush_fails w
                | Err e => e = SerializeBufferFull \/ e = CollectStrError
                | _ => False end).
  { assert (Hff : forall fuel w0 bs w', write_all_loop fuel w0 bs = Ok w' -> cw_flush_fails w' = cw_flush_fails w0).
    { induction fuel as [|f IHf]; intros w0 bs w' E; destruct bs as [|b bs]; cbn [write_all_loop] in E; try discriminate E;
        try (injection E as <-; reflexivity).
      destruct (cw_sched w0) as [|[k| | |] s]; try discriminate E.
      - injection E as <-. reflexivity.
      - apply IHf in E. exact E.
      - apply IHf in E. exact E. }
    destruct o; cbn [run_op cwriter_flavor sf_push sf_extend]; unfold write_all_c;
      match goal with |- context [write_all_loop ?fu w ?l] =>
        pose proof (write_loop_total fu w l ltac:(lia)) as T; pose proof (Hff fu w l) as F; destruct (write_all_loop fu w l) as [w'|e| | |] end;
      cbn [map_err]; try contradiction; try (apply F; reflexivity); auto. }
  destruct (run_op cwriter_flavor w o) as [w1|e| | |]; try contradiction; cbn [bind]; [|exact Hop].
  specialize (IH w1). destruct (run_ops cwriter_flavor w1 ops) as [w2|e| | |]; try contradiction; [congruence|exact IH].
Qed.
Theorem to_io_chunked_total v sched ff : benign (to_io_c v sched ff).
Proof.
  unfold to_io_c, serialize_with. destruct (ser_ops v) as [ops e].
  pose proof (cwriter_run_ops_total ops {| cw_accepted := []; cw_sched := sched; cw_flush_fails := ff |}) as H.
  destruct (run_ops cwriter_flavor _ ops) as [w|e0| | |]; try contradiction; cbn [bind]; [|exact I].
  destruct e; [exact I|]. cbn [cwriter_flavor sf_finalize]. destruct (cw_flush_fails w); exact I.
Qed.
