(* StorageFacts.v: the storage flavours of SerFlavors.v are the interpretation of the method
   bodies read from ser/flavors.rs (GenStorages.v), method by method, on every state. *)
From PV Require Import Base SchemaDecl StorageDecl GenStorages SerFlavors StorageInterp.
Open Scope N_scope.

Definition unvec (r : res sstate) : res (list byte) :=
  match r with Ok (SVec _ v) => Ok v | Ok (SIter v) => Ok v | Ok _ => Panic | Err e => Err e | Panic => Panic | Fault => Fault | OutOfFuel => OutOfFuel end.
Definition unsize (r : res sstate) : res N :=
  match r with Ok (SSize n) => Ok n | Ok _ => Panic | Err e => Err e | Panic => Panic | Fault => Fault | OutOfFuel => OutOfFuel end.
Definition unwriter (r : res sstate) : res writer_st :=
  match r with Ok (SWriter w) => Ok w | Ok _ => Panic | Err e => Err e | Panic => Panic | Fault => Fault | OutOfFuel => OutOfFuel end.

(* ---- HVec<B> ---- *)
Lemma hvec_push_is_source cap v b :
  sf_push (hvec_flavor cap) v b = unvec (run_method nm_HVec nm_try_push (SVec (Some cap) v) (AByte b)).
Proof. cbn -[Nat.ltb Nat.leb]. unfold hvec_push. destruct (Nat.ltb (length v) cap); reflexivity. Qed.
Lemma hvec_extend_is_source cap v bs :
  sf_extend (hvec_flavor cap) v bs = unvec (run_method nm_HVec nm_try_extend (SVec (Some cap) v) (ABytes bs)).
Proof. cbn -[Nat.ltb Nat.leb]. unfold hvec_extend. destruct (Nat.leb (length v + length bs) cap); reflexivity. Qed.
Lemma hvec_finalize_is_source cap v :
  sf_finalize (hvec_flavor cap) v = unvec (run_method nm_HVec nm_finalize (SVec (Some cap) v) ANone).
Proof. reflexivity. Qed.
Lemma hvec_set_is_source cap v i b :
  sf_set (hvec_flavor cap) v i b = unvec (run_method nm_HVec_IndexMut nm_index_mut (SVec (Some cap) v) (ASet i b)).
Proof. cbn. unfold vec_set. destruct (write_at v i b); reflexivity. Qed.

(* ---- AllocVec ---- *)
Lemma alloc_push_is_source v b :
  sf_push alloc_flavor v b = unvec (run_method nm_AllocVec nm_try_push (SVec None v) (AByte b)).
Proof. reflexivity. Qed.
Lemma alloc_extend_is_source v bs :
  sf_extend alloc_flavor v bs = unvec (run_method nm_AllocVec nm_try_extend (SVec None v) (ABytes bs)).
Proof. reflexivity. Qed.
Lemma alloc_finalize_is_source v :
  sf_finalize alloc_flavor v = unvec (run_method nm_AllocVec nm_finalize (SVec None v) ANone).
Proof. reflexivity. Qed.
Lemma alloc_set_is_source v i b :
  sf_set alloc_flavor v i b = unvec (run_method nm_AllocVec_IndexMut nm_index_mut (SVec None v) (ASet i b)).
Proof. cbn. unfold vec_set. destruct (write_at v i b); reflexivity. Qed.

(* ---- ExtendFlavor<T> ---- *)
Lemma extendf_push_is_source v b :
  sf_push extend_flavor v b = unvec (run_method nm_ExtendFlavor nm_try_push (SIter v) (AByte b)).
Proof. reflexivity. Qed.
Lemma extendf_extend_is_source v bs :
  sf_extend extend_flavor v bs = unvec (run_method nm_ExtendFlavor nm_try_extend (SIter v) (ABytes bs)).
Proof. reflexivity. Qed.
Lemma extendf_finalize_is_source v :
  sf_finalize extend_flavor v = unvec (run_method nm_ExtendFlavor nm_finalize (SIter v) ANone).
Proof. reflexivity. Qed.

(* ---- Size ---- *)
Lemma size_push_is_source n b :
  sf_push size_flavor n b = unsize (run_method nm_Size nm_try_push (SSize n) (AByte b)).
Proof. reflexivity. Qed.
Lemma size_extend_is_source n bs :
  sf_extend size_flavor n bs = unsize (run_method nm_Size nm_try_extend (SSize n) (ABytes bs)).
Proof. reflexivity. Qed.
Lemma size_finalize_is_source n :
  sf_finalize size_flavor n = unsize (run_method nm_Size nm_finalize (SSize n) ANone).
Proof. reflexivity. Qed.

(* ---- io::WriteFlavor and eio::WriteFlavor ---- *)
Lemma writer_push_is_source w b :
  sf_push writer_flavor w b = unwriter (run_method nm_io_Write nm_try_push (SWriter w) (AByte b)) /\
  sf_push writer_flavor w b = unwriter (run_method nm_eio_Write nm_try_push (SWriter w) (AByte b)).
Proof.
  split; cbn -[Nat.ltb Nat.leb]; unfold writer_write_all; destruct (w_limit w) as [k|]; try reflexivity;
    destruct (Nat.ltb k _); reflexivity.
Qed.
Lemma writer_extend_is_source w bs :
  sf_extend writer_flavor w bs = unwriter (run_method nm_io_Write nm_try_extend (SWriter w) (ABytes bs)) /\
  sf_extend writer_flavor w bs = unwriter (run_method nm_eio_Write nm_try_extend (SWriter w) (ABytes bs)).
Proof.
  split; cbn -[Nat.ltb Nat.leb]; unfold writer_write_all; destruct (w_limit w) as [k|]; try reflexivity;
    destruct (Nat.ltb k _); reflexivity.
Qed.
Definition unwriter_out (r : res sstate) : res (list byte) :=
  match r with Ok (SWriter w) => Ok (w_accepted w) | Ok _ => Panic | Err e => Err e | Panic => Panic | Fault => Fault | OutOfFuel => OutOfFuel end.
Lemma writer_finalize_is_source w :
  sf_finalize writer_flavor w = unwriter_out (run_method nm_io_Write nm_finalize (SWriter w) ANone) /\
  sf_finalize writer_flavor w = unwriter_out (run_method nm_eio_Write nm_finalize (SWriter w) ANone).
Proof. split; cbn; destruct (w_flush_fails w); reflexivity. Qed.

(* ---- a flavour that defines no try_extend gets the trait's default: byte by byte through its
   own try_push ---- *)
Lemma default_extend_is_source push s bs :
  storage_method nm_Flavor nm_try_extend = Some ODefaultExtend /\
  run_sop push ODefaultExtend s (ABytes bs) = extend_by_push push s bs.
Proof. split; reflexivity. Qed.

(* which methods each impl defines *)
Lemma storage_impls_define :
  map (fun im => (fst im, map fst (snd im))) storage_methods =
  [(nm_Flavor, [nm_try_extend]);
   (nm_HVec, [nm_finalize; nm_try_extend; nm_try_push]); (nm_AllocVec, [nm_finalize; nm_try_extend; nm_try_push]);
   (nm_ExtendFlavor, [nm_finalize; nm_try_extend; nm_try_push]); (nm_Size, [nm_finalize; nm_try_extend; nm_try_push]);
   (nm_eio_Write, [nm_finalize; nm_try_extend; nm_try_push]); (nm_io_Write, [nm_finalize; nm_try_extend; nm_try_push]);
   (nm_HVec_IndexMut, [nm_index_mut]); (nm_AllocVec_IndexMut, [nm_index_mut])].
Proof. reflexivity. Qed.

(* ---- bundles ---- *)
Lemma hvec_is_source cap v :
  (forall b, sf_push (hvec_flavor cap) v b = unvec (run_method nm_HVec nm_try_push (SVec (Some cap) v) (AByte b))) /\
  (forall bs, sf_extend (hvec_flavor cap) v bs = unvec (run_method nm_HVec nm_try_extend (SVec (Some cap) v) (ABytes bs))) /\
  sf_finalize (hvec_flavor cap) v = unvec (run_method nm_HVec nm_finalize (SVec (Some cap) v) ANone) /\
  (forall i b, sf_set (hvec_flavor cap) v i b = unvec (run_method nm_HVec_IndexMut nm_index_mut (SVec (Some cap) v) (ASet i b))).
Proof.
  repeat split; intros; [apply hvec_push_is_source|apply hvec_extend_is_source|apply hvec_set_is_source].
Qed.
Lemma allocvec_is_source v :
  (forall b, sf_push alloc_flavor v b = unvec (run_method nm_AllocVec nm_try_push (SVec None v) (AByte b))) /\
  (forall bs, sf_extend alloc_flavor v bs = unvec (run_method nm_AllocVec nm_try_extend (SVec None v) (ABytes bs))) /\
  sf_finalize alloc_flavor v = unvec (run_method nm_AllocVec nm_finalize (SVec None v) ANone) /\
  (forall i b, sf_set alloc_flavor v i b = unvec (run_method nm_AllocVec_IndexMut nm_index_mut (SVec None v) (ASet i b))).
Proof. repeat split; intros; apply alloc_set_is_source. Qed.
Lemma extend_flavor_is_source v :
  (forall b, sf_push extend_flavor v b = unvec (run_method nm_ExtendFlavor nm_try_push (SIter v) (AByte b))) /\
  (forall bs, sf_extend extend_flavor v bs = unvec (run_method nm_ExtendFlavor nm_try_extend (SIter v) (ABytes bs))) /\
  sf_finalize extend_flavor v = unvec (run_method nm_ExtendFlavor nm_finalize (SIter v) ANone).
Proof. repeat split. Qed.
Lemma size_is_source n :
  (forall b, sf_push size_flavor n b = unsize (run_method nm_Size nm_try_push (SSize n) (AByte b))) /\
  (forall bs, sf_extend size_flavor n bs = unsize (run_method nm_Size nm_try_extend (SSize n) (ABytes bs))) /\
  sf_finalize size_flavor n = unsize (run_method nm_Size nm_finalize (SSize n) ANone).
Proof. repeat split. Qed.
Lemma writers_are_source w :
  forall impl, impl = nm_io_Write \/ impl = nm_eio_Write ->
  (forall b, sf_push writer_flavor w b = unwriter (run_method impl nm_try_push (SWriter w) (AByte b))) /\
  (forall bs, sf_extend writer_flavor w bs = unwriter (run_method impl nm_try_extend (SWriter w) (ABytes bs))) /\
  sf_finalize writer_flavor w = unwriter_out (run_method impl nm_finalize (SWriter w) ANone).
Proof.
  intros impl [-> | ->]; repeat split; intros;
    first [apply writer_push_is_source | apply writer_extend_is_source | apply writer_finalize_is_source].
Qed.
