(* ModFacts.v: the COBS and CRC serialisation modifiers of SerFlavors.v are what the method
   bodies read from ser/flavors.rs compute, over every inner flavour (C06, C10, C20). *)
From PV Require Import Base DataModel Ser Cobs Crc SerFlavors SchemaDecl ModDecl GenModifiers ModInterp.
From Coq Require Import Lia.
Open Scope N_scope.

Ltac mstepc := cbn -[enc_push enc_finalize crc_update crc_finalize le_bytes extend_by_push].

Section Facts.
  Context {St Out : Type} (inner : sflavor St Out) (alg : crc_alg) (nbytes : nat).

  Theorem cobs_push_is_source (s : St) (e : enc_state) (d : N) (data : byte) :
    cobs_push inner (s, e) data =
    let* '(m, _) := mrun inner alg nbytes cobs_try_push [MvByte data] {| ms_inner := s; ms_cobs := e; ms_digest := d |} in
    Ok (ms_inner m, ms_cobs m).
  Proof.
    unfold cobs_push, mrun. mstepc. destruct (enc_push e data) as [[n|idx mval|idx mval nval] e']; mstepc.
    - destruct (sf_push inner s n); mstepc; reflexivity.
    - destruct (sf_set inner s idx mval) as [s1| | | |]; mstepc; try reflexivity.
      destruct (sf_push inner s1 0); mstepc; reflexivity.
    - destruct (sf_set inner s idx mval) as [s1| | | |]; mstepc; try reflexivity.
      destruct (sf_push inner s1 nval) as [s2| | | |]; mstepc; try reflexivity.
      destruct (sf_push inner s2 0); mstepc; reflexivity.
  Qed.

  Theorem cobs_finalize_is_source (s : St) (e : enc_state) (d : N) :
    cobs_finalize inner (s, e) =
    let* '(_, out) := mrun inner alg nbytes cobs_finalize_steps [] {| ms_inner := s; ms_cobs := e; ms_digest := d |} in
    match out with Some o => Ok o | None => Panic end.
  Proof.
    unfold cobs_finalize, mrun. mstepc. destruct (enc_finalize e) as [idx mval]. mstepc.
    destruct (sf_set inner s idx mval) as [s1| | | |]; mstepc; try reflexivity.
    destruct (sf_push inner s1 0) as [s2| | | |]; mstepc; try reflexivity.
    destruct (sf_finalize inner s2); mstepc; reflexivity.
  Qed.

  Theorem cobs_try_new_is_source : cobs_try_new_pushes_placeholder = true.
  Proof. reflexivity. Qed.

  Theorem crc_push_is_source (s : St) (e : enc_state) (d : N) (b : byte) :
    crcm_push inner alg (s, d) b =
    let* '(m, _) := mrun inner alg nbytes crc_try_push [MvByte b] {| ms_inner := s; ms_cobs := e; ms_digest := d |} in
    Ok (ms_inner m, ms_digest m).
  Proof.
    unfold crcm_push, mrun. mstepc. destruct (sf_push inner s b); mstepc; reflexivity.
  Qed.

  Theorem crc_finalize_is_source (s : St) (e : enc_state) (d : N) :
    crcm_finalize inner alg nbytes (s, d) =
    let* '(_, out) := mrun inner alg nbytes crc_finalize_steps [] {| ms_inner := s; ms_cobs := e; ms_digest := d |} in
    match out with Some o => Ok o | None => Panic end.
  Proof.
    unfold crcm_finalize, mrun. mstepc.
    destruct (extend_by_push (sf_push inner) s (le_bytes nbytes (crc_finalize alg d))) as [s1| | | |]; mstepc; try reflexivity.
    destruct (sf_finalize inner s1); mstepc; reflexivity.
  Qed.
End Facts.

(* the deserialisation side of the CRC modifier, by template: pop / try_take_n feed exactly the
   bytes they hand out to the digest; finalize reads size_of::<W>() bytes, finalizes the inner
   flavour, and compares the little-endian value with the digest *)
Theorem crc_de_is_source :
  crc_de_pop_updates_digest_with_the_byte = true /\ crc_de_take_updates_digest_with_the_bytes = true /\
  crc_de_finalize = (DeserializeBadEncoding, DeserializeBadCrc) /\ crc_de_widths = crc_ser_widths.
Proof. repeat split; reflexivity. Qed.

(* neither modifier overrides try_extend: block writes go through the trait's default, byte by
   byte (extend_by_push in the model); both CRC entry points decode through the modifier and
   then finalize it *)
Definition nm_try_push : list N := [116; 114; 121; 95; 112; 117; 115; 104].
Definition nm_finalize : list N := [102; 105; 110; 97; 108; 105; 122; 101].
Theorem modifiers_define_exactly :
  cobs_methods = [nm_try_push; nm_finalize] /\ crc_ser_methods = [nm_try_push; nm_finalize] /\
  crc_de_entry_points_finalize_through_the_modifier = true.
Proof. repeat split; reflexivity. Qed.
