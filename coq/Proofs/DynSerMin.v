(* DynSerMin.v: whatever to_stdvec_dyn's model produces under a schema is at least dmin s bytes
   long (the least a successful decode under s consumes). *)
From PV Require Import Base MachineInt VarintParams GenArith GenLoops GenPanicArms Varint Utf8 DataModel Schema SchemaDecl SchemaFmt SchemaConv Dyn DynSizeDefs WireFormat.
From PV Require Import BaseFacts VarintFacts VarintCore SchemaFacts DynFacts DynSize.
From Coq Require Import Lia.
Open Scope N_scope.

Lemma venc_loop_nonempty p f v : (1 <= length (venc_loop p (S f) v))%nat.
Proof. cbn [venc_loop]. destruct (cmp_eval _ _ _); cbn [length]; lia. Qed.
Lemma uvar_nonempty p z : (0 < Dyn.varint_max (w_ty p))%Z -> (1 <= length (uvar p z))%nat.
Proof.
  intros H. unfold uvar, venc_with. destruct (Z.to_nat (Dyn.varint_max (w_ty p))) as [|f] eqn:E; [lia|]. apply venc_loop_nonempty.
Qed.
Lemma len_prefix_nonempty n : (1 <= length (len_prefix n))%nat.
Proof. unfold len_prefix. apply uvar_nonempty. vm_compute. reflexivity. Qed.

Section SerMin.
  Variable int_to_f64 : Z -> N.
  Variable narrow : N -> N.
  Let SER := dyn_ser int_to_f64 narrow.

  Lemma ser_prim_min p j bs : ser_prim int_to_f64 narrow p j = DOk bs -> pmin p <= N.of_nat (length bs).
  Proof.
    intros H. destruct p; cbn [ser_prim pmin] in H |- *; cbv zeta in H; unfold mismatch in H.
    all: try lia.
    all: try discriminate H.
    all: repeat match type of H with
         | match ?x with _ => _ end = DOk _ => destruct x eqn:?; try discriminate H
         | (if ?c then _ else _) = DOk _ => destruct c eqn:?; try discriminate H
         end.
    all: try (injection H as <-; rewrite ?app_length, ?le_bytes_length; cbn [length];
              try (match goal with |- context [uvar ?w ?z] => pose proof (uvar_nonempty w z ltac:(vm_compute; reflexivity)) end);
              try (match goal with |- context [len_prefix ?n] => pose proof (len_prefix_nonempty n) end); lia).
    revert H. generalize (@nil N) as acc. clear Heqj0. induction l as [|x r IH]; intros acc H.
    - injection H as <-. rewrite app_length. pose proof (len_prefix_nonempty (length acc)). lia.
    - destruct (as_u64 x) as [z|]; [|discriminate H]. destruct (fits u8 z); [|discriminate H]. exact (IH _ H).
  Qed.

  (* per schema *)
  Definition min_at (s : schema) : Prop := forall j bs, SER s j = DOk bs -> dmin s <= N.of_nat (length bs).

  Lemma ser_zip_min ts : Forall min_at ts -> forall js bs, length js = length ts -> ser_zip SER ts js = DOk bs ->
    dmin_sum ts <= N.of_nat (length bs).
  Proof.
    induction 1 as [|t r Ht _ IH]; intros [|j js] bs El H; try discriminate El; cbn [ser_zip] in H.
    - injection H as <-. cbn. lia.
    - destruct (SER t j) as [a| | |] eqn:Ea; try discriminate H. cbn [dbind] in H.
      destruct (ser_zip SER r js) as [b| | |] eqn:Eb; try discriminate H. cbn [dbind] in H. injection H as <-.
      cbn [length] in El. specialize (IH js b ltac:(lia) Eb). specialize (Ht j a Ea).
      cbn [dmin_sum]. rewrite app_length. lia.
  Qed.
  Lemma ser_snd_zip_min (fs : list (str * schema)) : Forall (fun f => min_at (snd f)) fs -> forall js bs, length js = length fs ->
    ser_snd_zip SER fs js = DOk bs -> dmin_fsum fs <= N.of_nat (length bs).
  Proof.
    induction 1 as [|t r Ht _ IH]; intros [|j js] bs El H; try discriminate El; cbn [ser_snd_zip] in H.
    - injection H as <-. cbn. lia.
    - destruct (SER (snd t) j) as [a| | |] eqn:Ea; try discriminate H. cbn [dbind] in H.
      destruct (ser_snd_zip SER r js) as [b| | |] eqn:Eb; try discriminate H. cbn [dbind] in H. injection H as <-.
      cbn [length] in El. specialize (IH js b ltac:(lia) Eb). specialize (Ht j a Ea).
      cbn [dmin_fsum]. rewrite app_length. lia.
  Qed.
  Lemma ser_fields_min (fs : list (str * schema)) : Forall (fun f => min_at (snd f)) fs -> forall obj bs,
    ser_fields SER fs obj = DOk bs -> dmin_fsum fs <= N.of_nat (length bs).
  Proof.
    induction 1 as [|t r Ht _ IH]; intros obj bs H; cbn [ser_fields] in H.
    - injection H as <-. cbn. lia.
    - destruct (obj_get (fst t) obj) as [j|]; [|discriminate H].
      destruct (SER (snd t) j) as [a| | |] eqn:Ea; try discriminate H. cbn [dbind] in H.
      destruct (ser_fields SER r obj) as [b| | |] eqn:Eb; try discriminate H. cbn [dbind] in H. injection H as <-.
      specialize (IH obj b Eb). specialize (Ht j a Ea). cbn [dmin_fsum]. rewrite app_length. lia.
  Qed.
  Lemma ser_data_min k (fs : list (str * schema)) : Forall (fun f => min_at (snd f)) fs -> forall j bs,
    ser_data SER k fs j = DOk bs -> (match k with DUnit => 0 | _ => dmin_fsum fs end) <= N.of_nat (length bs).
  Proof.
    intros HF j bs H. destruct k; cbn [ser_data] in H.
    - lia.
    - destruct fs as [|f [|? ?]]; try discriminate H. apply Forall_inv in HF. specialize (HF j bs H). cbn [dmin_fsum]. lia.
    - destruct j as [| | | | |l|]; try discriminate H. destruct (Nat.eqb_spec (length l) (length fs)); [|discriminate H].
      eapply ser_snd_zip_min; eassumption.
    - destruct j as [| | | | | |obj]; try discriminate H. destruct (Nat.eqb (length obj) (length fs)); [|discriminate H].
      eapply ser_fields_min; eassumption.
  Qed.

  Theorem ser_min : forall s, min_at s.
  Proof.
    unfold min_at.
    induction s as [p|t IH|t IH|ts IH|k v IHk IHv|n k fs IH|n vs IH] using schema_ind'; intros j bs H;
      unfold SER in H; cbn [dyn_ser] in H; rewrite ser_no_panic_arm in H; fold SER in H.
    - cbn [dmin]. eapply ser_prim_min; exact H.
    - cbn [dmin]. destruct j; try (injection H as <-; cbn [length]; lia);
        (destruct (SER t _) as [a| | |]; try discriminate H; cbn [dbind] in H; injection H as <-; cbn [length]; lia).
    - cbn [dmin]. destruct j as [| | | | |l|]; try discriminate H.
      destruct (ser_each (SER t) l) as [a| | |]; try discriminate H. cbn [dbind] in H. injection H as <-.
      rewrite app_length. pose proof (len_prefix_nonempty (length l)). lia.
    - rewrite dmin_tuple. destruct j as [| | | | |l|]; try discriminate H.
      destruct (Nat.eqb_spec (length l) (length ts)); [|discriminate H]. eapply ser_zip_min; eassumption.
    - cbn [dmin]. destruct k as [[]| | | | | |]; try discriminate H. destruct j as [| | | | | |obj]; try discriminate H.
      destruct (ser_entries (SER v) obj) as [a| | |]; try discriminate H. cbn [dbind] in H. injection H as <-.
      rewrite app_length. pose proof (len_prefix_nonempty (length obj)). lia.
    - rewrite dmin_struct. eapply ser_data_min; eassumption.
    - cbn [dmin]. destruct j as [| | | |name| |[|[name payload] [|? ?]]]; try discriminate H.
      + destruct (find_variant name vs) as [[[i k] fs]|]; [|discriminate H]. destruct k; try discriminate H.
        injection H as <-. pose proof (len_prefix_nonempty i). lia.
      + destruct (find_variant name vs) as [[[i k] fs]|]; [|discriminate H].
        match type of H with dbind ?x _ = _ => destruct x as [a| | |]; try discriminate H end.
        cbn [dbind] in H. injection H as <-. rewrite app_length. pose proof (len_prefix_nonempty i). lia.
  Qed.
End SerMin.
