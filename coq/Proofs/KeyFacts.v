(* KeyFacts.v: the two schema hashers compute the documented FNV-1a stream (C16). *)
From PV Require Import Base MachineInt GenArith DataModel Schema SchemaDecl GenHashTags Key KeyOps KeySpec SchemaConv.
From PV Require Import BaseFacts SchemaFacts.
From Coq Require Import Lia.
Open Scope N_scope.

(* ---- FNV-1a as coded = FNV-1a as documented ---- *)
Lemma fnv_constants : fnv_basis = spec_basis /\ fnv_prime = spec_prime.
Proof. split; reflexivity. Qed.
Lemma fnv_step_spec s b : fnv_step s b = spec_fnv_step s b.
Proof. reflexivity. Qed.
Lemma fnv_update_app s a b : fnv_update s (a ++ b) = fnv_update (fnv_update s a) b.
Proof. unfold fnv_update. apply fold_left_app. Qed.
Lemma fnv_path_stream path st : fnv_update (fnv_update fnv_basis path) st = spec_fnv1a64 (path ++ st).
Proof. rewrite <- fnv_update_app. reflexivity. Qed.

(* ---- the walk, with the tables read from the const hasher, is the documented stream ---- *)
Section WalkConst.
  Let W := walk hconst_nodes hconst_hash_struct hconst_hash_variant hconst_field_name_first.

  Lemma walk_list_stream ts :
    Forall (fun t => W t = Some (stream t)) ts -> walk_list W ts = Some (flat_map stream ts).
  Proof. induction 1 as [|t r Ht _ IH]; cbn [walk_list flat_map]; [reflexivity|]. rewrite Ht, IH. reflexivity. Qed.
  Lemma walk_snd_stream (fs : list (str * schema)) :
    Forall (fun f => W (snd f) = Some (stream (snd f))) fs -> walk_snd W fs = Some (stream_fields stream false fs).
  Proof. induction 1 as [|t r Ht _ IH]; cbn [walk_snd stream_fields]; [reflexivity|]. rewrite Ht, IH. reflexivity. Qed.
  Lemma walk_fields_stream (fs : list (str * schema)) :
    Forall (fun f => W (snd f) = Some (stream (snd f))) fs ->
    walk_fields hconst_field_name_first W fs = Some (stream_fields stream true fs).
  Proof.
    induction 1 as [|t r Ht _ IH]; cbn [walk_fields stream_fields]; [reflexivity|]. rewrite Ht, IH.
    change hconst_field_name_first with true. cbv iota. rewrite <- app_assoc. reflexivity.
  Qed.
  Lemma walk_struct_data name k (fs : list (str * schema)) :
    Forall (fun f => W (snd f) = Some (stream (snd f))) fs -> data_wf k fs = true ->
    walk_data hconst_field_name_first W hconst_hash_struct name k fs
    = Some (struct_data_tag k :: stream_fields stream (match k with DStruct => true | _ => false end) fs).
  Proof.
    intros HF Hwf. destruct k; unfold walk_data.
    - destruct fs; [reflexivity|discriminate Hwf].
    - destruct fs as [|[n0 s0] [|? ?]]; try discriminate Hwf. apply Forall_inv in HF. cbn [snd] in HF.
      change (lookup3 (dkind_name DNewtype) (snd hconst_hash_struct)) with (Some (157, DKOne)). cbv iota beta. cbn [snd].
      rewrite HF. cbn [stream_fields option_map fst app]. rewrite app_nil_r. reflexivity.
    - change (lookup3 (dkind_name DTuple) (snd hconst_hash_struct)) with (Some (5, DKList)). cbv iota beta.
      rewrite (walk_snd_stream fs HF). reflexivity.
    - change (lookup3 (dkind_name DStruct) (snd hconst_hash_struct)) with (Some (127, DKFields)). cbv iota beta.
      rewrite (walk_fields_stream fs HF). reflexivity.
  Qed.
  Lemma walk_variant_data name k (fs : list (str * schema)) :
    Forall (fun f => W (snd f) = Some (stream (snd f))) fs -> data_wf k fs = true ->
    walk_data hconst_field_name_first W hconst_hash_variant name k fs
    = Some (name ++ variant_data_tag k :: stream_fields stream (match k with DStruct => true | _ => false end) fs).
  Proof.
    intros HF Hwf. destruct k; unfold walk_data.
    - destruct fs; [reflexivity|discriminate Hwf].
    - destruct fs as [|[n0 s0] [|? ?]]; try discriminate Hwf. apply Forall_inv in HF. cbn [snd] in HF.
      change (lookup3 (dkind_name DNewtype) (snd hconst_hash_variant)) with (Some (223, DKOne)). cbv iota beta. cbn [snd].
      rewrite HF. cbn [stream_fields option_map fst app]. rewrite app_nil_r, <- app_assoc. reflexivity.
    - change (lookup3 (dkind_name DTuple) (snd hconst_hash_variant)) with (Some (199, DKList)). cbv iota beta.
      rewrite (walk_snd_stream fs HF). cbn [option_map fst]. rewrite <- app_assoc. reflexivity.
    - change (lookup3 (dkind_name DStruct) (snd hconst_hash_variant)) with (Some (103, DKFields)). cbv iota beta.
      rewrite (walk_fields_stream fs HF). cbn [option_map fst]. rewrite <- app_assoc. reflexivity.
  Qed.

  Theorem walk_const_stream : forall s, schema_wf s = true -> W s = Some (stream s).
  Proof.
    induction s as [p|t IH|t IH|ts IH|k v IHk IHv|n k fs IH|n vs IH] using schema_ind'; intros Hwf.
    - destruct p; reflexivity.
    - unfold W; cbn [walk node_name]; change (walk hconst_nodes hconst_hash_struct hconst_hash_variant hconst_field_name_first) with W. change (assoc _ hconst_nodes) with (Some (HTagChildren 109 [[116]])).
      cbv iota beta. rewrite IH by exact Hwf. reflexivity.
    - unfold W; cbn [walk node_name]; change (walk hconst_nodes hconst_hash_struct hconst_hash_variant hconst_field_name_first) with W. change (assoc _ hconst_nodes) with (Some (HTagChildren 3 [[116]])).
      cbv iota beta. rewrite IH by exact Hwf. reflexivity.
    - cbn [schema_wf] in Hwf. rewrite forallb_forall in Hwf.
      assert (HF : Forall (fun t => W t = Some (stream t)) ts).
      { rewrite Forall_forall in *. intros t Ht. apply IH; auto. }
      unfold W; cbn [walk node_name]; change (walk hconst_nodes hconst_hash_struct hconst_hash_variant hconst_field_name_first) with W. change (assoc _ hconst_nodes) with (Some (HTagList 167)).
      cbv iota beta. rewrite (walk_list_stream ts HF). reflexivity.
    - cbn [schema_wf] in Hwf. apply andb_prop in Hwf as [Wk Wv].
      unfold W; cbn [walk node_name]; change (walk hconst_nodes hconst_hash_struct hconst_hash_variant hconst_field_name_first) with W.
      change (assoc _ hconst_nodes) with (Some (HTagChildren 79 [[107; 101; 121]; [118; 97; 108]])).
      cbv iota beta. rewrite IHk, IHv by assumption. reflexivity.
    - cbn [schema_wf] in Hwf. apply andb_prop in Hwf as [Wd Wf]. rewrite forallb_forall in Wf.
      assert (HF : Forall (fun f => W (snd f) = Some (stream (snd f))) fs).
      { rewrite Forall_forall in *. intros f Hf. apply IH; auto. }
      unfold W; cbn [walk node_name]; change (walk hconst_nodes hconst_hash_struct hconst_hash_variant hconst_field_name_first) with W. change (assoc _ hconst_nodes) with (Some HDelegateStruct).
      cbv iota beta. rewrite (walk_struct_data n k fs HF Wd). reflexivity.
    - cbn [schema_wf] in Hwf. rewrite forallb_forall in Hwf.
      unfold W; cbn [walk node_name]; change (walk hconst_nodes hconst_hash_struct hconst_hash_variant hconst_field_name_first) with W. change (assoc _ hconst_nodes) with (Some (HTagVariants 233)).
      cbv iota beta. cbn [stream].
      match goal with |- option_map _ (?g vs) = Some (_ :: ?h vs) => assert (E : g vs = Some (h vs)) end.
      { induction vs as [|v r IHr]; [reflexivity|].
        pose proof (Hwf v (or_introl eq_refl)) as Hv. apply andb_prop in Hv as [Wd Wf]. rewrite forallb_forall in Wf.
        assert (HF : Forall (fun f => W (snd f) = Some (stream (snd f))) (snd v)).
        { apply Forall_inv in IH. rewrite Forall_forall in *. intros f Hf. apply IH; auto. }
        rewrite (walk_variant_data (fst (fst v)) (snd (fst v)) (snd v) HF Wd).
        rewrite IHr; [|apply Forall_inv_tail in IH; exact IH|intros x Hx; apply Hwf; right; exact Hx].
        rewrite <- app_assoc. reflexivity. }
      rewrite E. reflexivity.
  Qed.
End WalkConst.

(* the run-time hasher is a second copy of the same code: its tables are the same tables *)
Lemma owned_tables_agree :
  howned_nodes = hconst_nodes /\ howned_hash_struct = hconst_hash_struct /\
  howned_hash_variant = hconst_hash_variant /\ howned_field_name_first = hconst_field_name_first.
Proof. repeat split; reflexivity. Qed.

Theorem key_const_is_spec path s : schema_wf s = true -> key_const path s = Some (spec_key path s).
Proof.
  intros Hwf. unfold key_const, hash_ty_path. rewrite (walk_const_stream s Hwf). cbn [option_map].
  rewrite fnv_path_stream. reflexivity.
Qed.
Theorem key_owned_is_spec path s : schema_wf s = true -> key_owned path s = Some (spec_key path s).
Proof.
  intros Hwf. unfold key_owned. destruct owned_tables_agree as (E1 & E2 & E3 & E4). rewrite E1, E2, E3, E4.
  apply key_const_is_spec. exact Hwf.
Qed.
Theorem hashers_agree path s s' :
  schema_wf s = true -> SchemaOps.conv s = Some s' -> key_const path s = key_owned path s'.
Proof.
  intros Hwf Hc. rewrite to_owned_id in Hc. injection Hc as <-.
  rewrite key_const_is_spec, key_owned_is_spec by exact Hwf. reflexivity.
Qed.

(* ---- keys ignore struct and enum type names ---- *)
Fixpoint strip_type_names (s : schema) : schema :=
  match s with
  | SPrim p => SPrim p
  | SOption t => SOption (strip_type_names t)
  | SSeq t => SSeq (strip_type_names t)
  | STuple ts => STuple (map strip_type_names ts)
  | SMap k v => SMap (strip_type_names k) (strip_type_names v)
  | SStruct _ k fs => SStruct [] k (map (fun f => (fst f, strip_type_names (snd f))) fs)
  | SEnum _ vs => SEnum [] (map (fun v => (fst v, map (fun f => (fst f, strip_type_names (snd f))) (snd v))) vs)
  end.

Lemma stream_fields_strip named (fs : list (str * schema)) :
  Forall (fun f => stream (strip_type_names (snd f)) = stream (snd f)) fs ->
  stream_fields stream named (map (fun f => (fst f, strip_type_names (snd f))) fs) = stream_fields stream named fs.
Proof.
  induction 1 as [|f r Hf _ IH]; [reflexivity|]. cbn [map stream_fields fst snd]. rewrite Hf, IH. reflexivity.
Qed.

Theorem stream_ignores_type_names : forall s, stream (strip_type_names s) = stream s.
Proof.
  induction s as [p|t IH|t IH|ts IH|k v IHk IHv|n k fs IH|n vs IH] using schema_ind'; cbn [strip_type_names stream].
  - reflexivity.
  - rewrite IH. reflexivity.
  - rewrite IH. reflexivity.
  - f_equal. induction IH as [|t r Ht _ IHr]; [reflexivity|]. cbn [map flat_map]. rewrite Ht, IHr. reflexivity.
  - rewrite IHk, IHv. reflexivity.
  - rewrite (stream_fields_strip _ fs IH). reflexivity.
  - f_equal. induction IH as [|v r Hv _ IHr]; [reflexivity|]. cbn [map fst snd].
    rewrite (stream_fields_strip _ (snd v) Hv), IHr. reflexivity.
Qed.
Theorem key_ignores_type_names path s : spec_key path (strip_type_names s) = spec_key path s.
Proof. unfold spec_key. rewrite stream_ignores_type_names. reflexivity. Qed.

(* ---- every FNV-1a step is a bijection on 64-bit states, and injective in the byte ---- *)
Definition prime_inv : N := 14886173955864302971.       (* 1099511628211^-1 mod 2^64 *)
Lemma prime_inv_ok : (spec_prime * prime_inv) mod 2 ^ 64 = 1.
Proof. vm_compute. reflexivity. Qed.

Lemma mul_prime_inj a b : a < 2 ^ 64 -> b < 2 ^ 64 ->
  (a * spec_prime) mod 2 ^ 64 = (b * spec_prime) mod 2 ^ 64 -> a = b.
Proof.
  intros Ha Hb E.
  assert (X : forall x, x < 2 ^ 64 -> (((x * spec_prime) mod 2 ^ 64) * prime_inv) mod 2 ^ 64 = x).
  { intros x Hx. rewrite N.mul_mod_idemp_l by (vm_compute; discriminate).
    rewrite <- N.mul_assoc, <- N.mul_mod_idemp_r by (vm_compute; discriminate).
    rewrite prime_inv_ok, N.mul_1_r. apply N.mod_small. exact Hx. }
  rewrite <- (X a Ha), <- (X b Hb), E. reflexivity.
Qed.

Lemma lxor_lt a b n : a < 2 ^ n -> b < 2 ^ n -> N.lxor a b < 2 ^ n.
Proof.
  intros Ha Hb. destruct (N.eq_dec (N.lxor a b) 0) as [->|Hnz]; [apply N.neq_0_lt_0, N.pow_nonzero; discriminate|].
  apply N.log2_lt_pow2; [apply N.neq_0_lt_0; exact Hnz|].
  eapply N.le_lt_trans; [apply N.log2_lxor|].
  destruct (N.eq_dec a 0) as [->|Ha0]; destruct (N.eq_dec b 0) as [->|Hb0].
  - exfalso. apply Hnz. reflexivity.
  - rewrite N.max_r by (apply N.le_0_l). apply N.log2_lt_pow2; [apply N.neq_0_lt_0; exact Hb0|exact Hb].
  - rewrite N.max_l by (apply N.le_0_l). apply N.log2_lt_pow2; [apply N.neq_0_lt_0; exact Ha0|exact Ha].
  - apply N.max_lub_lt; apply N.log2_lt_pow2; try (apply N.neq_0_lt_0; assumption); assumption.
Qed.
Lemma lxor_cancel_l a b c : N.lxor a b = N.lxor a c -> b = c.
Proof.
  intros E.
  assert (X : forall x, N.lxor a (N.lxor a x) = x)
    by (intros x; rewrite <- N.lxor_assoc, N.lxor_nilpotent, N.lxor_0_l; reflexivity).
  rewrite <- (X b), <- (X c), E. reflexivity.
Qed.
Lemma lxor_cancel_r a b c : N.lxor a c = N.lxor b c -> a = b.
Proof. rewrite (N.lxor_comm a c), (N.lxor_comm b c). apply lxor_cancel_l. Qed.

Lemma step_lt s b : spec_fnv_step s b < 2 ^ 64.
Proof. unfold spec_fnv_step. apply N.mod_lt. vm_compute. discriminate. Qed.
Lemma step_inj_state s1 s2 b : s1 < 2 ^ 64 -> s2 < 2 ^ 64 -> b < 256 ->
  spec_fnv_step s1 b = spec_fnv_step s2 b -> s1 = s2.
Proof.
  intros H1 H2 Hb E. unfold spec_fnv_step in E.
  assert (Hb' : b < 2 ^ 64) by (eapply N.lt_trans; [exact Hb|vm_compute; reflexivity]).
  apply mul_prime_inj in E; [|apply lxor_lt; assumption|apply lxor_lt; assumption].
  eapply lxor_cancel_r. exact E.
Qed.
Lemma step_inj_byte s b1 b2 : s < 2 ^ 64 -> b1 < 256 -> b2 < 256 ->
  spec_fnv_step s b1 = spec_fnv_step s b2 -> b1 = b2.
Proof.
  intros Hs H1 H2 E. unfold spec_fnv_step in E.
  assert (X : forall b, b < 256 -> b < 2 ^ 64) by (intros b Hb; eapply N.lt_trans; [exact Hb|vm_compute; reflexivity]).
  apply mul_prime_inj in E; [|apply lxor_lt; auto|apply lxor_lt; auto].
  eapply lxor_cancel_l. exact E.
Qed.
Lemma update_lt s bs : s < 2 ^ 64 -> fold_left spec_fnv_step bs s < 2 ^ 64.
Proof. revert s. induction bs as [|b r IH]; intros s Hs; [exact Hs|]. cbn [fold_left]. apply IH, step_lt. Qed.
Lemma update_inj_state bs : forall s1 s2, s1 < 2 ^ 64 -> s2 < 2 ^ 64 -> bytes_ok bs ->
  fold_left spec_fnv_step bs s1 = fold_left spec_fnv_step bs s2 -> s1 = s2.
Proof.
  induction bs as [|b r IH]; intros s1 s2 H1 H2 Hok E; [exact E|]. cbn [fold_left] in E.
  apply Forall_cons_iff in Hok as [Hb Hr].
  apply IH in E; [|apply step_lt|apply step_lt|exact Hr]. eapply step_inj_state; eassumption.
Qed.

(* changing exactly one byte of the hashed stream (path byte, name byte, or a leaf's kind tag)
   always changes the key *)
Theorem single_byte_sensitive pre b1 b2 post :
  bytes_ok pre -> b1 < 256 -> b2 < 256 -> bytes_ok post -> b1 <> b2 ->
  spec_fnv1a64 (pre ++ b1 :: post) <> spec_fnv1a64 (pre ++ b2 :: post).
Proof.
  intros Hpre H1 H2 Hpost Hne E. unfold spec_fnv1a64 in E. rewrite !fold_left_app in E. cbn [fold_left] in E.
  assert (Hs : fold_left spec_fnv_step pre spec_basis < 2 ^ 64) by (apply update_lt; vm_compute; reflexivity).
  apply update_inj_state in E; [|apply step_lt|apply step_lt|exact Hpost].
  apply step_inj_byte in E; auto.
Qed.
Lemma le_bytes8_inj a b : a < 2 ^ 64 -> b < 2 ^ 64 -> le_bytes 8 a = le_bytes 8 b -> a = b.
Proof.
  intros Ha Hb E. apply (f_equal of_le_bytes) in E. rewrite !of_le_bytes_le_bytes in E.
  change (256 ^ N.of_nat 8) with (2 ^ 64) in E. rewrite !N.mod_small in E by assumption. exact E.
Qed.
Theorem key_single_byte_sensitive pre b1 b2 post :
  bytes_ok pre -> b1 < 256 -> b2 < 256 -> bytes_ok post -> b1 <> b2 ->
  le_bytes 8 (spec_fnv1a64 (pre ++ b1 :: post)) <> le_bytes 8 (spec_fnv1a64 (pre ++ b2 :: post)).
Proof.
  intros Hpre H1 H2 Hpost Hne E. apply le_bytes8_inj in E.
  - exact (single_byte_sensitive pre b1 b2 post Hpre H1 H2 Hpost Hne E).
  - apply update_lt. vm_compute. reflexivity.
  - apply update_lt. vm_compute. reflexivity.
Qed.

(* the kind tags are pairwise distinct, so changing a leaf's kind changes one stream byte *)
Lemma prim_tag_inj p q : prim_tag p = prim_tag q -> p = q.
Proof. destruct p, q; intros E; try reflexivity; discriminate E. Qed.
Lemma prim_tag_byte p : prim_tag p < 256.
Proof. destruct p; vm_compute; reflexivity. Qed.
Definition all_tags : list N :=
  map prim_tag all_prims ++ [109; 3; 167; 79; 233] ++ map struct_data_tag all_dkinds ++ map variant_data_tag all_dkinds.
Lemma all_tags_distinct : NoDup all_tags.
Proof.
  assert (forall l : list N, (fix nd (l : list N) := match l with [] => true | x :: r => negb (existsb (N.eqb x) r) && nd r end) l = true -> NoDup l) as X.
  { induction l as [|x r IH]; intros H; [constructor|]. apply andb_prop in H as [Hx Hr]. constructor; [|apply IH; exact Hr].
    intros Hin. apply negb_true_iff in Hx. assert (existsb (N.eqb x) r = true); [|congruence].
    apply existsb_exists. exists x. split; [exact Hin|apply N.eqb_refl]. }
  apply X. vm_compute. reflexivity.
Qed.

(* ---- what is NOT true: order sensitivity (known finding F10) ----
   the stream has no framing, so two adjacent fields whose encodings commute as byte strings
   can be swapped without changing the key *)
Definition f10_a : schema := SStruct [83; 49] DStruct [([71], SPrim PUnit); ([71; 71], SPrim PUnit)].
Definition f10_b : schema := SStruct [83; 50] DStruct [([71; 71], SPrim PUnit); ([71], SPrim PUnit)].
Theorem order_sensitive_refuted :
  exists a b path, a <> b /\ strip_type_names a <> strip_type_names b /\
                   schema_wf a = true /\ schema_wf b = true /\ spec_key path a = spec_key path b.
Proof.
  exists f10_a, f10_b, (112 :: nil). repeat split; try (vm_compute; reflexivity); intros E; discriminate E.
Qed.
(* the general reason: swapping adjacent fields leaves the stream unchanged exactly when their
   encodings commute *)
Lemma stream_fields_swap (named : bool) (f g : str * schema) r :
  let enc1 (x : list N * schema) := (if named then fst x else []) ++ stream (snd x) in
  enc1 f ++ enc1 g = enc1 g ++ enc1 f ->
  stream_fields stream named (f :: g :: r) = stream_fields stream named (g :: f :: r).
Proof.
  cbv zeta. intros E. cbn [stream_fields].
  assert (X : forall (a b c d t : list byte), a ++ b ++ c ++ d ++ t = ((a ++ b) ++ (c ++ d)) ++ t)
    by (intros; rewrite <- !app_assoc; reflexivity).
  rewrite !X, E. reflexivity.
Qed.
