(* DeMethodFacts.v: the hand-written deserializer model (De.v) is, clause by clause, what the
   method bodies read from de/deserializer.rs compute, over every flavour (C01, C03, C04). *)
From PV Require Import Base MachineInt VarintParams GenArith GenLoops Varint Utf8 DataModel De SchemaDecl DeMethodDecl GenDeMethods DeMethods.
From PV Require Import BaseFacts ValueInd.
From Coq Require Import Lia.
Open Scope N_scope.

Section Facts.
  Context {St : Type}.
  Variable pop : St -> res (byte * St).
  Variable take_n : N -> St -> res (list byte * St).
  Local Notation DV := (dvm pop take_n).
  Local Notation DE := (de pop take_n).

  (* ---- each method body, interpreted (every lemma is a computation on the translated table) ---- *)
  Lemma D_bool s : D pop take_n dn_bool [] s =
    let* '(b, s1) := pop s in
    if b =? 0 then Ok (OLeaf [98; 111; 111; 108] (DBov false), s1) else if b =? 1 then Ok (OLeaf [98; 111; 111; 108] (DBov true), s1) else Err DeserializeBadBool.
  Proof. reflexivity. Qed.
  Lemma D_i8 s : D pop take_n (dn_int I8) [] s = let* '(b, s1) := pop s in Ok (OLeaf [105; 56] (DZv (cast i8 (Z.of_N b))), s1).
  Proof. reflexivity. Qed.
  Lemma D_u8 s : D pop take_n (dn_int U8) [] s = let* '(b, s1) := pop s in Ok (OLeaf [117; 56] (DNv b), s1).
  Proof. reflexivity. Qed.
  Lemma D_i16 s : D pop take_n (dn_int I16) [] s = let* '(n, s1) := take_varint pop core_reader_u16 s in Ok (OLeaf [105; 49; 54] (DZv (Core.de_zig_zag_i16 (Z.of_N n))), s1).
  Proof. reflexivity. Qed.
  Lemma D_u16 s : D pop take_n (dn_int U16) [] s = let* '(n, s1) := take_varint pop core_reader_u16 s in Ok (OLeaf [117; 49; 54] (DNv n), s1).
  Proof. reflexivity. Qed.
  Lemma D_i32 s : D pop take_n (dn_int I32) [] s = let* '(n, s1) := take_varint pop core_reader_u32 s in Ok (OLeaf [105; 51; 50] (DZv (Core.de_zig_zag_i32 (Z.of_N n))), s1).
  Proof. reflexivity. Qed.
  Lemma D_u32 s : D pop take_n (dn_int U32) [] s = let* '(n, s1) := take_varint pop core_reader_u32 s in Ok (OLeaf [117; 51; 50] (DNv n), s1).
  Proof. reflexivity. Qed.
  Lemma D_i64 s : D pop take_n (dn_int I64) [] s = let* '(n, s1) := take_varint pop core_reader_u64 s in Ok (OLeaf [105; 54; 52] (DZv (Core.de_zig_zag_i64 (Z.of_N n))), s1).
  Proof. reflexivity. Qed.
  Lemma D_u64 s : D pop take_n (dn_int U64) [] s = let* '(n, s1) := take_varint pop core_reader_u64 s in Ok (OLeaf [117; 54; 52] (DNv n), s1).
  Proof. reflexivity. Qed.
  Lemma D_i128 s : D pop take_n (dn_int I128) [] s = let* '(n, s1) := take_varint pop core_reader_u128 s in Ok (OLeaf [105; 49; 50; 56] (DZv (Core.de_zig_zag_i128 (Z.of_N n))), s1).
  Proof. reflexivity. Qed.
  Lemma D_u128 s : D pop take_n (dn_int U128) [] s = let* '(n, s1) := take_varint pop core_reader_u128 s in Ok (OLeaf [117; 49; 50; 56] (DNv n), s1).
  Proof. reflexivity. Qed.
  Lemma D_f32 s : D pop take_n dn_f32 [] s =
    let* '(bs, s1) := take_n 4 s in
    if Nat.eqb 4 (length bs) then (if N.of_nat (length bs) * 8 =? 32 then Ok (OLeaf [102; 51; 50] (DNv (of_le_bytes bs)), s1) else Panic) else Panic.
  Proof. reflexivity. Qed.
  Lemma D_f64 s : D pop take_n dn_f64 [] s =
    let* '(bs, s1) := take_n 8 s in
    if Nat.eqb 8 (length bs) then (if N.of_nat (length bs) * 8 =? 64 then Ok (OLeaf [102; 54; 52] (DNv (of_le_bytes bs)), s1) else Panic) else Panic.
  Proof. reflexivity. Qed.
  Lemma D_char s : D pop take_n dn_char [] s =
    let* '(sz, s1) := take_usize pop s in
    if 4 <? sz then Err DeserializeBadChar
    else let* '(bs, s2) := take_n sz s1 in
         match utf8_chars bs with
         | Some cs0 => match cs0 with
                       | c :: r => match r with [] => Ok (OLeaf [99; 104; 97; 114] (DChv c), s2) | _ :: _ => Err DeserializeBadChar end
                       | [] => Err DeserializeBadChar
                       end
         | None => Err DeserializeBadChar
         end.
  Proof. reflexivity. Qed.
  Lemma D_str s : D pop take_n dn_str [] s =
    let* '(sz, s1) := take_usize pop s in
    let* '(bs, s2) := take_n sz s1 in
    if utf8_valid bs then Ok (OLeaf [98; 111; 114; 114; 111; 119; 101; 100; 95; 115; 116; 114] (DStrv bs), s2) else Err DeserializeBadUtf8.
  Proof. reflexivity. Qed.
  Lemma D_bytes s : D pop take_n dn_bytes [] s =
    let* '(sz, s1) := take_usize pop s in
    let* '(bs, s2) := take_n sz s1 in Ok (OLeaf [98; 111; 114; 114; 111; 119; 101; 100; 95; 98; 121; 116; 101; 115] (DBsv bs), s2).
  Proof. reflexivity. Qed.
  Lemma D_option s : D pop take_n dn_option [] s =
    let* '(b, s1) := pop s in
    if b =? 0 then Ok (ONone, s1) else if b =? 1 then Ok (OSome, s1) else Err DeserializeBadOption.
  Proof. reflexivity. Qed.
  Lemma D_unit s : D pop take_n dn_unit [] s = Ok (OUnit, s) /\ D pop take_n dn_unit_struct [DFieldsv 0] s = Ok (OUnit, s).
  Proof. split; reflexivity. Qed.
  Lemma D_newtype s : D pop take_n dn_newtype_struct [DFieldsv 0] s = Ok (ONewtype, s).
  Proof. reflexivity. Qed.
  Lemma D_seq s : D pop take_n dn_seq [] s = let* '(n, s1) := take_usize pop s in Ok (OAccess [115; 101; 113] n, s1).
  Proof. reflexivity. Qed.
  Lemma D_map s : D pop take_n dn_map [] s = let* '(n, s1) := take_usize pop s in Ok (OAccess [109; 97; 112] n, s1).
  Proof. reflexivity. Qed.
  Lemma D_tuples n s :
    D pop take_n dn_tuple [DNv (N.of_nat n)] s = Ok (OAccess [115; 101; 113] (N.of_nat n), s) /\
    D pop take_n dn_tuple_struct [DFieldsv 0; DNv (N.of_nat n)] s = Ok (OAccess [115; 101; 113] (N.of_nat n), s) /\
    D pop take_n dn_struct [DFieldsv 0; DFieldsv n] s = Ok (OAccess [115; 101; 113] (N.of_nat n), s) /\
    D pop take_n dn_tuple_variant [DNv (N.of_nat n)] s = Ok (OAccess [115; 101; 113] (N.of_nat n), s) /\
    D pop take_n dn_struct_variant [DFieldsv n] s = Ok (OAccess [115; 101; 113] (N.of_nat n), s).
  Proof. repeat split; reflexivity. Qed.
  Lemma D_enum n s : D pop take_n dn_enum [DFieldsv 0; DFieldsv n] s = Ok (OEnum, s).
  Proof. reflexivity. Qed.
  Lemma D_variant_seed s : D pop take_n dn_variant_seed [] s = let* '(idx, s1) := take_varint pop core_reader_u32 s in Ok (OIndex idx, s1).
  Proof. reflexivity. Qed.
  Lemma D_variants s : D pop take_n dn_unit_variant [] s = Ok (ORetUnit, s) /\ D pop take_n dn_newtype_variant_seed [] s = Ok (OSeed, s).
  Proof. split; reflexivity. Qed.
  Lemma D_access : access_hands_out_len_elements_in_order = true.
  Proof. reflexivity. Qed.

  (* a lawful flavour: try_take_n(n) hands out exactly n bytes *)
  Hypothesis Htake_len : forall n s bs s', take_n n s = Ok (bs, s') -> length bs = N.to_nat n.

  Lemma iter_N_ext {A} (f g : A -> res A) n a : (forall x, f x = g x) -> iter_N f n a = iter_N g n a.
  Proof.
    intros H. rewrite !iter_N_nat. generalize (N.to_nat n) as k. intros k. revert a.
    induction k as [|k IH]; intros a; cbn [iter_nat]; [reflexivity|]. rewrite H. destruct (g a); cbn [bind]; auto.
  Qed.
  Lemma de_fields_ext (f g : ty -> St -> res (value * St)) ts :
    Forall (fun t => forall s, f t s = g t s) ts -> forall s, de_fields f ts s = de_fields g ts s.
  Proof.
    induction 1 as [|t r Ht _ IH]; intros s; cbn [de_fields]; [reflexivity|]. rewrite Ht.
    destruct (g t s) as [[v s1]| | | |]; cbn [bind]; try reflexivity. rewrite IH. reflexivity.
  Qed.

  Definition agree (t : ty) : Prop := forall s, DV t s = DE t s.
  Definition agree_inner (t : ty) : Prop :=
    match t with
    | TTuple ts | TTupleStruct ts | TStruct ts => forall s, de_fields DV ts s = de_fields DE ts s
    | TNewtype t' => agree t'
    | _ => True
    end.

  Lemma fields_case (ts : list ty) (wrap : list value -> value) (o : dout) s :
    o = OAccess [115; 101; 113] (N.of_nat (length ts)) ->
    (forall s, de_fields DV ts s = de_fields DE ts s) ->
    (let* '(vs, s2) := visit_fields DV o ts s in Ok (wrap vs, s2)) = (let* '(vs, s1) := de_fields DE ts s in Ok (wrap vs, s1)).
  Proof.
    intros -> Hf. unfold visit_fields. rewrite N.eqb_refl, D_access. cbn [andb]. rewrite Hf. reflexivity.
  Qed.

  Theorem de_methods_agree_strong : forall t, agree t /\ agree_inner t.
  Proof.
    induction t as [| k | | | | | | t IH | | | t IH | t IH | ts IH | ts IH | tk tv IHk IHv | ts IH | vs IH] using ty_ind';
      unfold agree, agree_inner in *; (split; [intros s; cbn [dvm de]|try exact I]).
    - rewrite D_bool. destruct (pop s) as [[b s1]| | | |]; cbn [bind]; try reflexivity.
      destruct (b =? 0); [reflexivity|]. destruct (b =? 1); reflexivity.
    - unfold de_int. destruct k; cbn [reader_of de_zig_zag];
        first [rewrite D_i8 | rewrite D_u8 | rewrite D_i16 | rewrite D_u16 | rewrite D_i32 | rewrite D_u32 | rewrite D_i64 | rewrite D_u64 | rewrite D_i128 | rewrite D_u128];
        try (destruct (pop s) as [[b s1]| | | |]; cbn [bind]; reflexivity);
        match goal with |- context [take_varint pop ?p s] => destruct (take_varint pop p s) as [[n s1]| | | |]; cbn [bind]; reflexivity end.
    - rewrite D_f32. destruct (take_n 4 s) as [[bs s1]| | | |] eqn:E; cbn [bind]; try reflexivity.
      rewrite (Htake_len _ _ _ _ E). reflexivity.
    - rewrite D_f64. destruct (take_n 8 s) as [[bs s1]| | | |] eqn:E; cbn [bind]; try reflexivity.
      rewrite (Htake_len _ _ _ _ E). reflexivity.
    - rewrite D_char. unfold de_char. destruct (take_usize pop s) as [[sz s1]| | | |]; cbn [bind]; try reflexivity.
      destruct (4 <? sz); [reflexivity|]. destruct (take_n sz s1) as [[bs s2]| | | |]; cbn [bind]; try reflexivity.
      destruct (utf8_chars bs) as [[|c [|c2 r]]|]; reflexivity.
    - rewrite D_str. unfold de_str. destruct (take_usize pop s) as [[sz s1]| | | |]; cbn [bind]; try reflexivity.
      destruct (take_n sz s1) as [[bs s2]| | | |]; cbn [bind]; try reflexivity. destruct (utf8_valid bs); reflexivity.
    - rewrite D_bytes. unfold de_bytes. destruct (take_usize pop s) as [[sz s1]| | | |]; cbn [bind]; try reflexivity.
      destruct (take_n sz s1) as [[bs s2]| | | |]; cbn [bind]; reflexivity.
    - destruct IH as [IH _]. rewrite D_option. destruct (pop s) as [[b s1]| | | |]; cbn [bind]; try reflexivity.
      destruct (b =? 0); [reflexivity|]. destruct (b =? 1); [|reflexivity]. cbn [bind]. rewrite IH. reflexivity.
    - rewrite (proj1 (D_unit s)). reflexivity.
    - rewrite (proj2 (D_unit s)). reflexivity.
    - destruct IH as [IH _]. rewrite D_newtype. cbn [bind]. rewrite IH. reflexivity.
    - destruct IH as [IH _]. exact IH.
    - destruct IH as [IH _]. rewrite D_seq. destruct (take_usize pop s) as [[n s1]| | | |]; cbn [bind]; try reflexivity.
      rewrite D_access.
      rewrite (iter_N_ext _ (fun st => let* '(v, s') := DE t (snd st) in Ok (v :: fst st, s')) n ([], s1)); [reflexivity|].
      intros x. rewrite IH. reflexivity.
    - assert (Hf : forall s, de_fields DV ts s = de_fields DE ts s).
      { apply de_fields_ext. eapply Forall_impl; [|exact IH]. intros a [Ha _]. exact Ha. }
      destruct (D_tuples (length ts) s) as (E & _). rewrite E. cbn [bind]. apply fields_case; [reflexivity|exact Hf].
    - apply de_fields_ext. eapply Forall_impl; [|exact IH]. intros a [Ha _]. exact Ha.
    - assert (Hf : forall s, de_fields DV ts s = de_fields DE ts s).
      { apply de_fields_ext. eapply Forall_impl; [|exact IH]. intros a [Ha _]. exact Ha. }
      destruct (D_tuples (length ts) s) as (_ & E & _). rewrite E. cbn [bind]. apply fields_case; [reflexivity|exact Hf].
    - apply de_fields_ext. eapply Forall_impl; [|exact IH]. intros a [Ha _]. exact Ha.
    - destruct IHk as [IHk _]. destruct IHv as [IHv _]. rewrite D_map. destruct (take_usize pop s) as [[n s1]| | | |]; cbn [bind]; try reflexivity.
      rewrite D_access.
      rewrite (iter_N_ext _ (fun st => let* '(k, s') := DE tk (snd st) in let* '(v, s'') := DE tv s' in Ok ((k, v) :: fst st, s'')) n ([], s1)); [reflexivity|].
      intros x. rewrite IHk. destruct (DE tk (snd x)) as [[k0 s']| | | |]; cbn [bind]; try reflexivity. rewrite IHv. reflexivity.
    - assert (Hf : forall s, de_fields DV ts s = de_fields DE ts s).
      { apply de_fields_ext. eapply Forall_impl; [|exact IH]. intros a [Ha _]. exact Ha. }
      destruct (D_tuples (length ts) s) as (_ & _ & E & _). rewrite E. cbn [bind]. apply fields_case; [reflexivity|exact Hf].
    - apply de_fields_ext. eapply Forall_impl; [|exact IH]. intros a [Ha _]. exact Ha.
    - (* enum *)
      rewrite D_enum. cbn [bind]. rewrite D_variant_seed.
      destruct (take_varint pop core_reader_u32 s) as [[idx s1]| | | |]; cbn [bind]; try reflexivity.
      destruct (N.of_nat (length vs) <=? idx); [reflexivity|].
      generalize (N.to_nat idx) as i.
      induction IH as [|t' r [Ht Hin] _ IHr]; intros i; [destruct i; reflexivity|].
      destruct i as [|i]; [|apply IHr].
      destruct t'; try (rewrite (proj2 (D_variants s1)); cbn [bind]; rewrite Ht; reflexivity).
      + (* unit *) rewrite (proj1 (D_variants s1)). reflexivity.
      + (* unit struct *) rewrite (proj1 (D_variants s1)). reflexivity.
      + (* newtype variant *) rewrite (proj2 (D_variants s1)). cbn [bind de]. cbn [agree_inner] in Hin. rewrite Hin.
        destruct (DE t' s1) as [[v s2]| | | |]; reflexivity.
      + (* tuple variant *) destruct (D_tuples (length ts) s1) as (_ & _ & _ & E & _). rewrite E. cbn [bind de].
        cbn [agree_inner] in Hin. unfold visit_fields. rewrite N.eqb_refl, D_access. cbn [andb]. rewrite Hin.
        destruct (de_fields DE ts s1) as [[xs s2]| | | |]; reflexivity.
      + (* struct variant *) destruct (D_tuples (length ts) s1) as (_ & _ & _ & _ & E). rewrite E. cbn [bind de].
        cbn [agree_inner] in Hin. unfold visit_fields. rewrite N.eqb_refl, D_access. cbn [andb]. rewrite Hin.
        destruct (de_fields DE ts s1) as [[xs s2]| | | |]; reflexivity.
  Qed.

  Theorem de_methods_agree : forall t s, dvm pop take_n t s = de pop take_n t s.
  Proof. intros t s. exact (proj1 (de_methods_agree_strong t) s). Qed.
End Facts.

(* the slice flavour is lawful, so the statement holds for slice decoding *)
Lemma slice_take_len n (l bs l' : list byte) : slice_take_n n l = Ok (bs, l') -> length bs = N.to_nat n.
Proof.
  unfold slice_take_n. destruct (N.ltb_spec (N.of_nat (length l)) n) as [H|H]; [discriminate|].
  intros [= <- <-]. apply firstn_length_le. lia.
Qed.
Theorem de_slice_is_the_method_bodies t l : dvm slice_pop slice_take_n t l = de_slice t l.
Proof. apply de_methods_agree. exact slice_take_len. Qed.
