(* DynReenc.v: whatever the dynamic encoder accepts, the dynamic decoder reads back and
   re-encodes to the same bytes (C18), outside the three known classes. *)
From PV Require Import Base MachineInt VarintParams GenArith GenLoops GenPanicArms Varint Utf8 DataModel De Ser Schema SchemaDecl SchemaFmt SchemaConv SchemaOps Conform WireFormat Dyn JsonOf.
From PV Require Import BaseFacts VarintFacts VarintCore ZigZagFacts Utf8Facts SerFacts DeFacts SchemaFacts DynFacts DynAgree DynAgreeDe.
From Coq Require Import Lia.
Open Scope N_scope.

(* JSON values as serde_json holds them: strings are valid UTF-8 byte strings, object keys are
   strictly ascending, arrays and objects of moderate length (beyond that: known finding F9) *)
Fixpoint json_wf (j : json) : bool :=
  match j with
  | JStr bs => bytes_okb bs && utf8_valid bs && (N.of_nat (length bs) <? 2 ^ 64)
  | JArr l => forallb json_wf l && (N.of_nat (length l) <=? 65536)
  | JObj kvs =>
    forallb (fun kv => bytes_okb (fst kv) && utf8_valid (fst kv) && (N.of_nat (length (fst kv)) <? 2 ^ 64) && json_wf (snd kv)) kvs
    && keys_ascending (map fst kvs) && (N.of_nat (length kvs) <=? 65536)
  | _ => true
  end.

(* schemas outside the known classes F7 (nullable payload directly inside Option) and F8
   (duplicate field names in one struct body) *)
Definition body_ok (ok : schema -> bool) (k : dkind) (fs : list (str * schema)) : bool :=
  forallb (fun f => ok (snd f)) fs && match k with DStruct => names_distinct (map fst fs) | _ => true end.
Fixpoint reenc_scope (s : schema) : bool :=
  match s with
  | SPrim _ => true
  | SOption t => negb (nullable t) && reenc_scope t
  | SSeq t => reenc_scope t
  | STuple ts => forallb reenc_scope ts
  | SMap k v => reenc_scope v
  | SStruct _ k fs => body_ok reenc_scope k fs
  | SEnum _ vs => forallb (fun v => body_ok reenc_scope (snd (fst v)) (snd v)) vs
  end.

Section Reenc.
  Variable int_to_f64 : Z -> N.
  Variable narrow widen : N -> N.
  (* what the statement needs from the host's float unit *)
  Hypothesis narrow_widen : forall b, b < 2 ^ 32 -> f32_finite b = true -> narrow (widen b) = b.
  Hypothesis narrow_range : forall b, narrow b < 2 ^ 32.
  Hypothesis int_to_f64_finite : forall z, int_to_f64 z < 2 ^ 64 /\ f64_finite (int_to_f64 z) = true.
  Let SER := dyn_ser int_to_f64 narrow.
  Let DE := dyn_de widen.

  Definition reenc_at (s : schema) : Prop :=
    forall j bs rest, json_wf j = true -> SER s j = DOk bs -> bytes_ok rest ->
    bytes_ok bs /\ exists j', DE s (bs ++ rest) = DOk (j', rest) /\ SER s j' = DOk bs.

  Lemma uvar_bytes t z : is_vty t -> (0 <= z < 2 ^ bits t)%Z -> uvar (std_writer t) z = spec_varint (Z.to_N z) /\ bytes_ok (uvar (std_writer t) z).
  Proof. intros Ht Hz. rewrite (uvar_std t z Ht Hz). split; [reflexivity|apply spec_varint_bytes_ok]. Qed.

  Lemma fits_range t z : fits t z = true -> in_range t z.
  Proof. apply in_range_b. Qed.

  (* ---- scalars ---- *)
  (* the integer, bool, string, char and byte-array arms accept exactly the JSON form of a
     conforming scalar: both agreement theorems of C17 apply *)
  Lemma scalar_lift (p : prim) (v : nvalue) j bs rest :
    json_of widen v = j -> prim_conforms 0 v p = true -> unamb v = true -> p <> PSchema ->
    ser_prim int_to_f64 narrow p j = DOk bs -> bytes_ok rest ->
    bytes_ok bs /\ exists j', de_prim widen p (bs ++ rest) = DOk (j', rest) /\ ser_prim int_to_f64 narrow p j' = DOk bs.
  Proof.
    intros <- Hc Hu Hp Hs Hr.
    rewrite (prim_agree int_to_f64 narrow widen narrow_widen 0 v p Hc Hu Hp) in Hs. injection Hs as <-.
    split.
    - destruct p; try (exfalso; apply Hp; reflexivity); cbn [prim_conforms] in Hc;
        (eapply spec_enc_ok; destruct v; try discriminate Hc; exact Hc).
    - exists (json_of widen v). split.
      + apply (prim_agree_de widen 0 v p rest Hc Hu Hp Hr).
      + apply (prim_agree int_to_f64 narrow widen narrow_widen 0 v p Hc Hu Hp).
  Qed.

  Lemma in_rangeb_fits t z : fits t z = in_rangeb t z. Proof. reflexivity. Qed.

  Ltac lift_int K :=
    match goal with
    | Hs : context [fits ?T ?z] |- _ =>
      let F := fresh "F" in destruct (fits T z) eqn:F; [|discriminate Hs];
      eapply (scalar_lift _ (NInt K z)); [reflexivity| | | discriminate | | eassumption]
    end.

  Lemma prim_reenc p : reenc_at (SPrim p).
  Proof.
    unfold reenc_at. intros j bs rest Hwf Hs Hr. unfold SER, DE in *. cbn [dyn_ser dyn_de] in *.
    rewrite (ser_no_panic_arm (SPrim p)) in Hs. rewrite (de_no_panic_arm (SPrim p)).
    destruct p; cbn [ser_prim] in Hs; cbv zeta in Hs.
    - (* bool *) destruct j; try discriminate Hs. eapply (scalar_lift PBool (NBool b)); try reflexivity; try eassumption; discriminate.
    - (* i8 *) destruct j; try discriminate Hs. cbn [as_i64] in Hs. destruct (z <? 2 ^ 63)%Z eqn:E63; [|discriminate Hs].
      destruct (fits i8 z) eqn:F; [|discriminate Hs].
      eapply (scalar_lift PI8 (NInt I8 z)); try reflexivity; try eassumption; try discriminate.
      + cbn [prim_conforms erase prim_ty has_type ikind_eqb andb]. exact F.
      + cbn [unamb ik_signed ik_ity signed]. apply in_range_b in F. unfold in_range in F. cbn in F.
        apply andb_true_intro. split; [apply Z.leb_le|apply Z.ltb_lt]; lia.
      + cbn [ser_prim]. cbv zeta. cbn [as_i64]. rewrite E63, F. exact Hs.
  Abort.
End Reenc.
