(* DynReenc.v: whatever the dynamic encoder accepts, the dynamic decoder reads back and
   re-encodes to the same bytes (C18), outside the three known classes. *)
From PV Require Import Base MachineInt VarintParams GenArith GenLoops GenPanicArms Varint Utf8 DataModel De Ser Schema SchemaDecl SchemaFmt SchemaConv SchemaOps Conform WireFormat Dyn JsonOf DynSizeDefs.
From PV Require Import BaseFacts VarintFacts VarintCore ZigZagFacts Utf8Facts SerFacts DeFacts SchemaFacts DynFacts DynAgree DynAgreeDe DynSerMin.
From Coq Require Import Lia.
Open Scope N_scope.

Section Reenc.
  Variable int_to_f64 : Z -> N.
  Variable narrow widen : N -> N.
  Variable lim : bool.             (* true: arrays of at most 65536 elements; false: any length, sequence elements of at least one byte *)
  (* what the statement needs from the host's float unit *)
  Hypothesis narrow_widen : forall b, b < 2 ^ 32 -> f32_finite b = true -> narrow (widen b) = b.
  Hypothesis narrow_range : forall b, narrow b < 2 ^ 32.
  Hypothesis int_to_f64_finite : forall z, int_to_f64 z < 2 ^ 64 /\ f64_finite (int_to_f64 z) = true.
  Let SER := dyn_ser int_to_f64 narrow.
  Let DE := dyn_de widen.

  Definition reenc_at (s : schema) : Prop :=
    forall j bs rest, json_wf_g lim j = true -> SER s j = DOk bs -> bytes_ok rest ->
    bytes_ok bs /\ exists j', DE s (bs ++ rest) = DOk (j', rest) /\ SER s j' = DOk bs.

  Lemma uvar_bytes t z : is_vty t -> (0 <= z < 2 ^ bits t)%Z -> uvar (std_writer t) z = spec_varint (Z.to_N z) /\ bytes_ok (uvar (std_writer t) z).
  Proof. intros Ht Hz. rewrite (uvar_std t z Ht Hz). split; [reflexivity|apply spec_varint_bytes_ok]. Qed.

  Lemma fits_range t z : fits t z = true -> in_range t z.
  Proof. apply in_range_b. Qed.

  (* ---- scalars ---- *)
  (* the integer, bool, string, char and byte-array arms accept exactly the JSON form of a
     conforming scalar: both agreement theorems of C17 apply *)
  Lemma scalar_lift (p : prim) (v : nvalue) j bs rest :
    json_of widen v = j -> prim_conforms 0 v p = true -> unamb v = true -> p <> PSchema ->
    ser_prim int_to_f64 narrow p j = DOk bs -> bytes_ok rest ->
    bytes_ok bs /\ exists j', de_prim widen p (bs ++ rest) = DOk (j', rest) /\ ser_prim int_to_f64 narrow p j' = DOk bs.
  Proof.
    intros <- Hc Hu Hp Hs Hr.
    rewrite (prim_agree int_to_f64 narrow widen narrow_widen 0 v p Hc Hu Hp) in Hs. injection Hs as <-.
    split.
    - destruct p; try (exfalso; apply Hp; reflexivity); cbn [prim_conforms] in Hc;
        (eapply spec_enc_ok; destruct v; try discriminate Hc; exact Hc).
    - exists (json_of widen v). split.
      + apply (prim_agree_de widen 0 v p rest Hc Hu Hp Hr).
      + apply (prim_agree int_to_f64 narrow widen narrow_widen 0 v p Hc Hu Hp).
  Qed.

  Definition is_int_prim (p : prim) : bool :=
    match p with
    | PI8 | PU8 | PI16 | PI32 | PI64 | PI128 | PU16 | PU32 | PU64 | PU128 | PUsize | PIsize => true
    | _ => false
    end.

  Ltac bools :=
    repeat match goal with
           | H : (_ && _)%bool = true |- _ => apply andb_prop in H as [? ?]
           | H : (_ <=? _)%Z = true |- _ => apply Z.leb_le in H
           | H : (_ <? _)%Z = true |- _ => apply Z.ltb_lt in H
           end.
  Ltac goal_bools :=
    repeat match goal with
           | |- (_ && _)%bool = true => apply andb_true_intro; split
           | |- (_ <=? _)%Z = true => apply Z.leb_le
           | |- (_ <? _)%Z = true => apply Z.ltb_lt
           end.

  Lemma int_arm_inv p j bs :
    is_int_prim p = true -> ser_prim int_to_f64 narrow p j = DOk bs ->
    exists k z, j = JInt z /\ prim_conforms 0 (NInt k z) p = true /\ unamb (NInt k z) = true.
  Proof.
    intros Hi Hs.
    destruct p; try discriminate Hi; cbn [ser_prim] in Hs; cbv zeta in Hs; destruct j; try discriminate Hs;
      cbn [as_i64 as_u64] in Hs;
      repeat match type of Hs with context [if ?c then _ else _] => let E := fresh "E" in destruct c eqn:E; try discriminate Hs end;
      unfold fits, in_rangeb in *; cbn [signed bits i8 i16 i32 i64 i128 u8 u16 u32 u64 u128 usize isize] in *; bools.
    - exists I8, z. split; [reflexivity|]. split; [cbn [prim_conforms erase prim_ty has_type]; unfold in_rangeb; cbn; goal_bools; first [reflexivity | lia] | cbn [unamb]; unfold ik_signed; cbn; goal_bools; lia].
    - exists U8, z. split; [reflexivity|]. split; [cbn [prim_conforms erase prim_ty has_type]; unfold in_rangeb; cbn; goal_bools; first [reflexivity | lia] | cbn [unamb]; unfold ik_signed; cbn; goal_bools; lia].
    - exists I16, z. split; [reflexivity|]. split; [cbn [prim_conforms erase prim_ty has_type]; unfold in_rangeb; cbn; goal_bools; first [reflexivity | lia] | cbn [unamb]; unfold ik_signed; cbn; goal_bools; lia].
    - exists I32, z. split; [reflexivity|]. split; [cbn [prim_conforms erase prim_ty has_type]; unfold in_rangeb; cbn; goal_bools; first [reflexivity | lia] | cbn [unamb]; unfold ik_signed; cbn; goal_bools; lia].
    - exists I64, z. split; [reflexivity|]. split; [cbn [prim_conforms erase prim_ty has_type]; unfold in_rangeb; cbn; goal_bools; first [reflexivity | lia] | cbn [unamb]; unfold ik_signed; cbn; goal_bools; lia].
    - exists I128, z. split; [reflexivity|]. split; [cbn [prim_conforms erase prim_ty has_type]; unfold in_rangeb; cbn; goal_bools; first [reflexivity | lia] | cbn [unamb]; unfold ik_signed; cbn; goal_bools; lia].
    - exists U16, z. split; [reflexivity|]. split; [cbn [prim_conforms erase prim_ty has_type]; unfold in_rangeb; cbn; goal_bools; first [reflexivity | lia] | cbn [unamb]; unfold ik_signed; cbn; goal_bools; lia].
    - exists U32, z. split; [reflexivity|]. split; [cbn [prim_conforms erase prim_ty has_type]; unfold in_rangeb; cbn; goal_bools; first [reflexivity | lia] | cbn [unamb]; unfold ik_signed; cbn; goal_bools; lia].
    - exists U64, z. split; [reflexivity|]. split; [cbn [prim_conforms erase prim_ty has_type]; unfold in_rangeb; cbn; goal_bools; first [reflexivity | lia] | cbn [unamb]; unfold ik_signed; cbn; goal_bools; lia].
    - exists U128, z. split; [reflexivity|]. split; [cbn [prim_conforms erase prim_ty has_type]; unfold in_rangeb; cbn; goal_bools; first [reflexivity | lia] | cbn [unamb]; unfold ik_signed; cbn; goal_bools; lia].
    - exists U64, z. split; [reflexivity|]. split; [cbn [prim_conforms erase prim_ty has_type]; unfold in_rangeb; cbn; goal_bools; first [reflexivity | lia] | cbn [unamb]; unfold ik_signed; cbn; goal_bools; lia].
    - exists I64, z. split; [reflexivity|]. split; [cbn [prim_conforms erase prim_ty has_type]; unfold in_rangeb; cbn; goal_bools; first [reflexivity | lia] | cbn [unamb]; unfold ik_signed; cbn; goal_bools; lia].
  Qed.

  Lemma bytes_loop_inv : forall (l : list json) (acc : list byte) bs,
    (fix go (l : list json) (acc : list byte) : ser_res :=
       match l with
       | [] => DOk (len_prefix (length acc) ++ rev acc)
       | x :: r => match as_u64 x with
                   | Some z => if fits u8 z then go r (Z.to_N z :: acc) else mismatch
                   | None => mismatch
                   end
       end) l acc = DOk bs ->
    exists bytes, l = map (fun b => JInt (Z.of_N b)) bytes /\ bytes_ok bytes /\
                  bs = len_prefix (length acc + length bytes) ++ rev acc ++ bytes.
  Proof.
    induction l as [|x r IH]; intros acc bs H.
    - injection H as <-. exists []. split; [reflexivity|]. split; [constructor|]. rewrite Nat.add_0_r, app_nil_r. reflexivity.
    - destruct x; cbn [as_u64] in H; try discriminate H. destruct (0 <=? z)%Z eqn:E0; [|discriminate H].
      destruct (fits u8 z) eqn:F; [|discriminate H]. apply IH in H as (bytes & -> & Hok & ->).
      unfold fits, in_rangeb in F. cbn [signed bits u8] in F. apply andb_prop in F as [F1 F2]. apply Z.leb_le in F1. apply Z.ltb_lt in F2.
      exists (Z.to_N z :: bytes). split; [cbn [map]; rewrite Z2N.id by lia; reflexivity|]. split.
      + constructor; [unfold byte_ok; change 256 with (Z.to_N 256); apply Z2N.inj_lt; lia|exact Hok].
      + cbn [length rev]. rewrite <- app_assoc. cbn [app]. f_equal. f_equal. lia.
  Qed.

  Lemma prim_reenc p : reenc_at (SPrim p).
  Proof.
    unfold reenc_at. intros j bs rest Hwf Hs Hr. unfold SER, DE in *. cbn [dyn_ser dyn_de] in *.
    rewrite (ser_no_panic_arm (SPrim p)) in Hs. rewrite (ser_no_panic_arm (SPrim p)). rewrite (de_no_panic_arm (SPrim p)).
    destruct (is_int_prim p) eqn:Hint.
    { destruct (int_arm_inv p j bs Hint Hs) as (k & z & -> & Hc & Hu).
      apply (scalar_lift p (NInt k z) (JInt z) bs rest eq_refl Hc Hu); [intros ->; discriminate Hint|exact Hs|exact Hr]. }
    destruct p; try discriminate Hint; cbn [ser_prim] in Hs; cbv zeta in Hs.
    - (* bool *) destruct j; try discriminate Hs.
      apply (scalar_lift PBool (NBool b) (JBool b) bs rest eq_refl); try reflexivity; try assumption; discriminate.
    - (* f32 *) destruct (as_f64 int_to_f64 j) as [b|] eqn:Ef; [|discriminate Hs].
      destruct (f32_finite (narrow b)) eqn:Ff; [|discriminate Hs]. replace bs with (le_bytes 4 (narrow b)) by congruence. clear Hs.
      split; [apply le_bytes_ok|]. exists (JFloat (widen (narrow b))). cbn [de_prim ser_prim as_f64].
      assert (E4 : 4 = N.of_nat (length (le_bytes 4 (narrow b)))) by (rewrite le_bytes_length; reflexivity).
      rewrite E4 at 1. rewrite take_n_app. cbn [dbind]. rewrite of_le_bytes_le_bytes. change (256 ^ N.of_nat 4) with (2 ^ 32).
      rewrite N.mod_small by apply narrow_range. rewrite Ff. split; [reflexivity|].
      rewrite narrow_widen by (try apply narrow_range; exact Ff). rewrite Ff. reflexivity.
    - (* f64 *) destruct (as_f64 int_to_f64 j) as [b|] eqn:Ef; [|discriminate Hs]. replace bs with (le_bytes 8 b) by congruence. clear Hs.
      assert (Hb : b < 2 ^ 64 /\ f64_finite b = true).
      { destruct j; cbn [as_f64] in Ef; try discriminate Ef; injection Ef as <-; [apply int_to_f64_finite|].
        cbn [json_wf_g] in Hwf. apply andb_prop in Hwf as [H1 H2]. apply N.ltb_lt in H1. split; assumption. }
      destruct Hb as [Hlt Hfin].
      split; [apply le_bytes_ok|]. exists (JFloat b). cbn [de_prim ser_prim as_f64].
      assert (E8 : 8 = N.of_nat (length (le_bytes 8 b))) by (rewrite le_bytes_length; reflexivity).
      rewrite E8 at 1. rewrite take_n_app. cbn [dbind]. rewrite of_le_bytes_le_bytes. change (256 ^ N.of_nat 8) with (2 ^ 64).
      rewrite N.mod_small by exact Hlt. rewrite Hfin. split; reflexivity.
    - (* char *) destruct j; try discriminate Hs. destruct (utf8_chars bs0) as [[|c [|? ?]]|] eqn:Ec; try discriminate Hs.
      injection Hs as <-. cbn [json_wf_g] in Hwf. apply andb_prop in Hwf as [Hwf Hl]. apply andb_prop in Hwf as [Hb Hu].
      apply N.ltb_lt in Hl. apply bytes_okb_spec in Hb. rewrite len_prefix_spec by exact Hl.
      split; [apply bytes_ok_app; split; [apply spec_varint_bytes_ok|exact Hb]|].
      exists (JStr bs0). cbn [de_prim ser_prim]. rewrite <- app_assoc, de_str_roundtrip by assumption. cbn [dbind]. rewrite Ec.
      split; [reflexivity|]. rewrite len_prefix_spec by exact Hl. reflexivity.
    - (* string *) destruct j; try discriminate Hs. injection Hs as <-.
      cbn [json_wf_g] in Hwf. apply andb_prop in Hwf as [Hwf Hl]. apply andb_prop in Hwf as [Hb Hu].
      apply N.ltb_lt in Hl. apply bytes_okb_spec in Hb. rewrite len_prefix_spec by exact Hl.
      split; [apply bytes_ok_app; split; [apply spec_varint_bytes_ok|exact Hb]|].
      exists (JStr bs0). cbn [de_prim ser_prim]. rewrite <- app_assoc, de_str_roundtrip by assumption. cbn [dbind].
      split; [reflexivity|]. rewrite len_prefix_spec by exact Hl. reflexivity.
    - (* byte array *) destruct j; try discriminate Hs. destruct (bytes_loop_inv l [] bs Hs) as (bytes & -> & Hok & Ebs).
      cbn [json_wf_g] in Hwf. apply andb_prop in Hwf as [_ Hl].
      assert (Hl' : N.of_nat (length bytes) < 2 ^ 64) by (rewrite map_length in Hl; destruct lim; [apply N.leb_le in Hl|apply N.ltb_lt in Hl]; lia).
      clear Hl. rename Hl' into Hl.
      apply (scalar_lift PByteArray (NBytes bytes) _ bs rest eq_refl); try assumption; try discriminate; try reflexivity.
      cbn [prim_conforms erase prim_ty has_type]. apply andb_true_intro. split; [apply bytes_okb_spec; exact Hok|apply N.ltb_lt; lia].
    - (* unit *) injection Hs as <-. split; [constructor|]. exists JNull. split; reflexivity.
    - (* schema *) discriminate Hs.
  Qed.

  (* ---- what a decoder returns under a non-nullable schema is never JSON null ---- *)
  Lemma de_non_null : forall s bs j r, schema_wf s = true -> nullable s = false -> DE s bs = DOk (j, r) -> j <> JNull.
  Proof.
    induction s as [p|t IH|t IH|ts IH|k v IHk IHv|n k fs IH|n vs IH] using schema_ind'; intros bs j r Hwf Hn H;
      unfold DE in H; cbn [dyn_de] in H; rewrite de_no_panic_arm in H; fold DE in H.
    - destruct p; cbn [nullable] in Hn; try discriminate Hn; cbn [de_prim] in H; cbv zeta in H;
        repeat match type of H with
               | dbind (if ?c then _ else _) _ = _ => destruct c; cbn [dbind] in H; try discriminate H
               | dbind ?x _ = _ => let E := fresh "E" in destruct x as [[? ?]| | |] eqn:E; cbn [dbind] in H; try discriminate H
               | (if ?c then _ else _) = _ => destruct c; try discriminate H
               | match ?x with _ => _ end = _ => destruct x; try discriminate H
               end; try discriminate H; try (injection H as <- _; discriminate).
    - discriminate Hn.
    - destruct (dusize bs) as [[cnt r0]| | |]; cbn [dbind] in H; try discriminate H.
      destruct (de_repeat _ _ _ _ _) as [[js r1]| | |]; cbn [dbind] in H; try discriminate H. injection H as <- _. discriminate.
    - destruct (de_all DE ts bs) as [[js r1]| | |]; cbn [dbind] in H; try discriminate H. injection H as <- _. discriminate.
    - destruct k as [[]| | | | | |]; try discriminate H.
      destruct (dusize bs) as [[cnt r0]| | |]; cbn [dbind] in H; try discriminate H.
      destruct (de_entries _ _ _ _ _) as [[obj r1]| | |]; cbn [dbind] in H; try discriminate H. injection H as <- _. discriminate.
    - cbn [schema_wf] in Hwf. apply andb_prop in Hwf as [Wd Wf]. destruct k; cbn [de_data nullable] in *.
      + discriminate Hn.
      + destruct fs as [|f [|? ?]]; try discriminate H. apply Forall_inv in IH. cbn [forallb] in Wf. apply andb_prop in Wf as [Wf _].
        eapply IH; eassumption.
      + destruct (de_snd_all DE fs bs) as [[js r1]| | |]; cbn [dbind] in H; try discriminate H. injection H as <- _. discriminate.
      + destruct (de_fields DE fs [] bs) as [[obj r1]| | |]; cbn [dbind] in H; try discriminate H. injection H as <- _. discriminate.
    - destruct (dusize bs) as [[idx r0]| | |]; cbn [dbind] in H; try discriminate H.
      revert H. generalize (if idx <? N.of_nat (length vs) then N.to_nat idx else length vs) as i. clear IH Hwf Hn.
      induction vs as [|v rest0 IHv]; intros i H; [destruct i; discriminate H|]. destruct i as [|i]; [|eapply IHv; exact H].
      destruct (snd (fst v)); [injection H as <- _; discriminate|..];
        (destruct (de_data DE _ (snd v) r0) as [[j0 r1]| | |]; cbn [dbind] in H; try discriminate H; injection H as <- _; discriminate).
  Qed.

  (* ---- objects built by insertion ---- *)
  Definition ins_kj (acc : list (list byte * json)) (kj : list byte * json) := obj_insert (fst kj) (snd kj) acc.
  Lemma fold_insert_kj (xs : list (list byte * json)) :
    names_distinct (map fst xs) = true -> forall acc,
    (forall f, In f xs -> obj_get (fst f) acc = None) ->
    length (fold_left ins_kj xs acc) = (length acc + length xs)%nat /\
    (forall f, In f xs -> obj_get (fst f) (fold_left ins_kj xs acc) = Some (snd f)).
  Proof.
    intros Hd acc Hnone.
    assert (X : forall xs, names_distinct (map fst xs) = true -> forall acc,
                (forall f : list byte * json, In f xs -> obj_get (fst f) acc = None) ->
                length (fold_left ins_kj xs acc) = (length acc + length xs)%nat /\
                (forall f, In f xs -> obj_get (fst f) (fold_left ins_kj xs acc) = Some (snd f)) /\
                (forall k, (forall f, In f xs -> fst f <> k) -> obj_get k (fold_left ins_kj xs acc) = obj_get k acc)).
    { clear. induction xs as [|x r IH]; intros Hd acc Hnone; cbn [fold_left length].
      - split; [lia|]. split; [intros f []|reflexivity].
      - cbn [map] in Hd. apply names_distinct_cons in Hd as [Hne Hd].
        assert (Hnone' : forall f, In f r -> obj_get (fst f) (ins_kj acc x) = None).
        { intros f Hf. unfold ins_kj. rewrite obj_get_insert_neq; [apply Hnone; right; exact Hf|].
          apply Hne. apply in_map. exact Hf. }
        destruct (IH Hd (ins_kj acc x) Hnone') as (L & G & O). split; [|split].
        + rewrite L. unfold ins_kj. rewrite obj_insert_length_new by (apply Hnone; left; reflexivity). lia.
        + intros f [<-|Hf]; [|apply G; exact Hf].
          rewrite O; [unfold ins_kj; apply obj_get_insert_eq|].
          intros g Hg E. apply (Hne (fst g)); [apply in_map; exact Hg|symmetry; exact E].
        + intros k Hk. rewrite O by (intros f Hf; apply Hk; right; exact Hf).
          unfold ins_kj. apply obj_get_insert_neq. apply Hk. left. reflexivity. }
    destruct (X xs Hd acc Hnone) as (L & G & _). split; assumption.
  Qed.

  Lemma fold_insert_asc (xs : list (list byte * json)) :
    keys_ascending (map fst xs) = true -> forall acc,
    (forall e x, In e acc -> In x xs -> bytes_cmp (fst e) (fst x) = Lt) ->
    fold_left ins_kj xs acc = acc ++ xs.
  Proof.
    induction xs as [|x r IH]; intros Ha acc Hlt; cbn [fold_left]; [rewrite app_nil_r; reflexivity|].
    assert (Ha' : keys_ascending (map fst r) = true /\ forall y, In y r -> bytes_cmp (fst x) (fst y) = Lt).
    { clear IH Hlt. revert x Ha. induction r as [|b r' IHr]; intros x Ha; [split; [reflexivity|intros ? []]|].
      cbn [map keys_ascending] in Ha. destruct (bytes_cmp (fst x) (fst b)) eqn:E; try discriminate Ha.
      split; [exact Ha|]. intros y [<-|Hin]; [exact E|].
      destruct (IHr b Ha) as [_ Hall]. eapply bytes_cmp_trans; [exact E|apply Hall; exact Hin]. }
    destruct Ha' as [Ha' Hfirst]. unfold ins_kj at 2. rewrite obj_insert_last.
    2:{ apply Forall_forall. intros e He. apply (Hlt e x He (or_introl eq_refl)). }
    rewrite IH; [|exact Ha'|].
    - rewrite <- app_assoc. destruct x; reflexivity.
    - intros e y He Hin. apply in_app_or in He as [He|[<-|[]]].
      + apply Hlt; [exact He|right; exact Hin].
      + cbn [fst]. apply Hfirst. exact Hin.
  Qed.

  Lemma obj_get_In k obj j : obj_get k obj = Some j -> exists k', In (k', j) obj.
  Proof.
    induction obj as [|[k' v] r IH]; cbn [obj_get]; [discriminate|].
    destruct (list_N_eqb k k').
    - intros [= <-]. exists k'. left. reflexivity.
    - intros H. destruct (IH H) as [k2 Hin]. exists k2. right. exact Hin.
  Qed.

  Lemma dusize_len n rest : N.of_nat n < 2 ^ 64 -> bytes_ok rest ->
    bytes_ok (len_prefix n) /\ dusize (len_prefix n ++ rest) = DOk (N.of_nat n, rest).
  Proof.
    intros Hn Hr. rewrite (len_prefix_spec n Hn). unfold spec_len. split; [apply spec_varint_bytes_ok|].
    apply dusize_roundtrip; assumption.
  Qed.

  Lemma find_variant_inv name (vs : list (str * dkind * list (str * schema))) i k fs :
    find_variant name vs = Some (i, k, fs) -> nth_error vs i = Some (name, k, fs).
  Proof.
    unfold find_variant.
    assert (X : forall base j, (fix go (vs : list (str * dkind * list (str * schema))) (i : nat) :=
                                match vs with
                                | [] => None
                                | v :: r => if list_N_eqb (fst (fst v)) name then Some (i, snd (fst v), snd v) else go r (S i)
                                end) vs base = Some (j, k, fs) -> (base <= j)%nat /\ nth_error vs (j - base) = Some (name, k, fs)).
    { induction vs as [|v r IH]; intros base j H; [discriminate H|].
      destruct (list_N_eqb (fst (fst v)) name) eqn:E.
      - injection H as <- <- <-. apply list_N_eqb_eq in E. split; [lia|]. rewrite Nat.sub_diag. cbn [nth_error].
        destruct v as [[? ?] ?]. cbn [fst snd] in *. subst. reflexivity.
      - destruct (IH (S base) j H) as [L N0]. split; [lia|]. replace (j - base)%nat with (S (j - S base)) by lia. exact N0. }
    intros H. destruct (X 0%nat i H) as [_ N0]. rewrite Nat.sub_0_r in N0. exact N0.
  Qed.

  (* ---- sequences of sub-values ---- *)
  Lemma each_reenc t : reenc_at t -> forall l bs rest,
    forallb (json_wf_g lim) l = true -> ser_each (SER t) l = DOk bs -> bytes_ok rest ->
    bytes_ok bs /\ exists l', length l' = length l /\
      (forall fuel acc, (length l <= fuel)%nat -> de_repeat fuel (DE t) (N.of_nat (length l)) acc (bs ++ rest) = DOk (rev acc ++ l', rest)) /\
      ser_each (SER t) l' = DOk bs.
  Proof.
    intros Ht. induction l as [|j r IH]; intros bs rest Hw Hs Hr.
    - injection Hs as <-. split; [constructor|]. exists []. split; [reflexivity|]. split; [|reflexivity].
      intros fuel acc _. destruct fuel; cbn [de_repeat length app]; rewrite app_nil_r; reflexivity.
    - cbn [forallb] in Hw. apply andb_prop in Hw as [Hw1 Hw2]. cbn [ser_each] in Hs.
      destruct (SER t j) as [a| | |] eqn:Ea; try discriminate Hs. cbn [dbind] in Hs.
      destruct (ser_each (SER t) r) as [b| | |] eqn:Eb; try discriminate Hs. cbn [dbind] in Hs. injection Hs as <-.
      destruct (IH b rest Hw2 eq_refl Hr) as (Hb & l' & Hl & Hde & Hse).
      assert (Hok : bytes_ok (b ++ rest)) by (apply bytes_ok_app; split; assumption).
      destruct (Ht j a (b ++ rest) Hw1 Ea Hok) as (Ha & j' & Hdj & Hsj).
      split; [apply bytes_ok_app; split; assumption|]. exists (j' :: l'). split; [cbn [length]; congruence|]. split.
      + intros fuel acc Hf. destruct fuel as [|fuel]; [cbn [length] in Hf; lia|]. cbn [de_repeat].
        replace (N.of_nat (length (j :: r)) =? 0) with false by (symmetry; apply N.eqb_neq; cbn [length]; lia).
        rewrite <- app_assoc, Hdj. cbn [dbind].
        replace (N.of_nat (length (j :: r)) - 1) with (N.of_nat (length r)) by (cbn [length]; lia).
        rewrite (Hde fuel (j' :: acc) ltac:(cbn [length] in Hf; lia)). cbn [rev]. rewrite <- app_assoc. reflexivity.
      + cbn [ser_each]. rewrite Hsj. cbn [dbind]. rewrite Hse. reflexivity.
  Qed.

  Lemma zip_reenc ts : Forall reenc_at ts -> forall l bs rest, length l = length ts ->
    forallb (json_wf_g lim) l = true -> ser_zip SER ts l = DOk bs -> bytes_ok rest ->
    bytes_ok bs /\ exists l', length l' = length ts /\ de_all DE ts (bs ++ rest) = DOk (l', rest) /\ ser_zip SER ts l' = DOk bs.
  Proof.
    induction 1 as [|t ts Ht _ IH]; intros [|j r] bs rest Hl Hw Hs Hr; try discriminate Hl.
    - injection Hs as <-. split; [constructor|]. exists []. repeat split.
    - cbn [forallb] in Hw. apply andb_prop in Hw as [Hw1 Hw2]. cbn [ser_zip] in Hs.
      destruct (SER t j) as [a| | |] eqn:Ea; try discriminate Hs. cbn [dbind] in Hs.
      destruct (ser_zip SER ts r) as [b| | |] eqn:Eb; try discriminate Hs. cbn [dbind] in Hs. injection Hs as <-.
      destruct (IH r b rest ltac:(cbn [length] in Hl; lia) Hw2 Eb Hr) as (Hb & l' & Hl' & Hde & Hse).
      assert (Hok : bytes_ok (b ++ rest)) by (apply bytes_ok_app; split; assumption).
      destruct (Ht j a (b ++ rest) Hw1 Ea Hok) as (Ha & j' & Hdj & Hsj).
      split; [apply bytes_ok_app; split; assumption|]. exists (j' :: l'). split; [cbn [length]; congruence|]. split.
      + cbn [de_all]. rewrite <- app_assoc, Hdj. cbn [dbind]. rewrite Hde. reflexivity.
      + cbn [ser_zip]. rewrite Hsj. cbn [dbind]. rewrite Hse. reflexivity.
  Qed.

  Lemma snd_zip_reenc (fs : list (str * schema)) : Forall (fun f => reenc_at (snd f)) fs -> forall l bs rest, length l = length fs ->
    forallb (json_wf_g lim) l = true -> ser_snd_zip SER fs l = DOk bs -> bytes_ok rest ->
    bytes_ok bs /\ exists l', length l' = length fs /\ de_snd_all DE fs (bs ++ rest) = DOk (l', rest) /\ ser_snd_zip SER fs l' = DOk bs.
  Proof.
    induction 1 as [|t ts Ht _ IH]; intros [|j r] bs rest Hl Hw Hs Hr; try discriminate Hl.
    - injection Hs as <-. split; [constructor|]. exists []. repeat split.
    - cbn [forallb] in Hw. apply andb_prop in Hw as [Hw1 Hw2]. cbn [ser_snd_zip] in Hs.
      destruct (SER (snd t) j) as [a| | |] eqn:Ea; try discriminate Hs. cbn [dbind] in Hs.
      destruct (ser_snd_zip SER ts r) as [b| | |] eqn:Eb; try discriminate Hs. cbn [dbind] in Hs. injection Hs as <-.
      destruct (IH r b rest ltac:(cbn [length] in Hl; lia) Hw2 Eb Hr) as (Hb & l' & Hl' & Hde & Hse).
      assert (Hok : bytes_ok (b ++ rest)) by (apply bytes_ok_app; split; assumption).
      destruct (Ht j a (b ++ rest) Hw1 Ea Hok) as (Ha & j' & Hdj & Hsj).
      split; [apply bytes_ok_app; split; assumption|]. exists (j' :: l'). split; [cbn [length]; congruence|]. split.
      + cbn [de_snd_all]. rewrite <- app_assoc, Hdj. cbn [dbind]. rewrite Hde. reflexivity.
      + cbn [ser_snd_zip]. rewrite Hsj. cbn [dbind]. rewrite Hse. reflexivity.
  Qed.

  Lemma fields_reenc (fs : list (str * schema)) : Forall (fun f => reenc_at (snd f)) fs -> forall obj bs rest,
    (forall k j, In (k, j) obj -> json_wf_g lim j = true) -> ser_fields SER fs obj = DOk bs -> bytes_ok rest ->
    bytes_ok bs /\ exists xs : list (list byte * json), map fst xs = map fst fs /\
      (forall acc, de_fields DE fs acc (bs ++ rest) = DOk (fold_left ins_kj xs acc, rest)) /\
      (forall obj', (forall x, In x xs -> obj_get (fst x) obj' = Some (snd x)) -> ser_fields SER fs obj' = DOk bs).
  Proof.
    induction 1 as [|f r Hf _ IH]; intros obj bs rest Hw Hs Hr.
    - injection Hs as <-. split; [constructor|]. exists []. repeat split.
    - cbn [ser_fields] in Hs. destruct (obj_get (fst f) obj) as [j|] eqn:Eg; try discriminate Hs.
      destruct (SER (snd f) j) as [a| | |] eqn:Ea; try discriminate Hs. cbn [dbind] in Hs.
      destruct (ser_fields SER r obj) as [b| | |] eqn:Eb; try discriminate Hs. cbn [dbind] in Hs. injection Hs as <-.
      destruct (IH obj b rest Hw Eb Hr) as (Hb & xs & Hx & Hde & Hse).
      assert (Hok : bytes_ok (b ++ rest)) by (apply bytes_ok_app; split; assumption).
      destruct (obj_get_In _ _ _ Eg) as [k' Hin].
      destruct (Hf j a (b ++ rest) (Hw k' j Hin) Ea Hok) as (Ha & j' & Hdj & Hsj).
      split; [apply bytes_ok_app; split; assumption|]. exists ((fst f, j') :: xs). split; [cbn [map fst]; congruence|]. split.
      + intros acc. cbn [de_fields]. rewrite <- app_assoc, Hdj. cbn [dbind]. rewrite Hde. reflexivity.
      + intros obj' Hg. cbn [ser_fields]. pose proof (Hg (fst f, j') (or_introl eq_refl)) as Hg0. cbn [fst snd] in Hg0. rewrite Hg0, Hsj. cbn [dbind].
        rewrite (Hse obj' (fun x Hxin => Hg x (or_intror Hxin))). reflexivity.
  Qed.

  Definition kv_wf (kv : list byte * json) : bool :=
    bytes_okb (fst kv) && utf8_valid (fst kv) && (N.of_nat (length (fst kv)) <? 2 ^ 64) && json_wf_g lim (snd kv).
  Lemma entries_reenc t : reenc_at t -> forall obj bs rest,
    forallb kv_wf obj = true -> ser_entries (SER t) obj = DOk bs -> bytes_ok rest ->
    bytes_ok bs /\ exists obj', map fst obj' = map fst obj /\
      (forall fuel acc, (length obj <= fuel)%nat ->
         de_entries fuel (DE t) (N.of_nat (length obj)) acc (bs ++ rest) = DOk (fold_left ins_kj obj' acc, rest)) /\
      ser_entries (SER t) obj' = DOk bs.
  Proof.
    intros Ht. induction obj as [|[k j] r IH]; intros bs rest Hw Hs Hr.
    - injection Hs as <-. split; [constructor|]. exists []. split; [reflexivity|]. split; [|reflexivity].
      intros fuel acc _. destruct fuel; reflexivity.
    - cbn [forallb] in Hw. apply andb_prop in Hw as [Hw1 Hw2]. unfold kv_wf in Hw1. cbn [fst snd] in Hw1.
      apply andb_prop in Hw1 as [Hw1 Hwj]. apply andb_prop in Hw1 as [Hw1 Hkl]. apply andb_prop in Hw1 as [Hkb Hku].
      apply N.ltb_lt in Hkl. apply bytes_okb_spec in Hkb.
      cbn [ser_entries] in Hs.
      destruct (SER t j) as [a| | |] eqn:Ea; try discriminate Hs. cbn [dbind] in Hs.
      destruct (ser_entries (SER t) r) as [b| | |] eqn:Eb; try discriminate Hs. cbn [dbind] in Hs. injection Hs as <-.
      destruct (IH b rest Hw2 eq_refl Hr) as (Hb & obj' & Hk & Hde & Hse).
      assert (Hok : bytes_ok (b ++ rest)) by (apply bytes_ok_app; split; assumption).
      destruct (Ht j a (b ++ rest) Hwj Ea Hok) as (Ha & j' & Hdj & Hsj).
      rewrite (len_prefix_spec (length k) Hkl).
      split.
      { apply bytes_ok_app; split; [apply spec_varint_bytes_ok|]. apply bytes_ok_app; split; [exact Hkb|].
        apply bytes_ok_app; split; assumption. }
      exists ((k, j') :: obj'). split; [cbn [map fst]; congruence|]. split.
      + intros fuel acc Hf. destruct fuel as [|fuel]; [cbn [length] in Hf; lia|]. cbn [de_entries].
        replace (N.of_nat (length ((k, j) :: r)) =? 0) with false by (symmetry; apply N.eqb_neq; cbn [length]; lia).
        rewrite <- !app_assoc. rewrite de_str_roundtrip; [|exact Hkb|exact Hku|exact Hkl|].
        2:{ apply bytes_ok_app; split; [exact Ha|exact Hok]. }
        cbn [dbind]. rewrite Hdj. cbn [dbind].
        replace (N.of_nat (length ((k, j) :: r)) - 1) with (N.of_nat (length r)) by (cbn [length]; lia).
        rewrite (Hde fuel _ ltac:(cbn [length] in Hf; lia)). reflexivity.
      + cbn [ser_entries]. rewrite Hsj. cbn [dbind]. rewrite Hse. cbn [dbind]. rewrite (len_prefix_spec (length k) Hkl). reflexivity.
  Qed.

  (* ---- struct and variant bodies ---- *)
  Lemma data_reenc k (fs : list (str * schema)) : Forall (fun f => reenc_at (snd f)) fs ->
    (k = DStruct -> names_distinct (map fst fs) = true) -> forall j bs rest,
    json_wf_g lim j = true -> ser_data SER k fs j = DOk bs -> bytes_ok rest ->
    bytes_ok bs /\ exists j', de_data DE k fs (bs ++ rest) = DOk (j', rest) /\ ser_data SER k fs j' = DOk bs.
  Proof.
    intros Hfs Hd j bs rest Hw Hs Hr. destruct k; cbn [ser_data de_data] in *.
    - injection Hs as <-. split; [constructor|]. exists JNull. split; reflexivity.
    - destruct fs as [|f [|? ?]]; try discriminate Hs. apply Forall_inv in Hfs. apply (Hfs j bs rest Hw Hs Hr).
    - destruct j as [| | | | |l|]; try discriminate Hs. destruct (Nat.eqb_spec (length l) (length fs)) as [El|]; try discriminate Hs.
      cbn [json_wf_g] in Hw. apply andb_prop in Hw as [Hw _].
      destruct (snd_zip_reenc fs Hfs l bs rest El Hw Hs Hr) as (Hb & l' & Hl' & Hde & Hse).
      split; [exact Hb|]. exists (JArr l'). rewrite Hde. cbn [dbind]. split; [reflexivity|].
      rewrite Hl', Nat.eqb_refl. exact Hse.
    - destruct j as [| | | | | |obj]; try discriminate Hs. destruct (Nat.eqb_spec (length obj) (length fs)) as [El|]; try discriminate Hs.
      cbn [json_wf_g] in Hw. apply andb_prop in Hw as [Hw _]. apply andb_prop in Hw as [Hw _].
      assert (Hwj : forall k j, In (k, j) obj -> json_wf_g lim j = true).
      { intros k0 j0 Hin. rewrite forallb_forall in Hw. specialize (Hw _ Hin). cbn [fst snd] in Hw.
        apply andb_prop in Hw as [_ Hw]. exact Hw. }
      destruct (fields_reenc fs Hfs obj bs rest Hwj Hs Hr) as (Hb & xs & Hx & Hde & Hse).
      split; [exact Hb|]. exists (JObj (fold_left ins_kj xs [])). rewrite Hde. cbn [dbind]. split; [reflexivity|].
      assert (Hdx : names_distinct (map fst xs) = true) by (rewrite Hx; apply Hd; reflexivity).
      destruct (fold_insert_kj xs Hdx [] (fun f _ => eq_refl)) as [L G].
      rewrite L. cbn [length plus]. rewrite <- (map_length fst xs), Hx, map_length, Nat.eqb_refl.
      apply Hse. exact G.
  Qed.

  Lemma lift_fields (P : schema -> Prop) (fs : list (str * schema)) :
    Forall (fun f => schema_wf (snd f) = true -> reenc_scope_g lim (snd f) = true -> reenc_at (snd f)) fs ->
    forallb (fun f => schema_wf (snd f)) fs = true -> forallb (fun f => reenc_scope_g lim (snd f)) fs = true ->
    Forall (fun f => reenc_at (snd f)) fs.
  Proof.
    induction 1 as [|f r Hf _ IH]; intros Hw Hs; [constructor|]. cbn [forallb] in Hw, Hs.
    apply andb_prop in Hw as [Hw1 Hw2]. apply andb_prop in Hs as [Hs1 Hs2]. constructor; [apply Hf; assumption|apply IH; assumption].
  Qed.

  (* ---- the two variant walks, by position ---- *)
  Lemma ser_enum_obj n vs name payload :
    SER (SEnum n vs) (JObj [(name, payload)]) =
    match find_variant name vs with
    | Some (i, k, fs) => dlet a := ser_data SER k fs payload in DOk (len_prefix i ++ a)
    | None => mismatch
    end.
  Proof.
    unfold SER. cbn [dyn_ser]. rewrite ser_no_panic_arm. fold SER.
    destruct (find_variant name vs) as [[[i k] fs]|] eqn:E; [|reflexivity]. apply find_variant_inv in E.
    f_equal. revert i E. induction vs as [|v r IH]; intros [|i] E; try discriminate E.
    - injection E as ->. reflexivity.
    - apply IH. exact E.
  Qed.

  Lemma de_enum n vs bs :
    DE (SEnum n vs) bs =
    dlet '(idx, r) := dusize bs in
    match nth_error vs (if idx <? N.of_nat (length vs) then N.to_nat idx else length vs) with
    | Some v => match snd (fst v) with
                | DUnit => DOk (JStr (fst (fst v)), r)
                | k => dlet '(j, r') := de_data DE k (snd v) r in DOk (JObj [(fst (fst v), j)], r')
                end
    | None => DErr DynSchemaMismatch
    end.
  Proof.
    unfold DE. cbn [dyn_de]. rewrite de_no_panic_arm. fold DE.
    destruct (dusize bs) as [[idx r]| | |]; cbn [dbind]; try reflexivity.
    generalize (if idx <? N.of_nat (length vs) then N.to_nat idx else length vs) as i.
    induction vs as [|v r0 IH]; intros [|i]; try reflexivity. apply IH.
  Qed.

  (* ---- the theorem ---- *)
  (* every entry of a map starts with its key's length prefix: at least as many bytes as entries *)
  Lemma ser_entries_fit (f : json -> ser_res) obj a : ser_entries f obj = DOk a -> (length obj <= length a)%nat.
  Proof.
    revert a. induction obj as [|[k j] r IH]; intros a H; cbn [ser_entries] in H; [injection H as <-; cbn; lia|].
    destruct (f j) as [x| | |]; try discriminate H. cbn [dbind] in H.
    destruct (ser_entries f r) as [b| | |]; try discriminate H. cbn [dbind] in H. injection H as <-.
    specialize (IH b eq_refl). rewrite !app_length. cbn [length].
    assert (1 <= length (len_prefix (length k)))%nat.
    { unfold len_prefix, uvar, venc_with.
      change (Z.to_nat (Dyn.varint_max (w_ty dyn_writer_usize))) with 10%nat. cbn [venc_loop].
      destruct (cmp_eval _ _ _); cbn [length]; lia. }
    lia.
  Qed.

  (* as many bytes as elements at least, when no element of the schema can be empty *)
  Lemma ser_each_fit t l a : 1 <= dmin t -> ser_each (SER t) l = DOk a -> (length l <= length a)%nat.
  Proof.
    intros Hm. revert a. induction l as [|j r IH]; intros a H; cbn [ser_each] in H; [injection H as <-; cbn; lia|].
    destruct (SER t j) as [x| | |] eqn:Ex; try discriminate H. cbn [dbind] in H.
    destruct (ser_each (SER t) r) as [b| | |]; try discriminate H. cbn [dbind] in H. injection H as <-.
    specialize (IH b eq_refl). pose proof (ser_min int_to_f64 narrow t j x Ex). rewrite app_length. cbn [length]. lia.
  Qed.

  Theorem reenc : forall s, schema_wf s = true -> reenc_scope_g lim s = true -> reenc_at s.
  Proof.
    induction s as [p|t IH|t IH|ts IH|k v IHk IHv|n k fs IH|n vs IH] using schema_ind'; intros Hwf Hsc.
    - apply prim_reenc.
    - cbn [schema_wf reenc_scope_g] in Hwf, Hsc. apply andb_prop in Hsc as [Hnn Hsc]. apply negb_true_iff in Hnn.
      specialize (IH Hwf Hsc). intros j bs rest Hw Hs Hr. unfold SER in Hs. cbn [dyn_ser] in Hs. rewrite ser_no_panic_arm in Hs. fold SER in Hs.
      assert (Hnone : DE (SOption t) (0 :: rest) = DOk (JNull, rest)).
      { unfold DE. cbn [dyn_de]. rewrite de_no_panic_arm. reflexivity. }
      assert (Hsome : forall a, DE (SOption t) ((1 :: a) ++ rest) = DE t (a ++ rest)).
      { intros a. unfold DE. cbn [dyn_de]. rewrite de_no_panic_arm. reflexivity. }
      assert (Hser : forall j', j' <> JNull -> SER (SOption t) j' = dlet a := SER t j' in DOk (1 :: a)).
      { intros j' Hj. unfold SER. cbn [dyn_ser]. rewrite ser_no_panic_arm. destruct j'; try reflexivity. exfalso; apply Hj; reflexivity. }
      assert (Hcase : j = JNull \/ (j <> JNull /\ exists a, SER t j = DOk a /\ bs = 1 :: a)).
      { destruct j; [left; reflexivity|..]; right; (split; [discriminate|]);
          (destruct (SER t _) as [a| | |]; try discriminate Hs; cbn [dbind] in Hs; injection Hs as <-; exists a; split; reflexivity). }
      destruct Hcase as [->|(Hj & a & Ea & ->)].
      + injection Hs as <-. split; [repeat constructor|]. exists JNull. split; [apply Hnone|].
        unfold SER. cbn [dyn_ser]. rewrite ser_no_panic_arm. reflexivity.
      + destruct (IH j a rest Hw Ea Hr) as (Ha & j' & Hde & Hse).
        split; [constructor; [reflexivity|exact Ha]|]. exists j'. rewrite Hsome. split; [exact Hde|].
        rewrite Hser; [rewrite Hse; reflexivity|]. eapply de_non_null; eassumption.
    - cbn [schema_wf reenc_scope_g] in Hwf, Hsc. apply andb_prop in Hsc as [Hsc Hnz]. specialize (IH Hwf Hsc). intros j bs rest Hw Hs Hr.
      unfold SER in Hs. cbn [dyn_ser] in Hs. rewrite ser_no_panic_arm in Hs. fold SER in Hs.
      destruct j as [| | | | |l|]; try discriminate Hs. cbn [json_wf_g] in Hw. apply andb_prop in Hw as [Hw Hlen].
      destruct (ser_each (SER t) l) as [a| | |] eqn:Ea; try discriminate Hs. cbn [dbind] in Hs. injection Hs as <-.
      destruct (each_reenc t IH l a rest Hw Ea Hr) as (Ha & l' & Hl' & Hde & Hse).
      assert (Hok : bytes_ok (a ++ rest)) by (apply bytes_ok_app; split; assumption).
      assert (Hl64 : N.of_nat (length l) < 2 ^ 64) by (destruct lim; [apply N.leb_le in Hlen|apply N.ltb_lt in Hlen]; lia).
      destruct (dusize_len (length l) (a ++ rest) Hl64 Hok) as [Hp Hdu].
      split; [apply bytes_ok_app; split; assumption|]. exists (JArr l'). split.
      + unfold DE. cbn [dyn_de]. rewrite de_no_panic_arm. fold DE. rewrite <- app_assoc, Hdu. cbn [dbind].
        rewrite Hde; [reflexivity|]. rewrite <- (Nat2N.id (length l)) at 1. apply loop_fuel_enough.
        destruct lim; [left; apply N.leb_le; exact Hlen|right]. cbn [orb] in Hnz. apply N.leb_le in Hnz.
        pose proof (ser_each_fit t l a Hnz Ea). rewrite app_length. lia.
      + unfold SER. cbn [dyn_ser]. rewrite ser_no_panic_arm. fold SER. rewrite Hse, Hl'. reflexivity.
    - cbn [schema_wf reenc_scope_g] in Hwf, Hsc.
      assert (Hts : Forall reenc_at ts).
      { clear -IH Hwf Hsc. induction IH as [|t r Ht _ IHr]; [constructor|]. cbn [forallb] in Hwf, Hsc.
        apply andb_prop in Hwf as [W1 W2]. apply andb_prop in Hsc as [S1 S2]. constructor; [apply Ht; assumption|apply IHr; assumption]. }
      intros j bs rest Hw Hs Hr. unfold SER in Hs. cbn [dyn_ser] in Hs. rewrite ser_no_panic_arm in Hs. fold SER in Hs.
      destruct j as [| | | | |l|]; try discriminate Hs. destruct (Nat.eqb_spec (length l) (length ts)) as [El|]; try discriminate Hs.
      cbn [json_wf_g] in Hw. apply andb_prop in Hw as [Hw _].
      destruct (zip_reenc ts Hts l bs rest El Hw Hs Hr) as (Hb & l' & Hl' & Hde & Hse).
      split; [exact Hb|]. exists (JArr l'). split.
      + unfold DE. cbn [dyn_de]. rewrite de_no_panic_arm. fold DE. rewrite Hde. reflexivity.
      + unfold SER. cbn [dyn_ser]. rewrite ser_no_panic_arm. fold SER. rewrite Hl', Nat.eqb_refl. exact Hse.
    - cbn [schema_wf reenc_scope_g] in Hwf, Hsc. apply andb_prop in Hwf as [_ Hwv]. specialize (IHv Hwv Hsc).
      intros j bs rest Hw Hs Hr. unfold SER in Hs. cbn [dyn_ser] in Hs. rewrite ser_no_panic_arm in Hs. fold SER in Hs.
      destruct k as [[]| | | | | |]; try discriminate Hs.
      destruct j as [| | | | | |obj]; try discriminate Hs. cbn [json_wf_g] in Hw. apply andb_prop in Hw as [Hw Hlen]. apply N.ltb_lt in Hlen.
      apply andb_prop in Hw as [Hw Hasc].
      destruct (ser_entries (SER v) obj) as [a| | |] eqn:Ea; try discriminate Hs. cbn [dbind] in Hs. injection Hs as <-.
      destruct (entries_reenc v IHv obj a rest Hw Ea Hr) as (Ha & obj' & Hk & Hde & Hse).
      assert (Hok : bytes_ok (a ++ rest)) by (apply bytes_ok_app; split; assumption).
      destruct (dusize_len (length obj) (a ++ rest) ltac:(lia) Hok) as [Hp Hdu].
      assert (Hfold : fold_left ins_kj obj' [] = obj').
      { rewrite fold_insert_asc; [reflexivity|rewrite Hk; exact Hasc|intros e x []]. }
      split; [apply bytes_ok_app; split; assumption|]. exists (JObj obj'). split.
      + unfold DE. cbn [dyn_de]. rewrite de_no_panic_arm. fold DE. rewrite <- app_assoc, Hdu. cbn [dbind].
        rewrite Hde; [rewrite Hfold; reflexivity|]. rewrite <- (Nat2N.id (length obj)) at 1. apply loop_fuel_enough. right.
        pose proof (ser_entries_fit (SER v) obj a Ea). rewrite app_length. lia.
      + unfold SER. cbn [dyn_ser]. rewrite ser_no_panic_arm. fold SER. rewrite Hse. cbn [dbind].
        rewrite <- (map_length fst obj'), Hk, map_length. reflexivity.
    - cbn [schema_wf reenc_scope_g] in Hwf, Hsc. apply andb_prop in Hwf as [_ Hwf]. unfold body_ok in Hsc. apply andb_prop in Hsc as [Hsc Hd].
      pose proof (lift_fields (fun _ => True) fs IH Hwf Hsc) as Hfs.
      intros j bs rest Hw Hs Hr. unfold SER in Hs. cbn [dyn_ser] in Hs. rewrite ser_no_panic_arm in Hs. fold SER in Hs.
      destruct (data_reenc k fs Hfs ltac:(intros ->; exact Hd) j bs rest Hw Hs Hr) as (Hb & j' & Hde & Hse).
      split; [exact Hb|]. exists j'. split.
      + unfold DE. cbn [dyn_de]. rewrite de_no_panic_arm. fold DE. exact Hde.
      + unfold SER. cbn [dyn_ser]. rewrite ser_no_panic_arm. fold SER. exact Hse.
    - cbn [schema_wf reenc_scope_g] in Hwf, Hsc. apply andb_prop in Hsc as [Hsc Hcnt]. apply N.ltb_lt in Hcnt.
      assert (Hbody : forall i name k fs, nth_error vs i = Some (name, k, fs) ->
                N.of_nat i < 2 ^ 64 /\ (i < length vs)%nat /\ Forall (fun f => reenc_at (snd f)) fs /\ (k = DStruct -> names_distinct (map fst fs) = true)).
      { intros i name k fs Hn. assert (Hi : (i < length vs)%nat) by (apply nth_error_Some; congruence).
        apply nth_error_In in Hn. rewrite Forall_forall in IH. rewrite forallb_forall in Hwf, Hsc.
        specialize (IH _ Hn). specialize (Hwf _ Hn). specialize (Hsc _ Hn). cbn [fst snd] in *.
        apply andb_prop in Hwf as [_ Hwf]. unfold body_ok in Hsc. apply andb_prop in Hsc as [Hsc Hd].
        split; [lia|]. split; [exact Hi|]. split; [apply (lift_fields (fun _ => True) fs IH Hwf Hsc)|intros ->; exact Hd]. }
      intros j bs rest Hw Hs Hr.
      assert (Hstr : forall name, SER (SEnum n vs) (JStr name) =
                match find_variant name vs with Some (i, DUnit, _) => DOk (len_prefix i) | _ => mismatch end).
      { intros name. unfold SER. cbn [dyn_ser]. rewrite ser_no_panic_arm.
        destruct (find_variant name vs) as [[[i []] fs]|]; reflexivity. }
      destruct j as [| | | |name| |[|[name payload] [|? ?]]]; try (unfold SER in Hs; cbn [dyn_ser] in Hs; rewrite ser_no_panic_arm in Hs; discriminate Hs).
      + rewrite Hstr in Hs. destruct (find_variant name vs) as [[[i k] fs]|] eqn:Ef; try discriminate Hs.
        destruct k; try discriminate Hs. injection Hs as <-. pose proof (find_variant_inv _ _ _ _ _ Ef) as Hn.
        destruct (Hbody _ _ _ _ Hn) as (Hi & Hlt & _ & _).
        destruct (dusize_len i rest Hi Hr) as [Hp Hdu]. split; [exact Hp|]. exists (JStr name). split.
        * rewrite de_enum, Hdu. cbn [dbind]. replace (N.of_nat i <? N.of_nat (length vs)) with true by (symmetry; apply N.ltb_lt; lia).
          rewrite Nat2N.id, Hn. reflexivity.
        * rewrite Hstr, Ef. reflexivity.
      + rewrite ser_enum_obj in Hs. destruct (find_variant name vs) as [[[i k] fs]|] eqn:Ef; try discriminate Hs.
        destruct (ser_data SER k fs payload) as [a| | |] eqn:Ea; try discriminate Hs. cbn [dbind] in Hs. injection Hs as <-.
        pose proof (find_variant_inv _ _ _ _ _ Ef) as Hn. destruct (Hbody _ _ _ _ Hn) as (Hi & Hlt & Hfs & Hd).
        cbn [json_wf_g forallb fst snd] in Hw. apply andb_prop in Hw as [Hw _]. apply andb_prop in Hw as [Hw _].
        apply andb_prop in Hw as [Hw _]. apply andb_prop in Hw as [_ Hwp].
        destruct (data_reenc k fs Hfs Hd payload a rest Hwp Ea Hr) as (Ha & j' & Hde & Hse).
        assert (Hok : bytes_ok (a ++ rest)) by (apply bytes_ok_app; split; assumption).
        destruct (dusize_len i (a ++ rest) Hi Hok) as [Hp Hdu]. split; [apply bytes_ok_app; split; assumption|].
        assert (Hdec : DE (SEnum n vs) ((len_prefix i ++ a) ++ rest) =
                  match k with DUnit => DOk (JStr name, a ++ rest)
                          | _ => dlet '(j, r') := de_data DE k fs (a ++ rest) in DOk (JObj [(name, j)], r') end).
        { rewrite de_enum, <- app_assoc, Hdu. cbn [dbind].
          replace (N.of_nat i <? N.of_nat (length vs)) with true by (symmetry; apply N.ltb_lt; lia).
          rewrite Nat2N.id, Hn. cbn [fst snd]. destruct k; reflexivity. }
        destruct k.
        * cbn [ser_data] in Ea. injection Ea as <-. exists (JStr name). rewrite Hdec. split; [reflexivity|].
          rewrite Hstr, Ef, app_nil_r. reflexivity.
        * exists (JObj [(name, j')]). rewrite Hdec, Hde. cbn [dbind]. split; [reflexivity|].
          rewrite ser_enum_obj, Ef, Hse. reflexivity.
        * exists (JObj [(name, j')]). rewrite Hdec, Hde. cbn [dbind]. split; [reflexivity|].
          rewrite ser_enum_obj, Ef, Hse. reflexivity.
        * exists (JObj [(name, j')]). rewrite Hdec, Hde. cbn [dbind]. split; [reflexivity|].
          rewrite ser_enum_obj, Ef, Hse. reflexivity.
  Qed.
End Reenc.

(* the statement without the section's abbreviations *)
Theorem reencode int_to_f64 narrow widen :
  (forall b, b < 2 ^ 32 -> f32_finite b = true -> narrow (widen b) = b) ->
  (forall b, narrow b < 2 ^ 32) ->
  (forall z, int_to_f64 z < 2 ^ 64 /\ f64_finite (int_to_f64 z) = true) ->
  forall s j bs, schema_wf s = true -> reenc_scope s = true -> json_wf j = true ->
  dyn_ser int_to_f64 narrow s j = DOk bs ->
  exists j', from_slice_dyn widen s bs = DOk j' /\ dyn_ser int_to_f64 narrow s j' = DOk bs.
Proof.
  intros H1 H2 H3 s j bs Hwf Hsc Hw Hs.
  destruct (reenc int_to_f64 narrow widen true H1 H2 H3 s Hwf Hsc j bs [] Hw Hs ltac:(constructor)) as (_ & j' & Hde & Hse).
  exists j'. split; [|exact Hse]. unfold from_slice_dyn. rewrite app_nil_r in Hde. rewrite Hde. reflexivity.
Qed.

(* ... and without the bound on array lengths, for schemas whose sequence elements occupy at least
   one byte each (reenc_scope_g false: the scope above, and 1 <= dmin t under every Seq) *)
Theorem reencode_any_size int_to_f64 narrow widen :
  (forall b, b < 2 ^ 32 -> f32_finite b = true -> narrow (widen b) = b) ->
  (forall b, narrow b < 2 ^ 32) ->
  (forall z, int_to_f64 z < 2 ^ 64 /\ f64_finite (int_to_f64 z) = true) ->
  forall s j bs, schema_wf s = true -> reenc_scope_g false s = true -> json_wf_g false j = true ->
  dyn_ser int_to_f64 narrow s j = DOk bs ->
  exists j', from_slice_dyn widen s bs = DOk j' /\ dyn_ser int_to_f64 narrow s j' = DOk bs.
Proof.
  intros H1 H2 H3 s j bs Hwf Hsc Hw Hs.
  destruct (reenc int_to_f64 narrow widen false H1 H2 H3 s Hwf Hsc j bs [] Hw Hs ltac:(constructor)) as (_ & j' & Hde & Hse).
  exists j'. split; [|exact Hse]. unfold from_slice_dyn. rewrite app_nil_r in Hde. rewrite Hde. reflexivity.
Qed.

(* the scope of reencode_any_size, from the two predicates used elsewhere *)
Lemma scope_any_size : forall s, reenc_scope s = true -> dno_zero s = true -> reenc_scope_g false s = true.
Proof.
  unfold reenc_scope.
  induction s as [p|t IH|t IH|ts IH|k v IHk IHv|n k fs IH|n vs IH] using schema_ind'; intros Hs Hz;
    cbn [reenc_scope_g dno_zero] in *.
  - reflexivity.
  - apply andb_prop in Hs as [Hn Hs]. rewrite Hn. cbn [andb]. apply IH; assumption.
  - apply andb_prop in Hs as [Hs _]. apply andb_prop in Hz as [Hz Hm]. rewrite (IH Hs Hz). cbn [andb orb]. exact Hm.
  - rewrite forallb_forall in *. rewrite Forall_forall in IH. intros t Ht. apply IH; auto.
  - apply andb_prop in Hz as [_ Hz]. apply IHv; assumption.
  - unfold body_ok in *. apply andb_prop in Hs as [Hs Hd]. rewrite Hd, andb_true_r.
    rewrite forallb_forall in *. rewrite Forall_forall in IH. intros f Hf. apply IH; auto.
  - apply andb_prop in Hs as [Hs Hc]. rewrite Hc, andb_true_r. rewrite forallb_forall in *. rewrite Forall_forall in IH.
    intros v Hv. specialize (Hs v Hv). specialize (Hz v Hv). specialize (IH v Hv). unfold body_ok in *.
    apply andb_prop in Hs as [Hs Hd]. rewrite Hd, andb_true_r.
    rewrite forallb_forall in *. rewrite Forall_forall in IH. intros f Hf. apply IH; auto.
Qed.

Theorem reencode_any_size_nz int_to_f64 narrow widen :
  (forall b, b < 2 ^ 32 -> f32_finite b = true -> narrow (widen b) = b) ->
  (forall b, narrow b < 2 ^ 32) ->
  (forall z, int_to_f64 z < 2 ^ 64 /\ f64_finite (int_to_f64 z) = true) ->
  forall s j bs, schema_wf s = true -> reenc_scope s = true -> dno_zero s = true -> json_wf_g false j = true ->
  dyn_ser int_to_f64 narrow s j = DOk bs ->
  exists j', from_slice_dyn widen s bs = DOk j' /\ dyn_ser int_to_f64 narrow s j' = DOk bs.
Proof.
  intros H1 H2 H3 s j bs Hwf Hsc Hz. exact (reencode_any_size int_to_f64 narrow widen H1 H2 H3 s j bs Hwf (scope_any_size s Hsc Hz)).
Qed.
