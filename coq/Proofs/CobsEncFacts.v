(* CobsEncFacts.v: C06.  The streaming COBS encoder of crate cobs (EncoderState with a
   placeholder byte that is patched later) against the block definition cobs_ref; and the
   properties of cobs_ref itself: no zero byte, length, decoding back. *)
From Coq Require Import Lia ZifyBool ZifyNat ZifyN.
From PV Require Import Base Cobs CobsRef BaseFacts ListAt CobsDecFacts.
Open Scope N_scope.

Ltac lnorm := repeat progress (rewrite <- ?app_assoc; cbn [app]).
Tactic Notation "lnorm" "in" hyp(H) := repeat progress (rewrite <- ?app_assoc in H; cbn [app] in H).

(* what the Cobs flavour asks of the storage beneath it *)
Inductive iop := IPush (b : byte) | ISet (idx : nat) (b : byte).
Definition iops_of (r : push_result) : list iop :=
  match r with
  | AddSingle n => [IPush n]
  | ModifyFromStartAndSkip idx mval => [ISet idx mval; IPush 0]
  | ModifyFromStartAndPushAndSkip idx mval nval => [ISet idx mval; IPush nval; IPush 0]
  end.
Fixpoint cobs_iops (e : enc_state) (m : list byte) : list iop * enc_state :=
  match m with
  | [] => ([], e)
  | b :: m' => let '(r, e1) := enc_push e b in let '(ops, e2) := cobs_iops e1 m' in (iops_of r ++ ops, e2)
  end.
Definition final_iops (e : enc_state) : list iop := let '(idx, mval) := enc_finalize e in [ISet idx mval; IPush 0].

(* the storage as a plain list *)
Definition apply_iop (l : list byte) (o : iop) : option (list byte) :=
  match o with
  | IPush b => Some (l ++ [b])
  | ISet idx b => write_at l idx b
  end.
Fixpoint apply_iops (l : list byte) (ops : list iop) : option (list byte) :=
  match ops with
  | [] => Some l
  | o :: r => match apply_iop l o with Some l' => apply_iops l' r | None => None end
  end.
Lemma apply_iops_app l a b :
  apply_iops l (a ++ b) = match apply_iops l a with Some l' => apply_iops l' b | None => None end.
Proof.
  revert l; induction a as [|o a IH]; intro l; [reflexivity|]. cbn [app apply_iops].
  destruct (apply_iop l o); [apply IH|reflexivity].
Qed.

Lemma write_at_middle (a : list byte) x c v : write_at (a ++ x :: c) (length a) v = Some (a ++ v :: c).
Proof. induction a as [|y a IH]; [reflexivity|]. cbn [app length write_at]. rewrite IH. reflexivity. Qed.

Lemma cobs_iops_state e m : snd (cobs_iops e m) = fold_left (fun e b => snd (enc_push e b)) m e.
Proof.
  revert e; induction m as [|b m IH]; intro e; [reflexivity|]. cbn [cobs_iops fold_left].
  destruct (enc_push e b) as [r e1] eqn:E1. specialize (IH e1). destruct (cobs_iops e1 m) as [ops e2]. cbn [snd] in *. exact IH.
Qed.

(* the invariant: the buffer holds the finished blocks, the placeholder of the open block,
   and the open block's run; the encoder state points at the placeholder *)
Definition enc_inv (e : enc_state) (done run : list byte) : Prop :=
  code_idx e = length done /\ num_bt_sent e = N.of_nat (length run + 1) /\
  offset_idx e = N.of_nat (length run + 1) /\ (length run < 254)%nat.

Theorem cobs_stream_is_ref : forall m e done run,
  enc_inv e done run ->
  apply_iops (done ++ [0] ++ run) (fst (cobs_iops e m) ++ final_iops (snd (cobs_iops e m)))
  = Some (done ++ cobs_go run m ++ [0]).
Proof.
  induction m as [|b m IH]; intros e done run (Hc & Hn & Ho & Hl).
  - cbn [cobs_iops fst snd app cobs_go]. unfold final_iops, enc_finalize. cbn [apply_iops apply_iop].
    rewrite Hc, Hn. cbn [app]. rewrite write_at_middle. cbn [app]. rewrite <- !app_assoc. reflexivity.
  - cbn [cobs_iops cobs_go]. unfold enc_push.
    destruct (N.eqb_spec b 0) as [->|Hb].
    + (* a zero: close the block *)
      set (e1 := {| code_idx := code_idx e + N.to_nat (offset_idx e); num_bt_sent := 1; offset_idx := 1 |}).
      destruct (cobs_iops e1 m) as [ops e2] eqn:Ei. cbn [fst snd iops_of app].
      cbn [apply_iops apply_iop]. rewrite Hc. cbn [app]. rewrite write_at_middle.
      assert (Hinv : enc_inv e1 (done ++ num_bt_sent e :: run) []).
      { unfold enc_inv, e1. cbn [code_idx num_bt_sent offset_idx length]. rewrite app_length. cbn [length]. repeat split; lia. }
      specialize (IH e1 (done ++ num_bt_sent e :: run) [] Hinv). rewrite Ei in IH. cbn [fst snd] in IH.
      replace ((done ++ num_bt_sent e :: run) ++ [0]) with ((done ++ num_bt_sent e :: run) ++ [0] ++ [])
        by (now rewrite app_nil_r).
      rewrite IH, Hn. lnorm. reflexivity.
    + destruct (N.eqb_spec 255 (num_bt_sent e + 1)) as [Hfull|Hnf].
      * (* the 254th non-zero byte: close a full block *)
        set (e1 := {| code_idx := code_idx e + N.to_nat (offset_idx e + 1); num_bt_sent := 1; offset_idx := 1 |}).
        destruct (cobs_iops e1 m) as [ops e2] eqn:Ei. cbn [fst snd iops_of app].
        cbn [apply_iops apply_iop]. rewrite Hc. cbn [app]. rewrite write_at_middle.
        assert (Hrl : length run = 253%nat) by lia.
        destruct (Nat.eqb_spec (length run + 1) 254); [|lia].
        assert (Hinv : enc_inv e1 (done ++ (num_bt_sent e + 1) :: run ++ [b]) []).
        { unfold enc_inv, e1. cbn [code_idx num_bt_sent offset_idx length]. rewrite !app_length. cbn [length]. rewrite app_length. cbn [length].
          repeat split; lia. }
        specialize (IH e1 _ [] Hinv). rewrite Ei in IH. cbn [fst snd] in IH.
        replace (((done ++ num_bt_sent e + 1 :: run) ++ [b]) ++ [0]) with ((done ++ (num_bt_sent e + 1) :: run ++ [b]) ++ [0] ++ []).
        2:{ rewrite app_nil_r, <- !app_assoc. cbn [app]. rewrite <- !app_assoc. reflexivity. }
        rewrite IH. rewrite <- Hfull. lnorm. reflexivity.
      * (* an ordinary non-zero byte *)
        set (e1 := {| code_idx := code_idx e; num_bt_sent := num_bt_sent e + 1; offset_idx := offset_idx e + 1 |}).
        destruct (cobs_iops e1 m) as [ops e2] eqn:Ei. cbn [fst snd iops_of app].
        cbn [apply_iops apply_iop].
        destruct (Nat.eqb_spec (length run + 1) 254); [lia|].
        assert (Hinv : enc_inv e1 done (run ++ [b])).
        { unfold enc_inv, e1. cbn [code_idx num_bt_sent offset_idx]. rewrite app_length. cbn [length]. repeat split; lia. }
        specialize (IH e1 done (run ++ [b]) Hinv). rewrite Ei in IH. cbn [fst snd] in IH.
        lnorm. lnorm in IH. exact IH.
Qed.

Corollary cobs_stream_is_frame m :
  apply_iops [0] (fst (cobs_iops enc_init m) ++ final_iops (snd (cobs_iops enc_init m))) = Some (cobs_frame m).
Proof.
  pose proof (cobs_stream_is_ref m enc_init [] []) as H. cbn [app] in H. apply H.
  unfold enc_inv, enc_init. cbn. repeat split; lia.
Qed.

(* ---------------- properties of the definition ---------------- *)
Lemma cobs_go_nonzero : forall m run,
  Forall (fun b => b <> 0) run -> (length run < 254)%nat -> Forall (fun b => b <> 0) (cobs_go run m).
Proof.
  induction m as [|b m IH]; intros run Hr Hl; cbn [cobs_go].
  - constructor; [lia|assumption].
  - destruct (N.eqb_spec b 0).
    + constructor; [lia|]. apply Forall_app. split; [assumption|]. apply IH; [constructor|cbn; lia].
    + destruct (Nat.eqb_spec (length run + 1) 254).
      * constructor; [discriminate|]. apply Forall_app. split.
        -- apply Forall_app. split; [assumption|]. constructor; [assumption|constructor].
        -- apply IH; [constructor|cbn; lia].
      * apply IH; [apply Forall_app; split; [assumption|constructor; [assumption|constructor]]|rewrite app_length; cbn; lia].
Qed.
Theorem cobs_ref_nonzero m : Forall (fun b => b <> 0) (cobs_ref m).
Proof. apply cobs_go_nonzero; [constructor|cbn; lia]. Qed.

(* the frame has exactly one zero byte: its last *)
Theorem cobs_frame_one_zero m : take_frame (cobs_frame m) = cobs_ref m /\ cobs_frame m = cobs_ref m ++ [0].
Proof.
  split; [|reflexivity]. unfold cobs_frame. pose proof (cobs_ref_nonzero m) as H.
  induction H as [|b l Hb Hl IH]; [reflexivity|]. cbn [app take_frame].
  destruct (N.eqb_spec b 0); [contradiction|]. f_equal. exact IH.
Qed.

Lemma take_frame_app_zero (f rest : list byte) :
  Forall (fun b => b <> 0) f -> take_frame (f ++ [0] ++ rest) = f.
Proof.
  induction 1 as [|b l Hb Hl IH]; [reflexivity|]. cbn [app take_frame] in *.
  destruct (N.eqb_spec b 0); [contradiction|]. f_equal. exact IH.
Qed.
Lemma take_frame_nonzero_all (f : list byte) : Forall (fun b => b <> 0) f -> take_frame f = f.
Proof.
  induction 1 as [|b l Hb Hl IH]; [reflexivity|]. cbn [take_frame].
  destruct (N.eqb_spec b 0); [contradiction|]. f_equal. exact IH.
Qed.

(* length: n + floor(n/254) + 1 code/data bytes (+1 sentinel) for zero-free messages, and
   never more than that *)
Lemma cobs_go_length_le : forall m run, (length run < 254)%nat ->
  (length (cobs_go run m) <= length run + length m + 1 + (length run + length m) / 254)%nat.
Proof.
  induction m as [|b m IH]; intros run Hl; cbn [cobs_go].
  - cbn [length]. lia.
  - destruct (b =? 0).
    + cbn [length]. rewrite app_length. specialize (IH [] ltac:(cbn; lia)). cbn [length] in *.
      assert ((length m) / 254 <= (length run + S (length m)) / 254)%nat by (apply Nat.div_le_mono; lia). lia.
    + destruct (Nat.eqb_spec (length run + 1) 254).
      * cbn [length]. rewrite !app_length. cbn [length]. specialize (IH [] ltac:(cbn; lia)). cbn [length] in *.
        replace (length run + S (length m))%nat with (length m + 1 * 254)%nat by lia.
        rewrite Nat.div_add by lia. lia.
      * specialize (IH (run ++ [b]) ltac:(rewrite app_length; cbn; lia)). rewrite app_length in IH. cbn [length] in *.
        replace (length run + S (length m))%nat with (length run + 1 + length m)%nat by lia. lia.
Qed.
Lemma cobs_go_length_eq : forall m run, (length run < 254)%nat -> Forall (fun b => b <> 0) m ->
  length (cobs_go run m) = (length run + length m + 1 + (length run + length m) / 254)%nat.
Proof.
  induction m as [|b m IH]; intros run Hl Hm; cbn [cobs_go].
  - cbn [length]. rewrite Nat.add_0_r, Nat.div_small by lia. lia.
  - apply Forall_cons_iff in Hm as [Hb Hm]. destruct (N.eqb_spec b 0); [contradiction|].
    destruct (Nat.eqb_spec (length run + 1) 254).
    + cbn [length]. rewrite !app_length. cbn [length]. rewrite (IH [] ltac:(cbn; lia) Hm). cbn [length].
      replace (length run + S (length m))%nat with (length m + 1 * 254)%nat by lia.
      rewrite Nat.div_add by lia. lia.
    + rewrite (IH (run ++ [b]) ltac:(rewrite app_length; cbn; lia) Hm). rewrite app_length. cbn [length].
      replace (length run + S (length m))%nat with (length run + 1 + length m)%nat by lia. lia.
Qed.
Theorem cobs_frame_length m :
  (length (cobs_frame m) <= length m + length m / 254 + 2)%nat /\
  (Forall (fun b => b <> 0) m -> length (cobs_frame m) = (length m + length m / 254 + 2)%nat).
Proof.
  unfold cobs_frame, cobs_ref. rewrite app_length. cbn [length]. split.
  - pose proof (cobs_go_length_le m [] ltac:(cbn; lia)). cbn [length] in *. lia.
  - intro H. rewrite (cobs_go_length_eq m [] ltac:(cbn; lia) H). cbn [length]. lia.
Qed.

Lemma cobs_go_nonempty : forall m run, cobs_go run m <> [].
Proof.
  induction m as [|b m IH]; intro run; cbn [cobs_go]; [discriminate|].
  destruct (b =? 0); [discriminate|]. destruct (Nat.eqb _ _); [discriminate|apply IH].
Qed.

(* decoding back *)
Lemma cobs_go_dec : forall m run, Forall (fun b => b <> 0) run -> (length run < 254)%nat ->
  cobs_dec_ref (cobs_go run m) = Some (run ++ m).
Proof.
  induction m as [|b m IH]; intros run Hr Hl; cbn [cobs_go].
  - rewrite cobs_dec_ref_cons. cbv zeta. replace (N.to_nat (N.of_nat (length run + 1)) - 1)%nat with (length run) by lia.
    destruct (Nat.ltb_spec (length run) (length run)); [lia|]. rewrite skipn_all, firstn_all.
    change (cobs_dec_ref []) with (Some (@nil N)). cbn [length Nat.eqb negb]. rewrite Bool.andb_false_r. now rewrite !app_nil_r.
  - destruct (N.eqb_spec b 0) as [->|Hb].
    + rewrite cobs_dec_ref_cons. cbv zeta. replace (N.to_nat (N.of_nat (length run + 1)) - 1)%nat with (length run) by lia.
      rewrite app_length. destruct (Nat.ltb_spec (length run + length (cobs_go [] m)) (length run)); [lia|].
      rewrite (firstn_app_len run _ (length run) eq_refl), (skipn_app_len run _ (length run) eq_refl).
      rewrite (IH [] ltac:(constructor) ltac:(cbn; lia)). cbn [app].
      destruct (N.eqb_spec (N.of_nat (length run + 1)) 255); [lia|].
      assert (length (cobs_go [] m) <> 0)%nat by (pose proof (cobs_go_nonempty m []); destruct (cobs_go [] m); [contradiction|discriminate]).
      destruct (Nat.eqb_spec (length (cobs_go [] m)) 0); [contradiction|]. reflexivity.
    + destruct (Nat.eqb_spec (length run + 1) 254) as [Hf|Hnf].
      * rewrite cobs_dec_ref_cons. cbv zeta. change (N.to_nat 255 - 1)%nat with 254%nat.
        assert (Hrb : length (run ++ [b]) = 254%nat) by (rewrite app_length; cbn; lia).
        rewrite app_length, Hrb. destruct (Nat.ltb_spec (254 + length (cobs_go [] m)) 254); [lia|].
        rewrite (firstn_app_len (run ++ [b]) _ 254 Hrb), (skipn_app_len (run ++ [b]) _ 254 Hrb).
        rewrite (IH [] ltac:(constructor) ltac:(cbn; lia)). cbn [app N.eqb Pos.eqb negb andb].
        rewrite <- app_assoc. reflexivity.
      * rewrite (IH (run ++ [b])); [rewrite <- app_assoc; reflexivity| |rewrite app_length; cbn; lia].
        apply Forall_app. split; [assumption|constructor; [assumption|constructor]].
Qed.
