(* Locality.v: a successful decode consumes a prefix of its input that alone determines the
   result (the remaining bytes never influence it), and every strict prefix of that prefix
   is rejected with unexpected-end (C03). *)
From PV Require Import Base MachineInt Utf8 DataModel WireFormat.
From PV Require Import BaseFacts ValueInd.
From Coq Require Import Lia.
Open Scope N_scope.

Definition UE : error := DeserializeUnexpectedEnd.

Definition local {A} (f : list byte -> res (A * list byte)) : Prop :=
  forall l a rest, f l = Ok (a, rest) ->
  exists p, l = p ++ rest /\
            (forall rest', f (p ++ rest') = Ok (a, rest')) /\
            (forall q q', p = q ++ q' -> q' <> [] -> f q = Err UE).

Lemma local_ret {A} (a : A) : local (fun l => Ok (a, l)).
Proof.
  intros l a' rest [= <- <-]. exists []. split; [reflexivity|]. split; [reflexivity|].
  intros q q' E Hne. symmetry in E. apply app_eq_nil in E as [_ ->]. congruence.
Qed.
(* a check that consumes nothing: succeeds like ret or fails *)
Lemma local_guard {A} (c : bool) (a : A) (e : error) : local (fun l => if c then Ok (a, l) else Err e).
Proof. destruct c; [apply local_ret|intros l a' rest H; discriminate H]. Qed.
Lemma local_fail {A} (e : error) : local (fun _ : list byte => @Err (A * list byte) e).
Proof. intros l a rest H. discriminate H. Qed.

Lemma local_byte : local sd_byte.
Proof.
  intros [|b r] a rest H; [discriminate H|]. injection H as <- <-. exists [b]. split; [reflexivity|]. split; [reflexivity|].
  intros [|x q] q' E Hne; [reflexivity|]. injection E as -> E. symmetry in E. apply app_eq_nil in E as [_ ->]. congruence.
Qed.

Lemma local_take n : local (sd_take n).
Proof.
  intros l a rest H. unfold sd_take in H. destruct (N.ltb_spec (N.of_nat (length l)) n) as [Hlt|Hge]; [discriminate H|].
  injection H as <- <-. exists (firstn (N.to_nat n) l). split; [symmetry; apply firstn_skipn|].
  assert (Hlen : length (firstn (N.to_nat n) l) = N.to_nat n) by (apply firstn_length_le; lia).
  split.
  - intros rest'. unfold sd_take. rewrite app_length, Hlen.
    replace (N.of_nat (N.to_nat n + length rest') <? n) with false by (symmetry; apply N.ltb_ge; lia).
    rewrite firstn_app_len, skipn_app_len by exact Hlen. reflexivity.
  - intros q q' E Hne. unfold sd_take. replace (N.of_nat (length q) <? n) with true; [reflexivity|].
    symmetry. apply N.ltb_lt. apply (f_equal (@length _)) in E. rewrite app_length, Hlen in E.
    destruct q'; [congruence|cbn [length] in E; lia].
Qed.

Lemma vread_loop_local w : forall fuel i acc l n rest,
  spec_vread_loop w fuel i acc l = VsOk n rest ->
  exists p, l = p ++ rest /\
            (forall rest', spec_vread_loop w fuel i acc (p ++ rest') = VsOk n rest') /\
            (forall q q', p = q ++ q' -> q' <> [] -> spec_vread_loop w fuel i acc q = VsEnd).
Proof.
  induction fuel as [|f IH]; intros i acc l n rest H; [discriminate H|].
  cbn [spec_vread_loop] in H. destruct l as [|b r]; [discriminate H|].
  destruct (b <? 128) eqn:Eb.
  - destruct (acc + b mod 128 * 128 ^ i <? 2 ^ w) eqn:Er; [|discriminate H]. injection H as <- <-.
    exists [b]. split; [reflexivity|]. split.
    + intros rest'. cbn [app spec_vread_loop]. rewrite Eb, Er. reflexivity.
    + intros [|x q] q' E Hne; [reflexivity|]. injection E as -> E. symmetry in E. apply app_eq_nil in E as [_ ->]. congruence.
  - destruct (IH _ _ _ _ _ H) as (p & -> & Hloc & Hpre). exists (b :: p). split; [reflexivity|]. split.
    + intros rest'. cbn [app spec_vread_loop]. rewrite Eb. apply Hloc.
    + intros [|x q] q' E Hne; [reflexivity|]. injection E as -> E. cbn [spec_vread_loop]. rewrite Eb. eapply Hpre; eassumption.
Qed.
Lemma local_varint w : local (sd_varint w).
Proof.
  intros l a rest H. unfold sd_varint in H. destruct (spec_vread w l) as [n r| |] eqn:E; try discriminate H.
  injection H as <- <-. unfold spec_vread in E. destruct (vread_loop_local w _ _ _ _ _ _ E) as (p & -> & Hloc & Hpre).
  exists p. split; [reflexivity|]. split.
  - intros rest'. unfold sd_varint, spec_vread. rewrite Hloc. reflexivity.
  - intros q q' Eq Hne. unfold sd_varint, spec_vread. rewrite (Hpre q q' Eq Hne). reflexivity.
Qed.

(* sequencing *)
Lemma local_bind {A B} (f : list byte -> res (A * list byte)) (g : A -> list byte -> res (B * list byte)) :
  local f -> (forall a, local (g a)) -> local (fun l => let* '(a, r) := f l in g a r).
Proof.
  intros Hf Hg l b rest H. destruct (f l) as [[a r]| | | |] eqn:Ef; try discriminate H. cbn [bind] in H.
  destruct (Hf _ _ _ Ef) as (p1 & -> & L1 & P1). destruct (Hg a _ _ _ H) as (p2 & -> & L2 & P2).
  exists (p1 ++ p2). split; [rewrite app_assoc; reflexivity|]. split.
  - intros rest'. rewrite <- app_assoc, L1. cbn [bind]. apply L2.
  - intros q q' E Hne. apply app_eq_app in E as [l [[E1 E2]|[E1 E2]]].
    + (* q ends inside p1 *)
      destruct l as [|x l].
      * rewrite app_nil_r in E1. subst q. cbn [app] in E2. subst q'.
        rewrite <- (app_nil_r p1), L1. cbn [bind]. apply (P2 [] p2 eq_refl Hne).
      * rewrite (P1 q (x :: l) E1 ltac:(discriminate)). reflexivity.
    + (* q = p1 followed by a strict prefix of p2 *)
      subst q. rewrite L1. cbn [bind]. apply (P2 l q' E2 Hne).
Qed.
Lemma local_bind1 {S B} (f : list byte -> res (S * list byte)) (g : S * list byte -> res (B * list byte)) :
  local f -> (forall a, local (fun r => g (a, r))) -> local (fun l => let* st := f l in g st).
Proof.
  intros Hf Hg. assert (E : forall l, (let* st := f l in g st) = (let* '(a, r) := f l in g (a, r))).
  { intros l. destruct (f l) as [[a r]| | | |]; reflexivity. }
  intros l b rest H. rewrite E in H. destruct (local_bind f (fun a r => g (a, r)) Hf Hg l b rest H) as (p & -> & L & P).
  exists p. split; [reflexivity|]. split; [intros rest'; rewrite E; apply L|intros q q' Eq Hne; rewrite E; eapply P; eassumption].
Qed.
(* post-processing of a result without touching the remainder *)
Lemma local_map {A B} (f : list byte -> res (A * list byte)) (h : A -> B) :
  local f -> local (fun l => let* '(a, r) := f l in Ok (h a, r)).
Proof. intros Hf. apply local_bind; [exact Hf|]. intros a. apply local_ret. Qed.
Lemma local_ext {A} (f g : list byte -> res (A * list byte)) : (forall l, f l = g l) -> local f -> local g.
Proof.
  intros E Hf l a rest H. rewrite <- E in H. destruct (Hf _ _ _ H) as (p & -> & L & P). exists p.
  split; [reflexivity|]. split; [intros; rewrite <- E; apply L|intros; rewrite <- E; eapply P; eassumption].
Qed.

(* iteration of a step over (accumulator, remaining input) *)
Lemma local_iter {S} (step : S * list byte -> res (S * list byte)) :
  (forall acc, local (fun l => step (acc, l))) ->
  forall n acc, local (fun l => iter_nat step n (acc, l)).
Proof.
  intros Hs. induction n as [|n IH]; intros acc; cbn [iter_nat]; [apply local_ret|].
  apply (local_bind1 (fun l => step (acc, l)) (iter_nat step n)); [apply Hs|]. intros a. apply IH.
Qed.

Lemma local_fields (sd : ty -> list byte -> res (value * list byte)) ts :
  Forall (fun t => local (sd t)) ts -> local (sd_fields sd ts).
Proof.
  induction 1 as [|t r Ht _ IH]; cbn [sd_fields]; [apply local_ret|].
  apply local_bind; [exact Ht|]. intros v. apply local_bind; [exact IH|]. intros vs. apply local_ret.
Qed.

Theorem spec_de_local : forall t, local (spec_de t).
Proof.
  induction t as [| k | | | | | | t IH | | | t IH | t IH | ts IH | ts IH | k v IHk IHv | ts IH | vs IH] using ty_ind'; cbn [spec_de].
  - (* bool *) apply local_bind; [apply local_byte|]. intros b. destruct (b =? 0); [apply local_ret|]. destruct (b =? 1); [apply local_ret|apply local_fail].
  - (* int *) destruct k; cbn [sd_int]; (apply local_bind; [first [apply local_byte|apply local_varint]|intros n; apply local_ret]).
  - apply local_bind; [apply local_take|intros bs; apply local_ret].
  - apply local_bind; [apply local_take|intros bs; apply local_ret].
  - (* char *) apply local_bind; [apply local_varint|]. intros n. destruct (4 <? n); [apply local_fail|].
    apply local_bind; [apply local_take|]. intros bs. destruct (utf8_chars bs) as [[|c [|? ?]]|]; try apply local_fail. apply local_ret.
  - (* str *) apply local_bind; [apply local_varint|]. intros n. apply local_bind; [apply local_take|]. intros bs.
    destruct (utf8_valid bs); [apply local_ret|apply local_fail].
  - (* bytes *) apply local_bind; [apply local_varint|]. intros n. apply local_bind; [apply local_take|]. intros bs. apply local_ret.
  - (* option *) apply local_bind; [apply local_byte|]. intros b. destruct (b =? 0); [apply local_ret|]. destruct (b =? 1); [|apply local_fail].
    apply local_bind; [exact IH|intros v; apply local_ret].
  - apply local_ret.
  - apply local_ret.
  - (* newtype *) apply local_bind; [exact IH|intros v; apply local_ret].
  - (* seq *) apply local_bind; [apply local_varint|]. intros n.
    apply (local_bind (fun r => iter_N (fun st => let* '(v, s') := spec_de t (snd st) in Ok (v :: fst st, s')) n ([], r))
                      (fun racc r2 => Ok (VSeq (rev racc), r2))); [|intros racc; apply local_ret].
    eapply local_ext; [intros l; symmetry; apply iter_N_nat|]. apply local_iter. intros acc. cbn [fst snd].
    apply local_bind; [exact IH|intros v; apply local_ret].
  - apply local_bind; [apply local_fields; exact IH|intros vs; apply local_ret].
  - apply local_bind; [apply local_fields; exact IH|intros vs; apply local_ret].
  - (* map *) apply local_bind; [apply local_varint|]. intros n.
    apply (local_bind (fun r => iter_N (fun st => let* '(k0, s') := spec_de k (snd st) in
                                                  let* '(v0, s'') := spec_de v s' in Ok ((k0, v0) :: fst st, s'')) n ([], r))
                      (fun racc r2 => Ok (VMap (rev racc), r2))); [|intros racc; apply local_ret].
    eapply local_ext; [intros l; symmetry; apply iter_N_nat|]. apply local_iter. intros acc. cbn [fst snd].
    apply local_bind; [exact IHk|]. intros k0. apply local_bind; [exact IHv|intros v0; apply local_ret].
  - apply local_bind; [apply local_fields; exact IH|intros vs0; apply local_ret].
  - (* enum *) apply local_bind; [apply local_varint|]. intros idx. destruct (N.of_nat (length vs) <=? idx); [apply local_fail|].
    generalize (N.to_nat idx) as i. induction IH as [|t r Ht _ IHr]; intros i; [apply local_fail|].
    destruct i as [|i]; [|apply IHr]. apply local_bind; [exact Ht|intros v; apply local_ret].
Qed.

(* the two clauses of the property, on the reference decoder *)
Theorem rest_never_matters t l v rest :
  spec_de t l = Ok (v, rest) ->
  exists p, l = p ++ rest /\ forall rest', spec_de t (p ++ rest') = Ok (v, rest').
Proof. intros H. destruct (spec_de_local t l v rest H) as (p & E & L & _). exists p. split; assumption. Qed.
Theorem strict_prefix_unexpected_end t p v :
  spec_de t p = Ok (v, []) -> forall q q', p = q ++ q' -> q' <> [] -> spec_de t q = Err DeserializeUnexpectedEnd.
Proof.
  intros H q q' E Hne. destruct (spec_de_local t p v [] H) as (p' & Ep & _ & P). rewrite app_nil_r in Ep. subst p'.
  exact (P q q' E Hne).
Qed.

(* the same on the implementation-shaped bit-level decoder (C03_de_is_spec) *)
From PV Require Import De DeSpec.
Theorem de_rest_never_matters t l v rest :
  bytes_ok l -> de_slice t l = Ok (v, rest) ->
  exists p, l = p ++ rest /\ forall rest', bytes_ok rest' -> de_slice t (p ++ rest') = Ok (v, rest').
Proof.
  intros Hl H. rewrite de_is_spec in H by exact Hl. destruct (rest_never_matters t l v rest H) as (p & -> & L).
  exists p. split; [reflexivity|]. intros rest' Hr. rewrite de_is_spec; [apply L|].
  apply bytes_ok_app in Hl as [Hp _]. apply bytes_ok_app. split; assumption.
Qed.
Theorem de_strict_prefix_unexpected_end t p v :
  bytes_ok p -> de_slice t p = Ok (v, []) ->
  forall q q', p = q ++ q' -> q' <> [] -> de_slice t q = Err DeserializeUnexpectedEnd.
Proof.
  intros Hp H q q' E Hne. rewrite de_is_spec in H by exact Hp.
  rewrite de_is_spec; [exact (strict_prefix_unexpected_end t p v H q q' E Hne)|].
  subst p. apply bytes_ok_app in Hp as [Hq _]. exact Hq.
Qed.
