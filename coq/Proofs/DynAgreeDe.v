(* DynAgreeDe.v: the dynamic decoder returns the serde_json form of every conforming,
   unambiguous value from the static encoder's bytes (C17, decoding direction). *)
From PV Require Import Base MachineInt VarintParams GenArith GenLoops GenPanicArms Varint Utf8 DataModel De Ser Schema SchemaDecl SchemaFmt SchemaConv SchemaOps Conform WireFormat Dyn JsonOf.
From PV Require Import BaseFacts VarintFacts VarintCore ZigZagFacts Utf8Facts SerFacts DeFacts SchemaFacts ConformFacts DynFacts DynAgree.
From Coq Require Import Lia.
Open Scope N_scope.

(* ---- the private readers read back the canonical varint ---- *)
Lemma dvar_roundtrip t n rest : is_vty t -> n < 2 ^ wbits t -> bytes_ok rest ->
  dvar (std_reader t DynSchemaMismatch) (spec_varint n ++ rest) = DOk (n, rest).
Proof.
  intros Ht Hn Hr.
  assert (Hok : bytes_ok (spec_varint n ++ rest)) by (apply bytes_ok_app; split; [apply spec_varint_bytes_ok|exact Hr]).
  rewrite dvar_spec by assumption.
  assert (E : spec_vread (wbits t) (spec_varint n ++ rest) = VsOk n rest).
  { apply spec_vread_iff; [exact Hok|]. exists (spec_varint n). split; [reflexivity|].
    apply spec_varint_valid; [exact Hn|]. destruct Ht as [-> | [-> | [-> | ->]]]; vm_compute; discriminate. }
  rewrite E. reflexivity.
Qed.
Lemma dusize_roundtrip n rest : n < 2 ^ 64 -> bytes_ok rest -> dusize (spec_varint n ++ rest) = DOk (n, rest).
Proof.
  intros Hn Hr. unfold dusize. change dyn_reader_u64 with (std_reader u64 DynSchemaMismatch).
  apply dvar_roundtrip; [right; right; left; reflexivity|exact Hn|exact Hr].
Qed.
Lemma take_n_app bs rest : take_n (N.of_nat (length bs)) (bs ++ rest) = DOk (bs, rest).
Proof.
  unfold take_n. rewrite app_length. replace (N.of_nat (length bs + length rest) <? N.of_nat (length bs)) with false
    by (symmetry; apply N.ltb_ge; lia).
  rewrite Nat2N.id, firstn_app_len, skipn_app_len by reflexivity. reflexivity.
Qed.
Lemma de_str_roundtrip bs rest :
  bytes_ok bs -> utf8_valid bs = true -> N.of_nat (length bs) < 2 ^ 64 -> bytes_ok rest ->
  de_str (spec_len (length bs) ++ bs ++ rest) = DOk (bs, rest).
Proof.
  intros Hb Hu Hl Hr. unfold de_str, spec_len. rewrite dusize_roundtrip.
  - cbn [dbind]. rewrite take_n_app. cbn [dbind]. rewrite Hu. reflexivity.
  - exact Hl.
  - apply bytes_ok_app. split; assumption.
Qed.

Lemma wrap_i8_byte z : (- 128 <= z < 128)%Z -> wrap i8 (Z.of_N (Z.to_N (z mod 256))) = z.
Proof.
  intros H. assert (0 <= z mod 256 < 256)%Z by (apply Z.mod_pos_bound; lia). rewrite Z2N.id by lia.
  unfold wrap. cbn [signed bits i8]. change (2 ^ 8)%Z with 256%Z. change (2 ^ (8 - 1))%Z with 128%Z.
  rewrite Z.mod_mod by lia. destruct (Z.ltb_spec (z mod 256) 128).
  - destruct (Z.le_gt_cases 0 z); [rewrite Z.mod_small in *; lia|].
    replace z with ((z + 256) + (-1) * 256)%Z in H0 by lia. rewrite Z.mod_add, Z.mod_small in H0 by lia. lia.
  - destruct (Z.le_gt_cases 0 z); [rewrite Z.mod_small in *; lia|].
    replace z with ((z + 256) + (-1) * 256)%Z at 1 by lia. rewrite Z.mod_add, Z.mod_small by lia. lia.
Qed.

Section AgreeDe.
  Variable widen : N -> N.
  Variable d : nat.
  Let DE := dyn_de widen.
  Let J := json_of widen.

  Lemma zz_back k W z : signed_width k = Some W -> in_range (ik_ity k) z ->
    de_zig_zag k (Z.of_N (spec_zigzag z)) = z.
  Proof.
    intros Hk Hr. rewrite (de_zig_zag_spec k W) by (try exact Hk; destruct k; inversion Hk; subst W; unfold in_range in Hr; cbn in Hr;
                                                    match goal with |- (0 <= Z.of_N (spec_zigzag ?z) < 2 ^ ?w)%Z => apply (spec_zigzag_bound w z); lia end).
    rewrite N2Z.id. apply spec_unzigzag_zigzag.
  Qed.

  Ltac dvar_step T :=
    rewrite (dvar_roundtrip T) by (first [left; reflexivity | right; left; reflexivity | right; right; left; reflexivity | right; right; right; reflexivity | assumption | idtac]); cbn [dbind].

  Lemma prim_agree_de v p rest :
    prim_conforms d v p = true -> unamb v = true -> p <> PSchema -> bytes_ok rest ->
    de_prim widen p (spec_enc (erase v) ++ rest) = DOk (J v, rest).
  Proof.
    intros Hc Hu Hp Hr.
    destruct p; try (exfalso; apply Hp; reflexivity);
      destruct v; cbn [prim_conforms] in Hc; try discriminate Hc; cbn [erase prim_ty has_type] in Hc;
      unfold J; cbn [json_of de_prim spec_enc erase]; cbv zeta.
    - (* bool *) destruct b; reflexivity.
    - (* i8 *) apply andb_prop in Hc as [Hk Hi]. destruct k; try discriminate Hk. apply in_range_b in Hi. unfold in_range in Hi. cbn in Hi.
      cbn [spec_int app take_one dbind]. unfold num. rewrite wrap_i8_byte by lia. reflexivity.
    - (* u8 *) apply andb_prop in Hc as [Hk Hi]. destruct k; try discriminate Hk. apply in_range_b in Hi. unfold in_range in Hi. cbn in Hi.
      cbn [spec_int app take_one dbind]. unfold num. rewrite Z2N.id by lia. reflexivity.
    - (* i16 *) apply andb_prop in Hc as [Hk Hi]. destruct k; try discriminate Hk. apply in_range_b in Hi.
      cbn [spec_int]. change dyn_reader_u16 with (std_reader u16 DynSchemaMismatch).
      rewrite (dvar_roundtrip u16); [|left; reflexivity| |exact Hr].
      2:{ pose proof (spec_zigzag_bound 16 z ltac:(lia) Hi). change (wbits u16) with 16. lia. }
      cbn [dbind]. unfold num. change (Dyn.de_zig_zag_i16 (Z.of_N (spec_zigzag z))) with (de_zig_zag I16 (Z.of_N (spec_zigzag z))).
      rewrite (zz_back I16 16 z eq_refl Hi). reflexivity.
    - (* i32 *) apply andb_prop in Hc as [Hk Hi]. destruct k; try discriminate Hk. apply in_range_b in Hi.
      cbn [spec_int]. change dyn_reader_u32 with (std_reader u32 DynSchemaMismatch).
      rewrite (dvar_roundtrip u32); [|right; left; reflexivity| |exact Hr].
      2:{ pose proof (spec_zigzag_bound 32 z ltac:(lia) Hi). change (wbits u32) with 32. lia. }
      cbn [dbind]. unfold num. change (Dyn.de_zig_zag_i32 (Z.of_N (spec_zigzag z))) with (de_zig_zag I32 (Z.of_N (spec_zigzag z))).
      rewrite (zz_back I32 32 z eq_refl Hi). reflexivity.
    - (* i64 *) apply andb_prop in Hc as [Hk Hi]. destruct k; try discriminate Hk. apply in_range_b in Hi.
      cbn [spec_int]. change dyn_reader_u64 with (std_reader u64 DynSchemaMismatch).
      rewrite (dvar_roundtrip u64); [|right; right; left; reflexivity| |exact Hr].
      2:{ pose proof (spec_zigzag_bound 64 z ltac:(lia) Hi). change (wbits u64) with 64. lia. }
      cbn [dbind]. unfold num. change (Dyn.de_zig_zag_i64 (Z.of_N (spec_zigzag z))) with (de_zig_zag I64 (Z.of_N (spec_zigzag z))).
      rewrite (zz_back I64 64 z eq_refl Hi). reflexivity.
    - (* i128 *) apply andb_prop in Hc as [Hk Hi]. destruct k; try discriminate Hk. apply in_range_b in Hi.
      cbn [unamb ik_signed ik_ity signed] in Hu. apply andb_prop in Hu as [Hlo Hhi]. apply Z.leb_le in Hlo. apply Z.ltb_lt in Hhi.
      cbn [spec_int]. change dyn_reader_u128 with (std_reader u128 DynSchemaMismatch).
      rewrite (dvar_roundtrip u128); [|right; right; right; reflexivity| |exact Hr].
      2:{ pose proof (spec_zigzag_bound 128 z ltac:(lia) Hi). change (wbits u128) with 128. lia. }
      cbn [dbind]. change (Dyn.de_zig_zag_i128 (Z.of_N (spec_zigzag z))) with (de_zig_zag I128 (Z.of_N (spec_zigzag z))).
      rewrite (zz_back I128 128 z eq_refl Hi).
      replace (fits i64 z) with true by (symmetry; unfold fits, in_rangeb; cbn [signed bits i64]; apply andb_true_intro; split; [apply Z.leb_le|apply Z.ltb_lt]; lia).
      reflexivity.
    - (* u16 *) apply andb_prop in Hc as [Hk Hi]. destruct k; try discriminate Hk. apply in_range_b in Hi. unfold in_range in Hi. cbn in Hi.
      cbn [spec_int]. change dyn_reader_u16 with (std_reader u16 DynSchemaMismatch).
      rewrite (dvar_roundtrip u16); [|left; reflexivity|change (wbits u16) with 16; lia|exact Hr].
      cbn [dbind]. unfold num. rewrite Z2N.id by lia. reflexivity.
    - (* u32 *) apply andb_prop in Hc as [Hk Hi]. destruct k; try discriminate Hk. apply in_range_b in Hi. unfold in_range in Hi. cbn in Hi.
      cbn [spec_int]. change dyn_reader_u32 with (std_reader u32 DynSchemaMismatch).
      rewrite (dvar_roundtrip u32); [|right; left; reflexivity|change (wbits u32) with 32; lia|exact Hr].
      cbn [dbind]. unfold num. rewrite Z2N.id by lia. reflexivity.
    - (* u64 *) apply andb_prop in Hc as [Hk Hi]. destruct k; try discriminate Hk. apply in_range_b in Hi. unfold in_range in Hi. cbn in Hi.
      cbn [spec_int]. change dyn_reader_u64 with (std_reader u64 DynSchemaMismatch).
      rewrite (dvar_roundtrip u64); [|right; right; left; reflexivity|change (wbits u64) with 64; lia|exact Hr].
      cbn [dbind]. unfold num. rewrite Z2N.id by lia. reflexivity.
    - (* u128 *) apply andb_prop in Hc as [Hk Hi]. destruct k; try discriminate Hk. apply in_range_b in Hi. unfold in_range in Hi. cbn in Hi.
      cbn [unamb ik_signed ik_ity signed] in Hu. apply andb_prop in Hu as [Hlo Hhi]. apply Z.leb_le in Hlo. apply Z.ltb_lt in Hhi.
      cbn [spec_int]. change dyn_reader_u128 with (std_reader u128 DynSchemaMismatch).
      rewrite (dvar_roundtrip u128); [|right; right; right; reflexivity|change (wbits u128) with 128; lia|exact Hr].
      cbn [dbind]. rewrite Z2N.id by lia.
      replace (fits u64 z) with true by (symmetry; unfold fits, in_rangeb; cbn [signed bits u64]; apply andb_true_intro; split; [apply Z.leb_le|apply Z.ltb_lt]; lia).
      reflexivity.
    - (* usize *) apply andb_prop in Hc as [Hk Hi]. destruct k; try discriminate Hk. apply in_range_b in Hi. unfold in_range in Hi. cbn in Hi.
      cbn [spec_int]. change dyn_reader_u64 with (std_reader u64 DynSchemaMismatch).
      rewrite (dvar_roundtrip u64); [|right; right; left; reflexivity|change (wbits u64) with 64; lia|exact Hr].
      cbn [dbind]. unfold num. rewrite Z2N.id by lia. reflexivity.
    - (* isize *) apply andb_prop in Hc as [Hk Hi]. destruct k; try discriminate Hk. apply in_range_b in Hi.
      cbn [spec_int]. change dyn_reader_u64 with (std_reader u64 DynSchemaMismatch).
      rewrite (dvar_roundtrip u64); [|right; right; left; reflexivity| |exact Hr].
      2:{ pose proof (spec_zigzag_bound 64 z ltac:(lia) Hi). change (wbits u64) with 64. lia. }
      cbn [dbind]. unfold num. change (Dyn.de_zig_zag_i64 (Z.of_N (spec_zigzag z))) with (de_zig_zag I64 (Z.of_N (spec_zigzag z))).
      rewrite (zz_back I64 64 z eq_refl Hi). reflexivity.
    - (* f32 *) apply N.ltb_lt in Hc. cbn [unamb] in Hu.
      assert (E4 : 4 = N.of_nat (length (le_bytes 4 bits))) by (rewrite le_bytes_length; reflexivity).
      rewrite E4 at 1. rewrite take_n_app. cbn [dbind]. rewrite of_le_bytes_le_bytes. change (256 ^ N.of_nat 4) with (2 ^ 32).
      rewrite N.mod_small by exact Hc. rewrite Hu. reflexivity.
    - (* f64 *) apply N.ltb_lt in Hc. cbn [unamb] in Hu.
      assert (E8 : 8 = N.of_nat (length (le_bytes 8 bits))) by (rewrite le_bytes_length; reflexivity).
      rewrite E8 at 1. rewrite take_n_app. cbn [dbind]. rewrite of_le_bytes_le_bytes. change (256 ^ N.of_nat 8) with (2 ^ 64).
      rewrite N.mod_small by exact Hc. rewrite Hu. reflexivity.
    - (* char *) pose proof (utf8_chars_encode c Hc) as Hch. pose proof (utf8_encode_len c) as Hlen.
      rewrite <- app_assoc. rewrite de_str_roundtrip.
      + cbn [dbind]. rewrite Hch. reflexivity.
      + apply utf8_encode_bytes_ok. exact Hc.
      + unfold utf8_valid. rewrite Hch. reflexivity.
      + lia.
      + exact Hr.
    - (* string *) apply andb_prop in Hc as [Hc Hl]. apply andb_prop in Hc as [Hb Hv]. apply N.ltb_lt in Hl. apply bytes_okb_spec in Hb.
      rewrite <- app_assoc. rewrite de_str_roundtrip by assumption. reflexivity.
    - (* byte array *) apply andb_prop in Hc as [Hb Hl]. apply N.ltb_lt in Hl. apply bytes_okb_spec in Hb.
      rewrite <- app_assoc. unfold spec_len. rewrite dusize_roundtrip; [|exact Hl|apply bytes_ok_app; split; assumption].
      cbn [dbind]. rewrite take_n_app. reflexivity.
    - (* unit *) reflexivity.
  Qed.

  Definition agree_de_at (v : nvalue) : Prop :=
    forall s rest, conforms d v s = true -> unamb v = true -> in_scope s = true -> small_seqs v = true ->
                   bytes_ok rest -> DE s (spec_enc (erase v) ++ rest) = DOk (J v, rest).

  Lemma conf_bytes_ok v s : conforms d v s = true -> bytes_ok (spec_enc (erase v)).
  Proof. intros H. eapply spec_enc_ok. apply (conforms_typed d v s H). Qed.

  Lemma de_arm_struct n k fs bs : DE (SStruct n k fs) bs = de_data DE k fs bs.
  Proof. unfold DE. cbn [dyn_de]. rewrite de_no_panic_arm. reflexivity. Qed.

  Lemma flat_ok (xs : list nvalue) (ts : list schema) :
    conforms_list (conforms d) xs ts = true -> bytes_ok (flat_map spec_enc (map erase xs)).
  Proof.
    revert ts. induction xs as [|x r IH]; intros [|t ts] H; try discriminate H; [constructor|].
    cbn [conforms_list] in H. apply andb_prop in H as [H1 H2]. cbn [map flat_map]. apply bytes_ok_app.
    split; [eapply conf_bytes_ok; exact H1|eapply IH; exact H2].
  Qed.

  Lemma de_all_agree xs : Forall agree_de_at xs -> forall ts rest,
    conforms_list (conforms d) xs ts = true -> forallb unamb xs = true -> forallb in_scope ts = true ->
    forallb small_seqs xs = true -> bytes_ok rest ->
    de_all DE ts (flat_map spec_enc (map erase xs) ++ rest) = DOk (map J xs, rest).
  Proof.
    induction 1 as [|x r Hx _ IH]; intros [|t ts] rest Hc Hu Hs Hm Hr; try discriminate Hc; [reflexivity|].
    cbn [conforms_list forallb] in *. apply andb_prop in Hc as [Hc1 Hc2]. apply andb_prop in Hu as [Hu1 Hu2].
    apply andb_prop in Hs as [Hs1 Hs2]. apply andb_prop in Hm as [Hm1 Hm2].
    cbn [map flat_map de_all]. rewrite <- app_assoc.
    rewrite (Hx t _ Hc1 Hu1 Hs1 Hm1); [|apply bytes_ok_app; split; [eapply flat_ok; exact Hc2|exact Hr]].
    cbn [dbind]. rewrite (IH ts rest Hc2 Hu2 Hs2 Hm2 Hr). reflexivity.
  Qed.
  Lemma flat_ok_unnamed (xs : list nvalue) (fs : list (str * schema)) :
    conforms_unnamed (conforms d) xs fs = true -> bytes_ok (flat_map spec_enc (map erase xs)).
  Proof.
    revert fs. induction xs as [|x r IH]; intros [|t ts] H; try discriminate H; [constructor|].
    cbn [conforms_unnamed] in H. apply andb_prop in H as [H1 H2]. cbn [map flat_map]. apply bytes_ok_app.
    split; [eapply conf_bytes_ok; exact H1|eapply IH; exact H2].
  Qed.
  Lemma de_snd_all_agree xs : Forall agree_de_at xs -> forall (fs : list (str * schema)) rest,
    conforms_unnamed (conforms d) xs fs = true -> forallb unamb xs = true -> forallb (fun f => in_scope (snd f)) fs = true ->
    forallb small_seqs xs = true -> bytes_ok rest ->
    de_snd_all DE fs (flat_map spec_enc (map erase xs) ++ rest) = DOk (map J xs, rest).
  Proof.
    induction 1 as [|x r Hx _ IH]; intros [|t ts] rest Hc Hu Hs Hm Hr; try discriminate Hc; [reflexivity|].
    cbn [conforms_unnamed forallb] in *. apply andb_prop in Hc as [Hc1 Hc2]. apply andb_prop in Hu as [Hu1 Hu2].
    apply andb_prop in Hs as [Hs1 Hs2]. apply andb_prop in Hm as [Hm1 Hm2].
    cbn [map flat_map de_snd_all]. rewrite <- app_assoc.
    rewrite (Hx (snd t) _ Hc1 Hu1 Hs1 Hm1); [|apply bytes_ok_app; split; [eapply flat_ok_unnamed; exact Hc2|exact Hr]].
    cbn [dbind]. rewrite (IH ts rest Hc2 Hu2 Hs2 Hm2 Hr). reflexivity.
  Qed.
  Lemma flat_ok_named (xs : list (list N * nvalue)) (fs : list (str * schema)) :
    conforms_named (conforms d) xs fs = true -> bytes_ok (flat_map spec_enc (map (fun f => erase (snd f)) xs)).
  Proof.
    revert fs. induction xs as [|x r IH]; intros [|t ts] H; try discriminate H; [constructor|].
    cbn [conforms_named] in H. apply andb_prop in H as [H1 H2]. apply andb_prop in H1 as [_ H1]. cbn [map flat_map]. apply bytes_ok_app.
    split; [eapply conf_bytes_ok; exact H1|eapply IH; exact H2].
  Qed.
  Lemma de_fields_agree (xs : list (list N * nvalue)) : Forall (fun f => agree_de_at (snd f)) xs ->
    forall (fs : list (str * schema)) acc rest,
    conforms_named (conforms d) xs fs = true -> forallb (fun f => unamb (snd f)) xs = true ->
    forallb (fun f => in_scope (snd f)) fs = true -> forallb (fun f => small_seqs (snd f)) xs = true -> bytes_ok rest ->
    de_fields DE fs acc (flat_map spec_enc (map (fun f => erase (snd f)) xs) ++ rest)
    = DOk (fold_left (ins_field widen) xs acc, rest).
  Proof.
    induction 1 as [|x r Hx _ IH]; intros [|t ts] acc rest Hc Hu Hs Hm Hr; try discriminate Hc; [reflexivity|].
    cbn [conforms_named forallb] in *. apply andb_prop in Hc as [Hc1 Hc2]. apply andb_prop in Hc1 as [Hn Hc1].
    apply andb_prop in Hu as [Hu1 Hu2]. apply andb_prop in Hs as [Hs1 Hs2]. apply andb_prop in Hm as [Hm1 Hm2].
    apply list_N_eqb_eq in Hn.
    cbn [map flat_map de_fields fold_left]. rewrite <- app_assoc.
    rewrite (Hx (snd t) _ Hc1 Hu1 Hs1 Hm1); [|apply bytes_ok_app; split; [eapply flat_ok_named; exact Hc2|exact Hr]].
    cbn [dbind]. rewrite (IH ts _ rest Hc2 Hu2 Hs2 Hm2 Hr). unfold ins_field. rewrite Hn. reflexivity.
  Qed.

  Lemma de_repeat_agree t xs : Forall agree_de_at xs ->
    forallb (fun x => conforms d x t) xs = true -> forallb unamb xs = true -> in_scope t = true ->
    forallb small_seqs xs = true -> forall fuel acc rest, (length xs <= fuel)%nat -> bytes_ok rest ->
    de_repeat fuel (DE t) (N.of_nat (length xs)) acc (flat_map spec_enc (map erase xs) ++ rest)
    = DOk (rev acc ++ map J xs, rest).
  Proof.
    induction 1 as [|x r Hx _ IH]; intros Hc Hu Hs Hm fuel acc rest Hf Hr.
    - destruct fuel; cbn [de_repeat length map flat_map app]; rewrite app_nil_r; reflexivity.
    - cbn [forallb] in Hc, Hu, Hm. apply andb_prop in Hc as [Hc1 Hc2]. apply andb_prop in Hu as [Hu1 Hu2].
      apply andb_prop in Hm as [Hm1 Hm2]. destruct fuel as [|fuel]; [cbn [length] in Hf; lia|].
      cbn [de_repeat]. replace (N.of_nat (length (x :: r)) =? 0) with false by (symmetry; apply N.eqb_neq; cbn [length]; lia).
      cbn [map flat_map]. rewrite <- app_assoc.
      assert (Hok : bytes_ok (flat_map spec_enc (map erase r) ++ rest)).
      { apply bytes_ok_app. split; [|exact Hr]. clear -Hc2. induction r as [|y r' IHr]; [constructor|].
        cbn [forallb] in Hc2. apply andb_prop in Hc2 as [H1 H2]. cbn [map flat_map]. apply bytes_ok_app.
        split; [eapply conf_bytes_ok; exact H1|apply IHr; exact H2]. }
      rewrite (Hx t _ Hc1 Hu1 Hs Hm1 Hok). cbn [dbind].
      replace (N.of_nat (length (x :: r)) - 1) with (N.of_nat (length r)) by (cbn [length]; lia).
      rewrite (IH Hc2 Hu2 Hs Hm2 fuel (J x :: acc) rest ltac:(cbn [length] in Hf; lia) Hr).
      cbn [rev]. rewrite <- app_assoc. reflexivity.
  Qed.

  Lemma de_entries_agree t (kvs : list (nvalue * nvalue)) :
    Forall (fun kv => agree_de_at (fst kv) /\ agree_de_at (snd kv)) kvs ->
    forallb (fun kv => conforms d (fst kv) (SPrim PString) && conforms d (snd kv) t) kvs = true ->
    forallb (fun kv => match fst kv with NStr _ => unamb (snd kv) | _ => false end) kvs = true ->
    in_scope t = true -> forallb (fun kv => small_seqs (fst kv) && small_seqs (snd kv)) kvs = true ->
    forall fuel acc rest, (length kvs <= fuel)%nat -> bytes_ok rest ->
    de_entries fuel (DE t) (N.of_nat (length kvs)) acc
      (flat_map (fun kv => spec_enc (fst kv) ++ spec_enc (snd kv)) (map (fun kv => (erase (fst kv), erase (snd kv))) kvs) ++ rest)
    = DOk (fold_left (ins_entry widen) kvs acc, rest).
  Proof.
    induction 1 as [|kv r [_ Hv] _ IH]; intros Hc Hu Hs Hm fuel acc rest Hf Hr.
    - destruct fuel; reflexivity.
    - cbn [forallb] in Hc, Hu, Hm. apply andb_prop in Hc as [Hc1 Hc2]. apply andb_prop in Hu as [Hu1 Hu2].
      apply andb_prop in Hm as [Hm1 Hm2]. apply andb_prop in Hc1 as [Hck Hcv]. apply andb_prop in Hm1 as [_ Hmv].
      destruct fuel as [|fuel]; [cbn [length] in Hf; lia|].
      cbn [de_entries]. replace (N.of_nat (length (kv :: r)) =? 0) with false by (symmetry; apply N.eqb_neq; cbn [length]; lia).
      destruct (fst kv) as [| | | | |k| | | | | | | | | | | |] eqn:Ek; try discriminate Hu1.
      cbn [map flat_map fst snd erase spec_enc]. rewrite Ek. cbn [erase spec_enc].
      assert (Hok : bytes_ok (flat_map (fun kv => spec_enc (fst kv) ++ spec_enc (snd kv)) (map (fun kv => (erase (fst kv), erase (snd kv))) r) ++ rest)).
      { apply bytes_ok_app. split; [|exact Hr]. clear -Hc2. induction r as [|y r' IHr]; [constructor|].
        cbn [forallb] in Hc2. apply andb_prop in Hc2 as [H1 H2]. apply andb_prop in H1 as [Ha Hb].
        cbn [map flat_map fst snd]. apply bytes_ok_app. split; [|apply IHr; exact H2].
        apply bytes_ok_app. split; eapply conf_bytes_ok; eassumption. }
      cbn [conforms prim_conforms erase prim_ty has_type] in Hck. apply andb_prop in Hck as [Hck Hl]. apply andb_prop in Hck as [Hb Hutf].
      apply N.ltb_lt in Hl. apply bytes_okb_spec in Hb.
      rewrite <- !app_assoc. rewrite de_str_roundtrip; [|exact Hb|exact Hutf|exact Hl|].
      2:{ apply bytes_ok_app. split; [eapply conf_bytes_ok; exact Hcv|exact Hok]. }
      cbn [dbind]. rewrite (Hv t _ Hcv Hu1 Hs Hmv Hok). cbn [dbind].
      replace (N.of_nat (length (kv :: r)) - 1) with (N.of_nat (length r)) by (cbn [length]; lia).
      rewrite (IH Hc2 Hu2 Hs Hm2 fuel _ rest ltac:(cbn [length] in Hf; lia) Hr).
      cbn [fold_left]. f_equal. f_equal. unfold ins_entry. rewrite Ek. reflexivity.
  Qed.

  Lemma loop_fuel_enough n len : n <= 65536 \/ n <= N.of_nat len -> (N.to_nat n <= loop_fuel n len)%nat.
  Proof. intros H. unfold loop_fuel. destruct (N.leb_spec n (N.of_nat len + 65536)); lia. Qed.
  (* as many elements as bytes at most, when no element has an empty encoding *)
  Lemma fat_elements_fit (xs : list nvalue) rest :
    forallb (fun x => negb (N.of_nat (length (spec_enc (erase x))) =? 0)) xs = true ->
    (length xs <= length (flat_map spec_enc (map erase xs) ++ rest))%nat.
  Proof.
    intros H. rewrite app_length. enough (length xs <= length (flat_map spec_enc (map erase xs)))%nat by lia.
    induction xs as [|x r IH]; [cbn; lia|]. cbn [forallb] in H. apply andb_prop in H as [H1 H2].
    cbn [map flat_map length]. rewrite app_length. specialize (IH H2).
    apply negb_true_iff in H1. apply N.eqb_neq in H1. lia.
  Qed.
  Lemma spec_varint_nonempty n : (1 <= length (spec_varint n))%nat.
  Proof. unfold spec_varint. cbn [spec_varint_fuel]. destruct (n <? 128); cbn [length]; lia. Qed.
  (* ... and every map entry starts with its key's length prefix *)
  Lemma entries_fit (kvs : list (nvalue * nvalue)) t rest :
    forallb (fun kv => conforms d (fst kv) (SPrim PString) && conforms d (snd kv) t) kvs = true ->
    (length kvs <= length (flat_map (fun kv => spec_enc (fst kv) ++ spec_enc (snd kv)) (map (fun kv => (erase (fst kv), erase (snd kv))) kvs) ++ rest))%nat.
  Proof.
    intros H. rewrite app_length.
    enough (length kvs <= length (flat_map (fun kv => spec_enc (fst kv) ++ spec_enc (snd kv)) (map (fun kv => (erase (fst kv), erase (snd kv))) kvs)))%nat by lia.
    induction kvs as [|kv r IH]; [cbn; lia|]. cbn [forallb] in H. apply andb_prop in H as [H1 H2]. apply andb_prop in H1 as [Hk _].
    cbn [map flat_map length fst snd]. rewrite !app_length. specialize (IH H2).
    destruct (fst kv) as [| | | | |k| | | | | | | | | | | |]; cbn [conforms prim_conforms] in Hk; try discriminate Hk.
    cbn [erase spec_enc]. rewrite app_length. unfold spec_len. pose proof (spec_varint_nonempty (N.of_nat (length k))). lia.
  Qed.

  Theorem de_agree : forall v, agree_de_at v.
  Proof.
    apply (nvalue_ind' agree_de_at); unfold agree_de_at.
    - (* leaves *)
      intros v. destruct v; try exact I; intros s rest Hc Hu Hs Hm Hr; destruct s; cbn [conforms] in Hc; try discriminate Hc;
        try (unfold DE; cbn [dyn_de]; rewrite de_no_panic_arm; apply prim_agree_de; [exact Hc|exact Hu|intros ->; discriminate Hs|exact Hr]).
      all: try (match type of Hc with match ?kk with _ => _ end = true => destruct kk; try discriminate Hc end).
      + (* none under an option *) unfold DE. cbn [dyn_de]. rewrite de_no_panic_arm. reflexivity.
      + (* unit struct *) rewrite de_arm_struct. reflexivity.
    - (* some *)
      intros x IH s rest Hc Hu Hs Hm Hr. destruct s; cbn [conforms] in Hc; try discriminate Hc.
      + exfalso. destruct p; cbn [prim_conforms] in Hc; try discriminate Hc. discriminate Hs.
      + cbn [in_scope] in Hs. apply andb_prop in Hs as [_ Hs]. cbn [unamb small_seqs] in Hu, Hm.
        unfold DE. cbn [dyn_de]. rewrite de_no_panic_arm. fold DE. cbn [erase spec_enc app take_one dbind].
        change (1 =? 0) with false. change (1 =? 1) with true. cbv iota. apply IH; assumption.
      + destruct k; discriminate Hc.
    - (* newtype struct *)
      intros n x IH s rest Hc Hu Hs Hm Hr. destruct s; cbn [conforms] in Hc; try discriminate Hc.
      + exfalso. destruct p; cbn [prim_conforms] in Hc; try discriminate Hc. discriminate Hs.
      + destruct k; try discriminate Hc. destruct fields as [|f [|? ?]]; try discriminate Hc.
        cbn [in_scope] in Hs. apply body_scope_fields in Hs. cbn [forallb] in Hs. apply andb_prop in Hs as [Hs _].
        cbn [unamb small_seqs] in Hu, Hm. rewrite de_arm_struct. cbn [de_data]. apply IH; assumption.
    - (* seq *)
      intros xs IH s rest Hc Hu Hs Hm Hr. destruct s; cbn [conforms] in Hc; try discriminate Hc.
      + exfalso. destruct p; cbn [prim_conforms] in Hc; try discriminate Hc. discriminate Hs.
      + apply andb_prop in Hc as [Hc Hl]. apply N.ltb_lt in Hl. cbn [unamb in_scope small_seqs] in Hu, Hs, Hm.
        apply andb_prop in Hm as [Hsm Hm].
        unfold DE. cbn [dyn_de]. rewrite de_no_panic_arm. fold DE. cbn [erase spec_enc]. rewrite <- app_assoc.
        unfold spec_len. rewrite map_length.
        assert (Hok : bytes_ok (flat_map spec_enc (map erase xs) ++ rest)).
        { apply bytes_ok_app. split; [|exact Hr]. clear -Hc. induction xs as [|y r' IHr]; [constructor|].
          cbn [forallb] in Hc. apply andb_prop in Hc as [H1 H2]. cbn [map flat_map]. apply bytes_ok_app.
          split; [eapply conf_bytes_ok; exact H1|apply IHr; exact H2]. }
        rewrite dusize_roundtrip by assumption. cbn [dbind].
        rewrite (de_repeat_agree s xs IH Hc Hu Hs Hm); [reflexivity| |exact Hr].
        rewrite <- (Nat2N.id (length xs)) at 1. apply loop_fuel_enough.
        apply orb_prop in Hsm as [Hsm|Hsm]; [left; apply N.leb_le; exact Hsm|right].
        pose proof (fat_elements_fit xs rest Hsm). lia.
      + destruct k; discriminate Hc.
    - (* tuple *)
      intros xs IH s rest Hc Hu Hs Hm Hr. destruct s; cbn [conforms] in Hc; try discriminate Hc.
      + exfalso. destruct p; cbn [prim_conforms] in Hc; try discriminate Hc. discriminate Hs.
      + cbn [unamb in_scope small_seqs] in Hu, Hs, Hm.
        unfold DE. cbn [dyn_de]. rewrite de_no_panic_arm. fold DE. cbn [erase spec_enc].
        rewrite (de_all_agree xs IH ts rest Hc Hu Hs Hm Hr). reflexivity.
      + destruct k; discriminate Hc.
    - (* tuple struct *)
      intros n xs IH s rest Hc Hu Hs Hm Hr. destruct s; cbn [conforms] in Hc; try discriminate Hc.
      + exfalso. destruct p; cbn [prim_conforms] in Hc; try discriminate Hc. discriminate Hs.
      + destruct k; try discriminate Hc. cbn [unamb in_scope small_seqs] in Hu, Hs, Hm. apply body_scope_fields in Hs.
        rewrite de_arm_struct. cbn [de_data erase spec_enc].
        rewrite (de_snd_all_agree xs IH fields rest Hc Hu Hs Hm Hr). reflexivity.
    - (* map *)
      intros kvs IH s rest Hc Hu Hs Hm Hr. destruct s; cbn [conforms] in Hc; try discriminate Hc.
      + exfalso. destruct p; cbn [prim_conforms] in Hc; try discriminate Hc. discriminate Hs.
      + apply andb_prop in Hc as [Hc Hl]. apply N.ltb_lt in Hl. cbn [unamb] in Hu. apply andb_prop in Hu as [Hu Hasc].
        cbn [in_scope] in Hs. destruct s1 as [[]| | | | | |]; try discriminate Hs.
        cbn [small_seqs] in Hm.
        unfold DE. cbn [dyn_de]. rewrite de_no_panic_arm. fold DE. cbn [erase spec_enc]. rewrite <- app_assoc.
        unfold spec_len. rewrite map_length.
        assert (Hok : bytes_ok (flat_map (fun kv => spec_enc (fst kv) ++ spec_enc (snd kv)) (map (fun kv => (erase (fst kv), erase (snd kv))) kvs) ++ rest)).
        { apply bytes_ok_app. split; [|exact Hr]. clear -Hc. induction kvs as [|y r' IHr]; [constructor|].
          cbn [forallb] in Hc. apply andb_prop in Hc as [H1 H2]. apply andb_prop in H1 as [Ha Hb].
          cbn [map flat_map fst snd]. apply bytes_ok_app. split; [|apply IHr; exact H2].
          apply bytes_ok_app. split; eapply conf_bytes_ok; eassumption. }
        rewrite dusize_roundtrip by assumption. cbn [dbind].
        rewrite (de_entries_agree s2 kvs IH Hc Hu Hs Hm); [reflexivity| |exact Hr].
        rewrite <- (Nat2N.id (length kvs)) at 1. apply loop_fuel_enough. right.
        pose proof (entries_fit kvs s2 rest Hc). lia.
      + destruct k; discriminate Hc.
    - (* struct with named fields *)
      intros n fs IH s rest Hc Hu Hs Hm Hr. destruct s; cbn [conforms] in Hc; try discriminate Hc.
      + exfalso. destruct p; cbn [prim_conforms] in Hc; try discriminate Hc. discriminate Hs.
      + destruct k; try discriminate Hc. cbn [unamb in_scope small_seqs] in Hu, Hs, Hm. apply body_scope_fields in Hs.
        rewrite de_arm_struct. cbn [de_data erase spec_enc].
        rewrite (de_fields_agree fs IH fields [] rest Hc Hu Hs Hm Hr). reflexivity.
    - (* enum variant *)
      intros e i vn p IH s rest Hc Hu Hs Hm Hr. destruct s; cbn [conforms] in Hc; try discriminate Hc.
      + exfalso. destruct p0; cbn [prim_conforms] in Hc; try discriminate Hc. discriminate Hs.
      + destruct k; discriminate Hc.
      + apply andb_prop in Hc as [Hi Hc]. apply N.ltb_lt in Hi.
        destruct (nth_error variants (N.to_nat i)) as [[[vn' k] fs]|] eqn:En; [|discriminate Hc].
        apply andb_prop in Hc as [Hvn Hc]. apply list_N_eqb_eq in Hvn. subst vn'.
        cbn [in_scope] in Hs. apply andb_prop in Hs as [Hs Hd]. cbn [unamb small_seqs] in Hu, Hm.
        assert (Hbody : body_in_scope in_scope k fs = true).
        { rewrite forallb_forall in Hs. apply (Hs (vn, k, fs)). eapply nth_error_In. exact En. }
        assert (Hlt : (N.to_nat i < length variants)%nat) by (apply nth_error_Some; rewrite En; discriminate).
        assert (Hpc : conforms d p (SStruct [] k fs) = true).
        { cbn [conforms]. destruct k, p; try discriminate Hc; exact Hc. }
        pose proof (IH (SStruct [] k fs) rest Hpc Hu Hbody Hm Hr) as Hp. rewrite de_arm_struct in Hp.
        unfold DE. cbn [dyn_de]. rewrite de_no_panic_arm. fold DE. cbn [erase spec_enc]. rewrite <- app_assoc.
        rewrite dusize_roundtrip; [|lia|apply bytes_ok_app; split; [eapply conf_bytes_ok; exact Hpc|exact Hr]].
        cbn [dbind]. replace (i <? N.of_nat (length variants)) with true by (symmetry; apply N.ltb_lt; lia).
        assert (Ego : forall (l : list (str * dkind * list (str * schema))) n, nth_error l n = Some (vn, k, fs) ->
                  (fix go (vs : list (str * dkind * list (str * schema))) (n : nat) : de_res (json * list byte) :=
                     match vs, n with
                     | v :: _, 0%nat =>
                       match snd (fst v) with
                       | DUnit => DOk (JStr (fst (fst v)), spec_enc (erase p) ++ rest)
                       | k0 => dlet '(j, r') := de_data DE k0 (snd v) (spec_enc (erase p) ++ rest) in DOk (JObj [(fst (fst v), j)], r')
                       end
                     | _ :: rest0, S n' => go rest0 n'
                     | [], _ => DErr DynSchemaMismatch
                     end) l n
                  = match k with
                    | DUnit => DOk (JStr vn, spec_enc (erase p) ++ rest)
                    | k0 => dlet '(j, r') := de_data DE k0 fs (spec_enc (erase p) ++ rest) in DOk (JObj [(vn, j)], r')
                    end).
        { induction l as [|v r IHl]; intros [|n] Hn; try discriminate Hn; [injection Hn as ->; cbn [fst snd]; destruct k; reflexivity|apply IHl; exact Hn]. }
        rewrite (Ego variants (N.to_nat i) En).
        destruct k.
        * (* unit variant *) destruct p; try discriminate Hc. cbn [erase spec_enc app]. reflexivity.
        * rewrite Hp. cbn [dbind]. destruct p; try discriminate Hc. reflexivity.
        * rewrite Hp. cbn [dbind]. destruct p; try discriminate Hc. reflexivity.
        * rewrite Hp. cbn [dbind]. destruct p; try discriminate Hc. reflexivity.
  Qed.
End AgreeDe.

(* stated on the real encoder model, from nothing left over: from_slice_dyn *)
Theorem de_agree_enc widen d v s :
  conforms d v s = true -> unamb v = true -> in_scope s = true -> small_seqs v = true ->
  from_slice_dyn widen s (enc (erase v)) = DOk (json_of widen v).
Proof.
  intros Hc Hu Hs Hm. destruct (enc_is_spec_aux _ _ (conforms_typed d v s Hc)) as [_ E]. rewrite E.
  unfold from_slice_dyn. rewrite <- (app_nil_r (spec_enc (erase v))).
  rewrite (de_agree widen d v s [] Hc Hu Hs Hm (Forall_nil _)). reflexivity.
Qed.
