(* DynAgreeNz.v: for schemas without a sequence of zero-width elements (dno_zero), every conforming
   value satisfies small_seqs, so C17's decoding direction needs no bound on sizes there. *)
From PV Require Import Base MachineInt VarintParams GenArith GenLoops GenPanicArms Varint Utf8 DataModel De Ser Schema SchemaDecl SchemaFmt SchemaConv SchemaOps Conform WireFormat Dyn JsonOf DynSizeDefs.
From PV Require Import BaseFacts VarintFacts VarintCore ZigZagFacts Utf8Facts SerFacts DeFacts SchemaFacts ConformFacts DynFacts DynAgree DynAgreeDe DynSize.
From Coq Require Import Lia.
Open Scope N_scope.

Lemma spec_int_nonempty k z : (1 <= length (spec_int k z))%nat.
Proof. destruct k; cbn [spec_int length]; try lia; apply spec_varint_nonempty. Qed.

Section Nz.
  Variable d : nat.

  Lemma prim_enc_min v p : prim_conforms d v p = true -> p <> PSchema ->
    pmin p <= N.of_nat (length (spec_enc (erase v))).
  Proof.
    intros H Hp. destruct p; try (exfalso; apply Hp; reflexivity);
      destruct v; cbn [prim_conforms erase prim_ty has_type] in H; try discriminate H;
      cbn [pmin erase spec_enc]; rewrite ?app_length, ?le_bytes_length; unfold spec_len;
      try (pose proof (spec_int_nonempty k z)); try (pose proof (spec_varint_nonempty (N.of_nat (length (utf8_encode c)))));
      try (pose proof (spec_varint_nonempty (N.of_nat (length bs)))); cbn [length]; try lia.
  Qed.
End Nz.

Section Nz2.
  Variable d : nat.

  Definition nz_at (v : nvalue) : Prop :=
    forall s, conforms d v s = true -> in_scope s = true ->
    dmin s <= N.of_nat (length (spec_enc (erase v))) /\ (dno_zero s = true -> small_seqs v = true).

  Lemma list_nz xs : Forall nz_at xs -> forall ts, conforms_list (conforms d) xs ts = true -> forallb in_scope ts = true ->
    dmin_sum ts <= N.of_nat (length (flat_map spec_enc (map erase xs))) /\ (forallb dno_zero ts = true -> forallb small_seqs xs = true).
  Proof.
    induction 1 as [|x r Hx _ IH]; intros [|t ts] Hc Hs; try discriminate Hc; [split; [cbn; lia|intros _; reflexivity]|].
    cbn [conforms_list forallb] in *. apply andb_prop in Hc as [Hc1 Hc2]. apply andb_prop in Hs as [Hs1 Hs2].
    destruct (Hx t Hc1 Hs1) as [M1 S1]. destruct (IH ts Hc2 Hs2) as [M2 S2].
    cbn [map flat_map dmin_sum]. rewrite app_length. split; [lia|].
    intros Hz. apply andb_prop in Hz as [Hz1 Hz2]. rewrite (S1 Hz1), (S2 Hz2). reflexivity.
  Qed.
  Lemma unnamed_nz xs : Forall nz_at xs -> forall (fs : list (str * schema)), conforms_unnamed (conforms d) xs fs = true ->
    forallb (fun f => in_scope (snd f)) fs = true ->
    dmin_fsum fs <= N.of_nat (length (flat_map spec_enc (map erase xs))) /\
    (forallb (fun f => dno_zero (snd f)) fs = true -> forallb small_seqs xs = true).
  Proof.
    induction 1 as [|x r Hx _ IH]; intros [|t ts] Hc Hs; try discriminate Hc; [split; [cbn; lia|intros _; reflexivity]|].
    cbn [conforms_unnamed forallb] in *. apply andb_prop in Hc as [Hc1 Hc2]. apply andb_prop in Hs as [Hs1 Hs2].
    destruct (Hx (snd t) Hc1 Hs1) as [M1 S1]. destruct (IH ts Hc2 Hs2) as [M2 S2].
    cbn [map flat_map dmin_fsum]. rewrite app_length. split; [lia|].
    intros Hz. apply andb_prop in Hz as [Hz1 Hz2]. rewrite (S1 Hz1), (S2 Hz2). reflexivity.
  Qed.
  Lemma named_nz (xs : list (list N * nvalue)) : Forall (fun f => nz_at (snd f)) xs ->
    forall (fs : list (str * schema)), conforms_named (conforms d) xs fs = true ->
    forallb (fun f => in_scope (snd f)) fs = true ->
    dmin_fsum fs <= N.of_nat (length (flat_map spec_enc (map (fun f => erase (snd f)) xs))) /\
    (forallb (fun f => dno_zero (snd f)) fs = true -> forallb (fun f => small_seqs (snd f)) xs = true).
  Proof.
    induction 1 as [|x r Hx _ IH]; intros [|t ts] Hc Hs; try discriminate Hc; [split; [cbn; lia|intros _; reflexivity]|].
    cbn [conforms_named forallb] in *. apply andb_prop in Hc as [Hc1 Hc2]. apply andb_prop in Hc1 as [_ Hc1]. apply andb_prop in Hs as [Hs1 Hs2].
    destruct (Hx (snd t) Hc1 Hs1) as [M1 S1]. destruct (IH ts Hc2 Hs2) as [M2 S2].
    cbn [map flat_map dmin_fsum]. rewrite app_length. split; [lia|].
    intros Hz. apply andb_prop in Hz as [Hz1 Hz2]. rewrite (S1 Hz1), (S2 Hz2). reflexivity.
  Qed.

  (* a struct-form item against a data kind *)
  Lemma data_nz p n k (fs : list (str * schema)) : nz_at p ->
    conforms d p (SStruct n k fs) = true -> body_in_scope in_scope k fs = true ->
    (match k with DUnit => 0 | _ => dmin_fsum fs end) <= N.of_nat (length (spec_enc (erase p))) /\
    (forallb (fun f => dno_zero (snd f)) fs = true -> small_seqs p = true).
  Proof.
    intros Hp Hc Hs. destruct (Hp (SStruct n k fs) Hc Hs) as [M S]. rewrite dmin_struct in M. split; [exact M|exact S].
  Qed.

  Theorem nz_all : forall v, nz_at v.
  Proof.
    apply (nvalue_ind' nz_at); unfold nz_at.
    - (* leaves *)
      intros v. destruct v; try exact I; intros s Hc Hs; destruct s; cbn [conforms] in Hc; try discriminate Hc.
      all: try (split; [cbn [dmin]; apply (prim_enc_min d); [exact Hc|intros ->; discriminate Hs]|intros _; reflexivity]).
      all: try (match type of Hc with match ?kk with _ => _ end = true => destruct kk; try discriminate Hc end).
      + (* none *) split; [cbn [dmin erase spec_enc length]; lia|intros _; reflexivity].
      + (* unit struct *) split; [rewrite dmin_struct; cbn [erase spec_enc length]; lia|intros _; reflexivity].
    - (* some *)
      intros x IH s Hc Hs. destruct s; cbn [conforms] in Hc; try discriminate Hc.
      + exfalso. destruct p; cbn [prim_conforms] in Hc; try discriminate Hc. discriminate Hs.
      + cbn [in_scope] in Hs. apply andb_prop in Hs as [_ Hs]. destruct (IH s Hc Hs) as [M S].
        split; [cbn [dmin erase spec_enc length]; lia|cbn [dno_zero small_seqs]; exact S].
      + destruct k; discriminate Hc.
    - (* newtype struct *)
      intros n x IH s Hc Hs. destruct s; cbn [conforms] in Hc; try discriminate Hc.
      + exfalso. destruct p; cbn [prim_conforms] in Hc; try discriminate Hc. discriminate Hs.
      + destruct k; try discriminate Hc. destruct fields as [|f [|? ?]]; try discriminate Hc.
        cbn [in_scope] in Hs. apply body_scope_fields in Hs. cbn [forallb] in Hs. apply andb_prop in Hs as [Hs _].
        destruct (IH (snd f) Hc Hs) as [M S]. rewrite dmin_struct. cbn [dmin_fsum erase spec_enc dno_zero forallb small_seqs].
        split; [lia|]. intros Hz. apply andb_prop in Hz as [Hz _]. exact (S Hz).
    - (* seq *)
      intros xs IH s Hc Hs. destruct s; cbn [conforms] in Hc; try discriminate Hc.
      + exfalso. destruct p; cbn [prim_conforms] in Hc; try discriminate Hc. discriminate Hs.
      + apply andb_prop in Hc as [Hc _]. cbn [in_scope] in Hs. split.
        * cbn [dmin erase spec_enc]. rewrite app_length. unfold spec_len.
          pose proof (spec_varint_nonempty (N.of_nat (length (map erase xs)))). lia.
        * cbn [dno_zero small_seqs]. intros Hz. apply andb_prop in Hz as [Hz Hm]. apply N.leb_le in Hm.
          apply andb_true_intro. split.
          -- apply orb_true_intro. right. rewrite forallb_forall in *. intros x Hx. rewrite Forall_forall in IH.
             destruct (IH x Hx s (Hc x Hx) Hs) as [M _]. apply negb_true_iff. apply N.eqb_neq. lia.
          -- rewrite forallb_forall in *. intros x Hx. rewrite Forall_forall in IH. destruct (IH x Hx s (Hc x Hx) Hs) as [_ S]. exact (S Hz).
      + destruct k; discriminate Hc.
    - (* tuple *)
      intros xs IH s Hc Hs. destruct s; cbn [conforms] in Hc; try discriminate Hc.
      + exfalso. destruct p; cbn [prim_conforms] in Hc; try discriminate Hc. discriminate Hs.
      + cbn [in_scope] in Hs. destruct (list_nz xs IH ts Hc Hs) as [M S].
        rewrite dmin_tuple. cbn [erase spec_enc dno_zero small_seqs]. split; [exact M|exact S].
      + destruct k; discriminate Hc.
    - (* tuple struct *)
      intros n xs IH s Hc Hs. destruct s; cbn [conforms] in Hc; try discriminate Hc.
      + exfalso. destruct p; cbn [prim_conforms] in Hc; try discriminate Hc. discriminate Hs.
      + destruct k; try discriminate Hc. cbn [in_scope] in Hs. apply body_scope_fields in Hs.
        destruct (unnamed_nz xs IH fields Hc Hs) as [M S].
        rewrite dmin_struct. cbn [erase spec_enc dno_zero small_seqs]. split; [exact M|exact S].
    - (* map *)
      intros kvs IH s Hc Hs. destruct s; cbn [conforms] in Hc; try discriminate Hc.
      + exfalso. destruct p; cbn [prim_conforms] in Hc; try discriminate Hc. discriminate Hs.
      + apply andb_prop in Hc as [Hc _]. cbn [in_scope] in Hs. destruct s1 as [[]| | | | | |]; try discriminate Hs. split.
        * cbn [dmin erase spec_enc]. rewrite app_length. unfold spec_len.
          pose proof (spec_varint_nonempty (N.of_nat (length (map (fun kv => (erase (fst kv), erase (snd kv))) kvs)))). lia.
        * cbn [dno_zero small_seqs]. intros Hz. cbn [andb] in Hz.
          rewrite forallb_forall in *. intros kv Hkv. rewrite Forall_forall in IH.
          pose proof (Hc kv Hkv) as Hckv. apply andb_prop in Hckv as [Hk Hv].
          destruct (IH kv Hkv) as [_ IHv]. destruct (IHv s2 Hv Hs) as [_ S].
          apply andb_true_intro. split; [|exact (S Hz)].
          destruct (fst kv); cbn [conforms prim_conforms] in Hk; try discriminate Hk. reflexivity.
      + destruct k; discriminate Hc.
    - (* struct *)
      intros n fs IH s Hc Hs. destruct s; cbn [conforms] in Hc; try discriminate Hc.
      + exfalso. destruct p; cbn [prim_conforms] in Hc; try discriminate Hc. discriminate Hs.
      + destruct k; try discriminate Hc. cbn [in_scope] in Hs. apply body_scope_fields in Hs.
        destruct (named_nz fs IH fields Hc Hs) as [M S].
        rewrite dmin_struct. cbn [erase spec_enc dno_zero small_seqs]. split; [exact M|exact S].
    - (* enum variant *)
      intros e i vn p IH s Hc Hs. destruct s; cbn [conforms] in Hc; try discriminate Hc.
      + exfalso. destruct p0; cbn [prim_conforms] in Hc; try discriminate Hc. discriminate Hs.
      + destruct k; discriminate Hc.
      + apply andb_prop in Hc as [Hi Hc].
        destruct (nth_error variants (N.to_nat i)) as [[[vn' k] fs]|] eqn:En; [|discriminate Hc].
        apply andb_prop in Hc as [_ Hc].
        cbn [in_scope] in Hs. apply andb_prop in Hs as [Hs _].
        assert (Hin : In (vn', k, fs) variants) by (eapply nth_error_In; exact En).
        assert (Hbody : body_in_scope in_scope k fs = true) by (rewrite forallb_forall in Hs; apply (Hs (vn', k, fs) Hin)).
        assert (Hpc : conforms d p (SStruct [] k fs) = true) by (cbn [conforms]; destruct k, p; try discriminate Hc; exact Hc).
        destruct (data_nz p [] k fs IH Hpc Hbody) as [_ S]. split.
        * cbn [dmin erase spec_enc]. rewrite app_length. pose proof (spec_varint_nonempty i). lia.
        * cbn [dno_zero small_seqs]. intros Hz. rewrite forallb_forall in Hz. apply S. apply (Hz (vn', k, fs) Hin).
  Qed.
End Nz2.

(* C17, decoding direction, with the restriction on sizes replaced by a restriction on the schema *)
Theorem de_agree_enc_nz widen d v s :
  conforms d v s = true -> unamb v = true -> in_scope s = true -> dno_zero s = true ->
  from_slice_dyn widen s (enc (erase v)) = DOk (json_of widen v).
Proof.
  intros Hc Hu Hs Hz. apply (de_agree_enc widen d v s Hc Hu Hs).
  destruct (nz_all d v s Hc Hs) as [_ S]. exact (S Hz).
Qed.
(* ... and every conforming value's encoding is at least as long as the schema's minimum *)
Theorem enc_at_least_dmin d v s : conforms d v s = true -> in_scope s = true ->
  dmin s <= N.of_nat (length (spec_enc (erase v))).
Proof. intros Hc Hs. destruct (nz_all d v s Hc Hs) as [M _]. exact M. Qed.
