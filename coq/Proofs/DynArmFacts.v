(* DynArmFacts.v: Dyn.ser_prim is, on the fourteen numeric / boolean kinds, what the arms of
   ser_named_type read from postcard-dyn/src/ser.rs compute (C17, C18). *)
From PV Require Import Base MachineInt VarintParams GenArith GenLoops Varint DataModel Schema SchemaDecl MaxSize Dyn DynArmDecl GenDynArms DynArms DynCompositeExpected GenDynComposite GenDynHelpers.
From Coq Require Import Lia ZArith.
Open Scope N_scope.

(* serde_json integers: -2^63 <= z < 2^64 *)
Definition json_int_ok (j : json) : Prop := match j with JInt z => (- 2 ^ 63 <= z < 2 ^ 64)%Z | _ => True end.

Section Facts.
  Variable int_to_f64 : Z -> N.
  Variable narrow : N -> N.

  Lemma fits_i64 z : (- 2 ^ 63 <= z)%Z -> (z <? 2 ^ 63)%Z = true -> fits i64 z = true.
  Proof. intros H1 H2. apply Z.ltb_lt in H2. unfold fits, in_rangeb. cbn. apply andb_true_intro. split; [apply Z.leb_le|apply Z.ltb_lt]; lia. Qed.
  Lemma fits_u64 z : (0 <=? z)%Z = true -> (z < 2 ^ 64)%Z -> fits u64 z = true.
  Proof. intros H1 H2. apply Z.leb_le in H1. unfold fits, in_rangeb. cbn. apply andb_true_intro. split; [apply Z.leb_le|apply Z.ltb_lt]; lia. Qed.

  Theorem ser_prim_is_source p j : json_int_ok j ->
    match ser_prim_via_arms int_to_f64 narrow p j with
    | Some r => ser_prim int_to_f64 narrow p j = r
    | None => True
    end.
  Proof.
    intros Hj. destruct p; try exact I; unfold ser_prim_via_arms; cbn [prim_name];
      match goal with |- match option_map _ ?x with _ => _ end => let v := eval vm_compute in x in change x with v end;
      cbn [option_map]; unfold run_arm, ser_prim.
    all: destruct j as [|b|z|fb|bs|l|kvs]; try reflexivity.
    all: cbn [json_int_ok] in Hj.
    all: repeat match goal with
         | |- context [list_N_eqb ?a ?b] => let v := eval vm_compute in (list_N_eqb a b) in change (list_N_eqb a b) with v
         | |- context [ity_of_name ?a] => let v := eval vm_compute in (ity_of_name a) in change (ity_of_name a) with v
         | |- context [dyn_writer_named ?a] => let v := eval vm_compute in (dyn_writer_named a) in change (dyn_writer_named a) with v
         end; cbv iota.
    all: unfold dyn_zig_zag; cbn [N.eqb Pos.eqb]; cbv iota.
    all: unfold as_i64, as_u64, as_f64, mismatch, uvar; cbn [option_map].
    all: try (match goal with |- context [(?z <? 2 ^ 63)%Z] => destruct (z <? 2 ^ 63)%Z eqn:E1; cbn [option_map]; [try rewrite (fits_i64 z) by (assumption || lia)|reflexivity] end).
    all: try (match goal with |- context [(0 <=? ?z)%Z] => destruct (0 <=? z)%Z eqn:E1; cbn [option_map]; [try rewrite (fits_u64 z) by (assumption || lia)|reflexivity] end).
    all: unfold fits; cbv [i8 u8 i16 u16 i32 u32 i64 u64 i128 u128 usize isize].
    all: try (match goal with |- context [in_rangeb ?t ?z] => destruct (in_rangeb t z) eqn:E2 end).
    all: try reflexivity.
    all: match goal with |- context [f32_finite ?x] => destruct (f32_finite x); reflexivity end.
  Qed.

  (* the table names exactly the kinds the model treats as numbers / bool *)
  Lemma arms_cover p :
    match p with
    | PBool | PI8 | PU8 | PI16 | PI32 | PI64 | PI128 | PU16 | PU32 | PU64 | PU128 | PUsize | PF32 | PF64 =>
      ser_prim_via_arms int_to_f64 narrow p JNull <> None
    | _ => True
    end.
  Proof. destruct p; try exact I; vm_compute; discriminate. Qed.
End Facts.

(* ---- the decoder ---- *)
Lemma take_n_length n bs l r : take_n n bs = DOk (l, r) -> N.of_nat (length l) = n.
Proof.
  unfold take_n. destruct (N.of_nat (length bs) <? n) eqn:E; [discriminate|].
  intros H. injection H as H _. subst l. apply N.ltb_ge in E. rewrite firstn_length. lia.
Qed.

Section DeFacts.
  Variable widen : N -> N.

  Theorem de_prim_is_source p bs :
    match de_prim_via_arms widen p bs with
    | Some r => de_prim widen p bs = r
    | None => True
    end.
  Proof.
    destruct p; try exact I; unfold de_prim_via_arms; cbn [prim_name];
      match goal with |- match option_map _ ?x with _ => _ end => let v := eval vm_compute in x in change x with v end;
      cbn [option_map]; unfold run_de_arm, de_prim; cbn [run_de_steps run_de_step run_de_final fst snd].
    all: repeat match goal with
         | |- context [list_N_eqb ?a ?b] => let v := eval vm_compute in (list_N_eqb a b) in change (list_N_eqb a b) with v
         | |- context [ity_of_name ?a] => let v := eval vm_compute in (ity_of_name a) in change (ity_of_name a) with v
         | |- context [dyn_reader_named ?a] => let v := eval vm_compute in (dyn_reader_named a) in change (dyn_reader_named a) with v
         | |- context [dyn_de_error_named ?a] => let v := eval vm_compute in (dyn_de_error_named a) in change (dyn_de_error_named a) with v
         end; cbv iota.
    all: cbv [dyn_reader_u16 dyn_reader_u32 dyn_reader_u64 dyn_reader_u128 i8 u8 i16 u16 i32 u32 i64 u64 i128 u128 usize isize fits num].
    all: unfold dyn_de_zig_zag; cbn [N.eqb Pos.eqb]; cbv iota.
    all: try (match goal with |- context [take_one ?l] => destruct (take_one l) as [[b r]|e| |]; cbn [dbind fst snd]; try reflexivity end).
    all: try (match goal with |- context [dvar ?p ?l] => destruct (dvar p l) as [[n r]|e| |]; cbn [dbind fst snd]; try reflexivity end).
    all: try (match goal with |- context [take_n ?k ?l0] => destruct (take_n k l0) as [[l r]|e| |] eqn:E; cbn [dbind fst snd]; try reflexivity;
                apply take_n_length in E; rewrite E; cbn [N.eqb Pos.eqb negb]; cbv iota end).
    all: cbv zeta; cbn [dbind].
    all: repeat match goal with |- context [if ?c then _ else _] => destruct c; cbn [dbind fst snd]; try reflexivity end.
  Qed.

  Lemma de_arms_cover p :
    match p with
    | PBool | PI8 | PU8 | PI16 | PI32 | PI64 | PI128 | PU16 | PU32 | PU64 | PU128 | PUsize | PF32 | PF64 =>
      de_prim_via_arms widen p [] <> None
    | _ => True
    end.
  Proof. destruct p; try exact I; vm_compute; discriminate. Qed.
End DeFacts.

(* ---- the interpreted arms never reach a panic site (C18) ---- *)
Lemma ser_arms_never_panic int_to_f64 narrow p j r :
  ser_prim_via_arms int_to_f64 narrow p j = Some r -> r <> DPanic.
Proof.
  unfold ser_prim_via_arms. destruct p; cbn [prim_name];
    match goal with |- option_map _ ?x = _ -> _ => let v := eval vm_compute in x in change x with v end;
    cbn [option_map]; try discriminate; intros H; injection H as H; subst r; unfold run_arm.
  all: repeat match goal with
       | |- context [list_N_eqb ?a ?b] => let v := eval vm_compute in (list_N_eqb a b) in change (list_N_eqb a b) with v
       | |- context [ity_of_name ?a] => let v := eval vm_compute in (ity_of_name a) in change (ity_of_name a) with v
       | |- context [dyn_writer_named ?a] => let v := eval vm_compute in (dyn_writer_named a) in change (dyn_writer_named a) with v
       end; cbv iota.
  all: unfold dyn_zig_zag; cbn [N.eqb Pos.eqb]; cbv iota.
  all: destruct j as [|b|z|fb|bs|l|kvs]; unfold as_i64, as_u64, as_f64; cbn [option_map]; try discriminate.
  all: repeat match goal with |- context [if ?c then _ else _] => destruct c; cbn [option_map]; try discriminate end.
Qed.

(* ---- the non-scalar arms: matched against the templates the hand model was written from, with
   the same error kinds and tag bytes ---- *)
Lemma dyn_composite_is_source :
  dyn_ser_composite_holes = dyn_ser_composite_expected /\ dyn_de_composite_holes = dyn_de_composite_expected.
Proof. split; reflexivity. Qed.

(* the helpers around the walks: to_stdvec_dyn, from_slice_dyn, Option::right (None is
   SchemaMismatch), From<TryFromIntError> (SchemaMismatch), take_one / take_n (bounds-checked,
   UnexpectedEndOfData) *)
Lemma dyn_helpers_are_source :
  dynser_fns_matched = [[102; 114; 111; 109]; [114; 105; 103; 104; 116]; [116; 111; 95; 115; 116; 100; 118; 101; 99; 95; 100; 121; 110]] /\
  dynde_fns_matched = [[102; 114; 111; 109; 95; 115; 108; 105; 99; 101; 95; 100; 121; 110]; [114; 105; 103; 104; 116]; [116; 97; 107; 101; 95; 111; 110; 101]].
Proof. split; reflexivity. Qed.
