(* DynFacts.v: postcard-dyn is total: neither walk can panic (C18); the private varint copies
   read exactly what the reference reader reads. *)
From PV Require Import Base MachineInt VarintParams GenArith GenLoops GenPanicArms Varint Utf8 DataModel Schema SchemaDecl SchemaFmt SchemaConv Dyn WireFormat.
From PV Require Import BaseFacts VarintFacts VarintCore SchemaFacts.
From Coq Require Import Lia.
Open Scope N_scope.

(* ---- the private varint reader = the reference reader ---- *)
Definition dspec (o : vspec) : dres dyn_de_error (N * list byte) :=
  match o with
  | VsOk n r => DOk (n, r)
  | VsEnd => DErr DynUnexpectedEndOfData
  | VsBad => DErr DynSchemaMismatch
  end.
Lemma dvar_spec t l : is_vty t -> bytes_ok l ->
  dvar (std_reader t DynSchemaMismatch) l = dspec (spec_vread (wbits t) l).
Proof.
  intros Ht Hl. unfold dvar. cbn [std_reader r_ty r_errlast r_errlong].
  destruct dyn_arith_same as (E1 & E2 & _). rewrite E1, E2.
  pose proof (vdec_spec tt DynSchemaMismatch t (wbits t) (tvmax t) (tmolb t) (vfacts_of t Ht) eq_refl l Hl) as H.
  rewrite <- spec_vread_len in H by assumption. unfold vdec in *.
  rewrite (vdec_loop_ext _ _ _ _ (lpop tt)).
  2:{ intros [|b r]; reflexivity. }
  fold (tvmax t) (tmolb t).
  destruct (vdec_loop _ _ _ _ _ _ _ _) as [n r|x| | |] eqn:Ev; cbn [vnorm] in H;
    try discriminate; inversion H as [H1]; reflexivity.
Qed.
Lemma dyn_readers_are_std :
  dyn_reader_u16 = std_reader u16 DynSchemaMismatch /\ dyn_reader_u32 = std_reader u32 DynSchemaMismatch /\
  dyn_reader_u64 = std_reader u64 DynSchemaMismatch /\ dyn_reader_u128 = std_reader u128 DynSchemaMismatch.
Proof. repeat split; reflexivity. Qed.

(* what a reader hands back is a suffix of what it was given *)
Lemma spec_vread_rest_ok w l n r : bytes_ok l -> spec_vread w l = VsOk n r -> bytes_ok r.
Proof.
  intros Hl E. apply spec_vread_iff in E; [|exact Hl]. destruct E as (bs & -> & _).
  apply bytes_ok_app in Hl. apply Hl.
Qed.

(* ---- no panic, and remainders stay byte strings ---- *)
Definition good {A} (r : dres dyn_de_error (A * list byte)) : Prop :=
  match r with DOk (_, rest) => bytes_ok rest | DPanic => False | _ => True end.
Lemma good_bind {A B} (r : dres dyn_de_error (A * list byte)) (f : A * list byte -> dres dyn_de_error (B * list byte)) :
  good r -> (forall a rest, bytes_ok rest -> good (f (a, rest))) -> good (dbind r f).
Proof. destruct r as [[a rest]|e| |]; cbn; auto. Qed.

Lemma take_one_good bs : bytes_ok bs -> good (take_one bs).
Proof. destruct bs; cbn; [trivial|]. intros H. apply Forall_inv_tail in H. exact H. Qed.
Lemma take_n_good n bs : bytes_ok bs -> good (take_n n bs).
Proof.
  intros H. unfold take_n. destruct (_ <? _); cbn; [trivial|]. apply Forall_skipn'. exact H.
Qed.
Lemma dvar_good t bs : is_vty t -> bytes_ok bs -> good (dvar (std_reader t DynSchemaMismatch) bs).
Proof.
  intros Ht H. rewrite dvar_spec by assumption. destruct (spec_vread (wbits t) bs) as [n r| |] eqn:E; cbn; trivial.
  eapply spec_vread_rest_ok; eassumption.
Qed.
Lemma dusize_good bs : bytes_ok bs -> good (dusize bs).
Proof. intros H. unfold dusize. change dyn_reader_u64 with (std_reader u64 DynSchemaMismatch). apply dvar_good; [right; right; left; reflexivity|exact H]. Qed.
Lemma de_str_good bs : bytes_ok bs -> good (de_str bs).
Proof.
  intros H. unfold de_str. apply good_bind; [apply dusize_good; exact H|]. intros n r Hr.
  apply good_bind; [apply take_n_good; exact Hr|]. intros s r' Hr'. destruct (utf8_valid s); cbn; trivial.
Qed.

Section DeTotal.
  Variable widen : N -> N.
  Let DE := dyn_de widen.

  Ltac step H :=
    apply good_bind;
    [first [apply take_one_good; exact H | apply take_n_good; exact H | apply dvar_good; assumption
            | apply de_str_good; exact H | apply dusize_good; exact H]|];
    let a := fresh "a" in let r := fresh "r" in let Hr := fresh "Hr" in intros a r Hr; cbn [dbind].

  Lemma de_prim_good p bs : bytes_ok bs -> good (de_prim widen p bs).
  Proof.
    intros H. destruct dyn_readers_are_std as (R16 & R32 & R64 & R128).
    assert (V16 : is_vty u16) by (left; reflexivity).
    assert (V32 : is_vty u32) by (right; left; reflexivity).
    assert (V64 : is_vty u64) by (right; right; left; reflexivity).
    assert (V128 : is_vty u128) by (right; right; right; reflexivity).
    destruct p; cbn [de_prim]; cbv zeta; rewrite ?R16, ?R32, ?R64, ?R128.
    - step H. destruct (a =? 0); [exact Hr|]. destruct (a =? 1); [exact Hr|exact I].
    - step H. exact Hr.
    - step H. exact Hr.
    - step H. exact Hr.
    - step H. exact Hr.
    - step H. exact Hr.
    - step H. destruct (fits i64 _); cbn; [exact Hr|exact I].
    - step H. exact Hr.
    - step H. exact Hr.
    - step H. exact Hr.
    - step H. destruct (fits u64 _); cbn; [exact Hr|exact I].
    - step H. exact Hr.
    - step H. exact Hr.
    - step H. destruct (f32_finite _); cbn; [exact Hr|exact I].
    - step H. destruct (f64_finite _); cbn; [exact Hr|exact I].
    - step H. destruct (utf8_chars a) as [[|c [|? ?]]|]; cbn; try exact I. exact Hr.
    - step H. exact Hr.
    - step H. step Hr. exact Hr0.
    - exact H.
    - exact I.
  Qed.

  Definition total_at (t : schema) : Prop := forall bs, bytes_ok bs -> good (DE t bs).

  Lemma de_all_good ts : Forall total_at ts -> forall bs, bytes_ok bs -> good (de_all DE ts bs).
  Proof.
    induction 1 as [|t r Ht _ IH]; intros bs H; cbn [de_all]; [exact H|].
    apply good_bind; [apply Ht; exact H|]. intros j bs' H'.
    apply good_bind; [apply IH; exact H'|]. intros js bs'' H''. exact H''.
  Qed.
  Lemma de_snd_all_good (fs : list (str * schema)) :
    Forall (fun f => total_at (snd f)) fs -> forall bs, bytes_ok bs -> good (de_snd_all DE fs bs).
  Proof.
    induction 1 as [|t r Ht _ IH]; intros bs H; cbn [de_snd_all]; [exact H|].
    apply good_bind; [apply Ht; exact H|]. intros j bs' H'.
    apply good_bind; [apply IH; exact H'|]. intros js bs'' H''. exact H''.
  Qed.
  Lemma de_fields_good (fs : list (str * schema)) :
    Forall (fun f => total_at (snd f)) fs -> forall acc bs, bytes_ok bs -> good (de_fields DE fs acc bs).
  Proof.
    induction 1 as [|t r Ht _ IH]; intros acc bs H; cbn [de_fields]; [exact H|].
    apply good_bind; [apply Ht; exact H|]. intros j bs' H'. apply IH. exact H'.
  Qed.
  Lemma de_repeat_good (g : list byte -> de_res (json * list byte)) :
    (forall bs, bytes_ok bs -> good (g bs)) ->
    forall fuel n acc bs, bytes_ok bs -> good (de_repeat fuel g n acc bs).
  Proof.
    intros Hg. induction fuel as [|f IH]; intros n acc bs H; cbn [de_repeat]; destruct (n =? 0); try exact H; [exact I|].
    apply good_bind; [apply Hg; exact H|]. intros j bs' H'. apply IH. exact H'.
  Qed.
  Lemma de_entries_good (g : list byte -> de_res (json * list byte)) :
    (forall bs, bytes_ok bs -> good (g bs)) ->
    forall fuel n acc bs, bytes_ok bs -> good (de_entries fuel g n acc bs).
  Proof.
    intros Hg. induction fuel as [|f IH]; intros n acc bs H; cbn [de_entries]; destruct (n =? 0); try exact H; [exact I|].
    apply good_bind; [apply de_str_good; exact H|]. intros k bs' H'.
    apply good_bind; [apply Hg; exact H'|]. intros j bs'' H''. apply IH. exact H''.
  Qed.
  Lemma de_data_good k (fs : list (str * schema)) :
    Forall (fun f => total_at (snd f)) fs -> data_wf k fs = true ->
    forall bs, bytes_ok bs -> good (de_data DE k fs bs).
  Proof.
    intros HF Hwf bs H. destruct k; cbn [de_data].
    - exact H.
    - destruct fs as [|[n t] [|? ?]]; try discriminate Hwf. apply Forall_inv in HF. apply HF. exact H.
    - apply good_bind; [apply de_snd_all_good; assumption|]. intros js r Hr. exact Hr.
    - apply good_bind; [apply de_fields_good; assumption|]. intros obj r Hr. exact Hr.
  Qed.

  Lemma de_no_panic_arm : forall s : schema, panics_on panics_dyn_de (arm_key s) = false.
  Proof. intros s. destruct s as [p| | | | |n k fs|]; [destruct p|..|destruct k|]; reflexivity. Qed.

  Theorem dyn_de_total : forall s, schema_wf s = true -> total_at s.
  Proof.
    unfold total_at.
    induction s as [p|t IH|t IH|ts IH|k v IHk IHv|n k fs IH|n vs IH] using schema_ind'; intros Hwf bs H;
      unfold DE; cbn [dyn_de]; rewrite de_no_panic_arm; fold DE.
    - apply de_prim_good. exact H.
    - apply good_bind; [apply take_one_good; exact H|]. intros b r Hr.
      destruct (b =? 0); [exact Hr|]. destruct (b =? 1); [|exact I]. apply IH; assumption.
    - apply good_bind; [apply dusize_good; exact H|]. intros cnt r Hr.
      apply good_bind; [apply de_repeat_good; [intros; apply IH; assumption|exact Hr]|]. intros js r' Hr'. exact Hr'.
    - cbn [schema_wf] in Hwf. rewrite forallb_forall in Hwf.
      apply good_bind; [apply de_all_good; [|exact H]|intros js r Hr; exact Hr].
      rewrite Forall_forall in *. intros t Ht. unfold total_at. intros. apply IH; auto.
    - cbn [schema_wf] in Hwf. apply andb_prop in Hwf as [Wk Wv].
      destruct k as [[]| | | | | |]; try exact I.
      apply good_bind; [apply dusize_good; exact H|]. intros cnt r Hr.
      apply good_bind; [apply de_entries_good; [intros; apply IHv; assumption|exact Hr]|]. intros obj r' Hr'. exact Hr'.
    - cbn [schema_wf] in Hwf. apply andb_prop in Hwf as [Wd Wf]. rewrite forallb_forall in Wf.
      apply de_data_good; [|exact Wd|exact H].
      rewrite Forall_forall in *. intros f Hf. unfold total_at. intros. apply IH; auto.
    - cbn [schema_wf] in Hwf. rewrite forallb_forall in Hwf.
      apply good_bind; [apply dusize_good; exact H|]. intros idx r Hr.
      generalize (if idx <? N.of_nat (length vs) then N.to_nat idx else length vs) as i.
      induction IH as [|v rest Hv _ IHr]; intros i; [destruct i; exact I|].
      pose proof (Hwf v (or_introl eq_refl)) as Hwv. apply andb_prop in Hwv as [Wd Wf]. rewrite forallb_forall in Wf.
      destruct i as [|i].
      + assert (HF : Forall (fun f => total_at (snd f)) (snd v)).
        { rewrite Forall_forall in *. intros f Hf. unfold total_at. intros. apply Hv; auto. }
        destruct (snd (fst v)) eqn:Ek; [exact Hr| | |];
          (apply good_bind; [apply de_data_good; [exact HF|exact Wd|exact Hr]|]; intros j r' Hr'; exact Hr').
      + apply IHr. intros x Hx. apply Hwf. right. exact Hx.
  Qed.
End DeTotal.

Section SerTotal.
  Variable int_to_f64 : Z -> N.
  Variable narrow : N -> N.
  Let SER := dyn_ser int_to_f64 narrow.
  Definition np (r : ser_res) : Prop := r <> DPanic.

  Lemma np_bind (r : ser_res) (f : list byte -> ser_res) : np r -> (forall a, np (f a)) -> np (dbind r f).
  Proof. destruct r; cbn; auto. Qed.
  Lemma np_ok a : np (DOk a). Proof. discriminate. Qed.
  Lemma np_err e : np (DErr e). Proof. discriminate. Qed.
  Hint Resolve np_ok np_err : core.

  Lemma bytes_loop_np : forall (l : list json) (acc : list byte),
    np ((fix go (l : list json) (acc : list byte) : ser_res :=
           match l with
           | [] => DOk (len_prefix (length acc) ++ rev acc)
           | x :: r => match as_u64 x with
                       | Some z => if fits u8 z then go r (Z.to_N z :: acc) else mismatch
                       | None => mismatch
                       end
           end) l acc).
  Proof.
    induction l as [|x r IH]; intros acc; [auto|]. destruct (as_u64 x) as [z|]; [|unfold mismatch; auto].
    destruct (fits u8 z); [apply IH|unfold mismatch; auto].
  Qed.

  Lemma ser_prim_np p j : np (ser_prim int_to_f64 narrow p j).
  Proof.
    destruct p; cbn [ser_prim]; cbv zeta;
      try (destruct j; try (unfold mismatch; auto; fail); apply bytes_loop_np);
      unfold mismatch;
      repeat match goal with
             | |- np (match ?x with _ => _ end) => destruct x
             | |- np (if ?x then _ else _) => destruct x
             end; auto.
  Qed.

  Definition ser_total_at (t : schema) : Prop := forall j, np (SER t j).

  Lemma ser_zip_np ts : Forall ser_total_at ts -> forall js, np (ser_zip SER ts js).
  Proof.
    induction 1 as [|t r Ht _ IH]; intros js; cbn [ser_zip]; [auto|]. destruct js as [|j js]; [auto|].
    apply np_bind; [apply Ht|]. intros a. apply np_bind; [apply IH|]. auto.
  Qed.
  Lemma ser_snd_zip_np (fs : list (str * schema)) : Forall (fun f => ser_total_at (snd f)) fs -> forall js, np (ser_snd_zip SER fs js).
  Proof.
    induction 1 as [|t r Ht _ IH]; intros js; cbn [ser_snd_zip]; [auto|]. destruct js as [|j js]; [auto|].
    apply np_bind; [apply Ht|]. intros a. apply np_bind; [apply IH|]. auto.
  Qed.
  Lemma ser_each_np (f : json -> ser_res) : (forall j, np (f j)) -> forall js, np (ser_each f js).
  Proof.
    intros Hf. induction js as [|j r IH]; cbn [ser_each]; [auto|].
    apply np_bind; [apply Hf|]. intros a. apply np_bind; [apply IH|]. auto.
  Qed.
  Lemma ser_entries_np (f : json -> ser_res) : (forall j, np (f j)) -> forall obj, np (ser_entries f obj).
  Proof.
    intros Hf. induction obj as [|[k j] r IH]; cbn [ser_entries]; [auto|].
    apply np_bind; [apply Hf|]. intros a. apply np_bind; [apply IH|]. auto.
  Qed.
  Lemma ser_fields_np (fs : list (str * schema)) : Forall (fun f => ser_total_at (snd f)) fs -> forall obj, np (ser_fields SER fs obj).
  Proof.
    induction 1 as [|t r Ht _ IH]; intros obj; cbn [ser_fields]; [auto|]. destruct (obj_get (fst t) obj); [|unfold mismatch; auto].
    apply np_bind; [apply Ht|]. intros a. apply np_bind; [apply IH|]. auto.
  Qed.
  Lemma ser_data_np k (fs : list (str * schema)) :
    Forall (fun f => ser_total_at (snd f)) fs -> data_wf k fs = true -> forall j, np (ser_data SER k fs j).
  Proof.
    intros HF Hwf j. destruct k; cbn [ser_data]; unfold mismatch.
    - auto.
    - destruct fs as [|[n t] [|? ?]]; try discriminate Hwf. apply Forall_inv in HF. apply HF.
    - destruct j; auto. destruct (Nat.eqb _ _); auto. apply ser_snd_zip_np. exact HF.
    - destruct j; auto. destruct (Nat.eqb _ _); auto. apply ser_fields_np. exact HF.
  Qed.

  Lemma ser_no_panic_arm : forall s : schema, panics_on panics_dyn_ser (arm_key s) = false.
  Proof. intros s. destruct s as [p| | | | |n k fs|]; [destruct p|..|destruct k|]; reflexivity. Qed.

  Lemma find_variant_lt name (vs : list (str * dkind * list (str * schema))) i k fs :
    find_variant name vs = Some (i, k, fs) -> (i < length vs)%nat.
  Proof.
    unfold find_variant.
    assert (X : forall l base, (fix go (vs : list (str * dkind * list (str * schema))) (i : nat) :=
                                  match vs with
                                  | [] => None
                                  | v :: r => if list_N_eqb (fst (fst v)) name then Some (i, snd (fst v), snd v) else go r (S i)
                                  end) l base = Some (i, k, fs) -> (base <= i < base + length l)%nat).
    { induction l as [|v r IH]; intros base E; [discriminate E|]. destruct (list_N_eqb _ _).
      - injection E as <- _ _. cbn [length]. lia.
      - apply IH in E. cbn [length]. lia. }
    intros E. apply X in E. lia.
  Qed.

  Theorem dyn_ser_total : forall s, schema_wf s = true -> ser_total_at s.
  Proof.
    unfold ser_total_at.
    induction s as [p|t IH|t IH|ts IH|k v IHk IHv|n k fs IH|n vs IH] using schema_ind'; intros Hwf j;
      unfold SER; cbn [dyn_ser]; rewrite ser_no_panic_arm; fold SER; unfold mismatch.
    - apply ser_prim_np.
    - destruct j; auto; (apply np_bind; [apply IH; exact Hwf|auto]).
    - destruct j; auto. apply np_bind; [|auto]. apply ser_each_np. intros x. apply IH. exact Hwf.
    - cbn [schema_wf] in Hwf. rewrite forallb_forall in Hwf. destruct j; auto. destruct (Nat.eqb _ _); auto.
      apply ser_zip_np. rewrite Forall_forall in *. intros t Ht x. apply IH; auto.
    - cbn [schema_wf] in Hwf. apply andb_prop in Hwf as [Wk Wv].
      destruct k as [[]| | | | | |]; auto. destruct j; auto. apply np_bind; [|auto].
      apply ser_entries_np. intros x. apply IHv. exact Wv.
    - cbn [schema_wf] in Hwf. apply andb_prop in Hwf as [Wd Wf]. rewrite forallb_forall in Wf.
      apply ser_data_np; [|exact Wd]. rewrite Forall_forall in *. intros f Hf x. apply IH; auto.
    - cbn [schema_wf] in Hwf. rewrite forallb_forall in Hwf. destruct j; auto.
      + destruct (find_variant bs vs) as [[[i k] fs]|]; auto. destruct k; auto.
      + destruct kvs as [|[name payload] [|? ?]]; auto.
        destruct (find_variant name vs) as [[[i k] fs]|] eqn:Ef; auto.
        apply find_variant_lt in Ef. apply np_bind; [|auto]. clear k fs.
        revert i Ef. induction IH as [|v rest Hv _ IHr]; intros i Hi; [cbn [length] in Hi; lia|].
        pose proof (Hwf v (or_introl eq_refl)) as Hwv. apply andb_prop in Hwv as [Wd Wf]. rewrite forallb_forall in Wf.
        destruct i as [|i].
        * apply ser_data_np; [|exact Wd]. rewrite Forall_forall in *. intros f Hf x. apply Hv; auto.
        * apply IHr; [intros x Hx; apply Hwf; right; exact Hx|cbn [length] in Hi; lia].
  Qed.
End SerTotal.
