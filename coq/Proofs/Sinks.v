(* Sinks.v: storages as lawful byte sinks (append-only view + remaining room + in-place
   patching), and what the serializer, the COBS modifier and the CRC modifier do on top of
   any lawful sink.  Serves C05 (thresholds), C06 (COBS = definition) and C20 (stacks). *)
From Coq Require Import Lia ZifyBool ZifyNat ZifyN.
From PV Require Import Base MachineInt DataModel Ser Cobs CobsRef Crc SerFlavors
  BaseFacts ListAt SerFacts CobsDecFacts CobsEncFacts.
Open Scope N_scope.

Definition room_ok (room : option nat) (n : nat) : bool :=
  match room with None => true | Some r => Nat.leb n r end.
Definition room_sub (room : option nat) (n : nat) : option nat :=
  match room with None => None | Some r => Some (r - n)%nat end.

Section Lawful.
  Context {St Out : Type} (fl : sflavor St Out).
  Variable Inv : St -> Prop.
  Variable bytes : St -> list byte.
  Variable room : St -> option nat.
  Variable out_bytes : Out -> list byte.

  Record lawful : Prop := {
    law_push : forall s b, Inv s ->
      if room_ok (room s) 1
      then exists s', sf_push fl s b = Ok s' /\ Inv s' /\ bytes s' = bytes s ++ [b] /\ room s' = room_sub (room s) 1
      else sf_push fl s b = Err SerializeBufferFull;
    law_extend : forall s bs, Inv s ->
      if room_ok (room s) (length bs)
      then exists s', sf_extend fl s bs = Ok s' /\ Inv s' /\ bytes s' = bytes s ++ bs /\ room s' = room_sub (room s) (length bs)
      else sf_extend fl s bs = Err SerializeBufferFull;
    law_finalize : forall s, Inv s -> exists o, sf_finalize fl s = Ok o /\ out_bytes o = bytes s
  }.
  Definition lawful_set : Prop :=
    forall s idx v, Inv s -> (idx < length (bytes s))%nat ->
      exists s', sf_set fl s idx v = Ok s' /\ Inv s' /\ write_at (bytes s) idx v = Some (bytes s') /\ room s' = room s.

  Hypothesis L : lawful.

  Lemma room_ok_split r a b : room_ok r (a + b) = room_ok r a && room_ok (room_sub r a) b.
  Proof. destruct r as [r|]; cbn; [|reflexivity]. destruct (Nat.leb_spec (a + b) r), (Nat.leb_spec a r), (Nat.leb_spec b (r - a)); cbn; try reflexivity; lia. Qed.
  Lemma room_sub_add r a b : room_sub (room_sub r a) b = room_sub r (a + b).
  Proof. destruct r; cbn; [f_equal; lia|reflexivity]. Qed.

  (* byte-wise pushes *)
  Lemma pushes_spec : forall bs s, Inv s ->
    if room_ok (room s) (length bs)
    then exists s', extend_by_push (sf_push fl) s bs = Ok s' /\ Inv s' /\ bytes s' = bytes s ++ bs /\ room s' = room_sub (room s) (length bs)
    else extend_by_push (sf_push fl) s bs = Err SerializeBufferFull.
  Proof.
    induction bs as [|b bs IH]; intros s Hi; cbn [extend_by_push length].
    - assert (room_ok (room s) 0 = true) by (destruct (room s); reflexivity). rewrite H.
      exists s. rewrite app_nil_r. repeat split; try assumption. destruct (room s); cbn; [f_equal; lia|reflexivity].
    - pose proof (law_push L s b Hi) as Hp. change (S (length bs)) with (1 + length bs)%nat.
      rewrite room_ok_split. destruct (room_ok (room s) 1); cbn [andb].
      + destruct Hp as (s1 & -> & Hi1 & Hb1 & Hr1). cbn [bind]. specialize (IH s1 Hi1). rewrite Hr1 in IH.
        destruct (room_ok (room_sub (room s) 1) (length bs)).
        * destruct IH as (s' & E & Hi' & Hb' & Hr'). exists s'. rewrite E, Hb', Hb1, Hr', <- app_assoc, room_sub_add.
          repeat split; assumption.
        * exact IH.
      + rewrite Hp. reflexivity.
  Qed.

  (* the serializer's calls *)
  Definition ordinary (ops : list op) : Prop := Forall (fun o => match o with ExtendFmt _ => False | _ => True end) ops.

  Lemma run_ops_spec : forall ops s, Inv s ->
    if room_ok (room s) (length (flatten_ops ops))
    then exists s', run_ops fl s ops = Ok s' /\ Inv s' /\ bytes s' = bytes s ++ flatten_ops ops /\
                    room s' = room_sub (room s) (length (flatten_ops ops))
    else exists e, run_ops fl s ops = Err e /\ (ordinary ops -> e = SerializeBufferFull).
  Proof.
    induction ops as [|o ops IH]; intros s Hi.
    - cbn [run_ops]. unfold flatten_ops. cbn [flat_map length].
      assert (room_ok (room s) 0 = true) by (destruct (room s); reflexivity). rewrite H.
      exists s. rewrite app_nil_r. repeat split; try assumption. destruct (room s); cbn; [f_equal; lia|reflexivity].
    - assert (E : flatten_ops (o :: ops) = op_bytes o ++ flatten_ops ops) by reflexivity. rewrite E, app_length, room_ok_split.
      cbn [run_ops].
      assert (Ho : if room_ok (room s) (length (op_bytes o))
                   then exists s1, run_op fl s o = Ok s1 /\ Inv s1 /\ bytes s1 = bytes s ++ op_bytes o /\ room s1 = room_sub (room s) (length (op_bytes o))
                   else exists e, run_op fl s o = Err e /\ (match o with ExtendFmt _ => False | _ => True end -> e = SerializeBufferFull)).
      { destruct o as [b|bs|bs]; cbn [run_op op_bytes length].
        - pose proof (law_push L s b Hi) as Hp. destruct (room_ok (room s) 1).
          + destruct Hp as (s1 & -> & H1). exists s1. split; [reflexivity|exact H1].
          + rewrite Hp. eexists. split; [reflexivity|reflexivity].
        - pose proof (law_extend L s bs Hi) as Hp. destruct (room_ok (room s) (length bs)).
          + destruct Hp as (s1 & -> & H1). exists s1. split; [reflexivity|exact H1].
          + rewrite Hp. eexists. split; [reflexivity|reflexivity].
        - pose proof (law_extend L s bs Hi) as Hp. destruct (room_ok (room s) (length bs)).
          + destruct Hp as (s1 & -> & H1). exists s1. split; [reflexivity|exact H1].
          + rewrite Hp. eexists. split; [reflexivity|contradiction]. }
      destruct (room_ok (room s) (length (op_bytes o))); cbn [andb].
      + destruct Ho as (s1 & -> & Hi1 & Hb1 & Hr1). cbn [bind]. specialize (IH s1 Hi1). rewrite Hr1 in IH.
        destruct (room_ok (room_sub (room s) (length (op_bytes o))) (length (flatten_ops ops))).
        * destruct IH as (s' & Er & Hi' & Hb' & Hr'). exists s'. rewrite Er, Hb', Hb1, Hr', <- app_assoc, room_sub_add.
          repeat split; assumption.
        * destruct IH as (e & Er & He). exists e. split; [exact Er|]. intro Hord. apply He. apply Forall_cons_iff in Hord. apply Hord.
      + destruct Ho as (e & -> & He). exists e. split; [reflexivity|]. intro Hord. apply He. apply Forall_cons_iff in Hord. apply Hord.
  Qed.

  (* serialize_with_flavor over a lawful sink: the threshold theorem *)
  Theorem serialize_with_spec v s :
    Inv s -> ser_err v = None ->
    if room_ok (room s) (length (enc v))
    then exists o, serialize_with fl s v = Ok o /\ out_bytes o = bytes s ++ enc v
    else exists e, serialize_with fl s v = Err e /\ (ordinary (fst (ser_ops v)) -> e = SerializeBufferFull).
  Proof.
    intros Hi He. unfold serialize_with, ser_err, enc in *. destruct (ser_ops v) as [ops e0]. cbn [fst snd] in *. subst e0.
    pose proof (run_ops_spec ops s Hi) as H. destruct (room_ok (room s) (length (flatten_ops ops))).
    - destruct H as (s' & -> & Hi' & Hb' & _). cbn [bind]. destruct (law_finalize L s' Hi') as (o & -> & Ho).
      exists o. split; [reflexivity|congruence].
    - destruct H as (e & -> & Hord). exists e. split; [reflexivity|exact Hord].
  Qed.
End Lawful.

(* ---------------- the storages are lawful ---------------- *)
Lemma alloc_lawful : lawful alloc_flavor (fun _ => True) (fun v => v) (fun _ => None) (fun v => v).
Proof.
  split.
  - intros s b _. cbn. exists (s ++ [b]). repeat split.
  - intros s bs _. cbn. exists (s ++ bs). repeat split.
  - intros s _. exists s. split; reflexivity.
Qed.
Lemma vec_set_lawful (v : list byte) idx x : (idx < length v)%nat ->
  exists v', vec_set v idx x = Ok v' /\ write_at v idx x = Some v'.
Proof.
  intro H. destruct (write_at_spec v idx x H) as (v' & E & _). unfold vec_set. rewrite E. exists v'. split; reflexivity.
Qed.
Lemma alloc_lawful_set : lawful_set alloc_flavor (fun _ => True) (fun v => v) (fun _ => None).
Proof. intros s idx v _ H. destruct (vec_set_lawful s idx v H) as (v' & E & W). exists v'. cbn. repeat split; assumption. Qed.

Lemma hvec_lawful cap : lawful (hvec_flavor cap) (fun v => (length v <= cap)%nat) (fun v => v)
                               (fun v => Some (cap - length v)%nat) (fun v => v).
Proof.
  split.
  - intros s b Hi. cbn [room_ok hvec_flavor sf_push]. unfold hvec_push.
    destruct (Nat.leb_spec 1 (cap - length s)), (Nat.ltb_spec (length s) cap); try lia; [|reflexivity].
    exists (s ++ [b]). rewrite app_length. cbn. repeat split; try lia. f_equal. lia.
  - intros s bs Hi. cbn [room_ok hvec_flavor sf_extend]. unfold hvec_extend.
    destruct (Nat.leb_spec (length bs) (cap - length s)), (Nat.leb_spec (length s + length bs) cap); try lia; [|reflexivity].
    exists (s ++ bs). rewrite app_length. cbn. repeat split; try lia. f_equal. lia.
  - intros s _. exists s. split; reflexivity.
Qed.
Lemma hvec_lawful_set cap : lawful_set (hvec_flavor cap) (fun v => (length v <= cap)%nat) (fun v => v) (fun v => Some (cap - length v)%nat).
Proof.
  intros s idx v Hi H. destruct (vec_set_lawful s idx v H) as (v' & E & W). exists v'. cbn.
  destruct (write_at_spec s idx v H) as (v'' & E' & L' & _). rewrite W in E'. inversion E'; subst v''.
  repeat split; try assumption; try lia. f_equal. lia.
Qed.

(* the slice: bytes written so far = the front of the caller's buffer *)
Definition slice_inv (s : slice_st) : Prop :=
  sl_start s = 0%nat /\ (sl_cursor s <= sl_end s)%nat /\ sl_end s = length (sl_buf s).
Definition slice_bytes (s : slice_st) : list byte := firstn (sl_cursor s) (sl_buf s).
Definition slice_room (s : slice_st) : option nat := Some (sl_end s - sl_cursor s)%nat.

Lemma splice_front (buf : list byte) c bs : (c + length bs <= length buf)%nat ->
  exists buf', splice buf c bs = Some buf' /\ length buf' = length buf /\
               firstn (c + length bs) buf' = firstn c buf ++ bs /\ skipn (c + length bs) buf' = skipn (c + length bs) buf.
Proof.
  intro H. unfold splice. destruct (Nat.leb_spec (c + length bs) (length buf)); [|lia].
  eexists. split; [reflexivity|].
  assert (La : length (firstn c buf) = c) by (apply firstn_length_le; lia).
  repeat split.
  - rewrite !app_length, La, skipn_length. lia.
  - rewrite app_assoc. apply firstn_app_len. rewrite app_length, La. reflexivity.
  - rewrite app_assoc. apply skipn_app_len. rewrite app_length, La. reflexivity.
Qed.

Lemma slice_lawful : lawful slice_flavor slice_inv slice_bytes slice_room (fun o => fst o).
Proof.
  split.
  - intros s b (Hs & Hc & He). cbn [room_ok slice_room slice_flavor sf_push]. unfold slice_push.
    destruct (Nat.leb_spec 1 (sl_end s - sl_cursor s)), (Nat.eqb_spec (sl_cursor s) (sl_end s)); try lia; [|reflexivity].
    destruct (write_at_spec (sl_buf s) (sl_cursor s) b ltac:(lia)) as (buf' & -> & L & R).
    eexists. split; [reflexivity|]. unfold slice_inv, slice_bytes, slice_room. cbn [sl_buf sl_start sl_cursor sl_end].
    cbn [room_sub]. repeat split; try lia; [|f_equal; lia].
    apply list_ext.
    + rewrite app_length, !firstn_length_le by lia. cbn. lia.
    + intro i. rewrite read_at_app, !read_at_firstn, firstn_length_le by lia. rewrite R.
      destruct (Nat.ltb_spec i (S (sl_cursor s))), (Nat.ltb_spec i (sl_cursor s)), (Nat.eqb_spec i (sl_cursor s)); try lia; try reflexivity.
      * subst i. rewrite Nat.sub_diag. reflexivity.
      * destruct (i - sl_cursor s)%nat as [|k] eqn:E; [lia|]. destruct k; reflexivity.
  - intros s bs (Hs & Hc & He). cbn [room_ok slice_room slice_flavor sf_extend]. unfold slice_extend.
    destruct (Nat.ltb_spec (sl_end s) (sl_cursor s)); [lia|].
    destruct (Nat.leb_spec (length bs) (sl_end s - sl_cursor s)), (Nat.ltb_spec (sl_end s - sl_cursor s) (length bs)); try lia; [|reflexivity].
    destruct (splice_front (sl_buf s) (sl_cursor s) bs ltac:(lia)) as (buf' & -> & L & F & _).
    eexists. split; [reflexivity|]. unfold slice_inv, slice_bytes, slice_room. cbn [sl_buf sl_start sl_cursor sl_end].
    cbn [room_sub]. repeat split; try lia; [exact F|f_equal; lia].
  - intros s (Hs & Hc & He). cbn [slice_flavor sf_finalize]. unfold slice_finalize.
    destruct (Nat.ltb_spec (sl_cursor s) (sl_start s)); [lia|]. eexists. split; [reflexivity|].
    cbn [fst]. unfold slice_bytes. rewrite Hs. cbn [skipn]. f_equal. lia.
Qed.
Lemma slice_lawful_set : lawful_set slice_flavor slice_inv slice_bytes slice_room.
Proof.
  intros s idx v (Hs & Hc & He) H. unfold slice_bytes in H. rewrite firstn_length_le in H by lia.
  cbn [slice_flavor sf_set]. unfold slice_set. destruct (Nat.ltb_spec idx (sl_end s - sl_start s)); [|lia].
  rewrite Hs. cbn [Nat.add].
  destruct (write_at_spec (sl_buf s) idx v ltac:(lia)) as (buf' & -> & L & R).
  eexists. split; [reflexivity|]. unfold slice_inv, slice_bytes, slice_room. cbn [sl_buf sl_start sl_cursor sl_end].
  split; [repeat split; lia|]. split; [|reflexivity].
  destruct (write_at_spec (firstn (sl_cursor s) (sl_buf s)) idx v ltac:(rewrite firstn_length_le; lia)) as (f' & -> & L2 & R2).
  f_equal. apply list_ext; [rewrite L2, !firstn_length_le by lia; reflexivity|].
  intro i. rewrite R2, !read_at_firstn, R. destruct (Nat.eqb_spec i idx), (Nat.ltb_spec i (sl_cursor s)); try reflexivity; lia.
Qed.

(* what is left of the caller's buffer: the part beyond the output is untouched *)
Lemma slice_rest_untouched : forall ops s s', slice_inv s -> run_ops slice_flavor s ops = Ok s' ->
  skipn (sl_cursor s') (sl_buf s') = skipn (sl_cursor s') (sl_buf s) /\ length (sl_buf s') = length (sl_buf s) /\
  (sl_cursor s <= sl_cursor s')%nat.
Proof.
  induction ops as [|o ops IH]; intros s s' Hi E; cbn [run_ops] in E; [inversion E; subst; repeat split; lia|].
  destruct (run_op slice_flavor s o) as [s1| | | |] eqn:E1; try discriminate. cbn [bind] in E.
  assert (H1 : slice_inv s1 /\ length (sl_buf s1) = length (sl_buf s) /\ (sl_cursor s <= sl_cursor s1)%nat /\
               forall i, (sl_cursor s1 <= i)%nat -> read_at (sl_buf s1) i = read_at (sl_buf s) i).
  { destruct Hi as (Hs & Hc & He).
    assert (Hpush : forall b, slice_push s b = Ok s1 -> slice_inv s1 /\ length (sl_buf s1) = length (sl_buf s) /\ (sl_cursor s <= sl_cursor s1)%nat /\
               forall i, (sl_cursor s1 <= i)%nat -> read_at (sl_buf s1) i = read_at (sl_buf s) i).
    { intros b Eb. unfold slice_push in Eb. destruct (Nat.eqb_spec (sl_cursor s) (sl_end s)); [discriminate|].
      destruct (write_at_spec (sl_buf s) (sl_cursor s) b ltac:(lia)) as (buf' & Ew & L & R). rewrite Ew in Eb. inversion Eb; subst s1.
      unfold slice_inv. cbn [sl_buf sl_start sl_cursor sl_end]. repeat split; try lia.
      intros i Hi. rewrite R. destruct (Nat.eqb_spec i (sl_cursor s)); [lia|reflexivity]. }
    assert (Hext : forall bs, slice_extend s bs = Ok s1 -> slice_inv s1 /\ length (sl_buf s1) = length (sl_buf s) /\ (sl_cursor s <= sl_cursor s1)%nat /\
               forall i, (sl_cursor s1 <= i)%nat -> read_at (sl_buf s1) i = read_at (sl_buf s) i).
    { intros bs Eb. unfold slice_extend in Eb. destruct (Nat.ltb_spec (sl_end s) (sl_cursor s)); [discriminate|].
      destruct (Nat.ltb_spec (sl_end s - sl_cursor s) (length bs)); [discriminate|].
      destruct (splice_front (sl_buf s) (sl_cursor s) bs ltac:(lia)) as (buf' & Ew & L & F & Sk). rewrite Ew in Eb. inversion Eb; subst s1.
      unfold slice_inv. cbn [sl_buf sl_start sl_cursor sl_end]. repeat split; try lia.
      intros i Hi. replace i with ((sl_cursor s + length bs) + (i - (sl_cursor s + length bs)))%nat by lia.
      rewrite <- !read_at_skipn', Sk. reflexivity. }
    destruct o as [b|bs|bs]; cbn [run_op slice_flavor sf_push sf_extend] in E1.
    - destruct (slice_push s b) eqn:Eb; try discriminate. cbn [map_err] in E1. inversion E1; subst. apply (Hpush b Eb).
    - destruct (slice_extend s bs) eqn:Eb; try discriminate. cbn [map_err] in E1. inversion E1; subst. apply (Hext bs Eb).
    - destruct (slice_extend s bs) eqn:Eb; try discriminate. cbn [map_err] in E1. inversion E1; subst. apply (Hext bs Eb). }
  destruct H1 as (Hi1 & L1 & C1 & R1). destruct (IH s1 s' Hi1 E) as (Sk & L' & C').
  repeat split; try lia. rewrite Sk. apply list_ext; [rewrite !skipn_length; lia|].
  intro i. rewrite !read_at_skipn'. apply R1. lia.
Qed.

(* ---------------- COBS over a lawful, patchable sink ---------------- *)
Fixpoint npush (ops : list iop) : nat :=
  match ops with [] => O | IPush _ :: r => S (npush r) | ISet _ _ :: r => npush r end.
Lemma npush_app a b : npush (a ++ b) = (npush a + npush b)%nat.
Proof. induction a as [|o a IH]; [reflexivity|]. destruct o; cbn; rewrite IH; reflexivity. Qed.

Lemma apply_iops_length : forall ops l l', apply_iops l ops = Some l' -> length l' = (length l + npush ops)%nat.
Proof.
  induction ops as [|o ops IH]; intros l l' H; cbn in H; [inversion H; cbn; lia|].
  destruct o as [b|idx b]; cbn [apply_iop] in H.
  - rewrite (IH _ _ H), app_length. cbn. lia.
  - destruct (write_at l idx b) as [l1|] eqn:E; [|discriminate]. rewrite (IH _ _ H).
    destruct (Nat.lt_ge_cases idx (length l)) as [Hlt|Hge].
    + destruct (write_at_spec l idx b Hlt) as (l2 & E2 & L2 & _). rewrite E in E2. inversion E2; subst. cbn. lia.
    + rewrite write_at_None in E by assumption. discriminate.
Qed.

Section CobsOver.
  Context {St Out : Type} (inner : sflavor St Out).
  Variable Inv : St -> Prop.
  Variable bytes : St -> list byte.
  Variable room : St -> option nat.
  Variable out_bytes : Out -> list byte.
  Hypothesis L : lawful inner Inv bytes room out_bytes.
  Hypothesis LS : lawful_set inner Inv bytes room.

  Definition exec_iop (s : St) (o : iop) : res St :=
    match o with IPush b => sf_push inner s b | ISet idx b => sf_set inner s idx b end.
  Fixpoint exec_iops (s : St) (ops : list iop) : res St :=
    match ops with [] => Ok s | o :: r => let* s1 := exec_iop s o in exec_iops s1 r end.
  Lemma exec_iops_app s a b : exec_iops s (a ++ b) = (let* s1 := exec_iops s a in exec_iops s1 b).
  Proof. revert s; induction a as [|o a IH]; intro s; [reflexivity|]. cbn [app exec_iops]. destruct (exec_iop s o); cbn [bind]; auto. Qed.

  (* executing on the sink = executing on its byte view, while there is room *)
  Lemma exec_iops_spec : forall ops s l', Inv s -> apply_iops (bytes s) ops = Some l' ->
    if room_ok (room s) (npush ops)
    then exists s', exec_iops s ops = Ok s' /\ Inv s' /\ bytes s' = l' /\ room s' = room_sub (room s) (npush ops)
    else exec_iops s ops = Err SerializeBufferFull.
  Proof.
    induction ops as [|o ops IH]; intros s l' Hi Ha; cbn [npush exec_iops].
    - assert (room_ok (room s) 0 = true) by (destruct (room s); reflexivity). rewrite H. cbn in Ha. inversion Ha; subst.
      exists s. repeat split; try assumption. destruct (room s); cbn; [f_equal; lia|reflexivity].
    - cbn [apply_iops] in Ha. destruct o as [b|idx b]; cbn [apply_iop exec_iop npush] in *.
      + pose proof (law_push _ _ _ _ _ L s b Hi) as Hp. change (S (npush ops)) with (1 + npush ops)%nat.
        rewrite room_ok_split. destruct (room_ok (room s) 1); cbn [andb].
        * destruct Hp as (s1 & -> & Hi1 & Hb1 & Hr1). cbn [bind]. rewrite <- Hb1 in Ha. specialize (IH s1 l' Hi1 Ha). rewrite Hr1 in IH.
          destruct (room_ok (room_sub (room s) 1) (npush ops)).
          -- destruct IH as (s' & E & Hi' & Hb' & Hr'). exists s'. rewrite E, Hr', room_sub_add. repeat split; assumption.
          -- exact IH.
        * rewrite Hp. reflexivity.
      + destruct (write_at (bytes s) idx b) as [l1|] eqn:Ew; [|discriminate].
        assert (Hidx : (idx < length (bytes s))%nat).
        { destruct (Nat.lt_ge_cases idx (length (bytes s))); [assumption|]. rewrite write_at_None in Ew by assumption. discriminate. }
        destruct (LS s idx b Hi Hidx) as (s1 & -> & Hi1 & Hw & Hr1). cbn [bind]. rewrite Ew in Hw. inversion Hw; subst l1.
        specialize (IH s1 l' Hi1 Ha). rewrite Hr1 in IH. exact IH.
  Qed.

  (* the Cobs flavour's pushes are the encoder's storage requests, executed *)
  Lemma cobs_pushes_exec : forall m s e,
    extend_by_push (cobs_push inner) (s, e) m =
    (let* s' := exec_iops s (fst (cobs_iops e m)) in Ok (s', snd (cobs_iops e m))).
  Proof.
    induction m as [|b m IH]; intros s e; cbn [extend_by_push cobs_iops]; [reflexivity|].
    unfold cobs_push at 1. destruct (enc_push e b) as [r e1] eqn:E1.
    destruct (cobs_iops e1 m) as [ops e2] eqn:E2. cbn [fst snd]. rewrite exec_iops_app.
    destruct r as [n|idx mval|idx mval nval]; cbn [iops_of exec_iops exec_iop].
    - destruct (sf_push inner s n) as [s1| | | |]; cbn [bind]; try reflexivity. rewrite IH, E2. reflexivity.
    - destruct (sf_set inner s idx mval) as [s1| | | |]; cbn [bind]; try reflexivity.
      destruct (sf_push inner s1 0) as [s2| | | |]; cbn [bind]; try reflexivity. rewrite IH, E2. reflexivity.
    - destruct (sf_set inner s idx mval) as [s1| | | |]; cbn [bind]; try reflexivity.
      destruct (sf_push inner s1 nval) as [s2| | | |]; cbn [bind]; try reflexivity.
      destruct (sf_push inner s2 0) as [s3| | | |]; cbn [bind]; try reflexivity. rewrite IH, E2. reflexivity.
  Qed.

  (* Cobs::try_new, all the pushes of a message, Cobs::finalize - on a fresh lawful sink *)
  Definition cobs_whole (s0 : St) (m : list byte) : res Out :=
    let* st := cobs_try_new inner s0 in
    let* st' := extend_by_push (cobs_push inner) st m in
    cobs_finalize inner st'.

  Theorem cobs_whole_spec s0 m :
    Inv s0 -> bytes s0 = [] ->
    if room_ok (room s0) (length (cobs_frame m))
    then exists o, cobs_whole s0 m = Ok o /\ out_bytes o = cobs_frame m
    else cobs_whole s0 m = Err SerializeBufferFull.
  Proof.
    intros Hi Hb. unfold cobs_whole, cobs_try_new.
    pose proof (cobs_stream_is_frame m) as HA.
    set (ops := fst (cobs_iops enc_init m) ++ final_iops (snd (cobs_iops enc_init m))) in *.
    pose proof (apply_iops_length ops [0] (cobs_frame m) HA) as HLn. cbn [length] in HLn.
    pose proof (law_push _ _ _ _ _ L s0 0 Hi) as Hp. rewrite HLn.
    change (1 + npush ops)%nat with (1 + npush ops)%nat. rewrite room_ok_split.
    destruct (room_ok (room s0) 1); cbn [andb]; [|rewrite Hp; reflexivity].
    destruct Hp as (s1 & -> & Hi1 & Hb1 & Hr1). cbn [map_err bind]. rewrite Hb in Hb1. cbn [app] in Hb1.
    rewrite cobs_pushes_exec.
    rewrite <- Hb1 in HA. pose proof (exec_iops_spec ops s1 (cobs_frame m) Hi1 HA) as HE. rewrite Hr1 in HE.
    unfold ops in HE. rewrite exec_iops_app in HE. unfold ops. rewrite npush_app in *.
    destruct (exec_iops s1 (fst (cobs_iops enc_init m))) as [s2| | | |] eqn:E2; cbn [bind] in *.
    - unfold cobs_finalize, final_iops in *. destruct (enc_finalize (snd (cobs_iops enc_init m))) as [idx mval].
      cbn [exec_iops exec_iop] in HE.
      destruct (room_ok (room_sub (room s0) 1) (npush (fst (cobs_iops enc_init m)) + npush [ISet idx mval; IPush 0])).
      + destruct HE as (s' & E & Hi' & Hb' & _).
        destruct (sf_set inner s2 idx mval) as [s3| | | |]; cbn [bind] in *; try discriminate.
        destruct (sf_push inner s3 0) as [s4| | | |]; cbn [bind] in *; try discriminate. inversion E; subst s4.
        destruct (law_finalize _ _ _ _ _ L s' Hi') as (o & -> & Ho). exists o. split; [reflexivity|congruence].
      + destruct (sf_set inner s2 idx mval) as [s3| | | |]; cbn [bind] in *; try discriminate; try (inversion HE; reflexivity).
        destruct (sf_push inner s3 0) as [s4| | | |]; cbn [bind] in *; try discriminate; inversion HE; reflexivity.
    - destruct (room_ok _ _); [destruct HE as (s' & E & _); discriminate|inversion HE; reflexivity].
    - destruct (room_ok _ _); [destruct HE as (s' & E & _); discriminate|discriminate].
    - destruct (room_ok _ _); [destruct HE as (s' & E & _); discriminate|discriminate].
    - destruct (room_ok _ _); [destruct HE as (s' & E & _); discriminate|discriminate].
  Qed.
End CobsOver.

(* ---------------- flavours that forward byte by byte ---------------- *)
Lemma ebp_app {St} (push : St -> byte -> res St) s a b :
  extend_by_push push s (a ++ b) = (let* s1 := extend_by_push push s a in extend_by_push push s1 b).
Proof. revert s; induction a as [|x a IH]; intro s; [reflexivity|]. cbn [app extend_by_push]. destruct (push s x); cbn [bind]; auto. Qed.

Definition bytewise {St Out} (fl : sflavor St Out) : Prop := forall s bs, sf_extend fl s bs = extend_by_push (sf_push fl) s bs.

Lemma run_ops_bytewise {St Out} (fl : sflavor St Out) : bytewise fl -> forall ops s,
  match extend_by_push (sf_push fl) s (flatten_ops ops) with
  | Ok s' => run_ops fl s ops = Ok s'
  | Err e => exists e', run_ops fl s ops = Err e' /\ (ordinary ops -> e' = SerializeBufferFull)
  | Panic => run_ops fl s ops = Panic | Fault => run_ops fl s ops = Fault | OutOfFuel => run_ops fl s ops = OutOfFuel
  end.
Proof.
  intros HB ops; induction ops as [|o ops IH]; intro s; [reflexivity|].
  assert (E : flatten_ops (o :: ops) = op_bytes o ++ flatten_ops ops) by reflexivity. rewrite E, ebp_app. cbn [run_ops].
  assert (Ho : match extend_by_push (sf_push fl) s (op_bytes o) with
               | Ok s1 => run_op fl s o = Ok s1
               | Err e => exists e', run_op fl s o = Err e' /\ (match o with ExtendFmt _ => False | _ => True end -> e' = SerializeBufferFull)
               | Panic => run_op fl s o = Panic | Fault => run_op fl s o = Fault | OutOfFuel => run_op fl s o = OutOfFuel
               end).
  { destruct o as [b|bs|bs]; cbn [run_op op_bytes]; rewrite ?HB.
    - cbn [extend_by_push]. destruct (sf_push fl s b); cbn [bind map_err]; try reflexivity. eexists; split; reflexivity.
    - destruct (extend_by_push (sf_push fl) s bs); cbn [map_err]; try reflexivity. eexists; split; reflexivity.
    - destruct (extend_by_push (sf_push fl) s bs); cbn [map_err]; try reflexivity. eexists; split; [reflexivity|contradiction]. }
  destruct (extend_by_push (sf_push fl) s (op_bytes o)) as [s1|e| | |]; cbn [bind].
  - rewrite Ho. cbn [bind]. specialize (IH s1). destruct (extend_by_push (sf_push fl) s1 (flatten_ops ops)); try exact IH.
    destruct IH as (e' & Er & He). exists e'. split; [exact Er|]. intro Hord. apply He. apply Forall_cons_iff in Hord. apply Hord.
  - destruct Ho as (e' & -> & He). exists e'. split; [reflexivity|]. intro Hord. apply He. apply Forall_cons_iff in Hord. apply Hord.
  - rewrite Ho. reflexivity.
  - rewrite Ho. reflexivity.
  - rewrite Ho. reflexivity.
Qed.

Lemma cobs_bytewise {St Out} (inner : sflavor St Out) : bytewise (cobs_flavor inner).
Proof. intros s bs. reflexivity. Qed.
Lemma crc_bytewise {St Out} (inner : sflavor St Out) alg nb : bytewise (crc_flavor inner alg nb).
Proof. intros s bs. reflexivity. Qed.

(* the CRC modifier: the inner flavour receives every byte, one push each; the digest has
   seen exactly those bytes *)
Lemma crc_pushes {St Out} (inner : sflavor St Out) alg : forall bs s d,
  extend_by_push (crcm_push inner alg) (s, d) bs =
  (let* s' := extend_by_push (sf_push inner) s bs in Ok (s', crc_update alg d bs)).
Proof.
  induction bs as [|b bs IH]; intros s d; cbn [extend_by_push]; [reflexivity|].
  cbn [crcm_push]. destruct (sf_push inner s b) as [s1| | | |]; cbn [bind]; try reflexivity.
  rewrite IH. destruct (extend_by_push (sf_push inner) s1 bs); cbn [bind]; reflexivity.
Qed.

(* serialising a typed value through Crc<X>: X receives, push by push, the plain encoding
   followed by the little-endian checksum of exactly those bytes, then is finalized *)
Definition crc_whole {St Out} (inner : sflavor St Out) alg nb (s0 : St) (m : list byte) : res Out :=
  let* s1 := extend_by_push (sf_push inner) s0 (m ++ le_bytes nb (crc alg m)) in sf_finalize inner s1.

Theorem crc_serialize_spec {St Out} (inner : sflavor St Out) alg nb s0 v :
  ser_err v = None ->
  match crc_whole inner alg nb s0 (enc v) with
  | Ok o => serialize_with (crc_flavor inner alg nb) (s0, crc_init_reg alg) v = Ok o
  | Err e => exists e', serialize_with (crc_flavor inner alg nb) (s0, crc_init_reg alg) v = Err e' /\
                        (ordinary (fst (ser_ops v)) -> e' = SerializeBufferFull)
  | Panic => serialize_with (crc_flavor inner alg nb) (s0, crc_init_reg alg) v = Panic
  | Fault => serialize_with (crc_flavor inner alg nb) (s0, crc_init_reg alg) v = Fault
  | OutOfFuel => serialize_with (crc_flavor inner alg nb) (s0, crc_init_reg alg) v = OutOfFuel
  end.
Proof.
  intro He. unfold serialize_with, crc_whole, ser_err, enc in *. destruct (ser_ops v) as [ops e0]. cbn [fst snd] in *. subst e0.
  pose proof (run_ops_bytewise (crc_flavor inner alg nb) (crc_bytewise inner alg nb) ops (s0, crc_init_reg alg)) as HR.
  cbn [crc_flavor sf_push] in HR. rewrite crc_pushes in HR. rewrite ebp_app.
  destruct (extend_by_push (sf_push inner) s0 (flatten_ops ops)) as [s1|e| | |]; cbn [bind] in *.
  - rewrite HR. cbn [bind crc_flavor sf_finalize crcm_finalize]. unfold crc, crc_finalize at 1.
    fold (crc_finalize alg (crc_update alg (crc_init_reg alg) (flatten_ops ops))).
    destruct (extend_by_push (sf_push inner) s1 _) as [s2|e| | |]; cbn [bind map_err]; try reflexivity.
    + destruct (sf_finalize inner s2); cbn [map_err]; try reflexivity. eexists. split; [reflexivity|reflexivity].
    + eexists. split; reflexivity.
  - destruct HR as (e' & -> & He'). exists e'. split; [reflexivity|exact He'].
  - rewrite HR. reflexivity.
  - rewrite HR. reflexivity.
  - rewrite HR. reflexivity.
Qed.
