(* IoReaderFacts.v: IOReader / EIOReader of DeFlavors.v (and the chunked variant of IoChunks.v)
   are the templates of de/flavors.rs at the values read from the source on this run. *)
From PV Require Import Base VarintParams DataModel De DeFlavors IoChunks IoReaderDecl GenIoReaders IoReaderSrc.
Open Scope N_scope.

(* the model's readers fail with DeserializeUnexpectedEnd only *)
Lemma read_exact_err r n e : read_exact r n = Err e -> e = DeserializeUnexpectedEnd.
Proof. unfold read_exact. destruct (Nat.ltb _ n); [intros H; injection H as <-; reflexivity|discriminate]. Qed.
Lemma remap_read_exact r n : remap DeserializeUnexpectedEnd (read_exact r n) = read_exact r n.
Proof. destruct (read_exact r n) as [x|e| | |] eqn:E; try reflexivity. apply read_exact_err in E. subst e. reflexivity. Qed.
Lemma read_exact_loop_err f r want acc e : read_exact_loop f r want acc = Err e -> e = DeserializeUnexpectedEnd.
Proof.
  revert r want acc. induction f as [|f IH]; intros r want acc; cbn [read_exact_loop].
  - destruct want; discriminate.
  - destruct want as [|w]; [discriminate|].
    destruct (raw_read r (S w)) as [[bs| |] r'] eqn:Er.
    + destruct bs as [|b bs]; [intros H; injection H as <-; reflexivity|]. apply IH.
    + apply IH.
    + intros H; injection H as <-; reflexivity.
Qed.
Lemma remap_read_exact_c r n : remap DeserializeUnexpectedEnd (read_exact_c r n) = read_exact_c r n.
Proof.
  destruct (read_exact_c r n) as [x|e| | |] eqn:E; try reflexivity.
  unfold read_exact_c in E. apply read_exact_loop_err in E. subst e. reflexivity.
Qed.

Theorem ioreader_is_source s ct :
  forall rp, rp = ioreader_src \/ rp = eioreader_src ->
  io_pop s = io_pop_with rp s /\ io_take_n ct s = io_take_n_with sliding_src rp ct s.
Proof.
  intros rp [-> | ->]; split.
  all: unfold io_pop, io_pop_with, io_take_n, io_take_n_with;
    cbn [ioreader_src eioreader_src sliding_src rp_pop_err rp_take_err sl_cmp sl_err cmp_eval];
    rewrite ?remap_read_exact; reflexivity.
Qed.
Theorem chunked_ioreader_is_source s ct :
  forall rp, rp = ioreader_src \/ rp = eioreader_src ->
  cio_pop s = cio_pop_with rp s /\ cio_take_n ct s = cio_take_n_with sliding_src rp ct s.
Proof.
  intros rp [-> | ->]; split.
  all: unfold cio_pop, cio_pop_with, cio_take_n, cio_take_n_with;
    cbn [ioreader_src eioreader_src sliding_src rp_pop_err rp_take_err sl_cmp sl_err cmp_eval];
    rewrite ?remap_read_exact_c; reflexivity.
Qed.
