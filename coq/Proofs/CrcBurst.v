(* CrcBurst.v: a CRC whose polynomial has a non-zero constant term detects every error
   pattern confined to a window no longer than its width (C10).  The register is a linear
   shift register: the difference of two runs evolves by the same step from 0, a window of
   at most `width` difference bits loads a non-zero vector into it, and the zero-input step
   is injective, so the difference never returns to 0. *)
From PV Require Import Base MachineInt DataModel De Crc DeFlavors BitFacts CrcFacts.
From Coq Require Import Lia Bool.
Open Scope N_scope.

Lemma bits_high v w n : v < 2 ^ w -> w <= n -> N.testbit v n = false.
Proof. intros Hv Hn. rewrite <- (N.mod_small v (2 ^ w) Hv). apply N.mod_pow2_bits_high. exact Hn. Qed.

Lemma bits_bound v w : (forall n, w <= n -> N.testbit v n = false) -> v < 2 ^ w.
Proof.
  intros H. apply fits_iff. apply N.bits_inj. intro n. rewrite N.land_spec.
  destruct (N.ltb_spec n w) as [L|L]; [rewrite N.ones_spec_low by exact L; apply andb_true_r|].
  rewrite N.ones_spec_high by exact L. rewrite (H n L). reflexivity.
Qed.

Section Burst.
  Variable a : crc_alg.
  Hypothesis Hwf : wf_alg a.
  Hypothesis Hodd : N.odd (c_poly a) = true.
  Let w := c_width a.
  Let P := c_poly a.
  Let step := crc_step_bit a.
  Let T (r : N) := step r false.

  Lemma step_bits r b n :
    N.testbit (step r b) n =
    xorb ((n <? w) && negb (n =? 0) && N.testbit r (n - 1)) (xorb (N.testbit r (w - 1)) b && N.testbit P n).
  Proof.
    unfold step, crc_step_bit, crc_mask. cbv zeta. fold w P.
    assert (S : N.testbit (N.land (N.shiftl r 1) (N.ones w)) n = (n <? w) && negb (n =? 0) && N.testbit r (n - 1)).
    { rewrite N.land_spec. destruct (N.eqb_spec n 0) as [->|Hn].
      - rewrite N.shiftl_spec_low by lia. rewrite andb_false_r. reflexivity.
      - rewrite N.shiftl_spec_high' by lia. destruct (N.ltb_spec n w) as [L|L].
        + rewrite N.ones_spec_low by exact L. cbn [negb andb]. apply andb_true_r.
        + rewrite N.ones_spec_high by exact L. apply andb_false_r. }
    destruct (xorb (N.testbit r (w - 1)) b).
    - rewrite N.lxor_spec, S. reflexivity.
    - rewrite S. cbn [andb]. rewrite xorb_false_r. reflexivity.
  Qed.

  (* the step is linear over GF(2) *)
  Lemma step_linear r d b e : step (N.lxor r d) (xorb b e) = N.lxor (step r b) (step d e).
  Proof.
    apply N.bits_inj. intro n. rewrite N.lxor_spec, !step_bits, !N.lxor_spec.
    destruct (n <? w), (negb (n =? 0)), (N.testbit r (n - 1)), (N.testbit d (n - 1)),
      (N.testbit r (w - 1)), (N.testbit d (w - 1)), b, e, (N.testbit P n); reflexivity.
  Qed.

  Lemma step_zero : step 0 false = 0.
  Proof. apply N.bits_inj. intro n. rewrite step_bits, !N.bits_0. rewrite andb_false_r. reflexivity. Qed.

  Lemma step_bound r b : step r b < 2 ^ w.
  Proof. apply crc_step_bound. exact Hwf. Qed.

  (* an input bit enters at the top of the register *)
  Lemma step_input r e : step r e = T (N.lxor r (if e then 2 ^ (w - 1) else 0)).
  Proof.
    destruct e; [|rewrite N.lxor_0_r; reflexivity].
    apply N.bits_inj. intro n. unfold T. rewrite !step_bits, !N.lxor_spec, !N.pow2_bits_eqb, N.eqb_refl.
    destruct (N.eqb_spec (w - 1) (n - 1)) as [E|E].
    - destruct (N.ltb_spec n w) as [L|L]; destruct (N.eqb_spec n 0) as [Z|Z]; cbn [negb andb]; try lia;
        destruct (N.testbit r (n - 1)), (N.testbit r (w - 1)), (N.testbit P n); reflexivity.
    - rewrite xorb_false_r. destruct (N.testbit r (w - 1)); reflexivity.
  Qed.

  (* with a non-zero constant term the zero-input step is injective on register values *)
  Lemma T_injective x y : x < 2 ^ w -> y < 2 ^ w -> T x = T y -> x = y.
  Proof.
    intros Hx Hy E. destruct Hwf as (Hw & _).
    assert (Hb : forall n, N.testbit (T x) n = N.testbit (T y) n) by (intro n; rewrite E; reflexivity).
    assert (Htop : N.testbit x (w - 1) = N.testbit y (w - 1)).
    { assert (HP0 : N.testbit P 0 = true) by (unfold P; rewrite N.bit0_odd; exact Hodd).
      specialize (Hb 0). unfold T in Hb. rewrite !step_bits, HP0 in Hb.
      change (0 =? 0) with true in Hb. cbn [negb] in Hb. rewrite !andb_false_r, !xorb_false_r, !andb_true_r in Hb.
      cbn [andb xorb] in Hb. destruct (N.testbit x (w - 1)), (N.testbit y (w - 1)); try reflexivity; discriminate Hb. }
    apply N.bits_inj. intro n. destruct (N.ltb_spec n (w - 1)) as [L|L].
    - specialize (Hb (n + 1)). unfold T in Hb. rewrite !step_bits in Hb. rewrite Htop in Hb.
      replace (n + 1 - 1) with n in Hb by lia.
      replace (n + 1 <? w) with true in Hb by (symmetry; apply N.ltb_lt; lia).
      replace (n + 1 =? 0) with false in Hb by (symmetry; apply N.eqb_neq; lia). cbn [negb andb] in Hb.
      destruct (N.testbit x n), (N.testbit y n), (xorb (N.testbit y (w - 1)) false && N.testbit P (n + 1)); try reflexivity; discriminate Hb.
    - destruct (N.eq_dec n (w - 1)) as [->|Hne]; [exact Htop|].
      rewrite (bits_high x w n Hx), (bits_high y w n Hy) by lia. reflexivity.
  Qed.

  Fixpoint iterT (k : nat) (r : N) : N := match k with O => r | S k' => iterT k' (T r) end.
  Lemma iterT_bound k r : r < 2 ^ w -> iterT k r < 2 ^ w.
  Proof. revert r; induction k as [|k IH]; intros r Hr; cbn [iterT]; [exact Hr|]. apply IH. apply step_bound. Qed.
  Lemma iterT_nonzero k r : r < 2 ^ w -> r <> 0 -> iterT k r <> 0.
  Proof.
    revert r; induction k as [|k IH]; intros r Hr Hn; cbn [iterT]; [exact Hn|]. apply IH; [apply step_bound|].
    intro E. apply Hn. apply T_injective; [exact Hr|destruct Hwf as (Hw & _); apply N.neq_0_lt_0, N.pow_nonzero; discriminate|].
    rewrite E. unfold T. rewrite step_zero. reflexivity.
  Qed.
  Lemma iterT_linear k x y : iterT k (N.lxor x y) = N.lxor (iterT k x) (iterT k y).
  Proof.
    revert x y; induction k as [|k IH]; intros x y; cbn [iterT]; [reflexivity|]. rewrite <- IH. f_equal.
    unfold T. rewrite <- step_linear. reflexivity.
  Qed.
  Lemma iterT_succ k r : iterT (S k) r = T (iterT k r).
  Proof. revert r; induction k as [|k IH]; intro r; [reflexivity|]. cbn [iterT] in *. rewrite IH. reflexivity. Qed.
  (* below the top, the zero-input step is a plain shift *)
  Lemma T_pow2 i : i + 1 < w -> T (2 ^ i) = 2 ^ (i + 1).
  Proof.
    intros Hi. apply N.bits_inj. intro n. unfold T. rewrite step_bits, !N.pow2_bits_eqb.
    replace (i =? w - 1) with false by (symmetry; apply N.eqb_neq; lia). cbn [xorb andb]. rewrite xorb_false_r.
    destruct (N.eqb_spec (i + 1) n) as [<-|Hne].
    - replace (i + 1 <? w) with true by (symmetry; apply N.ltb_lt; lia).
      replace (i + 1 =? 0) with false by (symmetry; apply N.eqb_neq; lia).
      replace (i + 1 - 1) with i by lia. rewrite N.eqb_refl. reflexivity.
    - destruct (N.eqb_spec n 0) as [->|Hz]; [rewrite andb_false_r; reflexivity|].
      replace (i =? n - 1) with false by (symmetry; apply N.eqb_neq; lia). apply andb_false_r.
  Qed.
  Lemma iterT_pow2 k i : i + N.of_nat k < w -> iterT k (2 ^ i) = 2 ^ (i + N.of_nat k).
  Proof.
    revert i; induction k as [|k IH]; intros i Hi; cbn [iterT]; [f_equal; lia|].
    rewrite T_pow2 by lia. rewrite IH by lia. f_equal. lia.
  Qed.

  (* the vector a window of difference bits loads: bit w-1-j for the first, downwards *)
  Fixpoint winval (j : nat) (win : list bool) : N :=
    match win with
    | [] => 0
    | e :: r => N.lxor (if e then 2 ^ (w - 1 - N.of_nat j) else 0) (winval (S j) r)
    end.
  Lemma winval_bound j win : N.of_nat j + N.of_nat (length win) <= w -> winval j win < 2 ^ (w - N.of_nat j).
  Proof.
    revert j; induction win as [|e r IH]; intros j Hj; cbn [winval length] in *.
    - apply N.neq_0_lt_0, N.pow_nonzero. discriminate.
    - apply lxor_bound.
      + destruct e; [apply N.pow_lt_mono_r; lia|apply N.neq_0_lt_0, N.pow_nonzero; discriminate].
      + eapply N.lt_le_trans; [apply IH; lia|]. apply N.pow_le_mono_r; lia.
  Qed.

  Lemma iterT_zero k : iterT k 0 = 0.
  Proof. induction k as [|k IH]; cbn [iterT]; [reflexivity|]. unfold T. rewrite step_zero. exact IH. Qed.

  Lemma window_run win : forall j d, N.of_nat j + N.of_nat (length win) <= w ->
    fold_left step win (iterT j d) = iterT (j + length win) (N.lxor d (winval j win)).
  Proof.
    induction win as [|e r IH]; intros j d Hj; cbn [fold_left winval length] in *.
    - rewrite N.lxor_0_r, Nat.add_0_r. reflexivity.
    - rewrite step_input.
      assert (E : N.lxor (iterT j d) (if e then 2 ^ (w - 1) else 0)
                  = iterT j (N.lxor d (if e then 2 ^ (w - 1 - N.of_nat j) else 0))).
      { rewrite iterT_linear. f_equal. destruct e; [|rewrite iterT_zero; reflexivity].
        rewrite iterT_pow2 by lia. f_equal. lia. }
      rewrite E, <- iterT_succ, IH by lia. rewrite N.lxor_assoc. f_equal. lia.
  Qed.

  Lemma winval_nonzero win : forall j, N.of_nat j + N.of_nat (length win) <= w ->
    existsb (fun b => b) win = true -> winval j win <> 0.
  Proof.
    induction win as [|e r IH]; intros j Hj Hex; cbn [existsb winval length] in *; [discriminate Hex|].
    destruct e.
    - intro E. assert (Hb : N.testbit (N.lxor (2 ^ (w - 1 - N.of_nat j)) (winval (S j) r)) (w - 1 - N.of_nat j) = false)
        by (rewrite E; apply N.bits_0).
      rewrite N.lxor_spec, N.pow2_bits_eqb, N.eqb_refl in Hb.
      rewrite (bits_high (winval (S j) r) (w - N.of_nat (S j))) in Hb; [discriminate Hb|apply winval_bound; lia|lia].
    - rewrite N.lxor_0_l. apply IH; [lia|exact Hex].
  Qed.

  (* ---- two runs and their difference ---- *)
  Definition zipx (l l' : list bool) : list bool := map (fun p => xorb (fst p) (snd p)) (combine l l').
  Lemma run_diff l : forall l' r r', length l = length l' ->
    N.lxor (fold_left step l r) (fold_left step l' r') = fold_left step (zipx l l') (N.lxor r r').
  Proof.
    induction l as [|b l IH]; intros [|b' l'] r r' Hl; try discriminate Hl; [reflexivity|].
    cbn [fold_left zipx combine map fst snd]. rewrite step_linear. apply IH. cbn [length] in Hl. lia.
  Qed.
  Lemma zeros_run k d : fold_left step (repeat false k) d = iterT k d.
  Proof. revert d; induction k as [|k IH]; intro d; cbn [repeat fold_left iterT]; [reflexivity|]. apply IH. Qed.
  Lemma zipx_same_prefix p x y : zipx (p ++ x) (p ++ y) = repeat false (length p) ++ zipx x y.
  Proof.
    induction p as [|b p IH]; [reflexivity|]. unfold zipx in *. cbn [app combine map fst snd length repeat].
    rewrite xorb_nilpotent, IH. reflexivity.
  Qed.
  Lemma zipx_same_suffix x : forall y s, length x = length y -> zipx (x ++ s) (y ++ s) = zipx x y ++ repeat false (length s).
  Proof.
    induction x as [|b x IH]; intros [|c y] s Hl; try discriminate Hl.
    - cbn [app]. rewrite <- (app_nil_r s) at 1 2. rewrite zipx_same_prefix. unfold zipx. cbn [combine map]. rewrite app_nil_r. reflexivity.
    - unfold zipx in *. cbn [app combine map fst snd]. rewrite IH by (cbn [length] in Hl; lia). reflexivity.
  Qed.
  Lemma zipx_differs x : forall y, length x = length y -> x <> y -> existsb (fun b => b) (zipx x y) = true.
  Proof.
    induction x as [|b x IH]; intros [|c y] Hl Hne; try discriminate Hl; [exfalso; apply Hne; reflexivity|].
    unfold zipx in *. cbn [combine map fst snd existsb]. destruct b, c; cbn [xorb orb]; try reflexivity;
      (apply IH; [cbn [length] in Hl; lia|intro E; apply Hne; rewrite E; reflexivity]).
  Qed.
  Lemma zipx_length x : forall y, length x = length y -> length (zipx x y) = length x.
  Proof. intros y Hl. unfold zipx. rewrite map_length, combine_length. lia. Qed.

  (* the register after two bit streams that differ inside a window of at most w bits *)
  Lemma burst_registers p w1 w2 s r : r < 2 ^ w ->
    length w1 = length w2 -> N.of_nat (length w1) <= w -> w1 <> w2 ->
    fold_left step (p ++ w1 ++ s) r <> fold_left step (p ++ w2 ++ s) r.
  Proof.
    intros Hr Hl Hw Hne E. apply N.lxor_eq_0_iff in E. rewrite run_diff in E by (rewrite !app_length; lia).
    rewrite N.lxor_nilpotent, zipx_same_prefix, zipx_same_suffix in E by exact Hl.
    rewrite fold_left_app, (zeros_run (length p)), iterT_zero, fold_left_app in E.
    change (fold_left step (zipx w1 w2) 0) with (fold_left step (zipx w1 w2) (iterT 0 0)) in E.
    rewrite window_run in E by (rewrite zipx_length by exact Hl; cbn; lia).
    rewrite zeros_run, N.lxor_0_l in E. revert E. apply iterT_nonzero.
    - apply iterT_bound. eapply N.lt_le_trans; [apply winval_bound; rewrite zipx_length by exact Hl; cbn; lia|].
      apply N.pow_le_mono_r; [discriminate|cbn; lia].
    - apply iterT_nonzero.
      + eapply N.lt_le_trans; [apply winval_bound; rewrite zipx_length by exact Hl; cbn; lia|]. apply N.pow_le_mono_r; [discriminate|cbn; lia].
      + apply winval_nonzero; [rewrite zipx_length by exact Hl; cbn; lia|]. apply zipx_differs; assumption.
  Qed.
End Burst.

(* ---- the bit stream a message feeds into the register ---- *)
Definition byte_stream (a : crc_alg) (b : byte) : list bool :=
  byte_bits_msb 8 (if c_refin a then reflect_bits 8 b else b).
Definition msg_bits (a : crc_alg) (bs : list byte) : list bool := flat_map (byte_stream a) bs.

Lemma crc_update_bits a bs : forall reg, crc_update a reg bs = fold_left (crc_step_bit a) (msg_bits a bs) reg.
Proof.
  unfold crc_update, msg_bits. induction bs as [|b bs IH]; intro reg; cbn [fold_left flat_map]; [reflexivity|].
  rewrite fold_left_app, IH. reflexivity.
Qed.

Lemma reflect_bits_spec n : forall v i, N.testbit (reflect_bits n v) i = (i <? N.of_nat n) && N.testbit v (N.of_nat n - 1 - i).
Proof.
  induction n as [|n IH]; intros v i; cbn [reflect_bits]; [rewrite N.bits_0; replace (i <? N.of_nat 0) with false by (symmetry; apply N.ltb_ge; lia); reflexivity|].
  rewrite N.lor_spec, IH, N.shiftr_spec'. destruct (N.ltb_spec i (N.of_nat n)) as [L|L].
  - rewrite N.shiftl_spec_low by exact L. replace (i <? N.of_nat (S n)) with true by (symmetry; apply N.ltb_lt; lia).
    cbn [orb andb]. f_equal. lia.
  - rewrite N.shiftl_spec_high' by exact L. rewrite N.land_spec. change 1 with (2 ^ 0). rewrite N.pow2_bits_eqb.
    cbn [andb]. rewrite orb_false_r. destruct (N.eq_dec i (N.of_nat n)) as [->|Hne].
    + rewrite N.sub_diag. change (0 =? 0) with true. rewrite andb_true_r.
      replace (N.of_nat n <? N.of_nat (S n)) with true by (symmetry; apply N.ltb_lt; lia). cbn [andb]. f_equal. lia.
    + replace (0 =? i - N.of_nat n) with false by (symmetry; apply N.eqb_neq; lia). rewrite andb_false_r.
      replace (i <? N.of_nat (S n)) with false by (symmetry; apply N.ltb_ge; lia). reflexivity.
Qed.
Lemma reflect_bits_inj n x y : x < 2 ^ N.of_nat n -> y < 2 ^ N.of_nat n -> reflect_bits n x = reflect_bits n y -> x = y.
Proof.
  intros Hx Hy E. apply N.bits_inj. intro m. destruct (N.ltb_spec m (N.of_nat n)) as [L|L].
  - assert (Hb : N.testbit (reflect_bits n x) (N.of_nat n - 1 - m) = N.testbit (reflect_bits n y) (N.of_nat n - 1 - m)) by (rewrite E; reflexivity).
    rewrite !reflect_bits_spec in Hb. replace (N.of_nat n - 1 - m <? N.of_nat n) with true in Hb by (symmetry; apply N.ltb_lt; lia).
    replace (N.of_nat n - 1 - (N.of_nat n - 1 - m)) with m in Hb by lia. exact Hb.
  - rewrite (bits_high x _ m Hx L), (bits_high y _ m Hy L). reflexivity.
Qed.

Lemma crc_finalize_inj a x y : x < 2 ^ c_width a -> y < 2 ^ c_width a -> crc_finalize a x = crc_finalize a y -> x = y.
Proof.
  intros Hx Hy E. unfold crc_finalize in E.
  assert (E' : (if c_refout a then reflect_bits (N.to_nat (c_width a)) x else x) = (if c_refout a then reflect_bits (N.to_nat (c_width a)) y else y)).
  { apply N.bits_inj. intro n. pose proof (f_equal (fun z => N.testbit z n) E) as Hb. cbv beta in Hb.
    rewrite !N.lxor_spec in Hb.
    destruct (N.testbit (if c_refout a then reflect_bits (N.to_nat (c_width a)) x else x) n),
             (N.testbit (if c_refout a then reflect_bits (N.to_nat (c_width a)) y else y) n),
             (N.testbit (c_xorout a) n); try reflexivity; discriminate Hb. }
  destruct (c_refout a); [|exact E']. apply (reflect_bits_inj (N.to_nat (c_width a))); rewrite ?N2Nat.id; assumption.
Qed.

(* two messages whose bit streams agree outside a window of at most `width` bits, and differ
   inside it, have different checksums *)
Theorem crc_burst (a : crc_alg) (bs bs' : list byte) (p w1 w2 s : list bool) :
  wf_alg a -> N.odd (c_poly a) = true ->
  msg_bits a bs = p ++ w1 ++ s -> msg_bits a bs' = p ++ w2 ++ s ->
  length w1 = length w2 -> N.of_nat (length w1) <= c_width a -> w1 <> w2 ->
  crc a bs <> crc a bs'.
Proof.
  intros Hwf Hodd H1 H2 Hl Hw Hne E. pose proof Hwf as (_ & _ & Hi & _). unfold crc in E.
  apply crc_finalize_inj in E; [|apply crc_update_bound; assumption|apply crc_update_bound; assumption].
  rewrite !crc_update_bits, H1, H2 in E. revert E. apply burst_registers; assumption.
Qed.

(* ---- a single flipped payload bit ---- *)
Fixpoint diff_split (l l' : list bool) : option (list bool * bool * list bool) :=
  match l, l' with
  | x :: r, y :: r' =>
    if Bool.eqb x y then match diff_split r r' with Some (q, e, t) => Some (x :: q, e, t) | None => None end
    else if list_eq_dec bool_dec r r' then Some ([], x, r) else None
  | _, _ => None
  end.
Lemma diff_split_ok l : forall l' q e t, diff_split l l' = Some (q, e, t) -> l = q ++ [e] ++ t /\ l' = q ++ [negb e] ++ t.
Proof.
  induction l as [|x r IH]; intros [|y r'] q e t H; try discriminate H. cbn [diff_split] in H.
  destruct (Bool.eqb x y) eqn:E.
  - apply eqb_prop in E. subst y. destruct (diff_split r r') as [[[q0 e0] t0]|] eqn:D; try discriminate H.
    injection H as <- <- <-. destruct (IH r' q0 e0 t0 D) as [-> ->]. split; reflexivity.
  - destruct (list_eq_dec bool_dec r r') as [<-|]; try discriminate H. injection H as <- <- <-.
    split; [reflexivity|]. destruct x, y; try discriminate E; reflexivity.
Qed.
Definition bstream (refin : bool) (b : byte) : list bool := byte_bits_msb 8 (if refin then reflect_bits 8 b else b).
Definition flip_ok (refin : bool) (j : N) (b : byte) : bool :=
  match diff_split (bstream refin b) (bstream refin (N.lxor b (2 ^ j))) with Some _ => true | None => false end.
Lemma flip_sweep : forallb (fun refin => forallb (fun j => forallb (flip_ok refin j) all_bytes) [0; 1; 2; 3; 4; 5; 6; 7]) [true; false] = true.
Proof. vm_compute. reflexivity. Qed.
Lemma flip_split refin j b : j < 8 -> b < 256 ->
  exists q e t, bstream refin b = q ++ [e] ++ t /\ bstream refin (N.lxor b (2 ^ j)) = q ++ [negb e] ++ t.
Proof.
  intros Hj Hb. pose proof flip_sweep as H. rewrite forallb_forall in H.
  assert (Hr : In refin [true; false]) by (destruct refin; cbn; auto). specialize (H refin Hr). rewrite forallb_forall in H.
  assert (Hin : In j [0; 1; 2; 3; 4; 5; 6; 7]).
  { assert (C : j = 0 \/ j = 1 \/ j = 2 \/ j = 3 \/ j = 4 \/ j = 5 \/ j = 6 \/ j = 7) by lia.
    cbn [In]. intuition. }
  specialize (H j Hin). pose proof (byte_sweep _ H b Hb) as F. unfold flip_ok in F.
  destruct (diff_split _ _) as [[[q e] t]|] eqn:D; try discriminate F. exists q, e, t. apply diff_split_ok. exact D.
Qed.

Theorem crc_single_bit (a : crc_alg) (p s : list byte) (b : byte) (j : N) :
  wf_alg a -> N.odd (c_poly a) = true -> b < 256 -> j < 8 ->
  crc a (p ++ b :: s) <> crc a (p ++ N.lxor b (2 ^ j) :: s).
Proof.
  intros Hwf Hodd Hb Hj. destruct (flip_split (c_refin a) j b Hj Hb) as (q & e & t & E1 & E2).
  apply (crc_burst a _ _ (msg_bits a p ++ q) [e] [negb e] (t ++ msg_bits a s) Hwf Hodd).
  - unfold msg_bits. rewrite flat_map_app. cbn [flat_map]. fold (msg_bits a p) (msg_bits a s).
    change (byte_stream a b) with (bstream (c_refin a) b). rewrite E1, <- !app_assoc. reflexivity.
  - unfold msg_bits. rewrite flat_map_app. cbn [flat_map]. fold (msg_bits a p) (msg_bits a s).
    change (byte_stream a (N.lxor b (2 ^ j))) with (bstream (c_refin a) (N.lxor b (2 ^ j))). rewrite E2, <- !app_assoc. reflexivity.
  - reflexivity.
  - destruct Hwf as (Hw & _). cbn [length]. lia.
  - destruct e; discriminate.
Qed.

(* ---- at the level of frames: a corrupted payload of unchanged decoded length is rejected ---- *)
Theorem crc_burst_rejected alg nb t (c c' crcb rest : list byte) (v v' : value) (p w1 w2 s : list bool) :
  wf_alg alg -> N.odd (c_poly alg) = true -> length crcb = nb ->
  take_from_bytes_crc alg nb t (c ++ crcb ++ rest) = Ok (v, rest) ->
  msg_bits alg c = p ++ w1 ++ s -> msg_bits alg c' = p ++ w2 ++ s ->
  length w1 = length w2 -> N.of_nat (length w1) <= c_width alg -> w1 <> w2 ->
  take_from_bytes_crc alg nb t (c' ++ crcb ++ rest) <> Ok (v', rest).
Proof.
  intros Hwf Hodd Hn Hacc H1 H2 Hl Hw Hne Hacc'.
  destruct (crc_accept_pins alg nb t c crcb rest v Hn Hacc) as [E1 _].
  destruct (crc_accept_pins alg nb t c' crcb rest v' Hn Hacc') as [E2 _].
  apply (crc_burst alg c c' p w1 w2 s Hwf Hodd H1 H2 Hl Hw Hne). congruence.
Qed.
Theorem crc_bit_flip_rejected alg nb t (p s crcb rest : list byte) (b : byte) (j : N) (v v' : value) :
  wf_alg alg -> N.odd (c_poly alg) = true -> length crcb = nb -> b < 256 -> j < 8 ->
  take_from_bytes_crc alg nb t ((p ++ b :: s) ++ crcb ++ rest) = Ok (v, rest) ->
  take_from_bytes_crc alg nb t ((p ++ N.lxor b (2 ^ j) :: s) ++ crcb ++ rest) <> Ok (v', rest).
Proof.
  intros Hwf Hodd Hn Hb Hj Hacc Hacc'.
  destruct (crc_accept_pins alg nb t _ crcb rest v Hn Hacc) as [E1 _].
  destruct (crc_accept_pins alg nb t _ crcb rest v' Hn Hacc') as [E2 _].
  apply (crc_single_bit alg p s b j Hwf Hodd Hb Hj). congruence.
Qed.

Lemma alg_okb_spec a : alg_okb a = true -> wf_alg a /\ N.odd (c_poly a) = true.
Proof.
  unfold alg_okb, wf_alg. intros H. apply andb_prop in H as [H Ho]. apply andb_prop in H as [H Hx].
  apply andb_prop in H as [H Hi]. apply andb_prop in H as [Hw Hp].
  apply N.leb_le in Hw. apply N.ltb_lt in Hp, Hi, Hx. repeat split; assumption.
Qed.
