(* SerEntryFacts.v: the entry points of SerFlavors.v are the flavour stacks read from ser/mod.rs
   (and the crc module of ser/flavors.rs) on this run, run through serialize_with_flavor as read
   from the source. *)
From PV Require Import Base DataModel Ser Cobs Crc SerFlavors SchemaDecl SerEntryDecl GenSerEntry StorageInterp SerEntryInterp.
Open Scope N_scope.

Lemma serialize_with_is_source {St Out} (fl : sflavor St Out) s0 v :
  serialize_with fl s0 v = serialize_with_err serialize_with_flavor_finalize_err fl s0 v.
Proof. reflexivity. Qed.

Definition e_to_slice : list N := [116; 111; 95; 115; 108; 105; 99; 101].
Definition e_to_vec : list N := [116; 111; 95; 118; 101; 99].
Definition e_to_allocvec : list N := [116; 111; 95; 97; 108; 108; 111; 99; 118; 101; 99].
Definition e_to_stdvec : list N := [116; 111; 95; 115; 116; 100; 118; 101; 99].
Definition e_to_extend : list N := [116; 111; 95; 101; 120; 116; 101; 110; 100].
Definition e_to_io : list N := [116; 111; 95; 105; 111].
Definition e_to_eio : list N := [116; 111; 95; 101; 105; 111].
Definition e_serialized_size : list N := [115; 101; 114; 105; 97; 108; 105; 122; 101; 100; 95; 115; 105; 122; 101].
Definition e_to_slice_cobs : list N := [116; 111; 95; 115; 108; 105; 99; 101; 95; 99; 111; 98; 115].
Definition e_to_vec_cobs : list N := [116; 111; 95; 118; 101; 99; 95; 99; 111; 98; 115].
Definition e_to_allocvec_cobs : list N := [116; 111; 95; 97; 108; 108; 111; 99; 118; 101; 99; 95; 99; 111; 98; 115].
Definition e_to_stdvec_cobs : list N := [116; 111; 95; 115; 116; 100; 118; 101; 99; 95; 99; 111; 98; 115].
Definition e_to_slice_crc32 : list N := [116; 111; 95; 115; 108; 105; 99; 101; 95; 99; 114; 99; 51; 50].
Definition e_to_vec_crc32 : list N := [116; 111; 95; 118; 101; 99; 95; 99; 114; 99; 51; 50].
Definition e_to_allocvec_crc32 : list N := [116; 111; 95; 97; 108; 108; 111; 99; 118; 101; 99; 95; 99; 114; 99; 51; 50].
Definition e_to_stdvec_crc32 : list N := [116; 111; 95; 115; 116; 100; 118; 101; 99; 95; 99; 114; 99; 51; 50].

Section Facts.
  Variable a : eargs.
  Variable v : value.

  Lemma plain_entries_are_source :
    omap EOSlice (to_slice v (ea_buf a)) = run_entry a v e_to_slice /\
    omap EOVec (to_vec (ea_cap a) v) = run_entry a v e_to_vec /\
    omap EOVec (to_allocvec v) = run_entry a v e_to_allocvec /\
    omap EOVec (to_allocvec v) = run_entry a v e_to_stdvec /\
    omap EOVec (to_extend v (ea_sink a)) = run_entry a v e_to_extend /\
    omap EOVec (to_io v (ea_limit a) (ea_flush_fails a)) = run_entry a v e_to_io /\
    omap EOVec (to_io v (ea_limit a) (ea_flush_fails a)) = run_entry a v e_to_eio /\
    omap EOSize (serialized_size v) = run_entry a v e_serialized_size.
  Proof. repeat split; reflexivity. Qed.

  Lemma cobs_entries_are_source :
    omap EOSlice (to_slice_cobs v (ea_buf a)) = run_entry a v e_to_slice_cobs /\
    omap EOVec (to_vec_cobs (ea_cap a) v) = run_entry a v e_to_vec_cobs /\
    omap EOVec (to_allocvec_cobs v) = run_entry a v e_to_allocvec_cobs /\
    omap EOVec (to_allocvec_cobs v) = run_entry a v e_to_stdvec_cobs.
  Proof.
    unfold to_slice_cobs, to_vec_cobs, to_allocvec_cobs.
    repeat split; cbv [run_entry]; cbn -[cobs_try_new serialize_with serialize_with_err cobs_flavor];
      match goal with |- context [cobs_try_new ?f ?s] => destruct (cobs_try_new f s) end; reflexivity.
  Qed.

  Lemma crc32_entries_are_source : ea_nb a = 4%nat ->
    omap EOSlice (to_slice_crc (ea_alg a) 4 v (ea_buf a)) = run_entry a v e_to_slice_crc32 /\
    omap EOVec (to_vec_crc (ea_alg a) 4 (ea_cap a) v) = run_entry a v e_to_vec_crc32 /\
    omap EOVec (to_allocvec_crc (ea_alg a) 4 v) = run_entry a v e_to_allocvec_crc32 /\
    omap EOVec (to_allocvec_crc (ea_alg a) 4 v) = run_entry a v e_to_stdvec_crc32.
  Proof.
    intros H. unfold to_slice_crc, to_vec_crc, to_allocvec_crc.
    repeat split; cbv [run_entry]; cbn -[serialize_with serialize_with_err crc_flavor Nat.eqb];
      rewrite H; reflexivity.
  Qed.
End Facts.
