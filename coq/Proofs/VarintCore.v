(* VarintCore.v: the varint reader/writer of the core crate, as instantiated by the loop
   parameters the translator extracted (GenLoops.v), on the slice flavour. *)
From Coq Require Import Lia ZifyBool ZifyNat ZifyN.
From PV Require Import Base MachineInt VarintParams GenArith GenLoops Varint WireFormat De
  BaseFacts BitFacts VarintFacts.
Open Scope N_scope.

(* The tie to the source: every copy of the loops found in the source has exactly the
   standard constants and comparisons.  These fail to compile when a copy is edited. *)
Lemma core_writers_std :
  core_writers = [std_writer u16; std_writer u32; std_writer u64; std_writer u128; std_writer usize].
Proof. reflexivity. Qed.
Lemma core_readers_std :
  core_readers = [std_reader u16 DeserializeBadVarint; std_reader u32 DeserializeBadVarint;
                  std_reader u64 DeserializeBadVarint; std_reader u128 DeserializeBadVarint].
Proof. reflexivity. Qed.
Lemma core_usize_is_u64 : core_usize_reader = u64 /\ usize = u64.
Proof. split; reflexivity. Qed.
Lemma dyn_writers_std : dyn_writers = core_writers.
Proof. reflexivity. Qed.
Lemma dyn_readers_std :
  dyn_readers = [std_reader u16 DynSchemaMismatch; std_reader u32 DynSchemaMismatch;
                 std_reader u64 DynSchemaMismatch; std_reader u128 DynSchemaMismatch].
Proof. reflexivity. Qed.
Lemma dyn_arith_same :
  (forall t, Dyn.varint_max t = Core.varint_max t) /\
  (forall t, Dyn.max_of_last_byte t = Core.max_of_last_byte t) /\
  (forall z, Dyn.zig_zag_i16 z = Core.zig_zag_i16 z) /\ (forall z, Dyn.zig_zag_i32 z = Core.zig_zag_i32 z) /\
  (forall z, Dyn.zig_zag_i64 z = Core.zig_zag_i64 z) /\ (forall z, Dyn.zig_zag_i128 z = Core.zig_zag_i128 z) /\
  (forall z, Dyn.de_zig_zag_i16 z = Core.de_zig_zag_i16 z) /\ (forall z, Dyn.de_zig_zag_i32 z = Core.de_zig_zag_i32 z) /\
  (forall z, Dyn.de_zig_zag_i64 z = Core.de_zig_zag_i64 z) /\ (forall z, Dyn.de_zig_zag_i128 z = Core.de_zig_zag_i128 z).
Proof. repeat split; reflexivity. Qed.

Lemma vdec_loop_ext {St X E} (p : rparams E) vmax molb (pop1 pop2 : St -> (byte * St) + X) :
  (forall s, pop1 s = pop2 s) ->
  forall fuel i out s, vdec_loop p vmax molb pop1 fuel i out s = vdec_loop p vmax molb pop2 fuel i out s.
Proof.
  intros H fuel; induction fuel as [|f IH]; intros i out s; [reflexivity|].
  cbn [vdec_loop]. rewrite H. destruct (pop2 s) as [[val s']|x]; [|reflexivity].
  destruct (wbits (r_ty p) <=? r_mul p * i); [reflexivity|].
  destruct (N.land val (r_flag p) =? 0); [reflexivity|]. apply IH.
Qed.

Lemma spec_vread_len t l : is_vty t ->
  spec_vread (wbits t) l = spec_vread_loop (wbits t) (N.to_nat (tvmax t)) 0 0 l.
Proof. intro Ht. unfold spec_vread. rewrite tvmax_len by assumption. reflexivity. Qed.

Lemma vdec_loop_stop {X E} (p : rparams E) vmax molb (x0 x : X) fuel i out l :
  vdec_loop p vmax molb (lpop x0) fuel i out l = VStop x -> x = x0.
Proof.
  revert i out l; induction fuel as [|f IH]; intros i out l; [discriminate|].
  cbn [vdec_loop]. destruct l as [|b r]; cbn [lpop]; [congruence|].
  destruct (wbits (r_ty p) <=? r_mul p * i); [discriminate|].
  destruct (N.land b (r_flag p) =? 0).
  - destruct (vmax <? r_lastoff p); [discriminate|].
    destruct (_ && _); discriminate.
  - apply IH.
Qed.

Theorem take_varint_spec t l :
  is_vty t -> bytes_ok l ->
  core_vdec (std_reader t DeserializeBadVarint) slice_pop l = vspec_res (spec_vread (wbits t) l).
Proof.
  intros Ht Hl. unfold core_vdec. cbn [std_reader r_ty r_errlast r_errlong].
  pose proof (vdec_spec (Err DeserializeUnexpectedEnd : res (byte * list byte)) DeserializeBadVarint
                        t (wbits t) (tvmax t) (tmolb t) (vfacts_of t Ht) eq_refl l Hl) as H.
  rewrite <- spec_vread_len in H by assumption.
  unfold vdec in *.
  rewrite (vdec_loop_ext _ _ _ _ (lpop (Err DeserializeUnexpectedEnd))).
  2:{ intros [|b r]; reflexivity. }
  fold (tvmax t) (tmolb t).
  destruct (vdec_loop _ _ _ _ _ _ _ _) as [n r|x| | |] eqn:Ev; cbn [vnorm] in H;
    try discriminate; inversion H as [H1]; try reflexivity.
  apply vdec_loop_stop in Ev. subst x. reflexivity.
Qed.

(* the canonical encoding consists of bytes *)
Lemma spec_varint_bytes_ok v : bytes_ok (spec_varint v).
Proof.
  induction v as [v IH] using (well_founded_induction N.lt_wf_0).
  rewrite spec_varint_unfold. destruct (N.ltb_spec v 128) as [Hs|Hs].
  - constructor; [unfold byte_ok; lia|constructor].
  - constructor.
    + unfold byte_ok. assert (v mod 128 < 128) by (apply N.mod_lt; discriminate). lia.
    + apply IH. apply N.div_lt; lia.
Qed.

Theorem take_varint_roundtrip t v rest :
  is_vty t -> v < 2 ^ wbits t -> bytes_ok rest ->
  core_vdec (std_reader t DeserializeBadVarint) slice_pop (venc (std_writer t) v ++ rest)
  = Ok (v, rest).
Proof.
  intros Ht Hv Hr. rewrite venc_std by assumption.
  rewrite take_varint_spec; [|assumption|apply bytes_ok_app; split; [apply spec_varint_bytes_ok|assumption]].
  assert (E : spec_vread (wbits t) (spec_varint v ++ rest) = VsOk v rest).
  { apply spec_vread_iff; [apply bytes_ok_app; split; [apply spec_varint_bytes_ok|assumption]|].
    exists (spec_varint v). split; [reflexivity|]. apply spec_varint_valid; [assumption|].
    destruct Ht as [E|[E|[E|E]]]; subst t; vm_compute; discriminate. }
  rewrite E. reflexivity.
Qed.
