(* DeSpec.v: C03.  The bit-level decoder of the implementation equals the arithmetic
   reference decoder spec_de on every input: same acceptance, value, remainder, error kind. *)
From Coq Require Import Lia ZifyBool ZifyNat ZifyN.
From PV Require Import Base MachineInt VarintParams GenArith GenLoops Varint Utf8 DataModel Ser De
  WireFormat BaseFacts BitFacts VarintFacts VarintCore ZigZagFacts ValueInd FixintFacts DeFacts.
Open Scope N_scope.

Lemma spec_vread_rest_ok w l n r : bytes_ok l -> spec_vread w l = VsOk n r -> bytes_ok r.
Proof.
  intros Hl H. apply spec_vread_iff in H; [|assumption]. destruct H as (bs & -> & _).
  apply bytes_ok_app in Hl. apply Hl.
Qed.

Lemma sd_varint_rest_ok w l n r : bytes_ok l -> sd_varint w l = Ok (n, r) -> bytes_ok r.
Proof.
  unfold sd_varint. intros Hl H. destruct (spec_vread w l) eqn:E; try discriminate.
  inversion H; subst. eapply spec_vread_rest_ok; eassumption.
Qed.

Lemma sd_take_rest_ok n l bs r : bytes_ok l -> sd_take n l = Ok (bs, r) -> bytes_ok bs /\ bytes_ok r.
Proof.
  unfold sd_take. intros Hl H. destruct (_ <? _); [discriminate|]. inversion H; subst.
  split; [apply Forall_firstn'|apply Forall_skipn']; assumption.
Qed.

Lemma take_varint_is_spec t l : is_vty t -> bytes_ok l ->
  take_varint slice_pop (std_reader t DeserializeBadVarint) l = sd_varint (wbits t) l.
Proof. intros. unfold take_varint, sd_varint. apply take_varint_spec; assumption. Qed.

Lemma cast_i8_byte b : b < 256 ->
  cast i8 (Z.of_N b) = if b <? 128 then Z.of_N b else (Z.of_N b - 256)%Z.
Proof.
  intro H. unfold cast, wrap. cbn [i8 signed bits]. change (2 ^ 8)%Z with 256%Z. change (2 ^ (8 - 1))%Z with 128%Z.
  rewrite Z.mod_small by lia.
  destruct (Z.ltb_spec (Z.of_N b) 128); destruct (N.ltb_spec b 128); lia.
Qed.

Lemma de_int_is_spec k l : bytes_ok l -> de_int slice_pop k l = sd_int k l.
Proof.
  intro Hl.
  assert (HV : forall uk, is_vty uk -> take_varint slice_pop (std_reader uk DeserializeBadVarint) l = sd_varint (wbits uk) l)
    by (intros; apply take_varint_is_spec; assumption).
  assert (HZ : forall k' W n r, signed_width k' = Some W -> sd_varint (Z.to_N W) l = Ok (n, r) ->
                                de_zig_zag k' (Z.of_N n) = spec_unzigzag n).
  { intros k' W n r Hk H. unfold sd_varint in H. destruct (spec_vread (Z.to_N W) l) eqn:E; try discriminate.
    inversion H; subst. apply spec_vread_iff in E; [|assumption]. destruct E as (bs & _ & _ & _ & _ & Hn).
    rewrite (de_zig_zag_spec k' W (Z.of_N n) Hk); [now rewrite N2Z.id|].
    destruct k'; inversion Hk; subst W; split; try lia;
      (apply N2Z.inj_lt in Hn; rewrite N2Z.inj_pow in Hn; exact Hn). }
  destruct k; cbn [de_int sd_int reader_of ik_width].
  - (* I8 *) destruct l as [|b r]; [reflexivity|]. cbn [slice_pop sd_byte bind].
    apply Forall_cons_iff in Hl as [Hb _]. rewrite cast_i8_byte by exact Hb. reflexivity.
  - change core_reader_u16 with (std_reader u16 DeserializeBadVarint). rewrite (HV u16) by (left; reflexivity).
    change (wbits u16) with 16. destruct (sd_varint 16 l) as [[n r]| | | |] eqn:E; try reflexivity.
    cbn [bind]. rewrite (HZ I16 16%Z n r eq_refl E). reflexivity.
  - change core_reader_u32 with (std_reader u32 DeserializeBadVarint). rewrite (HV u32) by (right; left; reflexivity).
    change (wbits u32) with 32. destruct (sd_varint 32 l) as [[n r]| | | |] eqn:E; try reflexivity.
    cbn [bind]. rewrite (HZ I32 32%Z n r eq_refl E). reflexivity.
  - change core_reader_u64 with (std_reader u64 DeserializeBadVarint). rewrite (HV u64) by (right; right; left; reflexivity).
    change (wbits u64) with 64. destruct (sd_varint 64 l) as [[n r]| | | |] eqn:E; try reflexivity.
    cbn [bind]. rewrite (HZ I64 64%Z n r eq_refl E). reflexivity.
  - change core_reader_u128 with (std_reader u128 DeserializeBadVarint). rewrite (HV u128) by (right; right; right; reflexivity).
    change (wbits u128) with 128. destruct (sd_varint 128 l) as [[n r]| | | |] eqn:E; try reflexivity.
    cbn [bind]. rewrite (HZ I128 128%Z n r eq_refl E). reflexivity.
  - (* U8 *) destruct l as [|b r]; reflexivity.
  - change core_reader_u16 with (std_reader u16 DeserializeBadVarint). rewrite (HV u16) by (left; reflexivity). reflexivity.
  - change core_reader_u32 with (std_reader u32 DeserializeBadVarint). rewrite (HV u32) by (right; left; reflexivity). reflexivity.
  - change core_reader_u64 with (std_reader u64 DeserializeBadVarint). rewrite (HV u64) by (right; right; left; reflexivity). reflexivity.
  - change core_reader_u128 with (std_reader u128 DeserializeBadVarint). rewrite (HV u128) by (right; right; right; reflexivity). reflexivity.
Qed.

Lemma sd_int_rest_ok k l v r : bytes_ok l -> sd_int k l = Ok (v, r) -> bytes_ok r.
Proof.
  intros Hl H. destruct k; cbn [sd_int] in H;
    try (destruct l as [|b l']; [discriminate|]; inversion H; subst; apply Forall_cons_iff in Hl; apply Hl);
    match type of H with context [sd_varint ?w l] => destruct (sd_varint w l) as [[n r']| | | |] eqn:E end;
    try discriminate; inversion H; subst; eapply sd_varint_rest_ok; eassumption.
Qed.

Lemma take_usize_is_spec l : bytes_ok l -> take_usize slice_pop l = sd_varint 64 l.
Proof.
  intro Hl. unfold take_usize. rewrite usize_reader_std.
  apply (take_varint_is_spec u64); [right; right; left; reflexivity|assumption].
Qed.

Section IterInv.
  Context {A : Type} (I : A -> Prop) (f g : A -> res A).
  Hypothesis Hfg : forall a, I a -> f a = g a /\ (forall a', g a = Ok a' -> I a').
  Lemma iter_nat_inv n a : I a ->
    iter_nat f n a = iter_nat g n a /\ (forall a', iter_nat g n a = Ok a' -> I a').
  Proof.
    revert a; induction n as [|n IH]; intros a Ha; cbn [iter_nat].
    - split; [reflexivity|]. intros a' E. inversion E; subst; assumption.
    - destruct (Hfg a Ha) as [E1 E2]. rewrite E1. destruct (g a) as [a0| | | |]; cbn [bind];
        try (split; [reflexivity|discriminate]).
      apply IH. apply E2. reflexivity.
  Qed.
End IterInv.

Definition DS (t : ty) : Prop :=
  forall l, bytes_ok l ->
            de_slice t l = spec_de t l /\ (forall v r, spec_de t l = Ok (v, r) -> bytes_ok r).

Lemma fields_is_spec ts : Forall DS ts ->
  forall l, bytes_ok l ->
    de_fields (de slice_pop slice_take_n) ts l = sd_fields spec_de ts l /\
    (forall vs r, sd_fields spec_de ts l = Ok (vs, r) -> bytes_ok r).
Proof.
  induction 1 as [|t ts Ht Hts IH]; intros l Hl; cbn [de_fields sd_fields].
  - split; [reflexivity|]. intros vs r E. inversion E; subst; assumption.
  - destruct (Ht l Hl) as [E1 E2]. fold (de_slice t l). rewrite E1.
    destruct (spec_de t l) as [[v l1]| | | |] eqn:Ed; cbn [bind]; try (split; [reflexivity|discriminate]).
    destruct (IH l1 (E2 v l1 eq_refl)) as [F1 F2]. rewrite F1.
    destruct (sd_fields spec_de ts l1) as [[vs l2]| | | |] eqn:Ef; cbn [bind]; try (split; [reflexivity|discriminate]).
    split; [reflexivity|]. intros vs' r E. inversion E; subst. eapply F2. reflexivity.
Qed.

Theorem de_is_spec_aux : forall t, DS t.
Proof.
  induction t as [ |k| | | | | |t IH| | |t IH|t IH|ts IH|ts IH|tk tv IHk IHv|ts IH|ts IH] using ty_ind';
    intros l Hl; unfold de_slice; cbn [de spec_de].
  - (* bool *) destruct l as [|b r]; cbn [slice_pop sd_byte bind]; [split; [reflexivity|discriminate]|].
    apply Forall_cons_iff in Hl as [_ Hr].
    split; [reflexivity|]. intros v r' E. destruct (b =? 0); [inversion E; subst; assumption|].
    destruct (b =? 1); [inversion E; subst; assumption|discriminate].
  - (* int *) split; [apply de_int_is_spec; assumption|]. intros v r E. eapply sd_int_rest_ok; eassumption.
  - (* f32 *) change (slice_take_n 4 l) with (sd_take 4 l). split; [reflexivity|].
    intros v r E. destruct (sd_take 4 l) as [[bs r']| | | |] eqn:Et; try discriminate.
    inversion E; subst. eapply sd_take_rest_ok; eassumption.
  - change (slice_take_n 8 l) with (sd_take 8 l). split; [reflexivity|].
    intros v r E. destruct (sd_take 8 l) as [[bs r']| | | |] eqn:Et; try discriminate.
    inversion E; subst. eapply sd_take_rest_ok; eassumption.
  - (* char *) unfold de_char. rewrite take_usize_is_spec by assumption.
    destruct (sd_varint 64 l) as [[n r]| | | |] eqn:En; cbn [bind]; try (split; [reflexivity|discriminate]).
    change (slice_take_n n r) with (sd_take n r). split; [reflexivity|].
    intros v r' E. destruct (4 <? n); [discriminate|].
    destruct (sd_take n r) as [[bs r2]| | | |] eqn:Et; try discriminate. cbn [bind] in E.
    assert (bytes_ok r2) by (eapply sd_take_rest_ok; [eapply sd_varint_rest_ok; eassumption|eassumption]).
    destruct (utf8_chars bs) as [[|c [|c2 cs]]|]; try discriminate. inversion E; subst. assumption.
  - (* str *) unfold de_str. rewrite take_usize_is_spec by assumption.
    destruct (sd_varint 64 l) as [[n r]| | | |] eqn:En; cbn [bind]; try (split; [reflexivity|discriminate]).
    change (slice_take_n n r) with (sd_take n r). split; [reflexivity|].
    intros v r' E. destruct (sd_take n r) as [[bs r2]| | | |] eqn:Et; try discriminate. cbn [bind] in E.
    assert (bytes_ok r2) by (eapply sd_take_rest_ok; [eapply sd_varint_rest_ok; eassumption|eassumption]).
    destruct (utf8_valid bs); [|discriminate]. inversion E; subst. assumption.
  - (* bytes *) unfold de_bytes. rewrite take_usize_is_spec by assumption.
    destruct (sd_varint 64 l) as [[n r]| | | |] eqn:En; cbn [bind]; try (split; [reflexivity|discriminate]).
    change (slice_take_n n r) with (sd_take n r). split; [reflexivity|].
    intros v r' E. destruct (sd_take n r) as [[bs r2]| | | |] eqn:Et; try discriminate. cbn [bind] in E.
    inversion E; subst. eapply sd_take_rest_ok; [eapply sd_varint_rest_ok; eassumption|eassumption].
  - (* option *) destruct l as [|b r]; cbn [slice_pop sd_byte bind]; [split; [reflexivity|discriminate]|].
    apply Forall_cons_iff in Hl as [_ Hr].
    destruct (b =? 0); [split; [reflexivity|]; intros v r' E; inversion E; subst; assumption|].
    destruct (b =? 1); [|split; [reflexivity|discriminate]].
    destruct (IH r Hr) as [E1 E2]. fold (de_slice t r). rewrite E1. split; [reflexivity|].
    intros v r' E. destruct (spec_de t r) as [[v0 r0]| | | |] eqn:Ed; try discriminate.
    inversion E; subst. eapply E2. reflexivity.
  - split; [reflexivity|]. intros v r E. inversion E; subst; assumption.
  - split; [reflexivity|]. intros v r E. inversion E; subst; assumption.
  - (* newtype *) destruct (IH l Hl) as [E1 E2]. fold (de_slice t l). rewrite E1. split; [reflexivity|].
    intros v r E. destruct (spec_de t l) as [[v0 r0]| | | |] eqn:Ed; try discriminate.
    inversion E; subst. eapply E2. reflexivity.
  - (* seq *) rewrite take_usize_is_spec by assumption.
    destruct (sd_varint 64 l) as [[n r]| | | |] eqn:En; cbn [bind]; try (split; [reflexivity|discriminate]).
    assert (Hr : bytes_ok r) by (eapply sd_varint_rest_ok; eassumption).
    rewrite !iter_N_nat.
    pose proof (iter_nat_inv (fun st : list value * list byte => bytes_ok (snd st))
      (fun st => let* '(v, s') := de slice_pop slice_take_n t (snd st) in Ok (v :: fst st, s'))
      (fun st => let* '(v, s') := spec_de t (snd st) in Ok (v :: fst st, s'))) as HI.
    destruct (HI ltac:(intros [acc s] Hs; cbn [snd fst] in *; destruct (IH s Hs) as [E1 E2];
                       fold (de_slice t s); rewrite E1; split; [reflexivity|];
                       intros [acc' s'] E; destruct (spec_de t s) as [[v0 r0]| | | |] eqn:Ed; try discriminate;
                       inversion E; subst; cbn [snd]; eapply E2; reflexivity)
                 (N.to_nat n) ([], r) Hr) as [L1 L2].
    rewrite L1. split; [reflexivity|].
    intros v r' E.
    destruct (iter_nat (fun st : list value * list byte => let* '(v, s') := spec_de t (snd st) in Ok (v :: fst st, s'))
                       (N.to_nat n) ([], r)) as [[racc r2]| | | |] eqn:Ei; try discriminate.
    inversion E; subst. apply (L2 (racc, r')). reflexivity.
  - (* tuple *) destruct (fields_is_spec ts IH l Hl) as [F1 F2]. rewrite F1. split; [reflexivity|].
    intros v r E. destruct (sd_fields spec_de ts l) as [[vs r0]| | | |] eqn:Ef; try discriminate.
    inversion E; subst. eapply F2. reflexivity.
  - destruct (fields_is_spec ts IH l Hl) as [F1 F2]. rewrite F1. split; [reflexivity|].
    intros v r E. destruct (sd_fields spec_de ts l) as [[vs r0]| | | |] eqn:Ef; try discriminate.
    inversion E; subst. eapply F2. reflexivity.
  - (* map *) rewrite take_usize_is_spec by assumption.
    destruct (sd_varint 64 l) as [[n r]| | | |] eqn:En; cbn [bind]; try (split; [reflexivity|discriminate]).
    assert (Hr : bytes_ok r) by (eapply sd_varint_rest_ok; eassumption).
    rewrite !iter_N_nat.
    pose proof (iter_nat_inv (fun st : list (value * value) * list byte => bytes_ok (snd st))
      (fun st => let* '(k, s') := de slice_pop slice_take_n tk (snd st) in
                 let* '(v, s'') := de slice_pop slice_take_n tv s' in Ok ((k, v) :: fst st, s''))
      (fun st => let* '(k, s') := spec_de tk (snd st) in
                 let* '(v, s'') := spec_de tv s' in Ok ((k, v) :: fst st, s''))) as HI.
    destruct (HI ltac:(intros [acc s] Hs; cbn [snd fst] in *; destruct (IHk s Hs) as [E1 E2];
                       fold (de_slice tk s); rewrite E1;
                       destruct (spec_de tk s) as [[k0 s1]| | | |] eqn:Ed; cbn [bind]; try (split; [reflexivity|discriminate]);
                       destruct (IHv s1 (E2 k0 s1 eq_refl)) as [G1 G2]; fold (de_slice tv s1); rewrite G1;
                       split; [reflexivity|];
                       intros [acc' s'] E; destruct (spec_de tv s1) as [[v0 r0]| | | |] eqn:Ed2; try discriminate;
                       inversion E; subst; cbn [snd]; eapply G2; reflexivity)
                 (N.to_nat n) ([], r) Hr) as [L1 L2].
    rewrite L1. split; [reflexivity|].
    intros v r' E.
    destruct (iter_nat (fun st : list (value * value) * list byte => let* '(k, s') := spec_de tk (snd st) in
                 let* '(v, s'') := spec_de tv s' in Ok ((k, v) :: fst st, s''))
                       (N.to_nat n) ([], r)) as [[racc r2]| | | |] eqn:Ei; try discriminate.
    inversion E; subst. apply (L2 (racc, r')). reflexivity.
  - (* struct *) destruct (fields_is_spec ts IH l Hl) as [F1 F2]. rewrite F1. split; [reflexivity|].
    intros v r E. destruct (sd_fields spec_de ts l) as [[vs r0]| | | |] eqn:Ef; try discriminate.
    inversion E; subst. eapply F2. reflexivity.
  - (* enum *) unfold take_varint. change core_reader_u32 with (std_reader u32 DeserializeBadVarint).
    fold (take_varint slice_pop (std_reader u32 DeserializeBadVarint) l).
    rewrite (take_varint_is_spec u32) by (try (right; left; reflexivity); assumption).
    change (wbits u32) with 32.
    destruct (sd_varint 32 l) as [[idx r]| | | |] eqn:En; cbn [bind]; try (split; [reflexivity|discriminate]).
    assert (Hr : bytes_ok r) by (eapply sd_varint_rest_ok; eassumption).
    destruct (N.of_nat (length ts) <=? idx); [split; [reflexivity|discriminate]|].
    generalize (N.to_nat idx). clear En.
    induction IH as [|t' ts' Ht' Hts' IHts]; intro i; [split; [reflexivity|discriminate]|].
    destruct i as [|i]; [|apply IHts].
    destruct (Ht' r Hr) as [E1 E2]. fold (de_slice t' r). rewrite E1. split; [reflexivity|].
    intros v r' E. destruct (spec_de t' r) as [[v0 r0]| | | |] eqn:Ed; try discriminate.
    inversion E; subst. eapply E2. reflexivity.
Qed.

Theorem de_is_spec t l : bytes_ok l -> de_slice t l = spec_de t l.
Proof. intro Hl. apply de_is_spec_aux, Hl. Qed.

(* what is consumed is a prefix: the remainder is a suffix of the input, untouched *)
Lemma spec_vread_end_iff w l : bytes_ok l ->
  (spec_vread w l = VsEnd <->
   Forall (fun b => 128 <= b) l /\ N.of_nat (length l) < varint_max_len w).
Proof.
  intro Hl. unfold spec_vread.
  assert (G : forall fuel i acc l, bytes_ok l ->
     (spec_vread_loop w fuel i acc l = VsEnd <-> Forall (fun b => 128 <= b) l /\ (length l < fuel)%nat)).
  { induction fuel as [|f IH]; intros i acc l0 Hl0; cbn [spec_vread_loop].
    - split; [discriminate|]. intros [_ H]. lia.
    - destruct l0 as [|b r].
      + split; [intros _; split; [constructor|simpl; lia]|reflexivity].
      + apply Forall_cons_iff in Hl0 as [Hb Hr]. destruct (N.ltb_spec b 128) as [Hlt|Hge].
        * split.
          -- destruct (_ <? _); discriminate.
          -- intros [H _]. apply Forall_cons_iff in H as [H _]. lia.
        * rewrite IH by assumption. cbn [length]. rewrite Forall_cons_iff. split.
          -- intros [H1 H2]. split; [split; assumption|lia].
          -- intros [[_ H1] H2]. split; [assumption|lia]. }
  rewrite G by assumption. split; intros [H1 H2]; split; try assumption; lia.
Qed.
