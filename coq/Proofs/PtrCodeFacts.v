(* PtrCodeFacts.v: the pointer-level slice flavours of SerFlavors.v / DeFlavors.v are what the
   raw-pointer method bodies read from ser/flavors.rs and de/flavors.rs compute (C04, C05). *)
From PV Require Import Base DataModel Ser SerFlavors DeFlavors SchemaDecl PtrDecl GenPtrCode PtrInterp.
From Coq Require Import Lia.
Open Scope N_scope.

Ltac pstep := cbn -[read_run read_at write_at splice firstn skipn Nat.leb Nat.ltb Nat.eqb length Nat.sub Nat.add N.to_nat N.of_nat N.ltb].

(* ---- de/flavors.rs: Slice ---- *)
Definition mach_of_d (s : dslice) : pmach :=
  {| pm_buf := ds_input s; pm_start := 0; pm_cursor := ds_cursor s; pm_end := ds_end s |}.
Definition d_of (m : pmach) : dslice := {| ds_input := pm_buf m; ds_cursor := pm_cursor m; ds_end := pm_end m |}.

Theorem dslice_pop_is_source s :
  dslice_pop s = let* '(m, r) := prun de_slice_pop [] (mach_of_d s) in
                 match r with QByte b => Ok (b, d_of m) | _ => Panic end.
Proof.
  unfold dslice_pop, prun, mach_of_d, d_of. pstep.
  destruct (Nat.eqb (ds_cursor s) (ds_end s)); pstep; [reflexivity|].
  destruct (read_at (ds_input s) (ds_cursor s)); pstep; [|reflexivity].
  rewrite Nat.add_1_r. reflexivity.
Qed.

Lemma ltb_N_nat a ct : (N.of_nat a <? ct) = Nat.ltb a (N.to_nat ct).
Proof. destruct (N.ltb_spec (N.of_nat a) ct), (Nat.ltb_spec a (N.to_nat ct)); try reflexivity; lia. Qed.

Theorem dslice_take_n_is_source ct s :
  dslice_take_n ct s = let* '(m, r) := prun de_slice_try_take_n [PvN (N.to_nat ct)] (mach_of_d s) in
                       match r with QBytes bs => Ok (bs, d_of m) | _ => Panic end.
Proof.
  unfold dslice_take_n, prun, mach_of_d, d_of. pstep.
  destruct (Nat.ltb (ds_end s) (ds_cursor s)); pstep; [reflexivity|].
  rewrite ltb_N_nat. destruct (Nat.ltb (ds_end s - ds_cursor s) (N.to_nat ct)); pstep; [reflexivity|].
  destruct (read_run (ds_input s) (ds_cursor s) (N.to_nat ct)); pstep; reflexivity.
Qed.

Theorem dslice_hint_is_source s : (ds_cursor s <= ds_end s)%nat ->
  (let* '(_, r) := prun de_slice_size_hint [] (mach_of_d s) in match r with QSome k => Ok (Some (N.of_nat k)) | _ => Panic end)
  = Ok (dslice_hint s).
Proof.
  intros H. unfold dslice_hint, prun, mach_of_d. pstep.
  destruct (Nat.ltb_spec (ds_end s) (ds_cursor s)); [lia|]. reflexivity.
Qed.

Theorem dslice_finalize_is_source s :
  dslice_finalize s = let* '(_, r) := prun de_slice_finalize [] (mach_of_d s) in
                      match r with QBytes bs => Ok bs | _ => Panic end.
Proof.
  unfold dslice_finalize, prun, mach_of_d. pstep.
  destruct (Nat.ltb (ds_end s) (ds_cursor s)); pstep; [reflexivity|].
  destruct (read_run (ds_input s) (ds_cursor s) (ds_end s - ds_cursor s)); pstep; reflexivity.
Qed.

(* ---- ser/flavors.rs: Slice ---- *)
Definition mach_of_s (s : slice_st) : pmach :=
  {| pm_buf := sl_buf s; pm_start := sl_start s; pm_cursor := sl_cursor s; pm_end := sl_end s |}.
Definition s_of (m : pmach) : slice_st :=
  {| sl_buf := pm_buf m; sl_start := pm_start m; sl_cursor := pm_cursor m; sl_end := pm_end m |}.

Theorem slice_push_is_source s b :
  slice_push s b = let* '(m, r) := prun ser_slice_try_push [PvByte b] (mach_of_s s) in
                   match r with QUnit => Ok (s_of m) | _ => Panic end.
Proof.
  unfold slice_push, prun, mach_of_s, s_of. pstep.
  destruct (Nat.eqb (sl_cursor s) (sl_end s)); pstep; [reflexivity|].
  destruct (write_at (sl_buf s) (sl_cursor s) b); pstep; [|reflexivity].
  rewrite Nat.add_1_r. reflexivity.
Qed.

Theorem slice_extend_is_source s bs :
  slice_extend s bs = let* '(m, r) := prun ser_slice_try_extend [PvBs bs] (mach_of_s s) in
                      match r with QUnit => Ok (s_of m) | _ => Panic end.
Proof.
  unfold slice_extend, prun, mach_of_s, s_of. pstep.
  destruct (Nat.ltb (sl_end s) (sl_cursor s)); pstep; [reflexivity|].
  destruct (Nat.ltb (sl_end s - sl_cursor s) (length bs)); pstep; [reflexivity|].
  rewrite Nat.ltb_irrefl. pstep. rewrite firstn_all.
  destruct (splice (sl_buf s) (sl_cursor s) bs); pstep; reflexivity.
Qed.

Lemma read_at_skipn' {A} (l : list A) i : read_at l i = match skipn i l with [] => None | x :: _ => Some x end.
Proof. revert i; induction l as [|x l IH]; intro i; destruct i; try reflexivity. cbn [read_at skipn]. apply IH. Qed.
Lemma skipn_S_tail' {A} (l : list A) i x r : skipn i l = x :: r -> skipn (S i) l = r.
Proof.
  revert i; induction l as [|y l IH]; intros i H; [destruct i; discriminate|].
  destruct i; cbn [skipn] in *; [inversion H; reflexivity|apply IH, H].
Qed.
Lemma read_run_skipn' (l : list byte) i n :
  (i + n <= length l)%nat -> read_run l i n = Some (firstn n (skipn i l)).
Proof.
  revert i; induction n as [|n IH]; intros i H; [reflexivity|].
  cbn [read_run]. rewrite read_at_skipn'.
  destruct (skipn i l) as [|x r] eqn:E.
  - assert (length (skipn i l) = 0)%nat by (rewrite E; reflexivity). rewrite skipn_length in *. lia.
  - rewrite IH by lia. rewrite (skipn_S_tail' l i x r E). reflexivity.
Qed.

(* finalize: from_raw_parts_mut(start, cursor - start), for a cursor inside the buffer *)
Theorem slice_finalize_is_source s : (sl_cursor s <= length (sl_buf s))%nat ->
  slice_finalize s = let* '(m, r) := prun ser_slice_finalize [] (mach_of_s s) in
                     match r with QBytes bs => Ok (bs, pm_buf m) | _ => Panic end.
Proof.
  intros H. unfold slice_finalize, prun, mach_of_s. pstep.
  destruct (Nat.ltb_spec (sl_cursor s) (sl_start s)) as [L|L]; pstep; [reflexivity|].
  rewrite read_run_skipn' by lia. pstep. reflexivity.
Qed.

(* IndexMut: assert!(idx < end - start), then the place start + idx *)
Theorem slice_set_is_source s idx b : (sl_start s <= sl_end s)%nat ->
  slice_set s idx b =
  let* '(m, r) := prun ser_slice_index_mut [PvN idx] (mach_of_s s) in
  match r with
  | QPlace at_ => match write_at (pm_buf m) at_ b with
                  | Some buf' => Ok {| sl_buf := buf'; sl_start := pm_start m; sl_cursor := pm_cursor m; sl_end := pm_end m |}
                  | None => Fault
                  end
  | _ => Panic
  end.
Proof.
  intros H. unfold slice_set, prun, mach_of_s. pstep.
  destruct (Nat.ltb_spec (sl_end s) (sl_start s)) as [L|L]; [lia|]. pstep.
  destruct (Nat.ltb idx (sl_end s - sl_start s)); pstep; reflexivity.
Qed.
