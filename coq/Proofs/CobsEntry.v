(* CobsEntry.v: C07.  from_bytes_cobs / take_from_bytes_cobs = COBS-decode the first frame
   with the reference decoder, then plain decoding; the remainder starts right after the
   frame's sentinel; never a panic, whatever the bytes. *)
From Coq Require Import Lia ZifyBool ZifyNat ZifyN.
From PV Require Import Base MachineInt DataModel De Cobs CobsRef DeFlavors
  BaseFacts ListAt PtrSlice Benign CobsDecFacts.
Open Scope N_scope.

Lemma de_slice_benign t l : benign (de_slice t l).
Proof.
  apply de_benign; [intros [|b r]; exact I|]. intros n l0. unfold slice_take_n. destruct (_ <? _); exact I.
Qed.

Definition cobs_then_plain (t : ty) (buf : list byte) : res (value * list byte) :=
  match cobs_dec_ref (take_frame buf) with
  | None => Err DeserializeBadEncoding
  | Some payload =>
    let* '(v, _) := de_slice t payload in
    Ok (v, skipn (S (length (take_frame buf))) buf)     (* what follows the sentinel, if any *)
  end.

Theorem take_from_bytes_cobs_spec t buf : take_from_bytes_cobs t buf = cobs_then_plain t buf.
Proof.
  unfold take_from_bytes_cobs, cobs_then_plain.
  pose proof (decode_in_place_spec buf) as H. set (E := length (take_frame buf)) in *.
  destruct (cobs_dec_ref (take_frame buf)) as [p|]; [|rewrite H; reflexivity].
  destruct H as (buf' & -> & HL & HF & HS & HP). cbn [bind dst_used src_used].
  pose proof (take_frame_length_le buf) as HEl. fold E in HEl.
  (* is there a sentinel right after the frame? *)
  assert (Hat : read_at buf' E = read_at buf E).
  { pose proof (read_at_skipn' buf' E 0) as A1. pose proof (read_at_skipn' buf E 0) as A2.
    rewrite Nat.add_0_r in A1, A2. rewrite <- A1, <- A2, HS. reflexivity. }
  rewrite Hat.
  destruct (Nat.ltb_spec (length buf') (length p)); [lia|].
  rewrite take_from_bytes_ptr_is_slice, HF.
  destruct (at_frame_end buf) as [Hz|Hend]; [fold E in Hz|fold E in Hend].
  - rewrite Hz. rewrite N.eqb_refl.
    destruct (Nat.ltb_spec (S E) (length p)); [lia|].
    assert (HEl' : (E < length buf)%nat) by (apply read_at_lt in Hz; exact Hz).
    rewrite skipn_length.
    destruct (Nat.ltb_spec (length buf' - length p) (S E - length p)); [lia|].
    rewrite skipn_skipn'. replace (length p + (S E - length p))%nat with (S E) by lia.
    assert (HS' : skipn (S E) buf' = skipn (S E) buf).
    { replace (S E) with (E + 1)%nat by lia. rewrite <- !skipn_skipn'. rewrite HS. reflexivity. }
    rewrite HS'. reflexivity.
  - rewrite (read_at_None buf E) by lia.
    destruct (Nat.ltb_spec E (length p)); [lia|].
    rewrite skipn_length.
    destruct (Nat.ltb_spec (length buf' - length p) (E - length p)); [lia|].
    rewrite skipn_skipn'. replace (length p + (E - length p))%nat with E by lia.
    rewrite HS, !skipn_all2 by lia. reflexivity.
Qed.

Theorem from_bytes_cobs_spec t buf :
  match from_bytes_cobs t buf, cobs_then_plain t buf with
  | Ok (v, buf'), Ok (v', _) => v = v' /\ length buf' = length buf
  | Err e, Err e' => e = e'
  | _, _ => False
  end.
Proof.
  unfold from_bytes_cobs, cobs_then_plain.
  pose proof (decode_in_place_spec buf) as H.
  destruct (cobs_dec_ref (take_frame buf)) as [p|]; [|rewrite H; reflexivity].
  destruct H as (buf' & -> & HL & HF & HS & HP). cbn [bind dst_used].
  pose proof (take_frame_length_le buf).
  destruct (Nat.ltb_spec (length buf') (length p)); [lia|].
  rewrite take_from_bytes_ptr_is_slice, HF.
  pose proof (de_slice_benign t p) as HB.
  destruct (de_slice t p) as [[v r]|e| | |]; cbn in HB |- *; try contradiction; auto.
Qed.

Theorem cobs_entry_total t buf :
  benign (take_from_bytes_cobs t buf) /\ benign (from_bytes_cobs t buf).
Proof.
  split.
  - rewrite take_from_bytes_cobs_spec. unfold cobs_then_plain. destruct (cobs_dec_ref _); [|exact I].
    pose proof (de_slice_benign t l) as HB. destruct (de_slice t l) as [[v r]|e| | |]; cbn in HB |- *; auto.
  - pose proof (from_bytes_cobs_spec t buf) as H.
    destruct (from_bytes_cobs t buf) as [[v b]|e| | |]; try exact I;
      destruct (cobs_then_plain t buf) as [[v' b']|e'| | |]; contradiction.
Qed.
